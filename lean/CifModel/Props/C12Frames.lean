import CifModel.Lemmas.DefectCharsSeg
import CifModel.Lemmas.DefectCharsPlain
import CifModel.Props.C12Chars
import CifModel.Props.C12Two
/-
  Props/C12Frames (group gW) — property C12 at CHARACTER level for (a) defects INSIDE SAVE FRAMES and (b) TWO defects in one text.

  Setting as in Props/C12Chars: the text is `renderChunks cs` for any accepted chunk list (every admissible presentation of every
  token, any whitespace and comments between tokens, lines ≤ 2048, acceptable first character), accept-all callback, no premise on
  the fuel.  Conclusion `Reports o cs sp content`: the parse returns CIF_OK, its log is EXACTLY the reports `sp` — codes in
  document order, each on the line behind the token at its position or behind the next token (`LinesAt`, two candidates as in
  `OneReportAt`) — and the content is `content`.

    * `C12_chars_segment`        any segment (Lemmas/ParserDefectSeg) of the element loop of a data block;
    * `C12_chars_in_frame`       any segment of the element loop of a SAVE FRAME of a data block (any well-formed elements —
                                 items, loops, frames — before and behind the frame in the block): the class theorems hold for any
                                 `View`, so every item-level class is covered; `C12_chars_items_in_frame` states the content as a
                                 document when the frame ends up with items; written out for the classes
                                 `C12_chars_<class>_in_frame` (missing value, unexpected value, dup item name, invalid item name,
                                 unexpected delimiter, partial packet, missing list delimiter, null key, missing key, missing value
                                 in a table);
    * `C12_chars_in_nested_frame`  the same two levels deep (a frame in a frame in a block, `max_frame_depth` unlimited);
    * `C12_chars_two_defects`    two one-report segments one after the other in a data block: EXACTLY two reports, in document
                                 order, each with its code and line; content = both repairs; written out for
                                 `C12_chars_missing_value_then_dup_itemname`.
-/
namespace CifModel.Props
open CifModel CifModel.Model CifModel.Model.Lexer CifModel.Model.Parser CifModel.Spec.Lexical CifModel.Spec.Grammar
open CifModel.Gen.ErrCodes CifModel.Lemmas.LexGlue CifModel.Lemmas.DefectChars

/-- the tokens `T` of a segment form the body of the data block `bc` -/
structure SegHost (o : Opts) (cs : List Chunk) (preB postB : List Block) (bc : Str) (T : List TokSpec) : Prop
    extends TextOk o cs, BlocksOk o preB postB bc where
  hToks : toks cs = blocksToks preB ++ ((.blockHead, bc) :: (T ++ blocksToks postB))

/-- the outcome: CIF_OK, exactly the reports `sp` (code, token position) in document order, each on its line, the content -/
def Reports (o : Opts) (cs : List Chunk) (sp : List (Code × Nat)) (content : Cif) : Prop :=
  ∃ rs, parse o acceptAll [] (renderChunks cs) = { rc := 0, log := rs, cif := content }
    ∧ rs.map (·.code) = sp.map (·.1) ∧ LinesAt cs rs sp

theorem Reports.two {o : Opts} {cs : List Chunk} {C1 C2 : Code} {j1 j2 : Nat} {content : Cif}
    (h : Reports o cs [(C1, j1), (C2, j2)] content) :
    ∃ r1 r2, parse o acceptAll [] (renderChunks cs) = { rc := 0, log := [r1, r2], cif := content }
      ∧ r1.code = C1 ∧ r2.code = C2 ∧ (r1.line = endLine cs j1 ∨ r1.line = endLine cs (j1 + 1))
      ∧ (r2.line = endLine cs j2 ∨ r2.line = endLine cs (j2 + 1)) := by
  obtain ⟨rs, hp, hc, hl⟩ := h
  cases rs with
  | nil => simp at hc
  | cons r1 t =>
    cases t with
    | nil => simp at hc
    | cons r2 t2 =>
      cases t2 with
      | nil =>
        simp only [List.map_cons, List.map_nil, List.cons.injEq, and_true] at hc
        exact ⟨r1, r2, hp, hc.1, hc.2, hl.1, hl.2.1⟩
      | cons _ _ => simp at hc

theorem Reports.one {o : Opts} {cs : List Chunk} {C : Code} {j : Nat} {content : Cif} (h : Reports o cs [(C, j)] content) :
    ∃ r, parse o acceptAll [] (renderChunks cs) = { rc := 0, log := [r], cif := content } ∧ r.code = C
      ∧ (r.line = endLine cs j ∨ r.line = endLine cs (j + 1)) := by
  obtain ⟨rs, hp, hc, hl⟩ := h
  cases rs with
  | nil => simp at hc
  | cons r1 t =>
    cases t with
    | nil =>
      simp only [List.map_cons, List.map_nil, List.cons.injEq, and_true] at hc
      exact ⟨r1, hp, hc, hl.1⟩
    | cons _ _ => simp at hc

/-- **C12_chars_segment** — any segment of the element loop of a data block, at character level -/
theorem C12_chars_segment {o : Opts} {cs : List Chunk} {preB postB : List Block} {bc : Str} {T : List TokSpec}
    (H : SegHost o cs preB postB bc T) (fs' : List Container) (ls' : List Loop) (sp : List (Code × Nat)) (n k need : Nat)
    (hneed : k + need ≤ 2 * T.length + 20) (hsp : ∀ cj ∈ sp, cj.2 ≤ T.length)
    (hseg : View o [o.norm bc] (fun x => denote o.dia o.normKey preB ++ [x]) bc →
      Seg o [o.norm bc] (fun x => denote o.dia o.normKey preB ++ [x]) bc true T [] [] fs' ls' sp n k need termFollow) :
    Reports o cs (shiftSpec ((blocksToks preB).length + 1) sp)
      (denote o.dia o.normKey preB ++ pruneC (.mk bc fs' ls') :: denote o.dia o.normKey postB) := by
  obtain ⟨c, rest, hc, hfirst, hbom⟩ := H.first
  obtain ⟨rs, h1, h2, h3⟩ := block_segs_chars o H.store H.mfd H.utf cs c rest preB postB bc T fs' ls' sp n k need _ H.ok H.fit hc hfirst
    hbom H.hToks H.wfPreB H.wfBc H.fresh H.wfPostB (fun b hb => List.mem_cons_of_mem _ (List.mem_map.mpr ⟨b, hb, rfl⟩))
    List.mem_cons_self hneed hsp hseg
  exact ⟨rs, h1, by simpa [shiftSpec, List.map_map, Function.comp_def] using h2, h3⟩

/-! ### defects inside a save frame -/

/-- the tokens of one level of nesting: elements, `save_fc`, the tokens `T`, `save_`, elements -/
def frameToks (preE postE : List Elem) (fc : Str) (T : List TokSpec) : List TokSpec :=
  (elemsToks preE ++ ((.frameHead, fc) :: (T ++ [(.frameTerm, [])]))) ++ elemsToks postE

theorem frameToks_length (preE postE : List Elem) (fc : Str) (T : List TokSpec) :
    (frameToks preE postE fc T).length = (elemsToks preE).length + (1 + T.length + 1) + (elemsToks postE).length := by
  simp [frameToks]; omega

/-- **C12_chars_in_frame** — a segment of the element loop of a SAVE FRAME `fc` of the data block `bc`: well-formed elements
    `preE` of the block in front of the frame (none of its frames has the code), well-formed elements `postE` behind it.  `hbody`:
    the segment, stated for every view of a frame under construction (the class theorems are).  The reports are those of the
    segment, `|tokens of the blocks in front| + 1 + |tokens of preE| + 1` tokens later; the block holds what `preE` denotes, the
    frame as the segment leaves it (pruned of empty loops at its `save_`), what `postE` denotes. -/
theorem C12_chars_in_frame {o : Opts} {cs : List Chunk} {preB postB : List Block} {bc : Str} (preE postE : List Elem) (fc : Str)
    {T : List TokSpec} (H : SegHost o cs preB postB bc (frameToks preE postE fc T)) (seen2 fseen2 : List Str)
    (fsb : List Container) (lsb : List Loop) (sp : List (Code × Nat)) (n k need : Nat)
    (hpre : wfElems o preE [] [] = true) (hcode : wfCode fc = true)
    (hnew : ∀ c ∈ (denoteElems o.dia o.normKey preE [] []).1, codeIs o.norm (o.norm fc) c = false)
    (hpost : wfElems o postE seen2 fseen2 = true)
    (hseen2 : ∀ k ∈ normNames o (denoteElems o.dia o.normKey preE [] []).2, k ∈ seen2)
    (hfseen2 : ∀ c ∈ (denoteElems o.dia o.normKey preE [] []).1 ++ [pruneC (.mk fc fsb lsb)], o.norm c.code ∈ fseen2)
    (hneed : k + need ≤ 2 * T.length + 20) (hsp : ∀ cj ∈ sp, cj.2 ≤ T.length)
    (hbody : ∀ {path : Path} {put : Container → Cif}, View o path put fc →
      Seg o path put fc false T [] [] fsb lsb sp n k need termFollow) :
    Reports o cs (shiftSpec ((blocksToks preB).length + 1 + (elemsToks preE).length + 1) sp)
      (denote o.dia o.normKey preB ++
        pruneC (.mk bc
          (denoteElems o.dia o.normKey postE ((denoteElems o.dia o.normKey preE [] []).1 ++ [pruneC (.mk fc fsb lsb)])
            (denoteElems o.dia o.normKey preE [] []).2).1
          (denoteElems o.dia o.normKey postE ((denoteElems o.dia o.normKey preE [] []).1 ++ [pruneC (.mk fc fsb lsb)])
            (denoteElems o.dia o.normKey preE [] []).2).2) :: denote o.dia o.normKey postB) := by
  have h1 := Lemmas.WriterChunks.szElems_toks preE
  have h2 := Lemmas.WriterChunks.szElems_toks postE
  have hl := frameToks_length preE postE fc T
  have := C12_chars_segment H _ _ (shiftSpec (elemsToks preE).length (shiftSpec 1 sp)) _ _ _
    (by rw [hl]; omega)
    (by
      intro cj hcj
      simp only [shiftSpec, List.map_map, List.mem_map, Function.comp_apply] at hcj
      obtain ⟨x, hx, rfl⟩ := hcj
      have := hsp x hx
      rw [hl]; simp only; omega)
    (fun hv => Seg.level o H.mfd hv true preE postE fc [] [] seen2 fseen2 [] [] T fsb lsb sp n k need (Or.inl rfl) hpre
      (by intro k hk; simp [normNames] at hk) (by intro c hc; cases hc) hcode hnew hpost hseen2 hfseen2
      (hbody (hv.child _ _ fc hnew)))
  simpa [shiftSpec, List.map_map, Function.comp_def, Nat.add_assoc] using this

/-- … when the frame ends up holding what the items `its` denote (no loop empty): the content is that of the DOCUMENT whose block
    `bc` has the body `preE ++ [save_fc its save_] ++ postE` -/
theorem C12_chars_items_in_frame {o : Opts} {cs : List Chunk} {preB postB : List Block} {bc : Str} (preE postE : List Elem) (fc : Str)
    {T : List TokSpec} (H : SegHost o cs preB postB bc (frameToks preE postE fc T)) (seen2 fseen2 : List Str)
    (its : List Item) (sp : List (Code × Nat)) (n k need : Nat)
    (hpre : wfElems o preE [] [] = true) (hcode : wfCode fc = true)
    (hnew : ∀ c ∈ (denoteElems o.dia o.normKey preE [] []).1, codeIs o.norm (o.norm fc) c = false)
    (hpost : wfElems o postE seen2 fseen2 = true)
    (hseen2 : ∀ k ∈ normNames o (denoteElems o.dia o.normKey preE [] []).2, k ∈ seen2)
    (hfseen2 : ∀ c ∈ (denoteElems o.dia o.normKey preE [] []).1 ++ [.mk fc [] []], o.norm c.code ∈ fseen2)
    (hpk : allPacked (denoteItems o.dia o.normKey its []))
    (hneed : k + need ≤ 2 * T.length + 20) (hsp : ∀ cj ∈ sp, cj.2 ≤ T.length)
    (hbody : ∀ {path : Path} {put : Container → Cif}, View o path put fc →
      Seg o path put fc false T [] [] [] (denoteItems o.dia o.normKey its []) sp n k need termFollow) :
    Reports o cs (shiftSpec ((blocksToks preB).length + 1 + (elemsToks preE).length + 1) sp)
      (denote o.dia o.normKey (preB ++ [{ code := bc, body := preE ++ [.frame fc (its.map Elem.plain)] ++ postE }] ++ postB)) := by
  have := C12_chars_in_frame preE postE fc H seen2 fseen2 [] (denoteItems o.dia o.normKey its []) sp n k need hpre hcode hnew hpost
    hseen2
    (by
      intro c hc
      rcases List.mem_append.mp hc with h | h
      · exact hfseen2 c (List.mem_append_left _ h)
      · simp only [List.mem_singleton] at h
        subst h
        rw [pruneC_code]
        have := hfseen2 (.mk fc [] []) (List.mem_append_right _ (by simp))
        simpa [Container.code] using this)
    hneed hsp hbody
  rw [pruneC_packed _ _ _ hpk] at this
  have hpk2 : allPacked (denoteElems o.dia o.normKey (preE ++ [.frame fc (its.map Elem.plain)] ++ postE) [] []).2 :=
    allPacked_around o preE postE fc its seen2 fseen2 hpre hpost
  have e : denoteElems o.dia o.normKey (preE ++ [.frame fc (its.map Elem.plain)] ++ postE) [] []
      = denoteElems o.dia o.normKey postE ((denoteElems o.dia o.normKey preE [] []).1 ++ [.mk fc [] (denoteItems o.dia o.normKey its [])])
          (denoteElems o.dia o.normKey preE [] []).2 := by
    rw [denoteElems_append, denoteElems_append, denoteElems_frame, denoteElems_plains]
    simp [denoteElems]
  rw [e] at hpk2
  rw [pruneC_packed _ _ _ hpk2, ← e] at this
  simpa [denote, denoteBlock] using this

/-! ### the item-level classes inside a save frame, written out -/

macro "framearith" : tactic =>
  `(tactic| (simp only [List.length_append, List.length_cons, List.length_nil, List.length_map, List.mem_singleton,
      forall_eq] <;> omega))

/-- **C12_chars_missing_value_in_frame** — a data name without value among the items of a save frame.  One report,
    CIF_MISSING_VALUE; content = the document in which the name has the unknown value in that frame. -/
theorem C12_chars_missing_value_in_frame (o : Opts) (cs : List Chunk) (preB postB : List Block) (bc : Str) (preE postE : List Elem)
    (fc : Str) (pre post : List Item) (n : Str) (iseen2 seen2 fseen2 : List Str)
    (H : SegHost o cs preB postB bc (frameToks preE postE fc (itemsToks pre ++ ((.name, n) :: itemsToks post))))
    (hpreE : wfElems o preE [] [] = true) (hcode : wfCode fc = true)
    (hnew : ∀ c ∈ (denoteElems o.dia o.normKey preE [] []).1, codeIs o.norm (o.norm fc) c = false)
    (hpostE : wfElems o postE seen2 fseen2 = true)
    (hseen2 : ∀ k ∈ normNames o (denoteElems o.dia o.normKey preE [] []).2, k ∈ seen2)
    (hfseen2 : ∀ c ∈ (denoteElems o.dia o.normKey preE [] []).1 ++ [.mk fc [] []], o.norm c.code ∈ fseen2)
    (hpre : wfItems o pre [] = true) (hname : wfName n = true)
    (hfresh : o.norm n ∉ normNames o (denoteItems o.dia o.normKey pre []))
    (hpost : wfItems o post iseen2 = true)
    (hiseen2 : ∀ k ∈ normNames o (denoteItems o.dia o.normKey (pre ++ [.item n .unk]) []), k ∈ iseen2) :
    Reports o cs [(CIF_MISSING_VALUE, (blocksToks preB).length + 1 + (elemsToks preE).length + 1 + ((itemsToks pre).length + 1))]
      (denote o.dia o.normKey (preB ++ [{ code := bc, body := preE ++ [.frame fc ((pre ++ [Item.item n .unk] ++ post).map Elem.plain)] ++ postE }] ++ postB)) := by
  have z1 := Lemmas.WriterChunks.szItems_toks pre
  have z2 := Lemmas.WriterChunks.szItems_toks post
  have := C12_chars_items_in_frame preE postE fc H seen2 fseen2 (pre ++ [.item n .unk] ++ post) _ _ _ _ hpreE hcode hnew hpostE hseen2
    hfseen2 (allPacked_run o pre post _ iseen2 hpre hpost (allPacked_item o n .unk)) (by framearith) (by framearith)
    (fun hv => C12_seg_missing_value o hv false pre post n [] iseen2 [] [] hpre (nil_seen o) hname hfresh hpost hiseen2)
  simpa [shiftSpec] using this

/-- **C12_chars_unexpected_value_in_frame** — a value where an item is expected, among the items of a save frame -/
theorem C12_chars_unexpected_value_in_frame (o : Opts) (cs : List Chunk) (preB postB : List Block) (bc : Str) (preE postE : List Elem)
    (fc : Str) (pre post : List Item) (v : Val) (iseen2 seen2 fseen2 : List Str)
    (H : SegHost o cs preB postB bc (frameToks preE postE fc (itemsToks pre ++ (valToks v ++ itemsToks post))))
    (hpreE : wfElems o preE [] [] = true) (hcode : wfCode fc = true)
    (hnew : ∀ c ∈ (denoteElems o.dia o.normKey preE [] []).1, codeIs o.norm (o.norm fc) c = false)
    (hpostE : wfElems o postE seen2 fseen2 = true)
    (hseen2 : ∀ k ∈ normNames o (denoteElems o.dia o.normKey preE [] []).2, k ∈ seen2)
    (hfseen2 : ∀ c ∈ (denoteElems o.dia o.normKey preE [] []).1 ++ [.mk fc [] []], o.norm c.code ∈ fseen2)
    (hpre : wfItems o pre [] = true) (hnoloop : lastIsLoop pre = false) (hwv : wfVal o v = true)
    (hpost : wfItems o post iseen2 = true)
    (hiseen2 : ∀ k ∈ normNames o (denoteItems o.dia o.normKey pre []), k ∈ iseen2) :
    Reports o cs [(CIF_UNEXPECTED_VALUE, (blocksToks preB).length + 1 + (elemsToks preE).length + 1 + ((itemsToks pre).length + 0))]
      (denote o.dia o.normKey (preB ++ [{ code := bc, body := preE ++ [.frame fc ((pre ++ post).map Elem.plain)] ++ postE }] ++ postB)) := by
  have z1 := Lemmas.WriterChunks.szItems_toks pre
  have z2 := Lemmas.WriterChunks.szItems_toks post
  have z3 := Lemmas.WriterChunks.szVal_toks v
  have z4 := szVal_pos v
  have := C12_chars_items_in_frame preE postE fc H seen2 fseen2 (pre ++ post) _ _ _ _ hpreE hcode hnew hpostE hseen2
    hfseen2 (by simpa using allPacked_run o pre post [] iseen2 hpre hpost (fun _ h => h)) (by framearith) (by framearith)
    (fun hv => C12_seg_unexpected_value o hv false pre post v [] iseen2 [] [] hpre (nil_seen o) hnoloop hwv hpost hiseen2)
  simpa [shiftSpec] using this

/-- **C12_chars_dup_itemname_in_frame** — a data name already defined in the save frame (any spelling), with its value -/
theorem C12_chars_dup_itemname_in_frame (o : Opts) (cs : List Chunk) (preB postB : List Block) (bc : Str) (preE postE : List Elem)
    (fc : Str) (pre post : List Item) (n : Str) (v : Val) (iseen2 seen2 fseen2 : List Str)
    (H : SegHost o cs preB postB bc (frameToks preE postE fc (itemsToks pre ++ (((.name, n) :: valToks v) ++ itemsToks post))))
    (hpreE : wfElems o preE [] [] = true) (hcode : wfCode fc = true)
    (hnew : ∀ c ∈ (denoteElems o.dia o.normKey preE [] []).1, codeIs o.norm (o.norm fc) c = false)
    (hpostE : wfElems o postE seen2 fseen2 = true)
    (hseen2 : ∀ k ∈ normNames o (denoteElems o.dia o.normKey preE [] []).2, k ∈ seen2)
    (hfseen2 : ∀ c ∈ (denoteElems o.dia o.normKey preE [] []).1 ++ [.mk fc [] []], o.norm c.code ∈ fseen2)
    (hpre : wfItems o pre [] = true) (hname : wfName n = true)
    (hdup : o.norm n ∈ normNames o (denoteItems o.dia o.normKey pre [])) (hwv : wfVal o v = true)
    (hpost : wfItems o post iseen2 = true)
    (hiseen2 : ∀ k ∈ normNames o (denoteItems o.dia o.normKey pre []), k ∈ iseen2) :
    Reports o cs [(CIF_DUP_ITEMNAME, (blocksToks preB).length + 1 + (elemsToks preE).length + 1 + ((itemsToks pre).length + 1))]
      (denote o.dia o.normKey (preB ++ [{ code := bc, body := preE ++ [.frame fc ((pre ++ post).map Elem.plain)] ++ postE }] ++ postB)) := by
  have z1 := Lemmas.WriterChunks.szItems_toks pre
  have z2 := Lemmas.WriterChunks.szItems_toks post
  have z3 := Lemmas.WriterChunks.szVal_toks v
  have := C12_chars_items_in_frame preE postE fc H seen2 fseen2 (pre ++ post) _ _ _ _ hpreE hcode hnew hpostE hseen2
    hfseen2 (by simpa using allPacked_run o pre post [] iseen2 hpre hpost (fun _ h => h)) (by framearith) (by framearith)
    (fun hv => C12_seg_dup_itemname o hv false pre post n v [] iseen2 [] [] hpre (nil_seen o) hname hdup hwv hpost hiseen2)
  simpa [shiftSpec] using this

/-- **C12_chars_invalid_itemname_in_frame** — an invalid data name with its value among the items of a save frame -/
theorem C12_chars_invalid_itemname_in_frame (o : Opts) (cs : List Chunk) (preB postB : List Block) (bc : Str) (preE postE : List Elem)
    (fc : Str) (pre post : List Item) (n : Str) (v : Val) (iseen2 seen2 fseen2 : List Str)
    (H : SegHost o cs preB postB bc (frameToks preE postE fc (itemsToks pre ++ (((.name, n) :: valToks v) ++ itemsToks post))))
    (hpreE : wfElems o preE [] [] = true) (hcode : wfCode fc = true)
    (hnew : ∀ c ∈ (denoteElems o.dia o.normKey preE [] []).1, codeIs o.norm (o.norm fc) c = false)
    (hpostE : wfElems o postE seen2 fseen2 = true)
    (hseen2 : ∀ k ∈ normNames o (denoteElems o.dia o.normKey preE [] []).2, k ∈ seen2)
    (hfseen2 : ∀ c ∈ (denoteElems o.dia o.normKey preE [] []).1 ++ [.mk fc [] []], o.norm c.code ∈ fseen2)
    (hpre : wfItems o pre [] = true) (hn0 : noNul n = true) (hinv : isValidName true n = false) (hwv : wfVal o v = true)
    (hpost : wfItems o post iseen2 = true)
    (hiseen2 : ∀ k ∈ normNames o (denoteItems o.dia o.normKey pre []), k ∈ iseen2) :
    Reports o cs [(CIF_INVALID_ITEMNAME, (blocksToks preB).length + 1 + (elemsToks preE).length + 1 + ((itemsToks pre).length + 1))]
      (denote o.dia o.normKey (preB ++ [{ code := bc, body := preE ++ [.frame fc ((pre ++ post).map Elem.plain)] ++ postE }] ++ postB)) := by
  have z1 := Lemmas.WriterChunks.szItems_toks pre
  have z2 := Lemmas.WriterChunks.szItems_toks post
  have z3 := Lemmas.WriterChunks.szVal_toks v
  have := C12_chars_items_in_frame preE postE fc H seen2 fseen2 (pre ++ post) _ _ _ _ hpreE hcode hnew hpostE hseen2
    hfseen2 (by simpa using allPacked_run o pre post [] iseen2 hpre hpost (fun _ h => h)) (by framearith) (by framearith)
    (fun hv => C12_seg_invalid_itemname o hv false pre post n v [] iseen2 [] [] hpre (nil_seen o) hn0 hinv hwv hpost hiseen2)
  simpa [shiftSpec] using this

/-- **C12_chars_partial_packet_in_frame** — a loop of a save frame whose last packet is short -/
theorem C12_chars_partial_packet_in_frame (o : Opts) (cs : List Chunk) (preB postB : List Block) (bc : Str) (preE postE : List Elem)
    (fc : Str) (pre post : List Item) (ns : List Str) (ps : List (List Val)) (pv : List Val) (iseen2 seen2 fseen2 : List Str)
    (H : SegHost o cs preB postB bc (frameToks preE postE fc
      (itemsToks pre ++ (((.loopKw, []) :: (ns.map (fun n => (TokType.name, n)) ++ (packetsToks ps ++ valsToks pv))) ++ itemsToks post))))
    (hpreE : wfElems o preE [] [] = true) (hcode : wfCode fc = true)
    (hnew : ∀ c ∈ (denoteElems o.dia o.normKey preE [] []).1, codeIs o.norm (o.norm fc) c = false)
    (hpostE : wfElems o postE seen2 fseen2 = true)
    (hseen2 : ∀ k ∈ normNames o (denoteElems o.dia o.normKey preE [] []).2, k ∈ seen2)
    (hfseen2 : ∀ c ∈ (denoteElems o.dia o.normKey preE [] []).1 ++ [.mk fc [] []], o.norm c.code ∈ fseen2)
    (hpre : wfItems o pre [] = true)
    (hwf : ∀ n ∈ ns, wfName n = true) (hfresh : ∀ n ∈ ns, o.norm n ∉ normNames o (denoteItems o.dia o.normKey pre []))
    (hnd : (ns.map o.norm).Nodup) (hlen : ∀ p ∈ ps, p.length = ns.length) (hwv : ∀ p ∈ ps, wfVals o p = true)
    (hpv : pv ≠ []) (hpl : pv.length < ns.length) (hwpv : wfVals o pv = true)
    (hpost : wfItems o post iseen2 = true)
    (hiseen2 : ∀ k ∈ normNames o (denoteItems o.dia o.normKey
        [.loop ns (ps ++ [pv ++ List.replicate (ns.length - pv.length) Val.unk])] (denoteItems o.dia o.normKey pre [])), k ∈ iseen2) :
    Reports o cs [(CIF_PARTIAL_PACKET, (blocksToks preB).length + 1 + (elemsToks preE).length + 1 +
        ((itemsToks pre).length + (1 + ns.length + (packetsToks ps).length + (valsToks pv).length)))]
      (denote o.dia o.normKey (preB ++ [{ code := bc, body := preE ++ [.frame fc ((pre ++ [Item.loop ns (ps ++ [pv ++ List.replicate (ns.length - pv.length) Val.unk])] ++ post).map
          Elem.plain)] ++ postE }] ++ postB)) := by
  have z1 := Lemmas.WriterChunks.szItems_toks pre
  have z2 := Lemmas.WriterChunks.szItems_toks post
  have z3 := Lemmas.WriterChunks.szPackets_toks ps
  have z4 := Lemmas.WriterChunks.szVals_toks pv
  have := C12_chars_items_in_frame preE postE fc H seen2 fseen2
    (pre ++ [.loop ns (ps ++ [pv ++ List.replicate (ns.length - pv.length) Val.unk])] ++ post) _ _ _ _ hpreE hcode hnew hpostE hseen2
    hfseen2 (allPacked_run o pre post _ iseen2 hpre hpost (allPacked_loop o ns _ (by simp))) (by framearith) (by framearith)
    (fun hv => C12_seg_partial_packet o hv false pre post ns ps pv [] iseen2 [] [] hpre (nil_seen o) hwf hfresh hnd hlen hwv hpv hpl
      hwpv hpost hiseen2)
  simpa [shiftSpec] using this

/-! ### two levels deep -/

/-- **C12_chars_in_nested_frame** — a segment of the element loop of a save frame `fc2` INSIDE a save frame `fc` of the data block
    `bc` (`max_frame_depth` unlimited: `≠ 0`, `≠ 1`), well-formed elements before and behind at both levels.  The reports are
    those of the segment, shifted by the tokens in front; the inner frame holds what the segment leaves, both frames are pruned of
    empty loops at their terminators.  (Deeper nesting: `Seg.level` once more per level, then `C12_chars_in_frame`.) -/
theorem C12_chars_in_nested_frame {o : Opts} {cs : List Chunk} {preB postB : List Block} {bc : Str} (preE postE preE2 postE2 : List Elem)
    (fc fc2 : Str) {T : List TokSpec}
    (H : SegHost o cs preB postB bc (frameToks preE postE fc (frameToks preE2 postE2 fc2 T)))
    (hdeep : o.maxFrameDepth ≠ 1) (seen2 fseen2 seen3 fseen3 : List Str)
    (fsb : List Container) (lsb : List Loop) (sp : List (Code × Nat)) (n k need : Nat)
    (hpre : wfElems o preE [] [] = true) (hcode : wfCode fc = true)
    (hnew : ∀ c ∈ (denoteElems o.dia o.normKey preE [] []).1, codeIs o.norm (o.norm fc) c = false)
    (hpost : wfElems o postE seen2 fseen2 = true)
    (hseen2 : ∀ k ∈ normNames o (denoteElems o.dia o.normKey preE [] []).2, k ∈ seen2)
    (hpre2 : wfElems o preE2 [] [] = true) (hcode2 : wfCode fc2 = true)
    (hnew2 : ∀ c ∈ (denoteElems o.dia o.normKey preE2 [] []).1, codeIs o.norm (o.norm fc2) c = false)
    (hpost2 : wfElems o postE2 seen3 fseen3 = true)
    (hseen3 : ∀ k ∈ normNames o (denoteElems o.dia o.normKey preE2 [] []).2, k ∈ seen3)
    (hfseen3 : ∀ c ∈ (denoteElems o.dia o.normKey preE2 [] []).1 ++ [pruneC (.mk fc2 fsb lsb)], o.norm c.code ∈ fseen3)
    (hfseen2 : ∀ c ∈ (denoteElems o.dia o.normKey preE [] []).1 ++ [.mk fc [] []], o.norm c.code ∈ fseen2)
    (hneed : k + need ≤ 2 * T.length + 16) (hsp : ∀ cj ∈ sp, cj.2 ≤ T.length)
    (hbody : ∀ {path : Path} {put : Container → Cif}, View o path put fc2 →
      Seg o path put fc2 false T [] [] fsb lsb sp n k need termFollow) :
    Reports o cs (shiftSpec ((blocksToks preB).length + 1 + (elemsToks preE).length + 1 + ((elemsToks preE2).length + 1)) sp)
      (denote o.dia o.normKey preB ++
        pruneC (.mk bc
          (denoteElems o.dia o.normKey postE ((denoteElems o.dia o.normKey preE [] []).1 ++ [pruneC (.mk fc
            (denoteElems o.dia o.normKey postE2 ((denoteElems o.dia o.normKey preE2 [] []).1 ++ [pruneC (.mk fc2 fsb lsb)])
              (denoteElems o.dia o.normKey preE2 [] []).2).1
            (denoteElems o.dia o.normKey postE2 ((denoteElems o.dia o.normKey preE2 [] []).1 ++ [pruneC (.mk fc2 fsb lsb)])
              (denoteElems o.dia o.normKey preE2 [] []).2).2)])
            (denoteElems o.dia o.normKey preE [] []).2).1
          (denoteElems o.dia o.normKey postE ((denoteElems o.dia o.normKey preE [] []).1 ++ [pruneC (.mk fc
            (denoteElems o.dia o.normKey postE2 ((denoteElems o.dia o.normKey preE2 [] []).1 ++ [pruneC (.mk fc2 fsb lsb)])
              (denoteElems o.dia o.normKey preE2 [] []).2).1
            (denoteElems o.dia o.normKey postE2 ((denoteElems o.dia o.normKey preE2 [] []).1 ++ [pruneC (.mk fc2 fsb lsb)])
              (denoteElems o.dia o.normKey preE2 [] []).2).2)])
            (denoteElems o.dia o.normKey preE [] []).2).2) :: denote o.dia o.normKey postB) := by
  have h1 := Lemmas.WriterChunks.szElems_toks preE2
  have h2 := Lemmas.WriterChunks.szElems_toks postE2
  have hl := frameToks_length preE2 postE2 fc2 T
  have := C12_chars_in_frame preE postE fc H seen2 fseen2 _ _ (shiftSpec (elemsToks preE2).length (shiftSpec 1 sp)) _ _ _
    hpre hcode hnew hpost hseen2
    (by
      intro c hc
      rcases List.mem_append.mp hc with h | h
      · exact hfseen2 c (List.mem_append_left _ h)
      · simp only [List.mem_singleton] at h
        subst h
        rw [pruneC_code]
        have := hfseen2 (.mk fc [] []) (List.mem_append_right _ (by simp))
        simpa [Container.code] using this)
    (by rw [hl]; omega)
    (by
      intro cj hcj
      simp only [shiftSpec, List.map_map, List.mem_map, Function.comp_apply] at hcj
      obtain ⟨x, hx, rfl⟩ := hcj
      have := hsp x hx
      rw [hl]; simp only; omega)
    (fun hv => Seg.level o H.mfd hv false preE2 postE2 fc2 [] [] seen3 fseen3 [] [] T fsb lsb sp n k need (Or.inr hdeep) hpre2
      (by intro k hk; simp [normNames] at hk) (by intro c hc; cases hc) hcode2 hnew2 hpost2 hseen3 hfseen3
      (hbody (hv.child _ _ fc2 hnew2)))
  simpa [shiftSpec, List.map_map, Function.comp_def, Nat.add_assoc] using this

/-! ### any depth of nesting -/

/-- **C12_chars_in_frames** — a segment of the element loop of a save frame at ANY depth: `ctx` lists the frames around it,
    outermost first — at each level well-formed elements in front of the frame, its (valid, new) code, well-formed elements behind
    it (`NestOk`); more than one level needs `max_frame_depth ≠ 1`.  `hbody`: the segment, for every view of the innermost frame
    (the class theorems `C12_seg_<class>` are stated for every view).  The reports are those of the segment, shifted by the tokens
    in front (`nestShift`); the content is `nestRes`: at every level what the elements in front denote, the frame (pruned of empty
    loops at its `save_`), what the elements behind denote. -/
theorem C12_chars_in_frames {o : Opts} {cs : List Chunk} {preB postB : List Block} {bc : Str} (ctx : List Level) (hne : ctx ≠ [])
    {T : List TokSpec} (H : SegHost o cs preB postB bc (nestToks ctx T)) (hdeep : ctx.length ≤ 1 ∨ o.maxFrameDepth ≠ 1)
    (fsb : List Container) (lsb : List Loop) (sp : List (Code × Nat)) (n k need : Nat)
    (hok : NestOk o ctx ([], []) (fsb, lsb))
    (hneed : k + need ≤ 2 * T.length + 20) (hsp : ∀ cj ∈ sp, cj.2 ≤ T.length)
    (hbody : ∀ {path : Path} {put : Container → Cif}, View o path put (innerCode ctx) →
      Seg o path put (innerCode ctx) false T [] [] fsb lsb sp n k need termFollow) :
    Reports o cs (shiftSpec ((blocksToks preB).length + 1 + nestShift ctx) sp)
      (denote o.dia o.normKey preB ++
        pruneC (.mk bc (nestRes o ctx ([], []) (fsb, lsb)).1 (nestRes o ctx ([], []) (fsb, lsb)).2) :: denote o.dia o.normKey postB) := by
  have hl := nestToks_length ctx T
  have := C12_chars_segment H _ _ (shiftSpec (nestShift ctx) sp) (nestN ctx n) (nestK ctx k) (nestNeed ctx need k)
    (nest_fuel ctx T k need 20 hneed)
    (by
      intro cj hcj
      simp only [shiftSpec, List.mem_map] at hcj
      obtain ⟨x, hx, rfl⟩ := hcj
      have := hsp x hx
      simp only; omega)
    (fun hv => Seg.nest o H.mfd T fsb lsb sp n k need ctx hne hv true [] [] (Or.inl rfl) hdeep hok hbody)
  simpa [shiftSpec_shiftSpec, Nat.add_assoc] using this

/-! ### two defects in one text -/

/-- **C12_chars_two_defects** — two segments with one report each, one after the other in a data block (two defects in different
    elements): the parse returns CIF_OK with EXACTLY TWO reports, in document order, each with its class's code, each on the line
    of its position; the content is that of both repairs. -/
theorem C12_chars_two_defects {o : Opts} {cs : List Chunk} {preB postB : List Block} {bc : Str} {T1 T2 : List TokSpec}
    (H : SegHost o cs preB postB bc (T1 ++ T2)) (fs1 : List Container) (ls1 : List Loop) (fs2 : List Container) (ls2 : List Loop)
    (C1 C2 : Code) (j1 j2 n1 k1 need1 n2 k2 need2 : Nat) (follow1 : List TokSpec → Prop)
    (h1 : View o [o.norm bc] (fun x => denote o.dia o.normKey preB ++ [x]) bc →
      Seg o [o.norm bc] (fun x => denote o.dia o.normKey preB ++ [x]) bc true T1 [] [] fs1 ls1 [(C1, j1)] n1 k1 need1 follow1)
    (h2 : View o [o.norm bc] (fun x => denote o.dia o.normKey preB ++ [x]) bc →
      Seg o [o.norm bc] (fun x => denote o.dia o.normKey preB ++ [x]) bc true T2 fs1 ls1 fs2 ls2 [(C2, j2)] n2 k2 need2 termFollow)
    (hfol : ∀ rest, termFollow rest → follow1 (T2 ++ rest))
    (hneed : (k2 + k1) + (need1 + need2) ≤ 2 * (T1 ++ T2).length + 20)
    (hj1 : j1 ≤ T1.length) (hj2 : j2 ≤ T2.length) (hn1 : n1 = T1.length) :
    ∃ r1 r2, parse o acceptAll [] (renderChunks cs)
        = { rc := 0, log := [r1, r2],
            cif := denote o.dia o.normKey preB ++ pruneC (.mk bc fs2 ls2) :: denote o.dia o.normKey postB }
      ∧ r1.code = C1 ∧ r2.code = C2
      ∧ (r1.line = endLine cs ((blocksToks preB).length + 1 + j1) ∨ r1.line = endLine cs ((blocksToks preB).length + 1 + j1 + 1))
      ∧ (r2.line = endLine cs ((blocksToks preB).length + 1 + (n1 + j2))
          ∨ r2.line = endLine cs ((blocksToks preB).length + 1 + (n1 + j2) + 1)) := by
  have := C12_chars_segment H fs2 ls2 ([(C1, j1)] ++ shiftSpec n1 [(C2, j2)]) (n1 + n2) (k2 + k1) (need1 + need2) hneed
    (by
      intro cj hcj
      simp only [shiftSpec, List.map_cons, List.map_nil, List.cons_append, List.nil_append, List.mem_cons, List.not_mem_nil,
        or_false] at hcj
      rcases hcj with rfl | rfl <;> simp only [List.length_append] <;> omega)
    (fun hv => Seg.comp (h1 hv) (h2 hv) hfol)
  exact Reports.two (by simpa [shiftSpec] using this)

/-- **C12_chars_missing_value_then_dup_itemname** — in the items of a data block: a name `_n` without value, and further on an
    item `_m v` whose name is already defined (in any spelling; possibly `_n` itself).  EXACTLY two reports: CIF_MISSING_VALUE on
    the line of `_n` / of the following token, then CIF_DUP_ITEMNAME on the line of `_m` / of its value; content = the document
    `pre  _n ?  mid  post`. -/
theorem C12_chars_missing_value_then_dup_itemname (o : Opts) (cs : List Chunk) (preB postB : List Block) (bc : Str)
    (pre mid post : List Item) (n m : Str) (v : Val) (seen2 seen3 : List Str)
    (H : SegHost o cs preB postB bc
      ((itemsToks pre ++ ((.name, n) :: itemsToks mid)) ++ (itemsToks [] ++ (((.name, m) :: valToks v) ++ itemsToks post))))
    (hpre : wfItems o pre [] = true) (hname : wfName n = true)
    (hfresh : o.norm n ∉ normNames o (denoteItems o.dia o.normKey pre []))
    (hmid : wfItems o mid seen2 = true)
    (hseen2 : ∀ k ∈ normNames o (denoteItems o.dia o.normKey (pre ++ [.item n .unk]) []), k ∈ seen2)
    (hname2 : wfName m = true)
    (hdup : o.norm m ∈ normNames o (denoteItems o.dia o.normKey (pre ++ [.item n .unk] ++ mid) []))
    (hwv : wfVal o v = true) (hpost : wfItems o post seen3 = true)
    (hseen3 : ∀ k ∈ normNames o (denoteItems o.dia o.normKey (pre ++ [.item n .unk] ++ mid) []), k ∈ seen3) :
    ∃ r1 r2, parse o acceptAll [] (renderChunks cs)
        = { rc := 0, log := [r1, r2],
            cif := denote o.dia o.normKey (preB ++ [plainBlock bc (pre ++ [.item n .unk] ++ mid ++ post)] ++ postB) }
      ∧ r1.code = CIF_MISSING_VALUE ∧ r2.code = CIF_DUP_ITEMNAME
      ∧ (r1.line = endLine cs ((blocksToks preB).length + 1 + ((itemsToks pre).length + 1))
          ∨ r1.line = endLine cs ((blocksToks preB).length + 1 + ((itemsToks pre).length + 1) + 1))
      ∧ (r2.line = endLine cs ((blocksToks preB).length + 1 + (((itemsToks pre).length + 1 + (itemsToks mid).length) + 1))
          ∨ r2.line = endLine cs ((blocksToks preB).length + 1 + (((itemsToks pre).length + 1 + (itemsToks mid).length) + 1) + 1)) := by
  have z1 := Lemmas.WriterChunks.szItems_toks pre
  have z2 := Lemmas.WriterChunks.szItems_toks mid
  have z3 := Lemmas.WriterChunks.szItems_toks post
  have z4 := Lemmas.WriterChunks.szVal_toks v
  obtain ⟨r1, r2, hp, c1, c2, l1, l2⟩ := C12_chars_two_defects H [] (denoteItems o.dia o.normKey (pre ++ [.item n .unk] ++ mid) []) []
    (denoteItems o.dia o.normKey ([] ++ post) (denoteItems o.dia o.normKey (pre ++ [.item n .unk] ++ mid) []))
    CIF_MISSING_VALUE CIF_DUP_ITEMNAME _ _ _ _ _ _ _ _ termFollow
    (fun hv => C12_seg_missing_value o hv true pre mid n [] seen2 [] [] hpre (nil_seen o) hname hfresh hmid hseen2)
    (fun hv => C12_seg_dup_itemname o hv true [] post m v seen3 seen3 []
      (denoteItems o.dia o.normKey (pre ++ [.item n .unk] ++ mid) []) rfl hseen3 hname2 (by simpa [denoteItems] using hdup) hwv hpost
      (by simpa [denoteItems] using hseen3))
    (fun rest' _ => ⟨.name, m, valToks v ++ (itemsToks post ++ rest'), by simp [itemsToks], rfl⟩)
    (by simp only [szItems, itemsToks, List.length_append, List.length_cons, List.length_nil] at *; omega)
    (by framearith) (by simp only [itemsToks, List.length_append, List.length_cons, List.length_nil]; omega)
    (by simp only [List.length_append, List.length_cons]; omega)
  have hpk : allPacked (denoteItems o.dia o.normKey (pre ++ [.item n .unk] ++ mid ++ post) []) := by
    have a := allPacked_run o pre mid [.item n .unk] seen2 hpre hmid (allPacked_item o n .unk)
    rw [denoteItems_append]
    exact allPacked_denoteItems o post seen3 _ hpost a
  refine ⟨r1, r2, ?_, c1, c2, l1, by simpa [itemsToks] using l2⟩
  rw [hp, denote_plain, ← pruneC_packed bc [] _ hpk]
  simp [denoteItems_append, denoteItems]

/-! ### a dropped header name and a short last packet in one loop -/

theorem denoteVals_pad_erase (dia : Dialect) (nk : Str → Str) (pv : List Val) (k i : Nat) :
    (denoteVals dia nk pv ++ List.replicate k V.unk).eraseIdx i = denoteVals dia nk ((pv ++ List.replicate k Val.unk).eraseIdx i) := by
  rw [← denoteVals_eraseIdx, Model.Parser.denoteVals_append, denoteVals_replicate_unk]

/-- **C12_chars_dup_header_name_partial_packet** — among the items of a data block, a loop whose header repeats a name (dropped)
    AND whose last packet is short.  EXACTLY two reports, CIF_DUP_ITEMNAME then CIF_PARTIAL_PACKET, each on its line; the content is
    that of the document whose loop has the names `ns₁ ++ ns₂` and whose packets — the last one padded with `?` to the full
    width — lack the value of the dropped column. -/
theorem C12_chars_dup_header_name_partial_packet (o : Opts) (cs : List Chunk) (preB postB : List Block) (bc : Str)
    (pre post : List Item) (ns1 ns2 : List Str) (n' : Str) (ps : List (List Val)) (pv : List Val) (seen2 : List Str)
    (H : SegHost o cs preB postB bc
      ((itemsToks pre ++ ((.loopKw, []) :: (ns1.map (fun n => (TokType.name, n)) ++ ((.name, n') ::
        (ns2.map (fun n => (TokType.name, n)) ++ (packetsToks ps ++ valsToks pv)))))) ++ itemsToks post))
    (hpre : wfItems o pre [] = true)
    (hwf : ∀ n ∈ ns1 ++ ns2, wfName n = true)
    (hfresh : ∀ n ∈ ns1 ++ ns2, o.norm n ∉ normNames o (denoteItems o.dia o.normKey pre []))
    (hnd : ((ns1 ++ ns2).map o.norm).Nodup) (hne : ns1 ++ ns2 ≠ []) (hname : wfName n' = true)
    (hdup : o.norm n' ∈ normNames o (denoteItems o.dia o.normKey pre []) ∨ ∃ m ∈ ns1, o.norm m = o.norm n')
    (hlen : ∀ p ∈ ps, p.length = ns1.length + 1 + ns2.length) (hwv : ∀ p ∈ ps, wfVals o p = true)
    (hpv : pv ≠ []) (hpl : pv.length < ns1.length + 1 + ns2.length) (hwpv : wfVals o pv = true)
    (hpost : wfItems o post seen2 = true)
    (hseen2 : ∀ k ∈ normNames o (denoteItems o.dia o.normKey (pre ++ [.loop (ns1 ++ ns2)
        ((ps ++ [pv ++ List.replicate (ns1.length + 1 + ns2.length - pv.length) Val.unk]).map (fun p => p.eraseIdx ns1.length))]) []),
      k ∈ seen2) :
    ∃ r1 r2, parse o acceptAll [] (renderChunks cs)
        = { rc := 0, log := [r1, r2],
            cif := denote o.dia o.normKey (preB ++ [plainBlock bc (pre ++ [.loop (ns1 ++ ns2)
              ((ps ++ [pv ++ List.replicate (ns1.length + 1 + ns2.length - pv.length) Val.unk]).map (fun p => p.eraseIdx ns1.length))]
              ++ post)] ++ postB) }
      ∧ r1.code = CIF_DUP_ITEMNAME ∧ r2.code = CIF_PARTIAL_PACKET
      ∧ (r1.line = endLine cs ((blocksToks preB).length + 1 + ((itemsToks pre).length + (1 + ns1.length)))
          ∨ r1.line = endLine cs ((blocksToks preB).length + 1 + ((itemsToks pre).length + (1 + ns1.length)) + 1))
      ∧ (r2.line = endLine cs ((blocksToks preB).length + 1 + ((itemsToks pre).length +
              (1 + ns1.length + 1 + ns2.length + (packetsToks ps).length + (valsToks pv).length)))
          ∨ r2.line = endLine cs ((blocksToks preB).length + 1 + ((itemsToks pre).length +
              (1 + ns1.length + 1 + ns2.length + (packetsToks ps).length + (valsToks pv).length)) + 1)) := by
  have z1 := Lemmas.WriterChunks.szItems_toks pre
  have z2 := Lemmas.WriterChunks.szItems_toks post
  have z3 := Lemmas.WriterChunks.szPackets_toks ps
  have z4 := Lemmas.WriterChunks.szVals_toks pv
  have e : ∀ ls, denoteItems o.dia o.normKey [.loop (ns1 ++ ns2)
        ((ps ++ [pv ++ List.replicate (ns1.length + 1 + ns2.length - pv.length) Val.unk]).map (fun p => p.eraseIdx ns1.length))] ls
      = ls ++ [mkLoop (ns1 ++ ns2) (ps.map (fun p => (denoteVals o.dia o.normKey p).eraseIdx ns1.length) ++
          [(denoteVals o.dia o.normKey pv ++ List.replicate (ns1.length + 1 + ns2.length - pv.length) V.unk).eraseIdx ns1.length])] := by
    intro ls
    simp only [denoteItems, mkLoop, List.map_map, List.map_append, List.map_cons, List.map_nil, Function.comp_def,
      denoteVals_pad_erase, denoteVals_eraseIdx]
  have hs2 : ∀ k ∈ normNames o (denoteItems o.dia o.normKey pre [] ++ [mkLoop (ns1 ++ ns2)
      (ps.map (fun p => (denoteVals o.dia o.normKey p).eraseIdx ns1.length) ++
        [(denoteVals o.dia o.normKey pv ++ List.replicate (ns1.length + 1 + ns2.length - pv.length) V.unk).eraseIdx ns1.length])]),
      k ∈ seen2 := by
    intro k hk; apply hseen2 k; rw [denoteItems_append, e]; exact hk
  have := C12_chars_segment H [] _ _ _ _ _
    (by simp only [List.length_append, List.length_cons, List.length_map] at *; omega)
    (by
      intro cj hcj
      simp only [List.mem_cons, List.not_mem_nil, or_false] at hcj
      rcases hcj with rfl | rfl <;> simp only [List.length_append, List.length_cons, List.length_map] <;> omega)
    (fun hv => C12_seg_dup_header_name_partial_packet o hv true pre post ns1 ns2 n' ps pv [] seen2 [] [] hpre (nil_seen o) hwf hfresh hnd hne
      hname hdup hlen hwv hpv hpl hwpv hpost hs2)
  obtain ⟨r1, r2, hp, c1, c2, l1, l2⟩ := Reports.two (by simpa [shiftSpec] using this)
  refine ⟨r1, r2, ?_, c1, c2, l1, l2⟩
  have hpk : allPacked (denoteItems o.dia o.normKey (pre ++ [.loop (ns1 ++ ns2)
      ((ps ++ [pv ++ List.replicate (ns1.length + 1 + ns2.length - pv.length) Val.unk]).map (fun p => p.eraseIdx ns1.length))] ++ post)
      []) :=
    allPacked_run o pre post _ seen2 hpre hpost (allPacked_loop o _ _ (by simp))
  rw [hp, denote_plain, ← pruneC_packed bc [] _ hpk, denoteItems_append, denoteItems_append, e]

/-! ### save frames not allowed (`max_frame_depth = 0`) -/

/-- a text without save frames except for the one reported: frame-free well-formed blocks around the block `bc` -/
structure PlainHost (o : Opts) (cs : List Chunk) (preB postB : List Block) (bc : Str) (T : List TokSpec) : Prop extends TextOk o cs where
  plainPre : plainBlocks preB
  plainPost : plainBlocks postB
  wfPreB : wfBlocks o preB [] = true
  wfBc : wfCode bc = true
  fresh : ∀ b ∈ preB, o.norm b.code ≠ o.norm bc
  wfPostB : wfBlocks o postB (o.norm bc :: preB.map (fun b => o.norm b.code)) = true
  hToks : toks cs = blocksToks preB ++ ((.blockHead, bc) :: (T ++ blocksToks postB))

/-- **C12_chars_frame_not_allowed** — `max_frame_depth = 0`: a save frame `save_fc body save_` among the items of a data block of
    a text that has no other save frame.  One report, CIF_FRAME_NOT_ALLOWED, at the frame header; the frame is accepted: the
    content is that of the document as it stands. -/
theorem C12_chars_frame_not_allowed (o : Opts) (cs : List Chunk) (preB postB : List Block) (bc : Str) (pre post : List Item)
    (fc : Str) (body : List Item) (seen2 : List Str) (hmfd : o.maxFrameDepth = 0)
    (H : PlainHost o cs preB postB bc
      (itemsToks pre ++ ((.frameHead, fc) :: (itemsToks body ++ (.frameTerm, []) :: itemsToks post))))
    (hpre : wfItems o pre [] = true) (hcode : wfCode fc = true) (hwb : wfItems o body [] = true)
    (hpost : wfItems o post seen2 = true)
    (hseen2 : ∀ k ∈ normNames o (denoteItems o.dia o.normKey pre []), k ∈ seen2) :
    Reports o cs [(CIF_FRAME_NOT_ALLOWED, (blocksToks preB).length + 1 + ((itemsToks pre).length + 0))]
      (denote o.dia o.normKey (preB ++ [{ code := bc, body := pre.map Elem.plain ++ [.frame fc (body.map Elem.plain)] ++ post.map Elem.plain }]
        ++ postB)) := by
  obtain ⟨c, rest, hc, hfirst, hbom⟩ := H.first
  have z1 := Lemmas.WriterChunks.szItems_toks pre
  have z2 := Lemmas.WriterChunks.szItems_toks post
  have z3 := Lemmas.WriterChunks.szItems_toks body
  have hnewc : ∀ x ∈ denote o.dia o.normKey preB, codeIs o.norm (o.norm bc) x = false := by
    intro x hx
    obtain ⟨b, hb, hcb⟩ := denote_code hx
    simp only [codeIs, hcb, beq_eq_false_iff_ne, ne_eq]
    exact H.fresh b hb
  obtain ⟨rs, h1, h2, h3⟩ := block_segs_plain_chars o H.store H.utf cs c rest preB postB H.plainPre H.plainPost bc _
    [.mk fc [] (denoteItems o.dia o.normKey body [])] (denoteItems o.dia o.normKey (pre ++ post) [])
    [(CIF_FRAME_NOT_ALLOWED, (itemsToks pre).length + 0)]
    ((itemsToks pre).length + (1 + (itemsToks body).length + 1) + (itemsToks post).length) (post.length + 1 + pre.length)
    (szItems pre + szItems post + (szItems body + body.length + 3) + 1) _ H.ok H.fit hc hfirst hbom H.hToks H.wfPreB H.wfBc H.fresh
    H.wfPostB (fun b hb => List.mem_cons_of_mem _ (List.mem_map.mpr ⟨b, hb, rfl⟩)) List.mem_cons_self
    (by simp only [List.length_append, List.length_cons]; omega)
    (by intro cj hcj; simp only [List.mem_singleton] at hcj; subst hcj; simp only [List.length_append, List.length_cons]; omega)
    (fun _ => Seg.of_at fun rest' s fuel w hw hf hfol hF => by
      have := C12_frame_not_allowed_at o (denote o.dia o.normKey preB) bc hnewc hmfd pre post fc body [] seen2 rest' s fuel w [] [] hw hpre
        (nil_seen o) hcode (by intro x hx; cases hx) hwb hpost hseen2 hf (fun _ => hfol) (by simpa [List.append_assoc] using hF)
      simpa using this)
  refine ⟨rs, ?_, by simpa [shiftSpec] using h2, by simpa [shiftSpec] using h3⟩
  have hpk : allPacked (denoteItems o.dia o.normKey (pre ++ post) []) := by
    simpa using allPacked_run o pre post [] seen2 hpre hpost (fun _ h => h)
  rw [h1, pruneC_packed _ _ _ hpk]
  have e : denoteElems o.dia o.normKey (pre.map Elem.plain ++ [.frame fc (body.map Elem.plain)] ++ post.map Elem.plain) [] []
      = ([.mk fc [] (denoteItems o.dia o.normKey body [])], denoteItems o.dia o.normKey (pre ++ post) []) := by
    rw [denoteElems_append, denoteElems_append, denoteElems_plains, denoteElems_frame, denoteElems_plains, denoteElems_plains,
      denoteItems_append]
    simp [denoteElems]
  have e' : denoteElems o.dia o.normKey (pre.map Elem.plain ++ Elem.frame fc (body.map Elem.plain) :: post.map Elem.plain) [] []
      = ([.mk fc [] (denoteItems o.dia o.normKey body [])], denoteItems o.dia o.normKey (pre ++ post) []) := by
    simpa using e
  simp [denote, denoteBlock, e']

/-! ### non-vacuity: the hypotheses are satisfiable (a defect in a frame, two defects in a block, a defect two frames deep) -/

namespace C12Frames
/-- `data_a ⏎ _p 1 ⏎ save_f ⏎ _x ⏎ _y 'v w' ⏎ save_ ⏎` — `_x` has no value, inside the save frame -/
def exCs : List Chunk :=
  [.tk (.data (a!"a")), .ws [.eol], .tk (.name (a!"_p")), .ws [.blank 32], .tk (.val .bare (a!"1")), .ws [.eol],
   .tk (.save (a!"f")), .ws [.eol], .tk (.name (a!"_x")), .ws [.eol],
   .tk (.name (a!"_y")), .ws [.blank 32], .tk (.val .squote (a!"v w")), .ws [.eol], .tk .saveEnd, .ws [.eol]]

theorem exOk : okC .cif2 .end_ [] exCs := by
  simp only [exCs, okC, List.nil_append]
  repeat' apply And.intro
  all_goals first | decide | (intro h; cases h) | exact Or.inl rfl | (right; intro b rest h; cases h) | exact List.all_eq_true.mp (by decide)

theorem exHost : SegHost C12.opts2 exCs [] [] (a!"a")
    (frameToks [.plain (.item (a!"_p") (.str (a!"1") .bare))] [] (a!"f")
      (itemsToks [] ++ ((.name, a!"_x") :: itemsToks [.item (a!"_y") (.str (a!"v w") .squote)]))) where
  store := rfl
  utf := rfl
  ok := exOk
  fit := by decide
  first := ⟨100, _, rfl, by decide, by decide⟩
  mfd := by decide
  wfPreB := rfl
  wfBc := by decide
  fresh := by intro b hb; cases hb
  wfPostB := rfl
  hToks := by decide

/-- non-vacuity of `C12_chars_missing_value_in_frame`: the report is 5 tokens into the text (behind `_x`, `_y` pending) -/
theorem C12_chars_missing_value_in_frame_instance :
    Reports C12.opts2 exCs [(CIF_MISSING_VALUE, 5)]
      (denote .cif2 id [{ code := a!"a", body := [.plain (.item (a!"_p") (.str (a!"1") .bare)),
        .frame (a!"f") [.plain (.item (a!"_x") .unk), .plain (.item (a!"_y") (.str (a!"v w") .squote))]] }]) :=
  C12_chars_missing_value_in_frame C12.opts2 exCs [] [] (a!"a") [.plain (.item (a!"_p") (.str (a!"1") .bare))] [] (a!"f") []
    [.item (a!"_y") (.str (a!"v w") .squote)] (a!"_x") [a!"_x"] [a!"_p"] [a!"f"] exHost (by decide) (by decide) (by decide) (by decide)
    (by decide) (by decide) (by decide) (by decide) (by decide) (by decide) (by decide)

/-- … i.e. on line 4 (where `_x` ends) or line 5 (where `_y` ends) -/
theorem C12_frames_instance_lines : endLine exCs 5 = 4 ∧ endLine exCs 6 = 5 := by decide

/-- `data_a ⏎ _x ⏎ _y 1 ⏎ _Y 2 ⏎ _z 3 ⏎` — `_x` has no value, `_Y` repeats `_y` -/
def exCs2 : List Chunk :=
  [.tk (.data (a!"a")), .ws [.eol], .tk (.name (a!"_x")), .ws [.eol], .tk (.name (a!"_y")), .ws [.blank 32],
   .tk (.val .bare (a!"1")), .ws [.eol], .tk (.name (a!"_Y")), .ws [.blank 32], .tk (.val .bare (a!"2")), .ws [.eol],
   .tk (.name (a!"_z")), .ws [.blank 32], .tk (.val .bare (a!"3")), .ws [.eol]]

theorem exOk2 : okC .cif2 .end_ [] exCs2 := by
  simp only [exCs2, okC, List.nil_append]
  repeat' apply And.intro
  all_goals first | decide | (intro h; cases h) | exact Or.inl rfl | (right; intro b rest h; cases h) | exact List.all_eq_true.mp (by decide)

theorem exHost2 : SegHost C12.opts2 exCs2 [] [] (a!"a")
    ((itemsToks [] ++ ((.name, a!"_x") :: itemsToks [.item (a!"_y") (.str (a!"1") .bare)])) ++
      (itemsToks [] ++ (((.name, a!"_Y") :: valToks (.str (a!"2") .bare)) ++ itemsToks [.item (a!"_z") (.str (a!"3") .bare)]))) where
  store := rfl
  utf := rfl
  ok := exOk2
  fit := by decide
  first := ⟨100, _, rfl, by decide, by decide⟩
  mfd := by decide
  wfPreB := rfl
  wfBc := by decide
  fresh := by intro b hb; cases hb
  wfPostB := rfl
  hToks := by decide

/-- non-vacuity of `C12_chars_missing_value_then_dup_itemname` (and of `C12_chars_two_defects`, `C12_two_defects`): exactly two
    reports, CIF_MISSING_VALUE 2 tokens into the text, CIF_DUP_ITEMNAME 5 tokens into it -/
theorem C12_chars_two_defects_instance :
    ∃ r1 r2, parse C12.opts2 acceptAll [] (renderChunks exCs2)
        = { rc := 0, log := [r1, r2],
            cif := denote .cif2 id [plainBlock (a!"a") [.item (a!"_x") .unk, .item (a!"_y") (.str (a!"1") .bare),
              .item (a!"_z") (.str (a!"3") .bare)]] }
      ∧ r1.code = CIF_MISSING_VALUE ∧ r2.code = CIF_DUP_ITEMNAME
      ∧ (r1.line = endLine exCs2 2 ∨ r1.line = endLine exCs2 3) ∧ (r2.line = endLine exCs2 5 ∨ r2.line = endLine exCs2 6) :=
  C12_chars_missing_value_then_dup_itemname C12.opts2 exCs2 [] [] (a!"a") [] [.item (a!"_y") (.str (a!"1") .bare)]
    [.item (a!"_z") (.str (a!"3") .bare)] (a!"_x") (a!"_Y") (.str (a!"2") .bare) [a!"_x"] [a!"_x", a!"_y"] exHost2
    (by decide) (by decide) (by decide) (by decide) (by decide) (by decide) (by decide) (by decide) (by decide) (by decide)

theorem C12_two_defects_instance_lines : endLine exCs2 2 = 2 ∧ endLine exCs2 3 = 3 ∧ endLine exCs2 5 = 4 ∧ endLine exCs2 6 = 4 := by
  decide

/-- frames nest: `data_a ⏎ save_f ⏎ save_g ⏎ _x ⏎ save_ ⏎ save_ ⏎` — `_x` without value two levels deep -/
def optsN : Opts := { C12.opts2 with maxFrameDepth := -1 }

def exCs3 : List Chunk :=
  [.tk (.data (a!"a")), .ws [.eol], .tk (.save (a!"f")), .ws [.eol], .tk (.save (a!"g")), .ws [.eol], .tk (.name (a!"_x")), .ws [.eol],
   .tk .saveEnd, .ws [.eol], .tk .saveEnd, .ws [.eol]]

theorem exOk3 : okC .cif2 .end_ [] exCs3 := by
  simp only [exCs3, okC, List.nil_append]
  repeat' apply And.intro
  all_goals first | decide | (intro h; cases h) | exact Or.inl rfl | (right; intro b rest h; cases h) | exact List.all_eq_true.mp (by decide)

theorem exHost3 : SegHost optsN exCs3 [] [] (a!"a")
    (frameToks [] [] (a!"f") (frameToks [] [] (a!"g") (itemsToks [] ++ ((.name, a!"_x") :: itemsToks [])))) where
  store := rfl
  utf := rfl
  ok := exOk3
  fit := by decide
  first := ⟨100, _, rfl, by decide, by decide⟩
  mfd := by decide
  wfPreB := rfl
  wfBc := by decide
  fresh := by intro b hb; cases hb
  wfPostB := rfl
  hToks := by decide

/-- non-vacuity of `C12_chars_in_nested_frame`: one report, CIF_MISSING_VALUE, 4 tokens into the text; the inner frame holds
    `_x ?` -/
theorem C12_chars_in_nested_frame_instance :
    Reports optsN exCs3 [(CIF_MISSING_VALUE, 4)]
      [.mk (a!"a") [.mk (a!"f") [.mk (a!"g") [] [{ category := some [], names := [a!"_x"], packets := [[.unk]] }]] []] []] := by
  have := C12_chars_in_nested_frame (o := optsN) (cs := exCs3) [] [] [] [] (a!"f") (a!"g") exHost3 (by decide) [] [a!"f"] [] [a!"g"] []
    (denoteItems .cif2 id ([] ++ [Item.item (a!"_x") .unk] ++ []) []) [(CIF_MISSING_VALUE, (itemsToks []).length + 1)]
    ((itemsToks ([] : List Item)).length + 1 + (itemsToks ([] : List Item)).length) (([] : List Item).length + 1 + ([] : List Item).length)
    (szItems [] + szItems [] + 1)
    (by decide) (by decide) (by decide) (by decide) (by decide) (by decide) (by decide) (by decide) (by decide) (by decide)
    (by decide) (by decide) (by decide) (by decide)
    (fun hv => C12_seg_missing_value optsN hv false [] [] (a!"_x") [] [a!"_x"] [] [] rfl (nil_seen optsN) (by decide) (by decide) rfl
      (by decide))
  exact this

/-- `data_a ⏎ loop_ _p _P _q ⏎ 1 2 3 ⏎ 4 ⏎` — `_P` repeats `_p` (dropped column), the last packet has one value of three -/
def exCs4 : List Chunk :=
  [.tk (.data (a!"a")), .ws [.eol], .tk .loopKw, .ws [.blank 32], .tk (.name (a!"_p")), .ws [.blank 32], .tk (.name (a!"_P")),
   .ws [.blank 32], .tk (.name (a!"_q")), .ws [.eol], .tk (.val .bare (a!"1")), .ws [.blank 32], .tk (.val .bare (a!"2")),
   .ws [.blank 32], .tk (.val .bare (a!"3")), .ws [.eol], .tk (.val .bare (a!"4")), .ws [.eol]]

theorem exOk4 : okC .cif2 .end_ [] exCs4 := by
  simp only [exCs4, okC, List.nil_append]
  repeat' apply And.intro
  all_goals first | decide | (intro h; cases h) | exact Or.inl rfl | (right; intro b rest h; cases h) | exact List.all_eq_true.mp (by decide)

theorem exHost4 : SegHost C12.opts2 exCs4 [] [] (a!"a")
    ((itemsToks [] ++ ((.loopKw, []) :: ([a!"_p"].map (fun n => (TokType.name, n)) ++ ((.name, a!"_P") ::
        ([a!"_q"].map (fun n => (TokType.name, n)) ++
          (packetsToks [[.str (a!"1") .bare, .str (a!"2") .bare, .str (a!"3") .bare]] ++ valsToks [.str (a!"4") .bare])))))) ++ itemsToks []) where
  store := rfl
  utf := rfl
  ok := exOk4
  fit := by decide
  first := ⟨100, _, rfl, by decide, by decide⟩
  mfd := by decide
  wfPreB := rfl
  wfBc := by decide
  fresh := by intro b hb; cases hb
  wfPostB := rfl
  hToks := by decide

/-- non-vacuity of `C12_chars_dup_header_name_partial_packet` (and of `C12_dup_header_name_partial_packet`): two reports, 3 and 8
    tokens into the text; the loop `_p _q` with the packets `1 3` and `4 ?` -/
theorem C12_chars_dup_header_name_partial_packet_instance :
    ∃ r1 r2, parse C12.opts2 acceptAll [] (renderChunks exCs4)
        = { rc := 0, log := [r1, r2],
            cif := [.mk (a!"a") [] [mkLoop [a!"_p", a!"_q"] [[.chr false (a!"1"), .chr false (a!"3")], [.chr false (a!"4"), .unk]]]] }
      ∧ r1.code = CIF_DUP_ITEMNAME ∧ r2.code = CIF_PARTIAL_PACKET
      ∧ (r1.line = endLine exCs4 3 ∨ r1.line = endLine exCs4 4) ∧ (r2.line = endLine exCs4 9 ∨ r2.line = endLine exCs4 10) :=
  C12_chars_dup_header_name_partial_packet C12.opts2 exCs4 [] [] (a!"a") [] [] [a!"_p"] [a!"_q"] (a!"_P")
    [[.str (a!"1") .bare, .str (a!"2") .bare, .str (a!"3") .bare]] [.str (a!"4") .bare] [a!"_p", a!"_q"] exHost4
    rfl (by decide) (by decide) (by decide) (by decide) (by decide) (by decide) (by decide) (by decide) (by decide) (by decide)
    (by decide) rfl (by decide)

/-- save frames switched off: `data_a ⏎ _p 1 ⏎ save_f ⏎ _y 'v w' ⏎ save_ ⏎` with `max_frame_depth = 0` -/
def opts0 : Opts := { C12.opts2 with maxFrameDepth := 0 }

def exCs5 : List Chunk :=
  [.tk (.data (a!"a")), .ws [.eol], .tk (.name (a!"_p")), .ws [.blank 32], .tk (.val .bare (a!"1")), .ws [.eol],
   .tk (.save (a!"f")), .ws [.eol], .tk (.name (a!"_y")), .ws [.blank 32], .tk (.val .squote (a!"v w")), .ws [.eol],
   .tk .saveEnd, .ws [.eol]]

theorem exOk5 : okC .cif2 .end_ [] exCs5 := by
  simp only [exCs5, okC, List.nil_append]
  repeat' apply And.intro
  all_goals first | decide | (intro h; cases h) | exact Or.inl rfl | (right; intro b rest h; cases h) | exact List.all_eq_true.mp (by decide)

theorem exHost5 : PlainHost opts0 exCs5 [] [] (a!"a")
    (itemsToks [.item (a!"_p") (.str (a!"1") .bare)] ++ ((.frameHead, a!"f") ::
      (itemsToks [.item (a!"_y") (.str (a!"v w") .squote)] ++ (.frameTerm, []) :: itemsToks []))) where
  store := rfl
  utf := rfl
  ok := exOk5
  fit := by decide
  first := ⟨100, _, rfl, by decide, by decide⟩
  plainPre := by intro b hb; cases hb
  plainPost := by intro b hb; cases hb
  wfPreB := rfl
  wfBc := by decide
  fresh := by intro b hb; cases hb
  wfPostB := rfl
  hToks := by decide

/-- non-vacuity of `C12_chars_frame_not_allowed`: one report, 3 tokens into the text (at `save_f`) -/
theorem C12_chars_frame_not_allowed_instance :
    Reports opts0 exCs5 [(CIF_FRAME_NOT_ALLOWED, 3)]
      (denote .cif2 id [{ code := a!"a", body := [.plain (.item (a!"_p") (.str (a!"1") .bare)),
        .frame (a!"f") [.plain (.item (a!"_y") (.str (a!"v w") .squote))]] }]) :=
  C12_chars_frame_not_allowed opts0 exCs5 [] [] (a!"a") [.item (a!"_p") (.str (a!"1") .bare)] [] (a!"f")
    [.item (a!"_y") (.str (a!"v w") .squote)] [a!"_p"] rfl exHost5 (by decide) (by decide) (by decide) rfl (by decide)

/-- three levels deep: `data_a ⏎ save_f ⏎ save_g ⏎ save_h ⏎ _x ⏎ save_ ⏎ save_ ⏎ save_ ⏎` -/
def exCs6 : List Chunk :=
  [.tk (.data (a!"a")), .ws [.eol], .tk (.save (a!"f")), .ws [.eol], .tk (.save (a!"g")), .ws [.eol], .tk (.save (a!"h")), .ws [.eol],
   .tk (.name (a!"_x")), .ws [.eol], .tk .saveEnd, .ws [.eol], .tk .saveEnd, .ws [.eol], .tk .saveEnd, .ws [.eol]]

theorem exOk6 : okC .cif2 .end_ [] exCs6 := by
  simp only [exCs6, okC, List.nil_append]
  repeat' apply And.intro
  all_goals first | decide | (intro h; cases h) | exact Or.inl rfl | (right; intro b rest h; cases h) | exact List.all_eq_true.mp (by decide)

def exCtx : List Level := [⟨[], a!"f", []⟩, ⟨[], a!"g", []⟩, ⟨[], a!"h", []⟩]

theorem exHost6 : SegHost optsN exCs6 [] [] (a!"a") (nestToks exCtx (itemsToks [] ++ ((.name, a!"_x") :: itemsToks []))) where
  store := rfl
  utf := rfl
  ok := exOk6
  fit := by decide
  first := ⟨100, _, rfl, by decide, by decide⟩
  mfd := by decide
  wfPreB := rfl
  wfBc := by decide
  fresh := by intro b hb; cases hb
  wfPostB := rfl
  hToks := by decide

/-- non-vacuity of `C12_chars_in_frames`: a missing value three frames deep — one report, 5 tokens into the text -/
theorem C12_chars_in_frames_instance :
    Reports optsN exCs6 [(CIF_MISSING_VALUE, 5)]
      [.mk (a!"a") [.mk (a!"f") [.mk (a!"g") [.mk (a!"h") [] [{ category := some [], names := [a!"_x"], packets := [[.unk]] }]] []] []] []] := by
  have := C12_chars_in_frames (o := optsN) (cs := exCs6) exCtx (by decide) exHost6 (Or.inr (by decide)) []
    (denoteItems .cif2 id ([] ++ [Item.item (a!"_x") .unk] ++ []) []) [(CIF_MISSING_VALUE, (itemsToks []).length + 1)]
    ((itemsToks ([] : List Item)).length + 1 + (itemsToks ([] : List Item)).length) (([] : List Item).length + 1 + ([] : List Item).length)
    (szItems [] + szItems [] + 1)
    (by simp only [NestOk, exCtx]; decide) (by decide) (by decide)
    (fun hv => C12_seg_missing_value optsN hv false [] [] (a!"_x") [] [a!"_x"] [] [] rfl (nil_seen optsN) (by decide) (by decide) rfl
      (by decide))
  exact this

end C12Frames

end CifModel.Props
