import CifModel.Lemmas.NamesApi
import CifModel.Props.C09
import CifModel.Props.C09Buf
/-
  Property C09 at the public entry points: the entry-point models of other groups (store: Model/Store.lean; tables and packets:
  Model/Value.lean) take the name as a parameter; here the parameter is INSTANTIATED with the C09 models of utils.c — down to the buffer
  level — and each entry point's verdict and the key it stores are stated in terms of the caller's string.
-/
namespace CifModel
open Model Model.NormBuf Spec Lemmas.Names Lemmas.NormBuf Store

/-- **C09_entry_points.**  `U`, `I`, `Contract U I` as in `C09_normalize_buffer_refines`.

    (A) *The parameter is what the C computes.*  For a caller's NUL-terminated string at `mem` (C string `s = cstrOf mem`, normal form
    NUL-free): running the buffer-level model of `cif_normalize_name` / `cif_normalize_item_name` with `namelen = -1` and reading the C
    string at the result (`entryName`) gives exactly the record `apiName U forItem s` = ⟨`cifNormalize U s`, `s`, `isValidName forItem s`⟩
    for a valid name, and the verdict `invalid` otherwise; likewise the packet normaliser `entryItemKey` is `itemNorm U` and the table
    normaliser `entryTableKey` is `tableNorm U` — the parameters `C09_code_table` is stated with.

    (B) *Verdict and stored key, per entry point*, for every string `x` of UTF-16 units and the name built from it:
    verdict = the CIF rules (`Spec.validName`, via `C09_validity`); on refusal the store / table / packet is unchanged and the code is the
    entry point's INVALID_* code; on success what is stored is `cifNormalize U x` (resp. `NFC x` for table keys) as key together with
    the spelling `x` itself:
    cif_create_block — one `data_block` row (id, `cifNormalize U x`, `x`); cif_container_create_frame — one `save_frame` row (id, parent,
    `cifNormalize U x`, `x`); cif_container_create_loop — one `loop_item` row (`cifNormalize U x`, `x`) per name in order, refused if ANY
    name is invalid; cif_container_set_value, cif_loop_add_item — refused when invalid, otherwise the call IS the call with the record
    ⟨`cifNormalize U x`, `x`, valid⟩ (what these calls then store is C04's refinement); cif_value_set_item_by_key — entry keyed `NFC x`
    with spelling `x`, refused (CIF_INVALID_INDEX) iff `cif_has_disallowed_chars`; cif_packet_set_item — entry keyed `cifNormalize U x`;
    cif_packet_create — one entry (`cifNormalize U x`, `x`, unknown value) per name, refused if any name is invalid. -/
theorem C09_entry_points (U : UnicodeOps) (I : IcuOps) (hI : Contract U I) :
    -- (A)
    (∀ (forItem : Bool) (mem : Str), mem.contains 0 = true → (0 : CU) ∉ cifNormalize U (cstrOf mem) →
      (isValidName forItem (cstrOf mem) = true → entryName I forItem mem = apiName U forItem (cstrOf mem)) ∧
      (isValidName forItem (cstrOf mem) = false → (entryName I forItem mem).valid = false ∧ (entryName I forItem mem).orig = cstrOf mem)) ∧
    (∀ mem : Str, mem.contains 0 = true → (0 : CU) ∉ cifNormalize U (cstrOf mem) → entryItemKey I mem = itemNorm U (cstrOf mem)) ∧
    (∀ mem : Str, mem.contains 0 = true → (0 : CU) ∉ U.nfc (cstrOf mem) → entryTableKey I mem = tableNorm U (cstrOf mem)) ∧
    -- (B) cif_create_block
    (∀ (s : Store.Store) (x : List Nat), (∀ c ∈ x, c < 0x10000) →
      (¬ validName false x → createBlock s (some (apiName U false x)) = (s, .error Gen.ErrCodes.CIF_INVALID_BLOCKCODE)) ∧
      (∀ s' h, createBlock s (some (apiName U false x)) = (s', .ok h) →
        validName false x ∧ s'.db.blocks = s.db.blocks ++ [{ cid := h.id, name := cifNormalize U x, nameOrig := x }] ∧ h.code = x)) ∧
    -- cif_container_create_frame
    (∀ (s : Store.Store) (p : CH) (x : List Nat), (∀ c ∈ x, c < 0x10000) →
      (¬ validName false x → createFrame s p (some (apiName U false x)) = (s, .error Gen.ErrCodes.CIF_INVALID_FRAMECODE)) ∧
      (∀ s' h, createFrame s p (some (apiName U false x)) = (s', .ok h) →
        validName false x ∧
        s'.db.frames = s.db.frames ++ [{ cid := h.id, parent := p.id, name := cifNormalize U x, nameOrig := x }] ∧ h.code = x)) ∧
    -- cif_container_create_loop
    (∀ (s : Store.Store) (p : CH) (cat : Option Str) (xs : List (List Nat)), (∀ x ∈ xs, ∀ c ∈ x, c < 0x10000) →
      ((∃ x ∈ xs, ¬ validName true x) → createLoop s p cat (xs.map (apiName U true)) = (s, .error Gen.ErrCodes.CIF_INVALID_ITEMNAME)) ∧
      (∀ s' l, createLoop s p cat (xs.map (apiName U true)) = (s', .ok l) →
        (∀ x ∈ xs, validName true x) ∧
        s'.db.items = s.db.items ++ xs.map (fun x => { cid := p.id, name := cifNormalize U x, nameOrig := x, loopNum := l.loopNum }))) ∧
    -- cif_container_set_value, cif_loop_add_item
    (∀ (s : Store.Store) (p : CH) (l : LH) (x : List Nat) (v : Option V), (∀ c ∈ x, c < 0x10000) →
      (¬ validName true x → setValue s p (some (apiName U true x)) v = (s, .error Gen.ErrCodes.CIF_INVALID_ITEMNAME) ∧
                            addItem s l (some (apiName U true x)) v = (s, .error Gen.ErrCodes.CIF_INVALID_ITEMNAME)) ∧
      (validName true x → setValue s p (some (apiName U true x)) v = setValue s p (some ⟨cifNormalize U x, x, true⟩) v ∧
                          addItem s l (some (apiName U true x)) v = addItem s l (some ⟨cifNormalize U x, x, true⟩) v)) ∧
    -- cif_value_set_item_by_key, cif_packet_set_item, cif_packet_create
    (∀ (es : List Value.Entry) (key : Str) (v : Option V),
      (hasDisallowed key = true → Value.tableSet (tableNorm U) (.tbl es) key v = .error Value.INVALID_INDEX) ∧
      (hasDisallowed key = false → Value.tableSet (tableNorm U) (.tbl es) key v = .ok (.tbl (Value.mapSet es (U.nfc key) key v)))) ∧
    (∀ (pk : Value.Packet) (x : List Nat) (v : Option V), (∀ c ∈ x, c < 0x10000) →
      (¬ validName true x → Value.packetSet (itemNorm U) pk x v = .error Value.INVALID_ITEMNAME) ∧
      (validName true x → Value.packetSet (itemNorm U) pk x v = .ok (Value.mapSet pk (cifNormalize U x) x v))) ∧
    (∀ (xs : List (List Nat)) (pk : Value.Packet), (∀ x ∈ xs, ∀ c ∈ x, c < 0x10000) →
      Value.packetCreate (itemNorm U) xs = .ok pk →
      pk = xs.map (fun x => (cifNormalize U x, x, V.unk)) ∧ ∀ x ∈ xs, validName true x) := by
  have hval : ∀ (forItem : Bool) (x : List Nat), (∀ c ∈ x, c < 0x10000) → (isValidName forItem x = true ↔ validName forItem x) :=
    fun forItem x hu => C09_validity forItem x hu
  have hinv : ∀ (forItem : Bool) (x : List Nat), (∀ c ∈ x, c < 0x10000) → ¬ validName forItem x → isValidName forItem x = false := by
    intro forItem x hu h
    cases hv : isValidName forItem x with
    | false => rfl
    | true => exact absurd ((hval forItem x hu).1 hv) h
  refine ⟨fun forItem mem h0 hnf => entryName_eq U I hI forItem mem h0 hnf, fun mem h0 hnf => entryItemKey_eq U I hI mem h0 hnf,
    fun mem h0 hnf => entryTableKey_eq U I hI mem h0 hnf, ?_, ?_, ?_, ?_, ?_, ?_, ?_⟩
  · intro s x hu
    constructor
    · intro h; simp [createBlock, apiName, hinv false x hu h]
    · intro s' h he
      obtain ⟨r1, r2, r3, _⟩ := createBlock_row s s' _ h he
      exact ⟨(hval false x hu).1 r3, r1, r2⟩
  · intro s p x hu
    constructor
    · intro h; simp [createFrame, apiName, hinv false x hu h]
    · intro s' h he
      obtain ⟨r1, r2, r3, _⟩ := createFrame_row s s' p _ h he
      exact ⟨(hval false x hu).1 r3, r1, r2⟩
  · intro s p cat xs hu
    constructor
    · rintro ⟨x, hx, hbad⟩
      have hne : (xs.map (apiName U true)).isEmpty = false := by cases xs <;> simp_all
      have hany : (xs.map (apiName U true)).any (fun n => !n.valid) = true := by
        rw [List.any_eq_true]
        exact ⟨apiName U true x, List.mem_map.mpr ⟨x, hx, rfl⟩, by simp [apiName, hinv true x (hu x hx) hbad]⟩
      simp [createLoop, hne, hany]
    · intro s' l he
      obtain ⟨r1, r2, _⟩ := createLoop_rows s s' p cat _ l he
      refine ⟨?_, ?_⟩
      · intro x hx
        exact (hval true x (hu x hx)).1 (r2 (apiName U true x) (List.mem_map.mpr ⟨x, hx, rfl⟩))
      · rw [r1, List.map_map]; rfl
  · intro s p l x v hu
    constructor
    · intro h
      have := hinv true x hu h
      exact ⟨by simp [setValue, apiName, this], by simp [addItem, apiName, this]⟩
    · intro h
      have := (hval true x hu).2 h
      simp [apiName, this]
  · intro es key v; exact tableSet_stored U es key v
  · intro pk x v hu
    obtain ⟨a, b⟩ := packetSet_stored U pk x v
    exact ⟨fun h => a (hinv true x hu h), fun h => b ((hval true x hu).2 h)⟩
  · intro xs pk hu he
    obtain ⟨e, hall⟩ := packetCreate_stored U xs pk he
    exact ⟨e, fun x hx => (hval true x (hu x hx)).1 (hall x hx)⟩

/-- **C09, matching of block codes in the COMPOSED model** (store model of C04 + name model of C09): in a store outside any
    transaction whose stored block keys are the normal forms of the stored spellings (`BlocksNormOK (cifNormalize U)` — true of the
    empty store and PRESERVED, first conjunct) and whose id sequence is fresh (part of C04's invariant, `Inv.idFresh`): after
    `cif_create_block` succeeded under spelling `a`,
    * `cif_get_block` under `b` finds a block iff `cifNormalize U b = cifNormalize U a` or it found one before — and when the normal
      forms coincide and no older block matched, the block found is the new one, reported under the spelling `a` it was created with;
    * `cif_create_block` under a valid `b` is refused as CIF_DUP_BLOCKCODE iff `cifNormalize U b = cifNormalize U a` or it would have
      been refused before. -/
theorem C09_store_block_match (U : UnicodeOps) (s s' : Store.Store) (a b : Str) (h : CH)
    (hn : BlocksNormOK (cifNormalize U) s.db)
    (hc : createBlock s (some (apiName U false a)) = (s', .ok h)) :
    BlocksNormOK (cifNormalize U) s'.db ∧
    (((getBlock s' (apiName U false b)).2.toOption.isSome = true) ↔
      (cifNormalize U b = cifNormalize U a ∨ (getBlock s (apiName U false b)).2.toOption.isSome = true)) ∧
    (cifNormalize U b = cifNormalize U a → (getBlock s (apiName U false b)).2.toOption.isSome = false →
      (getBlock s' (apiName U false b)).2 = .ok { id := h.id, code := a, isBlock := true }) ∧
    (s.autocommit = true → s'.autocommit = true → IdFresh s.db → IdFresh s'.db → isValidName false b = true →
      ((createBlock s' (some (apiName U false b))).2 = .error Gen.ErrCodes.CIF_DUP_BLOCKCODE ↔
        (cifNormalize U b = cifNormalize U a ∨ (createBlock s (some (apiName U false b))).2 = .error Gen.ErrCodes.CIF_DUP_BLOCKCODE))) := by
  obtain ⟨hrow, _, _, _⟩ := createBlock_row s s' _ h hc
  simp only [apiName] at hrow
  refine ⟨?_, ?_, ?_, ?_⟩
  · intro r hr
    rw [hrow] at hr
    rcases List.mem_append.mp hr with h1 | h1
    · exact hn r h1
    · simp at h1; subst h1; rfl
  · simp only [getBlock, apiName, hrow, List.find?_append]
    cases hf : s.db.blocks.find? (fun r => r.name == cifNormalize U b) with
    | some r => simp [Except.toOption]
    | none =>
      by_cases he : cifNormalize U a = cifNormalize U b
      · simp [he, Except.toOption]
      · have : ¬ cifNormalize U b = cifNormalize U a := fun e => he e.symm
        simp [he, this, Except.toOption]
  · intro he hold
    simp only [getBlock, apiName, hrow, List.find?_append] at hold ⊢
    cases hf : s.db.blocks.find? (fun r => r.name == cifNormalize U b) with
    | some r => simp [hf, Except.toOption] at hold
    | none => simp [he]
  · intro hac hac' hfr hfr' hvb
    rw [createBlock_dup_iff s' _ hac' hfr' (by simp [apiName, hvb]), createBlock_dup_iff s _ hac hfr (by simp [apiName, hvb])]
    simp only [apiName, hrow, List.any_append]
    by_cases he : cifNormalize U a = cifNormalize U b
    · simp [he]
    · have : ¬ cifNormalize U b = cifNormalize U a := fun e => he e.symm
      simp [he, this]


/-- **C09, matching of frame codes in the composed model.**  After `cif_container_create_frame` succeeded under spelling `a` in the
    container `p` (any store state whose frame keys are the normal forms of their spellings — preserved, first conjunct):
    `cif_container_get_frame` under a valid `b` finds a frame of `p` iff `cifNormalize U b = cifNormalize U a` or it found one before —
    frames of OTHER containers never match —, and, when nothing older matched, it is the new frame under its spelling `a`;
    `cif_container_create_frame` under a valid `b` is refused as CIF_DUP_FRAMECODE iff the normal forms coincide or it would have been
    refused before (store outside a transaction; id-sequence facts of C04's invariant as explicit hypotheses). -/
theorem C09_store_frame_match (U : UnicodeOps) (s s' : Store.Store) (p : CH) (a b : Str) (h : CH)
    (hn : FramesNormOK (cifNormalize U) s.db) (hvb : isValidName false b = true)
    (hc : createFrame s p (some (apiName U false a)) = (s', .ok h)) :
    FramesNormOK (cifNormalize U) s'.db ∧
    (((getFrame s' p (some (apiName U false b))).2.toOption.isSome = true) ↔
      (cifNormalize U b = cifNormalize U a ∨ (getFrame s p (some (apiName U false b))).2.toOption.isSome = true)) ∧
    (cifNormalize U b = cifNormalize U a → (getFrame s p (some (apiName U false b))).2.toOption.isSome = false →
      (getFrame s' p (some (apiName U false b))).2 = .ok { id := h.id, code := a, isBlock := false }) ∧
    (s.autocommit = true → s'.autocommit = true →
      (∀ f ∈ s.db.frames, f.cid ≠ s.db.nextId) → s.db.hasContainer p.id = true → p.id ≠ s.db.nextId →
      (∀ f ∈ s'.db.frames, f.cid ≠ s'.db.nextId) → s'.db.hasContainer p.id = true → p.id ≠ s'.db.nextId →
      ((createFrame s' p (some (apiName U false b))).2 = .error Gen.ErrCodes.CIF_DUP_FRAMECODE ↔
        (cifNormalize U b = cifNormalize U a ∨ (createFrame s p (some (apiName U false b))).2 = .error Gen.ErrCodes.CIF_DUP_FRAMECODE))) := by
  obtain ⟨hrow, _, _, _⟩ := createFrame_row s s' p _ h hc
  simp only [apiName] at hrow
  refine ⟨?_, ?_, ?_, ?_⟩
  · intro r hr
    rw [hrow] at hr
    rcases List.mem_append.mp hr with h1 | h1
    · exact hn r h1
    · simp at h1; subst h1; rfl
  · simp only [getFrame, apiName, hvb, Bool.not_true, Bool.false_eq_true, if_false, hrow, List.find?_append]
    cases hf : s.db.frames.find? (fun r => r.parent == p.id && r.name == cifNormalize U b) with
    | some r => simp [Except.toOption]
    | none =>
      by_cases he : cifNormalize U a = cifNormalize U b
      · simp [he, Except.toOption]
      · have : ¬ cifNormalize U b = cifNormalize U a := fun e => he e.symm
        simp [he, this, Except.toOption]
  · intro he hold
    simp only [getFrame, apiName, hvb, Bool.not_true, Bool.false_eq_true, if_false, hrow, List.find?_append] at hold ⊢
    cases hf : s.db.frames.find? (fun r => r.parent == p.id && r.name == cifNormalize U b) with
    | some r => simp [hf, Except.toOption] at hold
    | none => simp [he]
  · intro hac hac' h1 h2 h3 h1' h2' h3'
    rw [createFrame_dup_iff s' p _ hac' (by simp [apiName, hvb]) h1' h2' h3',
      createFrame_dup_iff s p _ hac (by simp [apiName, hvb]) h1 h2 h3]
    simp only [apiName, hrow, List.any_append]
    by_cases he : cifNormalize U a = cifNormalize U b
    · simp [he]
    · have : ¬ cifNormalize U b = cifNormalize U a := fun e => he e.symm
      simp [he, this]

/-- **C09, matching of data names in the composed model.**  After `cif_container_create_loop` succeeded in container `p` with the names
    `xs` (spellings; keys built by `apiName`): an item of container `c` is present under the key of spelling `b` — `loop_item` has a row
    (c, `cifNormalize U b`): what makes `cif_container_get_value` / `get_item_loop` find it and what makes a second definition fail with
    CIF_DUP_ITEMNAME (the `hasItem` test of ADD_LOOP_ITEM_SQL's primary key) — iff `c = p` and `b` has the normal form of one of the names
    just defined, or it was present before; and the invariant `ItemsNormOK (cifNormalize U)` is preserved. -/
theorem C09_store_item_match (U : UnicodeOps) (s s' : Store.Store) (p : CH) (cat : Option Str) (xs : List Str) (l : LH) (b : Str) (c : Nat)
    (hn : ItemsNormOK (cifNormalize U) s.db)
    (hc : createLoop s p cat (xs.map (apiName U true)) = (s', .ok l)) :
    ItemsNormOK (cifNormalize U) s'.db ∧
    (s'.db.hasItem c (cifNormalize U b) = true ↔
      ((c = p.id ∧ ∃ a ∈ xs, cifNormalize U a = cifNormalize U b) ∨ s.db.hasItem c (cifNormalize U b) = true)) := by
  obtain ⟨hrows, _, _, _⟩ := createLoop_rows s s' p cat _ l hc
  constructor
  · intro i hi
    rw [hrows] at hi
    rcases List.mem_append.mp hi with h1 | h1
    · exact hn i h1
    · simp only [List.map_map, List.mem_map, Function.comp] at h1
      obtain ⟨x, _, rfl⟩ := h1
      rfl
  · rw [createLoop_hasItem s s' p cat _ l hc c (cifNormalize U b)]
    constructor
    · rintro (⟨h1, n, hn', h2⟩ | h)
      · obtain ⟨x, hx, rfl⟩ := List.mem_map.mp hn'
        exact Or.inl ⟨h1, x, hx, h2⟩
      · exact Or.inr h
    · rintro (⟨h1, x, hx, h2⟩ | h)
      · exact Or.inl ⟨h1, apiName U true x, List.mem_map.mpr ⟨x, hx, rfl⟩, h2⟩
      · exact Or.inr h

-- non-vacuity ------------------------------------------------------------------------------------------------------------
/-- create `Ab` in the empty store, then look up `ab` and `AB` (toy folding: `A` ↦ `a`): both find the block created as `Ab` -/
example : ∃ s' h, createBlock {} (some (apiName toyU false [65, 98])) = (s', .ok h) ∧
    (getBlock s' (apiName toyU false [97, 98])).2 = .ok { id := h.id, code := [65, 98], isBlock := true } := by
  refine ⟨_, _, rfl, ?_⟩
  rfl
example : BlocksNormOK (cifNormalize toyU) ({} : Store.Store).db := fun _ h => nomatch h
example : validName false [65, 98] := (C09_validity false _ (by decide)).1 (by decide)
example : entryName (IcuOps.of toyU) false [65, 98, 0] = apiName toyU false [65, 98] := by rfl

/-- frames and items: in the store holding one block, create the frame `Ar` / the item `_Ab`; the hypotheses of
    `C09_store_frame_match` / `C09_store_item_match` hold, and the variant spellings `ar` / `_ab` hit them -/
def oneBlock : Store.Store := (createBlock {} (some (apiName toyU false [98]))).1
def theBlock : CH := { id := 1, code := [98], isBlock := true }
example : ∃ s' h, createFrame oneBlock theBlock (some (apiName toyU false [65, 114])) = (s', .ok h) ∧
    (getFrame s' theBlock (some (apiName toyU false [97, 114]))).2 = .ok { id := h.id, code := [65, 114], isBlock := false } :=
  ⟨_, _, rfl, rfl⟩
example : FramesNormOK (cifNormalize toyU) oneBlock.db ∧ ItemsNormOK (cifNormalize toyU) oneBlock.db := by
  have e1 : oneBlock.db.frames = [] := rfl
  have e2 : oneBlock.db.items = [] := rfl
  constructor
  · intro f h; rw [e1] at h; cases h
  · intro i h; rw [e2] at h; cases h
example : ∃ s' l, createLoop oneBlock theBlock none ([[95, 65, 98]].map (apiName toyU true)) = (s', .ok l) ∧
    s'.db.hasItem 1 (cifNormalize toyU [95, 97, 98]) = true := ⟨_, _, rfl, rfl⟩

end CifModel
