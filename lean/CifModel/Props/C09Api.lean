import CifModel.Lemmas.NamesApi
import CifModel.Props.C09
import CifModel.Props.C09Buf
/-
  Property C09 at the public entry points: the entry-point models of other groups (store: Model/Store.lean; tables and packets:
  Model/Value.lean) take the name as a parameter; here the parameter is INSTANTIATED with the C09 models of utils.c — down to the buffer
  level — and each entry point's verdict and the key it stores are stated in terms of the caller's string.
-/
namespace CifModel
open Model Model.NormBuf Spec Lemmas.Names Lemmas.NormBuf Store

/-- **C09_entry_points.**  `U`, `I`, `Contract U I` as in `C09_normalize_buffer_refines`.

    (A) *The parameter is what the C computes.*  For a caller's NUL-terminated string at `mem` (C string `s = cstrOf mem`, normal form
    NUL-free): running the buffer-level model of `cif_normalize_name` / `cif_normalize_item_name` with `namelen = -1` and reading the C
    string at the result (`entryName`) gives exactly the record `apiName U forItem s` = ⟨`cifNormalize U s`, `s`, `isValidName forItem s`⟩
    for a valid name, and the verdict `invalid` otherwise; likewise the packet normaliser `entryItemKey` is `itemNorm U` and the table
    normaliser `entryTableKey` is `tableNorm U` — the parameters `C09_code_table` is stated with.

    (B) *Verdict and stored key, per entry point*, for every string `x` of UTF-16 units and the name built from it:
    verdict = the CIF rules (`Spec.validName`, via `C09_validity`); on refusal the store / table / packet is unchanged and the code is the
    entry point's INVALID_* code; on success what is stored is `cifNormalize U x` (resp. `NFC x` for table keys) as key together with
    the spelling `x` itself:
    cif_create_block — one `data_block` row (id, `cifNormalize U x`, `x`); cif_container_create_frame — one `save_frame` row (id, parent,
    `cifNormalize U x`, `x`); cif_container_create_loop — one `loop_item` row (`cifNormalize U x`, `x`) per name in order, refused if ANY
    name is invalid; cif_container_set_value, cif_loop_add_item — refused when invalid, otherwise the call IS the call with the record
    ⟨`cifNormalize U x`, `x`, valid⟩ (what these calls then store is C04's refinement); cif_value_set_item_by_key — entry keyed `NFC x`
    with spelling `x`, refused (CIF_INVALID_INDEX) iff `cif_has_disallowed_chars`; cif_packet_set_item — entry keyed `cifNormalize U x`;
    cif_packet_create — one entry (`cifNormalize U x`, `x`, unknown value) per name, refused if any name is invalid. -/
theorem C09_entry_points (U : UnicodeOps) (I : IcuOps) (hI : Contract U I) :
    -- (A)
    (∀ (forItem : Bool) (mem : Str), mem.contains 0 = true → (0 : CU) ∉ cifNormalize U (cstrOf mem) →
      (isValidName forItem (cstrOf mem) = true → entryName I forItem mem = apiName U forItem (cstrOf mem)) ∧
      (isValidName forItem (cstrOf mem) = false → (entryName I forItem mem).valid = false ∧ (entryName I forItem mem).orig = cstrOf mem)) ∧
    (∀ mem : Str, mem.contains 0 = true → (0 : CU) ∉ cifNormalize U (cstrOf mem) → entryItemKey I mem = itemNorm U (cstrOf mem)) ∧
    (∀ mem : Str, mem.contains 0 = true → (0 : CU) ∉ U.nfc (cstrOf mem) → entryTableKey I mem = tableNorm U (cstrOf mem)) ∧
    -- (B) cif_create_block
    (∀ (s : Store.Store) (x : List Nat), (∀ c ∈ x, c < 0x10000) →
      (¬ validName false x → createBlock s (some (apiName U false x)) = (s, .error Gen.ErrCodes.CIF_INVALID_BLOCKCODE)) ∧
      (∀ s' h, createBlock s (some (apiName U false x)) = (s', .ok h) →
        validName false x ∧ s'.db.blocks = s.db.blocks ++ [{ cid := h.id, name := cifNormalize U x, nameOrig := x }] ∧ h.code = x)) ∧
    -- cif_container_create_frame
    (∀ (s : Store.Store) (p : CH) (x : List Nat), (∀ c ∈ x, c < 0x10000) →
      (¬ validName false x → createFrame s p (some (apiName U false x)) = (s, .error Gen.ErrCodes.CIF_INVALID_FRAMECODE)) ∧
      (∀ s' h, createFrame s p (some (apiName U false x)) = (s', .ok h) →
        validName false x ∧
        s'.db.frames = s.db.frames ++ [{ cid := h.id, parent := p.id, name := cifNormalize U x, nameOrig := x }] ∧ h.code = x)) ∧
    -- cif_container_create_loop
    (∀ (s : Store.Store) (p : CH) (cat : Option Str) (xs : List (List Nat)), (∀ x ∈ xs, ∀ c ∈ x, c < 0x10000) →
      ((∃ x ∈ xs, ¬ validName true x) → createLoop s p cat (xs.map (apiName U true)) = (s, .error Gen.ErrCodes.CIF_INVALID_ITEMNAME)) ∧
      (∀ s' l, createLoop s p cat (xs.map (apiName U true)) = (s', .ok l) →
        (∀ x ∈ xs, validName true x) ∧
        s'.db.items = s.db.items ++ xs.map (fun x => { cid := p.id, name := cifNormalize U x, nameOrig := x, loopNum := l.loopNum }))) ∧
    -- cif_container_set_value, cif_loop_add_item
    (∀ (s : Store.Store) (p : CH) (l : LH) (x : List Nat) (v : Option V), (∀ c ∈ x, c < 0x10000) →
      (¬ validName true x → setValue s p (some (apiName U true x)) v = (s, .error Gen.ErrCodes.CIF_INVALID_ITEMNAME) ∧
                            addItem s l (some (apiName U true x)) v = (s, .error Gen.ErrCodes.CIF_INVALID_ITEMNAME)) ∧
      (validName true x → setValue s p (some (apiName U true x)) v = setValue s p (some ⟨cifNormalize U x, x, true⟩) v ∧
                          addItem s l (some (apiName U true x)) v = addItem s l (some ⟨cifNormalize U x, x, true⟩) v)) ∧
    -- cif_value_set_item_by_key, cif_packet_set_item, cif_packet_create
    (∀ (es : List Value.Entry) (key : Str) (v : Option V),
      (hasDisallowed key = true → Value.tableSet (tableNorm U) (.tbl es) key v = .error Value.INVALID_INDEX) ∧
      (hasDisallowed key = false → Value.tableSet (tableNorm U) (.tbl es) key v = .ok (.tbl (Value.mapSet es (U.nfc key) key v)))) ∧
    (∀ (pk : Value.Packet) (x : List Nat) (v : Option V), (∀ c ∈ x, c < 0x10000) →
      (¬ validName true x → Value.packetSet (itemNorm U) pk x v = .error Value.INVALID_ITEMNAME) ∧
      (validName true x → Value.packetSet (itemNorm U) pk x v = .ok (Value.mapSet pk (cifNormalize U x) x v))) ∧
    (∀ (xs : List (List Nat)) (pk : Value.Packet), (∀ x ∈ xs, ∀ c ∈ x, c < 0x10000) →
      Value.packetCreate (itemNorm U) xs = .ok pk →
      pk = xs.map (fun x => (cifNormalize U x, x, V.unk)) ∧ ∀ x ∈ xs, validName true x) := by
  have hval : ∀ (forItem : Bool) (x : List Nat), (∀ c ∈ x, c < 0x10000) → (isValidName forItem x = true ↔ validName forItem x) :=
    fun forItem x hu => C09_validity forItem x hu
  have hinv : ∀ (forItem : Bool) (x : List Nat), (∀ c ∈ x, c < 0x10000) → ¬ validName forItem x → isValidName forItem x = false := by
    intro forItem x hu h
    cases hv : isValidName forItem x with
    | false => rfl
    | true => exact absurd ((hval forItem x hu).1 hv) h
  refine ⟨fun forItem mem h0 hnf => entryName_eq U I hI forItem mem h0 hnf, fun mem h0 hnf => entryItemKey_eq U I hI mem h0 hnf,
    fun mem h0 hnf => entryTableKey_eq U I hI mem h0 hnf, ?_, ?_, ?_, ?_, ?_, ?_, ?_⟩
  · intro s x hu
    constructor
    · intro h; simp [createBlock, apiName, hinv false x hu h]
    · intro s' h he
      obtain ⟨r1, r2, r3, _⟩ := createBlock_row s s' _ h he
      exact ⟨(hval false x hu).1 r3, r1, r2⟩
  · intro s p x hu
    constructor
    · intro h; simp [createFrame, apiName, hinv false x hu h]
    · intro s' h he
      obtain ⟨r1, r2, r3, _⟩ := createFrame_row s s' p _ h he
      exact ⟨(hval false x hu).1 r3, r1, r2⟩
  · intro s p cat xs hu
    constructor
    · rintro ⟨x, hx, hbad⟩
      have hne : (xs.map (apiName U true)).isEmpty = false := by cases xs <;> simp_all
      have hany : (xs.map (apiName U true)).any (fun n => !n.valid) = true := by
        rw [List.any_eq_true]
        exact ⟨apiName U true x, List.mem_map.mpr ⟨x, hx, rfl⟩, by simp [apiName, hinv true x (hu x hx) hbad]⟩
      simp [createLoop, hne, hany]
    · intro s' l he
      obtain ⟨r1, r2, _⟩ := createLoop_rows s s' p cat _ l he
      refine ⟨?_, ?_⟩
      · intro x hx
        exact (hval true x (hu x hx)).1 (r2 (apiName U true x) (List.mem_map.mpr ⟨x, hx, rfl⟩))
      · rw [r1, List.map_map]; rfl
  · intro s p l x v hu
    constructor
    · intro h
      have := hinv true x hu h
      exact ⟨by simp [setValue, apiName, this], by simp [addItem, apiName, this]⟩
    · intro h
      have := (hval true x hu).2 h
      simp [apiName, this]
  · intro es key v; exact tableSet_stored U es key v
  · intro pk x v hu
    obtain ⟨a, b⟩ := packetSet_stored U pk x v
    exact ⟨fun h => a (hinv true x hu h), fun h => b ((hval true x hu).2 h)⟩
  · intro xs pk hu he
    obtain ⟨e, hall⟩ := packetCreate_stored U xs pk he
    exact ⟨e, fun x hx => (hval true x (hu x hx)).1 (hall x hx)⟩

/-- **C09_entry_points, the accepting direction** (review rA, B): a code / name that meets the CIF rules is never refused as invalid —
    `cif_create_block`, `cif_container_create_frame`, `cif_container_create_loop` called with valid spellings answer something other than
    their INVALID_* code (success, a duplicate, or a store error); together with `C09_entry_points` (B): refused as INVALID exactly when
    `Spec.validName` fails. -/
theorem C09_entry_points_accept (U : UnicodeOps) :
    (∀ (s : Store.Store) (x : List Nat), (∀ c ∈ x, c < 0x10000) → validName false x →
      (createBlock s (some (apiName U false x))).2 ≠ .error Gen.ErrCodes.CIF_INVALID_BLOCKCODE) ∧
    (∀ (s : Store.Store) (p : CH) (x : List Nat), (∀ c ∈ x, c < 0x10000) → validName false x →
      (createFrame s p (some (apiName U false x))).2 ≠ .error Gen.ErrCodes.CIF_INVALID_FRAMECODE) ∧
    (∀ (s : Store.Store) (p : CH) (cat : Option Str) (xs : List (List Nat)), (∀ x ∈ xs, ∀ c ∈ x, c < 0x10000) →
      (∀ x ∈ xs, validName true x) →
      (createLoop s p cat (xs.map (apiName U true))).2 ≠ .error Gen.ErrCodes.CIF_INVALID_ITEMNAME) := by
  refine ⟨?_, ?_, ?_⟩
  · intro s x hu hv
    have hvv := (C09_validity false x hu).2 hv
    unfold createBlock
    simp only [apiName, hvv, Bool.not_true, Bool.and_false, Bool.false_eq_true, if_false]
    split
    · simp [Gen.ErrCodes.CIF_ERROR, Gen.ErrCodes.CIF_INVALID_BLOCKCODE]
    · split
      · simp [Gen.ErrCodes.CIF_DUP_BLOCKCODE, Gen.ErrCodes.CIF_INVALID_BLOCKCODE]
      · simp
  · intro s p x hu hv
    have hvv := (C09_validity false x hu).2 hv
    unfold createFrame
    simp only [apiName, hvv, Bool.not_true, Bool.and_false, Bool.false_eq_true, if_false]
    split
    · simp [Gen.ErrCodes.CIF_ERROR, Gen.ErrCodes.CIF_INVALID_FRAMECODE]
    · split
      · simp [Gen.ErrCodes.CIF_DUP_FRAMECODE, Gen.ErrCodes.CIF_INVALID_FRAMECODE]
      · simp
  · intro s p cat xs hu hv
    have hany : (xs.map (apiName U true)).any (fun n => !n.valid) = false := by
      rw [Bool.eq_false_iff]; intro h
      obtain ⟨n, hn, hb⟩ := List.any_eq_true.mp h
      obtain ⟨x, hx, rfl⟩ := List.mem_map.mp hn
      have := (C09_validity true x (hu x hx)).2 (hv x hx)
      simp [apiName, this] at hb
    unfold createLoop
    split
    · simp [Gen.ErrCodes.CIF_NULL_LOOP, Gen.ErrCodes.CIF_INVALID_ITEMNAME]
    · simp only [hany, Bool.false_eq_true, if_false]
      intro he
      have := (nest_error_iff s (createLoopBody p.id cat (xs.map (apiName U true))) Gen.ErrCodes.CIF_INVALID_ITEMNAME).1 he
      unfold createLoopBody at this
      split at this
      · split at this <;> simp [Gen.ErrCodes.CIF_RESERVED_LOOP, Gen.ErrCodes.CIF_INVALID_HANDLE, Gen.ErrCodes.CIF_INVALID_ITEMNAME] at this
      · simp only at this
        split at this
        · rename_i c hadd
          -- addItems fails with CIF_DUP_ITEMNAME only
          have hdup : ∀ (ns : List Store.Name) (d : Db) (ln : Nat) (c : Code), addItems d p.id ln ns = .error c → c = Gen.ErrCodes.CIF_DUP_ITEMNAME := by
            intro ns
            induction ns with
            | nil => intro d ln c h; simp [addItems] at h
            | cons n ns ih =>
              intro d ln c h
              unfold addItems at h
              split at h
              · cases h; rfl
              · exact ih _ _ _ h
          have e := hdup _ _ _ _ hadd
          subst e
          simp [Gen.ErrCodes.CIF_DUP_ITEMNAME, Gen.ErrCodes.CIF_INVALID_ITEMNAME] at this
        · cases this

/-- **C09, matching of block codes in the COMPOSED model** (store model of C04 + name model of C09): in a store outside any
    transaction whose stored block keys are the normal forms of the stored spellings (`BlocksNormOK (cifNormalize U)` — true of the
    empty store and PRESERVED, first conjunct) and whose id sequence is fresh (part of C04's invariant, `Inv.idFresh`): after
    `cif_create_block` succeeded under spelling `a`,
    * `cif_get_block` under `b` finds a block iff `cifNormalize U b = cifNormalize U a` or it found one before — and when the normal
      forms coincide and no older block matched, the block found is the new one, reported under the spelling `a` it was created with;
    * `cif_create_block` under a valid `b` is refused as CIF_DUP_BLOCKCODE iff `cifNormalize U b = cifNormalize U a` or it would have
      been refused before. -/
theorem C09_store_block_match (U : UnicodeOps) (s s' : Store.Store) (a b : Str) (h : CH)
    (hn : BlocksNormOK (cifNormalize U) s.db)
    (hc : createBlock s (some (apiName U false a)) = (s', .ok h)) :
    BlocksNormOK (cifNormalize U) s'.db ∧
    (((getBlock s' (apiName U false b)).2.toOption.isSome = true) ↔
      (cifNormalize U b = cifNormalize U a ∨ (getBlock s (apiName U false b)).2.toOption.isSome = true)) ∧
    (cifNormalize U b = cifNormalize U a → (getBlock s (apiName U false b)).2.toOption.isSome = false →
      (getBlock s' (apiName U false b)).2 = .ok { id := h.id, code := a, isBlock := true }) ∧
    (s.autocommit = true → s'.autocommit = true → IdFresh s.db → IdFresh s'.db → isValidName false b = true →
      ((createBlock s' (some (apiName U false b))).2 = .error Gen.ErrCodes.CIF_DUP_BLOCKCODE ↔
        (cifNormalize U b = cifNormalize U a ∨ (createBlock s (some (apiName U false b))).2 = .error Gen.ErrCodes.CIF_DUP_BLOCKCODE))) := by
  obtain ⟨hrow, _, _, _⟩ := createBlock_row s s' _ h hc
  simp only [apiName] at hrow
  refine ⟨?_, ?_, ?_, ?_⟩
  · intro r hr
    rw [hrow] at hr
    rcases List.mem_append.mp hr with h1 | h1
    · exact hn r h1
    · simp at h1; subst h1; rfl
  · simp only [getBlock, apiName, hrow, List.find?_append]
    cases hf : s.db.blocks.find? (fun r => r.name == cifNormalize U b) with
    | some r => simp [Except.toOption]
    | none =>
      by_cases he : cifNormalize U a = cifNormalize U b
      · simp [he, Except.toOption]
      · have : ¬ cifNormalize U b = cifNormalize U a := fun e => he e.symm
        simp [he, this, Except.toOption]
  · intro he hold
    simp only [getBlock, apiName, hrow, List.find?_append] at hold ⊢
    cases hf : s.db.blocks.find? (fun r => r.name == cifNormalize U b) with
    | some r => simp [hf, Except.toOption] at hold
    | none => simp [he]
  · intro hac hac' hfr hfr' hvb
    rw [createBlock_dup_iff s' _ hac' hfr' (by simp [apiName, hvb]), createBlock_dup_iff s _ hac hfr (by simp [apiName, hvb])]
    simp only [apiName, hrow, List.any_append]
    by_cases he : cifNormalize U a = cifNormalize U b
    · simp [he]
    · have : ¬ cifNormalize U b = cifNormalize U a := fun e => he e.symm
      simp [he, this]


/-- **C09, matching of frame codes in the composed model.**  After `cif_container_create_frame` succeeded under spelling `a` in the
    container `p` (any store state whose frame keys are the normal forms of their spellings — preserved, first conjunct):
    `cif_container_get_frame` under a valid `b` finds a frame of `p` iff `cifNormalize U b = cifNormalize U a` or it found one before —
    frames of OTHER containers never match —, and, when nothing older matched, it is the new frame under its spelling `a`;
    `cif_container_create_frame` under a valid `b` is refused as CIF_DUP_FRAMECODE iff the normal forms coincide or it would have been
    refused before (store outside a transaction; id-sequence facts of C04's invariant as explicit hypotheses). -/
theorem C09_store_frame_match (U : UnicodeOps) (s s' : Store.Store) (p : CH) (a b : Str) (h : CH)
    (hn : FramesNormOK (cifNormalize U) s.db) (hvb : isValidName false b = true)
    (hc : createFrame s p (some (apiName U false a)) = (s', .ok h)) :
    FramesNormOK (cifNormalize U) s'.db ∧
    (((getFrame s' p (some (apiName U false b))).2.toOption.isSome = true) ↔
      (cifNormalize U b = cifNormalize U a ∨ (getFrame s p (some (apiName U false b))).2.toOption.isSome = true)) ∧
    (cifNormalize U b = cifNormalize U a → (getFrame s p (some (apiName U false b))).2.toOption.isSome = false →
      (getFrame s' p (some (apiName U false b))).2 = .ok { id := h.id, code := a, isBlock := false }) ∧
    (s.autocommit = true → s'.autocommit = true →
      (∀ f ∈ s.db.frames, f.cid ≠ s.db.nextId) → s.db.hasContainer p.id = true → p.id ≠ s.db.nextId →
      (∀ f ∈ s'.db.frames, f.cid ≠ s'.db.nextId) → s'.db.hasContainer p.id = true → p.id ≠ s'.db.nextId →
      ((createFrame s' p (some (apiName U false b))).2 = .error Gen.ErrCodes.CIF_DUP_FRAMECODE ↔
        (cifNormalize U b = cifNormalize U a ∨ (createFrame s p (some (apiName U false b))).2 = .error Gen.ErrCodes.CIF_DUP_FRAMECODE))) := by
  obtain ⟨hrow, _, _, _⟩ := createFrame_row s s' p _ h hc
  simp only [apiName] at hrow
  refine ⟨?_, ?_, ?_, ?_⟩
  · intro r hr
    rw [hrow] at hr
    rcases List.mem_append.mp hr with h1 | h1
    · exact hn r h1
    · simp at h1; subst h1; rfl
  · simp only [getFrame, apiName, hvb, Bool.not_true, Bool.false_eq_true, if_false, hrow, List.find?_append]
    cases hf : s.db.frames.find? (fun r => r.parent == p.id && r.name == cifNormalize U b) with
    | some r => simp [Except.toOption]
    | none =>
      by_cases he : cifNormalize U a = cifNormalize U b
      · simp [he, Except.toOption]
      · have : ¬ cifNormalize U b = cifNormalize U a := fun e => he e.symm
        simp [he, this, Except.toOption]
  · intro he hold
    simp only [getFrame, apiName, hvb, Bool.not_true, Bool.false_eq_true, if_false, hrow, List.find?_append] at hold ⊢
    cases hf : s.db.frames.find? (fun r => r.parent == p.id && r.name == cifNormalize U b) with
    | some r => simp [hf, Except.toOption] at hold
    | none => simp [he]
  · intro hac hac' h1 h2 h3 h1' h2' h3'
    rw [createFrame_dup_iff s' p _ hac' (by simp [apiName, hvb]) h1' h2' h3',
      createFrame_dup_iff s p _ hac (by simp [apiName, hvb]) h1 h2 h3]
    simp only [apiName, hrow, List.any_append]
    by_cases he : cifNormalize U a = cifNormalize U b
    · simp [he]
    · have : ¬ cifNormalize U b = cifNormalize U a := fun e => he e.symm
      simp [he, this]

/-- **C09, matching of data names in the composed model — at API level.**  `s` satisfies the store invariant (every reachable state:
    `C04_inv_reachable`) and keeps item keys normalised; `cif_container_create_loop` succeeded in container `p` with the names `xs`
    (spellings; keys built by `apiName`).  Then, for every valid spelling `b`:
    * FOUND: `cif_container_get_item_loop(p, b)` answers a loop iff `b` has the normal form of one of the names just defined, or it
      answered a loop before; in every other case it answers CIF_NOSUCH_ITEM (never CIF_INTERNAL_ERROR);
    * DUPLICATE: `cif_loop_add_item` through any live loop handle of `p` is refused with CIF_DUP_ITEMNAME under exactly the same condition;
      and `cif_container_create_loop(p, …)` with a name list containing such a spelling is refused with CIF_DUP_ITEMNAME (whenever its
      CREATE_LOOP_SQL step itself succeeds — category not the scalar one twice, container present);
    * the invariant `ItemsNormOK (cifNormalize U)` is preserved.
    (`cif_container_get_value` is NOT the observable here: right after `create_loop` the loop has no packet and get_value answers
    CIF_NOSUCH_ITEM under every spelling; once values exist it reads the same `loop_item` / `item_value` keys.) -/
theorem C09_store_item_match (U : UnicodeOps) (s s' : Store.Store) (hinv : InvS s) (p : CH) (cat : Option Str) (xs : List Str) (l : LH)
    (b : Str) (hn : ItemsNormOK (cifNormalize U) s.db) (hvb : isValidName true b = true)
    (hc : createLoop s p cat (xs.map (apiName U true)) = (s', .ok l)) :
    ItemsNormOK (cifNormalize U) s'.db ∧
    ((∃ l', (getItemLoop s' p (some (apiName U true b))).2 = .ok l') ↔
      ((∃ a ∈ xs, cifNormalize U a = cifNormalize U b) ∨ ∃ l', (getItemLoop s p (some (apiName U true b))).2 = .ok l')) ∧
    (¬ ((∃ a ∈ xs, cifNormalize U a = cifNormalize U b) ∨ ∃ l', (getItemLoop s p (some (apiName U true b))).2 = .ok l') →
      (getItemLoop s' p (some (apiName U true b))).2 = .error Gen.ErrCodes.CIF_NOSUCH_ITEM) ∧
    (∀ (l2 : LH) (v : Option V), l2.cid = p.id → s'.db.hasLoop l2.cid l2.loopNum = true →
      ((addItem s' l2 (some (apiName U true b)) v).2 = .error Gen.ErrCodes.CIF_DUP_ITEMNAME ↔
        ((∃ a ∈ xs, cifNormalize U a = cifNormalize U b) ∨ ∃ l', (getItemLoop s p (some (apiName U true b))).2 = .ok l'))) ∧
    (∀ (cat2 : Option Str) (ys : List Str) (d1 : Db), (∀ y ∈ ys, isValidName true y = true) →
      s'.db.insertLoopUnnumbered p.id cat2 = .ok d1 → b ∈ ys →
      ((∃ a ∈ xs, cifNormalize U a = cifNormalize U b) ∨ ∃ l', (getItemLoop s p (some (apiName U true b))).2 = .ok l') →
      (createLoop s' p cat2 (ys.map (apiName U true))).2 = .error Gen.ErrCodes.CIF_DUP_ITEMNAME) := by
  obtain ⟨hnorm, hrow⟩ := createLoop_items_match U s s' p cat xs l b p.id hn hc
  have hinv' : Inv s'.db := by
    have := (createLoop_invS hinv p cat (xs.map (apiName U true))).db
    rw [hc] at this; exact this
  have hg : ∀ (st : Store.Store), (getItemLoop st p (some (apiName U true b))).2 = getItemLoopInternal st.db p.id (cifNormalize U b) := by
    intro st; simp [getItemLoop, apiName, hvb]
  obtain ⟨hok, _⟩ := getItemLoopInternal_ok_iff s.db hinv.db p.id (cifNormalize U b)
  obtain ⟨hok', hno'⟩ := getItemLoopInternal_ok_iff s'.db hinv' p.id (cifNormalize U b)
  have hcond : s'.db.hasItem p.id (cifNormalize U b) = true ↔
      ((∃ a ∈ xs, cifNormalize U a = cifNormalize U b) ∨ ∃ l', (getItemLoop s p (some (apiName U true b))).2 = .ok l') := by
    rw [hrow, hg s, hok]
    constructor
    · rintro (⟨_, h⟩ | h)
      · exact Or.inl h
      · exact Or.inr h
    · rintro (h | h)
      · exact Or.inl ⟨rfl, h⟩
      · exact Or.inr h
  refine ⟨hnorm, ?_, ?_, ?_, ?_⟩
  · rw [hg s', hok', hcond]
  · intro hneg
    rw [hg s']
    apply hno'
    cases hh : s'.db.hasItem p.id (cifNormalize U b) with
    | false => rfl
    | true => exact absurd (hcond.1 hh) hneg
  · intro l2 v hl2 hlive
    rw [addItem_dup_iff s' l2 _ v (by simp [apiName, hvb]) hlive]
    have hk : (apiName U true b).key = cifNormalize U b := rfl
    rw [hk, hl2, hcond]
  · intro cat2 ys d1 hys hins hb hmatch
    apply createLoop_dup s' p cat2 _ d1 ?_ hins
    · exact ⟨apiName U true b, List.mem_map.mpr ⟨b, hb, rfl⟩, by simpa [apiName] using hcond.2 hmatch⟩
    · intro n hn'
      obtain ⟨y, hy, rfl⟩ := List.mem_map.mp hn'
      simp [apiName, hys y hy]

-- non-vacuity ------------------------------------------------------------------------------------------------------------
/-- create `Ab` in the empty store, then look up `ab` and `AB` (toy folding: `A` ↦ `a`): both find the block created as `Ab` -/
example : ∃ s' h, createBlock {} (some (apiName toyU false [65, 98])) = (s', .ok h) ∧
    (getBlock s' (apiName toyU false [97, 98])).2 = .ok { id := h.id, code := [65, 98], isBlock := true } := by
  refine ⟨_, _, rfl, ?_⟩
  rfl
example : BlocksNormOK (cifNormalize toyU) ({} : Store.Store).db := fun _ h => nomatch h
example : validName false [65, 98] := (C09_validity false _ (by decide)).1 (by decide)
example : entryName (IcuOps.of toyU) false [65, 98, 0] = apiName toyU false [65, 98] := by rfl

/-- frames and items: in the store holding one block, create the frame `Ar` / the item `_Ab`; the hypotheses of
    `C09_store_frame_match` / `C09_store_item_match` hold, and the variant spellings `ar` / `_ab` hit them -/
def oneBlock : Store.Store := (createBlock {} (some (apiName toyU false [98]))).1
def theBlock : CH := { id := 1, code := [98], isBlock := true }
example : ∃ s' h, createFrame oneBlock theBlock (some (apiName toyU false [65, 114])) = (s', .ok h) ∧
    (getFrame s' theBlock (some (apiName toyU false [97, 114]))).2 = .ok { id := h.id, code := [65, 114], isBlock := false } :=
  ⟨_, _, rfl, rfl⟩
example : FramesNormOK (cifNormalize toyU) oneBlock.db ∧ ItemsNormOK (cifNormalize toyU) oneBlock.db := by
  have e1 : oneBlock.db.frames = [] := rfl
  have e2 : oneBlock.db.items = [] := rfl
  constructor
  · intro f h; rw [e1] at h; cases h
  · intro i h; rw [e2] at h; cases h
example : ∃ s' l, createLoop oneBlock theBlock none ([[95, 65, 98]].map (apiName toyU true)) = (s', .ok l) ∧
    s'.db.hasItem 1 (cifNormalize toyU [95, 97, 98]) = true := ⟨_, _, rfl, rfl⟩

end CifModel
