import CifModel.Props.C07Parser
/-
  Review rA, property C07, storing route `parser` (group gO's theorems): instances that APPLY `C07_parser_route`,
  `C07_parser_values_numbFree`, `Model.Parser.storeTrace_wf`, `Model.Parser.parseT_out`, `Model.Parser.parse_replay` to a concrete
  parse whose values LOOK LIKE NUMBERS (`1.5(3)`, `-2e3`): the parser hands them over as unquoted CHARACTER values (parser.c
  parse_value: cif_value_init_char + cif_value_set_quoted(NOT_QUOTED)), so `numbFree` does not exclude them.
  Core Lean; kernel evaluation on `List Nat` only.
-/
namespace CifModel.ReviewRC07
open CifModel CifModel.Model CifModel.Model.Lexer CifModel.Model.Parser

def opts : Opts := C07Parser.opts
/-- `data_a _x 1.5(3) loop_ _b _c -2e3 'q' . [1 {"k":2}]` -/
def doc : Str := a!"data_a _x 1.5(3) loop_ _b _c -2e3 'q' . [1 {\"k\":2}]"
def tr : List SOp := storeTrace opts acceptAll [] doc

/-- what a recorded call shows of itself, in decidable data: kind of call, name, and for a character value (quoted, text) -/
def view : SOp → Nat × Str × List (Option (Bool × Str))
  | .setVal _ n v => (1, n, [match v with | .chr q t => some (q, t) | _ => none])
  | .addPkt _ vs => (2, [], vs.map fun v => match v with | .chr q t => some (q, t) | _ => none)
  | .mkBlock c _ => (3, c, [])
  | .mkFrame _ c _ => (4, c, [])
  | .mkLoop _ ns => (5, ns.flatten, [])
  | .prune _ => (6, [], [])

set_option maxRecDepth 100000 in
/-- the trace: block, set_value `_x` ↦ unquoted CHARACTER value `1.5(3)`, loop, two packets (`-2e3` unquoted char, `q` quoted char;
    `.` = not applicable, the list = not a character value), prune -/
theorem tr_view : tr.map view =
    [(3, a!"a", []), (1, a!"_x", [some (false, a!"1.5(3)")]), (5, a!"_b_c", []),
     (2, [], [some (false, a!"-2e3"), some (true, a!"q")]), (2, [], [none, none]), (6, [], [])] := by
  decide +kernel

set_option maxRecDepth 100000 in
theorem tr_len : tr.length = 6 := by decide +kernel

/-- the call number 1 of the trace is `cif_container_set_value(…, "_x", chr false "1.5(3)")` -/
theorem tr1 : ∃ path, tr[1]'(by rw [tr_len]; decide) = SOp.setVal path (a!"_x") (.chr false (a!"1.5(3)")) := by
  have hv : view (tr[1]'(by rw [tr_len]; decide)) = (1, a!"_x", [some (false, a!"1.5(3)")]) := by
    have h := congrArg (fun l => l[1]?) tr_view
    simp only [List.getElem?_map] at h
    rw [List.getElem?_eq_getElem (by rw [tr_len]; decide)] at h
    simpa using h
  cases hop : tr[1]'(by rw [tr_len]; decide) with
  | setVal path n v =>
    rw [hop] at hv
    cases v <;> simp [view] at hv
    obtain ⟨rfl, rfl, rfl⟩ := hv
    exact ⟨path, rfl⟩
  | _ => rw [hop] at hv; simp [view] at hv

open CifModel.Store CifModel.Store.Codec in
/-- **`C07_parser_route` applied** to that call: the number-looking text `1.5(3)` the parser stores under `_x` is read back by
    cif_container_get_value as the IDENTICAL value (`V` equality: kind char, unquoted, same text) — in every store state with the
    invariant in which the item is new and the call succeeds (both are HYPOTHESES: the state is not the parser's) -/
example (s : Store) (h : CH) (hinv : InvS s) (hac : s.autocommit = true)
    (hnew : getItemLoopInternal s.db h.id (mkName opts true (a!"_x")).key = .error Gen.ErrCodes.CIF_NOSUCH_ITEM)
    (hok : (setValueC s h (mkName opts true (a!"_x")) (.chr false (a!"1.5(3)"))).2 = .ok ()) :
    ∃ b, (getValue (setValueC s h (mkName opts true (a!"_x")) (.chr false (a!"1.5(3)"))).1 h (some (mkName opts true (a!"_x")))).2
      = .ok (.chr false (a!"1.5(3)"), b) := by
  obtain ⟨path, hop⟩ := tr1
  have hmem : tr[1]'(by rw [tr_len]; decide) ∈ storeTrace opts acceptAll [] doc := List.getElem_mem _
  have hr := (C07_parser_route opts acceptAll [] doc _ hmem).1 path _ _ hop
  exact (hr.2 s h hinv hac trivial).2 hnew hok

/-! the same with a CONCRETE store state in which all hypotheses (`InvS`, autocommit, item new, call succeeds) hold: the store after
    `cif_create_block(cif, "a")` on a new CIF (`Store.createBlock`, the function family `store` runs through `Store.step`) -/
section Concrete
open CifModel.Store CifModel.Store.Codec

def s1 : Store := (createBlock {} (some (mkName opts false (a!"a")))).1
def h1 : CH := { id := 1, code := a!"a", isBlock := true }
def nx : Name := mkName opts true (a!"_x")
private def isNoSuch : Except Code LH → Bool | .error c => c == Gen.ErrCodes.CIF_NOSUCH_ITEM | _ => false
private def isOkU : Except Code Unit → Bool | .ok _ => true | _ => false
private theorem noSuch_of {e : Except Code LH} (h : isNoSuch e = true) : e = .error Gen.ErrCodes.CIF_NOSUCH_ITEM := by
  cases e with
  | error c => simp [isNoSuch] at h; rw [h]
  | ok _ => simp [isNoSuch] at h
private theorem okU_of {e : Except Code Unit} (h : isOkU e = true) : e = .ok () := by
  cases e with
  | error c => simp [isOkU] at h
  | ok _ => rfl

/-- the handle is the one cif_create_block returned -/
example : (match (createBlock {} (some (mkName opts false (a!"a")))).2 with
    | .ok h => h.id == h1.id && h.code == h1.code && h.isBlock == h1.isBlock | _ => false) = true := by decide +kernel

example : ∃ b, (getValue (setValueC s1 h1 nx (.chr false (a!"1.5(3)"))).1 h1 (some nx)).2 = .ok (.chr false (a!"1.5(3)"), b) := by
  obtain ⟨path, hop⟩ := tr1
  have hr := (C07_parser_route opts acceptAll [] doc _ (List.getElem_mem _)).1 path _ _ hop
  exact (hr.2 s1 h1 (createBlock_invS InvS.empty _ _) (by decide +kernel) trivial).2
    (noSuch_of (by decide +kernel)) (okU_of (by decide +kernel))

/-- the call number 3 of the trace is `cif_loop_add_packet(loop, [-2e3 (unquoted char), 'q' (quoted char)])` -/
theorem tr3 : ∃ path, tr[3]'(by rw [tr_len]; decide) = SOp.addPkt path [.chr false (a!"-2e3"), .chr true (a!"q")] := by
  have hv : view (tr[3]'(by rw [tr_len]; decide)) = (2, [], [some (false, a!"-2e3"), some (true, a!"q")]) := by
    have h := congrArg (fun l => l[3]?) tr_view
    simp only [List.getElem?_map] at h
    rw [List.getElem?_eq_getElem (by rw [tr_len]; decide)] at h
    simpa using h
  cases hop : tr[3]'(by rw [tr_len]; decide) with
  | addPkt path vs =>
    rw [hop] at hv
    match vs, hv with
    | [v1, v2], hv =>
      cases v1 <;> cases v2 <;> simp [view] at hv
      obtain ⟨⟨rfl, rfl⟩, rfl, rfl⟩ := hv
      exact ⟨path, rfl⟩
    | [], hv => simp [view] at hv
    | [_], hv => simp [view] at hv
    | _ :: _ :: _ :: _, hv => simp [view] at hv
  | _ => rw [hop] at hv; simp [view] at hv

/-- the store after `cif_container_create_loop(block, NULL, {_b, _c})`, and the handle it returned -/
def s2 : Store := (createLoop s1 h1 none [mkName opts true (a!"_b"), mkName opts true (a!"_c")]).1
def l2 : LH := { cid := 1, loopNum := 0, category := none }
example : (match (createLoop s1 h1 none [mkName opts true (a!"_b"), mkName opts true (a!"_c")]).2 with
    | .ok l => l.cid == l2.cid && l.loopNum == l2.loopNum && l.category == l2.category | _ => false) = true := by decide +kernel

/-- add_packet arm applied with the loop's own names: both values read back identical from one new row (SQL-statement level) -/
example : ∃ row, ∀ e ∈ ([a!"_b", a!"_c"].map opts.norm).zip [V.chr false (a!"-2e3"), V.chr true (a!"q")],
    ReadsBack (addPacketC s2 l2 (([a!"_b", a!"_c"].map opts.norm).zip [V.chr false (a!"-2e3"), V.chr true (a!"q")])).1.db l2.cid e.1 row e.2 := by
  obtain ⟨path, hop⟩ := tr3
  exact (C07_parser_route opts acceptAll [] doc _ (List.getElem_mem _)).2 path _ hop s2 l2 [a!"_b", a!"_c"]
    (createLoop_invS (createBlock_invS InvS.empty _ _) _ _ _) (fun v hv => by
      simp only [List.mem_cons, List.not_mem_nil, or_false] at hv
      rcases hv with rfl | rfl <;> trivial)
    (okU_of (by decide +kernel))

end Concrete

/-- … and the name the call is made with is valid (first conjunct of the theorem) -/
example : (mkName opts true (a!"_x")).valid = true := by
  obtain ⟨path, hop⟩ := tr1
  exact ((C07_parser_route opts acceptAll [] doc _ (List.getElem_mem _)).1 path _ _ hop).1

/-- `C07_parser_values_numbFree` / `storeTrace_wf` applied: every value of every call of this parse is free of number objects —
    although three of them are number texts -/
example : ∀ op ∈ tr, ∀ v ∈ op.values, numbFree v = true := C07_parser_values_numbFree opts acceptAll [] doc
example : ∀ op ∈ tr, op.wf := storeTrace_wf opts acceptAll [] doc

/-- `parseT_out` + `parse_replay` applied: the content `Model.Parser.parse` (the function family `parse` runs) builds is the replay of
    these six calls on the empty CIF -/
example : (parse opts acceptAll [] doc).cif = tr.foldl (fun c op => op.apply opts c) [] := parse_replay opts acceptAll [] doc
example : (parseT opts acceptAll [] doc).out = parse opts acceptAll [] doc := parseT_out opts acceptAll [] doc

/-! ### what the statement does NOT connect (review finding): the store state, the handle and the loop's names are universally
    quantified and unrelated to `path` / `pre` / the `mkLoop` call of the trace.  The add_packet arm instantiated with names that are
    NOT those of the parsed loop (`_zz` instead of `_b _c`) and with ONE name for a packet of two values: the theorem still applies and
    then speaks about the first value only (`zip` truncates). -/
open CifModel.Store CifModel.Store.Codec in
example (s : Store) (l : LH) (hinv : InvS s) (path : Path) (vals : List V)
    (hop : SOp.addPkt path vals ∈ storeTrace opts acceptAll [] doc) (hf : ∀ v ∈ vals, C07_fits v)
    (hok : (addPacketC s l (([a!"_zz"].map opts.norm).zip vals)).2 = .ok ()) :
    ∃ row, ∀ e ∈ ([a!"_zz"].map opts.norm).zip vals,
      ReadsBack (addPacketC s l (([a!"_zz"].map opts.norm).zip vals)).1.db l.cid e.1 row e.2 :=
  (C07_parser_route opts acceptAll [] doc _ hop).2 path vals rfl s l [a!"_zz"] hinv hf hok

end CifModel.ReviewRC07
