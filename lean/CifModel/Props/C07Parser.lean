import CifModel.Props.C07
import CifModel.Lemmas.ParserTrace
import CifModel.Model.ParserStoreOps
import CifModel.Lemmas.ParserStoreRun
import CifModel.Lemmas.ParserStoreRunF
/-
  Props/C07Parser — property C07, storing route `parser`: the values cif_parse stores are read back identical.

  The parser stores through two API functions only (Model/ParserTrace.lean records every call; the executor of family `parse` counts
  the same calls of the real parser): cif_container_set_value for an item outside a loop, cif_loop_add_packet for the packets of a
  loop.  `C07_parser_route` composes `C03_parser_trace` (what is recorded, under which names) with `C07_stored_read_identical`
  (Props/C07.lean: codec ∘ store model): for EVERY call a parse records — any input, policy, option record, initial content — and
  in EVERY store state that satisfies the store invariant, the value(s) handed over are read back identical by
  cif_container_get_value resp. by the statements packet iteration / cif_walk read.

  Hypothesis left on the values: `C07_fits` (serialised form below the address space).  `C07_constructible` (every number object
  inside was made by a number function) is PROVED for the parser's values: the parser model never makes a number object
  (`C07_parser_values_numbFree`, from Lemmas/ParserValues.values_numbFree — what parse_value / parse_list / parse_table return —
  threaded through the instrumented productions: character values, unknown, not applicable, lists, tables; numbers are recognised
  lazily by cif_value_get_number), and a value without number objects is constructible (`C07_numbFree_constructible`).  The model
  driver checks the same on every request (`sto=BADnumb` otherwise).
-/
namespace CifModel
open CifModel.Model CifModel.Model.Lexer CifModel.Model.Parser

mutual
  theorem C07_numbFree_constructible (v : V) (h : numbFree v = true) : C07_constructible v := by
    cases v with
    | unk => trivial
    | na => trivial
    | chr q t => trivial
    | numb q t n d su sc => simp [numbFree] at h
    | lst vs => simpa [C07_constructible] using C07_numbFree_constructibleList vs (by simpa [numbFree] using h)
    | tbl es => simpa [C07_constructible] using C07_numbFree_constructibleEntries es (by simpa [numbFree] using h)
  theorem C07_numbFree_constructibleList (vs : List V) (h : numbFreeList vs = true) : C07_constructibleList vs := by
    cases vs with
    | nil => trivial
    | cons v vs =>
      simp only [numbFreeList, Bool.and_eq_true] at h
      exact ⟨C07_numbFree_constructible v h.1, C07_numbFree_constructibleList vs h.2⟩
  theorem C07_numbFree_constructibleEntries (es : List (Str × Str × V)) (h : numbFreeEntries es = true) :
      C07_constructibleEntries es := by
    cases es with
    | nil => trivial
    | cons e es =>
      obtain ⟨k, ko, v⟩ := e
      simp only [numbFreeEntries, Bool.and_eq_true] at h
      exact ⟨C07_numbFree_constructible v h.1, C07_numbFree_constructibleEntries es h.2⟩
end

/-- **the parser hands no number object to the store**: every value of every recorded call, of every parse -/
theorem C07_parser_values_numbFree (o : Opts) (pol : Policy) (pre : Cif) (units : Str) :
    ∀ op ∈ storeTrace o pol pre units, ∀ v ∈ op.values, numbFree v = true := by
  intro op hop v hv
  have hwf := storeTrace_wf o pol pre units op hop
  cases op with
  | setVal path n x =>
    simp only [SOp.values, List.mem_singleton] at hv
    subst hv
    exact hwf.2
  | addPkt path vals => exact hwf v hv
  | mkBlock _ _ => cases hv
  | mkFrame _ _ _ => cases hv
  | mkLoop _ _ => cases hv
  | prune _ => cases hv

open CifModel.Store CifModel.Store.Codec in
/-- **C07_parser_route** — every value the parser model stores is read back identical.  For every recorded call of every parse:
    * cif_container_set_value(container, name, v): the name is a valid data name (so the call is not refused for its name), and in
      every store state satisfying the invariant, outside a transaction, provided the value fits the address space: when the item exists
      (the parser then only gets here on a recovery path) the call succeeds and cif_container_get_value delivers `v` whenever the
      item's loop has a packet; when the item is new and the call succeeds, cif_container_get_value delivers `v`;
    * cif_loop_add_packet(loop, names ↦ values): when the call succeeds, every value of the packet is read back identical, from
      the new packet row, by both reading statements (`ReadsBack`). -/
theorem C07_parser_route (o : Opts) (pol : Policy) (pre : Cif) (units : Str) :
    ∀ op ∈ storeTrace o pol pre units,
      (∀ path n v, op = SOp.setVal path n v →
        (mkName o true n).valid = true ∧
        ∀ (s : Store) (h : CH), InvS s → s.autocommit = true → C07_fits v →
          (∀ l, getItemLoopInternal s.db h.id (mkName o true n).key = .ok l →
            ∃ ln, s.db.loopOfItem h.id (mkName o true n).key = some ln ∧ (setValueC s h (mkName o true n) v).2 = .ok () ∧
              (s.db.loopRows h.id ln ≠ [] →
                ∃ b, (getValue (setValueC s h (mkName o true n) v).1 h (some (mkName o true n))).2 = .ok (v, b))) ∧
          (getItemLoopInternal s.db h.id (mkName o true n).key = .error Gen.ErrCodes.CIF_NOSUCH_ITEM →
            (setValueC s h (mkName o true n) v).2 = .ok () →
            ∃ b, (getValue (setValueC s h (mkName o true n) v).1 h (some (mkName o true n))).2 = .ok (v, b))) ∧
      (∀ path vals, op = SOp.addPkt path vals →
        ∀ (s : Store) (l : LH) (names : List Str), InvS s → (∀ v ∈ vals, C07_fits v) →
          (addPacketC s l ((names.map o.norm).zip vals)).2 = .ok () →
          ∃ row, ∀ e ∈ (names.map o.norm).zip vals,
            ReadsBack (addPacketC s l ((names.map o.norm).zip vals)).1.db l.cid e.1 row e.2) := by
  intro op hop
  have hwf := storeTrace_wf o pol pre units op hop
  refine ⟨?_, ?_⟩
  · rintro path n v rfl
    have hvalid : (mkName o true n).valid = true := hwf.1
    have hc : C07_constructible v := C07_numbFree_constructible v hwf.2
    refine ⟨hvalid, ?_⟩
    intro s h hinv hac hf
    obtain ⟨h1, h2, _, _, _⟩ := C07_stored_read_identical s hinv
    refine ⟨?_, ?_⟩
    · intro l hl
      obtain ⟨ln, hln, hok, _, hget⟩ := h1 h (mkName o true n) v l hc hf hvalid hac hl
      exact ⟨ln, hln, hok, hget⟩
    · intro hnew hok
      exact (h2 h (mkName o true n) v hc hf hvalid hac hnew hok).2
  · rintro path vals rfl s l names hinv hvals hok
    obtain ⟨_, _, _, h4, _⟩ := C07_stored_read_identical s hinv
    exact h4 l _ (fun e he => ⟨C07_numbFree_constructible e.2 (hwf e.2 (List.of_mem_zip he).2), hvals e.2 (List.of_mem_zip he).2⟩) hok

/-- **C07_parser_route_store_partial** (group gX) — the route `parser` in the REAL COMPOSED STATE, for parses that create no save frame
    into a new CIF: let the `j`-th recorded call be cif_container_set_value(path, n, v).  The `j` calls before it, translated into a
    store history (`storeOpsFrom`) and run through `Store.step` behind cif_create, lead to a world `w` (the state in which the parser
    makes the call).  There is a container handle `h` of that world such that the call `setVal h n v` is in contract, returns CIF_OK and
    leads to a world whose CIF shows exactly the parser model's next target (so `h` denotes the container at `path`), and then
    cif_container_get_value on `h` under the same name delivers `v` — when the item is new to the container (the parser's normal
    path) or its loop has a packet.  No `InvS` / autocommit / handle hypothesis: the state is the parser's own. -/
theorem C07_parser_route_store_partial (o : Opts) (pol : Policy) (units : Str)
    (hnf : ParserSim.noFrames (storeTrace o pol [] units) = true) (j : Nat) (path : Path) (n : Str) (v : V)
    (hj : (storeTrace o pol [] units)[j]? = some (SOp.setVal path n v)) :
    ∃ sops h, storeOpsFrom o {} ((storeTrace o pol [] units).take j) = some sops ∧
      let w := (Store.run (Store.step {} .cifNew).1 sops).1
      let before := ((storeTrace o pol [] units).take j).foldl (fun c op => op.apply o c) []
      let sop := Store.Op.setVal h (some (mkName o true n)) (some v)
      Store.inContract w sop = true ∧ (Store.step w sop).2.rc = some Gen.ErrCodes.CIF_OK ∧
      (∃ s', (Store.step w sop).1.cifs = [some s'] ∧ Store.abs s'.db = (SOp.setVal path n v).apply o before) ∧
      ((∀ cc, getIn o.norm path before = some cc →
          hasItem o.norm cc (o.norm n) = false ∨
            ∀ l ∈ cc.loops, (l.names.any fun x => o.norm x == o.norm n) = true → l.packets ≠ []) →
        ∃ amb, (Store.step (Store.step w sop).1 (.getVal h (some (mkName o true n)))).2 =
          { rc := some (if amb = true then Gen.ErrCodes.CIF_AMBIGUOUS_ITEM else Gen.ErrCodes.CIF_OK), out := .value v }) := by
  obtain ⟨sops, m, s, last, hs, hr, ht⟩ := ParserSim.prefix_rep o pol units hnf j
  have hokr0 : OkR o ([] : Cif) := ⟨⟨by simp [normCodes], by simp [OkCs]⟩, by simp [RectCif, RectCs]⟩
  have hokr : OkR o (Store.absS s.db).tree := by rw [ht]; exact trace_prefix_okR o pol [] units hokr0 j
  have hwf := storeTrace_wf o pol [] units _ (List.mem_of_getElem? hj)
  have hres : ResL o.norm path (Store.absS s.db).tree := by rw [ht]; exact trace_paths_resolve o pol [] units j _ hj
  obtain ⟨h, hm⟩ := ParserSim.ch_of_res o m _ s last hr path hres
  refine ⟨sops, h, hs, ?_⟩
  obtain ⟨hin, hrc, s', hr', ht'⟩ := ParserSim.rep_setVal o m _ s last path n v h hr hm hwf hokr
  refine ⟨hin, hrc, ⟨s', hr'.cifs, ?_⟩, ?_⟩
  · rw [← Store.absS_tree, ht', ht]
  · intro hcase
    exact ParserSim.rep_setVal_reads o m _ s last path n v h hr hm hwf hokr (by rw [ht]; exact hcase)

/-- **C07_parser_route_store** (group gX) — the route `parser` in the REAL COMPOSED STATE, for EVERY parse into a new CIF (save frames
    included): let the `j`-th recorded call be cif_container_set_value(path, n, v).  The `j` calls before it have a translation into a
    store history; run through `Store.step` behind cif_create they lead to the world `w` in which the parser makes the call.  There is
    a container handle `h` of `w` such that `setVal h n v` is in contract, returns CIF_OK and leads to a world whose CIF shows exactly
    the parser model's next target (so `h` denotes the container at `path`), and cif_container_get_value on `h` under the same name
    then delivers `v` — when the item is new to the container (the parser's normal path) or its loop has a packet. -/
theorem C07_parser_route_store (o : Opts) (pol : Policy) (units : Str) (j : Nat) (path : Path) (n : Str) (v : V)
    (hj : (storeTrace o pol [] units)[j]? = some (SOp.setVal path n v)) :
    ∃ sops h, storeOpsFrom o {} ((storeTrace o pol [] units).take j) = some sops ∧
      let w := (Store.run (Store.step {} .cifNew).1 sops).1
      let before := ((storeTrace o pol [] units).take j).foldl (fun c op => op.apply o c) []
      let sop := Store.Op.setVal h (some (mkName o true n)) (some v)
      Store.inContract w sop = true ∧ (Store.step w sop).2.rc = some Gen.ErrCodes.CIF_OK ∧
      (∃ s', (Store.step w sop).1.cifs = [some s'] ∧ Store.abs s'.db = (SOp.setVal path n v).apply o before) ∧
      ((∀ cc, getIn o.norm path before = some cc →
          hasItem o.norm cc (o.norm n) = false ∨
            ∀ l ∈ cc.loops, (l.names.any fun x => o.norm x == o.norm n) = true → l.packets ≠ []) →
        ∃ amb, (Store.step (Store.step w sop).1 (.getVal h (some (mkName o true n)))).2 =
          { rc := some (if amb = true then Gen.ErrCodes.CIF_AMBIGUOUS_ITEM else Gen.ErrCodes.CIF_OK), out := .value v }) := by
  obtain ⟨sops, m, s, last, hs, hr, ht⟩ := ParserSimF.prefix_rep o pol units j
  have hokr0 : OkR o ([] : Cif) := ⟨⟨by simp [normCodes], by simp [OkCs]⟩, by simp [RectCif, RectCs]⟩
  have hokr : OkR o (Store.absS s.db).tree := by rw [ht]; exact trace_prefix_okR o pol [] units hokr0 j
  have hwf := storeTrace_wf o pol [] units _ (List.mem_of_getElem? hj)
  have hres : ResL o.norm path (Store.absS s.db).tree := by rw [ht]; exact trace_paths_resolve o pol [] units j _ hj
  obtain ⟨h, hm⟩ := ParserSimF.ch_of_res o m _ s last hr path hres
  refine ⟨sops, h, hs, ?_⟩
  obtain ⟨hin, hrc, s', hr', ht'⟩ := ParserSimF.rep_setVal o m _ s last path n v h hr hm hwf hokr
  refine ⟨hin, hrc, ⟨s', hr'.cifs, ?_⟩, ?_⟩
  · rw [← Store.absS_tree, ht', ht]
  · intro hcase
    exact ParserSimF.rep_setVal_reads o m _ s last path n v h hr hm hwf hokr (by rw [ht]; exact hcase)

private theorem isSetVal_elim (x : Option SOp) (h : (x.map fun | .setVal .. => true | _ => false) = some true) :
    ∃ p n v, x = some (.setVal p n v) := by
  cases x with
  | none => cases h
  | some op => cases op <;> first | exact ⟨_, _, _, rfl⟩ | cases h

def C07Parser.lower' (s : Str) : Str := s.map fun c => if 65 ≤ c ∧ c ≤ 90 then c + 32 else c
def C07Parser.opts' : Opts :=
  { dia := .cif2, maxFrameDepth := 1, unfold := true, prem := true, notUtf8 := false, store := true, norm := C07Parser.lower', normKey := id }

set_option maxRecDepth 100000 in
/-- `C07_parser_route_store_partial` applies: `data_a _x 1 _y 2` creates no save frame, its call number 2 is a set_value -/
example : ∃ path n v, (storeTrace C07Parser.opts' acceptAll [] (a!"data_a _x 1 _y 2"))[2]? = some (SOp.setVal path n v) ∧
    ∃ sops h, storeOpsFrom C07Parser.opts' {} ((storeTrace C07Parser.opts' acceptAll [] (a!"data_a _x 1 _y 2")).take 2) = some sops ∧
      (Store.step (Store.run (Store.step {} .cifNew).1 sops).1
        (.setVal h (some (mkName C07Parser.opts' true n)) (some v))).2.rc = some Gen.ErrCodes.CIF_OK := by
  have h : ParserSim.noFrames (storeTrace C07Parser.opts' acceptAll [] (a!"data_a _x 1 _y 2")) = true ∧
      ((storeTrace C07Parser.opts' acceptAll [] (a!"data_a _x 1 _y 2"))[2]?.map fun | .setVal .. => true | _ => false) = some true := by
    decide +kernel
  obtain ⟨p, n, v, hj⟩ := isSetVal_elim _ h.2
  obtain ⟨sops, hh, hs, _, hrc, _⟩ := C07_parser_route_store_partial C07Parser.opts' acceptAll (a!"data_a _x 1 _y 2") h.1 2 p n v hj
  exact ⟨p, n, v, hj, sops, hh, hs, hrc⟩

set_option maxRecDepth 100000 in
/-- `C07_parser_route_store` applies inside a SAVE FRAME: in `data_a save_f _y 2 save_` call number 2 is the set_value of `_y` in the
    frame (calls: create_block, create_frame, set_value, prune, prune) -/
example : ∃ path n v, (storeTrace C07Parser.opts' acceptAll [] (a!"data_a save_f _y 2 save_"))[2]? = some (SOp.setVal path n v) ∧
    path.length = 2 ∧
    ∃ sops h, storeOpsFrom C07Parser.opts' {} ((storeTrace C07Parser.opts' acceptAll [] (a!"data_a save_f _y 2 save_")).take 2) = some sops ∧
      (Store.step (Store.run (Store.step {} .cifNew).1 sops).1
        (.setVal h (some (mkName C07Parser.opts' true n)) (some v))).2.rc = some Gen.ErrCodes.CIF_OK := by
  have h : ((storeTrace C07Parser.opts' acceptAll [] (a!"data_a save_f _y 2 save_"))[2]?.map fun | .setVal .. => true | _ => false) = some true ∧
      ((storeTrace C07Parser.opts' acceptAll [] (a!"data_a save_f _y 2 save_"))[2]?.map fun | .setVal p .. => p.length | _ => 0) = some 2 := by
    decide +kernel
  obtain ⟨p, n, v, hj⟩ := isSetVal_elim _ h.1
  have hlen : p.length = 2 := by
    have := h.2
    rw [hj] at this
    simpa using this
  obtain ⟨sops, hh, hs, _, hrc, _⟩ := C07_parser_route_store C07Parser.opts' acceptAll (a!"data_a save_f _y 2 save_") 2 p n v hj
  exact ⟨p, n, v, hj, hlen, sops, hh, hs, hrc⟩

/-- the hypotheses on the value are those the parser's values satisfy: a nested value without number objects is constructible -/
example : C07_constructible (.lst [.chr false (a!"1.5"), .tbl [((a!"k"), (a!"k"), .unk)], .na]) :=
  C07_numbFree_constructible _ (by decide)

def C07Parser.lower (s : Str) : Str := s.map fun c => if 65 ≤ c ∧ c ≤ 90 then c + 32 else c
def C07Parser.opts : Opts :=
  { dia := .cif2, maxFrameDepth := 1, unfold := true, prem := true, notUtf8 := false, store := true, norm := C07Parser.lower, normKey := id }

set_option maxRecDepth 100000 in
/-- the theorem applies: the trace of `data_a _x [1 {'k':?}] loop_ _b 1 2` records one cif_container_set_value (under the valid name
    `_x`, a list holding a table) and two cif_loop_add_packet, all values without number objects -/
example :
    ((storeTrace C07Parser.opts acceptAll [] (a!"data_a _x [1 {'k':?}] loop_ _b 1 2")).map (fun op => op.values.length)) = [0, 1, 0, 1, 1, 0] ∧
    ((storeTrace C07Parser.opts acceptAll [] (a!"data_a _x [1 {'k':?}] loop_ _b 1 2")).all (fun op => op.values.all numbFree)) = true := by
  decide +kernel

end CifModel
