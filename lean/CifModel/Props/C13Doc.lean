import CifModel.Lemmas.WriterV1
import CifModel.Props.C02Doc
/-
  Property C13 — whole documents in CIF 1.1 output mode.
-/
namespace CifModel
open Model.Writer Lemmas.WriterV1

/-- the run of `cif_write` in CIF 1.1 mode satisfies the CIF 1.1 invariant -/
theorem C13_run (cif : WCif) (h : containersV1 cif) :
    (∀ out, writeCif 1 cif = .ok out → validate11 out = true) ∧
    (∀ e, writeCif 1 cif = .error e → e = Gen.ErrCodes.CIF_DISALLOWED_CHAR ∨ e = Gen.ErrCodes.CIF_DISALLOWED_VALUE) := by
  have hc : ({ version := 1 } : Ctx).isCif1 = true := rfl
  have L : V1Ok { version := 1 } (andThen (.ok (MAGIC11, { version := 1 })) fun c1 =>
      andThen (writeContainers cif c1) fun c2 => .ok (writeNewline c2)) := by
    apply v1_andThen (c := { version := 1 })
    · apply v1_same_version
      · rfl
      · decide
    · intro c1
      apply v1_andThen (v1_containers cif c1 h)
      intro c2; exact v1_newline c2
  obtain ⟨l1, l2⟩ := L hc
  unfold writeCif
  simp only [↓reduceIte, hc]
  cases hr : (andThen (.ok (MAGIC11, ({ version := 1 } : Ctx))) fun c1 =>
      andThen (writeContainers cif c1) fun c2 => (.ok (writeNewline c2) : W)) with
  | error e =>
    refine ⟨(by intro out he; cases he), ?_⟩
    intro e' he
    cases he
    exact l2 e hr
  | ok p =>
    obtain ⟨o, c'⟩ := p
    refine ⟨?_, (by intro e he; cases he)⟩
    intro out he
    simp only [Except.ok.injEq] at he
    rw [← he]
    exact (l1 o c' hr).2

/-- **C13_refusal_codes** (whole documents, every walk order).  On a CIF whose loops hold packets, whose data names are
    printable (≥ 2 units, ≤ 2048 characters) and whose numbers have a non-empty text of CIF 1.1 characters, `cif_write` in
    CIF 1.1 mode fails only with CIF_DISALLOWED_CHAR or CIF_DISALLOWED_VALUE. -/
theorem C13_refusal_codes_doc (cif : WCif) (h : containersV1 cif) (e : Code) (he : writeCif 1 cif = .error e) :
    e = Gen.ErrCodes.CIF_DISALLOWED_CHAR ∨ e = Gen.ErrCodes.CIF_DISALLOWED_VALUE :=
  (C13_run cif h).2 e he

/-- **C13_pure** (whole documents, every walk order).  Whatever `cif_write` writes successfully in CIF 1.1 mode consists
    solely of CIF 1.1 characters (`cif11_chars[]`, regenerated from the sources), begins with the 1.1 version comment, and —
    under the length conditions of `C02_line_bound` — has no line longer than 2048. -/
theorem C13_pure (cif : WCif) (out : Str) (h : containersV1 cif) (hw : writeCif 1 cif = .ok out) :
    validate11 out = true ∧ MAGIC11 <+: out ∧ (Lemmas.WriterLines.containersL cif → ∀ l ∈ splitLines out, l.length ≤ LINE) := by
  refine ⟨(C13_run cif h).1 out hw, ?_, ?_⟩
  · -- the magic comment: the writer's first output
    unfold writeCif at hw
    have hc : ({ version := 1 } : Ctx).isCif1 = true := rfl
    simp only [↓reduceIte, hc] at hw
    cases hF : (andThen (writeContainers cif ({ version := 1 } : Ctx)) fun c2 => (.ok (writeNewline c2) : W)) with
    | error e =>
      simp only [andThen] at hF hw
      rw [hF] at hw
      cases hw
    | ok p =>
      obtain ⟨o2, c2⟩ := p
      simp only [andThen] at hF hw
      rw [hF] at hw
      simp only [Except.ok.injEq] at hw
      rw [← hw]
      exact List.prefix_append _ _
  · intro hl
    exact (C02_line_bound 1 cif out hl hw).1

-- non-vacuity
example : containersV1 [WContainer.mk (a!"b") []
    [{ category := some [], header := [a!"_x"], packets := [[(a!"_x", V.chr true (a!"a b")), (a!"_n", V.numb false (a!"12") false [] none 0)]] }]] := by
  refine ⟨⟨trivial, ?_⟩, trivial⟩
  intro l hl
  simp only [List.mem_singleton] at hl; subst hl
  refine ⟨by simp, ?_⟩
  intro p hp
  simp only [List.mem_singleton] at hp; subst hp
  intro nv hnv
  simp only [List.mem_cons, List.not_mem_nil, or_false] at hnv
  rcases hnv with e | e <;> subst e
  · exact ⟨⟨by decide, by decide⟩, trivial⟩
  · exact ⟨⟨by decide, by decide⟩, by simp, by decide⟩

end CifModel
