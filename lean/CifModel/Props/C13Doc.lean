import CifModel.Lemmas.WriterV1
import CifModel.Props.C02Doc
import CifModel.Lemmas.WriterV1Refuse
/-
  Property C13 — whole documents in CIF 1.1 output mode.
-/
namespace CifModel
open Model.Writer Lemmas.WriterV1

/-- the run of `cif_write` in CIF 1.1 mode satisfies the CIF 1.1 invariant -/
theorem C13_run (cif : WCif) (h : containersV1 cif) :
    (∀ out, writeCif 1 cif = .ok out → validate11 out = true) ∧
    (∀ e, writeCif 1 cif = .error e → e = Gen.ErrCodes.CIF_DISALLOWED_CHAR ∨ e = Gen.ErrCodes.CIF_DISALLOWED_VALUE) := by
  have hc : ({ version := 1 } : Ctx).isCif1 = true := rfl
  have L : V1Ok { version := 1 } (andThen (.ok (MAGIC11, { version := 1 })) fun c1 =>
      andThen (writeContainers cif c1) fun c2 => .ok (writeNewline c2)) := by
    apply v1_andThen (c := { version := 1 })
    · apply v1_same_version
      · rfl
      · decide
    · intro c1
      apply v1_andThen (v1_containers cif c1 h)
      intro c2; exact v1_newline c2
  obtain ⟨l1, l2⟩ := L hc
  unfold writeCif
  simp only [↓reduceIte, hc]
  cases hr : (andThen (.ok (MAGIC11, ({ version := 1 } : Ctx))) fun c1 =>
      andThen (writeContainers cif c1) fun c2 => (.ok (writeNewline c2) : W)) with
  | error e =>
    refine ⟨(by intro out he; cases he), ?_⟩
    intro e' he
    cases he
    exact l2 e hr
  | ok p =>
    obtain ⟨o, c'⟩ := p
    refine ⟨?_, (by intro e he; cases he)⟩
    intro out he
    simp only [Except.ok.injEq] at he
    rw [← he]
    exact (l1 o c' hr).2

/-- **C13_refusal_codes** (whole documents, every walk order).  On a CIF whose loops hold packets, whose data names are
    printable (≥ 2 units, ≤ 2048 characters) and whose numbers have a non-empty text of CIF 1.1 characters, `cif_write` in
    CIF 1.1 mode fails only with CIF_DISALLOWED_CHAR or CIF_DISALLOWED_VALUE. -/
theorem C13_refusal_codes_doc (cif : WCif) (h : containersV1 cif) (e : Code) (he : writeCif 1 cif = .error e) :
    e = Gen.ErrCodes.CIF_DISALLOWED_CHAR ∨ e = Gen.ErrCodes.CIF_DISALLOWED_VALUE :=
  (C13_run cif h).2 e he

/-- **C13_pure** (whole documents, every walk order).  Whatever `cif_write` writes successfully in CIF 1.1 mode consists
    solely of CIF 1.1 characters (`cif11_chars[]`, regenerated from the sources), begins with the 1.1 version comment, and —
    under the length conditions of `C02_line_bound` — has no line longer than 2048. -/
theorem C13_pure (cif : WCif) (out : Str) (h : containersV1 cif) (hw : writeCif 1 cif = .ok out) :
    validate11 out = true ∧ MAGIC11 <+: out ∧ (Lemmas.WriterLines.containersL cif → ∀ l ∈ splitLines out, l.length ≤ LINE) := by
  refine ⟨(C13_run cif h).1 out hw, ?_, ?_⟩
  · -- the magic comment: the writer's first output
    unfold writeCif at hw
    have hc : ({ version := 1 } : Ctx).isCif1 = true := rfl
    simp only [↓reduceIte, hc] at hw
    cases hF : (andThen (writeContainers cif ({ version := 1 } : Ctx)) fun c2 => (.ok (writeNewline c2) : W)) with
    | error e =>
      simp only [andThen] at hF hw
      rw [hF] at hw
      cases hw
    | ok p =>
      obtain ⟨o2, c2⟩ := p
      simp only [andThen] at hF hw
      rw [hF] at hw
      simp only [Except.ok.injEq] at hw
      rw [← hw]
      exact List.prefix_append _ _
  · intro hl
    exact (C02_line_bound 1 cif out hl hw).1

-- non-vacuity
example : containersV1 [WContainer.mk (a!"b") []
    [{ category := some [], header := [a!"_x"], packets := [[(a!"_x", V.chr true (a!"a b")), (a!"_n", V.numb false (a!"12") false [] none 0)]] }]] := by
  refine ⟨⟨trivial, ?_⟩, trivial⟩
  intro l hl
  simp only [List.mem_singleton] at hl; subst hl
  refine ⟨by simp, ?_⟩
  intro p hp
  simp only [List.mem_singleton] at hp; subst hp
  intro nv hnv
  simp only [List.mem_cons, List.not_mem_nil, or_false] at hnv
  rcases hnv with e | e <;> subst e
  · exact ⟨⟨by decide, by decide⟩, trivial⟩
  · exact ⟨⟨by decide, by decide⟩, by simp, by decide⟩

open Lemmas.WriterChunks Lemmas.WriterLines in
/-- **C13_roundtrip** — the whole-document round trip, CIF 1.1.  For every walk order `cif` that `cif_write` accepts in CIF 1.1
    mode (`writeCif 1 cif = .ok out`; lists, tables and strings that CIF 1.1 cannot present are refused, never altered:
    `C13_refusal_codes_doc`, `C13_never_silently_alters`), under the hypotheses of `C02_roundtrip_doc` read for the CIF 1.1
    dialect (`cifR .cif1`: the strings consist of CIF 1.1 characters), the integrated parser model in CIF 1.1 mode — with line
    unfolding and prefix removal switched on, which is how a folded / prefixed CIF 1.1 text field must be read — under EVERY
    callback policy returns CIF_OK, reports nothing, and leaves the blocks, frames, loops, packets and values written
    (`backBlock`).  Same composition as C02_roundtrip_doc (the chunk lemmas, the scanner glue and gJ's C01_structure are
    stated for both dialects). -/
theorem C13_roundtrip (o : Model.Parser.Opts) (pol : Model.Lexer.Policy) (cif : WCif) (out : Str)
    (hdia : o.dia = .cif1) (hun : o.unfold = true) (hpr : o.prem = true)
    (hstore : o.store = true) (hmfd : o.maxFrameDepth ≠ 0) (hutf : o.notUtf8 = false)
    (hL : containersL cif) (hR : cifR o.dia o.normKey cif) (hN : blocksN o cif [])
    (hw : writeCif 1 cif = .ok out) :
    ∃ back, Model.Parser.parse o pol [] out = { rc := 0, log := [], cif := back } ∧ All2 backBlock cif back :=
  roundtrip_doc 1 o pol cif out (by rw [hdia]; rfl) hun hpr hstore hmfd hutf hL hR hN hw

open Lemmas.WriterTotal in
/-- **C13_refuses** — `cif_write` in CIF 1.1 mode succeeds EXACTLY on what CIF 1.1 can express, and its refusal code names what it
    cannot: for EVERY walked CIF that is writable at all (`containersOk`: loops hold a packet, scalar names have 2 … 2048
    characters, numbers a non-empty text — no assumption on characters or value kinds),
      * it succeeds  ⇔  `containersCE cif` (every block / frame code, every data name it writes, every string and every number
        text it passes through `write_char` consists of CIF 1.1 characters) and `containersVE cif` (no list, no table, no string
        that holds a carriage return or can only be a text field and contains `<LF>;` — at any depth of save frames),
      * if it fails, the code is CIF_DISALLOWED_CHAR and `containersCE` fails, or CIF_DISALLOWED_VALUE and `containersVE` fails.
    So a CIF holding a list, a table, an inexpressible string or a character outside the CIF 1.1 set is never written (nothing
    is silently altered or dropped: what IS written round-trips, `C13_roundtrip`).  Invariant `Out` of Lemmas/WriterV1Refuse.lean. -/
theorem C13_refuses (cif : WCif) (hok : containersOk cif) :
    ((∃ out, writeCif 1 cif = .ok out) ↔ (containersCE cif ∧ containersVE cif)) ∧
    (∀ e, writeCif 1 cif = .error e →
      (e = Gen.ErrCodes.CIF_DISALLOWED_CHAR ∧ ¬ containersCE cif) ∨ (e = Gen.ErrCodes.CIF_DISALLOWED_VALUE ∧ ¬ containersVE cif)) :=
  out_writeCif cif hok

open Lemmas.WriterTotal in
/-- the code per kind: all characters are CIF 1.1 characters, some value is not expressible → CIF_DISALLOWED_VALUE -/
theorem C13_refuses_value (cif : WCif) (hok : containersOk cif) (hc : containersCE cif) (hv : ¬ containersVE cif) :
    writeCif 1 cif = .error Gen.ErrCodes.CIF_DISALLOWED_VALUE := by
  obtain ⟨h1, h2⟩ := C13_refuses cif hok
  cases hr : writeCif 1 cif with
  | ok out => exact absurd (h1.mp ⟨out, hr⟩).2 hv
  | error e =>
    rcases h2 e hr with ⟨_, hn⟩ | ⟨he, _⟩
    · exact absurd hc hn
    · rw [he]

open Lemmas.WriterTotal in
/-- … every value is expressible, some character is outside the CIF 1.1 set → CIF_DISALLOWED_CHAR -/
theorem C13_refuses_char (cif : WCif) (hok : containersOk cif) (hv : containersVE cif) (hc : ¬ containersCE cif) :
    writeCif 1 cif = .error Gen.ErrCodes.CIF_DISALLOWED_CHAR := by
  obtain ⟨h1, h2⟩ := C13_refuses cif hok
  cases hr : writeCif 1 cif with
  | ok out => exact absurd (h1.mp ⟨out, hr⟩).1 hc
  | error e =>
    rcases h2 e hr with ⟨he, _⟩ | ⟨_, hn⟩
    · rw [he]
    · exact absurd hv hn

open Lemmas.WriterTotal in
/-- instances through the theorem (not by evaluation): a list, a table, the string `x<LF>;y` → CIF_DISALLOWED_VALUE;
    `é` in a string, in a block code → CIF_DISALLOWED_CHAR -/
example : writeCif 1 (C02Doc.oneItem (.lst [])) = .error Gen.ErrCodes.CIF_DISALLOWED_VALUE ∧
    writeCif 1 (C02Doc.oneItem (.tbl [])) = .error Gen.ErrCodes.CIF_DISALLOWED_VALUE ∧
    writeCif 1 (C02Doc.oneItem (.chr true (a!"x\n;y"))) = .error Gen.ErrCodes.CIF_DISALLOWED_VALUE ∧
    writeCif 1 (C02Doc.oneItem (.chr true [233])) = .error Gen.ErrCodes.CIF_DISALLOWED_CHAR ∧
    writeCif 1 [WContainer.mk [233] [] []] = .error Gen.ErrCodes.CIF_DISALLOWED_CHAR := by
  have hok : ∀ v, valueOk v = true → containersOk (C02Doc.oneItem v) := by
    intro v hv
    simp [C02Doc.oneItem, containersOk, containerOk, loopOk, itemsOk, isScalars, hv, nameOk, countChar32, LINE]
  refine ⟨?_, ?_, ?_, ?_, ?_⟩
  · apply C13_refuses_value _ (hok _ rfl)
    · simp [C02Doc.oneItem, containersCE, containerCE, loopsCE, loopCE, isScalars, packetsCE, itemsCE, valCE]; decide
    · simp [C02Doc.oneItem, containersVE, containerVE, loopsVE, packetsVE, itemsVE, valVE]
  · apply C13_refuses_value _ (hok _ rfl)
    · simp [C02Doc.oneItem, containersCE, containerCE, loopsCE, loopCE, isScalars, packetsCE, itemsCE, valCE]; decide
    · simp [C02Doc.oneItem, containersVE, containerVE, loopsVE, packetsVE, itemsVE, valVE]
  · apply C13_refuses_value _ (hok _ rfl)
    · simp [C02Doc.oneItem, containersCE, containerCE, loopsCE, loopCE, isScalars, packetsCE, itemsCE, valCE]; decide
    · simp only [C02Doc.oneItem, containersVE, containerVE, loopsVE, packetsVE, itemsVE, valVE, and_true, true_and, Classical.not_not]
      exact Or.inr ⟨by decide, by decide⟩
  · apply C13_refuses_char _ (hok _ rfl)
    · simp only [C02Doc.oneItem, containersVE, containerVE, loopsVE, packetsVE, itemsVE, valVE, and_true, true_and]
      rintro (h | h)
      · exact absurd h (by decide)
      · exact absurd h.1 (by decide)
    · simp [C02Doc.oneItem, containersCE, containerCE, loopsCE, loopCE, isScalars, packetsCE, itemsCE, valCE]; decide
  · apply C13_refuses_char
    · simp [containersOk, containerOk]
    · simp [containersVE, containerVE, loopsVE]
    · simp only [containersCE, containerCE, loopsCE, and_true]; decide

open Lemmas.WriterChunks in
/-- **C13_output_units** — in CIF 1.1 mode, on a CIF of CIF 1.1 characters (`cifR .cif1`), the units handed to the stream are
    CIF 1.1 characters in the sense of the lexical grammar too (`okUnits .cif1`: printable ASCII, HT, LF; no surrogate at all) —
    the grammar-side counterpart of `C13_pure` (`validate11`, the library's own table). -/
theorem C13_output_units (nk : Str → Str) (cif : WCif) (out : Str) (hR : cifR .cif1 nk cif) (hw : writeCif 1 cif = .ok out) :
    Spec.Lexical.okUnits .cif1 none out = true :=
  output_units 1 nk cif out hR hw

namespace C13Doc
/-- CIF 1.1 parse with line unfolding and prefix removal on -/
def opts11 : Model.Parser.Opts :=
  { dia := .cif1, maxFrameDepth := 1, unfold := true, prem := true, notUtf8 := false, store := true, norm := C01parse.lower, normKey := id }
/-- a block with a save frame, scalars (one needs quotes, one becomes a text field) and a loop with an unquoted number -/
def sample : WCif := [WContainer.mk (a!"b")
    [WContainer.mk (a!"f") [] [{ category := some [], header := [a!"_z"], packets := [[(a!"_z", V.chr false (a!"v"))]] }]]
    [{ category := some [], header := [a!"_x"],
       packets := [[(a!"_x", V.chr true (a!"a b")), (a!"_t", V.chr true (a!"p\nq")), (a!"_u", V.unk)]] },
     { category := none, header := [a!"_y"], packets := [[(a!"_y", V.numb false (a!"12") false [] none 0)]] }]]
end C13Doc

open Lemmas.WriterChunks Lemmas.LexGlue Lemmas.WriterLines in
/-- non-vacuity of `C13_roundtrip`: its hypotheses hold of `C13Doc.sample`, the CIF 1.1 writer accepts it, and therefore under
    every callback policy it comes back -/
theorem C13_roundtrip_sample (pol : Model.Lexer.Policy) :
    ∃ out back, writeCif 1 C13Doc.sample = .ok out
      ∧ Model.Parser.parse C13Doc.opts11 pol [] out = { rc := 0, log := [], cif := back } ∧ All2 backBlock C13Doc.sample back := by
  have hL : containersL C13Doc.sample := by
    simp [C13Doc.sample, containersL, containerL, codeL, loopL, headerL, itemsL, valueL, elemsL, entriesL, nameL, strOk, numbOk,
      countChar32, LINE]
    intro a b h
    rcases h with ⟨rfl, rfl⟩ | ⟨rfl, rfl⟩ | ⟨rfl, rfl⟩ <;> simp [valueL, strOk]
  have hR : cifR .cif1 id C13Doc.sample := by
    intro k hk
    simp only [C13Doc.sample, List.mem_singleton] at hk
    subst hk
    have hcode : ∀ c : Str, (Tk.data c).ok .cif1 = true → codeR .cif1 c := fun _ h => h
    have hname : ∀ n : Str, (Tk.name n).ok .cif1 = true → n.length ≤ LINE → nameR .cif1 n := fun _ h h' => ⟨h, h'⟩
    refine ⟨_, _, _, rfl, hcode _ (by decide), ?_, ?_⟩
    · intro f hf
      simp only [List.mem_singleton] at hf
      subst hf
      simp only [frameR, framesR, true_and]
      refine ⟨hcode _ (by decide), ?_⟩
      intro l hl
      simp only [List.mem_singleton] at hl
      subst hl
      unfold loopR
      refine ⟨fun _ => ⟨_, rfl⟩, fun h => absurd h (by decide), ?_⟩
      intro p hp nv hnv
      simp only [List.mem_singleton] at hp
      subst hp
      simp only [List.mem_singleton] at hnv
      subst hnv
      exact ⟨by simp only [valueR]; decide, fun _ => hname _ (by decide) (by decide)⟩
    · intro l hl
      simp only [List.mem_cons, List.mem_singleton, List.not_mem_nil, or_false] at hl
      rcases hl with rfl | rfl
      · unfold loopR
        refine ⟨fun _ => ⟨_, rfl⟩, fun h => absurd h (by decide), ?_⟩
        intro p hp nv hnv
        simp only [List.mem_singleton] at hp
        subst hp
        simp only [List.mem_cons, List.not_mem_nil, or_false] at hnv
        rcases hnv with rfl | rfl | rfl
        · exact ⟨by simp only [valueR]; decide, fun _ => hname _ (by decide) (by decide)⟩
        · exact ⟨by simp only [valueR]; decide, fun _ => hname _ (by decide) (by decide)⟩
        · exact ⟨by simp only [valueR], fun _ => hname _ (by decide) (by decide)⟩
      · unfold loopR
        refine ⟨fun h => absurd h (by decide), fun _ n hn => ?_, ?_⟩
        · simp only [List.mem_singleton] at hn
          subst hn
          exact hname _ (by decide) (by decide)
        · intro p hp nv hnv
          simp only [List.mem_singleton] at hp
          subst hp
          simp only [List.mem_singleton] at hnv
          subst hnv
          refine ⟨?_, fun h => absurd h (by decide)⟩
          simp only [valueR, numR, numbOk, strOk]
          decide
  have hN : blocksN C13Doc.opts11 C13Doc.sample [] := by
    simp [C13Doc.sample, blocksN, framesN, frameN, wcode, loopsN, scalarOnce, scalarsN, seenScalars, isScalars]
    decide
  have hok : (match writeCif 1 C13Doc.sample with | .ok _ => true | .error _ => false) = true := by decide +kernel
  cases h : writeCif 1 C13Doc.sample with
  | error e => rw [h] at hok; cases hok
  | ok out =>
    obtain ⟨back, hp, hb⟩ := C13_roundtrip C13Doc.opts11 pol C13Doc.sample out rfl rfl rfl rfl (by decide) rfl hL hR hN h
    exact ⟨out, back, rfl, hp, hb⟩

end CifModel
