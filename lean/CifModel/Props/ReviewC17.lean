import CifModel.Props.C17Store
/-
  Review examples for C17, store part (group gB, independent review).

  `C17_atomic_under_fault` is a disjunction `stepFault w op k = step w op ∨ (error code ∧ unchanged ∧ retry …)`.
  (a) the right disjunct is inhabited for every fault position of a multi-statement op (below: all 18 positions of an
      add_packet with two values, outside and inside an iterator's transaction), including the retry;
  (b) the LEFT disjunct absorbs every op whose `target` is `none` — for those `stepFault` is `step` at every k, i.e. the model
      says "cannot fail" for cif_create, cif_destroy, pktitr_close, pktitr_abort, get_code, get_category, … although each of
      them allocates or runs SQL in the C.  tools/props/C17.py PARTIAL names only cif_create / cif_destroy / pktitr_abort.
  (c) "unchanged" under `.inside` is by construction: `stepFaultAt` applies `recover` to the ORIGINAL store; no statement of
      the op is executed before the fault (review finding C17 S1) — so the example (a) shows what the model stipulates, not
      that ROLLBACK undoes a half-done add_packet.
-/
namespace CifModel.ReviewC17
open CifModel Store Store.World Gen.ErrCodes

private def n (k : Str) : Name := { key := k, orig := k, valid := true }
private def w0 : World := (run {} [.cifNew, .mkBlock 0 (some (n (a!"b"))), .mkLoop 0 none [n (a!"_a"), n (a!"_b")],
  .addPkt 0 [(a!"_a", .na), (a!"_b", .unk)]]).1
private def w1 : World := (run w0 [.itOpen 0, .itNext 0]).1
private def op : Op := .addPkt 0 [(a!"_a", .unk), (a!"_b", .na)]

private def sizes (w : World) : List (Option (Nat × Nat × Nat)) :=
  w.cifs.map (·.map (fun s => (s.db.loops.length, s.db.items.length, s.db.values.length)))
private def failed (r : Result) : Bool := r.rc == some CIF_MEMORY_ERROR || r.rc == some CIF_ERROR

-- (a) k = 0 … 17 are fault positions of this op (4 + 2·(3 + 2·2) = 18), k = 18 is beyond: error + same sizes + the retry succeeds
example : (List.range 18).all (fun k => failed (stepFault w0 op k).2 && sizes (stepFault w0 op k).1 == sizes w0
    && (step (stepFault w0 op k).1 op).2.rc == some CIF_OK) = true := by decide +kernel
example : (List.range 18).all (fun k => failed (stepFault w1 op k).2 && sizes (stepFault w1 op k).1 == sizes w1
    && (step (stepFault w1 op k).1 op).2.rc == some CIF_OK) = true := by decide +kernel
example : (stepFault w0 op 18).2.rc = some CIF_OK ∧ sizes (stepFault w0 op 18).1 ≠ sizes w0 := by decide +kernel

-- (b) ops without a target never fail in the fault model, at any position
private def untargeted : List Op := [.cifNew, .cifDel 0, .itClose 0, .itAbort 0, .code 0, .isBlock 0, .getCat 0,
  .getVal 0 none, .addItem 0 none none, .cdestroy 7]
example : untargeted.all (fun o => (List.range 8).all (fun k => (stepFault w1 o k).2.rc == (step w1 o).2.rc)) = true := by decide +kernel
example : (stepFault w1 (.itClose 0) 0).2.rc = some CIF_OK ∧ (stepFault w0 .cifNew 0).2.rc = some CIF_OK := by decide +kernel

end CifModel.ReviewC17
