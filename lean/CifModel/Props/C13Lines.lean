import CifModel.Lemmas.WriterRoundtripC
import CifModel.Props.C13Doc
/-
  Property C13 — the CIF 1.1 round trip without the line-length hypothesis (see Props/C02Lines.lean, Lemmas/WriterRoundtripC.lean).
-/
namespace CifModel
open Model Model.Writer Lemmas.WriterChunks

/-- **C13_roundtrip_nl** — `C13_roundtrip` WITHOUT `containersL`: whatever `cif_write` accepts in CIF 1.1 mode, under `cifR .cif1`
    and `blocksN` alone, re-parses as CIF 1.1 (line unfolding and prefix removal on) under every callback policy with CIF_OK, no
    report, and the content written. -/
theorem C13_roundtrip_nl (o : Model.Parser.Opts) (pol : Model.Lexer.Policy) (cif : WCif) (out : Str)
    (hdia : o.dia = .cif1) (hun : o.unfold = true) (hpr : o.prem = true)
    (hstore : o.store = true) (hmfd : o.maxFrameDepth ≠ 0) (hutf : o.notUtf8 = false)
    (hR : cifR o.dia o.normKey cif) (hN : blocksN o cif [])
    (hw : writeCif 1 cif = .ok out) :
    ∃ back, Model.Parser.parse o pol [] out = { rc := 0, log := [], cif := back } ∧ All2 backBlock cif back :=
  roundtrip_doc_nl 1 o pol cif out (by rw [hdia]; rfl) hun hpr hstore hmfd hutf hR hN hw

/-- … and `C13_pure`'s line bound without it: under `cifR` and `blocksN` no line of the CIF 1.1 output has more than 2048 characters -/
theorem C13_line_bound_of_valid (o : Model.Parser.Opts) (cif : WCif) (out : Str)
    (hR : cifR o.dia o.normKey cif) (hN : blocksN o cif []) (hw : writeCif 1 cif = .ok out) :
    ∀ l ∈ splitLines out, Lemmas.WriterLinesC.cpLen l ≤ LINE :=
  Lemmas.WriterLinesC.all_lines_of_fitsC out
    (Lemmas.WriterLinesC.write_fitsC 1 cif out (containersLC_of_RN o cif [] hR hN) hw)

end CifModel
