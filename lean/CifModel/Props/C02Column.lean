import CifModel.Lemmas.WriterColumn
import CifModel.Props.C02Doc
/-
  Property C02 — the writer's I/O layer: `last_column` is exact.  `cif_write` writes through `u_fprintf` / `u_fputc`, directly or
  through `write_literal` / `write_uliteral` / `write_newline`, and every such place also assigns `last_column`; the wrap decisions
  (`write_literal`, `write_uliteral`, `write_quoted`, `write_triple_quoted`, `ENSURE_SPACED`, the room test before a table key) and
  with them `C02_line_bound` rest on that bookkeeping.  Lemmas: Lemmas/WriterColumn.lean (invariant `Exact`, closed under `andThen`).
-/
namespace CifModel
open Model Model.Writer Lemmas.WriterLines Lemmas.WriterColumn

/-- the steps of a run of `cif_write`: every handler call of the walk (`write_item` on a named or anonymous value, a packet, a
    loop with its header, a container with everything in it) and every loop of the writer itself (the elements of a list, the
    entries of a table, the items of a packet, packets, header names, loops, containers) -/
inductive C02_Step where
  | item (name : Str) (v : V)
  | elems (vs : List V)
  | entries (es : List (Str × Str × V))
  | items (p : List (Str × V))
  | packet (p : List (Str × V))
  | packets (ps : List (List (Str × V)))
  | header (names : List Str)
  | loop (l : WLoop)
  | loops (ls : List WLoop)
  | container (k : WContainer)
  | containers (ks : List WContainer)

/-- the writer function of the step -/
def C02_Step.run : C02_Step → Ctx → W
  | .item n v, c => writeItem n v c
  | .elems vs, c => writeElems vs c
  | .entries es, c => writeEntries es c
  | .items p, c => writeItems p c
  | .packet p, c => writePacket p c
  | .packets ps, c => writePackets ps c
  | .header ns, c => writeHeaderNames ns c
  | .loop l, c => writeLoop l c
  | .loops ls, c => writeLoops ls c
  | .container k, c => writeContainer k c
  | .containers ks, c => writeContainers ks c

/-- what is asked of what the step writes: data names of items without LF; strings and table keys without NUL and CR; number texts
    without NUL, CR, LF.  Nothing about block / frame codes and loop-header names (their lines end in a line feed), nothing about
    any length, nothing about characters. -/
def C02_Step.clean : C02_Step → Prop
  | .item n v => (10 : CU) ∉ n ∧ valueX v
  | .elems vs => elemsX vs
  | .entries es => entriesX es
  | .items p => itemsX p
  | .packet p => itemsX p
  | .packets ps => ∀ p ∈ ps, itemsX p
  | .header _ => True
  | .loop l => ∀ p ∈ l.packets, itemsX p
  | .loops ls => ∀ l ∈ ls, ∀ p ∈ l.packets, itemsX p
  | .container k => containerX k
  | .containers ks => containersX ks

/-- the length of the last (unterminated) line of `out`, in code units: what `last_column` is meant to be -/
def C02_lastLineLength (out : Str) : Nat := endCol 0 out

/-- `C02_lastLineLength` is the length of the last of the lines of `out` (lines split at LF) -/
theorem C02_lastLineLength_spec (out : Str) : C02_lastLineLength out = ((splitLines out).getLastD []).length := by
  have hsp := Lemmas.WriterText.splitLines_spec out
  have hne := Lemmas.WriterText.splitLines_ne_nil out
  have := endCol_join (splitLines out) 0 hne hsp.1
  rw [hsp.2] at this
  unfold C02_lastLineLength
  rw [this]
  cases hs : splitLines out with
  | nil => exact absurd hs hne
  | cons l rest =>
    cases rest with
    | nil => simp
    | cons l' r => simp

/-- **C02_last_column_exact** — for every step of the writer (`C02_Step`: every handler of the walk and every loop of the writer,
    at every depth of lists, tables and save frames), both output versions, every context: if `last_column` is the length of the
    last line of the output written so far (`pre`) when the step starts, and the step succeeds writing `o`, then `last_column`
    is the length of the last line of `pre ++ o` when it ends — in UTF-16 code units, the unit `u_fprintf` reports and the C
    adds up.  No assumption on lengths, columns or characters beyond `clean` (no LF in item names and number texts, no NUL / CR in
    strings).  This is the bookkeeping `C02_line_bound` relies on ("never underestimates" is its weaker form). -/
theorem C02_last_column_exact (s : C02_Step) (hs : s.clean) (c : Ctx) (pre o : Str) (c' : Ctx)
    (hpre : c.lastColumn = C02_lastLineLength pre) (h : s.run c = .ok (o, c')) :
    c'.lastColumn = C02_lastLineLength (pre ++ o) := by
  have E : Exact c (s.run c) := by
    cases s with
    | item n v => exact exact_item n v c (fun _ => hs.1) hs.2
    | elems vs => exact exact_elems vs c hs
    | entries es => exact exact_entries es c hs
    | items p => exact exact_items p c hs
    | packet p => exact exact_packet p c hs
    | packets ps => exact exact_packets ps c hs
    | header ns => exact exact_headerNames ns c
    | loop l => exact exact_loop l c hs
    | loops ls => exact exact_loops ls c hs
    | container k => exact exact_container k c hs
    | containers ks => exact exact_containers ks c hs
  unfold C02_lastLineLength at *
  rw [endCol_append, ← hpre]
  exact E o c' h

/-- the whole run of `cif_write` with the context it ends in (`writeCif` forgets the context) -/
def C02_writeCifRun (version : Nat) (cif : WCif) : W :=
  let c0 : Ctx := { version := if version = 1 then 1 else 0 }
  andThen (.ok (if c0.isCif1 then MAGIC11 else MAGIC20, c0)) fun c1 =>
    andThen (writeContainers cif c1) fun c2 => .ok (writeNewline c2)

theorem C02_writeCifRun_spec (version : Nat) (cif : WCif) :
    writeCif version cif = (match C02_writeCifRun version cif with | .error e => .error e | .ok (o, _) => .ok o) := rfl

/-- **C02_last_column_exact_doc** — whole documents: from `write_cif_start` (`last_column = 0`, nothing written) to
    `write_cif_end`, `last_column` ends as the length of the last line of everything written (0: the output ends in a line feed) -/
theorem C02_last_column_exact_doc (version : Nat) (cif : WCif) (o : Str) (c' : Ctx) (hX : containersX cif)
    (h : C02_writeCifRun version cif = .ok (o, c')) :
    c'.lastColumn = C02_lastLineLength o ∧ writeCif version cif = .ok o := by
  refine ⟨?_, by rw [C02_writeCifRun_spec, h]⟩
  have E : Exact { version := if version = 1 then 1 else 0 } (C02_writeCifRun version cif) := by
    unfold C02_writeCifRun
    apply exact_andThen
    · apply exact_ok
      split <;> decide
    · intro c1
      apply exact_andThen (exact_containers cif c1 hX)
      intro c2
      exact exact_newline c2
  exact E o c' h

/-- the hypotheses of `C02_line_bound` imply those of exactness -/
theorem C02_clean_of_line_hypotheses (cif : WCif) (h : containersL cif) : containersX cif := containersX_of_L cif h

set_option maxRecDepth 100000 in
/-- **C02_cex_column_cr** — why "no CR in strings" is needed for exactness, and why `write_char` refuses a CR before anything
    else (repair of F-cr-altered): behind that test (`writeCharCore`), `cif_analyze_string` takes a lone CR for a line terminator,
    so `length_last` of `a<LF>b<CR>cd` is 2 and `write_triple_quoted` would set `last_column` to 2 + 3 = 5 where the output line
    `b<CR>cd'''` has 7 units since the last line feed.  Since the repair this state is unreachable: `C02_cr_refused`. -/
theorem C02_cex_column_cr :
    ∃ o c', writeCharCore {} (a!"a\nb\rcd") true true = .ok (o, c') ∧ c'.lastColumn = 5 ∧ C02_lastLineLength o = 7 := by
  have h : (match writeCharCore {} (a!"a\nb\rcd") true true with
      | .ok (o, c') => decide (c'.lastColumn = 5 ∧ C02_lastLineLength o = 7)
      | .error _ => false) = true := by decide +kernel
  cases hw : writeCharCore {} (a!"a\nb\rcd") true true with
  | error e => rw [hw] at h; cases h
  | ok p =>
    obtain ⟨o, c'⟩ := p
    rw [hw] at h
    simp only [decide_eq_true_eq] at h
    exact ⟨o, c', rfl, h.1, h.2⟩

-- non-vacuity: the sample document of `C02_roundtrip_doc` is clean, and a step with a list, a table and a text field
example : containersX C02Doc.sample := C02_clean_of_line_hypotheses _ C02_roundtrip_doc_instance.1
example : (C02_Step.item (a!"_x") (.lst [.chr true (a!"a b"), .tbl [(a!"k", a!"k", .chr true (a!"p\nq"))], .unk])).clean := by
  simp [C02_Step.clean, valueX, elemsX, entriesX, strOk]

end CifModel
