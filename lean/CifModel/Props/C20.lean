import CifModel.Model.ErrList
import CifModel.Spec.ErrWords
/-
  Property C20 — every result code has its own correct message in cif_errlist.

  The quantifier is the finite set of result codes defined by cif.h; it is regenerated from the working tree
  on every run (Gen.ErrCodes), so the theorems below are re-decided against what the sources say now.
-/
namespace CifModel
open Gen Model Spec

/-- what C20 demands of one `(name, code)` row of cif.h -/
def C20_rowOk (r : Str × Nat) : Bool :=
  match ErrList.message r.2 with
  | none => false                                        -- code ≥ cif_nerr: outside the table
  | some msg => msg != [] && msg.length < ErrCodes.width && ErrWords.describes r.1 msg

/-- two distinct codes never share a message ("its own message") -/
def C20_distinctOk : List (Str × Nat) → Bool
  | [] => true
  | r :: rs => rs.all (fun s => s.2 == r.2 || ErrList.message s.2 != ErrList.message r.2) && C20_distinctOk rs

/-- C20, first half: for every result code of the header, `cif_errlist[code]` lies within the table, is non-empty,
    fits the table's row width and describes that very condition. -/
theorem C20_table : ∀ r ∈ ErrCodes.codes, C20_rowOk r = true := by
  have h : ErrCodes.codes.all C20_rowOk = true := by decide +kernel
  exact fun r hr => List.all_eq_true.mp h r hr

/-- C20, "its own": distinct codes have distinct messages. -/
theorem C20_distinct : C20_distinctOk ErrCodes.codes = true := by decide +kernel

/-- does the message in the slot of code `k` describe the condition named `name`? -/
def C20_slotDescribes (name : Str) (k : Nat) : Bool :=
  match ErrList.message k with
  | some m => ErrWords.describes name m
  | none => false

/-- no message of the header describes the condition of ANOTHER code -/
def C20_discriminatesOk (rs : List (Str × Nat)) : Bool :=
  rs.all (fun r => rs.all (fun s => s.2 == r.2 || !C20_slotDescribes r.1 s.2))

/-- C20, "that very condition": the specification of each condition is met by the message in its own slot (`C20_table`)
    and by the message of NO other defined code — so exchanging two initialisers, or shifting the positional table by one
    slot, breaks `C20_table` for at least one of the codes involved. -/
theorem C20_discriminates : ∀ r ∈ ErrCodes.codes, ∀ s ∈ ErrCodes.codes, s.2 ≠ r.2 → C20_slotDescribes r.1 s.2 = false := by
  have h : C20_discriminatesOk ErrCodes.codes = true := by decide +kernel
  intro r hr s hs hne
  have h1 := List.all_eq_true.mp (List.all_eq_true.mp h r hr) s hs
  rcases Bool.or_eq_true _ _ |>.mp h1 with h2 | h2
  · exact absurd (by simpa using h2) hne
  · simpa using h2

/-- the table is exactly as long as `cif_nerr` says (no initialiser beyond it, none missing before it) -/
theorem C20_nerr_is_length : ErrCodes.nerr = ErrCodes.errlist.length := by decide +kernel

/-- code values are unique: no two names share a number (so "the message of a code" is well defined) -/
theorem C20_codes_unique : (ErrCodes.codes.map (·.2)).Nodup := by decide +kernel

-- non-vacuity: the quantifier ranges over a non-trivial table, and the row predicate can fail
example : ErrCodes.codes.length ≥ 50 := by decide +kernel
example : C20_rowOk (a!"CIF_MEMORY_ERROR", 4) = false := by decide +kernel     -- the message of another code is rejected
example : C20_rowOk (a!"CIF_OK", 100000) = false := by decide +kernel           -- outside the table

end CifModel
