import CifModel.Model.Locale
/-
  Property C16 (partial) — the part of "no lasting global side effects" that is logic: the numeric-locale protocol.

  For every initial locale, every outcome of the fallible steps (copying the locale name, switching to "C"), every
  argument validity and every outcome of the formatting body, `cif_value_init_numb` and `cif_value_autoinit_numb`
  return with the numeric locale they were entered with — provided that re-installing a locale that was current a
  moment ago succeeds (`Restorable`, an assumption about setlocale stated explicitly).
  The floating-point rounding mode is only ever read (fegetround) by the library: there is no call that could change it,
  which the correspondence family `locale` observes (fegetround before / after).
-/
namespace CifModel
open Model.Locale

/-- assumption about the C library: restoring a locale name that was obtained from setlocale itself succeeds -/
def Restorable (e : Env) : Prop := ∀ n, e.restoreOk n = true

theorem C16_set_c_saves_current (e : Env) (s : St) :
    ∀ saved s', setCNumericLocale e s = (some saved, s') → saved = s.cur ∧ s'.cur = .c := by
  intro saved s' h
  by_cases h1 : e.mallocOk s.nMalloc = true <;> by_cases h2 : e.setCOk s.nSetC = true <;>
    simp [setCNumericLocale, h1, h2] at h
  obtain ⟨ha, hb⟩ := h
  subst ha; subst hb; simp

theorem C16_set_c_failure_keeps (e : Env) (s : St) :
    ∀ s', setCNumericLocale e s = (none, s') → s'.cur = s.cur := by
  intro s' h
  by_cases h1 : e.mallocOk s.nMalloc = true <;> by_cases h2 : e.setCOk s.nSetC = true <;>
    simp [setCNumericLocale, h1, h2] at h <;> (subst h; rfl)

/-- `cif_value_init_numb` leaves the numeric locale as it found it, on every path -/
theorem C16_init_numb_locale_restored (e : Env) (he : Restorable e) (argsValid : Bool) (body : Body) (s : St) :
    (initNumb e argsValid body s).2.cur = s.cur := by
  unfold initNumb
  cases argsValid
  · simp
  · simp only [Bool.not_true, Bool.false_eq_true, if_false]
    cases hsc : setCNumericLocale e s with
    | mk r s' =>
      cases r with
      | none => simpa using C16_set_c_failure_keeps e s s' hsc
      | some saved =>
        have h := C16_set_c_saves_current e s saved s' hsc
        cases body <;> simp [restore, he _, h.1]

/-- `cif_value_autoinit_numb` leaves the numeric locale as it found it, on every path (including the nested call) -/
theorem C16_autoinit_numb_locale_restored (e : Env) (he : Restorable e)
    (argsValid exact scaleComputed innerArgsValid : Bool) (body : Body) (s : St) :
    (autoinitNumb e argsValid exact scaleComputed innerArgsValid body s).2.cur = s.cur := by
  unfold autoinitNumb
  cases argsValid
  · simp
  · simp only [Bool.not_true, Bool.false_eq_true, if_false]
    cases exact
    · simp only [Bool.false_eq_true, if_false]
      cases hsc : setCNumericLocale e s with
      | mk r s' =>
        cases r with
        | none => simpa using C16_set_c_failure_keeps e s s' hsc
        | some saved =>
          have h := C16_set_c_saves_current e s saved s' hsc
          cases scaleComputed <;> simp [restore, he _, h.1]
    · simpa using C16_init_numb_locale_restored e he innerArgsValid body s

/-- the pinned behaviour (before fix ed83ad1): the functions kept the return value of `setlocale(LC_NUMERIC, "C")` —
    the name of the NEW locale — and "restored" that.  Modelled as `initNumb` with `saved := .c`. -/
def initNumbPinned (e : Env) (s : St) : St :=
  match setCNumericLocale e s with
  | (none, s') => s'
  | (some _, s') => restore e .c s'

/-- … which loses every non-"C" locale: the counterexample the fix removed (replayed on the real code by family `locale`) -/
theorem C16_cex_pinned_locale_lost :
    (initNumbPinned { mallocOk := fun _ => true, setCOk := fun _ => true, restoreOk := fun _ => true }
      { cur := .other 1 }).cur ≠ Loc.other 1 := by decide

-- non-vacuity: a run that really switches to "C" and back from another locale
example :
    let e : Env := { mallocOk := fun _ => true, setCOk := fun _ => true, restoreOk := fun _ => true }
    (setCNumericLocale e { cur := .other 7 }).2.cur = .c ∧
    (initNumb e true .ok { cur := .other 7 }).2.cur = .other 7 ∧
    (autoinitNumb e true false true true .formatError { cur := .other 7 }).2.cur = .other 7 := by decide

end CifModel
