import CifModel.Model.Locale
import CifModel.Gen.GlobalState
/-
  Property C16 (partial) — the part of "no lasting global side effects" that is logic: the numeric-locale protocol.

  For every initial locale, every outcome of the fallible steps (copying the locale name, switching to "C"), every
  argument validity and every outcome of the formatting body, `cif_value_init_numb` and `cif_value_autoinit_numb`
  return with the numeric locale they were entered with — provided that re-installing a locale that was current a
  moment ago succeeds (`Restorable`, an assumption about setlocale stated explicitly).
  The floating-point rounding mode is only ever read (fegetround) by the library: there is no call that could change it
  (C16_rounding_mode_restored, over the call sites regenerated from the sources by tools/translate_globals.py), which
  the correspondence family `locale` also observes (fegetround before / after).
  That no OTHER function touches the numeric locale is the same kind of fact: C16_global_state_sites.
-/
namespace CifModel
open Model.Locale

/-- assumption about the C library: restoring a locale name that was obtained from setlocale itself succeeds -/
def Restorable (e : Env) : Prop := ∀ n, e.restoreOk n = true

theorem C16_set_c_saves_current (e : Env) (s : St) :
    ∀ saved s', setCNumericLocale e s = (some saved, s') → saved = s.cur ∧ s'.cur = .c := by
  intro saved s' h
  by_cases h1 : e.mallocOk s.nMalloc = true <;> by_cases h2 : e.setCOk s.nSetC = true <;>
    simp [setCNumericLocale, h1, h2] at h
  obtain ⟨ha, hb⟩ := h
  subst ha; subst hb; simp

theorem C16_set_c_failure_keeps (e : Env) (s : St) :
    ∀ s', setCNumericLocale e s = (none, s') → s'.cur = s.cur := by
  intro s' h
  by_cases h1 : e.mallocOk s.nMalloc = true <;> by_cases h2 : e.setCOk s.nSetC = true <;>
    simp [setCNumericLocale, h1, h2] at h <;> (subst h; rfl)

/-- `cif_value_init_numb` leaves the numeric locale as it found it, on every path -/
theorem C16_init_numb_locale_restored (e : Env) (he : Restorable e) (argsValid : Bool) (body : Body) (s : St) :
    (initNumb e argsValid body s).2.cur = s.cur := by
  unfold initNumb
  cases argsValid
  · simp
  · simp only [Bool.not_true, Bool.false_eq_true, if_false]
    cases hsc : setCNumericLocale e s with
    | mk r s' =>
      cases r with
      | none => simpa using C16_set_c_failure_keeps e s s' hsc
      | some saved =>
        have h := C16_set_c_saves_current e s saved s' hsc
        cases body <;> simp [restore, he _, h.1]

/-- `cif_value_autoinit_numb` leaves the numeric locale as it found it, on every path (including the nested call) -/
theorem C16_autoinit_numb_locale_restored (e : Env) (he : Restorable e)
    (argsValid exact scaleComputed innerArgsValid : Bool) (body : Body) (s : St) :
    (autoinitNumb e argsValid exact scaleComputed innerArgsValid body s).2.cur = s.cur := by
  unfold autoinitNumb
  cases argsValid
  · simp
  · simp only [Bool.not_true, Bool.false_eq_true, if_false]
    cases exact
    · simp only [Bool.false_eq_true, if_false]
      cases hsc : setCNumericLocale e s with
      | mk r s' =>
        cases r with
        | none => simpa using C16_set_c_failure_keeps e s s' hsc
        | some saved =>
          have h := C16_set_c_saves_current e s saved s' hsc
          cases scaleComputed <;> simp [restore, he _, h.1]
    · simpa using C16_init_numb_locale_restored e he innerArgsValid body s

/-- the pinned behaviour (before fix ed83ad1): the functions kept the return value of `setlocale(LC_NUMERIC, "C")` —
    the name of the NEW locale — and "restored" that.  Modelled as `initNumb` with `saved := .c`. -/
def initNumbPinned (e : Env) (s : St) : St :=
  match setCNumericLocale e s with
  | (none, s') => s'
  | (some _, s') => restore e .c s'

/-- … which loses every non-"C" locale: the counterexample the fix removed (replayed on the real code by family `locale`) -/
theorem C16_cex_pinned_locale_lost :
    (initNumbPinned { mallocOk := fun _ => true, setCOk := fun _ => true, restoreOk := fun _ => true }
      { cur := .other 1 }).cur ≠ Loc.other 1 := by decide

-- non-vacuity: a run that really switches to "C" and back from another locale
example :
    let e : Env := { mallocOk := fun _ => true, setCOk := fun _ => true, restoreOk := fun _ => true }
    (setCNumericLocale e { cur := .other 7 }).2.cur = .c ∧
    (initNumb e true .ok { cur := .other 7 }).2.cur = .other 7 ∧
    (autoinitNumb e true false true true .formatError { cur := .other 7 }).2.cur = .other 7 := by decide

-- ---------------------------------------------------------------------------------------------------------------
-- which functions touch process-wide state at all (tie to the sources: Gen/GlobalState.lean)

open Gen.GlobalState in
/-- EVERY call site, anywhere in src/*.c, of a function that reads or can change process-wide state (numeric locale,
    floating-point environment, environment variables, signal dispositions, random seed, umask / working directory, exit
    handlers, global configuration of ICU and SQLite — the names searched are listed in Gen/GlobalState.lean), as
    (containing function, callee, arguments, can it change state?).  The list is regenerated from the working tree on every
    run; this theorem pins it to what the model covers: the numeric locale is touched only by set_c_numeric_locale (query +
    switch to "C") and by the restoring calls of cif_value_init_numb (two exits) and cif_value_autoinit_numb (one) — the
    three functions of Model/Locale.lean; round_it only READS the rounding mode; cif_create initialises SQLite (idempotent,
    meant to last).  A call added anywhere else in the library makes this `decide` fail. -/
theorem C16_global_state_sites :
    sites.map (fun s => (s.function, s.callee, s.args, s.isSetter)) =
    [ (a!"cif_create", a!"sqlite3_initialize", [], true),
      (a!"round_it", a!"fegetround", [], false),
      (a!"set_c_numeric_locale", a!"setlocale", a!"LC_NUMERIC, NULL", true),
      (a!"set_c_numeric_locale", a!"setlocale", a!"LC_NUMERIC, \"C\"", true),
      (a!"cif_value_init_numb", a!"setlocale", a!"LC_NUMERIC, locale", true),
      (a!"cif_value_init_numb", a!"setlocale", a!"LC_NUMERIC, locale", true),
      (a!"cif_value_autoinit_numb", a!"setlocale", a!"LC_NUMERIC, locale", true) ] := by decide +kernel

/-- the C99 functions that can change the floating-point environment (rounding mode, exception flags) -/
def C16_fenvSetters : List (List Nat) :=
  [a!"fesetround", a!"fesetenv", a!"feholdexcept", a!"feupdateenv", a!"feclearexcept", a!"feraiseexcept", a!"fesetexceptflag"]

open Gen.GlobalState in
/-- "the rounding mode is as the caller left it": no function of the library calls anything that can change the
    floating-point environment, so there is nothing to restore; the only floating-point-environment call in the library is
    the QUERY fegetround in round_it (which is why cif_value_init_numb / autoinit_numb round as the caller's mode says).
    A save / restore protocol as for the locale does not exist in the code, so there is no model of one. -/
theorem C16_rounding_mode_restored :
    (∀ s ∈ sites, s.callee ∉ C16_fenvSetters) ∧
    (sites.filter (fun s => s.callee.take 2 == a!"fe")).map (fun s => (s.function, s.callee)) = [(a!"round_it", a!"fegetround")] := by
  refine ⟨?_, by decide +kernel⟩
  have h : sites.all (fun s => !(C16_fenvSetters.contains s.callee)) = true := by decide +kernel
  intro s hs hc
  have := List.all_eq_true.mp h s hs
  simp [hc] at this

open Gen.GlobalState in
/-- "no other function calls setlocale": every setlocale call site lies in one of the three modelled functions -/
theorem C16_setlocale_only_in_protocol :
    ∀ s ∈ sites, s.callee = a!"setlocale" →
      s.function = a!"set_c_numeric_locale" ∨ s.function = a!"cif_value_init_numb" ∨ s.function = a!"cif_value_autoinit_numb" := by
  have h : sites.all (fun s => s.callee != a!"setlocale" || s.function == a!"set_c_numeric_locale" ||
      s.function == a!"cif_value_init_numb" || s.function == a!"cif_value_autoinit_numb") = true := by decide +kernel
  intro s hs hc
  have := List.all_eq_true.mp h s hs
  simp [hc] at this
  exact or_assoc.mp this

end CifModel
