import CifModel.Props.C08Buf
import CifModel.Props.C08Stream
/-
  Review rB, property C08 (groups gP: buffer-level scanner, gV: byte-level character source).  Instances that APPLY the headline
  theorems to concrete data and obtain a concrete conclusion, and one witness for finding M3 of notes/review/rB-parts/C08.md
  (`Laws` — and with it every `C08_ustream_*` theorem — is met by a "converter" that throws the whole file away: the theorems are
  about independence of the chunking, not about decoding).
-/
namespace CifModel.ReviewSC08

section buf
open CifModel Model.Chars Model.Lexer Model.Fill Model.ScanBuf Model.BufScan Spec.Eol Gen

/-- `data_a` CR | LF `_x` SP | `1` : a CR LF pair split between two deliveries of the source -/
def chunks1 : List Str := [[100, 97, 116, 97, 95, 97, 13], [10, 95, 120, 32], [49]]

/-- C08_bufscan_refines_lexer APPLIED (BUF_MIN_FILL 1, a 2-unit initial buffer: every token outgrows it): the types of the
    buffer-level token stream are obtained from the theorem + an evaluation of the LIST-level lexer only -/
example : ((tokenizeB .cif2 1 2 acceptAll chunks1).1.map (·.tok)).map (·.ty) = [.blockHead, .name, .value, .end_] ∧
    (tokenizeB .cif2 1 2 acceptAll chunks1).2.1 = 0 := by
  have h := C08_bufscan_refines_lexer .cif2 1 2 acceptAll chunks1 (by decide) (by decide) (by decide)
  have h1 := congrArg Prod.fst h
  have h2 := congrArg (fun x => x.2.1) h
  simp only at h1 h2
  rw [h1, h2]
  decide

/-- C08_bufscan_style_independent APPLIED: the LF document `a LF b`, first terminator re-spelled CR LF, cut inside the pair -/
example : ((tokenizeB .cif2 1 2 acceptAll [[97, 13], [10, 98]]).1.map (·.tok)).map (·.line) = [1, 2, 2] := by
  have h := C08_bufscan_style_independent .cif2 acceptAll 1 2 [97, 10, 98] [1] [[97, 13], [10, 98]]
    (by decide) (by decide) (by decide) (by decide) (by decide) (by decide)
  have h1 := congrArg Prod.fst h
  simp only at h1
  rw [h1]
  decide

end buf

section stream
open CifModel Model.Ustream Model.Fill Spec.Eol

/-- C08_bytes_to_scanner APPLIED to UTF-8 bytes `a CR LF é CR b` + a sequence truncated by the end of the file, a 3-byte byte buffer,
    requests of 2 units on the stream side and of 4 on the fill side: the theorem gives the scanner's view without running the stream -/
example : seen [4, 4, 4, 4, 4, 4, 4, 4] ⟨deliveries (runCalls utf8 acceptAll 0xFFFD 3
      (initStream utf8 3 [0x61, 0x0D, 0x0A, 0xC3, 0xA9, 0x0D, 0x62, 0xE2, 0x82] false) [2, 2, 2, 2, 2, 2, 2, 2])⟩
    = [0x61, 0x0A, 0xE9, 0x0A, 0x62, 0xFFFD] := by
  rw [C08_bytes_to_scanner utf8 C08_utf8_incremental acceptAll acceptAll_accepting 0xFFFD 3 (by decide)
    [0x61, 0x0D, 0x0A, 0xC3, 0xA9, 0x0D, 0x62, 0xE2, 0x82] false [2, 2, 2, 2, 2, 2, 2, 2] (by decide) (by decide)
    [4, 4, 4, 4, 4, 4, 4, 4] (by decide) (by decide)]
  decide

/-- WITNESS (finding M3): a "converter" that consumes everything and delivers nothing meets `Laws` … -/
def nullConv : Conv where
  σ := Unit
  init := ()
  step := fun _ bs _ _ => ⟨[], bs.length, (), .ok⟩
  tail := fun _ _ => []
  weight := fun _ => 0

theorem nullConv_laws : Laws nullConv where
  cap_le := by intro s bs f cap; exact Nat.zero_le _
  used_le := by intro s bs f cap; exact Nat.le_refl _
  sound := by intro s bs f cap more _; rfl
  ok_drained := by intro s bs f cap _; rfl
  ok_flushed := by intro s bs cap _; rfl
  overflow_full := by intro s bs f cap h; cases h
  progress := by intro s bs f cap k u h; cases h

/-- … so C08_ustream_any_requests holds for it, with `decodeAll = []`: the whole file is "decoded" to nothing and the theorem is
    content.  (`decodeAll` is the converter's OWN denotation `tail`, not a specification of the encoding.) -/
example (bytes : List Nat) : decodeAll nullConv 0xFFFD bytes = [] := rfl

example (bytes : List Nat) (counts : List Int) (hc : ∀ n ∈ counts, 1 ≤ n) (h0 : 0 < counts.length) :
    ∃ pre post, runCalls nullConv acceptAll 0xFFFD 4096 (initStream nullConv 4096 bytes true) counts = pre ++ post ∧ post ≠ [] ∧
      pre.flatMap (·.units) = [] := by
  obtain ⟨pre, post, h1, h2, _, _, h5, _⟩ :=
    C08_ustream_any_requests nullConv nullConv_laws acceptAll acceptAll_accepting 0xFFFD 4096 (by decide) bytes true counts hc h0
  exact ⟨pre, post, h1, h2, h5⟩

end stream

end CifModel.ReviewSC08
