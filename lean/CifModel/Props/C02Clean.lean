import CifModel.Lemmas.WriterClean
import CifModel.Props.C02Doc
/-
  Property C02, clause 1 strengthened by the repairs of F-cr-altered and F-disallowed-char-written: `write_char` refuses — before it
  does anything else — a text holding a carriage return (CIF_DISALLOWED_VALUE) and, in CIF 2.0 mode, a text holding a character
  CIF 2.0 does not allow (CIF_DISALLOWED_CHAR).  Hence SUCCESS of `cif_write` alone implies that every string, table key and
  number text it handed to `write_char` was CR-free and of allowed characters.  Lemmas: Lemmas/WriterClean.lean (invariant `Imp`).
-/
namespace CifModel
open Model Model.Writer Lemmas.WriterChar Lemmas.WriterClean

/-- **C02_cr_refused** — every context, both output versions, every quoted flag, with or without permission to write a text
    field: a text holding a carriage return is refused with CIF_DISALLOWED_VALUE, and nothing is written for it (the step yields
    no output; whatever follows in the CIF is not reached: `andThen`).  So is the item holding it, whenever its data name went
    through, and a table entry under such a key. -/
theorem C02_cr_refused (c : Ctx) (s : Str) (q allowText : Bool) (h : (13 : CU) ∈ s) :
    writeChar c s q allowText = .error Gen.ErrCodes.CIF_DISALLOWED_VALUE
    ∧ (∀ n o1 c1, writeItemHead c n = .ok (o1, c1) → writeItem n (.chr q s) c = .error Gen.ErrCodes.CIF_DISALLOWED_VALUE) := by
  refine ⟨writeChar_cr c s q allowText h, ?_⟩
  intro n o1 c1 hh
  unfold writeItem
  simp only [andThen, hh, writeChar_cr c1 s q true h]

/-- **C02_disallowed_char_refused** — CIF 2.0 mode: a CR-free text holding a character CIF 2.0 does not allow (a C0 control other
    than TAB / LF, U+007F–U+009F, U+FDD0–U+FDEF, U+FFFE, U+FFFF, an unpaired surrogate, U+xFFFE / U+xFFFF: `Model.hasDisallowed`, the
    model of `cif_has_disallowed_chars`, which `cif_is_valid_name` uses too) is refused with CIF_DISALLOWED_CHAR, nothing written -/
theorem C02_disallowed_char_refused (c : Ctx) (s : Str) (q allowText : Bool) (h2 : c.isCif1 = false) (h13 : (13 : CU) ∉ s)
    (h : Model.hasDisallowed s = true) :
    writeChar c s q allowText = .error Gen.ErrCodes.CIF_DISALLOWED_CHAR
    ∧ (∀ n o1 c1, writeItemHead c n = .ok (o1, c1) → writeItem n (.chr q s) c = .error Gen.ErrCodes.CIF_DISALLOWED_CHAR) := by
  refine ⟨writeChar_disallowed c s q allowText h13 h2 h, ?_⟩
  intro n o1 c1 hh
  have h21 : c1.isCif1 = false := by
    rw [(Lemmas.WriterLinesC.head_keep c n o1 c1 hh).isCif1]; exact h2
  unfold writeItem
  simp only [andThen, hh, writeChar_disallowed c1 s q true h13 h21 h]

/-- the only three things `write_char` does: refuse a CR, refuse (CIF 2.0) a disallowed character, or its core on a clean text -/
theorem C02_write_char_opening_tests (c : Ctx) (s : Str) (q allowText : Bool) :
    (writeChar c s q allowText = .error Gen.ErrCodes.CIF_DISALLOWED_VALUE ∧ (13 : CU) ∈ s)
    ∨ (writeChar c s q allowText = .error Gen.ErrCodes.CIF_DISALLOWED_CHAR ∧ (13 : CU) ∉ s ∧ c.isCif1 = false ∧ Model.hasDisallowed s = true)
    ∨ (writeChar c s q allowText = writeCharCore c s q allowText ∧ (13 : CU) ∉ s ∧ (c.isCif1 = false → Model.hasDisallowed s = false)) := by
  rcases writeChar_cases c s q allowText with h | h | ⟨e, hcl⟩
  · exact Or.inl h
  · exact Or.inr (Or.inl h)
  · refine Or.inr (Or.inr ⟨e, strClean_noCR _ s hcl, fun h2 => ?_⟩)
    rw [h2] at hcl
    exact strClean_allowed s hcl

/-- **C02_success_implies_clean** — clause 1 of C02, strengthened: whenever `cif_write` (CIF 2.0 mode, every walk order) reports
    success, EVERY string value, EVERY table key and every number text that went through `write_char` (quoted numbers, numbers longer
    than a line) — at any depth of lists, tables and save frames — holds no carriage return and only characters CIF 2.0 allows
    (`containersW false`: `strClean false t` = `13 ∉ t ∧ ¬ cif_has_disallowed_chars t`).  So the hypotheses of the round-trip theorems
    that concern the characters of strings need not be assumed of a CIF that was written: they follow from success alone (up to the
    two units the parser's grammar excludes beyond `cif_has_disallowed_chars`: NUL, which no C string holds, and U+FEFF). -/
theorem C02_success_implies_clean (cif : WCif) (out : Str) (h : writeCif 0 cif = .ok out) : containersW false cif := by
  have := writeCif_clean 0 cif out h
  simpa using this

/-- what `containersW false` says of one string value, spelled out -/
theorem C02_clean_string (t : Str) (q : Bool) (h : valueW false (.chr q t)) : (13 : CU) ∉ t ∧ Model.hasDisallowed t = false :=
  ⟨strClean_noCR _ t h, strClean_allowed t h⟩

-- instances: a CR, a C0 control, U+007F, U+FDD0, an unpaired lead surrogate are refused; `é`, U+1F600 and TAB are not
example : (13 : CU) ∈ (a!"a\rb") ∧ Model.hasDisallowed [97, 1] = true ∧ Model.hasDisallowed [127] = true
    ∧ Model.hasDisallowed [0xFDD0] = true ∧ Model.hasDisallowed [0xD83D] = true
    ∧ strClean false [233, 0xD83D, 0xDE00, 9, 10] = true := by decide
-- non-vacuity of `C02_success_implies_clean`: the sample of `C02_roundtrip_doc` is written
example : ∃ out, writeCif 0 C02Doc.sample = .ok out := C02_roundtrip_doc_instance.2.2.2

end CifModel
