import CifModel.Props.C06
/-
  Review rA — instances for the C06 theorems added by group gL (iterators inside whole histories).
  Every `example` applies REQUIRED theorems to concrete data; the hypotheses are discharged by `decide` or by another REQUIRED theorem.
-/
namespace CifModel.ReviewRC06
open CifModel Store Gen.ErrCodes World

private def nm (k : Str) : Name := { key := k, orig := k, valid := true }

/-- CIF 0: a SCALAR loop is there too (set_value), and a three-packet loop, one packet given only in part (unknown value for `_b`);
    CIF 1 beside it -/
private def pre : List Op :=
  [.cifNew, .mkBlock 0 (some (nm (a!"b"))), .mkLoop 0 none [nm (a!"_a"), nm (a!"_b")],
   .addPkt 0 [(a!"_a", .na), (a!"_b", .unk)], .addPkt 0 [(a!"_a", .unk)], .addPkt 0 [(a!"_a", .na), (a!"_b", .na)],
   .cifNew, .mkBlock 1 (some (nm (a!"c")))]

private def w0 : World := (run {} pre).1
private theorem w0_ok : WOk w0 := C04_wok_hist pre {} C04_wok_init (by decide)
private def w1 : World := (step w0 (.itOpen 0)).1
private theorem w1_ok : WOk w1 := C04_wok_step w0 (.itOpen 0) w0_ok (by decide)

/-- a session that violates the life cycle (update before the first next → CIF_MISUSE; remove twice), is interleaved with work on
    CIF 1 and a refused get_packets, CLOSES the iterator in the middle and goes on calling it -/
private def sess : List Op :=
  [.itUpd 0 [(a!"_a", .na)], .itNext 0, .itRem 0, .itRem 0, .setVal 1 (some (nm (a!"_x"))) (some .na), .itOpen 0, .itNext 0,
   .itClose 0, .itNext 0, .itNext 0, .getVal 0 (some (nm (a!"_a")))]

example : inContractHist w1 sess = true := by decide
example : (run w1 sess).2.map (·.rc) =
    [some CIF_MISUSE, some 0, some 0, some CIF_MISUSE, some 0, some CIF_ERROR, some 0, some 0, none, none, some CIF_AMBIGUOUS_ITEM] := by decide

/-- C06_pending_at_open feeds C06_delivers_in_any_history: what the next-calls of `sess` deliver (2 packets — the close ends it) is a
    prefix of the packets of the loop at creation (3 packets) -/
example : ∃ e st x rest, (absW w0).liveL 0 = some (e, st) ∧ st.findLoop e.h.cid e.h.loopNum = some x ∧
    x.packets.map (fun p => (x.items.map (·.1)).zip p) = deliveredBy 0 sess (run w1 sess).2 ++ rest := by
  obtain ⟨e, st, x, h1, h2, h3⟩ := C06_pending_at_open w0 w0_ok 0 (by decide) (by decide)
  obtain ⟨rest, hr⟩ := C06_delivers_in_any_history sess w1 w1_ok (by decide) 0 _ h3
  exact ⟨e, st, x, rest, h1, h2, hr⟩
example : (deliveredBy 0 sess (run w1 sess).2).length = 2 := by decide

/-- C06_delivers_in_history (segment without close / abort) and C06_next_in_history after it: 3 delivered, then CIF_FINISHED -/
private def seg : List Op := [.itNext 0, .blocks 1, .itNext 0, .itUpd 0 [(a!"_b", .na)], .itNext 0]
example : ∃ e st x, (absW w0).liveL 0 = some (e, st) ∧ st.findLoop e.h.cid e.h.loopNum = some x ∧
    x.packets.map (fun p => (x.items.map (·.1)).zip p) = deliveredBy 0 seg (run w1 seg).2 ∧
    (absW (run w1 seg).1).pending 0 = some [] := by
  obtain ⟨e, st, x, h1, h2, h3⟩ := C06_pending_at_open w0 w0_ok 0 (by decide) (by decide)
  obtain ⟨rest, hr, hp⟩ := C06_delivers_in_history seg w1 w1_ok (by decide) 0 _ h3 (by decide)
  have hw : WOk (run w1 seg).1 := C04_wok_hist seg w1 w1_ok (by decide)
  rcases C06_next_in_history _ hw 0 rest hp with ⟨r0, _⟩ | ⟨pe, _, _⟩ | ⟨p, ps, _, r0, _, _⟩
  · exact absurd r0 (by decide)
  · subst pe; exact ⟨e, st, x, h1, h2, by simpa using hr, hp⟩
  · exact absurd r0 (by decide)
example : (deliveredBy 0 seg (run w1 seg).2).length = 3 := by decide

/-- C06_pending_kept: the iterator's own update, a call on the other CIF, a refused get_packets leave what is pending alone -/
example (P : List (List (Str × V))) (hp : (absW w1).pending 0 = some P) :
    (absW (step w1 (.itOpen 0)).1).pending 0 = some P :=
  C06_pending_kept w1 (.itOpen 0) w1_ok (by decide) 0 P hp rfl rfl
example (P : List (List (Str × V))) (hp : (absW w1).pending 0 = some P) :
    (absW (step w1 (.setVal 1 (some (nm (a!"_x"))) (some .na))).1).pending 0 = some P :=
  C06_pending_kept w1 _ w1_ok (by decide) 0 P hp rfl rfl

/-- Store.step_other on the same world: the entry of iterator 0 and the db / BEGIN snapshot of CIF 0 are untouched by a call on CIF 1 -/
example : ∃ e, w1.its.getD 0 none = some e ∧ (step w1 (.mkLoop 1 none [nm (a!"_k")])).1.its.getD 0 none = some e := by
  cases hi : w1.its.getD 0 none with
  | none => exact absurd hi (by decide)
  | some e => exact ⟨e, rfl, (step_other w1 _ w1_ok (by decide) 0 e hi (by simp [Op.iterIdx])).1⟩

/-- what the contract EXCLUDES (so that none of the theorems speaks about it): get_packets through a handle whose loop was destroyed
    — the property's "for a loop that no longer exists CIF_INVALID_HANDLE" — is out of contract unless the CIF is busy; a read of the
    iterated CIF while the iterator is open is out of contract too -/
example : inContract (run w0 [.itemLoop 0 (some (nm (a!"_a"))), .ldestroy 0]).1 (.itOpen 1) = false := by decide
example : (step (run w0 [.itemLoop 0 (some (nm (a!"_a"))), .ldestroy 0]).1 (.itOpen 1)).2.rc = some CIF_INVALID_HANDLE := by decide
example : inContract w1 (.getVal 0 (some (nm (a!"_a")))) = false := by decide

end CifModel.ReviewRC06
