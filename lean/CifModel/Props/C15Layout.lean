import CifModel.Lemmas.ParseCBLayoutDoc
import CifModel.Lemmas.ParseCBFuel
import CifModel.Lemmas.ParseCBGrammar
import CifModel.Lemmas.ParseCBDup
import CifModel.Props.C15
/-
  Property C15, layout — the whitespace / comment callbacks follow the layout of the document in order, and nothing else
  depends on layout.

  Setting.  The parser model reads a token sequence in which every token carries the layout in front of it (`Tok.pre`: whitespace
  runs and comments); next_token reports it through the whitespace callback when it scans the token — comments always, whitespace
  runs only while `skip_depth <= 0`.  The document-level theorems of Props/C15.lean are about the layout-free sequence
  `tokensOf d`.  Here:

    * C15_layout_independent — for ALL token sequences (well-formed or not), all handler programs, both modes: two sequences that
      differ only in layout (`SkelL`) give the same return value, the same stored CIF and the same callbacks other than whitespace
      callbacks, in the same order; in particular those of the layout-free sequence (`C15_strip`), to which every theorem of
      Props/C15.lean applies (`C15_layout_all_continue_mirror`, `C15_layout_stop_semantics`).
    * C15_layout_callbacks — for all token sequences, programs, modes and any two layouts: there is one list of depths, one per
      token that next_token scanned (a prefix of the sequence: each token once, in order), such that the whitespace callbacks of
      EITHER layout are, in order, `segEvents depth pre` of its tokens: every comment, and every whitespace run unless the token was
      scanned inside a skipped region.  The same tokens are inside skipped regions whatever the layout.  A program that never answers
      SKIP_CURRENT / SKIP_SIBLINGS gets every whitespace run.
    * C15_layout_callbacks_doc — for a well-formed document under a program that never stops the parse, every token's layout is
      visited (also the layout in front of the end of input); with all-continue handlers the whitespace callbacks are the whole
      layout in order (`C15_layout_all_continue`).
    * C15_layout_rendered — the same in the terms of Spec/Grammar's printer (`render d l`, C01): the concatenated texts of the
      whitespace callbacks are the separators `l 0, l 1, …` of the printed document, in order.
-/
namespace CifModel
open ParseCB Lemmas.ParseCB Spec.Doc

/-- **Layout independence.**  For all token sequences `toks`, `toks'` that differ only in the layout in front of their tokens, every
    handler program and both modes: cif_parse returns the same value, stores the same CIF and makes the same handler, data-name and
    keyword callbacks in the same order. -/
theorem C15_layout_independent (p : Prog) (storing : Bool) (toks toks' : List Tok) (h : SkelL toks toks') :
    (parseCB p storing toks').2.1 = (parseCB p storing toks).2.1
    ∧ (parseCB p storing toks').2.2 = (parseCB p storing toks).2.2
    ∧ C15_structOf (parseCB p storing toks').1 = C15_structOf (parseCB p storing toks).1 := by
  have hf : fuelFor toks' = fuelFor toks := by unfold fuelFor; rw [h.length]
  obtain ⟨a, b, c, _⟩ := cif_layout p 1 storing (fuelFor toks) h
  unfold parseCB C15_structOf
  rw [hf]
  exact ⟨a, b, c⟩

/-- **One merged callback log: where the whitespace callbacks stand among the others** (review rA, B / L1).  The two projections
    `C15_structOf` / `C15_wsOf` of the other layout theorems lose the interleaving; this statement keeps it.  For token sequences that
    differ only in layout, every program, both modes, there is ONE sequence `sc` of scans of next_token — (skip depth at that moment,
    token of the first run, token of the second), newest first — such that the two complete callback logs (newest first) are built
    by the same sequence of steps (`LogRel`): either the same non-whitespace callback is put on both logs, or a scan puts the layout
    callbacks `segEvents d t.pre` of the token scanned on the first log and `segEvents d t'.pre` of the corresponding token on the
    second, AT THE SAME PLACE between the other callbacks; the tokens scanned are, in order, a prefix of the two sequences.  So the
    whitespace and comments in front of `data_b` are reported before block_start of `b` in one layout iff they are in every layout
    (in particular iff the layout-free position of the scan is before it), a comment inside a skipped frame before its frame_end,
    and so on.  For a program that never skips every scan has depth ≤ 0 (all whitespace runs and comments are reported). -/
theorem C15_layout_interleaving (p : Prog) (storing : Bool) (toks toks' : List Tok) (h : SkelL toks toks') :
    ∃ (sc : List (Int × Tok × Tok)) (rest rest' : List Tok),
      LogRel sc (parseCB p storing toks).1.reverse (parseCB p storing toks').1.reverse
      ∧ toks = sc.reverse.map (·.2.1) ++ rest ∧ toks' = sc.reverse.map (·.2.2) ++ rest'
      ∧ (NoSkipP p → ∀ x ∈ sc, x.1 ≤ 0) := by
  have hf : fuelFor toks' = fuelFor toks := by unfold fuelFor; rw [h.length]
  obtain ⟨_, r2, _⟩ := cif_rel (p := p) 1 storing (fuelFor toks) (Rel.init p h)
  obtain ⟨sc, g1, g2, g3, g4⟩ := r2.ghost
  refine ⟨sc, _, _, ?_, g2, g3, fun hp => (g4 hp).2⟩
  unfold parseCB
  rw [hf]
  simpa using g1

/-- … in particular everything but the whitespace callbacks is what the parse of the layout-free sequence gives; that parse makes no
    whitespace callback at all -/
theorem C15_layout_free (p : Prog) (storing : Bool) (toks : List Tok) :
    (parseCB p storing toks).2.1 = (parseCB p storing (C15_strip toks)).2.1
    ∧ (parseCB p storing toks).2.2 = (parseCB p storing (C15_strip toks)).2.2
    ∧ C15_structOf (parseCB p storing toks).1 = (parseCB p storing (C15_strip toks)).1 := by
  obtain ⟨a, b, c⟩ := C15_layout_independent p storing toks (C15_strip toks) (C15_strip_skel toks)
  refine ⟨a.symm, b.symm, ?_⟩
  rw [← c]
  -- the stripped run has no whitespace callback
  have hf : fuelFor (C15_strip toks) = fuelFor toks := by unfold fuelFor; rw [(C15_strip_skel toks).length]
  obtain ⟨_, _, _, marks, _, _, h2, _⟩ := cif_layout p 1 storing (fuelFor toks) (C15_strip_skel toks)
  have hnil : ∀ (ms : List Int) (ts : List Tok), (List.zipWith segEvents ms ((C15_strip ts).map (·.pre))).flatten = [] := by
    intro ms ts
    induction ts generalizing ms with
    | nil => simp [C15_strip]
    | cons t r ih =>
      cases ms with
      | nil => simp
      | cons m ms =>
        have := ih ms
        simp only [C15_strip, List.map_cons, List.map_map, List.zipWith_cons_cons, List.flatten_cons] at this ⊢
        rw [this]; rfl
  rw [hnil] at h2
  unfold C15_structOf parseCB
  rw [hf]
  dsimp only
  have hall : ∀ e ∈ (parseCif p 1 storing (fuelFor toks) (St.init (C15_strip toks))).2.1.log.reverse, (!isWsEv e) = true := by
    intro e he
    cases hw : isWsEv e with
    | false => rfl
    | true =>
      have : e ∈ (parseCif p 1 storing (fuelFor toks) (St.init (C15_strip toks))).2.1.log.reverse.filter isWsEv :=
        List.mem_filter.mpr ⟨he, hw⟩
      rw [h2] at this
      cases this
  exact List.filter_eq_self.mpr hall

/-- **The whitespace callbacks follow the layout.**  For all token sequences that differ only in layout, every program, both modes:
    there is ONE list `marks` of depths — one for each token next_token scanned, which are a prefix of the sequence (each once, in
    order) — such that the whitespace callbacks of either parse are `segEvents mark pre` of its own tokens, concatenated in order:
    every comment, and every whitespace run unless the token was scanned while something was being skipped (mark > 0).  So the same
    tokens are inside skipped regions whatever the layout.  If the program never answers SKIP_CURRENT / SKIP_SIBLINGS no mark is
    positive: every whitespace run of every scanned token is reported. -/
theorem C15_layout_callbacks (p : Prog) (storing : Bool) (toks toks' : List Tok) (h : SkelL toks toks') :
    ∃ marks : List Int, marks.length ≤ toks.length
      ∧ C15_wsOf (parseCB p storing toks).1 = (List.zipWith segEvents marks (toks.map (·.pre))).flatten
      ∧ C15_wsOf (parseCB p storing toks').1 = (List.zipWith segEvents marks (toks'.map (·.pre))).flatten
      ∧ (NoSkipP p → ∀ d ∈ marks, d ≤ 0) := by
  have hf : fuelFor toks' = fuelFor toks := by unfold fuelFor; rw [h.length]
  obtain ⟨_, _, _, marks, m1, m2, m3, m4⟩ := cif_layout p 1 storing (fuelFor toks) h
  refine ⟨marks, by omega, ?_, ?_, m4⟩
  · unfold parseCB C15_wsOf; exact m2
  · unfold parseCB C15_wsOf; rw [hf]; exact m3

/-- **Layout independence and layout callbacks with the duplicate diagnostics** (model `parseCBD`: DUP_* diagnostics, accepting error
    callback): the statements of `C15_layout_independent` and `C15_layout_callbacks` for ALL token sequences — also those of documents
    with repeated block codes, frame codes and data names —, all programs, both modes.  The error callbacks are among the callbacks
    that do not depend on layout. -/
theorem C15_dup_layout (p : Prog) (norm : Str → Str) (storing : Bool) (toks toks' : List Tok) (h : SkelL toks toks') :
    (parseCBD p norm storing toks').2.1 = (parseCBD p norm storing toks).2.1
    ∧ (parseCBD p norm storing toks').2.2 = (parseCBD p norm storing toks).2.2
    ∧ C15_structOf (parseCBD p norm storing toks').1 = C15_structOf (parseCBD p norm storing toks).1
    ∧ ∃ marks : List Int, marks.length ≤ toks.length
      ∧ C15_wsOf (parseCBD p norm storing toks).1 = (List.zipWith segEvents marks (toks.map (·.pre))).flatten
      ∧ C15_wsOf (parseCBD p norm storing toks').1 = (List.zipWith segEvents marks (toks'.map (·.pre))).flatten
      ∧ (NoSkipP p → ∀ d ∈ marks, d ≤ 0) := by
  have hf : fuelFor toks' = fuelFor toks := by unfold fuelFor; rw [h.length]
  obtain ⟨a, b, c, marks, m1, m2, m3, m4⟩ := cifD_layout p norm 1 storing (fuelFor toks) h
  unfold parseCBD C15_structOf C15_wsOf
  rw [hf]
  exact ⟨a, b, c, marks, by omega, m2, m3, m4⟩

/-- **Whole documents.**  For every well-formed document `d`, any layout `lay` in front of its tokens (one entry per token of
    `tokensOf d`, the last one in front of the end of input), every program that never stops the parse (only CONTINUE / SKIP_*) and both
    modes: EVERY token is scanned — there is a depth for every token, the whitespace callbacks are `segEvents depth layout` of all
    tokens in order: all comments of the document, and the whitespace runs of the tokens outside skipped regions. -/
theorem C15_layout_callbacks_doc (p : Prog) (hp : NoStop p) (storing : Bool) (d : Doc) (hw : wfDoc d = true) (lay : List (List Seg))
    (hl : lay.length = (tokensOf d).length) :
    ∃ marks : List Int, marks.length = lay.length
      ∧ C15_wsOf (parseCB p storing (C15_withLayout lay (tokensOf d))).1 = (List.zipWith segEvents marks lay).flatten
      ∧ (NoSkipP p → ∀ x ∈ marks, x ≤ 0) := by
  have hsk := C15_withLayout_skel lay (tokensOf d)
  have hf : fuelFor (C15_withLayout lay (tokensOf d)) = fuelFor (tokensOf d) := by unfold fuelFor; rw [hsk.length]
  obtain ⟨_, _, _, marks, m1, _, m3, m4⟩ := cif_layout p 1 storing (fuelFor (tokensOf d)) hsk
  -- the layout-free parse ends with the END token scanned and nothing else left
  have hfin : pend (parseCif p 1 storing (fuelFor (tokensOf d)) (St.init (tokensOf d))).2.1 = [] := by
    have hinit : St.init (tokensOf d) = atb (St.init []) (blocksToks d ++ [plain .end_ []]) false := rfl
    have hne : p (St.init []).n (.cifStart storing) ≠ END := by
      rcases hp (St.init []).n (.cifStart storing) with h | h | h <;> rw [h] <;> decide
    unfold parseCif
    rw [hinit]
    simp only [atb_n, hne, if_false, site_atb, site_ok p hp, if_true]
    rw [blocks_doc p hp storing d _ false [] (fuelFor (tokensOf d)) hw (fuelFor_enough d)]
    unfold cifEndStep
    simp only [if_true, dec_atb, push_atb]
    rfl
  have hpre : ∀ (lay : List (List Seg)) (toks : List Tok), lay.length = toks.length → (C15_withLayout lay toks).map (·.pre) = lay := by
    intro lay toks
    induction toks generalizing lay with
    | nil => intro h; cases lay with
      | nil => rfl
      | cons _ _ => simp at h
    | cons t r ih =>
      intro h
      cases lay with
      | nil => simp at h
      | cons a lay => simp only [C15_withLayout, List.map_cons]; rw [ih lay (by simpa using h)]
  rw [hfin] at m1
  refine ⟨marks, by simp at m1; omega, ?_, m4⟩
  unfold parseCB C15_wsOf
  rw [hf, m3, hpre lay _ hl]

/-- **All continue: the whitespace callbacks are the layout of the document, in order** — every whitespace run and every comment in
    front of every token and in front of the end of input, each once — and (`C15_layout_all_continue_mirror`) everything else is the
    layout-free mirror theorem. -/
theorem C15_layout_all_continue (storing : Bool) (d : Doc) (hw : wfDoc d = true) (lay : List (List Seg))
    (hl : lay.length = (tokensOf d).length) :
    C15_wsOf (parseCB allContP storing (C15_withLayout lay (tokensOf d))).1 = C15_layoutEvents lay := by
  obtain ⟨marks, h1, h2, h3⟩ := C15_layout_callbacks_doc allContP allContP_noStop storing d hw lay hl
  rw [h2]
  exact zipWith_segEvents_nonpos marks lay (h3 (fun k e => by unfold allContP CONTINUE SKIP_CURRENT SKIP_SIBLINGS; omega)) h1

-- the callbacks a document owes contain no whitespace callback

/-- **The mirror theorem for documents WITH layout**: for every well-formed duplicate-free document, ANY layout in front of its
    tokens (`SkelL`), all-continue handlers and a target CIF: the handler, data-name and keyword callbacks are `docEvents true d` in
    document order, the result is CIF_OK and the stored CIF is `denote d`. -/
theorem C15_layout_all_continue_mirror (norm : Str → Str) (d : Doc) (hwn : wfDocN norm d = true) (toks : List Tok)
    (h : SkelL (tokensOf d) toks) :
    C15_structOf (parseCB allContP true toks).1 = docEvents true d ∧ (parseCB allContP true toks).2.1 = OK
    ∧ (parseCB allContP true toks).2.2 = denote d := by
  obtain ⟨a, b, c⟩ := C15_layout_independent allContP true (tokensOf d) toks h
  rw [a, b, c, C15_all_continue_mirror_parseCB norm d hwn]
  exact ⟨C15_docEvents_nows true d, rfl, rfl⟩

/-- **Skips, END and error codes with layout**: for every well-formed duplicate-free document, any layout and EVERY handler program: the
    stored CIF is `denote (cutDoc p true d).kept`, the return value `cutResult …` (as `C15_stop_semantics_store`), and the handler,
    data-name and keyword callbacks are a sublist of `docEvents` in document order (as `C15_events_sublist`). -/
theorem C15_layout_stop_semantics (p : Prog) (norm : Str → Str) (d : Doc) (hwn : wfDocN norm d = true) (toks : List Tok)
    (h : SkelL (tokensOf d) toks) :
    (parseCB p true toks).2.2 = denote (cutDoc p true d).kept
    ∧ (parseCB p true toks).2.1 = cutResult p true (cutDoc p true d)
    ∧ (C15_structOf (parseCB p true toks).1).Sublist (docEvents true d) := by
  obtain ⟨a, b, c⟩ := C15_layout_independent p true (tokensOf d) toks h
  obtain ⟨s1, s2⟩ := C15_stop_semantics_store p norm d hwn
  rw [a, b, c]
  exact ⟨s1, s2, (List.filter_sublist).trans (C15_events_sublist p true norm d hwn)⟩

-- ---- in the terms of the printer of Spec/Grammar.lean (C01) -------------------------------------------------------------------

/-- **Rendered documents** (the printer of Spec/Grammar.lean, whose output the scanner turns back into the document's tokens:
    `C01_feeds`).  For every Grammar document `g` whose C15 reading is well-formed and every layout `l`, with handlers that always
    continue, in both modes: the characters delivered to the whitespace callback, concatenated over the whole parse, are the
    separators of the printed text `render g l` — `l 0`, `l 1`, …, one after the other, up to the last one in front of the end of
    input: every blank, line end and comment, nothing else, nothing twice.
    (`hlen`: the printer's token pieces and the tokens of the document correspond one to one — true unless a table repeats a key, in
    which case the decoded value has fewer entries than the text.) -/
theorem C15_layout_rendered (dia : Dialect) (nk : Str → Str) (g : Spec.Grammar.Doc) (l : Spec.Grammar.Layout) (storing : Bool)
    (hw : wfDoc (ofDoc dia nk g) = true)
    (hlen : (C15_presOf l 0 [] (Spec.Grammar.docPieces g)).length = (tokensOf (ofDoc dia nk g)).length) :
    C15_wsText (parseCB allContP storing (C15_rendered dia nk g l)).1
      = ((List.range (C15_sepCount (Spec.Grammar.docPieces g))).map (fun k => Spec.Lexical.renderWs (l k))).flatten := by
  rw [← C15_wsText_wsOf]
  unfold C15_rendered
  rw [C15_layout_all_continue storing (ofDoc dia nk g) hw _ (by simpa using hlen), C15_wsText_layout, C15_presOf_flatten]
  simp [Spec.Lexical.renderWs, List.range_eq_range']

-- ---- non-vacuity / sanity ---------------------------------------------------------------------------------------------------

/-- a layout for the 21 tokens of `C15_demo` (20 + end of input): a magic-code comment, blanks, line ends, comments between tokens, a
    trailing comment in front of the end of input -/
def C15_demoLayout : List (List Seg) :=
  (List.range 21).map fun k =>
    if k = 0 then [.comment (a!"#\\#CIF_2.0"), .ws [10]]
    else if k = 20 then [.ws [32], .comment (a!"# end")]
    else if k % 4 = 1 then [.ws [32], .comment (a!"#c"), .ws [10, 32]]
    else [.ws [32]]
def C15_demoToks : List Tok := C15_withLayout C15_demoLayout (tokensOf C15_demo)

-- the hypotheses of the document-level theorems hold: 21 tokens, 21 layouts, same skeleton
example : (tokensOf C15_demo).length = 21 ∧ C15_demoLayout.length = (tokensOf C15_demo).length ∧ wfDoc C15_demo = true := by decide +kernel
example : SkelL (tokensOf C15_demo) C15_demoToks := C15_withLayout_skel _ _
-- the merged-log statement applied to the demo document and its layout, under a program that skips
example := C15_layout_interleaving (fun k _ => if k = 3 then -1 else 0) true (tokensOf C15_demo) C15_demoToks (C15_withLayout_skel _ _)
-- all continue: 33 whitespace callbacks — every whitespace run and every comment
example : (C15_wsOf (parseCB allContP true C15_demoToks).1).length = (C15_layoutEvents C15_demoLayout).length
    ∧ (C15_layoutEvents C15_demoLayout).length = 33 := by decide +kernel
-- frame_start (handler invocation 3) answers SKIP_CURRENT: all 7 comments are still delivered, the whitespace runs inside the frame are not
example : ((C15_wsOf (parseCB (fun k _ => if k = 3 then -1 else 0) true C15_demoToks).1).filter
      (fun e => match e with | .ws (35 :: _) => true | _ => false)).length = 7
    ∧ (C15_wsOf (parseCB (fun k _ => if k = 3 then -1 else 0) true C15_demoToks).1).length = 22 := by decide +kernel
-- … and the handler / data-name / keyword callbacks, the result and the store are those of the layout-free parse (instance of
-- C15_layout_free, kernel-evaluated on the lengths)
example : (C15_structOf (parseCB (fun k _ => if k = 3 then -1 else 0) true C15_demoToks).1).length
    = (parseCB (fun k _ => if k = 3 then -1 else 0) true (tokensOf C15_demo)).1.length := by decide +kernel
-- a program that never skips (END at invocation 5)
example : NoSkipP (fun k _ => if k = 5 then END else 0) := fun k e => by
  by_cases h : k = 5 <;> simp [h, END, SKIP_CURRENT, SKIP_SIBLINGS]

/-- a Grammar document: a list with a table inside, a save frame with a loop, quoted and bare strings -/
def C15_gdoc : Spec.Grammar.Doc :=
  [{ code := a!"b", body := [
      .plain (.item (a!"_x") (.lst [.str (a!"v") .bare, .tbl [(a!"k", .squote, .na)]])),
      .frame (a!"f") [.plain (.loop [a!"_a"] [[.unk], [.str (a!"t u") .dquote]])]] }]
/-- a layout: the magic code, then blanks, comments and line ends -/
def C15_glayout : Spec.Grammar.Layout := fun k =>
  if k = 0 then [.comment (a!"\\#CIF_2.0"), .eol] else if k % 3 = 1 then [.blank 32, .comment (a!"c"), .eol] else [.eol]
-- the hypotheses of C15_layout_rendered hold (16 tokens, 15 separators: the value behind the key has none)
example : wfDoc (ofDoc .cif2 id C15_gdoc) = true
    ∧ (C15_presOf C15_glayout 0 [] (Spec.Grammar.docPieces C15_gdoc)).length = (tokensOf (ofDoc .cif2 id C15_gdoc)).length
    ∧ (tokensOf (ofDoc .cif2 id C15_gdoc)).length = 16 ∧ C15_sepCount (Spec.Grammar.docPieces C15_gdoc) = 15 := by decide +kernel
-- the separators are the printed text minus the tokens: same number of characters
example : (Spec.Grammar.render C15_gdoc C15_glayout).length
    = (((List.range 15).map (fun k => Spec.Lexical.renderWs (C15_glayout k))).flatten).length
      + ((Spec.Grammar.docPieces C15_gdoc).map (fun pc => match pc with | .tok cs => cs.length | _ => 0)).sum := by decide +kernel

end CifModel
