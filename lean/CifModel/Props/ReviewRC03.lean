import CifModel.Props.C03Store
/-
  Review rA, property C03 (group gO: rectangular packets, parser → store).  Instances that APPLY the theorems of Props/C03.lean and
  Props/C03Store.lean to concrete data (a NON-EMPTY pre-existing target, a policy that ABORTS in the middle of a loop body), and
  small examples that exhibit the findings of notes/review/rA-parts/C03.md:

    (F1) `SOp.docOk` and the `…_calls_documented` conclusions are vacuous for a call whose container path does not resolve;
    (F3) an aborted parse ends `OkCif ∧ RectCif` with a loop WITHOUT packets (cif_walk then answers CIF_EMPTY_LOOP).
-/
namespace CifModel.ReviewRC03
open CifModel Model Model.Parser Model.Lexer

/-! ### data -/

/-- a pre-existing target: block `a` with the scalar `_x`, a loop `_b _c` with two packets, and a save frame `f` holding `_y` -/
def pre : Cif :=
  [.mk (a!"a") [.mk (a!"f") [] [{ category := some [], names := [a!"_y"], packets := [[.na]] }]]
    [{ category := some [], names := [a!"_x"], packets := [[.unk]] },
     { category := none, names := [a!"_b", a!"_c"], packets := [[.unk, .na], [.na, .unk]] }]]

/-- accepts the first two reports, answers the third with a value that is no error code -/
def pol2 : Policy := fun i _ => if i = 2 then 7777 else 0

/-- re-opens block `a` (CIF_DUP_BLOCKCODE), a loop header with a name `_B` that is already defined (CIF_DUP_ITEMNAME, column dropped),
    then a stray `]` BEFORE the first packet is complete: CIF_UNEXPECTED_DELIM is the third report -/
def docA : Str := a!"data_A loop_ _d _B ] 1 2"
/-- the same with an item and one complete packet before the `]` -/
def docB : Str := a!"data_A _z 1 loop_ _d _B 1 2 ] 3"

def shape (c : Cif) : List (List (Nat × List Nat)) :=
  c.map fun c => c.loops.map fun l => (l.names.length, l.packets.map List.length)

def tag : SOp → Nat × Nat
  | .mkBlock c _ => (0, c.length) | .mkFrame _ c _ => (1, c.length) | .setVal _ n _ => (2, n.length)
  | .mkLoop _ ns => (3, ns.length) | .addPkt _ vs => (4, vs.length) | .prune _ => (5, 0)

theorem pre_ok : OkCif C03.opts2 pre := by
  rw [C03_consistent_iff]
  refine ⟨by decide, ?_⟩
  intro c hc
  simp only [pre, List.mem_singleton] at hc
  subst hc
  rw [C03_consistent_container]
  refine ⟨⟨by decide, by decide, ?_⟩, by decide, ?_⟩
  · intro l hl hs
    simp only [List.mem_cons, List.mem_nil_iff, or_false] at hl
    rcases hl with rfl | rfl
    · decide
    · exact absurd hs (by decide)
  · intro c hc
    simp only [List.mem_singleton] at hc
    subst hc
    rw [C03_consistent_container]
    refine ⟨⟨by decide, by decide, ?_⟩, by decide, by intro c hc; cases hc⟩
    intro l hl _
    simp only [List.mem_singleton] at hl
    subst hl; decide

theorem pre_rect : RectCif pre := by
  simp [pre, RectCif, RectCs, RectC, LoopsRect, LoopRect]

/-! ### the headline theorems applied: non-empty pre-existing target, parse aborted by a callback answer inside a loop body -/

/-- `C03_packets_rectangular` with the non-empty target and the aborting policy, every input.  (Stated for a variable input: a CLOSED
    statement `RectCif (parse … docA).cif` makes the elaborator evaluate the whole parse by `whnf` — `RectCs` recurses structurally on the
    CIF — and runs out of heartbeats; the closed instances below go through `OkR` / `∧`, whose head does not reduce.) -/
example (u : Str) : RectCif (parse C03.opts2 pol2 pre u).cif := C03_packets_rectangular C03.opts2 pol2 pre u pre_ok pre_rect

example : OkCif C03.opts2 (parse C03.opts2 pol2 pre docA).cif ∧ (RectCif pre → RectCif (parse C03.opts2 pol2 pre docA).cif) :=
  C03_consistent_after C03.opts2 pol2 pre docA pre_ok

example : OkR C03.opts2 (parse C03.opts2 pol2 pre docA).cif := parse_okR C03.opts2 pol2 pre docA ⟨pre_ok, pre_rect⟩

example : OkCif C03.opts2 (parse C03.opts2 pol2 pre docB).cif ∧ RectCif (parse C03.opts2 pol2 pre docB).cif :=
  parse_okR C03.opts2 pol2 pre docB ⟨pre_ok, pre_rect⟩

set_option maxRecDepth 100000 in
/-- what these parses are (kernel): three reports (11 CIF_DUP_BLOCKCODE, 41 CIF_DUP_ITEMNAME, 135 CIF_UNEXPECTED_DELIM), return value = the
    callback's 7777.  **(F3)** after `docA` the target is consistent and rectangular (examples above) and block `a` holds, behind the
    two pre-existing loops, a loop of one name with NO packet: `cif_container_prune` is skipped on the abort path (parser.c:1267), and
    `cif_walk` / `cif_write` of this CIF answer CIF_EMPTY_LOOP.  "consistent" (`OkCif`) does not exclude it. -/
example :
    (parse C03.opts2 pol2 pre docA).rc = 7777 ∧
    (parse C03.opts2 pol2 pre docA).log.map (·.code) = [11, 41, 135] ∧
    shape (parse C03.opts2 pol2 pre docA).cif = [[(1, [1]), (2, [2, 2]), (1, [])]] ∧
    (parse C03.opts2 pol2 pre docB).rc = 7777 ∧
    shape (parse C03.opts2 pol2 pre docB).cif = [[(2, [2]), (2, [2, 2]), (1, [1])]] := by decide +kernel

set_option maxRecDepth 100000 in
/-- **(F3)** the same from a NEW target under the default abort-on-error handler: `data_a loop_ _b ]` ends with code 135 and a
    packet-less loop; `C03_consistent_after_fresh` holds of it.  Under the all-accepting callback the loop is pruned. -/
example :
    (parse C03.opts2 dieAll [] (a!"data_a loop_ _b ]")).rc = 135 ∧
    shape (parse C03.opts2 dieAll [] (a!"data_a loop_ _b ]")).cif = [[(1, [])]] ∧
    shape (parse C03.opts2 acceptAll [] (a!"data_a loop_ _b ]")).cif = [[]] ∧
    (parse C03.opts2 acceptAll [] (a!"data_a loop_ _b ]")).log.map (·.code) = [135, 36] := by decide +kernel

example : OkCif C03.opts2 (parse C03.opts2 dieAll [] (a!"data_a loop_ _b ]")).cif ∧
    RectCif (parse C03.opts2 dieAll [] (a!"data_a loop_ _b ]")).cif := C03_consistent_after_fresh C03.opts2 dieAll (a!"data_a loop_ _b ]")

/-! ### `C03_parser_trace` and the per-call theorems on the aborted parse of `docB` into `pre` -/

example : (parse C03.opts2 pol2 pre docB).cif
    = (storeTrace C03.opts2 pol2 pre docB).foldl (fun c op => op.apply C03.opts2 c) pre := (C03_parser_trace C03.opts2 pol2 pre docB).2.1

example : (parseT C03.opts2 pol2 pre docB).out = parse C03.opts2 pol2 pre docB := (C03_parser_trace C03.opts2 pol2 pre docB).1

set_option maxRecDepth 100000 in
/-- the recorded calls: set_value `_z`, create_loop of ONE name (`_B` dropped), one add_packet of one value; no prune (aborted), no
    create_block (the block existed) -/
example : (storeTrace C03.opts2 pol2 pre docB).map tag = [(2, 2), (3, 1), (4, 1)] ∧
    (storeTrace C03.opts2 pol2 pre docA).map tag = [(3, 1)] := by decide +kernel

/-- after each of the three calls the target is consistent and rectangular -/
example (k : Nat) : OkCif C03.opts2 (((storeTrace C03.opts2 pol2 pre docB).take k).foldl (fun c op => op.apply C03.opts2 c) pre) :=
  (C03_consistent_after_every_call C03.opts2 pol2 pre docB pre_ok pre_rect k).1

theorem isSetVal_elim (x : Option SOp) (h : (match x with | some (.setVal ..) => true | _ => false) = true) :
    ∃ p n v, x = some (.setVal p n v) := by
  cases x with
  | none => cases h
  | some op => cases op <;> first | exact ⟨_, _, _, rfl⟩ | cases h

theorem isAddPkt_elim (x : Option SOp) (h : (match x with | some (.addPkt ..) => true | _ => false) = true) :
    ∃ p vs, x = some (.addPkt p vs) := by
  cases x with
  | none => cases h
  | some op => cases op <;> first | exact ⟨_, _, rfl⟩ | cases h

set_option maxRecDepth 100000 in
/-- `C03_set_value_calls_documented` at call 0: the step is the documented `specSetValue` at the path -/
example : ∃ path n v, (storeTrace C03.opts2 pol2 pre docB)[0]? = some (.setVal path n v) ∧
    ((storeTrace C03.opts2 pol2 pre docB).take 1).foldl (fun c op => op.apply C03.opts2 c) pre =
      updIn C03.lower (fun c => c.specSetValue C03.lower (C03.lower n) n v) path
        (((storeTrace C03.opts2 pol2 pre docB).take 0).foldl (fun c op => op.apply C03.opts2 c) pre) := by
  obtain ⟨p, n, v, h⟩ := isSetVal_elim ((storeTrace C03.opts2 pol2 pre docB)[0]?) (by decide +kernel)
  exact ⟨p, n, v, h, C03_set_value_calls_documented C03.opts2 pol2 pre docB pre_ok pre_rect 0 p n v h⟩

set_option maxRecDepth 100000 in
/-- `C03_add_packet_calls_documented` at call 2.  Its conclusion is `∀ cc, getIn … = some cc → …`; that the guard is MET here has to be
    evaluated separately (last conjunct) — no theorem provides it (finding F1). -/
example : ∃ path vals, (storeTrace C03.opts2 pol2 pre docB)[2]? = some (.addPkt path vals) ∧
    (∀ cc, getIn C03.lower path (((storeTrace C03.opts2 pol2 pre docB).take 2).foldl (fun c op => op.apply C03.opts2 c) pre) = some cc →
      ∃ ls0 l, cc.loops = ls0 ++ [l] ∧
        Loop.specAddPacket C03.lower l ((l.names.map C03.lower).zip vals) = .ok { l with packets := l.packets ++ [vals] } ∧
        addPacketLast cc.loops vals = ls0 ++ [{ l with packets := l.packets ++ [vals] }]) := by
  obtain ⟨p, vs, h⟩ := isAddPkt_elim ((storeTrace C03.opts2 pol2 pre docB)[2]?) (by decide +kernel)
  exact ⟨p, vs, h, C03_add_packet_calls_documented C03.opts2 pol2 pre docB pre_ok pre_rect 2 p vs h⟩

set_option maxRecDepth 100000 in
/-- in this instance every recorded call does address an existing container (evaluated, not proved in general) -/
example :
    ((storeTrace C03.opts2 pol2 pre docB).map fun
      | .setVal p .. | .mkLoop p _ | .addPkt p _ | .prune p | .mkFrame p .. => (getIn C03.lower p pre).isSome
      | .mkBlock .. => true) = [true, true, true] := by decide +kernel

/-! ### (F1) the guard `getIn … = some cc`: for a call on a container that does not exist the "documented premises" hold trivially -/

/-- an add_packet of three values to the loop of a container `zz` of the EMPTY CIF "meets the documented premises" -/
example : SOp.docOk C03.opts2 (.addPkt [a!"zz"] [.unk, .unk, .unk]) [] :=
  ⟨by simp, fun cc h => by simp [getIn] at h⟩

/-- a create_loop there too, even with a name list that repeats a name -/
example : SOp.docOk C03.opts2 (.mkLoop [a!"zz"] [a!"_q", a!"_q"]) [] :=
  ⟨by simp, by decide, fun cc h => by simp [getIn] at h⟩   -- (gX: `docOk` now also says the names are valid)

/-- a create_frame below a parent that does not exist: `getD []` makes every code "not in use" -/
example : SOp.docOk C03.opts2 (.mkFrame [a!"zz"] (a!"f") false) [] :=
  ⟨Or.inr (by decide), by simp [getIn]⟩   -- (gX: `docOk` now also says the code is valid unless the creation is lenient)

/-- and the model's effect of all three is: nothing -/
example : (SOp.addPkt [a!"zz"] [.unk, .unk, .unk]).apply C03.opts2 [] = [] ∧
    (SOp.mkLoop [a!"zz"] [a!"_q", a!"_q"]).apply C03.opts2 [] = [] ∧
    (SOp.mkFrame [a!"zz"] (a!"f") false).apply C03.opts2 [] = [] ∧
    (SOp.setVal [a!"zz"] (a!"_q") .unk).apply C03.opts2 [] = [] := ⟨rfl, rfl, rfl, rfl⟩

/-- the shape of the conclusion of `C03_add_packet_calls_documented` / `C03_create_calls_documented` (frame arm) for such a call -/
example (Q : Container → Prop) : ∀ cc, getIn C03.lower [a!"zz"] [] = some cc → Q cc := fun cc h => by simp [getIn] at h

/-! ### `C03_store_ops_documented` (set_value) applied to block `a` of `pre`: an existing item of the two-packet loop, spelled `_C` -/

def blockA : Container := .mk (a!"a") []
    [{ category := some [], names := [a!"_x"], packets := [[.unk]] },
     { category := none, names := [a!"_b", a!"_c"], packets := [[.unk, .na], [.na, .unk]] }]

theorem blockA_ok : OkC C03.opts2 blockA ∧ RectC blockA := by
  refine ⟨?_, by simp [blockA, RectC, RectCs, LoopsRect, LoopRect]⟩
  unfold blockA
  rw [C03_consistent_container]
  refine ⟨⟨by decide, by decide, ?_⟩, by decide, by intro c hc; cases hc⟩
  intro l hl hs
  simp only [List.mem_cons, List.mem_nil_iff, or_false] at hl
  rcases hl with rfl | rfl
  · decide
  · exact absurd hs (by decide)

example : Parser.setValueC C03.opts2 (a!"_C") (.chr false (a!"v")) blockA
    = Container.specSetValue C03.lower blockA (C03.lower (a!"_C")) (a!"_C") (.chr false (a!"v")) :=
  (C03_store_ops_documented C03.opts2).1 (a!"_C") (.chr false (a!"v")) blockA blockA_ok.1 blockA_ok.2

/-- … and what that is: column `_c` of both packets of the second loop (kind codes: 0 = char, 4 = n/a, 5 = unknown) -/
example : (Container.specSetValue C03.lower blockA (C03.lower (a!"_C")) (a!"_C") (.chr false (a!"v"))).loops.map
      (fun l => l.packets.map (fun p => p.map V.kindCode)) = [[[5]], [[5, 0], [4, 0]]] := by decide +kernel

/-- a NEW item goes to the scalar loop, widening its packet -/
example : (Parser.setValueC C03.opts2 (a!"_new") .na blockA).loops.map
      (fun l => (l.names.length, l.packets.map (fun p => p.map V.kindCode))) = [(2, [[5, 4]]), (2, [[5, 4], [4, 5]])] := by decide +kernel

/-! ### `C03_store_step_mkBlock` / `C03_parser_store_refines_partial` (third conjunct): the hypotheses hold of the NEW store -/

example : ∃ h, (Store.createBlock {} (some (mkName C03.opts2 false (a!"a")))).2 = .ok h ∧
    Store.abs (Store.createBlock {} (some (mkName C03.opts2 false (a!"a")))).1.db = (SOp.mkBlock (a!"a") false).apply C03.opts2 [] :=
  C03_store_step_mkBlock C03.opts2 {} [] (a!"a") (by decide +kernel) rfl (fun _ h => nomatch h) Store.Inv.empty rfl (by decide +kernel)

example : ∃ h, (Store.createBlock {} (some (mkName C03.opts2 false (a!"a")))).2 = .ok h ∧
    Store.abs (Store.createBlock {} (some (mkName C03.opts2 false (a!"a")))).1.db = (SOp.mkBlock (a!"a") false).apply C03.opts2 [] :=
  (C03_parser_store_refines_partial C03.opts2 acceptAll [] []).2.2 {} [] (a!"a") (by decide +kernel) rfl (fun _ h => nomatch h)
    Store.Inv.empty rfl (by decide +kernel)

end CifModel.ReviewRC03
