import CifModel.Model.Dialect
namespace CifModel
example : Spec.Dialect.classify 5 = .low := by decide
end CifModel
