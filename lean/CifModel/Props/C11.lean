import CifModel.Lemmas.Dialect
import CifModel.Props.C12Scan
import CifModel.Props.C01
/-
  Property C11 — CIF version and character encoding are selected exactly as documented.

  Model: Model.Dialect (`stage1` = the cascade of cif_parse(), `stage2` = the start of cif_parse_internal()).
  Spec: Spec.DialectTable (written from cif.h).  The quantifier of the property — every prefer_cif2 : Int, every input
  header, both values of force_default_encoding, every default encoding — is covered by `C11_table`; the two places where
  the tree (before the repairs of findings G3 / G4) departs from the table are exhibited by decided counterexamples about
  the same model with the corresponding switch off.
-/
namespace CifModel
open Model.Dialect Spec.Dialect Gen

/-- **C11, the table**: for EVERY `prefer_cif2 : Int`, every header whose raw-byte appearance is consistent with its decoded
    text (the version comment is a whole 10-character token, readable in the raw bytes when there is no signature), both
    values of `force_default_encoding` and every default-encoding situation, the library selects exactly the documented
    encoding, version, CIF_WRONG_ENCODING report and byte-order-mark report — provided the cascade's last branch honours
    `default_encoding_name` (repair of G4) or no name was given, and the raw magic test accepts after the magic code
    everything the documentation allows there (`followersCover`: the end of the input, LF, CR, blank, tab).

    What `consistent h` says about the terminator of the version comment: when the first ten raw bytes are the CIF 2.0 magic
    code, the byte after them (`h.rawNext`) is absent or CIF whitespace — LF, CR (a CR LF terminator shows its CR there),
    blank or tab — and then, and only then, the decoded text shows a `#\#CIF_2.0` comment token (`h.decoded = .v2`).  Every
    one of these six terminators is a separate dimension of the exhaustive correspondence table. -/
theorem C11_table (prefer : Int) (force : Bool) (cfg : Cfg) (h : Header)
    (hc : consistent h) (ht : h.noText = false) (hcfg : cfg.fallbackNamed = true ∨ cfg.namedGiven = false)
    (hcov : followersCover cfg) :
    (select prefer force cfg h).encoding
        = (spec (classify prefer) h.decoded h.sig h.bomFirst force cfg.namedGiven cfg.namedIsUtf8 cfg.systemIsUtf8).encoding ∧
    (select prefer force cfg h).version
        = ((spec (classify prefer) h.decoded h.sig h.bomFirst force cfg.namedGiven cfg.namedIsUtf8 cfg.systemIsUtf8).version : Int) ∧
    (select prefer force cfg h).wrongEncoding
        = (spec (classify prefer) h.decoded h.sig h.bomFirst force cfg.namedGiven cfg.namedIsUtf8 cfg.systemIsUtf8).wrongEncoding ∧
    (select prefer force cfg h).bomDisallowed
        = (spec (classify prefer) h.decoded h.sig h.bomFirst force cfg.namedGiven cfg.namedIsUtf8 cfg.systemIsUtf8).bomDisallowed := by
  have hr := select_reports prefer force cfg h ht
  have key : (stage1c (classify prefer) force cfg h).1
        = specEncoding force h.sig (specVersion (classify prefer) h.decoded) cfg.namedGiven ∧
      (stage2 (stage1c (classify prefer) force cfg h).2 (notUtf8 cfg (stage1c (classify prefer) force cfg h).1) h).1
        = (specVersion (classify prefer) h.decoded : Int) := by
    by_cases hfs : force = true ∨ h.sig ≠ none
    · exact table_forced_or_sig _ force cfg h ht hfs
    · have hf : force = false := by cases force <;> simp_all
      have hs : h.sig = none := by
        cases hsig : h.sig with
        | none => rfl
        | some e => exact absurd (Or.inr (by simp [hsig])) hfs
      subst hf
      exact table_raw _ cfg h ht hs hc hcfg hcov
  have he : (select prefer force cfg h).encoding = specEncoding force h.sig (specVersion (classify prefer) h.decoded) cfg.namedGiven := by
    simp only [select]; rw [stage1_eq_stage1c]; exact key.1
  have hv : (select prefer force cfg h).version = (specVersion (classify prefer) h.decoded : Int) := by
    simp only [select]; rw [stage1_eq_stage1c]; exact key.2
  refine ⟨he, hv, ?_, ?_⟩
  · rw [hr.1, he, hv]; simp [spec]
    cases classify prefer <;> cases h.decoded <;> simp [specVersion]
  · rw [hr.2, hv]; simp [spec]
    cases classify prefer <;> cases h.decoded <;> simp [specVersion]

/-- the tree's cascade honours `default_encoding_name` in its last branch and tests the byte after the raw magic code
    (repairs of G4 / G3, /repo a4ae335 / c96f901), accepting there the end of the input and each of LF, CR, blank, tab;
    re-read from ciffile.c on every run -/
theorem C11_tree_link :
    ParseConsts.fallbackUsesNamedDefault = true ∧ ParseConsts.rawMagicChecksFollowingByte = true ∧
    (∀ n b s8, followersCover (treeCfg n b s8)) := by
  refine ⟨by decide, by decide, fun n b s8 => ?_⟩
  cases n <;> cases b <;> cases s8 <;> decide

/-- every terminator of the property's table is one the raw test must accept, and a non-blank is none -/
theorem C11_terminators :
    (∀ t : Terminator, commentEndsHere t.next = true) ∧ commentEndsHere (some 120) = false := by
  refine ⟨fun t => ?_, by decide⟩
  cases t <;> decide

/-- **C11, the table, for the tree as it is**: no hypothesis on the default encoding any more -/
theorem C11_table_tree (prefer : Int) (force : Bool) (namedGiven namedIsUtf8 systemIsUtf8 : Bool) (h : Header)
    (hc : consistent h) (ht : h.noText = false) :
    (select prefer force (treeCfg namedGiven namedIsUtf8 systemIsUtf8) h).encoding
        = (spec (classify prefer) h.decoded h.sig h.bomFirst force namedGiven namedIsUtf8 systemIsUtf8).encoding ∧
    (select prefer force (treeCfg namedGiven namedIsUtf8 systemIsUtf8) h).version
        = ((spec (classify prefer) h.decoded h.sig h.bomFirst force namedGiven namedIsUtf8 systemIsUtf8).version : Int) ∧
    (select prefer force (treeCfg namedGiven namedIsUtf8 systemIsUtf8) h).wrongEncoding
        = (spec (classify prefer) h.decoded h.sig h.bomFirst force namedGiven namedIsUtf8 systemIsUtf8).wrongEncoding ∧
    (select prefer force (treeCfg namedGiven namedIsUtf8 systemIsUtf8) h).bomDisallowed
        = (spec (classify prefer) h.decoded h.sig h.bomFirst force namedGiven namedIsUtf8 systemIsUtf8).bomDisallowed :=
  C11_table prefer force (treeCfg namedGiven namedIsUtf8 systemIsUtf8) h hc ht (Or.inl C11_tree_link.1)
    (C11_tree_link.2.2 namedGiven namedIsUtf8 systemIsUtf8)

/-- **C11, version only** (no hypothesis on the default encoding): the version is the documented one for every
    `prefer_cif2 : Int` -/
theorem C11_version (prefer : Int) (force : Bool) (cfg : Cfg) (h : Header) (hc : consistent h) (ht : h.noText = false)
    (hcov : followersCover cfg) :
    (select prefer force cfg h).version = (specVersion (classify prefer) h.decoded : Int) := by
  -- the version does not depend on which default the last branch names
  have h1 := (C11_table prefer force { cfg with fallbackNamed := true } h hc ht (Or.inl rfl) hcov).2.1
  have : (select prefer force cfg h).version = (select prefer force { cfg with fallbackNamed := true } h).version := by
    obtain ⟨sig, rs, r2, rn, r7, dec, bom, nt⟩ := h
    obtain ⟨ng, n8, s8, fb, mw, mf, me⟩ := cfg
    simp only [select, stage1, stage2, notUtf8, dflt, followerPass, followerOk]
    cases force <;> cases sig <;> simp <;> (repeat' split) <;> simp_all
  rw [this, h1]; simp [spec]

/-- **C11, CIF_WRONG_ENCODING**: whenever there is text to parse, CIF_WRONG_ENCODING is reported exactly when the version used
    is 2.0 and the converter in use is not UTF-8 — for every configuration, consistent or not -/
theorem C11_wrong_encoding (prefer : Int) (force : Bool) (cfg : Cfg) (h : Header) (ht : h.noText = false) :
    (select prefer force cfg h).wrongEncoding =
      ((select prefer force cfg h).version == 2 && (select prefer force cfg h).notUtf8) := by
  simp [select, stage2, ht]

/-- **C11, byte-order mark only first** — stated over the models that the correspondence families tie to parser.c (`Model.Parser`:
    `disallowedInitial` = get_first_char's acceptance test, family `parse`; `Model.Lexer`: `disallowedBmp` = SCAN_UCHAR's test,
    family `lex`), through the scanner theorems of property C12 (group gD):
    * U+FEFF as the very first character of the input raises no CIF_DISALLOWED_INITIAL_CHAR (`C12_disallowed_initial_char`);
    * U+FEFF at any other place is a disallowed character for SCAN_UCHAR in both dialects, and wherever a scanner function of
      the CIF 2.0 scanner meets it inside a token — quoted string, data name, whitespace-delimited value (`C12_defective_unit`), text
      field, triple-quoted string (`C12_defective_unit_multiline`) — exactly ONE CIF_DISALLOWED_CHAR is reported, at that place,
      and the unit is kept (`C12_disallowed_char`: `Defect1 .cif2 0xFEFF 0xFEFF …`);
    * the initial one is reported (CIF_DISALLOWED_CHAR) exactly when the input is parsed as CIF 1.1. -/
theorem C11_bom_only_first :
    Model.Parser.disallowedInitial 0xFEFF = false ∧
    (∀ dia, Model.Lexer.disallowedBmp dia 0xFEFF = true) ∧
    Model.Lexer.Defect1 .cif2 0xFEFF 0xFEFF (Model.Lexer.disReps .cif2 0xFEFF) ∧
    (∀ line col, Model.Lexer.disReps .cif2 0xFEFF line col = [(⟨Gen.ErrCodes.CIF_DISALLOWED_CHAR, line, col⟩ : Model.Lexer.Report)]) ∧
    (∀ (prefer : Int) (force : Bool) (cfg : Cfg) (h : Header), h.noText = false →
      (select prefer force cfg h).bomDisallowed = ((select prefer force cfg h).version == 1 && h.bomFirst)) := by
  have hd := C12_disallowed_char .cif2 0xFEFF (by decide)
  refine ⟨by decide, fun dia => by cases dia <;> decide, hd.1, fun line col => hd.2.2 rfl line col, fun prefer force cfg h ht => ?_⟩
  simp [select, stage2, ht]

/-! ### U+FEFF BETWEEN tokens (at a place where a token may begin), scanner level

  parser.c: next_token() reads the unit with NEXT_CHAR and dispatches on its class.  U+FEFF is above CHAR_TABLE_MAX: its class is
  C_GENERAL in the CIF 2.0 table and NO_CLASS after SET_V1, in both cases none of the classes with a case of their own, so the
  `default:` branch backs up and calls scan_unquoted(): the U+FEFF BEGINS A WHITESPACE-DELIMITED VALUE.  SCAN_UCHAR reports it
  there — CIF_DISALLOWED_CHAR once ("disallowed BMP character"), in CIF 1.1 mode a second time ("c > CIF1_MAX_CHAR") — and
  recovers by accepting the character: it stays in the value.  scan_ws() itself never looks at it (U+FEFF is not whitespace to
  the scanner: the run of whitespace ends in front of it).  Only get_first_char() treats U+FEFF specially. -/

private theorem bom_cls2 : Model.Chars.classOf .cif2 0xFEFF = .general := by decide
private theorem bom_cls1 : Model.Chars.classOf .cif1 0xFEFF = .no := by decide
private theorem bom_d : (Model.Chars.Cls.general == Model.Chars.Cls.d) = false := by decide
private theorem bom_s : (Model.Chars.Cls.general == Model.Chars.Cls.s) = false := by decide

open Model.Lexer Model.Chars Gen.ErrCodes in
/-- **C11, U+FEFF where a token may begin — what one iteration of next_token's loop does, for EVERY callback policy, both
    dialects, any input behind it, with or without whitespace in front** (`afterWs`): the CIF_MISSING_SPACE report of a token
    that follows another without whitespace (if so), then CIF_DISALLOWED_CHAR for the U+FEFF at its column — ONCE in CIF 2.0
    mode, TWICE in CIF 1.1 mode — and then scan_unquoted goes on behind the U+FEFF with the U+FEFF as the first character of the
    value (offset 1; in CIF 2.0 mode it has cleared the `data_` / `save_` keyword flags, in CIF 1.1 mode, where its class is
    NO_CLASS, it has not), followed by the reserved-word classification of that value.  Each report may end the scan: the
    equation is between scanner actions (functions of the policy and the log). -/
theorem C11_bom_token_start (dia : Dialect) (afterWs : Bool) (r : Str) (line col : Nat) :
    stepTok dia afterWs 0xFEFF r line col =
      (do reportIf (!afterWs) CIF_MISSING_SPACE line col
          report CIF_DISALLOWED_CHAR line (col + 1)
          reportIf (dia == .cif1) CIF_DISALLOWED_CHAR line (col + 1)
          let s ← scanUnquoted dia r line (col + 1) false [0xFEFF] 1 (dia == .cif1) (dia == .cif1)
          finishUnquoted dia afterWs s.acc.reverse s.pos) := by
  funext pol log
  cases dia <;> cases afterWs <;>
    simp [stepTok, scanUnquoted, scanUChar, bom_cls1, bom_cls2, metaOfCls, reportIf, isTrail, isLead, disallowedBmp, cif1MaxChar, fixAcc,
      dataCls, saveCls, bind, L.bind, pure, L.pure] <;>
    (repeat' split) <;> simp_all [bom_cls1, bom_cls2, bom_d, bom_s]

private theorem bom_not_reserved (s2 : Str) : Spec.Lexical.isReservedWord (0xFEFF :: s2) = false := by
  have h : Spec.Lexical.lowerAscii 0xFEFF = 0xFEFF := by decide
  simp [Spec.Lexical.isReservedWord, Spec.Lexical.startsWithCI, h]

private theorem bom_softBad (dia : Dialect) : Model.Lexer.softBad dia 0xFEFF = true := by cases dia <;> decide

private theorem bom_bareStart (dia : Dialect) (col : Nat) : Model.Lexer.bareStart dia 0xFEFF col = true := by
  cases dia <;> simp [Model.Lexer.bareStart, bom_cls1, bom_cls2]

open Model.Lexer Model.Chars Gen.ErrCodes Spec.Lexical in
/-- **C11, byte-order mark between tokens** — next_token called anywhere in the input (any line, any column, any previous token
    type `lt`), in front of ANY run `w` of whitespace and comments that brings the scanner to a place where a token may begin
    (the run is non-empty, or the previous token needs no whitespace behind it), then U+FEFF, then any characters `s2` of a
    whitespace-delimited value, then whitespace or the end of the input:
    * accept-all: the token is the VALUE `U+FEFF s2` (the mark is kept as the first character), the scanner stands behind it,
      and exactly the reports of `disReps` were made, all at the line and column of the U+FEFF — ONE CIF_DISALLOWED_CHAR in
      CIF 2.0 mode, TWO in CIF 1.1 mode (not a CIF character, and not ASCII);
    * `cif_parse_error_die`: the call ends with CIF_DISALLOWED_CHAR after that one report.
    Nothing is reported by scan_ws for it and it is not skipped: only the very first character of the input is treated as a
    byte-order mark (`C11_bom_only_first`: get_first_char / cif_parse_internal). -/
theorem C11_bom_between_tokens (dia : Dialect) (w : List WsAtom) (s2 ctx : Str) (line col : Nat) (lt : TokType) (log : List Report)
    (hok : ∀ a ∈ w, a.ok dia = true) (hfit : linesFit col (renderWs w) = true)
    (hfirst : afterWsOf lt = true ∨ ∀ b rest, w ≠ WsAtom.comment b :: rest)
    (hws : (afterWsOf lt || !w.isEmpty) = true)
    (h2 : nonBlankOk dia s2 = true)
    (hbr : dia = .cif2 → s2.all (fun x => !(x == 91 || x == 93 || x == 123 || x == 125)) = true)
    (hctx : wsOrEnd ctx = true) :
    let line' := (posAfter line col (renderWs w)).1
    let col' := (posAfter line col (renderWs w)).2
    nextToken dia ⟨renderWs w ++ 0xFEFF :: (s2 ++ ctx), line, col, lt⟩ acceptAll log
        = .ok (⟨.value, 0xFEFF :: s2, line', col' + 1 + colAdd s2⟩, ⟨ctx, line', col' + 1 + colAdd s2, .value⟩)
            (disReps dia 0xFEFF line' (col' + 1) ++ log)
    ∧ (dia = .cif2 → disReps dia 0xFEFF line' (col' + 1) = [⟨CIF_DISALLOWED_CHAR, line', col' + 1⟩])
    ∧ (dia = .cif1 → disReps dia 0xFEFF line' (col' + 1)
        = [⟨CIF_DISALLOWED_CHAR, line', col' + 1⟩, ⟨CIF_DISALLOWED_CHAR, line', col' + 1⟩])
    ∧ nextToken dia ⟨renderWs w ++ 0xFEFF :: (s2 ++ ctx), line, col, lt⟩ dieAll log
        = .abort CIF_DISALLOWED_CHAR (⟨CIF_DISALLOWED_CHAR, line', col' + 1⟩ :: log) := by
  intro line' col'
  have hD := (C12_disallowed_char dia 0xFEFF (bom_softBad dia)).1
  have hv := (C12_defective_unit dia 0xFEFF 0xFEFF (disReps dia 0xFEFF) hD [] s2 ctx line' col' .end_ log rfl).2.2
    (by simp [nonBlankOk, okUnits]) h2 (by simpa using hbr) (by simpa using bom_bareStart dia col') (by simpa using bom_not_reserved s2) hctx
  have hsep : ∀ pol, nextToken dia ⟨renderWs w ++ 0xFEFF :: (s2 ++ ctx), line, col, lt⟩ pol log
      = nextToken dia ⟨0xFEFF :: (s2 ++ ctx), line', col', .end_⟩ pol log :=
    fun pol => C01_lex_sep dia w _ line col lt .end_ pol log hok hfit hfirst (by rw [hws]; rfl)
  have h1 : disReps .cif2 0xFEFF line' (col' + 1) = [⟨CIF_DISALLOWED_CHAR, line', col' + 1⟩] := by
    simp [disReps, disallowedBmp]
  have h1' : disReps .cif1 0xFEFF line' (col' + 1)
      = [⟨CIF_DISALLOWED_CHAR, line', col' + 1⟩, ⟨CIF_DISALLOWED_CHAR, line', col' + 1⟩] := by
    simp [disReps, disallowedBmp, cif1MaxChar]
  have ha : nextToken dia ⟨0xFEFF :: (s2 ++ ctx), line', col', .end_⟩ acceptAll log
      = .ok (⟨.value, 0xFEFF :: s2, line', col' + 1 + colAdd s2⟩, ⟨ctx, line', col' + 1 + colAdd s2, .value⟩)
          (disReps dia 0xFEFF line' (col' + 1) ++ log) := by
    simpa [colAdd] using hv
  refine ⟨by rw [hsep]; exact ha, fun h => by subst h; exact h1, fun h => by subst h; exact h1', ?_⟩
  rw [hsep]
  cases dia with
  | cif2 =>
    rw [h1] at ha
    exact die_of_accept (d := []) (r := ⟨CIF_DISALLOWED_CHAR, line', col' + 1⟩) (nextToken_detl .cif2 _) (by simpa using ha)
  | cif1 =>
    rw [h1'] at ha
    exact die_of_accept (d := [⟨CIF_DISALLOWED_CHAR, line', col' + 1⟩]) (r := ⟨CIF_DISALLOWED_CHAR, line', col' + 1⟩)
      (nextToken_detl .cif1 _) (by simpa using ha)

open Model.Lexer Spec.Lexical in
/-- the hypotheses are satisfiable, and the instance evaluated by the kernel: `_a␠␠<U+FEFF>x␠_b` scanned from behind `_a`
    (line 3, column 2, previous token a data name): value `<U+FEFF>x`, one report (CIF 2.0) resp. two (CIF 1.1) at column 5 -/
example :
    nextToken .cif2 ⟨32 :: 32 :: 0xFEFF :: 120 :: 32 :: 95 :: 98 :: [], 3, 2, .name⟩ acceptAll []
      = .ok (⟨.value, [0xFEFF, 120], 3, 6⟩, ⟨[32, 95, 98], 3, 6, .value⟩) [⟨Gen.ErrCodes.CIF_DISALLOWED_CHAR, 3, 5⟩] :=
  (C11_bom_between_tokens .cif2 [.blank 32, .blank 32] [120] [32, 95, 98] 3 2 .name [] (by decide) (by decide)
    (Or.inr (by intro b rest h; cases h)) (by decide) (by decide) (by intro _; decide) (by decide)).1

open Model.Lexer Spec.Lexical in
example :
    nextToken .cif1 ⟨32 :: 0xFEFF :: 120 :: [], 1, 0, .name⟩ acceptAll []
      = .ok (⟨.value, [0xFEFF, 120], 1, 3⟩, ⟨[], 1, 3, .value⟩)
          [⟨Gen.ErrCodes.CIF_DISALLOWED_CHAR, 1, 2⟩, ⟨Gen.ErrCodes.CIF_DISALLOWED_CHAR, 1, 2⟩] :=
  (C11_bom_between_tokens .cif1 [.blank 32] [120] [] 1 0 .name [] (by decide) (by decide)
    (Or.inr (by intro b rest h; cases h)) (by decide) (by decide) (by intro h; cases h) (by decide)).1

/-- **C11, same text in any signature-announced encoding — what is proved**: two inputs that are both recognised by their Unicode
    signatures and whose DECODED texts begin alike (same version comment, same initial BOM, both non-empty or both empty) are
    parsed under the same CIF version and with the same report about the initial BOM; only CIF_WRONG_ENCODING may differ
    (`C11_wrong_encoding`).  The parser model being a function of (dialect, options, decoded units) (`Model.Parser.parse`), the
    content is then the same PROVIDED both byte sequences decode to the same code units — that is ICU's converter, which is not
    modelled (see PARTIAL; observed by family `dialect` on the property's table of encodings). -/
theorem C11_same_version_any_signature (prefer : Int) (cfg : Cfg) (h h' : Header) (e e' : Enc)
    (hs : h.sig = some e) (hs' : h'.sig = some e')
    (hd : h.decoded = h'.decoded) (hb : h.bomFirst = h'.bomFirst) (hn : h.noText = h'.noText) :
    (select prefer false cfg h).version = (select prefer false cfg h').version ∧
    (select prefer false cfg h).bomDisallowed = (select prefer false cfg h').bomDisallowed := by
  simp only [select, stage1, hs, hs', stage2, hd, hb, hn]
  cases h'.noText <;> simp

/-- finding G4 (tree before the repair): with the last branch passing NULL, a named default is not used although no signature
    was detected and CIF 1.1 was selected -/
theorem C11_cex_named_default_ignored :
    let h : Header := ⟨none, false, false, some 10, false, .none, false, false⟩
    (select 0 false ⟨true, false, true, false, false, [], false⟩ h).encoding = .system ∧
    (spec (classify 0) h.decoded h.sig h.bomFirst false true false true).encoding = .named ∧ consistent h := by decide

/-- finding G3 (tree before the repair): the raw magic test does not look at the byte after the magic code — `#\#CIF_2.0x`
    without signature and prefer_cif2 = 0 is taken for CIF 2.0, the same text with a signature for CIF 1.1 -/
theorem C11_cex_magic_not_token :
    let hNoSig : Header := ⟨none, false, true, some 120, true, .none, false, false⟩
    let hSig : Header := ⟨some .utf8, false, false, some 120, false, .none, true, false⟩
    (select 0 false ⟨false, true, true, true, false, [], false⟩ hNoSig).version = 2 ∧
    (select 0 false ⟨false, true, true, true, false, [], false⟩ hSig).version = 1 ∧
    (select 0 false ⟨false, true, true, true, true, [32, 9, 10, 13], true⟩ hNoSig).version = 1 := by decide

/-- a raw test that forgets one of the terminators (here CR: the first line of the file ends in CR or CR LF) departs from the
    table: a consistent CIF 2.0 header without signature is parsed as CIF 1.1 for prefer_cif2 = 0 -/
theorem C11_cex_terminator_forgotten :
    let h : Header := ⟨none, false, true, some 13, true, .v2, false, false⟩
    consistent h ∧
    (select 0 false ⟨false, true, true, true, true, [32, 9, 10], true⟩ h).version = 1 ∧
    (select 0 false ⟨false, true, true, true, true, [32, 9, 10, 13], true⟩ h).version = 2 ∧
    specVersion (classify 0) h.decoded = 2 := by decide

-- non-vacuity --------------------------------------------------------------------------------------------------------
-- consistent, non-empty headers of every kind exist, and the table is not constant
example : consistent ⟨none, false, true, some 13, true, .v2, false, false⟩ := by decide        -- magic code, then CR (LF)
example : consistent ⟨none, false, true, none, true, .v2, false, false⟩ := by decide           -- magic code, end of input
example : consistent ⟨none, false, false, some 10, true, .other, false, false⟩ := by decide
example : consistent ⟨some .utf16le, true, false, none, false, .none, true, false⟩ := by decide
example : ¬ consistent ⟨none, false, true, some 120, true, .none, false, false⟩ := by decide   -- `#\#CIF_2.0x`: outside the theorem
example : followersCover ⟨false, true, true, true, true, [32, 9, 10, 13], true⟩ ∧ ¬ followersCover ⟨false, true, true, true, true, [32, 9, 10], true⟩ := by decide
example : (select 5 false ⟨false, true, true, true, true, [32, 9, 10, 13], true⟩ ⟨some .utf8, true, false, none, false, .none, true, false⟩).version = 2 := by decide
example : (select 0 false ⟨false, true, true, true, true, [32, 9, 10, 13], true⟩ ⟨some .utf8, true, false, none, false, .none, true, false⟩).bomDisallowed = true := by decide
example : (select 0 false ⟨false, true, true, true, true, [32, 9, 10, 13], true⟩ ⟨some .utf16be, false, false, none, false, .v2, true, false⟩).wrongEncoding = true := by decide
example : Model.Lexer.disallowedBmp .cif2 0x4E2D = false ∧ Model.Parser.disallowedInitial 0x4E2D = true := by decide

end CifModel
