import CifModel.Props.C07Read
import CifModel.Props.C07Parser
/-
  Property C07 — storing route `parser` × the packet-delivering read paths (group gY): composition of group gO's Props/C07Parser.lean
  (what cif_parse stores: only cif_container_set_value and cif_loop_add_packet calls, recorded by `storeTrace`; their values contain no
  number object, hence are constructible) with Props/C07Read.lean.
-/
namespace CifModel
open CifModel.Model CifModel.Model.Lexer CifModel.Model.Parser Store Store.Codec

/-- both packet-delivering read paths -/
def C07_PathsDeliver (s : Store) (cid : Nat) (k : Str) (row : Nat) (v : V) : Prop :=
  C07_IterDelivers s cid k row v ∧ C07_WalkDelivers s cid k row v

theorem C07_read_paths_identical (s : Store) (hg : GoodS s) : C07_RoutesThen s C07_PathsDeliver :=
  C07_routes_mono s Stored C07_PathsDeliver
    (fun _ _ _ _ _ h => ⟨fun l hl => h.iter l hl, fun l hl fuel hC hid hne => h.walkPos l hl fuel hC hid hne⟩)
    (C07_routes_stored s hg)

/-- **C07_parser_read_paths** — every value the parser model stores is delivered identical by packet iteration and by cif_walk.  For
    every recorded store call of every parse (any input, policy, options, initial content), in every store state satisfying the
    invariants, outside a transaction, for values that fit the address space:
    * cif_container_set_value(container, name, v): existing item — the call succeeds and in every packet of the item's loop both paths
      deliver `v`; new item — if the call succeeds there is a packet in which both paths deliver `v`;
    * cif_loop_add_packet(loop, names ↦ values): if the call succeeds, both paths deliver every value of the packet, in the new packet. -/
theorem C07_parser_read_paths (o : Opts) (pol : Policy) (pre : Cif) (units : Str) :
    ∀ op ∈ storeTrace o pol pre units,
      (∀ path n v, op = SOp.setVal path n v →
        ∀ (s : Store) (h : CH), GoodS s → s.autocommit = true → C07_fits v →
          (∀ l, getItemLoopInternal s.db h.id (mkName o true n).key = .ok l →
            ∃ ln, s.db.loopOfItem h.id (mkName o true n).key = some ln ∧ (setValueC s h (mkName o true n) v).2 = .ok () ∧
              ∀ r ∈ s.db.loopRows h.id ln, C07_PathsDeliver (setValueC s h (mkName o true n) v).1 h.id (mkName o true n).key r v) ∧
          (getItemLoopInternal s.db h.id (mkName o true n).key = .error Gen.ErrCodes.CIF_NOSUCH_ITEM →
            (setValueC s h (mkName o true n) v).2 = .ok () →
            ∃ row, C07_PathsDeliver (setValueC s h (mkName o true n) v).1 h.id (mkName o true n).key row v)) ∧
      (∀ path vals, op = SOp.addPkt path vals →
        ∀ (s : Store) (l : LH) (names : List Str), GoodS s → s.autocommit = true → (∀ v ∈ vals, C07_fits v) →
          (addPacketC s l ((names.map o.norm).zip vals)).2 = .ok () →
          ∃ row, ∀ e ∈ (names.map o.norm).zip vals,
            C07_PathsDeliver (addPacketC s l ((names.map o.norm).zip vals)).1 l.cid e.1 row e.2) := by
  intro op hop
  have hwf := storeTrace_wf o pol pre units op hop
  refine ⟨?_, ?_⟩
  · rintro path n v rfl s h hg hac hf
    have hvalid : (mkName o true n).valid = true := hwf.1
    have hc : C07_constructible v := C07_numbFree_constructible v hwf.2
    obtain ⟨h1, h2, _, _, _⟩ := C07_read_paths_identical s hg
    exact ⟨fun l hl => h1 h (mkName o true n) v l hc hf hvalid hac hl, fun hnew hok => h2 h (mkName o true n) v hc hf hvalid hac hnew hok⟩
  · rintro path vals rfl s l names hg hac hvals hok
    obtain ⟨_, _, _, h4, _⟩ := C07_read_paths_identical s hg
    exact h4 l _ (fun e he => ⟨C07_numbFree_constructible e.2 (hwf e.2 (List.of_mem_zip he).2), hvals e.2 (List.of_mem_zip he).2⟩) hac hok

/-- the trace of `data_a _x [1 {'k':?}] loop_ _b 1 2` records one cif_container_set_value and two cif_loop_add_packet: the theorem
    applies to three calls -/
example : ((storeTrace C07Parser.opts acceptAll [] (a!"data_a _x [1 {'k':?}] loop_ _b 1 2")).filter (fun op => !op.values.isEmpty)).length = 3 := by
  decide +kernel

end CifModel
