import CifModel.Props.C01Render
/-
  Review of property C01: the whole-document theorem instantiated for the CIF 1.1 dialect (the property's "or any well-formed
  CIF 1.1 document in CIF 1.1 mode"); the property file instantiates CIF 2.0 only.
-/
namespace CifModel.ReviewC01
open CifModel Model.Parser Model.Lexer Spec.Grammar Spec.Lexical

/-- CIF 1.1: a bare value with brackets (reported quoted), a quoted string holding its own delimiter not followed by a blank,
    a plain text field, a loop with `?` and `.`, a save frame -/
def doc1 : Doc :=
  [{ code := a!"b1", body := [
      .plain (.item (a!"_x") (.str (a!"a[1]") .bare)),
      .plain (.item (a!"_q") (.str (a!"it's") .squote)),
      .plain (.item (a!"_t") (.str (a!"line1\nline2") .text)),
      .frame (a!"f") [.plain (.loop [a!"_l1", a!"_l2"] [[.unk, .na], [.str (a!"v") .bare, .str (a!"w x") .dquote]])] ] }]

def layout1 : Layout := fun k => if k % 3 = 1 then [.blank 32, .eol] else [.eol]

/-- all hypotheses of `C01_parse_render` for the CIF 1.1 option record of Props/C01parse.lean -/
theorem hyps :
    C01_wfDoc C01parse.opts1 doc1 = true ∧ C01_feedOk .cif1 doc1 layout1 = true
    ∧ linesFit 0 (render doc1 layout1) = true ∧ render doc1 layout1 ≠ [] := by
  refine ⟨by decide +kernel, by decide +kernel, by decide +kernel, ?_⟩
  intro h
  have : (render doc1 layout1).length = 0 := by rw [h]; rfl
  revert this; decide +kernel

/-- … hence, under every callback policy, the CIF 1.1 parse of the rendered text yields the denoted content, in which the
    bracketed bare value is quoted -/
theorem instance1 (pol : Policy) :
    parse C01parse.opts1 pol [] (render doc1 layout1) = { rc := 0, log := [], cif := denote .cif1 id doc1 } :=
  C01_parse_render C01parse.opts1 doc1 layout1 pol rfl (by decide) rfl hyps.1 hyps.2.1 hyps.2.2.1 hyps.2.2.2

example : (denote .cif1 id doc1).length = 1 := by decide +kernel

end CifModel.ReviewC01
