import CifModel.Props.C08
/-
  Review of property C08: the hypotheses of the two headline theorems instantiated TOGETHER on concrete, non-trivial inputs,
  and the theorems applied.
-/
namespace CifModel.ReviewC08
open CifModel Model.Fill Spec.Eol Model.Lexer Model.Chars Spec.Lexical

/-- `C08_style_independent`: the LF document `a⏎⏎b⏎c`, its terminators re-spelled CR LF, CR, LF, delivered in four chunks that
    cut the CR LF pair, with request sizes 1, 2, 1, 3, … — every hypothesis proved, the theorem applied with `parse := id` -/
def d : Str := [97, 10, 10, 98, 10, 99]
def chunks : List Str := [[97, 13], [10, 13], [98], [10, 99]]
def counts : List Nat := [1, 2, 1, 3, 2, 2, 2, 2]

example : seen counts ⟨chunks⟩ = d :=
  C08_style_independent id d [1, 2, 0] (by decide) (by decide) chunks counts (by decide) (by decide) (by decide) (by decide)

/-- `C08_ws_lengthening`: separator `⏎` replaced by `⏎ #␣x ⏎ ⏎` + blank… (same end column 0, three lines further down), in front of
    `_a 'v'`, previous token a data block header, die-on-first policy — all ten hypotheses proved, the theorem applied -/
def w : List WsAtom := [.eol]
def w' : List WsAtom := [.eol, .comment [32, 120], .eol, .blank 32, .eol]

example :
    (tokensLoop .cif2 (polD 3 dieAll) 9 ⟨renderWs w' ++ a!"_a 'v'", 1, 6, .blockHead⟩ [] []).1
      = (tokensLoop .cif2 dieAll 9 ⟨renderWs w ++ a!"_a 'v'", 1, 6, .blockHead⟩ [] []).1.map (shTok 3) :=
  (C08_ws_lengthening .cif2 w w' (a!"_a 'v'") 1 6 3 .blockHead .end_ dieAll [] 8 (by decide) (by decide) (by decide) (by decide)
    (Or.inr (by intro b rest h; cases h)) (Or.inr (by intro b rest h; cases h)) (by decide) (by decide) (by decide) (by decide)).1

/-- `C08_buffer_moves_preserve_token` applied: a 6-unit buffer holding the half-scanned token `bcd` (text_start 1, tvalue_start 2,
    everything buffered has been scanned), then a refill of two units: the token text and the value offset survive the move /
    doubling, and exactly the refill is unread -/
def b0 : Model.ScanBuf.SB := ⟨[97, 98, 99, 100, 0, 0], 6, 4, 4, 1, 2⟩
example :
    (Model.ScanBuf.append (Model.ScanBuf.makeRoom Gen.ParseConsts.bufMinFill b0) [101, 102]).tokenText = [98, 99, 100] ∧
    (Model.ScanBuf.append (Model.ScanBuf.makeRoom Gen.ParseConsts.bufMinFill b0) [101, 102]).unread = [101, 102] := by
  have h := C08_buffer_moves_preserve_token b0 (by decide) [101, 102] (by decide)
  exact ⟨h.2.1.trans (by decide), h.2.2.2 rfl⟩

end CifModel.ReviewC08
