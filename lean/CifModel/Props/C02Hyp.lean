import CifModel.Props.C02Doc
/-
  Property C02 — the hypotheses of the whole-document round trip (`C02_roundtrip_doc` / `C02_roundtrip_doc_nl`: `cifR`, `blocksN`), one
  conjunct at a time: each is NECESSARY — the writer model writes the CIF and the parser model, reading the output back, reports
  an error — and each is an invariant of every CIF built through the API (it cannot be violated on the real code).  The two about
  characters, which the API does not enforce for VALUES, were findings (F-disallowed-char-written, F-cr-altered; replays in
  corpus/writeval/regressions.req); since their repair `cif_write` refuses such values (Props/C02Clean.lean).  `containersL` is gone (`C02_roundtrip_doc_nl`).  All by kernel evaluation of both models.
-/
namespace CifModel
open Model Model.Writer

namespace C02Hyp
/-- the result codes the parser model reports when it re-reads what the writer model wrote for `c` (accept-all policy) -/
def reparse (c : WCif) : List Nat :=
  (Model.Parser.parse C01parse.opts2 Model.Lexer.acceptAll [] (C02Doc.written (writeCif 0 c))).log.map (·.code)
def sc (n v : Str) : WLoop := C02Doc.scalar1 n v
def block (ls : List WLoop) : WCif := [WContainer.mk (a!"b") [] ls]
def dupNames : WLoop :=
  { category := some [], header := [a!"_x", a!"_X"], packets := [[(a!"_x", V.chr false (a!"1")), (a!"_X", V.chr false (a!"2"))]] }
def twoPackets : WLoop :=
  { category := some [], header := [a!"_x"], packets := [[(a!"_x", V.chr false (a!"1"))], [(a!"_x", V.chr false (a!"2"))]] }
def shortPacket : WLoop := { category := none, header := [a!"_x", a!"_y"], packets := [[(a!"_x", V.chr false (a!"1"))]] }
def noHeader : WLoop := { category := none, header := [], packets := [[]] }
def noPackets : WLoop := { category := none, header := [a!"_x"], packets := [] }
end C02Hyp

open C02Hyp in
set_option maxRecDepth 1000000 in
/-- **C02_cex_hypotheses** — what the re-parse reports when one conjunct of `cifR` / `blocksN` fails (everything else in order):
      1. (`cifR`, characters: since the repairs of F-disallowed-char-written / F-cr-altered a string with a character CIF 2.0 does
         not allow, or with a CR, is not written at all — `C02_disallowed_char_refused`, `C02_cr_refused`,
         `C02_success_implies_clean` — so this conjunct is no longer a hypothesis the writer can violate;)
      2. `blocksN`, block codes pairwise different after normalisation: `b`, `B` → CIF_DUP_BLOCKCODE (11) (API: refused at creation);
      3. `blocksN`, item names pairwise different: `_x`, `_X` → CIF_DUP_ITEMNAME (41) (API: refused);
      4. `cifR`, a code is one word: `a b` → CIF_MISSING_SPACE… (134: unexpected value) (API: `cif_is_valid_name`);
      5. `cifR`, the scalar loop has ONE packet: two packets repeat the names → CIF_DUP_ITEMNAME (41) (API: the store's trigger
         refuses a second packet in the scalar loop, C04);
      6. `blocksN`, packets as long as the header: a short packet → CIF_PARTIAL_PACKET (53) (walk: packets are complete);
      7. `blocksN`, a loop has a header: none → CIF_NULL_LOOP (37) (API: a loop has at least one name);
      8. `cifR` (`numR`), an unquoted number text is one whitespace-delimited value: `1 2` → 134 (API: number syntax, C10). -/
theorem C02_cex_hypotheses :
    reparse [WContainer.mk (a!"b") [] [sc (a!"_x") (a!"1")], WContainer.mk (a!"B") [] [sc (a!"_x") (a!"1")]] = [11, 41]
    ∧ reparse (block [dupNames]) = [41]
    ∧ reparse [WContainer.mk (a!"a b") [] [sc (a!"_x") (a!"1")]] = [134]
    ∧ reparse (block [twoPackets]) = [41]
    ∧ reparse (block [shortPacket]) = [53]
    ∧ reparse (block [noHeader]) = [37]
    ∧ reparse (C02Doc.oneItem (.numb false (a!"1 2") false [] none 0)) = [134] := by
  decide +kernel

/-- `blocksN`'s "a loop holds a packet" is not a hypothesis of its own: without a packet `cif_write` does not succeed
    (CIF_EMPTY_LOOP — outside the property, whose CIFs have a packet in every loop) -/
theorem C02_empty_loop_refused :
    (match writeCif 0 (C02Hyp.block [C02Hyp.noPackets]) with
      | .error e => e == Gen.ErrCodes.CIF_EMPTY_LOOP
      | .ok _ => false) = true := by
  decide +kernel

end CifModel
