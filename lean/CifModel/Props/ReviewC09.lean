import CifModel.Props.C09
import CifModel.Props.C09Buf
/-
  Review examples for C09 (group gB, independent review).

  The only `Laws` instance in Props/C09.lean is `toyU` with `nfd = nfc = id`.  Here is one with a real decomposition /
  composition pair (`É` = 201 ⇄ `E ´` = [69, 769], `é` = 233 ⇄ [101, 769]) and case folding on both the composed and the
  decomposed letters, with `Laws` PROVED — so the hypotheses of the C09 theorems are satisfiable by operations for which
  nfd ≠ nfc ≠ id and for which the order NFD → fold → NFC matters.
-/
namespace CifModel.ReviewC09
open CifModel Model

def dec (c : Nat) : List Nat := if c = 201 then [69, 769] else if c = 233 then [101, 769] else [c]
def nfd (s : Str) : Str := s.flatMap dec
def comp : List Nat → List Nat
  | [] => []
  | [c] => [c]
  | c :: d :: r =>
    if c = 69 ∧ d = 769 then 201 :: comp r
    else if c = 101 ∧ d = 769 then 233 :: comp r
    else c :: comp (d :: r)
def fold1 (c : Nat) : Nat := if c = 69 then 101 else if c = 201 then 233 else c

def U : UnicodeOps := { nfd := nfd, fold := fun s => s.map fold1, nfc := fun s => comp (nfd s) }

/-- no precomposed letter -/
def Dec (s : Str) : Prop := ∀ c ∈ s, c ≠ 201 ∧ c ≠ 233

theorem nfd_Dec (s : Str) : Dec (nfd s) := by
  intro c hc
  simp only [nfd, List.mem_flatMap] at hc
  obtain ⟨a, _, ha⟩ := hc
  unfold dec at ha
  split at ha
  · simp at ha; rcases ha with rfl | rfl <;> decide
  · split at ha
    · simp at ha; rcases ha with rfl | rfl <;> decide
    · simp at ha; subst ha; exact ⟨by assumption, by assumption⟩

theorem nfd_of_Dec (s : Str) (h : Dec s) : nfd s = s := by
  induction s with
  | nil => rfl
  | cons c r ih =>
    have hc := h c (by simp)
    have : dec c = [c] := by simp [dec, hc.1, hc.2]
    simp only [nfd, List.flatMap_cons, this] at *
    rw [ih (fun x hx => h x (by simp [hx]))]; rfl

theorem nfd_comp (s : Str) (h : Dec s) : nfd (comp s) = s := by
  fun_induction comp s with
  | case1 => rfl
  | case2 c => exact nfd_of_Dec [c] h
  | case3 c d r hcd ih =>
    have := ih (fun x hx => h x (by simp [hx]))
    simp only [nfd, List.flatMap_cons] at *
    rw [this]; simp [dec, hcd.1, hcd.2]
  | case4 c d r _ hcd ih =>
    have := ih (fun x hx => h x (by simp [hx]))
    simp only [nfd, List.flatMap_cons] at *
    rw [this]; simp [dec, hcd.1, hcd.2]
  | case5 c d r _ _ ih =>
    have := ih (fun x hx => h x (by simp only [List.mem_cons] at hx ⊢; exact Or.inr hx))
    have hc := h c (by simp)
    simp only [nfd, List.flatMap_cons] at *
    rw [this]; simp [dec, hc.1, hc.2]

theorem fold_Dec (s : Str) (h : Dec s) : Dec (s.map fold1) := by
  intro c hc
  simp only [List.mem_map] at hc
  obtain ⟨a, ha, rfl⟩ := hc
  have := h a ha
  unfold fold1; split
  · decide
  · split
    · exact absurd (by assumption) this.1
    · exact this

theorem fold_idem (s : Str) : (s.map fold1).map fold1 = s.map fold1 := by
  simp only [List.map_map]
  apply List.map_congr_left
  intro a _
  simp only [Function.comp, fold1]
  split
  · simp
  · split <;> simp_all

theorem laws : Laws U where
  nfd_nfc x := nfd_comp (nfd x) (nfd_Dec x)
  nfc_nfd x := by show comp (nfd (nfd x)) = comp (nfd x); rw [nfd_of_Dec _ (nfd_Dec x)]
  fold_stable x := by
    show nfd ((nfd ((nfd x).map fold1)).map fold1) = nfd ((nfd x).map fold1)
    rw [nfd_of_Dec ((nfd x).map fold1) (fold_Dec _ (nfd_Dec x)), fold_idem]
    exact nfd_of_Dec _ (fold_Dec _ (nfd_Dec x))

-- the operations are not trivial: nfd ≠ id, nfc ≠ nfd, fold acts, and the ORDER of the three steps matters
example : U.nfd [95, 201] = [95, 69, 769] ∧ U.nfc [95, 69, 769] = [95, 201] ∧ U.fold [95, 69] = [95, 101] := by decide
example : cifNormalize U [95, 201] = [95, 233] ∧ cifNormalize U [95, 69, 769] = [95, 233] ∧ cifNormalize U [95, 101, 769] = [95, 233] := by decide
example : cifNormalize U [95, 69, 770] ≠ cifNormalize U [95, 69, 769] := by decide

-- C09_match_iff instantiated with these operations: created as `_É`, found (and refused as duplicate) as `_e´`, not as `_e`
private def okIs {α} [BEq α] (r : Except Code α) (x : α) : Bool := match r with | .ok y => y == x | .error _ => false
private def errIs {α} (r : Except Code α) (c : Code) : Bool := match r with | .ok _ => false | .error d => d == c
example : okIs (createNamed (fun n => normalizeItemName U n 9) [] [95, 201] 8) [[95, 233]] = true := by decide +kernel
example : okIs (findNamed (fun n => normalizeItemName U n 9) [[95, 233]] [95, 101, 769] 7) () = true := by decide +kernel
example : errIs (createNamed (fun n => normalizeItemName U n 9) [[95, 233]] [95, 69, 769] 8) 8 = true := by decide +kernel
example : errIs (findNamed (fun n => normalizeItemName U n 9) [[95, 233]] [95, 101] 7) 7 = true := by decide +kernel
example : errIs (createNamed (fun n => normalizeItemName U n 9) [] [201] 8) 9 = true := by decide +kernel       -- no leading '_'

-- table keys: canonical equivalence only, case significant; the entry takes the spelling used last and is NOT enumerated twice
-- (the last fact is what `C09_table_keys` does not state: it gives only `key ∈ es'.keys`)
private def t1 : Entries Nat := (Entries.set ([] : Entries Nat) (fun n => normalizeTableIndex U n 9) [201] 1).toOption.getD []
private def t2 : Entries Nat := (Entries.set t1 (fun n => normalizeTableIndex U n 9) [69, 769] 2).toOption.getD []
example : (t1.keys == [[201]] && t2.keys == [[69, 769]]) = true := by decide +kernel
example : okIs (t2.get (fun n => normalizeTableIndex U n 9) [201] 7) 2 = true := by decide +kernel
example : errIs (t2.get (fun n => normalizeTableIndex U n 9) [233] 7) 7 = true := by decide +kernel             -- case is significant


/-! ### group gS: the buffer-level theorems instantiated with these operations (nfd ≠ nfc ≠ id, lengths change in every stage) -/

/-- the hypotheses of `C09_normalize_buffer_refines` hold for `U` with the canonical capacity-aware calls -/
example : Model.NormBuf.Contract U (Model.NormBuf.IcuOps.of U) := Lemmas.NormBuf.of_contract U

/-- … and its conclusion for the source `É` + NUL, length convention −1, the C's first-buffer guess: a block holding exactly
    `cifNormalize U "É"` + NUL (`é` + NUL: NFD expands to two units — an exact fit of the first buffer —, NFC contracts again) -/
example : ∃ t cap, Model.NormBuf.cifNormalizeBuf (Model.NormBuf.IcuOps.of U) Model.NormBuf.cGuess [201, 0] (-1) true 2
    = (t, .ok ⟨cap, cifNormalize U [201] ++ [0]⟩) := by
  obtain ⟨t, cap, h, _⟩ := (C09_normalize_buffer_refines U _ (Lemmas.NormBuf.of_contract U) Model.NormBuf.cGuess [201, 0] (-1) true 2
    (by decide)).2 1 (by rfl)
  exact ⟨t, cap, h⟩

example : cifNormalize U [201] = [233] := by decide

end CifModel.ReviewC09
