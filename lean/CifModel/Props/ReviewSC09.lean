import CifModel.Props.ReviewRC09
/-
  Review rB, part `repairs`, C09: the restated `C09_store_item_match` (API level) applied on rA's store `s2 → s3` (block `Åß`, frame,
  then `create_loop(_Åß, _b)` with the non-identity `expU`): NOSUCH_ITEM arm, add_item DUP arm, create_loop DUP arm — every hypothesis
  discharged by computation — and the one thing the FOUND arm leaves open (WHICH loop is found).
-/
namespace CifModel.ReviewSC09
open CifModel Model Lemmas.Names Store C09Buf Gen.ErrCodes ReviewRC09

private abbrev thm (b : Str) (hv : isValidName true b = true) :=
  C09_store_item_match expU s2 s3 invS2 h1 none [[95, 197, 223], [95, 98]] l3 b inorm2 hv hc3

/-- NOSUCH arm: `_Åt` (equivalent to neither `_Åß` nor `_b`, absent before) answers CIF_NOSUCH_ITEM -/
example : (getItemLoop s3 h1 (some (apiName expU true [95, 197, 116]))).2 = .error CIF_NOSUCH_ITEM :=
  (thm [95, 197, 116] (by decide)).2.2.1 (by
    rintro (⟨a, ha, e⟩ | ⟨l', e⟩)
    · simp at ha; rcases ha with rfl | rfl <;> revert e <;> decide
    · revert e; rw [show (getItemLoop s2 h1 (some (apiName expU true [95, 197, 116]))).2 = .error CIF_NOSUCH_ITEM from rfl]; intro e; cases e)

/-- DUP arm of add_item through the live handle `l3`: `_A ring ß` is refused after `_Åß` was defined -/
example (v : Option V) : (addItem s3 l3 (some (apiName expU true [95, 65, 778, 223])) v).2 = .error CIF_DUP_ITEMNAME :=
  ((thm [95, 65, 778, 223] (by decide)).2.2.2.1 l3 v rfl (by rfl)).2 (Or.inl ⟨[95, 197, 223], by decide, by decide⟩)

/-- … and a non-equivalent name is NOT refused as a duplicate (↔ used right to left, contrapositive) -/
example (v : Option V) : (addItem s3 l3 (some (apiName expU true [95, 197, 116])) v).2 ≠ .error CIF_DUP_ITEMNAME := by
  intro hd
  rcases ((thm [95, 197, 116] (by decide)).2.2.2.1 l3 v rfl (by rfl)).1 hd with ⟨a, ha, e⟩ | ⟨l', e⟩
  · simp at ha; rcases ha with rfl | rfl <;> revert e <;> decide
  · revert e; rw [show (getItemLoop s2 h1 (some (apiName expU true [95, 197, 116]))).2 = .error CIF_NOSUCH_ITEM from rfl]; intro e; cases e

/-- moderate M3: the FOUND arm gives `∃ l'`; that the loop found IS the loop just created is true of the model but is not in the
    statement (here by computation, not through the theorem) -/
example : (getItemLoop s3 h1 (some (apiName expU true [95, 65, 778, 223]))).2.toOption.map (fun l => (l.cid, l.loopNum)) = some (l3.cid, l3.loopNum) := by
  rfl

end CifModel.ReviewSC09
