import CifModel.Props.C13First
/-
  Review rB — an instance for `C13_first_refused` (group gT): the theorem APPLIED to a CIF whose single string holds BOTH a character
  outside CIF 1.1 (`é`) and a carriage return: the scan meets the CR test first, so `cif_write` (CIF 1.1) returns CIF_DISALLOWED_VALUE,
  not CIF_DISALLOWED_CHAR.  Nothing new is proved.
-/
namespace CifModel.ReviewSC13
open CifModel Model Model.Writer Lemmas.WriterTotal Lemmas.WriterV1

private def cif : WCif := C13First.block [(a!"_a", .chr true [233, 13])]

private theorem cif_ok : containersOk cif := by
  refine ⟨⟨trivial, ?_⟩, trivial⟩
  intro l hl
  simp only [List.mem_singleton] at hl; subst hl
  refine ⟨by simp, ?_⟩
  intro p hp
  simp only [List.mem_singleton] at hp; subst hp
  intro nv hnv
  simp only [List.mem_singleton] at hnv; subst hnv
  exact ⟨rfl, fun _ => by simp [nameOk, Writer.countChar32, LINE]⟩

private theorem cif_first : C13First.code cif = some Gen.ErrCodes.CIF_DISALLOWED_VALUE := by decide +kernel

example : writeCif 1 cif = .error Gen.ErrCodes.CIF_DISALLOWED_VALUE := by
  apply ((C13_first_refused cif cif_ok).2 _).mpr
  cases hf : containersFirst cif with
  | none => have := cif_first; simp [C13First.code, hf] at this
  | some f =>
    have := cif_first
    simp only [C13First.code, hf, Option.map_some, Option.some.injEq] at this
    exact ⟨f, rfl, this⟩

-- the first arm: it is not written
example : ¬ ∃ out, writeCif 1 cif = .ok out := by
  intro h
  have hn := (C13_first_refused cif cif_ok).1.mp h
  have := cif_first
  simp [C13First.code, hn] at this

end CifModel.ReviewSC13
