import CifModel.Props.C07
import CifModel.Props.C06
import CifModel.Props.C14
import CifModel.Props.C10
import CifModel.Lemmas.StoreReadPaths
import CifModel.Lemmas.StoreRefineW
import CifModel.Props.ReviewC07
/-
  Property C07 — the READ PATHS (group gY).  Props/C07.lean ends at the two SQL statements the readers use (`ReadsBack`); here the
  readers themselves:

    * `C07_iter_read_identical`   stored through any route ⇒ a packet iterator opened afterwards on the item's loop (cif_loop_get_packets,
                                  cif_pktitr_next_packet until CIF_FINISHED — `readLoop` of Model/StoreRead, i.e. `getPackets` / `nextPacket`
                                  of Model/PktItr) delivers, in the packet of that row, exactly the value stored;
    * `C07_walk_read_identical`   … and cif_walk (`walkStore` = `Walk.walk` of Model/Walk on the tree the walker reads from the store through
                                  all_blocks / all_frames / all_loops / get_packets / next_packet) calls the item handler with it;
    * `C07_number_read_identical` the doubles cif_value_get_number / cif_value_get_su compute from what is read back — from the columns, or
                                  from the text alone (element of a list or table: the deserialiser re-parses; parser route: lazy coercion) —
                                  are those computed from the object that was stored;
    * `C07_get_value_flag`, `C07_set_value_flag`   cif_container_get_value: CIF_OK with the value for one packet, CIF_AMBIGUOUS_ITEM with the
                                  FIRST packet's value for two or more, CIF_NOSUCH_ITEM for none.

  The composition is: route ⇒ the cell holds v (Lemmas/StoreValue, behind C07_stored_read_identical) and the state is `GoodS` again
  (Lemmas/StoreTotalS) ⇒ `Stored`; `Stored` ⇒ what the iterator delivers is the stored packet (`drain_spec`: gF/gL's
  `nextPacket_spec_abs`, the lemma behind C06_packet_is_stored, over the whole iteration) ⇒ item k of packet `row` is v; the codec round
  trip (`image v = some v`, Lemmas/StoreCodec, for every constructible value that fits) makes the composed operations the plain ones.
-/
namespace CifModel
open Store Store.Codec Model.Columns Gen.ErrCodes Walk Spec.Traversal Lemmas.Walk

/-- `l` is a valid handle of the loop of container `cid` that contains item `k` — e.g. the one cif_container_get_item_loop hands
    out (`C07_item_loop_handle`) -/
abbrev C07_HandleFor (d : Db) (l : LH) (cid : Nat) (k : Str) : Prop := HandleFor d l cid k

theorem C07_item_loop_handle (s : Store) (hinv : Inv s.db) (h : CH) (n : Name) (hv : n.valid = true) (l : LH)
    (hl : (getItemLoop s h (some n)).2 = .ok l) : C07_HandleFor s.db l h.id n.key := by
  unfold getItemLoop at hl
  simp only [hv, Bool.not_true, Bool.false_eq_true, if_false] at hl
  exact handleFor_of_itemLoop s.db hinv h.id n.key l hl

/-- the five storing routes (composed with the column codec, Model/StoreCodec), each followed by "then `P` holds of the state the call
    leaves, the cell it addressed and the value given":
      cif_container_set_value on an existing item (every packet of its loop) / on a new item (the scalar loop's packet),
      cif_loop_add_item (every packet of the loop), cif_loop_add_packet (the new packet, every item given),
      cif_pktitr_update_packet followed by cif_pktitr_close (the current packet, every item given).
    Values: everything the API can construct (`C07_constructible`) that fits the address space (`C07_fits`). -/
def C07_RoutesThen (s : Store) (P : Store → Nat → Str → Nat → V → Prop) : Prop :=
  (∀ (h : CH) (n : Name) (v : V) (l : LH), C07_constructible v → C07_fits v → n.valid = true → s.autocommit = true →
      getItemLoopInternal s.db h.id n.key = .ok l →
      ∃ ln, s.db.loopOfItem h.id n.key = some ln ∧ (setValueC s h n v).2 = .ok ()
        ∧ ∀ r ∈ s.db.loopRows h.id ln, P (setValueC s h n v).1 h.id n.key r v)
  ∧ (∀ (h : CH) (n : Name) (v : V), C07_constructible v → C07_fits v → n.valid = true → s.autocommit = true →
      getItemLoopInternal s.db h.id n.key = .error CIF_NOSUCH_ITEM → (setValueC s h n v).2 = .ok () →
      ∃ row, P (setValueC s h n v).1 h.id n.key row v)
  ∧ (∀ (l : LH) (n : Name) (v : V), C07_constructible v → C07_fits v → n.valid = true → s.autocommit = true →
      (addItemC s l n v).2 = .ok () →
      ∃ d1, s.db.insertItem l.cid n.key n.orig l.loopNum = some d1
        ∧ ∀ r ∈ d1.loopRows l.cid l.loopNum, P (addItemC s l n v).1 l.cid n.key r v)
  ∧ (∀ (l : LH) (pkt : List (Str × V)), (∀ e ∈ pkt, C07_constructible e.2 ∧ C07_fits e.2) → s.autocommit = true →
      (addPacketC s l pkt).2 = .ok () →
      ∃ row, ∀ e ∈ pkt, P (addPacketC s l pkt).1 l.cid e.1 row e.2)
  ∧ (∀ (it : Iter) (pkt : List (Str × V)) (d0 : Db), (∀ e ∈ pkt, C07_constructible e.2 ∧ C07_fits e.2) → keysDistinct_sv pkt →
      IterOk it s.db → s.txn = some d0 → (updatePacketC s it pkt).2 = .ok () →
      (closeIter (updatePacketC s it pkt).1).2 = .ok ()
        ∧ ∀ e ∈ pkt, P (closeIter (updatePacketC s it pkt).1).1 it.cid e.1 it.prev.toNat e.2)

/-- every route leaves a state in which the invariants hold, no transaction is open and the addressed cell holds the value given -/
theorem C07_routes_stored (s : Store) (hg : GoodS s) : C07_RoutesThen s Stored := by
  refine ⟨?_, ?_, ?_, ?_, ?_⟩
  · intro h n v l hc hf hv hac hl
    have hw := C07_constructible_wf v hc hf
    rw [setValueC_wf s h n v hw]
    obtain ⟨ln, hln, hok, _, hcells, _, _⟩ := setValue_existing_read_strong s h n v l hv hac hl
    exact ⟨ln, hln, hok, fun r hr => ⟨setValue_goodS hg _ _ _, setValue_autocommit s _ _ _ hac, hcells r hr⟩⟩
  · intro h n v hc hf hv hac hnew hok
    have hw := C07_constructible_wf v hc hf
    rw [setValueC_wf s h n v hw] at hok ⊢
    obtain ⟨_, row, hcell⟩ := setValue_new_read s h n v hv hac hnew hok
    exact ⟨row, setValue_goodS hg _ _ _, setValue_autocommit s _ _ _ hac, hcell⟩
  · intro l n v hc hf hv hac hok
    have hw := C07_constructible_wf v hc hf
    rw [addItemC_wf s l n v hw] at hok ⊢
    obtain ⟨_, d1, hi, hcells⟩ := addItem_read s l n v hv hok
    exact ⟨d1, hi, fun r hr => ⟨addItem_goodS hg _ _ _, addItem_autocommit s _ _ _ hac, hcells r hr⟩⟩
  · intro l pkt hp hac hok
    have hw : ∀ e ∈ pkt, wfValue parseFields e.2 = true := fun e he => C07_constructible_wf e.2 (hp e he).1 (hp e he).2
    rw [addPacketC_wf s l pkt hw] at hok ⊢
    obtain ⟨row, hcells⟩ := addPacket_read s l pkt hok
    exact ⟨row, fun e he => ⟨addPacket_goodS hg _ _, addPacket_autocommit s _ _ hac, hcells e he⟩⟩
  · intro it pkt d0 hp hd hit ht hok
    have hw : ∀ e ∈ pkt, wfValue parseFields e.2 = true := fun e he => C07_constructible_wf e.2 (hp e he).1 (hp e he).2
    rw [updatePacketC_wf s it pkt hw] at hok ⊢
    obtain ⟨hcells, _⟩ := updatePacket_read s it pkt hd hok
    have htx : (updatePacket s it pkt).1.txn = some d0 := by rw [updatePacket_txn]; exact ht
    have hgu : GoodS (updatePacket s it pkt).1 := updatePacket_goodS hg it pkt hit.attached
    rw [closeIter_in_txn _ d0 htx]
    refine ⟨rfl, fun e he => ⟨?_, rfl, hcells e he⟩⟩
    have := closeIter_goodS hgu
    rw [closeIter_in_txn _ d0 htx] at this
    exact this

/-- a stronger conclusion may replace a weaker one -/
theorem C07_routes_mono (s : Store) (P Q : Store → Nat → Str → Nat → V → Prop) (hPQ : ∀ s' cid k row v, P s' cid k row v → Q s' cid k row v)
    (h : C07_RoutesThen s P) : C07_RoutesThen s Q := by
  obtain ⟨h1, h2, h3, h4, h5⟩ := h
  refine ⟨?_, ?_, ?_, ?_, ?_⟩
  · intro h n v l hc hf hv hac hl
    obtain ⟨ln, a, b, c⟩ := h1 h n v l hc hf hv hac hl
    exact ⟨ln, a, b, fun r hr => hPQ _ _ _ _ _ (c r hr)⟩
  · intro h n v hc hf hv hac hnew hok
    obtain ⟨row, a⟩ := h2 h n v hc hf hv hac hnew hok
    exact ⟨row, hPQ _ _ _ _ _ a⟩
  · intro l n v hc hf hv hac hok
    obtain ⟨d1, a, b⟩ := h3 l n v hc hf hv hac hok
    exact ⟨d1, a, fun r hr => hPQ _ _ _ _ _ (b r hr)⟩
  · intro l pkt hp hac hok
    obtain ⟨row, a⟩ := h4 l pkt hp hac hok
    exact ⟨row, fun e he => hPQ _ _ _ _ _ (a e he)⟩
  · intro it pkt d0 hp hd hit ht hok
    obtain ⟨a, b⟩ := h5 it pkt d0 hp hd hit ht hok
    exact ⟨a, fun e he => hPQ _ _ _ _ _ (b e he)⟩

/-- **what packet iteration delivers** in state `s` for the cell (cid, k, row): through ANY valid handle `l` of the item's loop,
    cif_loop_get_packets is granted, cif_pktitr_next_packet answers CIF_OK once per packet (row) of the loop, in row order, and then
    CIF_FINISHED; the packet delivered for `row` (position `j` = position of `row` among the loop's rows) has exactly the loop's item
    names as keys and answers `v` for item `k` -/
def C07_IterDelivers (s : Store) (cid : Nat) (k : Str) (row : Nat) (v : V) : Prop :=
  ∀ l : LH, C07_HandleFor s.db l cid k →
    ∃ ps, readLoop s l (readFuel s) = .ok (ps, some CIF_FINISHED) ∧ ps.length = (s.db.loopRows l.cid l.loopNum).length ∧
      ∃ (j : Nat) (p : List (Str × V)), (s.db.loopRows l.cid l.loopNum)[j]? = some row ∧ ps[j]? = some p ∧ pktGet p k = some v ∧
        p.map (·.1) = (s.db.loopItems l.cid l.loopNum).map (·.name)

/-- **C07_iter_read_identical** — for every store state satisfying the invariants (`GoodS`: every state an in-contract history reaches,
    C04), every storing route, every constructible value that fits: a packet iterator opened afterwards on the item's loop delivers, in
    the packet of the row stored into, a value equal to the one stored. -/
theorem C07_iter_read_identical (s : Store) (hg : GoodS s) : C07_RoutesThen s C07_IterDelivers :=
  C07_routes_mono s Stored C07_IterDelivers (fun _ _ _ _ _ h l hl => h.iter l hl) (C07_routes_stored s hg)

/-- **what cif_walk delivers** in state `s` for the cell (cid, k, row) — POSITIONALLY.  Through any valid handle `l` of the item's loop and
    for the node of the item's OWN container (handle `hC`, `hC.id = cid`) in the tree the walker builds from the store (`wcontOf s fuel hC`;
    where that node sits: `C07_walk_block_position` / `C07_walk_frame_position`), on a CIF without packet-less loop:
    * the loop node walk_loop shows for THIS handle (`wloopOf s l`) is one of the loops of THAT container's node;
    * it has exactly one packet per row of the loop, and the packet at the position `j` of THIS row among the loop's rows has the loop's
      item names as keys, contains the entry (k, v) and answers `v` for item `k`;
    * the walk with always-continuing handlers is the full depth-first traversal of the walker's tree and returns CIF_OK
      (`fullTraversal`, Spec/Traversal: for every loop node, for every packet in order, packet_start, one item callback per entry of the
      packet in order, packet_end) — so the item callbacks made for packet `j` of that loop of that container are exactly the entries of
      `p`, the one for `k` carrying `v`.
    Container, loop and row are in the CONCLUSION: a value of the same name in another block, loop or packet does not satisfy it. -/
def C07_WalkDelivers (s : Store) (cid : Nat) (k : Str) (row : Nat) (v : V) : Prop :=
  ∀ l : LH, C07_HandleFor s.db l cid k →
    ∀ (fuel : Nat) (hC : CH), hC.id = cid → noEmptyLoops (wcifOf s) = true →
      wloopOf s l ∈ (wcontOf s fuel hC).loops ∧
      (wloopOf s l).packets.length = (s.db.loopRows l.cid l.loopNum).length ∧
      (∃ (j : Nat) (p : List (Str × V)), (s.db.loopRows l.cid l.loopNum)[j]? = some row ∧ (wloopOf s l).packets[j]? = some p ∧
          pktGet p k = some v ∧ (k, v) ∈ p ∧ p.map (·.1) = (s.db.loopItems l.cid l.loopNum).map (·.name)) ∧
      walkStore allCont s = (fullTraversal (wcifOf s), OK)

/-- **C07_walk_read_identical** — … and cif_walk shows the stored value at the position of that container, loop and packet. -/
theorem C07_walk_read_identical (s : Store) (hg : GoodS s) : C07_RoutesThen s C07_WalkDelivers :=
  C07_routes_mono s Stored C07_WalkDelivers (fun _ _ _ _ _ h l hl fuel hC hid hne => h.walkPos l hl fuel hC hid hne)
    (C07_routes_stored s hg)

/-- the weaker, position-free corollary (the statement before review rB): wherever the container's node sits in the tree (block `B` of
    the walker's tree, the node in or below it), the flat list of callbacks contains `handle_item(k, v)` -/
theorem C07_walk_item_event (s : Store) (cid : Nat) (k : Str) (row : Nat) (v : V) (h : C07_WalkDelivers s cid k row v) (l : LH)
    (hl : C07_HandleFor s.db l cid k) (B : WCont) (fuel : Nat) (hC : CH) (hB : B ∈ wcifOf s) (hid : hC.id = cid)
    (hin : InCont (wcontOf s fuel hC) B) (hne : noEmptyLoops (wcifOf s) = true) :
    Ev.item k v ∈ (walkStore allCont s).1 ∧ (walkStore allCont s).2 = OK := by
  obtain ⟨hL, _, ⟨j, p, _, hp, _, hkv, _⟩, _⟩ := h l hl fuel hC hid hne
  exact walk_delivers_item (wcifOf s) hne B _ hB hin _ hL p (List.mem_of_getElem? hp) k v hkv

/-- for an item of a data block the tree-position hypotheses of `C07_WalkDelivers` hold with `B` the block's own node -/
theorem C07_walk_block_position (s : Store) (hB : CH) (bs : List CH) (hbs : (allBlocks s).2 = .ok bs) (hm : hB ∈ bs) :
    wcontOf s (s.db.frames.length + 1) hB ∈ wcifOf s
    ∧ InCont (wcontOf s (s.db.frames.length + 1) hB) (wcontOf s (s.db.frames.length + 1) hB) :=
  ⟨wcontOf_block_mem s hB bs hbs hm, InCont.here _⟩

/-- … and for an item of a save frame, at any nesting depth: if `path` is a chain of save frames from the data block `hB` down to the
    item's container (each frame among those cif_container_get_all_frames reports for the one before) no longer than the walker's depth
    bound (number of save frames of the CIF + 1), the hypotheses hold with `B` the block's node and the container's node at the
    remaining fuel -/
theorem C07_walk_frame_position (s : Store) (hB : CH) (bs : List CH) (hbs : (allBlocks s).2 = .ok bs) (hm : hB ∈ bs) (path : List CH)
    (hp : FrameChain s hB path) (hlen : path.length ≤ s.db.frames.length + 1) :
    wcontOf s (s.db.frames.length + 1) hB ∈ wcifOf s
    ∧ InCont (wcontOf s (s.db.frames.length + 1 - path.length) (path.getLast?.getD hB)) (wcontOf s (s.db.frames.length + 1) hB) := by
  refine ⟨wcontOf_block_mem s hB bs hbs hm, ?_⟩
  have := inCont_of_chain s (s.db.frames.length + 1 - path.length) path hB hp
  have he : s.db.frames.length + 1 - path.length + path.length = s.db.frames.length + 1 := by omega
  rw [he] at this
  exact this

/-- what the two paths deliver is the stored packet: the whole iteration, stated on the store (used by both theorems above) -/
theorem C07_iteration_is_stored (s : Store) (hg : Good s.db) (hac : s.autocommit = true) (l : LH) (hv : l.validB s.db = true)
    (hrows : s.db.loopRows l.cid l.loopNum ≠ []) :
    readLoop s l (readFuel s) = .ok ((s.db.loopRows l.cid l.loopNum).map (storedPacket s.db l.cid l.loopNum), some CIF_FINISHED)
    ∧ (wloopOf s l).packets = (s.db.loopRows l.cid l.loopNum).map (storedPacket s.db l.cid l.loopNum) := by
  refine ⟨readLoop_spec s hg hac l hv hrows _ ?_, wloopOf_packets s hg hac l hv hrows⟩
  have := loopRows_length_le s.db l.cid l.loopNum
  unfold readFuel; omega

-- ---- cif_container_get_value: which packet, which code -----------------------------------------------------------------------------------

/-- **C07_get_value_flag** — cif_container_get_value on an item of a loop, in any state satisfying `Good`: no packet ⇒ CIF_NOSUCH_ITEM;
    exactly one packet ⇒ CIF_OK (`false`) with the value stored in it; two or more ⇒ CIF_AMBIGUOUS_ITEM (`true`) together with the value
    stored in the packet of LOWEST row number.  That "lowest row number" is the row the real code steps to first is an ASSUMPTION about
    SQLite, not a fact of the sources: GET_VALUE_SQL has no `order by`; the model's `valuesOf` sorts by row number because SQLite serves the
    query from the primary-key index (container_id, name, row_num) — see ASSUMPTIONS of tools/props/C07.py; the API documents only
    "one of the values". -/
theorem C07_get_value_flag (s : Store) (hg : Good s.db) (h : CH) (n : Name) (hv : n.valid = true) (x : LoopRow) (hx : x ∈ s.db.loops)
    (hxc : x.cid = h.id) (i : ItemRow) (hi : i ∈ s.db.loopItems x.cid x.loopNum) (hik : i.name = n.key) :
    match s.db.loopRows h.id x.loopNum with
    | [] => (getValue s h (some n)).2 = .error CIF_NOSUCH_ITEM
    | [r] => (getValue s h (some n)).2 = .ok (cellK s.db h.id n.key r, false)
    | r :: _ :: _ => (getValue s h (some n)).2 = .ok (cellK s.db h.id n.key r, true) := by
  have hcol := getValue_good s.db hg x hx i hi
  unfold absColumn at hcol
  rw [hxc, hik] at hcol
  unfold getValue
  simp only [hv, Bool.not_true, Bool.false_eq_true, if_false]
  cases hrows : s.db.loopRows h.id x.loopNum with
  | nil =>
    rw [hrows] at hcol
    simp only [List.map_nil, List.map_eq_nil_iff] at hcol
    simp only [hcol]
  | cons r rest =>
    rw [hrows] at hcol
    cases hvs : s.db.valuesOf h.id n.key with
    | nil => rw [hvs] at hcol; simp at hcol
    | cons w ws =>
      rw [hvs] at hcol
      simp only [List.map_cons, List.cons.injEq] at hcol
      obtain ⟨hw, hrest⟩ := hcol
      cases rest with
      | nil =>
        simp only [List.map_nil, List.map_eq_nil_iff] at hrest
        subst hrest
        simp only [hw]; rfl
      | cons r2 rest2 =>
        cases ws with
        | nil => simp at hrest
        | cons w2 ws2 => simp only [hw]; rfl

/-- **C07_set_value_flag** — the flag of `C07_store_read` / `C07_stored_read_identical` pinned: after cif_container_set_value on an
    existing item (any constructible value that fits), cif_container_get_value returns the value with CIF_OK when the item's loop has
    exactly one packet and with CIF_AMBIGUOUS_ITEM when it has two or more; the call leaves the loop's packets (row numbers) as they
    were, so `n` is the number of packets before and after -/
theorem C07_set_value_flag (s : Store) (hg : GoodS s) (h : CH) (n : Name) (v : V) (l : LH) (hc : C07_constructible v) (hf : C07_fits v)
    (hv : n.valid = true) (hac : s.autocommit = true) (hl : getItemLoopInternal s.db h.id n.key = .ok l)
    (hne : s.db.loopRows h.id l.loopNum ≠ []) :
    (getValue (setValueC s h n v).1 h (some n)).2 = .ok (v, decide (2 ≤ (s.db.loopRows h.id l.loopNum).length))
    ∧ (setValueC s h n v).1.db.loopRows h.id l.loopNum = s.db.loopRows h.id l.loopNum := by
  have hw := C07_constructible_wf v hc hf
  rw [setValueC_wf s h n v hw]
  obtain ⟨ln, hln, hok, hall, hcells, hsome, _⟩ := setValue_existing_read_strong s h n v l hv hac hl
  obtain ⟨x, hx, hxc, rfl, i, hi, hik⟩ := itemLoop_rows s.db h.id n.key l hl
  -- the loop number the two lookups name is the same
  have hlnx : ln = x.loopNum := by
    have hmem := loopOfItem_mem s.db h.id n.key ln hln
    obtain ⟨j, hj, hjk⟩ := List.any_eq_true.mp hmem
    have hjk' : j.name = n.key := by simpa using hjk
    simp only [Db.loopItems, List.mem_filter, Bool.and_eq_true, beq_iff_eq] at hj hi
    have := itemKey_unique s.db.items hg.db.inv.itemPK j hj.1 i hi.1 (by rw [hj.2.1, hi.2.1]) (by rw [hjk', hik])
    rw [← hj.2.2, this, hi.2.2]
  subst hlnx
  simp only [] at hne ⊢
  obtain ⟨b, hb⟩ := hsome hne
  -- the state after the call: same loops and items, `Good`
  have hg' : Good (setValue s h (some n) (some v)).1.db := (setValue_goodS hg h (some n) (some v)).db
  have hres : setValue s h (some n) (some v) =
      ((({ s with txn := some s.db, db := (s.db.setAllValues h.id n.key v).1 } : Store).commit).getD
        { s with txn := some s.db, db := (s.db.setAllValues h.id n.key v).1 }, .ok ()) := by
    simp [setValue, hv, Store.begin, hac, setValueInner, hl]
  have hdb : (setValue s h (some n) (some v)).1.db = (s.db.setAllValues h.id n.key v).1 := by
    rw [hres]; simp only [commit_getD_db_sv]
  generalize (setValue s h (some n) (some v)).1 = s' at hg' hdb hb ⊢
  have hloops : s'.db.loops = s.db.loops := by rw [hdb]; simp only [Db.setAllValues, hln]
  have hitems : s'.db.items = s.db.items := by rw [hdb]; simp only [Db.setAllValues, hln]
  have hx' : x ∈ s'.db.loops := by rw [hloops]; exact hx
  have hi' : i ∈ s'.db.loopItems x.cid x.loopNum := by
    rw [hxc]; unfold Db.loopItems; rw [hitems]; exact hi
  have hflag := C07_get_value_flag s' hg' h n hv x hx' hxc i hi' hik
  have hrows' : s'.db.loopRows h.id x.loopNum = s.db.loopRows h.id x.loopNum := by
    rw [hdb]; exact loopRows_setAllValues s.db h.id n.key v x.loopNum hln
  refine ⟨?_, hrows'⟩
  rw [hb] at hflag ⊢
  rw [← hrows']
  cases hrows : s'.db.loopRows h.id x.loopNum with
  | nil => rw [hrows] at hflag; simp at hflag
  | cons r rest =>
    rw [hrows] at hflag
    cases rest with
    | nil =>
      simp only [Except.ok.injEq, Prod.mk.injEq] at hflag
      simp [hflag.2]
    | cons r2 rest2 =>
      simp only [Except.ok.injEq, Prod.mk.injEq] at hflag
      simp [hflag.2]

-- ---- the numeric doubles ---------------------------------------------------------------------------------------------------------------------

open Model.Numb in
/-- **C07_number_read_identical** — for every number object the API can produce (cif_value_parse_numb / coercion, cif_value_init_numb,
    cif_value_autoinit_numb, any quoted flag):
    (1) read back from the columns (a top-level number: GET_VALUE_PROPS rebuilds the object from val_text, val_digits, su_digits, scale —
        column `val` is not consulted), cif_value_get_number and cif_value_get_su give the doubles they give on the object stored;
    (2) a reader that has the TEXT only — the deserialiser for a number inside a list or table (it re-parses the text), or
        cif_value_get_number's lazy coercion of the unquoted character value the parser route stores — computes the same sign, digits,
        su digits and scale and hence the same two doubles (by `C10_init_text_roundtrip` / `C10_autoinit_text_roundtrip` for objects made by
        init_numb / autoinit_numb), whatever the quoted flag of the character value. -/
theorem C07_number_read_identical (q : Bool) (t : Str) (neg : Bool) (d : List Nat) (su : Option (List Nat)) (sc : Int)
    (hp : C07_numbProduced (.numb q t neg d su sc)) :
    (∃ r, image (.numb q t neg d su sc) = some r ∧ getNumber r = getNumber (.numb q t neg d su sc)
        ∧ getSu r = getSu (.numb q t neg d su sc))
    ∧ (∀ q', (getNumber (.chr q' t)).map (·.2) = (getNumber (.numb q t neg d su sc)).map (·.2)
        ∧ (getSu (.chr q' t)).map (·.2) = (getSu (.numb q t neg d su sc)).map (·.2)
        ∧ (getNumber (.chr q' t)).map (·.1) = .ok (.numb q' (cstr t) neg d su sc)) := by
  have hcons : C07_constructible (.numb q t neg d su sc) := by simpa [C07_constructible] using hp
  have hw := C07_constructible_wf _ hcons (by simp [C07_fits])
  refine ⟨⟨_, image_wf _ hw, rfl, rfl⟩, ?_⟩
  have hparse : parseNumb t = some ⟨neg, d, su, sc⟩ := by
    have := C07_numb_produced_consistent _ hp
    simp only [C07_numbsConsistent, numbsParse, parseFields, beq_iff_eq] at this
    cases hpn : parseNumb t with
    | none => rw [hpn] at this; simp at this
    | some f =>
      rw [hpn] at this
      simp only [Option.map_some, Option.some.injEq, Prod.mk.injEq] at this
      obtain ⟨a, b, c, e⟩ := this
      cases f with
      | mk fn fd fs fsc => simp only at a b c e; subst a b c e; rfl
  intro q'
  simp [getNumber, getSu, coerceNumb, hparse, Except.map]

-- ---- non-vacuity ----------------------------------------------------------------------------------------------------------------------------------

private def nmR (k : Str) : Name := { key := k, orig := k, valid := true }
/-- a block `b` with a loop (_k, _x) of two packets -/
private def sR0 : Store := (createBlock {} (some (nmR (a!"b")))).1
private def hR : CH := { id := 1, code := a!"b", isBlock := true }
private def sR1 : Store := (createLoop sR0 hR none [nmR (a!"_k"), nmR (a!"_x")]).1
private def lR : LH := { cid := 1, loopNum := 0, category := none }
private def sR2 : Store :=
  (addPacket (addPacket sR1 lR [(a!"_k", .chr false (a!"1")), (a!"_x", .na)]).1 lR [(a!"_k", .chr false (a!"2"))]).1
/-- the value stored: a list with a number and a table -/
private def vR : V := .lst [.numb false (a!"1.5") false [1, 5] none 1, .tbl [((a!"k"), (a!"K"), .chr true (a!"x y"))], .unk]
private def sR3 : Store := (setValueC sR2 hR (nmR (a!"_x")) vR).1

-- the hypotheses of the set_value route hold on a reachable state (GoodS by the preservation lemmas), with a two-packet loop …
example : GoodS sR2 :=
  addPacket_goodS (addPacket_goodS (createLoop_goodS (createBlock_goodS GoodS.empty _ _) _ _ _) _ _) _ _
example : (getItemLoopInternal sR2.db hR.id (a!"_x")).toOption.map (fun l => (l.cid, l.loopNum, l.category)) = some (1, 0, none) := by decide +kernel
example : sR2.db.loopRows 1 0 = [1, 2] := by decide +kernel
example : sR2.autocommit = true := by decide +kernel
-- … and the conclusions, executed: the iterator delivers v in both packets, get_value answers v with CIF_AMBIGUOUS_ITEM, the walk
-- shows it twice
example : (setValueC sR2 hR (nmR (a!"_x")) vR).2.toOption.isSome = true := by decide +kernel
example : ((readLoop sR3 lR (readFuel sR3)).toOption.map (fun r => (r.1.map (fun p => pktGet p (a!"_x") == some vR), r.2)))
    = some ([true, true], some CIF_FINISHED) := by decide +kernel
example : ((getValue sR3 hR (some (nmR (a!"_x")))).2.toOption.map (fun r => (r.1 == vR, r.2))) = some (true, true) := by decide +kernel
example : noEmptyLoops (wcifOf sR3) = true := by decide +kernel
example : ((walkStore allCont sR3).1.filter (fun e => match e with | .item k v => k == a!"_x" && v == vR | _ => false)).length = 2 := by
  decide +kernel
-- the positional conclusion, executed: the loop node the walker shows for handle lR is the (only) loop of block b's node, and its
-- packets answer v for _x at positions 0 and 1 (rows 1 and 2)
example : (wloopOf sR3 lR).packets.map (fun p => pktGet p (a!"_x") == some vR) = [true, true] := by decide +kernel
example : (wcontOf sR3 1 hR).loops.length = 1 := by decide +kernel
example : C07_HandleFor sR3.db lR 1 (a!"_x") := ⟨by decide +kernel, rfl, by decide +kernel⟩
-- the update route: iterator on the two-packet loop, next, update_packet {_x: v} (through the codec), close; a fresh iterator then
-- delivers v in packet 1 and the old value (unknown) in packet 2; the route's hypotheses (tied iterator, inside its transaction) are
-- what C06_open_refines gives for the iterator just opened
private def updR : Option (Bool × Bool × List Bool) :=
  match getPackets sR2 lR with
  | (s3, .ok it) =>
    match nextPacket s3 it with
    | (it1, .ok _) =>
      let r := updatePacketC s3 it1 [(a!"_x", vR)]
      let s5 := (closeIter r.1).1
      match readLoop s5 lR (readFuel s5) with
      | .ok (ps, _) => some (s3.txn.isSome, r.2.toOption.isSome, ps.map (fun p => pktGet p (a!"_x") == some vR))
      | _ => none
    | _ => none
  | _ => none
example : updR = some (true, true, [true, false]) := by decide +kernel
-- nested save frames: block b { save f { save g { _x } } } — the position hypotheses of C07_WalkDelivers through C07_walk_frame_position
private def sF1 : Store := (createFrame sR0 hR (some (nmR (a!"f")))).1
private def hF : CH := { id := 2, code := a!"f", isBlock := false }
private def sF2 : Store := (createFrame sF1 hF (some (nmR (a!"g")))).1
private def hG : CH := { id := 3, code := a!"g", isBlock := false }
private def sF3 : Store := (setValueC sF2 hG (nmR (a!"_x")) vR).1
private theorem chainF : FrameChain sF3 hR [hF, hG] := by
  refine ⟨⟨_, rfl, ?_⟩, ⟨_, rfl, ?_⟩, trivial⟩
  · have h : (sF3.db.frames.filter (fun f => f.parent == hR.id)).any (fun f => f.cid == 2 && f.nameOrig == a!"f") = true := by
      decide +kernel
    obtain ⟨f, hf, hp⟩ := List.any_eq_true.mp h
    simp only [Bool.and_eq_true, beq_iff_eq] at hp
    refine List.mem_map.mpr ⟨f, hf, ?_⟩
    simp only [hp.1, hp.2, hF]
  · have h : (sF3.db.frames.filter (fun f => f.parent == hF.id)).any (fun f => f.cid == 3 && f.nameOrig == a!"g") = true := by
      decide +kernel
    obtain ⟨f, hf, hp⟩ := List.any_eq_true.mp h
    simp only [Bool.and_eq_true, beq_iff_eq] at hp
    refine List.mem_map.mpr ⟨f, hf, ?_⟩
    simp only [hp.1, hp.2, hG]
example : (sF3.db.blocks.map (·.cid), sF3.db.frames.length) = ([1], 2) := by decide +kernel
-- the hypotheses of C07_walk_frame_position hold for this chain (length 2 ≤ 2 frames + 1); its block hypothesis is C07_walk_block_position's
example : [hF, hG].length ≤ sF3.db.frames.length + 1 := by decide +kernel
example : ((walkStore allCont sF3).1.filter (fun e => match e with | .item k v => k == a!"_x" && v == vR | _ => false)).length = 1 := by
  decide +kernel
-- numbers: the parsed, and a produced one whose text alone gives the doubles back
example : C07_numbProduced (Model.Numb.numbOfText false (a!"-1.50e3(2)")) :=
  C07_numbProduced.parsed _ _ ⟨true, [1, 5, 0], some [2], -3 + 2⟩ (by decide +kernel)
-- cif_value_init_numb(1.5, 0, scale 1, 5), then cif_value_set_quoted: the hypothesis of C07_number_read_identical holds, and its
-- conclusion, executed: the text "1.5" alone gives the double 1.5 = 6755399441055744 * 2^-52
example : ∃ t n d s sc, C07_numbProduced (.numb true t n d s sc) :=
  ReviewC07.produced_of_init ⟨false, 3, -1⟩ ⟨false, 0, 0⟩ 1 5 0 true (by decide +kernel)
example : (Model.Numb.getNumber (.chr false (a!"1.5"))).toOption.map (·.2) = some (.fin false 6755399441055744 (-52)) := by
  decide +kernel
-- the driver's handler program is the all-continue program of the walk theorems
example : (fun _ _ => CONTINUE : Prog) = allCont := rfl

end CifModel
