import CifModel.Lemmas.WriterKeys
import CifModel.Props.C02Doc
/-
  Property C02 — totality, sharp: `cif_write` (CIF 2.0 mode) refuses a writable CIF EXACTLY when its walk meets a table key that
  `write_table` cannot present, and which keys those are is a decidable predicate on the key alone (`keyPresented`,
  Lemmas/WriterKeys.lean).  Lemmas: Lemmas/WriterKeys.lean (invariant `Tot`, closed under `andThen`).
-/
namespace CifModel
open Model Model.Writer Lemmas.WriterTotal Lemmas.WriterKeys

/-- **C02_key_refused_iff** — one round of `write_table`'s loop up to the colon (`keyStep`: the optional line break, the
    separating blank, the key through `write_char(…, allow_text = 0)`, the colon through `write_literal(":", CIF_NOWRAP)`), in CIF 2.0
    mode, from EVERY context — whatever `last_column` is (even beyond the line), whatever the other flags: it succeeds (and
    keeps version and `write_item_names`) if and only if `keyPresented key`; otherwise it fails with CIF_DISALLOWED_VALUE — no
    other result code, and the column the table entry starts in never matters. -/
theorem C02_key_refused_iff (key : Str) (c : Ctx) (h2 : c.isCif1 = false) (hdis : Model.hasDisallowed key = false) :
    ((∃ p, keyStep key c = .ok p) ↔ keyPresented key = true) ∧
    (keyStep key c = .error Gen.ErrCodes.CIF_DISALLOWED_VALUE ↔ keyPresented key = false) ∧
    (∀ o c', keyStep key c = .ok (o, c') → Same c c') := by
  have T := tot_keyStep key c h2 hdis
  obtain ⟨a, b⟩ := T.ok_iff
  refine ⟨a, ⟨fun h => ?_, fun h => b.mpr (by simp [h])⟩, ?_⟩
  · have := b.mp h
    simpa using this
  · intro o c' h
    have hp := a.mp ⟨_, h⟩
    obtain ⟨o2, c2, e, hs⟩ := T.1 hp
    rw [h] at e
    cases e
    exact hs

/-- `keyStep` is what `write_table`'s loop does before each value -/
theorem C02_key_step_is_the_loop (kn key : Str) (v : V) (rest : List (Str × Str × V)) (c : Ctx) :
    writeEntries ((kn, key, v) :: rest) c
      = andThen (keyStep key c) fun c4 => andThen (writeItem [] v c4) fun c5 => writeEntries rest c5 :=
  writeEntries_cons kn key v rest c

/-- **C02_total_iff** — `cif_write` in CIF 2.0 mode, every walk order (`WCif`), every writable CIF (`containersOk`: every loop
    holds a packet; scalar data names of ≥ 2 units and ≤ 2048 characters; numbers with non-empty text) whose strings, number texts
    and keys are clean (`containersClean false`: no CR, only characters CIF 2.0 allows — the property's own precondition; nothing about
    columns or lengths):
      * it succeeds IFF every table key the walk meets — at any depth of lists and tables, in any block or save frame — is one
        `write_table` presents (`keyPresented`, a decidable predicate on the key alone);
      * it returns CIF_DISALLOWED_VALUE IFF the walk meets a key with `keyPresented key = false`;
    and these are the only two outcomes (`C02_total`).  `containersKeys cif` lists the keys in the order the walk hands them to
    `write_table` (frames before loops, packets and items in walk order, a key before the keys inside its value). -/
theorem C02_total_iff (cif : WCif) (hok : containersOk cif) (hcl : containersClean false cif) :
    ((∃ out, writeCif 0 cif = .ok out) ↔ ∀ key ∈ containersKeys cif, keyPresented key = true) ∧
    (writeCif 0 cif = .error Gen.ErrCodes.CIF_DISALLOWED_VALUE ↔ ∃ key ∈ containersKeys cif, keyPresented key = false) := by
  obtain ⟨a, b⟩ := tot_writeCif cif hok hcl
  rw [containersKP_keys] at a b
  constructor
  · rw [a, List.all_eq_true]
  · rw [b]
    constructor
    · intro h
      have : ¬ ((containersKeys cif).all keyPresented = true) := by rw [h]; simp
      rw [List.all_eq_true] at this
      have ⟨k, hk⟩ := Classical.not_forall.mp this
      have ⟨hk1, hk2⟩ := Classical.not_imp.mp hk
      exact ⟨k, hk1, by simpa using hk2⟩
    · rintro ⟨k, hk1, hk2⟩
      cases h : (containersKeys cif).all keyPresented with
      | false => rfl
      | true =>
        rw [List.all_eq_true] at h
        rw [h k hk1] at hk2; cases hk2

/-- `C02_refused_key_unwritable` — NOT a property theorem (review rB; not in REQUIRED): `keyWritable` is the writer's own criterion
    `keyFits` spelled with the colon's column explicit, not a specification written from the lexical grammar, so this equation holds by
    unfolding and does not show that "exactly the keys that cannot be written are refused".  What IS proved about refusals:
    `C02_key_refused_iff` / `C02_total_iff` (the refused keys are exactly those with `keyPresented = false`), and the regression
    instance below (the 2045-unit first line is accepted since the repair of F-key-first-line).  Open: `keyPresented key ↔ ∃ p ∈
    {squote, dquote, tsquote, tdquote}, Spec.Lexical.admissible .cif2 p key ∧ the rendered key and its colon keep every line within
    2048` for keys of CIF 2.0 characters. -/
theorem C02_refused_key_unwritable (key : Str) : keyPresented key = keyWritable key := keyPresented_eq_writable key

/-- (same caveat: `keyWritable` is the writer's criterion restated, not an independent specification; not in REQUIRED) -/
theorem C02_presented_key_writable (key : Str) (h : keyPresented key = true) : keyWritable key = true := by
  rw [← C02_refused_key_unwritable]; exact h

namespace C02Total
/-- a key of two lines, the first of 2045 units: the opening triple delimiter + first line fill a line exactly -/
def keyFirst2045 : Str := List.replicate 2045 107 ++ [10, 120]
/-- one block, one scalar item holding a table with the one entry `key : ?` -/
def tableOf (key : Str) : WCif := C02Doc.oneItem (.tbl [(key, key, .unk)])
end C02Total

set_option maxRecDepth 100000 in
/-- regression instance of F-key-first-line (replay corpus/writeval/regressions.req): the two-line key whose first line has 2045
    units — delimiter + 2045 units = 2048 — is presented now … -/
theorem C02_key_first_line_accepted : keyPresented C02Total.keyFirst2045 = true := by
  decide +kernel

set_option maxRecDepth 100000 in
/-- … so `cif_write` writes a table holding it (through `C02_total_iff`, not by evaluation) -/
theorem C02_key_first_line_written : ∃ out, writeCif 0 (C02Total.tableOf C02Total.keyFirst2045) = .ok out := by
  refine (C02_total_iff _ ?_ ?_).1.mpr ?_
  · simp [C02Total.tableOf, C02Doc.oneItem, containersOk, containerOk, loopOk, itemsOk, isScalars, valueOk, entriesOk, nameOk,
      Writer.countChar32, LINE]
  · refine ⟨⟨trivial, ?_⟩, trivial⟩
    intro l hl p hp nv hnv
    simp only [C02Total.tableOf, C02Doc.oneItem, List.mem_singleton] at hl
    subst hl
    simp only [List.mem_singleton] at hp
    subst hp
    simp only [List.mem_singleton] at hnv
    subst hnv
    simp only [valueClean, entriesClean, Bool.and_true]
    decide +kernel
  · intro key hk
    simp only [C02Total.tableOf, C02Doc.oneItem, containersKeys, containerKeys, loopsKeys, packetsKeys, itemsKeys, valueKeys, entriesKeys,
      List.append_nil, List.nil_append, List.mem_singleton] at hk
    subst hk
    exact C02_key_first_line_accepted

set_option maxRecDepth 100000 in
/-- the boundary on one line: a key of 2045 units without `'` is presented (`'…'` ends in column 2047, the colon in 2048), one of
    2046 units is not (the closing quote ends in column 2048); with both kinds of quotes 2041 / 2042 (triple quotes) -/
theorem C02_key_boundary :
    keyPresented (List.replicate 2045 107) = true ∧ keyPresented (List.replicate 2046 107) = false
    ∧ keyPresented ([39, 34] ++ List.replicate 2039 107) = true ∧ keyPresented ([39, 34] ++ List.replicate 2040 107) = false
    ∧ keyPresented [] = true ∧ keyPresented [39, 34, 39, 39, 39] = true ∧ keyPresented [39, 39, 39, 34, 34, 34] = false
    ∧ keyPresented (a!"a\nb") = true ∧ keyPresented (a!"'''\n\"\"\"") = false ∧ keyPresented (a!"a\rb") = false := by
  decide +kernel

-- non-vacuity of `C02_total_iff`: a writable CIF whose table keys are all presented (it is written) …
example : containersOk (C02Total.tableOf (a!"a'b\"c")) ∧ ∀ key ∈ containersKeys (C02Total.tableOf (a!"a'b\"c")), keyPresented key = true := by
  constructor
  · simp [C02Total.tableOf, C02Doc.oneItem, containersOk, containerOk, loopOk, itemsOk, isScalars, valueOk, entriesOk, nameOk,
      Writer.countChar32, LINE]
  · simp only [C02Total.tableOf, C02Doc.oneItem, containersKeys, containerKeys, loopsKeys, packetsKeys, itemsKeys, valueKeys, entriesKeys,
      List.append_nil, List.nil_append, List.mem_singleton]
    intro key hk; subst hk; decide
-- … and of `C02_key_refused_iff`: the writer's initial context is in CIF 2.0 mode
example : ({ version := 0 } : Ctx).isCif1 = false := rfl

end CifModel
