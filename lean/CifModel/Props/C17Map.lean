import CifModel.Model.LadderMap
import CifModel.Spec.HeapTrace
import CifModel.Lemmas.LadderMapSummary
/-
  Property C17 (clean-up ladders, part 2: maps) — cif_map_set_item (= cif_value_set_item_by_key, cif_packet_set_item),
  cif_map_retrieve_item with removal (= cif_value_remove_item_by_key, cif_packet_remove_item) and cif_value_clone of a
  table value, with uthash's own allocations (table header and bucket array of a first entry, the doubled bucket array of
  every expansion; thresholds and hash function translated from uthash.h into Gen/Uthash.lean).

  The model (Model/LadderMap.lean) is tied to the real functions by correspondence family `ladder` (subcommands mapset,
  mapdel, tclone: event pattern for every fault position, with keys crafted to share a bucket so that the expansion
  happens inside the window, and with 144 ordinary keys).  As in Props/C17.lean: `failAt` = the request (counted over
  the whole trace) that fails, 0 = none; `Balanced evs owned` = no double / invalid free and afterwards exactly `owned`
  live.  Set and remove start from ANY state `s` in which the map `m` is live (`Balanced s.evs (m.ids ++ rest)`, no live
  id beyond the request counter); all statements hold for every map (any number of entries, any uthash bookkeeping
  state), every key, every value shape and every fault position.
-/
namespace CifModel
open Model.Ladder Spec.HeapTrace Lemmas.Ladder

/-- cif_map_set_item WITH THE PROPOSED REPAIR (notes/agents/gI-fixes.diff): every run is regular (`MapRunOk`): the map is
    not corrupt, nothing is lost, the result is CIF_OK or CIF_MEMORY_ERROR, CIF_OK exactly when no request of the call
    failed, no double / invalid free, and afterwards exactly the blocks of the resulting map are live (besides `rest`) —
    on failure that is the map as it was, except that an existing item set under another spelling keeps the new
    spelling when the clone of the value fails. -/
theorem C17_map_set_balanced (kind : MapKind) (m : MapSt) (key keyNorm : Str) (value : Option Shape) (failAt : Nat)
    (s : St) (rest : List Nat) (hb : Balanced s.evs (m.ids ++ rest)) (hc : ∀ i ∈ m.ids ++ rest, i ≤ s.count) :
    let r := mapSet true failAt kind m key keyNorm value s
    r.1.corrupt = false ∧ r.1.leaked = [] ∧ (r.1.rc = OK ∨ r.1.rc = MEMORY_ERROR) ∧
    Balanced r.2.evs (r.1.map.ids ++ rest) ∧ (r.1.rc = OK ↔ failIds r.2.evs = failIds s.evs) :=
  mapSet_fixed_summary failAt kind m key keyNorm value s rest hb hc

/-- cif_map_set_item AS THE CODE IS (open finding F31/ladder/mapset/uthash-fatal): the map is left corrupt — the new
    entry has been released although uthash has linked it — exactly when the key is new and the failed request is one
    of uthash's (after the `mapSetPre` requests for normalised key, entry, key copy and value, up to the last request
    of the call); then the call returns CIF_MEMORY_ERROR, that request is the only failed one, the events are still
    balanced but `leaked` (the components of the cloned value and what HASH_MAKE_TABLE had obtained) stays live without
    an owner.  In every other case the run is regular, exactly as for the repaired variant. -/
theorem C17_cex_map_set_corrupt (kind : MapKind) (m : MapSt) (key keyNorm : Str) (value : Option Shape) (failAt : Nat)
    (s : St) (rest : List Nat) (hb : Balanced s.evs (m.ids ++ rest)) (hc : ∀ i ∈ m.ids ++ rest, i ≤ s.count) :
    let r := mapSet false failAt kind m key keyNorm value s
    (r.1.corrupt = true ↔ extract keyNorm m.entries = none ∧ s.count + mapSetPre kind value < failAt ∧
        failAt ≤ s.count + mapSetAllocs kind m key keyNorm value) ∧
    (r.1.corrupt = true → r.1.rc = MEMORY_ERROR ∧ r.1.map = m ∧ failIds r.2.evs = failIds s.evs ++ [failAt] ∧
        Balanced r.2.evs (r.1.leaked ++ (m.ids ++ rest))) ∧
    (r.1.corrupt = false → MapRunOk s rest r) :=
  mapSet_pinned_summary failAt kind m key keyNorm value s rest hb hc

/-- cif_map_retrieve_item with removal (no defect): the only requests are the normaliser's; CIF_MEMORY_ERROR exactly when
    one of them failed, and then — as for CIF_NOSUCH_ITEM, returned exactly for an absent key — the map is unchanged;
    on success the entry's key blocks are released and either its value is handed to the caller (`handed`, when a
    pointer was passed) or released too; removing the last entry releases uthash's bucket array and table header;
    no double / invalid free, nothing lost. -/
theorem C17_map_remove_balanced (kind : MapKind) (m : MapSt) (keyNorm : Str) (keep : Bool) (failAt : Nat)
    (s : St) (rest : List Nat) (hb : Balanced s.evs (m.ids ++ rest)) (hc : ∀ i ∈ m.ids ++ rest, i ≤ s.count) :
    let r := mapRemove failAt kind m keyNorm keep s
    r.1.corrupt = false ∧ r.1.leaked = [] ∧ Balanced r.2.evs (r.1.map.ids ++ (r.1.handed ++ rest)) ∧
    (r.1.rc = OK ∨ r.1.rc = MEMORY_ERROR ∨ (r.1.rc = NOSUCH_ITEM ∧ extract keyNorm m.entries = none)) ∧
    (r.1.rc = MEMORY_ERROR ↔ failIds r.2.evs ≠ failIds s.evs) ∧ (r.1.rc ≠ OK → r.1.map = m ∧ r.1.handed = []) :=
  mapRemove_summary failAt kind m keyNorm keep s rest hb hc

/-- cif_value_clone of a table value (any number of entries, any keys, entry values of any table-free shape) WITH THE
    PROPOSED REPAIR of cif_value_clone_table: never corrupt, nothing lost; no double / invalid free; on failure nothing
    stays live; on success exactly the value object, uthash's table and bucket array and the entries (entry block,
    normalised key, original key, value components) are live; CIF_OK exactly when no request failed. -/
theorem C17_clone_table_balanced (src : List SrcEntry) (failAt : Nat) :
    TableCloneOk src.length (cloneTable true failAt src) :=
  (cloneTable_summary true failAt src).2
    (by cases hc : (cloneTable true failAt src).1.corrupt with
        | false => rfl
        | true => exact absurd ((cloneTable_summary true failAt src).1 hc).1 (by decide))

/-- cif_value_clone of a table AS THE CODE IS (open finding F31/ladder/tclone/uthash-fatal): whenever the run does not
    end corrupt it satisfies everything C17_clone_table_balanced states; when it does (uthash_fatal inside
    HASH_ADD_KEYPTR: key_orig, key and the entry are released although the entry is linked into the temporary map, whose
    walk by cif_table_value_clean is then undefined behaviour) exactly one request has failed and the value object, the
    half-built table and `leaked` (components of the cloned value, what HASH_MAKE_TABLE had obtained) are still live. -/
theorem C17_cex_clone_table_corrupt (src : List SrcEntry) (failAt : Nat) :
    let r := cloneTable false failAt src
    (r.1.corrupt = true → r.1.rc = MEMORY_ERROR ∧ failIds r.2.2.evs = [failAt] ∧
      ∃ obj, r.2.1 = some obj ∧ Balanced r.2.2.evs (obj :: (r.1.leaked ++ r.1.map.ids))) ∧
    (r.1.corrupt = false → TableCloneOk src.length r) :=
  ⟨fun h => ((cloneTable_summary false failAt src).1 h).2, (cloneTable_summary false failAt src).2⟩

/-- cif_value_deserialize of the blob of a TABLE value (cif_table_deserialize as repaired by /repo 7285a53: HASH_ADD_UNDO
    before the entry is released, and 2b403f6: CIF_MEMORY_ERROR), any number of entries with any keys (uthash's table,
    bucket-array and expansion requests included), entry values unknown/na, text, numbers, lists of such: no double /
    invalid free; on failure nothing stays live; on success exactly uthash's table and bucket array and the entries (entry
    block with its value, key, original key) are live and there is one entry per serialised entry; CIF_OK exactly when no
    request failed. -/
theorem C17_deserialize_table_balanced (entries : List BlobEntry) (failAt : Nat) :
    let r := deserTable failAt entries
    Balanced r.2.2.evs (match r.2.1 with | some m => m.ids | none => []) ∧
    (r.1 = OK ∨ r.1 = MEMORY_ERROR) ∧ (r.1 = OK ↔ r.2.1.isSome) ∧ (r.1 = OK ↔ NoFail r.2.2.evs) ∧
    (∀ m, r.2.1 = some m → m.entries.length = entries.length) :=
  deserTable_summary failAt entries

/-- cif_loop_get_names_internal WITH normalisation (the variant cif_loop_get_packets uses; ASCII names, so that
    cif_normalize makes three requests per name), as repaired by /repo c161ded: every number of names, every fault position:
    no double / invalid free; on failure — in the rows, at the array, or in any of the 3n normalisation requests — nothing
    stays live (list nodes, stored strings, the names normalised so far and the array are all released); on success exactly
    the array and the n normalised names; CIF_OK exactly when no request failed. -/
theorem C17_get_names_norm_balanced (n failAt : Nat) :
    let (rc, owned, st) := getNamesNorm failAt n
    Balanced st.evs owned ∧ (rc = OK ∨ rc = MEMORY_ERROR ∨ (n = 0 ∧ rc = INVALID_HANDLE)) ∧ (rc ≠ OK → owned = []) ∧
    (0 < n → (rc = OK ↔ NoFail st.evs)) ∧ (rc = OK → owned.length = n + 1) :=
  namesNorm_summary failAt n

/-- the fault position is reached iff it is one of the requests of the fault-free run (numbered on from `s.count`), and
    then it is the only failed request and the last request of the call — for cif_map_set_item (both variants) and the
    removal -/
theorem C17_map_fault_reached_iff (failAt : Nat) (kind : MapKind) (m : MapSt) (s : St) (rest : List Nat)
    (hb : Balanced s.evs (m.ids ++ rest)) (hc : ∀ i ∈ m.ids ++ rest, i ≤ s.count) :
    (∀ fixed key keyNorm value, let st := (mapSet fixed failAt kind m key keyNorm value s).2
        (failIds st.evs ≠ failIds s.evs ↔ s.count < failAt ∧ failAt ≤ (mapSet fixed 0 kind m key keyNorm value s).2.count) ∧
        (failIds st.evs ≠ failIds s.evs → failIds st.evs = failIds s.evs ++ [failAt] ∧ st.count = failAt) ∧
        (failIds st.evs = failIds s.evs → st.count = (mapSet fixed 0 kind m key keyNorm value s).2.count)) ∧
    (∀ keyNorm keep, let st := (mapRemove failAt kind m keyNorm keep s).2
        (failIds st.evs ≠ failIds s.evs ↔ s.count < failAt ∧ failAt ≤ (mapRemove 0 kind m keyNorm keep s).2.count) ∧
        (failIds st.evs ≠ failIds s.evs → failIds st.evs = failIds s.evs ++ [failAt] ∧ st.count = failAt) ∧
        (failIds st.evs = failIds s.evs → st.count = (mapRemove 0 kind m keyNorm keep s).2.count)) :=
  ⟨fun fixed key keyNorm value => fault_of_outcomes_from (mapSet_outcome fixed 0 kind m key keyNorm value s rest hb hc)
      (mapSet_outcome fixed failAt kind m key keyNorm value s rest hb hc),
   fun keyNorm keep => fault_of_outcomes_from (mapRemove_outcome 0 kind m keyNorm keep s rest hb hc)
      (mapRemove_outcome failAt kind m keyNorm keep s rest hb hc)⟩

/-- re-entry after a faulted call: any sequence of cif_map_set_item / removal calls on the same map, EACH with its own
    fault position (so: arbitrarily many faults, one per call), started in a state satisfying the hypotheses of
    C17_map_set_balanced, ends in a state that satisfies them again — for the resulting map, with what the removals handed
    to the caller — and the whole event sequence is balanced.  Hence every single call of the sequence, whatever happened
    before it, satisfies C17_map_set_balanced / C17_map_remove_balanced.  (Two faults inside ONE call are not modelled.) -/
theorem C17_ladder_reentry (kind : MapKind) (ops : List MapOp) (m : MapSt) (s : St) (rest : List Nat)
    (hb : Balanced s.evs (m.ids ++ rest)) (hc : ∀ i ∈ m.ids ++ rest, i ≤ s.count) :
    let r := runMapOps kind ops m s []
    Balanced r.2.1.evs (r.1.ids ++ (r.2.2 ++ rest)) ∧ ∀ i ∈ r.1.ids ++ (r.2.2 ++ rest), i ≤ r.2.1.count :=
  runMapOps_inv kind ops m s [] rest ⟨hb, hc⟩

-- ---------------------------------------------------------------------------------------------------------------
-- non-vacuity

/-- three calls on an empty table, two of them faulted: set "a" with the fault at uthash's bucket array (request 7: fails,
    table stays empty), set "a" again without a fault (7 more requests), remove "a" with the normaliser's request failing
    (request 7 + 7 + 1): the table still holds "a", nothing else is live -/
example :
    let r := runMapOps .table [.set 7 [97] [97] (some .chr), .set 0 [97] [97] (some .chr), .remove 15 [97] false] {} {} []
    r.1.entries.length = 1 ∧ r.2.1.count = 15 ∧ failIds r.2.1.evs = [7, 15] ∧
    (final r.2.1.evs).map (fun l => l.length) = some 6 ∧ r.1.ids.length = 6 := by decide +kernel


/-- setting the key "a" (HASH_JEN 2652129802) with a character value in an EMPTY table: 8 requests (normalised key 1,
    entry 2, key copy 3, scratch object 4, its text 5, then uthash's table 6 and bucket array 7 — the scratch object is
    released after the move).  Request 7 fails.  As the code is: key copy, entry and normalised key are released, the
    map keeps the freed entry as its head (corrupt), the text 5 and the table header 6 are lost.  Repaired: table
    header, text, key copy, entry and key are released, nothing stays live. -/
example :
    (mapSet true 0 .table {} [97] [97] (some .chr) {}).2.count = 7 ∧
    mapSetPre .table (some .chr) = 5 ∧ mapSetAllocs .table {} [97] [97] (some .chr) = 7 ∧
    (mapSet false 7 .table {} [97] [97] (some .chr) {}).1.corrupt = true ∧
    (mapSet false 7 .table {} [97] [97] (some .chr) {}).1.leaked = [5, 6] ∧
    (mapSet false 7 .table {} [97] [97] (some .chr) {}).2.evs =
      [.alloc 1, .alloc 2, .alloc 3, .alloc 4, .alloc 5, .free 4, .alloc 6, .fail 7, .free 3, .free 2, .free 1] ∧
    final (mapSet false 7 .table {} [97] [97] (some .chr) {}).2.evs = some [6, 5] ∧
    (mapSet true 7 .table {} [97] [97] (some .chr) {}).1.corrupt = false ∧
    (mapSet true 7 .table {} [97] [97] (some .chr) {}).2.evs =
      [.alloc 1, .alloc 2, .alloc 3, .alloc 4, .alloc 5, .free 4, .alloc 6, .fail 7, .free 6, .free 5, .free 3, .free 2, .free 1] ∧
    final (mapSet true 7 .table {} [97] [97] (some .chr) {}).2.evs = some [] := by decide +kernel

/-- the table { 'a': 'hi' } built by that call (fault-free), then (1) a second key whose value clone fails at request
    7 + 3: entry and normalised key are released, the table is untouched; (2) the entry removed again without keeping
    the value: normalised key 8 of the call, then bucket array 7 and table header 6 (last entry), then key 1, key copy 3,
    text 5 and the entry 2 are released: nothing stays live -/
example :
    let m0 := mapSet true 0 .table {} [97] [97] (some .chr) {}
    m0.1.map.entries.length = 1 ∧ final m0.2.evs = some [7, 6, 5, 3, 2, 1] ∧
    (mapSet true (7 + 3) .table m0.1.map [98] [98] (some .chr) m0.2).1.rc = MEMORY_ERROR ∧
    (mapSet true (7 + 3) .table m0.1.map [98] [98] (some .chr) m0.2).2.evs.drop 8 =
      [.alloc 8, .alloc 9, .fail 10, .free 9, .free 8] ∧
    final (mapSet true (7 + 3) .table m0.1.map [98] [98] (some .chr) m0.2).2.evs = some [7, 6, 5, 3, 2, 1] ∧
    (mapRemove 0 .table m0.1.map [97] false m0.2).1.rc = OK ∧
    (mapRemove 0 .table m0.1.map [97] false m0.2).2.evs.drop 8 =
      [.alloc 8, .free 8, .free 7, .free 6, .free 1, .free 3, .free 5, .free 2] ∧
    final (mapRemove 0 .table m0.1.map [97] false m0.2).2.evs = some [] := by decide +kernel

/-- cloning the table { 'a': 'x' } (8 requests: value object 1, entry 2, key 3, key_orig 4, scratch object 5, its text
    6, uthash's table 7 and bucket array 8).  Request 7 fails.  As the code is: key_orig, key and the entry are released,
    the text 6 is lost and the temporary map is corrupt (its walk is undefined behaviour: the value object 1 is never
    released).  Request 8 fails, repaired: table header, text, key_orig, key, entry and value object are released. -/
example :
    let src : List SrcEntry := [{ keyStr := [97], origStr := [97], shape := .chr }]
    (cloneTable true 0 src).2.2.count = 8 ∧
    (cloneTable false 7 src).1.corrupt = true ∧ (cloneTable false 7 src).1.leaked = [6] ∧
    (cloneTable false 7 src).2.2.evs =
      [.alloc 1, .alloc 2, .alloc 3, .alloc 4, .alloc 5, .alloc 6, .free 5, .fail 7, .free 4, .free 3, .free 2] ∧
    final (cloneTable false 7 src).2.2.evs = some [6, 1] ∧
    (cloneTable true 8 src).1.corrupt = false ∧
    (cloneTable true 8 src).2.2.evs = [.alloc 1, .alloc 2, .alloc 3, .alloc 4, .alloc 5, .alloc 6, .free 5, .alloc 7,
      .fail 8, .free 7, .free 6, .free 4, .free 3, .free 2, .free 1] ∧
    final (cloneTable true 8 src).2.2.evs = some [] := by decide +kernel

/-- the blob of { "a": 'x' } (6 requests: key 1, key_orig 2, entry 3, text 4, uthash's table 5 and bucket array 6); request 6
    fails: HASH_ADD_UNDO releases the table header 5, then text 4 and entry 3, key_orig 2, key 1: nothing stays live.
    Names with normalisation, 2 names (11 requests), request 9 (second buffer of the second name) fails: everything released. -/
example :
    (deserTable 0 [{ keyStr := [97], shape := .chr }]).2.2.count = 6 ∧
    (deserTable 6 [{ keyStr := [97], shape := .chr }]).1 = MEMORY_ERROR ∧
    (deserTable 6 [{ keyStr := [97], shape := .chr }]).2.2.evs =
      [.alloc 1, .alloc 2, .alloc 3, .alloc 4, .alloc 5, .fail 6, .free 5, .free 4, .free 3, .free 2, .free 1] ∧
    (getNamesNorm 0 2).2.2.count = 11 ∧ (getNamesNorm 0 2).2.1.length = 3 ∧
    (getNamesNorm 9 2).1 = MEMORY_ERROR ∧ final (getNamesNorm 9 2).2.2.evs = some [] ∧
    (freeIds (getNamesNorm 9 2).2.2.evs).length = 8 := by decide +kernel

/-- uthash's HASH_JEN as transcribed (constants and shifts from Gen/Uthash.lean): the hash of the UTF-16 key "a" -/
example : hashJen (keyBytes [97]) = 2652129802 := by decide +kernel

end CifModel
