import CifModel.Lemmas.ParserDefectSeg
import CifModel.Lemmas.ParserDefectCombo
import CifModel.Props.C12
import CifModel.Props.C12Lex
/-
  Props/C12Two (group gW) — property C12 for MORE THAN ONE defect in a document, token level.

  `C12_seg_<class>`: the class theorems `C12_<class>_at` (Props/C12, Props/C12Lex) in the form of a SEGMENT of the element loop
  (`Seg`, Lemmas/ParserDefectSeg): tokens, content before / after, the report (code, position), walk length, fuel.

  `C12_two_defects`: two defects in DIFFERENT elements of one container (data block, or save frame at any depth): any two
  segments that report once each, the second starting on the content the first leaves.  Under accept-all the element loop logs
  EXACTLY the two reports, in document order, each with its class's code, each at its own position on the scanner's walk (the
  second shifted by the tokens of the first segment), and the content is that of BOTH repairs applied (the second repair applied
  to the result of the first).  `C12_defects_compose` is the same for any number of reports per segment (iterate for n defects).
  `C12_two_defects_missing_value_dup_itemname`: one pair written out in terms of documents (any other pair of `C12_seg_<class>`
  theorems composes the same way).  `C12_dup_header_name_partial_packet`: the two defects that can meet in ONE loop — a dropped
  header name and a short last packet — for all instances.
-/
namespace CifModel
open CifModel.Model CifModel.Model.Lexer CifModel.Model.Parser CifModel.Spec.Grammar CifModel.Spec.Lexical
open CifModel.Gen.ErrCodes

/-! ### the class theorems as segments -/

theorem C12_seg_missing_value (o : Opts) {path : Path} {put : Container → Cif} {code : Str} (hv : View o path put code)
    (isBlock : Bool) (pre post : List Item) (n : Str) (seen seen2 : List Str) (fs : List Container) (ls : List Loop)
    (hpre : wfItems o pre seen = true) (hseen : ∀ k ∈ normNames o ls, k ∈ seen)
    (hname : wfName n = true) (hfresh : o.norm n ∉ normNames o (denoteItems o.dia o.normKey pre ls))
    (hpost : wfItems o post seen2 = true)
    (hseen2 : ∀ k ∈ normNames o (denoteItems o.dia o.normKey (pre ++ [.item n .unk]) ls), k ∈ seen2) :
    Seg o path put code isBlock (itemsToks pre ++ ((.name, n) :: itemsToks post)) fs ls fs
      (denoteItems o.dia o.normKey (pre ++ [.item n .unk] ++ post) ls)
      [(CIF_MISSING_VALUE, (itemsToks pre).length + 1)] ((itemsToks pre).length + 1 + (itemsToks post).length)
      (post.length + 1 + pre.length) (szItems pre + szItems post + 1) termFollow :=
  Seg.of_at fun rest s fuel w hw hf hfol hF =>
    C12_missing_value_at o hv pre post n seen seen2 rest s fuel w fs ls isBlock hw hpre hseen hname hfresh hpost hseen2 hf
      (Or.inr hfol) (fun _ => hfol) (by simpa [List.append_assoc] using hF)

theorem C12_seg_unexpected_value (o : Opts) {path : Path} {put : Container → Cif} {code : Str} (hv : View o path put code)
    (isBlock : Bool) (pre post : List Item) (v : Val) (seen seen2 : List Str) (fs : List Container) (ls : List Loop)
    (hpre : wfItems o pre seen = true) (hseen : ∀ k ∈ normNames o ls, k ∈ seen) (hnoloop : lastIsLoop pre = false)
    (hwv : wfVal o v = true) (hpost : wfItems o post seen2 = true)
    (hseen2 : ∀ k ∈ normNames o (denoteItems o.dia o.normKey pre ls), k ∈ seen2) :
    Seg o path put code isBlock (itemsToks pre ++ (valToks v ++ itemsToks post)) fs ls fs
      (denoteItems o.dia o.normKey (pre ++ post) ls)
      [(CIF_UNEXPECTED_VALUE, (itemsToks pre).length + 0)] ((itemsToks pre).length + (valToks v).length + (itemsToks post).length)
      (post.length + 1 + pre.length) (szItems pre + szItems post + szVal v + 1) termFollow :=
  Seg.of_at fun rest s fuel w hw hf hfol hF =>
    C12_unexpected_value_at o hv pre post v seen seen2 rest s fuel w fs ls isBlock hw hpre hseen hnoloop hwv hpost hseen2 hf
      (fun _ => hfol) (by simpa [List.append_assoc] using hF)

theorem C12_seg_dup_itemname (o : Opts) {path : Path} {put : Container → Cif} {code : Str} (hv : View o path put code)
    (isBlock : Bool) (pre post : List Item) (n : Str) (v : Val) (seen seen2 : List Str) (fs : List Container) (ls : List Loop)
    (hpre : wfItems o pre seen = true) (hseen : ∀ k ∈ normNames o ls, k ∈ seen)
    (hname : wfName n = true) (hdup : o.norm n ∈ normNames o (denoteItems o.dia o.normKey pre ls))
    (hwv : wfVal o v = true) (hpost : wfItems o post seen2 = true)
    (hseen2 : ∀ k ∈ normNames o (denoteItems o.dia o.normKey pre ls), k ∈ seen2) :
    Seg o path put code isBlock (itemsToks pre ++ (((.name, n) :: valToks v) ++ itemsToks post)) fs ls fs
      (denoteItems o.dia o.normKey (pre ++ post) ls)
      [(CIF_DUP_ITEMNAME, (itemsToks pre).length + 1)]
      ((itemsToks pre).length + (1 + (valToks v).length) + (itemsToks post).length)
      (post.length + 1 + pre.length) (szItems pre + szItems post + szVal v + 1) termFollow :=
  Seg.of_at fun rest s fuel w hw hf hfol hF =>
    C12_dup_itemname_at o hv pre post n v seen seen2 rest s fuel w fs ls isBlock hw hpre hseen hname hdup hwv hpost hseen2 hf
      (fun _ => hfol) (by simpa [List.append_assoc] using hF)

theorem C12_seg_invalid_itemname (o : Opts) {path : Path} {put : Container → Cif} {code : Str} (hv : View o path put code)
    (isBlock : Bool) (pre post : List Item) (n : Str) (v : Val) (seen seen2 : List Str) (fs : List Container) (ls : List Loop)
    (hpre : wfItems o pre seen = true) (hseen : ∀ k ∈ normNames o ls, k ∈ seen)
    (hn0 : noNul n = true) (hinv : isValidName true n = false)
    (hwv : wfVal o v = true) (hpost : wfItems o post seen2 = true)
    (hseen2 : ∀ k ∈ normNames o (denoteItems o.dia o.normKey pre ls), k ∈ seen2) :
    Seg o path put code isBlock (itemsToks pre ++ (((.name, n) :: valToks v) ++ itemsToks post)) fs ls fs
      (denoteItems o.dia o.normKey (pre ++ post) ls)
      [(CIF_INVALID_ITEMNAME, (itemsToks pre).length + 1)]
      ((itemsToks pre).length + (1 + (valToks v).length) + (itemsToks post).length)
      (post.length + 1 + pre.length) (szItems pre + szItems post + szVal v + 1) termFollow :=
  Seg.of_at fun rest s fuel w hw hf hfol hF =>
    C12_invalid_itemname_at o hv pre post n v seen seen2 rest s fuel w fs ls isBlock hw hpre hseen hn0 hinv hwv hpost hseen2 hf
      (fun _ => hfol) (by simpa [List.append_assoc] using hF)

theorem C12_seg_unexpected_delim (o : Opts) {path : Path} {put : Container → Cif} {code : Str} (hv : View o path put code)
    (isBlock : Bool) (pre post : List Item) (ty : TokType) (tx : Str) (seen seen2 : List Str) (fs : List Container) (ls : List Loop)
    (hty : ty = .clist ∨ ty = .ctable)
    (hpre : wfItems o pre seen = true) (hseen : ∀ k ∈ normNames o ls, k ∈ seen) (hnoloop : lastIsLoop pre = false)
    (hpost : wfItems o post seen2 = true)
    (hseen2 : ∀ k ∈ normNames o (denoteItems o.dia o.normKey pre ls), k ∈ seen2) :
    Seg o path put code isBlock (itemsToks pre ++ ([(ty, tx)] ++ itemsToks post)) fs ls fs
      (denoteItems o.dia o.normKey (pre ++ post) ls)
      [(CIF_UNEXPECTED_DELIM, (itemsToks pre).length + 0)] ((itemsToks pre).length + 1 + (itemsToks post).length)
      (post.length + 1 + pre.length) (szItems pre + szItems post + 1) termFollow :=
  Seg.of_at fun rest s fuel w hw hf hfol hF =>
    C12_unexpected_delim_at o hv pre post ty tx seen seen2 rest s fuel w fs ls isBlock hw hty hpre hseen hnoloop hpost hseen2 hf
      (fun _ => hfol) (by simpa [List.append_assoc] using hF)

/-- the partial packet: what follows the short packet must end the loop body (`itemsToks post ++ rest` starts with a terminator:
    true for any non-empty `post`, demanded of `rest` otherwise) -/
theorem C12_seg_partial_packet (o : Opts) {path : Path} {put : Container → Cif} {code : Str} (hv : View o path put code)
    (isBlock : Bool) (pre post : List Item) (ns : List Str) (ps : List (List Val)) (pv : List Val) (seen seen2 : List Str)
    (fs : List Container) (ls : List Loop)
    (hpre : wfItems o pre seen = true) (hseen : ∀ k ∈ normNames o ls, k ∈ seen)
    (hwf : ∀ n ∈ ns, wfName n = true) (hfresh : ∀ n ∈ ns, o.norm n ∉ normNames o (denoteItems o.dia o.normKey pre ls))
    (hnd : (ns.map o.norm).Nodup) (hlen : ∀ p ∈ ps, p.length = ns.length) (hwv : ∀ p ∈ ps, wfVals o p = true)
    (hpv : pv ≠ []) (hpl : pv.length < ns.length) (hwpv : wfVals o pv = true)
    (hpost : wfItems o post seen2 = true)
    (hseen2 : ∀ k ∈ normNames o (denoteItems o.dia o.normKey
        [.loop ns (ps ++ [pv ++ List.replicate (ns.length - pv.length) Val.unk])] (denoteItems o.dia o.normKey pre ls)), k ∈ seen2) :
    Seg o path put code isBlock
      (itemsToks pre ++ (((.loopKw, []) :: (ns.map (fun n => (TokType.name, n)) ++ (packetsToks ps ++ valsToks pv))) ++ itemsToks post))
      fs ls fs
      (denoteItems o.dia o.normKey (pre ++ [.loop ns (ps ++ [pv ++ List.replicate (ns.length - pv.length) Val.unk])] ++ post) ls)
      [(CIF_PARTIAL_PACKET, (itemsToks pre).length + (1 + ns.length + (packetsToks ps).length + (valsToks pv).length))]
      ((itemsToks pre).length + (1 + ns.length + (packetsToks ps).length + (valsToks pv).length) + (itemsToks post).length)
      (post.length + 1 + pre.length) (szItems pre + szItems post + (ns.length + szPackets ps + szVals pv + 2) + 1) termFollow :=
  Seg.of_at fun rest s fuel w hw hf hfol hF =>
    C12_partial_packet_at o hv pre post ns ps pv seen seen2 rest s fuel w fs ls isBlock hw hpre hseen hwf hfresh hnd hlen hwv hpv hpl
      hwpv hpost hseen2 hf (items_rest_head post rest hfol) (fun _ => hfol) (by simpa [List.append_assoc] using hF)

theorem C12_seg_dup_header_name (o : Opts) {path : Path} {put : Container → Cif} {code : Str} (hv : View o path put code)
    (isBlock : Bool) (pre post : List Item) (ns1 ns2 : List Str) (n' : Str) (p0 : List Val) (ps : List (List Val))
    (seen seen2 : List Str) (fs : List Container) (ls : List Loop)
    (hpre : wfItems o pre seen = true) (hseen : ∀ k ∈ normNames o ls, k ∈ seen)
    (hwf : ∀ n ∈ ns1 ++ ns2, wfName n = true)
    (hfresh : ∀ n ∈ ns1 ++ ns2, o.norm n ∉ normNames o (denoteItems o.dia o.normKey pre ls))
    (hnd : ((ns1 ++ ns2).map o.norm).Nodup) (hne : ns1 ++ ns2 ≠ []) (hname : wfName n' = true)
    (hdup : o.norm n' ∈ normNames o (denoteItems o.dia o.normKey pre ls) ∨ ∃ m ∈ ns1, o.norm m = o.norm n')
    (hlen : ∀ p ∈ p0 :: ps, p.length = ns1.length + 1 + ns2.length) (hwv : ∀ p ∈ p0 :: ps, wfVals o p = true)
    (hpost : wfItems o post seen2 = true)
    (hseen2 : ∀ k ∈ normNames o (denoteItems o.dia o.normKey pre ls ++ [mkLoop (ns1 ++ ns2)
        ((p0 :: ps).map (fun p => (denoteVals o.dia o.normKey p).eraseIdx ns1.length))]), k ∈ seen2) :
    Seg o path put code isBlock
      (itemsToks pre ++ (((.loopKw, []) :: (ns1.map (fun n => (TokType.name, n)) ++ ((.name, n') ::
        (ns2.map (fun n => (TokType.name, n)) ++ packetsToks (p0 :: ps))))) ++ itemsToks post))
      fs ls fs
      (denoteItems o.dia o.normKey post (denoteItems o.dia o.normKey pre ls ++ [mkLoop (ns1 ++ ns2)
        ((p0 :: ps).map (fun p => (denoteVals o.dia o.normKey p).eraseIdx ns1.length))]))
      [(CIF_DUP_ITEMNAME, (itemsToks pre).length + (1 + ns1.length))]
      ((itemsToks pre).length + (1 + ns1.length + 1 + ns2.length + (packetsToks (p0 :: ps)).length) + (itemsToks post).length)
      (post.length + 1 + pre.length) (szItems pre + szItems post + (ns1.length + ns2.length + szPackets (p0 :: ps) + 3) + 1)
      termFollow :=
  Seg.of_at fun rest s fuel w hw hf hfol hF =>
    C12_dup_header_name_at o hv pre post ns1 ns2 n' p0 ps seen seen2 rest s fuel w fs ls isBlock hw hpre hseen hwf hfresh hnd hne hname
      hdup hlen hwv hpost hseen2 hf (items_rest_head post rest hfol) (fun _ => hfol) (by simpa [List.append_assoc] using hF)

theorem C12_seg_missing_delim_list (o : Opts) {path : Path} {put : Container → Cif} {code : Str} (hv : View o path put code)
    (isBlock : Bool) (pre post : List Item) (n btx : Str) (vs : List Val) (seen seen2 : List Str) (fs : List Container) (ls : List Loop)
    (hpre : wfItems o pre seen = true) (hseen : ∀ k ∈ normNames o ls, k ∈ seen)
    (hname : wfName n = true) (hfresh : o.norm n ∉ normNames o (denoteItems o.dia o.normKey pre ls))
    (hwv : wfVals o vs = true) (hpost : wfItems o post seen2 = true)
    (hseen2 : ∀ k ∈ normNames o (denoteItems o.dia o.normKey (pre ++ [.item n (.lst vs)]) ls), k ∈ seen2) :
    Seg o path put code isBlock (itemsToks pre ++ (((.name, n) :: (.olist, btx) :: valsToks vs) ++ itemsToks post)) fs ls fs
      (denoteItems o.dia o.normKey (pre ++ [.item n (.lst vs)] ++ post) ls)
      [(CIF_MISSING_DELIM, (itemsToks pre).length + (1 + (1 + (valsToks vs).length)))]
      ((itemsToks pre).length + (1 + (1 + (valsToks vs).length)) + (itemsToks post).length)
      (post.length + 1 + pre.length) (szItems pre + szItems post + (szVals vs + 2) + 1) termFollow :=
  Seg.of_at fun rest s fuel w hw hf hfol hF =>
    C12_missing_delim_list_at o hv pre post n btx vs seen seen2 rest s fuel w fs ls isBlock hw hpre hseen hname hfresh hwv hpost hseen2
      hf (Or.inr hfol) (fun _ => hfol) (by simpa [List.append_assoc] using hF)

theorem C12_seg_null_key (o : Opts) {path : Path} {put : Container → Cif} {code : Str} (hv : View o path put code)
    (isBlock : Bool) (pre post : List Item) (n btx : Str) (epre epost : List (Str × Presentation × Val)) (v : Val)
    (seen seen2 : List Str) (fs : List Container) (ls : List Loop)
    (hpre : wfItems o pre seen = true) (hseen : ∀ k ∈ normNames o ls, k ∈ seen)
    (hname : wfName n = true) (hfresh : o.norm n ∉ normNames o (denoteItems o.dia o.normKey pre ls))
    (hepre : wfEntries o epre = true) (hepost : wfEntries o epost = true) (hwv : wfVal o v = true)
    (hpost : wfItems o post seen2 = true)
    (hseen2 : ∀ x ∈ normNames o (denoteItems o.dia o.normKey (pre ++ [.item n (.tbl (epre ++ [] ++ epost))]) ls), x ∈ seen2) :
    Seg o path put code isBlock
      (itemsToks pre ++ (((.name, n) :: (.otable, btx) ::
        (entriesToks epre ++ (((TokType.value, [colon]) :: valToks v) ++ (entriesToks epost ++ [(.ctable, [125])])))) ++ itemsToks post))
      fs ls fs
      (denoteItems o.dia o.normKey (pre ++ [.item n (.tbl (epre ++ [] ++ epost))] ++ post) ls)
      [(CIF_NULL_KEY, (itemsToks pre).length + (1 + (1 + ((entriesToks epre).length + 0))))]
      ((itemsToks pre).length + (1 + (1 + ((entriesToks epre).length + (1 + (valToks v).length) + ((entriesToks epost).length + 1))))
          + (itemsToks post).length)
      (post.length + 1 + pre.length)
      (szItems pre + szItems post + (szEntries epre + szEntries epost + (szVal v) + 2 + 2 * epre.length + 3) + 1) termFollow :=
  Seg.of_at fun rest s fuel w hw hf hfol hF =>
    C12_null_key_at o hv pre post n btx epre epost v seen seen2 rest s fuel w fs ls isBlock hw hpre hseen hname hfresh hepre hepost hwv
      hpost hseen2 hf (fun _ => hfol) (by simpa [List.append_assoc] using hF)

theorem C12_seg_missing_key (o : Opts) {path : Path} {put : Container → Cif} {code : Str} (hv : View o path put code)
    (isBlock : Bool) (pre post : List Item) (n btx : Str) (epre epost : List (Str × Presentation × Val)) (v : Val)
    (seen seen2 : List Str) (fs : List Container) (ls : List Loop)
    (hpre : wfItems o pre seen = true) (hseen : ∀ k ∈ normNames o ls, k ∈ seen)
    (hname : wfName n = true) (hfresh : o.norm n ∉ normNames o (denoteItems o.dia o.normKey pre ls))
    (hepre : wfEntries o epre = true) (hepost : wfEntries o epost = true) (hnb : notBare v = true) (hwv : wfVal o v = true)
    (hpost : wfItems o post seen2 = true)
    (hseen2 : ∀ x ∈ normNames o (denoteItems o.dia o.normKey (pre ++ [.item n (.tbl (epre ++ [] ++ epost))]) ls), x ∈ seen2) :
    Seg o path put code isBlock
      (itemsToks pre ++ (((.name, n) :: (.otable, btx) ::
        (entriesToks epre ++ ((valToks v) ++ (entriesToks epost ++ [(.ctable, [125])])))) ++ itemsToks post))
      fs ls fs
      (denoteItems o.dia o.normKey (pre ++ [.item n (.tbl (epre ++ [] ++ epost))] ++ post) ls)
      [(CIF_MISSING_KEY, (itemsToks pre).length + (1 + (1 + ((entriesToks epre).length + 0))))]
      ((itemsToks pre).length + (1 + (1 + ((entriesToks epre).length + (valToks v).length + ((entriesToks epost).length + 1))))
          + (itemsToks post).length)
      (post.length + 1 + pre.length)
      (szItems pre + szItems post + (szEntries epre + szEntries epost + (szVal v) + 1 + 2 * epre.length + 3) + 1) termFollow :=
  Seg.of_at fun rest s fuel w hw hf hfol hF =>
    C12_missing_key_at o hv pre post n btx epre epost v seen seen2 rest s fuel w fs ls isBlock hw hpre hseen hname hfresh hepre hepost hnb
      hwv hpost hseen2 hf (fun _ => hfol) (by simpa [List.append_assoc] using hF)

theorem C12_seg_table_missing_value (o : Opts) {path : Path} {put : Container → Cif} {code : Str} (hv : View o path put code)
    (isBlock : Bool) (pre post : List Item) (n btx : Str) (epre epost : List (Str × Presentation × Val)) (k : Str) (kp : Presentation)
    (seen seen2 : List Str) (fs : List Container) (ls : List Loop)
    (hpre : wfItems o pre seen = true) (hseen : ∀ k ∈ normNames o ls, k ∈ seen)
    (hname : wfName n = true) (hfresh : o.norm n ∉ normNames o (denoteItems o.dia o.normKey pre ls))
    (hepre : wfEntries o epre = true) (hepost : wfEntries o epost = true) (hk0 : noNul k = true) (hkd : hasDisallowed k = false)
    (hpost : wfItems o post seen2 = true)
    (hseen2 : ∀ x ∈ normNames o (denoteItems o.dia o.normKey (pre ++ [.item n (.tbl (epre ++ [(k, kp, Val.unk)] ++ epost))]) ls), x ∈ seen2) :
    Seg o path put code isBlock
      (itemsToks pre ++ (((.name, n) :: (.otable, btx) ::
        (entriesToks epre ++ ([(TokType.key, k)] ++ (entriesToks epost ++ [(.ctable, [125])])))) ++ itemsToks post))
      fs ls fs
      (denoteItems o.dia o.normKey (pre ++ [.item n (.tbl (epre ++ [(k, kp, Val.unk)] ++ epost))] ++ post) ls)
      [(CIF_MISSING_VALUE, (itemsToks pre).length + (1 + (1 + ((entriesToks epre).length + 1))))]
      ((itemsToks pre).length + (1 + (1 + ((entriesToks epre).length + 1 + ((entriesToks epost).length + 1))))
          + (itemsToks post).length)
      (post.length + 1 + pre.length)
      (szItems pre + szItems post + (szEntries epre + szEntries epost + 0 + 2 + 2 * epre.length + 3) + 1) termFollow :=
  Seg.of_at fun rest s fuel w hw hf hfol hF =>
    C12_table_missing_value_at o hv pre post n btx epre epost k kp seen seen2 rest s fuel w fs ls isBlock hw hpre hseen hname hfresh hepre
      hepost hk0 hkd hpost hseen2 hf (fun _ => hfol) (by simpa [List.append_assoc] using hF)

/-! ### composition -/

/-- **C12_defects_compose** — defects in different parts of one container: the reports of both segments and nothing else, in
    document order; positions of the second segment's reports counted from the start of the first; content = the second
    segment applied to what the first leaves -/
theorem C12_defects_compose {o : Opts} {path : Path} {put : Container → Cif} {code : Str} {isBlock : Bool} {T1 T2 : List TokSpec}
    {fs ls fs1 ls1 fs2 ls2} {sp1 sp2 : List (Code × Nat)} {n1 k1 need1 n2 k2 need2 : Nat} {follow1 follow2 : List TokSpec → Prop}
    (h1 : Seg o path put code isBlock T1 fs ls fs1 ls1 sp1 n1 k1 need1 follow1)
    (h2 : Seg o path put code isBlock T2 fs1 ls1 fs2 ls2 sp2 n2 k2 need2 follow2)
    (hfol : ∀ rest, follow2 rest → follow1 (T2 ++ rest)) :
    Seg o path put code isBlock (T1 ++ T2) fs ls fs2 ls2 (sp1 ++ shiftSpec n1 sp2) (n1 + n2) (k2 + k1) (need1 + need2) follow2 :=
  Seg.comp h1 h2 hfol

/-- **C12_two_defects** — two defects in DIFFERENT elements of one container (any container: data block, save frame at any
    depth), each of a class with an `_at` theorem (a segment with one report): under accept-all the element loop goes from the
    first token of the first segment to the token behind the second having logged EXACTLY TWO reports, `r1` then `r2` — each once,
    each with its class's code, in document order, `r1` made `j1` tokens into the run, `r2` made `n1 + j2` tokens into it —, and the
    container holds what BOTH repairs leave (`fs2, ls2`: the second repair applied to the result `fs1, ls1` of the first). -/
theorem C12_two_defects {o : Opts} {path : Path} {put : Container → Cif} {code : Str} {isBlock : Bool} {T1 T2 : List TokSpec}
    {fs ls fs1 ls1 fs2 ls2} {C1 C2 : Code} {j1 j2 n1 k1 need1 n2 k2 need2 : Nat} {follow1 follow2 : List TokSpec → Prop}
    (h1 : Seg o path put code isBlock T1 fs ls fs1 ls1 [(C1, j1)] n1 k1 need1 follow1)
    (h2 : Seg o path put code isBlock T2 fs1 ls1 fs2 ls2 [(C2, j2)] n2 k2 need2 follow2)
    (hfol : ∀ rest, follow2 rest → follow1 (T2 ++ rest))
    (rest : List TokSpec) (s : PS) (fuel : Nat) (w : W) (hw : w.cif = put (.mk code fs ls)) (hf : need1 + need2 ≤ fuel)
    (hrest : follow2 rest) (hF : Feeds o s (T1 ++ (T2 ++ rest))) :
    ∃ s' r1 r2, elemsLoop o (fuel + (k2 + k1)) s (some path) isBlock acceptAll w
        = elemsLoop o fuel s' (some path) isBlock acceptAll { log := r2 :: r1 :: w.log, cif := put (.mk code fs2 ls2) }
      ∧ r1.code = C1 ∧ r2.code = C2 ∧ RepAt o s j1 r1 ∧ RepAt o s (n1 + j2) r2 ∧ Feeds o s' rest ∧ At o s (n1 + n2) s' := by
  obtain ⟨s', rs, e, hr, hfe, ha⟩ := Seg.comp h1 h2 hfol rest s fuel w hw hf hrest (by simpa [List.append_assoc] using hF)
  obtain ⟨r1, r2, rfl, c1, p1, c2, p2⟩ := RepsAt.two (by simpa [shiftSpec] using hr)
  exact ⟨s', r1, r2, by simpa using e, c1, c2, p1, p2, hfe, ha⟩

/-! ### pairs written out for documents -/

/-- **a name without value, and further on a duplicate data name**: `pre  _n  mid  _m v  post` with `_m` already defined (in
    `pre`, in `mid`, or as the recovered `_n` itself).  CIF_MISSING_VALUE then CIF_DUP_ITEMNAME; the content is that of
    `pre  _n ?  mid  post`. -/
theorem C12_two_defects_missing_value_dup_itemname (o : Opts) {path : Path} {put : Container → Cif} {code : Str}
    (hv : View o path put code) (isBlock : Bool) (pre mid post : List Item) (n m : Str) (v : Val) (seen seen2 seen3 : List Str)
    (fs : List Container) (ls : List Loop) (rest : List TokSpec) (s : PS) (fuel : Nat) (w : W)
    (hw : w.cif = put (.mk code fs ls))
    (hpre : wfItems o pre seen = true) (hseen : ∀ k ∈ normNames o ls, k ∈ seen)
    (hname : wfName n = true) (hfresh : o.norm n ∉ normNames o (denoteItems o.dia o.normKey pre ls))
    (hmid : wfItems o mid seen2 = true)
    (hseen2 : ∀ k ∈ normNames o (denoteItems o.dia o.normKey (pre ++ [.item n .unk]) ls), k ∈ seen2)
    (hname2 : wfName m = true)
    (hdup : o.norm m ∈ normNames o (denoteItems o.dia o.normKey (pre ++ [.item n .unk] ++ mid) ls))
    (hwv : wfVal o v = true) (hpost : wfItems o post seen3 = true)
    (hseen3 : ∀ k ∈ normNames o (denoteItems o.dia o.normKey (pre ++ [.item n .unk] ++ mid) ls), k ∈ seen3)
    (hf : (szItems pre + szItems mid + 1) + (szItems post + szVal v + 1) ≤ fuel)
    (hrest : termFollow rest)
    (hF : Feeds o s ((itemsToks pre ++ ((.name, n) :: itemsToks mid)) ++ (((.name, m) :: valToks v) ++ itemsToks post ++ rest))) :
    ∃ s' r1 r2, elemsLoop o (fuel + ((post.length + 1 + 0) + (mid.length + 1 + pre.length))) s (some path) isBlock acceptAll w
        = elemsLoop o fuel s' (some path) isBlock acceptAll
            { log := r2 :: r1 :: w.log,
              cif := put (.mk code fs (denoteItems o.dia o.normKey (pre ++ [.item n .unk] ++ mid ++ post) ls)) }
      ∧ r1.code = CIF_MISSING_VALUE ∧ r2.code = CIF_DUP_ITEMNAME
      ∧ RepAt o s ((itemsToks pre).length + 1) r1
      ∧ RepAt o s (((itemsToks pre).length + 1 + (itemsToks mid).length) + 1) r2
      ∧ Feeds o s' rest := by
  have S1 := C12_seg_missing_value o hv isBlock pre mid n seen seen2 fs ls hpre hseen hname hfresh hmid hseen2
  have S2 := C12_seg_dup_itemname o hv isBlock [] post m v seen3 seen3 fs
    (denoteItems o.dia o.normKey (pre ++ [.item n .unk] ++ mid) ls) rfl hseen3 hname2 (by simpa [denoteItems] using hdup) hwv hpost
    (by simpa [denoteItems] using hseen3)
  obtain ⟨s', r1, r2, e, c1, c2, p1, p2, hfe, _⟩ := C12_two_defects S1 S2
    (fun rest' _ => ⟨.name, m, valToks v ++ (itemsToks post ++ rest'), by simp [itemsToks], rfl⟩) rest s fuel w hw (by simpa [szItems] using hf) hrest
    (by simpa [itemsToks, List.append_assoc] using hF)
  refine ⟨s', r1, r2, ?_, c1, c2, p1, by simpa [itemsToks] using p2, hfe⟩
  simpa [denoteItems_append, denoteItems] using e

/-! ### two defects in ONE loop: a dropped header name and a short last packet -/

theorem termFollow_loopKw (tx : Str) (rest : List TokSpec) : termFollow ((.loopKw, tx) :: rest) := ⟨_, _, _, rfl, rfl⟩

/-- **C12_dup_header_name_partial_packet** (segment form) — any container, any well-formed items before and behind: a loop whose
    header `ns₁ ++ [n'] ++ ns₂` repeats in `n'` (any spelling) a name of the container / of the items in front / of `ns₁`, with
    complete packets `ps` and a short last packet `pv`.  EXACTLY two reports, CIF_DUP_ITEMNAME at the repeated name and
    CIF_PARTIAL_PACKET behind the last value; the loop has the names `ns₁ ++ ns₂`, and every packet — the last one padded with
    unknown values to the full width — lacks the value of the dropped column.  ALL instances (group gJ: evaluated instances). -/
theorem C12_seg_dup_header_name_partial_packet (o : Opts) {path : Path} {put : Container → Cif} {code : Str} (hv : View o path put code)
    (isBlock : Bool) (pre post : List Item) (ns1 ns2 : List Str) (n' : Str) (ps : List (List Val)) (pv : List Val)
    (seen seen2 : List Str) (fs : List Container) (ls : List Loop)
    (hpre : wfItems o pre seen = true) (hseen : ∀ k ∈ normNames o ls, k ∈ seen)
    (hwf : ∀ n ∈ ns1 ++ ns2, wfName n = true)
    (hfresh : ∀ n ∈ ns1 ++ ns2, o.norm n ∉ normNames o (denoteItems o.dia o.normKey pre ls))
    (hnd : ((ns1 ++ ns2).map o.norm).Nodup) (hne : ns1 ++ ns2 ≠ []) (hname : wfName n' = true)
    (hdup : o.norm n' ∈ normNames o (denoteItems o.dia o.normKey pre ls) ∨ ∃ m ∈ ns1, o.norm m = o.norm n')
    (hlen : ∀ p ∈ ps, p.length = ns1.length + 1 + ns2.length) (hwv : ∀ p ∈ ps, wfVals o p = true)
    (hpv : pv ≠ []) (hpl : pv.length < ns1.length + 1 + ns2.length) (hwpv : wfVals o pv = true)
    (hpost : wfItems o post seen2 = true)
    (hseen2 : ∀ k ∈ normNames o (denoteItems o.dia o.normKey pre ls ++ [mkLoop (ns1 ++ ns2)
        (ps.map (fun p => (denoteVals o.dia o.normKey p).eraseIdx ns1.length) ++
          [(denoteVals o.dia o.normKey pv ++ List.replicate (ns1.length + 1 + ns2.length - pv.length) V.unk).eraseIdx ns1.length])]),
      k ∈ seen2) :
    Seg o path put code isBlock
      ((itemsToks pre ++ ((.loopKw, []) :: (ns1.map (fun n => (TokType.name, n)) ++ ((.name, n') ::
        (ns2.map (fun n => (TokType.name, n)) ++ (packetsToks ps ++ valsToks pv)))))) ++ itemsToks post)
      fs ls fs
      (denoteItems o.dia o.normKey post (denoteItems o.dia o.normKey pre ls ++ [mkLoop (ns1 ++ ns2)
        (ps.map (fun p => (denoteVals o.dia o.normKey p).eraseIdx ns1.length) ++
          [(denoteVals o.dia o.normKey pv ++ List.replicate (ns1.length + 1 + ns2.length - pv.length) V.unk).eraseIdx ns1.length])]))
      [(CIF_DUP_ITEMNAME, (itemsToks pre).length + (1 + ns1.length)),
       (CIF_PARTIAL_PACKET, (itemsToks pre).length + (1 + ns1.length + 1 + ns2.length + (packetsToks ps).length + (valsToks pv).length))]
      ((itemsToks pre).length + (1 + ns1.length + 1 + ns2.length + (packetsToks ps).length + (valsToks pv).length)
        + (itemsToks post).length)
      (post.length + (1 + pre.length))
      (szItems pre + (ns1.length + ns2.length + szPackets ps + szVals pv + 4) + szItems post) termFollow := by
  have A := Seg.items o hv isBlock pre seen fs ls hpre hseen
  have B := Seg.dup_header_partial o hv isBlock ns1 ns2 n' ps pv fs (denoteItems o.dia o.normKey pre ls) hwf hfresh hnd hne hname hdup hlen hwv
    hpv hpl hwpv
  have C := Seg.items o hv isBlock post seen2 fs _ hpost hseen2
  have h := Seg.comp (Seg.comp A B (fun rest _ => termFollow_loopKw _ _)) C (fun rest hr => items_rest_head post rest hr)
  simpa only [List.nil_append, shiftSpec, List.map_nil, List.map_cons, List.append_nil] using h

/-- **C12_dup_header_name_partial_packet** — the same in the form of the `_at` theorems -/
theorem C12_dup_header_name_partial_packet (o : Opts) {path : Path} {put : Container → Cif} {code : Str} (hv : View o path put code)
    (isBlock : Bool) (pre post : List Item) (ns1 ns2 : List Str) (n' : Str) (ps : List (List Val)) (pv : List Val)
    (seen seen2 : List Str) (fs : List Container) (ls : List Loop) (rest : List TokSpec) (s : PS) (fuel : Nat) (w : W)
    (hcif : w.cif = put (.mk code fs ls))
    (hpre : wfItems o pre seen = true) (hseen : ∀ k ∈ normNames o ls, k ∈ seen)
    (hwf : ∀ n ∈ ns1 ++ ns2, wfName n = true)
    (hfresh : ∀ n ∈ ns1 ++ ns2, o.norm n ∉ normNames o (denoteItems o.dia o.normKey pre ls))
    (hnd : ((ns1 ++ ns2).map o.norm).Nodup) (hne : ns1 ++ ns2 ≠ []) (hname : wfName n' = true)
    (hdup : o.norm n' ∈ normNames o (denoteItems o.dia o.normKey pre ls) ∨ ∃ m ∈ ns1, o.norm m = o.norm n')
    (hlen : ∀ p ∈ ps, p.length = ns1.length + 1 + ns2.length) (hwv : ∀ p ∈ ps, wfVals o p = true)
    (hpv : pv ≠ []) (hpl : pv.length < ns1.length + 1 + ns2.length) (hwpv : wfVals o pv = true)
    (hpost : wfItems o post seen2 = true)
    (hseen2 : ∀ k ∈ normNames o (denoteItems o.dia o.normKey pre ls ++ [mkLoop (ns1 ++ ns2)
        (ps.map (fun p => (denoteVals o.dia o.normKey p).eraseIdx ns1.length) ++
          [(denoteVals o.dia o.normKey pv ++ List.replicate (ns1.length + 1 + ns2.length - pv.length) V.unk).eraseIdx ns1.length])]),
      k ∈ seen2)
    (hfuel : szItems pre + (ns1.length + ns2.length + szPackets ps + szVals pv + 4) + szItems post ≤ fuel)
    (hrest : termFollow rest)
    (hF : Feeds o s (((itemsToks pre ++ ((.loopKw, []) :: (ns1.map (fun n => (TokType.name, n)) ++ ((.name, n') ::
        (ns2.map (fun n => (TokType.name, n)) ++ (packetsToks ps ++ valsToks pv)))))) ++ itemsToks post) ++ rest)) :
    ∃ s' r1 r2, elemsLoop o (fuel + (post.length + (1 + pre.length))) s (some path) isBlock acceptAll w
        = elemsLoop o fuel s' (some path) isBlock acceptAll
            { log := r2 :: r1 :: w.log,
              cif := put (.mk code fs (denoteItems o.dia o.normKey post (denoteItems o.dia o.normKey pre ls ++ [mkLoop (ns1 ++ ns2)
                (ps.map (fun p => (denoteVals o.dia o.normKey p).eraseIdx ns1.length) ++
                  [(denoteVals o.dia o.normKey pv ++ List.replicate (ns1.length + 1 + ns2.length - pv.length) V.unk).eraseIdx
                    ns1.length])]))) }
      ∧ r1.code = CIF_DUP_ITEMNAME ∧ r2.code = CIF_PARTIAL_PACKET
      ∧ RepAt o s ((itemsToks pre).length + (1 + ns1.length)) r1
      ∧ RepAt o s ((itemsToks pre).length + (1 + ns1.length + 1 + ns2.length + (packetsToks ps).length + (valsToks pv).length)) r2
      ∧ Feeds o s' rest := by
  obtain ⟨s', rs, e, hr, hfe, _⟩ := C12_seg_dup_header_name_partial_packet o hv isBlock pre post ns1 ns2 n' ps pv seen seen2 fs ls hpre hseen
    hwf hfresh hnd hne hname hdup hlen hwv hpv hpl hwpv hpost hseen2 rest s fuel w hcif hfuel hrest hF
  obtain ⟨r1, r2, rfl, c1, p1, c2, p2⟩ := RepsAt.two hr
  exact ⟨s', r1, r2, by simpa using e, c1, c2, p1, p2, hfe⟩

end CifModel
