import CifModel.Lemmas.FeedsRender
import CifModel.Props.C01parse
/-
  Props/C01Render — property C01 end to end: for every well-formed abstract document `d` and every layout `l` that the
  lexical grammar admits (`C01_feedOk`, decidable), parsing the characters `render d l` returns CIF_OK, reports nothing
  and yields exactly the content `denote d` — under every callback policy; consequently two layouts (or two choices of
  presentation with the same tokens) of one document parse to the same outcome.

  The theorems compose  C01_structure / C01_parse_render_partial  (productions over a token sequence; Props/C01parse.lean,
  Lemmas/ParserStructure.lean)  with  C01_feeds  (the rendered characters make the scanner deliver that token sequence;
  Lemmas/FeedsRender.lean on top of the scanner theorems of Props/C01.lean).  No hypothesis about the scanner is left.
-/
namespace CifModel
open CifModel.Model CifModel.Model.Lexer CifModel.Model.Parser CifModel.Spec.Grammar CifModel.Spec.Lexical CifModel.FeedsRender

/-- what a document and a layout owe the scanner (decidable; see `FeedsRender.linOk`): each string admissible in its
    presentation, names / codes of non-blank allowed characters, keys in a quoted presentation, brackets / keys / triple
    quotes only in CIF 2.0; separators made of well-formed atoms, non-empty where a token needs whitespace in front of it or
    behind it, no comment glued to a token; a text field at the beginning of a line, a bare value that begins with `;` not -/
def C01_feedOk (dia : Dialect) (d : Doc) (l : Layout) : Bool := feedOk dia d l

/-- **C01_feeds** — the lexical glue in general: for EVERY document and layout accepted by `C01_feedOk` whose rendering has
    no line longer than 2048 characters, the scanner started on `render d l` hands out exactly `tokensOf d`, without a single
    report, under every policy.  (Induction over the typed pieces of the rendering; every presentation of every string,
    lists and tables of any depth, keys, loops, save frames, any number of blocks.) -/
theorem C01_feeds (o : Opts) (d : Doc) (l : Layout) (hok : C01_feedOk o.dia d l = true)
    (hfit : linesFit 0 (render d l) = true) :
    Feeds o { scan := Scan.init (render d l), tok := none } (tokensOf d) :=
  feeds_render o d l hok hfit

/-- **C01_parse_render** — well-formed CIF parses to exactly the content it denotes: for every well-formed document, every
    admissible layout, EVERY callback policy: return code 0, empty log, content = `denote d`.
    (`hne`: the empty text — no block and an empty separator — is the one rendering cif_parse_internal never hands to the
    productions; it is covered by `parse` on `[]` directly.) -/
theorem C01_parse_render (o : Opts) (d : Doc) (l : Layout) (pol : Policy)
    (hstore : o.store = true) (hmfd : o.maxFrameDepth ≠ 0) (hutf : o.notUtf8 = false)
    (hwf : C01_wfDoc o d = true) (hok : C01_feedOk o.dia d l = true) (hfit : linesFit 0 (render d l) = true)
    (hne : render d l ≠ []) :
    parse o pol [] (render d l) = { rc := 0, log := [], cif := denote o.dia o.normKey d } := by
  have hF := C01_feeds o d l hok hfit
  have hfuel := fuel_render o.dia d l hok
  cases hr : render d l with
  | nil => exact absurd hr hne
  | cons c rest =>
    obtain ⟨h1, h2⟩ := first_char o.dia d l hok c rest hr
    rw [hr] at hF hfuel
    exact C01_parse_render_partial o d c rest pol hstore hmfd hutf hwf h1 h2 hfuel hF

/-- **C01_layout_independent_render** — the result does not depend on layout: two admissible layouts of one well-formed
    document (amount and kind of whitespace, comments, line breaks) parse to the same outcome, under any two policies. -/
theorem C01_layout_independent_render (o : Opts) (d : Doc) (l₁ l₂ : Layout) (pol₁ pol₂ : Policy)
    (hstore : o.store = true) (hmfd : o.maxFrameDepth ≠ 0) (hutf : o.notUtf8 = false) (hwf : C01_wfDoc o d = true)
    (hok₁ : C01_feedOk o.dia d l₁ = true) (hfit₁ : linesFit 0 (render d l₁) = true) (hne₁ : render d l₁ ≠ [])
    (hok₂ : C01_feedOk o.dia d l₂ = true) (hfit₂ : linesFit 0 (render d l₂) = true) (hne₂ : render d l₂ ≠ []) :
    parse o pol₁ [] (render d l₁) = parse o pol₂ [] (render d l₂) := by
  rw [C01_parse_render o d l₁ pol₁ hstore hmfd hutf hwf hok₁ hfit₁ hne₁,
    C01_parse_render o d l₂ pol₂ hstore hmfd hutf hwf hok₂ hfit₂ hne₂]

/-- **C01_presentation_independent** — nor on the choice of delimiters: two documents that denote the same content (e.g. the
    same strings in different quoted presentations, a text field plain / folded / prefixed) parse to the same content. -/
theorem C01_presentation_independent (o : Opts) (d₁ d₂ : Doc) (l₁ l₂ : Layout) (pol₁ pol₂ : Policy)
    (hstore : o.store = true) (hmfd : o.maxFrameDepth ≠ 0) (hutf : o.notUtf8 = false)
    (hwf₁ : C01_wfDoc o d₁ = true) (hwf₂ : C01_wfDoc o d₂ = true)
    (hsame : denote o.dia o.normKey d₁ = denote o.dia o.normKey d₂)
    (hok₁ : C01_feedOk o.dia d₁ l₁ = true) (hfit₁ : linesFit 0 (render d₁ l₁) = true) (hne₁ : render d₁ l₁ ≠ [])
    (hok₂ : C01_feedOk o.dia d₂ l₂ = true) (hfit₂ : linesFit 0 (render d₂ l₂) = true) (hne₂ : render d₂ l₂ ≠ []) :
    parse o pol₁ [] (render d₁ l₁) = parse o pol₂ [] (render d₂ l₂) := by
  rw [C01_parse_render o d₁ l₁ pol₁ hstore hmfd hutf hwf₁ hok₁ hfit₁ hne₁,
    C01_parse_render o d₂ l₂ pol₂ hstore hmfd hutf hwf₂ hok₂ hfit₂ hne₂, hsame]

end CifModel
