import CifModel.Lemmas.FeedsRender
import CifModel.Props.C01parse
/-
  Props/C01Render — property C01 end to end: for every well-formed abstract document `d` and every layout `l` that the
  lexical grammar admits (`C01_feedOk`, decidable), parsing the characters `render d l` returns CIF_OK, reports nothing
  and yields exactly the content `denote d` — under every callback policy; consequently two layouts (or two choices of
  presentation with the same tokens) of one document parse to the same outcome.

  The theorems compose  C01_structure / C01_parse_render_partial  (productions over a token sequence; Props/C01parse.lean,
  Lemmas/ParserStructure.lean)  with  C01_feeds  (the rendered characters make the scanner deliver that token sequence;
  Lemmas/FeedsRender.lean on top of the scanner theorems of Props/C01.lean).  No hypothesis about the scanner is left.
-/
namespace CifModel
open CifModel.Model CifModel.Model.Lexer CifModel.Model.Parser CifModel.Spec.Grammar CifModel.Spec.Lexical CifModel.FeedsRender

/-- what a document and a layout owe the scanner (decidable; see `FeedsRender.linOk`): each string admissible in its
    presentation, names / codes of non-blank allowed characters, keys in a quoted presentation, brackets / keys / triple
    quotes only in CIF 2.0; separators made of well-formed atoms, non-empty where a token needs whitespace in front of it or
    behind it, no comment glued to a token; a text field at the beginning of a line, a bare value that begins with `;` not -/
def C01_feedOk (dia : Dialect) (d : Doc) (l : Layout) : Bool := feedOk dia d l

/-- **C01_feeds** — the lexical glue in general: for EVERY document and layout accepted by `C01_feedOk` whose rendering has
    no line longer than 2048 characters, the scanner started on `render d l` hands out exactly `tokensOf d`, without a single
    report, under every policy.  (Induction over the typed pieces of the rendering; every presentation of every string,
    lists and tables of any depth, keys, loops, save frames, any number of blocks.) -/
theorem C01_feeds (o : Opts) (d : Doc) (l : Layout) (hok : C01_feedOk o.dia d l = true)
    (hfit : linesFit 0 (render d l) = true) :
    Feeds o { scan := Scan.init (render d l), tok := none } (tokensOf d) :=
  feeds_render o d l hok hfit

/-- **C01_parse_render** — well-formed CIF parses to exactly the content it denotes: for every well-formed document, every
    admissible layout, EVERY callback policy: return code 0, empty log, content = `denote d`.
    (`hne`: the empty text — no block and an empty separator — is the one rendering cif_parse_internal never hands to the
    productions; it is covered by `parse` on `[]` directly.) -/
theorem C01_parse_render (o : Opts) (d : Doc) (l : Layout) (pol : Policy)
    (hstore : o.store = true) (hmfd : o.maxFrameDepth ≠ 0) (hutf : o.notUtf8 = false)
    (hwf : C01_wfDoc o d = true) (hok : C01_feedOk o.dia d l = true) (hfit : linesFit 0 (render d l) = true)
    (hne : render d l ≠ []) :
    parse o pol [] (render d l) = { rc := 0, log := [], cif := denote o.dia o.normKey d } := by
  have hF := C01_feeds o d l hok hfit
  have hfuel := fuel_render o.dia d l hok
  cases hr : render d l with
  | nil => exact absurd hr hne
  | cons c rest =>
    obtain ⟨h1, h2⟩ := first_char o.dia d l hok c rest hr
    rw [hr] at hF hfuel
    exact C01_parse_render_partial o d c rest pol hstore hmfd hutf hwf h1 h2 hfuel hF

/-- **C01_layout_independent_render** — the result does not depend on layout: two admissible layouts of one well-formed
    document (amount and kind of whitespace, comments, line breaks) parse to the same outcome, under any two policies. -/
theorem C01_layout_independent_render (o : Opts) (d : Doc) (l₁ l₂ : Layout) (pol₁ pol₂ : Policy)
    (hstore : o.store = true) (hmfd : o.maxFrameDepth ≠ 0) (hutf : o.notUtf8 = false) (hwf : C01_wfDoc o d = true)
    (hok₁ : C01_feedOk o.dia d l₁ = true) (hfit₁ : linesFit 0 (render d l₁) = true) (hne₁ : render d l₁ ≠ [])
    (hok₂ : C01_feedOk o.dia d l₂ = true) (hfit₂ : linesFit 0 (render d l₂) = true) (hne₂ : render d l₂ ≠ []) :
    parse o pol₁ [] (render d l₁) = parse o pol₂ [] (render d l₂) := by
  rw [C01_parse_render o d l₁ pol₁ hstore hmfd hutf hwf hok₁ hfit₁ hne₁,
    C01_parse_render o d l₂ pol₂ hstore hmfd hutf hwf hok₂ hfit₂ hne₂]

/-- **C01_presentation_independent** — nor on the choice of delimiters: two documents that denote the same content (e.g. the
    same strings in different quoted presentations, a text field plain / folded / prefixed) parse to the same content. -/
theorem C01_presentation_independent (o : Opts) (d₁ d₂ : Doc) (l₁ l₂ : Layout) (pol₁ pol₂ : Policy)
    (hstore : o.store = true) (hmfd : o.maxFrameDepth ≠ 0) (hutf : o.notUtf8 = false)
    (hwf₁ : C01_wfDoc o d₁ = true) (hwf₂ : C01_wfDoc o d₂ = true)
    (hsame : denote o.dia o.normKey d₁ = denote o.dia o.normKey d₂)
    (hok₁ : C01_feedOk o.dia d₁ l₁ = true) (hfit₁ : linesFit 0 (render d₁ l₁) = true) (hne₁ : render d₁ l₁ ≠ [])
    (hok₂ : C01_feedOk o.dia d₂ l₂ = true) (hfit₂ : linesFit 0 (render d₂ l₂) = true) (hne₂ : render d₂ l₂ ≠ []) :
    parse o pol₁ [] (render d₁ l₁) = parse o pol₂ [] (render d₂ l₂) := by
  rw [C01_parse_render o d₁ l₁ pol₁ hstore hmfd hutf hwf₁ hok₁ hfit₁ hne₁,
    C01_parse_render o d₂ l₂ pol₂ hstore hmfd hutf hwf₂ hok₂ hfit₂ hne₂, hsame]

/-! ### non-vacuity: the hypotheses hold for a document with the combinations named in the property's rationale -/

namespace C01render
/-- two blocks; a loop whose packet holds a list with a folded + prefixed text field and a table with a triple-quoted key
    followed by a list with a text field and a quoted key followed by a string that ends in a surrogate pair; a save frame with
    a bare value that begins with `;`; `?`; a block code with brackets; a quoted string containing the other quote -/
def doc : Doc :=
  [{ code := a!"b", body := [
      .plain (.loop [a!"_a", a!"_t"] [[
        .lst [.enc (a!"abcd") (a!"> \\\\\n> ab\\\n> cd")],
        .tbl [(a!"k", .tsquote, .lst [.str (a!"t") .text]), (a!"p", .dquote, .str [120, 0xD83D, 0xDE00] .squote)]]]),
      .frame (a!"f") [.plain (.item (a!"_x") (.str (a!";semi") .bare))],
      .plain (.item (a!"_q") .unk)] },
   { code := a!"c[1]", body := [.plain (.item (a!"_y") (.str (a!"it's") .dquote))] }]

/-- a layout with comments, empty lines, an empty optional separator in front of the closing brackets, and — in front of the
    bare value `;semi` — a separator that ends with a blank -/
def layout : Layout := fun k =>
  if k = 15 then [.eol, .blank 32] else if k = 0 then [.comment (a!"\\#CIF_2.0"), .eol]
  else if k = 6 ∨ k = 10 then [] else if k % 5 = 2 then [.blank 32, .comment (a!"c"), .eol] else [.eol]
end C01render

set_option maxRecDepth 100000 in
theorem C01_render_instance_hyps :
    C01_wfDoc C01parse.opts2 C01render.doc = true ∧ C01_feedOk .cif2 C01render.doc C01render.layout = true
    ∧ linesFit 0 (render C01render.doc C01render.layout) = true ∧ render C01render.doc C01render.layout ≠ [] := by
  refine ⟨by decide +kernel, by decide +kernel, by decide +kernel, ?_⟩
  intro h
  have : (render C01render.doc C01render.layout).length = 0 := by rw [h]; rfl
  revert this
  decide +kernel

/-- … so for EVERY callback policy the rendered text parses, without a report, to the denoted content -/
theorem C01_render_instance (pol : Policy) :
    parse C01parse.opts2 pol [] (render C01render.doc C01render.layout)
      = { rc := 0, log := [], cif := denote .cif2 id C01render.doc } :=
  C01_parse_render C01parse.opts2 C01render.doc C01render.layout pol rfl (by decide) rfl C01_render_instance_hyps.1
    C01_render_instance_hyps.2.1 C01_render_instance_hyps.2.2.1 C01_render_instance_hyps.2.2.2

/-! ### nested save frames -/

namespace C01render
/-- a block with a save frame that holds an item, a save frame (which holds a loop and a third-level save frame) and another
    item; then an item of the block -/
def nested : Doc :=
  [{ code := a!"b", body := [
      .frame (a!"f") [
        .plain (.item (a!"_x") (.str (a!"1") .bare)),
        .frame (a!"g") [
          .plain (.loop [a!"_a"] [[.str (a!"u v") .squote], [.unk]]),
          .frame (a!"h") [.plain (.item (a!"_x") (.str (a!"3") .bare))]],
        .plain (.item (a!"_y") (.lst [.na]))],
      .plain (.item (a!"_x") (.str (a!"0") .bare))] }]

/-- the parser options with save frames nested to any depth (`max_frame_depth` negative) -/
def optsDeep : Opts := { C01parse.opts2 with maxFrameDepth := -1 }
end C01render

set_option maxRecDepth 100000 in
theorem C01_render_nested_hyps :
    C01_wfDoc C01render.optsDeep C01render.nested = true ∧ C01_feedOk .cif2 C01render.nested (fun _ => [.eol]) = true
    ∧ linesFit 0 (render C01render.nested (fun _ => [.eol])) = true ∧ render C01render.nested (fun _ => [.eol]) ≠ []
    -- with one level of save frames only (`max_frame_depth` = 1) the document is NOT well-formed for the parser
    ∧ C01_wfDoc C01parse.opts2 C01render.nested = false := by
  refine ⟨by decide +kernel, by decide +kernel, by decide +kernel, ?_, by decide +kernel⟩
  intro h
  have : (render C01render.nested (fun _ => [.eol])).length = 0 := by rw [h]; rfl
  revert this
  decide +kernel

/-- … so, under every callback policy, the text with three levels of save frames parses, without a report, to the nested content -/
theorem C01_render_nested_instance (pol : Policy) :
    parse C01render.optsDeep pol [] (render C01render.nested (fun _ => [.eol]))
      = { rc := 0, log := [], cif := denote .cif2 id C01render.nested } :=
  C01_parse_render C01render.optsDeep C01render.nested (fun _ => [.eol]) pol rfl (by decide) rfl C01_render_nested_hyps.1
    C01_render_nested_hyps.2.1 C01_render_nested_hyps.2.2.1 C01_render_nested_hyps.2.2.2.1

set_option maxRecDepth 100000 in
/-- the content, spelled out: frame `f` of block `b` holds frame `g`, which holds frame `h` -/
example : denote .cif2 id C01render.nested =
    [.mk (a!"b")
      [.mk (a!"f")
        [.mk (a!"g") [.mk (a!"h") [] [{ category := some [], names := [a!"_x"], packets := [[.chr false (a!"3")]] }]]
          [{ category := none, names := [a!"_a"], packets := [[.chr true (a!"u v")], [.unk]] }]]
        [{ category := some [], names := [a!"_x", a!"_y"], packets := [[.chr false (a!"1"), .lst [.na]]] }]]
      [{ category := some [], names := [a!"_x"], packets := [[.chr false (a!"0")]] }]] := by rfl

-- the predicate is not trivially true: a text field directly behind a key, a comment glued to a value, a `;`-led bare value at
-- the beginning of a line, a list in CIF 1.1 are all refused
example : C01_feedOk .cif2 [{ code := a!"b", body := [.plain (.item (a!"_x") (.tbl [(a!"k", .squote, .str (a!"t") .text)]))] }]
    (fun _ => [.eol]) = false := by decide +kernel
example : C01_feedOk .cif2 [{ code := a!"b", body := [.plain (.item (a!"_x") (.str (a!"v") .bare))] }]
    (fun k => if k = 3 then [.comment (a!"c"), .eol] else [.eol]) = false := by decide +kernel
example : C01_feedOk .cif2 [{ code := a!"b", body := [.plain (.item (a!"_x") (.str (a!";v") .bare))] }] (fun _ => [.eol]) = false
    ∧ C01_feedOk .cif2 [{ code := a!"b", body := [.plain (.item (a!"_x") (.str (a!";v") .bare))] }] (fun _ => [.blank 32]) = true := by
  decide +kernel
example : C01_feedOk .cif1 [{ code := a!"b", body := [.plain (.item (a!"_x") (.lst []))] }] (fun _ => [.eol]) = false
    ∧ C01_feedOk .cif1 [{ code := a!"b", body := [.plain (.item (a!"_x") (.str (a!"it's") .squote))] }] (fun _ => [.eol]) = true := by
  decide +kernel

end CifModel
