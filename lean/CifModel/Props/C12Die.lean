import CifModel.Lemmas.ParserDefectDie
import CifModel.Props.C12Frames
/-
  Props/C12Die (group gW) — property C12 under the ABORT-ON-ERROR handler (`dieAll` = cif_parse_error_die), at character level.

  Setting (`DieHost`): the text is `renderChunks cs` for any accepted chunk list whose tokens are well-formed data blocks `preB`,
  the header `data_bc`, tokens `T` leading up to and including the defect, and then ANYTHING the acceptor admits (`rest` — the
  parse never gets there; in particular there may be more defects behind).  Conclusion (`DieOutcome`): the parse returns the
  CLASS'S CODE, exactly ONE report has been made (that code, on the line of its token position), and the CIF holds exactly what
  stands IN FRONT of the defect — the blocks in front, the block `bc` with the elements in front of the defect (a save frame that is
  open when the parse is aborted exists with the items in front of the defect) — NOTHING behind it.

  Classes (the report is made before anything of the defective construct is stored): missing value, unexpected value, duplicate
  item name, invalid item name, unexpected closing delimiter, unexpected `save_`; each among the items of a data block
  (`C12_die_<class>`), and — except `save_` — among the items of a save frame of a data block (`C12_die_<class>_in_frame`).
-/
namespace CifModel.Props
open CifModel CifModel.Model CifModel.Model.Lexer CifModel.Model.Parser CifModel.Spec.Lexical CifModel.Spec.Grammar
open CifModel.Gen.ErrCodes CifModel.Lemmas.LexGlue CifModel.Lemmas.DefectChars

/-- the text up to the defect: blocks, the header of the block of the defect, the tokens `T`; `rest`: whatever follows -/
structure DieHost (o : Opts) (cs : List Chunk) (preB : List Block) (bc : Str) (T rest : List TokSpec) : Prop extends TextOk o cs where
  mfd : o.maxFrameDepth ≠ 0
  wfPreB : wfBlocks o preB [] = true
  wfBc : wfCode bc = true
  fresh : ∀ b ∈ preB, o.norm b.code ≠ o.norm bc
  hToks : toks cs = blocksToks preB ++ ((.blockHead, bc) :: (T ++ rest))

/-- the outcome under the abort-on-error handler: return value = the code, exactly one report, its line, the content -/
def DieOutcome (o : Opts) (cs : List Chunk) (C : Code) (content : Cif) (j : Nat) : Prop :=
  ∃ r, parse o dieAll [] (renderChunks cs) = { rc := (C : Int), log := [r], cif := content } ∧ r.code = C
    ∧ (r.line = endLine cs j ∨ r.line = endLine cs (j + 1))

/-- **C12_die_segment** — the element loop of the block aborts as `hseg` says ⇒ the whole parse -/
theorem C12_die_segment {o : Opts} {cs : List Chunk} {preB : List Block} {bc : Str} {T rest : List TokSpec}
    (H : DieHost o cs preB bc T rest) (fs' : List Container) (ls' : List Loop) (C : Code) (j need : Nat)
    (follow : List TokSpec → Prop) (hC : C ≠ 0) (hneed : need ≤ 2 * T.length + 8) (hj : j ≤ T.length)
    (hfol : follow (rest ++ [(.end_, [])]))
    (hseg : View o [o.norm bc] (fun x => denote o.dia o.normKey preB ++ [x]) bc →
      DieSeg o [o.norm bc] (fun x => denote o.dia o.normKey preB ++ [x]) bc true T [] [] fs' ls' C j need follow) :
    DieOutcome o cs C (denote o.dia o.normKey preB ++ [.mk bc fs' ls']) ((blocksToks preB).length + 1 + j) := by
  obtain ⟨c, rst, hc, hfirst, hbom⟩ := H.first
  exact block_die_chars o H.store H.mfd H.utf cs c rst preB bc T rest fs' ls' C j need follow H.ok H.fit hc hfirst hbom H.hToks H.wfPreB
    H.wfBc H.fresh hC hneed hj hfol hseg

theorem termFollow_snoc {rest : List TokSpec} (x : TokSpec) (h : termFollow rest) : termFollow (rest ++ [x]) := by
  obtain ⟨ty, tx, ts, rfl, ht⟩ := h
  exact ⟨ty, tx, ts ++ [x], rfl, ht⟩

theorem termFollow_end : termFollow [(.end_, [])] := ⟨_, _, _, rfl, rfl⟩

/-- what follows the defect is either empty (end of the input) or starts with a token that ends an item -/
def restOk (rest : List TokSpec) : Prop := rest = [] ∨ termFollow rest

theorem restOk.follow {rest : List TokSpec} (h : restOk rest) : termFollow (rest ++ [(.end_, [])]) := by
  rcases h with rfl | h
  · exact termFollow_end
  · exact termFollow_snoc _ h

/-! ### among the items of a data block -/

/-- a defect behind the items `pre` of the data block `bc`: the block holds what `pre` denotes -/
theorem C12_die_items {o : Opts} {cs : List Chunk} {preB : List Block} {bc : Str} {D rest : List TokSpec} (pre : List Item)
    (H : DieHost o cs preB bc (itemsToks pre ++ D) rest) (C : Code) (j need : Nat) (follow : List TokSpec → Prop)
    (hpre : wfItems o pre [] = true) (hC : C ≠ 0) (hneed : need ≤ 2 * D.length + 8) (hj : j ≤ D.length)
    (hfol : follow (rest ++ [(.end_, [])]))
    (hT : lastIsLoop pre = true → ∀ rest, follow rest → termFollow (D ++ rest))
    (hD : ∀ {path : Path} {put : Container → Cif}, View o path put bc →
      DieSeg o path put bc true D [] (denoteItems o.dia o.normKey pre []) [] (denoteItems o.dia o.normKey pre []) C j need follow) :
    DieOutcome o cs C (denote o.dia o.normKey (preB ++ [plainBlock bc pre])) ((blocksToks preB).length + 1 + ((itemsToks pre).length + j)) := by
  have z := Lemmas.WriterChunks.szItems_toks pre
  have := C12_die_segment H [] (denoteItems o.dia o.normKey pre []) C ((itemsToks pre).length + j) (szItems pre + pre.length + need) follow hC
    (by simp only [List.length_append]; omega) (by simp only [List.length_append]; omega) hfol
    (fun hv => DieSeg.after_items o hv true pre [] [] [] hpre (nil_seen o) hT (hD hv))
  simpa [denote, denoteBlock, plainBlock, denoteElems_map_plain] using this

/-- **C12_die_missing_value** — a data name without value behind the items `pre`: return value CIF_MISSING_VALUE, one report, the
    name is NOT stored (content = the document up to `pre`) -/
theorem C12_die_missing_value (o : Opts) (cs : List Chunk) (preB : List Block) (bc : Str) (pre : List Item) (n : Str) (rest : List TokSpec)
    (H : DieHost o cs preB bc (itemsToks pre ++ [(.name, n)]) rest) (hpre : wfItems o pre [] = true) (hname : wfName n = true)
    (hfresh : o.norm n ∉ normNames o (denoteItems o.dia o.normKey pre [])) (hrest : restOk rest) :
    DieOutcome o cs CIF_MISSING_VALUE (denote o.dia o.normKey (preB ++ [plainBlock bc pre]))
      ((blocksToks preB).length + 1 + ((itemsToks pre).length + 1)) :=
  C12_die_items pre H CIF_MISSING_VALUE 1 1 termFollow hpre (by decide) (by simp) (by simp) hrest.follow
    (fun _ _ _ => ⟨_, _, _, rfl, rfl⟩) (fun hv => die_missing_value o hv true n [] _ hname hfresh)

/-- **C12_die_unexpected_value** — a value where an item is expected (not directly behind a loop) -/
theorem C12_die_unexpected_value (o : Opts) (cs : List Chunk) (preB : List Block) (bc : Str) (pre : List Item) (v : Val)
    (rest : List TokSpec) (H : DieHost o cs preB bc (itemsToks pre ++ valToks v) rest) (hpre : wfItems o pre [] = true)
    (hnoloop : lastIsLoop pre = false) :
    DieOutcome o cs CIF_UNEXPECTED_VALUE (denote o.dia o.normKey (preB ++ [plainBlock bc pre]))
      ((blocksToks preB).length + 1 + ((itemsToks pre).length + 0)) := by
  have z := szVal_pos v
  have z2 := Lemmas.WriterChunks.szVal_toks v
  exact C12_die_items pre H CIF_UNEXPECTED_VALUE 0 1 (fun _ => True) hpre (by decide) (by omega) (by omega) trivial
    (fun h => by rw [hnoloop] at h; cases h) (fun _ => die_unexpected_value o true v [] _)

/-- **C12_die_dup_itemname** — a data name that the block already has (any spelling) -/
theorem C12_die_dup_itemname (o : Opts) (cs : List Chunk) (preB : List Block) (bc : Str) (pre : List Item) (n : Str) (rest : List TokSpec)
    (H : DieHost o cs preB bc (itemsToks pre ++ [(.name, n)]) rest) (hpre : wfItems o pre [] = true) (hname : wfName n = true)
    (hdup : o.norm n ∈ normNames o (denoteItems o.dia o.normKey pre [])) :
    DieOutcome o cs CIF_DUP_ITEMNAME (denote o.dia o.normKey (preB ++ [plainBlock bc pre]))
      ((blocksToks preB).length + 1 + ((itemsToks pre).length + 1)) :=
  C12_die_items pre H CIF_DUP_ITEMNAME 1 1 (fun _ => True) hpre (by decide) (by simp) (by simp) trivial
    (fun _ _ _ => ⟨_, _, _, rfl, rfl⟩) (fun hv => die_dup_itemname o hv true n [] _ hname hdup)

/-- **C12_die_invalid_itemname** — a data name that is not a valid item name -/
theorem C12_die_invalid_itemname (o : Opts) (cs : List Chunk) (preB : List Block) (bc : Str) (pre : List Item) (n : Str)
    (rest : List TokSpec) (H : DieHost o cs preB bc (itemsToks pre ++ [(.name, n)]) rest) (hpre : wfItems o pre [] = true)
    (hn0 : noNul n = true) (hinv : isValidName true n = false) :
    DieOutcome o cs CIF_INVALID_ITEMNAME (denote o.dia o.normKey (preB ++ [plainBlock bc pre]))
      ((blocksToks preB).length + 1 + ((itemsToks pre).length + 1)) :=
  C12_die_items pre H CIF_INVALID_ITEMNAME 1 1 (fun _ => True) hpre (by decide) (by simp) (by simp) trivial
    (fun _ _ _ => ⟨_, _, _, rfl, rfl⟩) (fun _ => die_invalid_itemname o true n [] _ hn0 hinv)

/-- **C12_die_unexpected_delim** — a closing bracket or brace where an item is expected (not directly behind a loop) -/
theorem C12_die_unexpected_delim (o : Opts) (cs : List Chunk) (preB : List Block) (bc : Str) (pre : List Item) (ty : TokType) (tx : Str)
    (rest : List TokSpec) (H : DieHost o cs preB bc (itemsToks pre ++ [(ty, tx)]) rest) (hpre : wfItems o pre [] = true)
    (hty : ty = .clist ∨ ty = .ctable) (hnoloop : lastIsLoop pre = false) :
    DieOutcome o cs CIF_UNEXPECTED_DELIM (denote o.dia o.normKey (preB ++ [plainBlock bc pre]))
      ((blocksToks preB).length + 1 + ((itemsToks pre).length + 0)) :=
  C12_die_items pre H CIF_UNEXPECTED_DELIM 0 1 (fun _ => True) hpre (by decide) (by simp) (by simp) trivial
    (fun h => by rw [hnoloop] at h; cases h) (fun _ => die_unexpected_delim o true ty tx [] _ hty)

/-- **C12_die_unexpected_term** — `save_` in a data block while no save frame is open -/
theorem C12_die_unexpected_term (o : Opts) (cs : List Chunk) (preB : List Block) (bc : Str) (pre : List Item) (tx : Str)
    (rest : List TokSpec) (H : DieHost o cs preB bc (itemsToks pre ++ [(.frameTerm, tx)]) rest) (hpre : wfItems o pre [] = true) :
    DieOutcome o cs CIF_UNEXPECTED_TERM (denote o.dia o.normKey (preB ++ [plainBlock bc pre]))
      ((blocksToks preB).length + 1 + ((itemsToks pre).length + 0)) :=
  C12_die_items pre H CIF_UNEXPECTED_TERM 0 1 (fun _ => True) hpre (by decide) (by simp) (by simp) trivial
    (fun _ _ _ => ⟨_, _, _, rfl, rfl⟩) (fun _ => die_unexpected_term o tx [] _)

/-- **C12_die_null_loop** — `loop_` that is not followed by a data name (another `loop_`, a frame or block header, the end) -/
theorem C12_die_null_loop (o : Opts) (cs : List Chunk) (preB : List Block) (bc : Str) (pre : List Item)
    (rest : List TokSpec) (H : DieHost o cs preB bc (itemsToks pre ++ [(.loopKw, [])]) rest) (hpre : wfItems o pre [] = true)
    (hrest : rest = [] ∨ ∃ ty tx ts, rest = (ty, tx) :: ts ∧ ty ≠ .name) :
    DieOutcome o cs CIF_NULL_LOOP (denote o.dia o.normKey (preB ++ [plainBlock bc pre]))
      ((blocksToks preB).length + 1 + ((itemsToks pre).length + 1)) :=
  C12_die_items pre H CIF_NULL_LOOP 1 2 (fun rest => ∃ ty tx ts, rest = (ty, tx) :: ts ∧ ty ≠ .name) hpre (by decide) (by simp) (by simp)
    (by
      rcases hrest with rfl | ⟨ty, tx, ts, rfl, hn⟩
      · exact ⟨.end_, [], [], rfl, by decide⟩
      · exact ⟨ty, tx, ts ++ [(.end_, [])], rfl, hn⟩)
    (fun _ _ _ => ⟨_, _, _, rfl, rfl⟩) (fun hv => die_null_loop o hv true [] _)

/-- **C12_die_dup_header_name** — a loop header `loop_ ns₁ n'` in which `n'` repeats a name of the block or of `ns₁` (any spelling):
    the parse is aborted while the header is read — the loop does not exist, the block holds what the items in front denote -/
theorem C12_die_dup_header_name (o : Opts) (cs : List Chunk) (preB : List Block) (bc : Str) (pre : List Item) (ns1 : List Str) (n' : Str)
    (rest : List TokSpec)
    (H : DieHost o cs preB bc (itemsToks pre ++ ((.loopKw, []) :: (ns1.map (fun n => (TokType.name, n)) ++ [(.name, n')]))) rest)
    (hpre : wfItems o pre [] = true) (hwf : ∀ n ∈ ns1, wfName n = true)
    (hfresh : ∀ n ∈ ns1, o.norm n ∉ normNames o (denoteItems o.dia o.normKey pre [])) (hnd : (ns1.map o.norm).Nodup)
    (hname : wfName n' = true)
    (hdup : o.norm n' ∈ normNames o (denoteItems o.dia o.normKey pre []) ∨ ∃ m ∈ ns1, o.norm m = o.norm n') :
    DieOutcome o cs CIF_DUP_ITEMNAME (denote o.dia o.normKey (preB ++ [plainBlock bc pre]))
      ((blocksToks preB).length + 1 + ((itemsToks pre).length + (1 + ns1.length))) :=
  C12_die_items pre H CIF_DUP_ITEMNAME (1 + ns1.length) (ns1.length + 2) (fun _ => True) hpre (by decide)
    (by simp only [List.length_cons, List.length_append, List.length_map, List.length_nil]; omega)
    (by simp only [List.length_cons, List.length_append, List.length_map, List.length_nil]; omega) trivial
    (fun _ _ _ => ⟨_, _, _, rfl, rfl⟩) (fun hv => die_dup_header_name o hv true ns1 n' [] _ hwf hfresh hnd hname hdup)

/-- **C12_die_missing_delim_list** — an item whose list value is not closed (`_n [ v₁ … vₖ` followed by a token that cannot
    continue the list, or by the end of the input): the report is made while the value is parsed — the item is not stored -/
theorem C12_die_missing_delim_list (o : Opts) (cs : List Chunk) (preB : List Block) (bc : Str) (pre : List Item) (n btx : Str)
    (vs : List Val) (rest : List TokSpec)
    (H : DieHost o cs preB bc (itemsToks pre ++ ((.name, n) :: (.olist, btx) :: valsToks vs)) rest)
    (hpre : wfItems o pre [] = true) (hname : wfName n = true)
    (hfresh : o.norm n ∉ normNames o (denoteItems o.dia o.normKey pre [])) (hw : wfVals o vs = true) (hrest : restOk rest) :
    DieOutcome o cs CIF_MISSING_DELIM (denote o.dia o.normKey (preB ++ [plainBlock bc pre]))
      ((blocksToks preB).length + 1 + ((itemsToks pre).length + (1 + (1 + (valsToks vs).length)))) := by
  have z := Lemmas.WriterChunks.szVals_toks vs
  exact C12_die_items pre H CIF_MISSING_DELIM (1 + (1 + (valsToks vs).length)) (szVals vs + 2 + 1) termFollow hpre (by decide)
    (by simp only [List.length_cons]; omega) (by simp only [List.length_cons]; omega) hrest.follow
    (fun _ _ _ => ⟨_, _, _, rfl, rfl⟩) (fun hv => die_missing_delim_list o hv true n btx vs [] _ hname hfresh hw)

/-- **C12_die_missing_delim_table** — an item whose table value is not closed: aborted while the value is parsed, the item is not stored -/
theorem C12_die_missing_delim_table (o : Opts) (cs : List Chunk) (preB : List Block) (bc : Str) (pre : List Item) (n btx : Str)
    (es : List (Str × Presentation × Val)) (rest : List TokSpec)
    (H : DieHost o cs preB bc (itemsToks pre ++ ((.name, n) :: (.otable, btx) :: entriesToks es)) rest)
    (hpre : wfItems o pre [] = true) (hname : wfName n = true)
    (hfresh : o.norm n ∉ normNames o (denoteItems o.dia o.normKey pre [])) (hw : wfEntries o es = true) (hrest : restOk rest) :
    DieOutcome o cs CIF_MISSING_DELIM (denote o.dia o.normKey (preB ++ [plainBlock bc pre]))
      ((blocksToks preB).length + 1 + ((itemsToks pre).length + (1 + (1 + (entriesToks es).length)))) := by
  have z := Lemmas.WriterChunks.szEntries_toks es
  exact C12_die_items pre H CIF_MISSING_DELIM (1 + (1 + (entriesToks es).length)) (szEntries es + 2 + 1) termFollow hpre (by decide)
    (by simp only [List.length_cons]; omega) (by simp only [List.length_cons]; omega) hrest.follow
    (fun _ _ _ => ⟨_, _, _, rfl, rfl⟩) (fun hv => die_missing_delim_table o hv true n btx es [] _ hname hfresh hw)

/-! ### among the items of a save frame of a data block -/

/-- a defect behind the items `pre` of the save frame `fc`, which stands behind the well-formed elements `preE` of the data block
    `bc`: the block holds what `preE` denotes and the frame `fc` with what `pre` denotes -/
theorem C12_die_items_in_frame {o : Opts} {cs : List Chunk} {preB : List Block} {bc : Str} {D rest : List TokSpec}
    (preE : List Elem) (fc : Str) (pre : List Item)
    (H : DieHost o cs preB bc (elemsToks preE ++ ((.frameHead, fc) :: (itemsToks pre ++ D))) rest)
    (C : Code) (j need : Nat) (follow : List TokSpec → Prop)
    (hpreE : wfElems o preE [] [] = true) (hcode : wfCode fc = true)
    (hnew : ∀ c ∈ (denoteElems o.dia o.normKey preE [] []).1, codeIs o.norm (o.norm fc) c = false)
    (hpre : wfItems o pre [] = true) (hC : C ≠ 0) (hneed : need ≤ 2 * D.length + 4) (hj : j ≤ D.length)
    (hfol : follow (rest ++ [(.end_, [])]))
    (hT : lastIsLoop pre = true → ∀ rest, follow rest → termFollow (D ++ rest))
    (hD : ∀ {path : Path} {put : Container → Cif}, View o path put fc →
      DieSeg o path put fc false D [] (denoteItems o.dia o.normKey pre []) [] (denoteItems o.dia o.normKey pre []) C j need follow) :
    DieOutcome o cs C (denote o.dia o.normKey (preB ++ [{ code := bc, body := preE ++ [.frame fc (pre.map Elem.plain)] }]))
      ((blocksToks preB).length + 1 + ((elemsToks preE).length + (1 + ((itemsToks pre).length + j)))) := by
  have z := Lemmas.WriterChunks.szItems_toks pre
  have z2 := Lemmas.WriterChunks.szElems_toks preE
  have := C12_die_segment H
    ((denoteElems o.dia o.normKey preE [] []).1 ++ [.mk fc [] (denoteItems o.dia o.normKey pre [])])
    (denoteElems o.dia o.normKey preE [] []).2 C ((elemsToks preE).length + (1 + ((itemsToks pre).length + j)))
    (szElems preE + preE.length + ((szItems pre + pre.length + need) + 2)) follow hC
    (by simp only [List.length_append, List.length_cons]; omega) (by simp only [List.length_append, List.length_cons]; omega) hfol
    (fun hv => DieSeg.after_elems o H.mfd hv true preE [] [] [] [] (Or.inl rfl) hpreE (nil_seen o) (by intro c hc; cases hc)
      (fun rest _ => ⟨_, _, _, rfl, rfl⟩)
      (DieSeg.frame o H.mfd hv true fc _ _ (itemsToks pre ++ D) [] _ C _ _ follow (Or.inl rfl) hcode hnew
        (DieSeg.after_items o (hv.child _ _ fc hnew) false pre [] [] [] hpre (nil_seen o) hT (hD (hv.child _ _ fc hnew)))))
  have e : denoteElems o.dia o.normKey (preE ++ [.frame fc (pre.map Elem.plain)]) [] []
      = ((denoteElems o.dia o.normKey preE [] []).1 ++ [.mk fc [] (denoteItems o.dia o.normKey pre [])],
          (denoteElems o.dia o.normKey preE [] []).2) := by
    rw [denoteElems_append, denoteElems_frame, denoteElems_plains]
    simp [denoteElems]
  simpa [denote, denoteBlock, e] using this

/-- **C12_die_missing_value_in_frame** -/
theorem C12_die_missing_value_in_frame (o : Opts) (cs : List Chunk) (preB : List Block) (bc : Str) (preE : List Elem) (fc : Str)
    (pre : List Item) (n : Str) (rest : List TokSpec)
    (H : DieHost o cs preB bc (elemsToks preE ++ ((.frameHead, fc) :: (itemsToks pre ++ [(.name, n)]))) rest)
    (hpreE : wfElems o preE [] [] = true) (hcode : wfCode fc = true)
    (hnew : ∀ c ∈ (denoteElems o.dia o.normKey preE [] []).1, codeIs o.norm (o.norm fc) c = false)
    (hpre : wfItems o pre [] = true) (hname : wfName n = true)
    (hfresh : o.norm n ∉ normNames o (denoteItems o.dia o.normKey pre [])) (hrest : restOk rest) :
    DieOutcome o cs CIF_MISSING_VALUE
      (denote o.dia o.normKey (preB ++ [{ code := bc, body := preE ++ [.frame fc (pre.map Elem.plain)] }]))
      ((blocksToks preB).length + 1 + ((elemsToks preE).length + (1 + ((itemsToks pre).length + 1)))) :=
  C12_die_items_in_frame preE fc pre H CIF_MISSING_VALUE 1 1 termFollow hpreE hcode hnew hpre (by decide) (by simp) (by simp)
    hrest.follow (fun _ _ _ => ⟨_, _, _, rfl, rfl⟩) (fun hv => die_missing_value o hv false n [] _ hname hfresh)

/-- **C12_die_dup_itemname_in_frame** -/
theorem C12_die_dup_itemname_in_frame (o : Opts) (cs : List Chunk) (preB : List Block) (bc : Str) (preE : List Elem) (fc : Str)
    (pre : List Item) (n : Str) (rest : List TokSpec)
    (H : DieHost o cs preB bc (elemsToks preE ++ ((.frameHead, fc) :: (itemsToks pre ++ [(.name, n)]))) rest)
    (hpreE : wfElems o preE [] [] = true) (hcode : wfCode fc = true)
    (hnew : ∀ c ∈ (denoteElems o.dia o.normKey preE [] []).1, codeIs o.norm (o.norm fc) c = false)
    (hpre : wfItems o pre [] = true) (hname : wfName n = true)
    (hdup : o.norm n ∈ normNames o (denoteItems o.dia o.normKey pre [])) :
    DieOutcome o cs CIF_DUP_ITEMNAME
      (denote o.dia o.normKey (preB ++ [{ code := bc, body := preE ++ [.frame fc (pre.map Elem.plain)] }]))
      ((blocksToks preB).length + 1 + ((elemsToks preE).length + (1 + ((itemsToks pre).length + 1)))) :=
  C12_die_items_in_frame preE fc pre H CIF_DUP_ITEMNAME 1 1 (fun _ => True) hpreE hcode hnew hpre (by decide) (by simp) (by simp)
    trivial (fun _ _ _ => ⟨_, _, _, rfl, rfl⟩) (fun hv => die_dup_itemname o hv false n [] _ hname hdup)

/-- **C12_die_unexpected_value_in_frame** -/
theorem C12_die_unexpected_value_in_frame (o : Opts) (cs : List Chunk) (preB : List Block) (bc : Str) (preE : List Elem) (fc : Str)
    (pre : List Item) (v : Val) (rest : List TokSpec)
    (H : DieHost o cs preB bc (elemsToks preE ++ ((.frameHead, fc) :: (itemsToks pre ++ valToks v))) rest)
    (hpreE : wfElems o preE [] [] = true) (hcode : wfCode fc = true)
    (hnew : ∀ c ∈ (denoteElems o.dia o.normKey preE [] []).1, codeIs o.norm (o.norm fc) c = false)
    (hpre : wfItems o pre [] = true) (hnoloop : lastIsLoop pre = false) :
    DieOutcome o cs CIF_UNEXPECTED_VALUE
      (denote o.dia o.normKey (preB ++ [{ code := bc, body := preE ++ [.frame fc (pre.map Elem.plain)] }]))
      ((blocksToks preB).length + 1 + ((elemsToks preE).length + (1 + ((itemsToks pre).length + 0)))) := by
  have z := szVal_pos v
  have z2 := Lemmas.WriterChunks.szVal_toks v
  exact C12_die_items_in_frame preE fc pre H CIF_UNEXPECTED_VALUE 0 1 (fun _ => True) hpreE hcode hnew hpre (by decide) (by omega)
    (by omega) trivial (fun h => by rw [hnoloop] at h; cases h) (fun _ => die_unexpected_value o false v [] _)

/-- **C12_die_invalid_itemname_in_frame** -/
theorem C12_die_invalid_itemname_in_frame (o : Opts) (cs : List Chunk) (preB : List Block) (bc : Str) (preE : List Elem) (fc : Str)
    (pre : List Item) (n : Str) (rest : List TokSpec)
    (H : DieHost o cs preB bc (elemsToks preE ++ ((.frameHead, fc) :: (itemsToks pre ++ [(.name, n)]))) rest)
    (hpreE : wfElems o preE [] [] = true) (hcode : wfCode fc = true)
    (hnew : ∀ c ∈ (denoteElems o.dia o.normKey preE [] []).1, codeIs o.norm (o.norm fc) c = false)
    (hpre : wfItems o pre [] = true) (hn0 : noNul n = true) (hinv : isValidName true n = false) :
    DieOutcome o cs CIF_INVALID_ITEMNAME
      (denote o.dia o.normKey (preB ++ [{ code := bc, body := preE ++ [.frame fc (pre.map Elem.plain)] }]))
      ((blocksToks preB).length + 1 + ((elemsToks preE).length + (1 + ((itemsToks pre).length + 1)))) :=
  C12_die_items_in_frame preE fc pre H CIF_INVALID_ITEMNAME 1 1 (fun _ => True) hpreE hcode hnew hpre (by decide) (by simp) (by simp)
    trivial (fun _ _ _ => ⟨_, _, _, rfl, rfl⟩) (fun _ => die_invalid_itemname o false n [] _ hn0 hinv)

/-! ### any depth of nesting -/

theorem dieJ_le : ∀ (ctx : List DLevel) (T : List TokSpec) (j : Nat), j ≤ T.length → dieJ ctx j ≤ (dieToks ctx T).length
  | [], T, j, h => by simpa [dieJ, dieToks] using h
  | L :: r, T, j, h => by
    have := dieJ_le r T j h
    simp only [dieJ, dieToks, List.length_append, List.length_cons]
    omega

theorem dieNeed_le : ∀ (ctx : List DLevel) (T : List TokSpec) (need c : Nat), need ≤ 2 * T.length + c →
    dieNeed ctx need ≤ 2 * (dieToks ctx T).length + c
  | [], T, need, c, h => by simpa [dieNeed, dieToks] using h
  | L :: r, T, need, c, h => by
    have ih := dieNeed_le r T need c h
    have h1 := Lemmas.WriterChunks.szElems_toks L.pre
    simp only [dieNeed, dieToks, List.length_append, List.length_cons]
    omega

/-- **C12_die_in_frames** — abort-on-error handler, the defect inside save frames nested to ANY depth (`ctx`: per level the
    well-formed elements in front of the open frame and its code; more than one level: `max_frame_depth ≠ 1`).  `hbody`: the abort
    of the element loop of the innermost frame (`DieSeg`: the class lemmas `die_<class>`, behind items via `DieSeg.after_items`).
    rc = the code, one report, its line; the CIF holds, level by level, the elements in front and the open frame (`dieRes`). -/
theorem C12_die_in_frames {o : Opts} {cs : List Chunk} {preB : List Block} {bc : Str} (ctx : List DLevel) (hne : ctx ≠ [])
    {T rest : List TokSpec} (H : DieHost o cs preB bc (dieToks ctx T) rest) (hdeep : ctx.length ≤ 1 ∨ o.maxFrameDepth ≠ 1)
    (fsb : List Container) (lsb : List Loop) (C : Code) (j need : Nat) (follow : List TokSpec → Prop)
    (hok : DieOk o ctx ([], [])) (hC : C ≠ 0) (hneed : need ≤ 2 * T.length + 8) (hj : j ≤ T.length)
    (hfol : follow (rest ++ [(.end_, [])]))
    (hbody : ∀ {path : Path} {put : Container → Cif}, View o path put (dieInner ctx) →
      DieSeg o path put (dieInner ctx) false T [] [] fsb lsb C j need follow) :
    DieOutcome o cs C
      (denote o.dia o.normKey preB ++ [.mk bc (dieRes o ctx ([], []) (fsb, lsb)).1 (dieRes o ctx ([], []) (fsb, lsb)).2])
      ((blocksToks preB).length + 1 + dieJ ctx j) :=
  C12_die_segment H _ _ C (dieJ ctx j) (dieNeed ctx need) follow hC (dieNeed_le ctx T need 8 hneed) (dieJ_le ctx T j hj) hfol
    (fun hv => DieSeg.nest o H.mfd T fsb lsb C j need follow ctx hne hv true [] [] (Or.inl rfl) hdeep hok hbody)

/-! ### non-vacuity -/

namespace C12Die

/-- `data_a ⏎ _x ⏎ _y 1 ⏎ _Y 2 ⏎ _z 3 ⏎` (the text of `C12Frames.exCs2`): the parse is aborted at `_x`; the duplicate `_Y` behind it
    is never seen -/
theorem exHost : DieHost C12.opts2 C12Frames.exCs2 [] (a!"a") (itemsToks [] ++ [(.name, a!"_x")])
    [(.name, a!"_y"), (.value, a!"1"), (.name, a!"_Y"), (.value, a!"2"), (.name, a!"_z"), (.value, a!"3")] where
  store := rfl
  utf := rfl
  ok := C12Frames.exOk2
  fit := by decide
  first := ⟨100, _, rfl, by decide, by decide⟩
  mfd := by decide
  wfPreB := rfl
  wfBc := by decide
  fresh := by intro b hb; cases hb
  hToks := by decide

/-- non-vacuity of `C12_die_missing_value`: return value CIF_MISSING_VALUE, one report (2 tokens into the text), the block `a` is
    empty -/
theorem C12_die_missing_value_instance :
    DieOutcome C12.opts2 C12Frames.exCs2 CIF_MISSING_VALUE [.mk (a!"a") [] []] 2 :=
  C12_die_missing_value C12.opts2 C12Frames.exCs2 [] (a!"a") [] (a!"_x") _ exHost rfl (by decide) (by decide)
    (Or.inr ⟨_, _, _, rfl, rfl⟩)

/-- the text of `C12Frames.exCs`: `data_a ⏎ _p 1 ⏎ save_f ⏎ _x ⏎ _y 'v w' ⏎ save_ ⏎` — aborted at `_x` inside the frame -/
theorem exHostF : DieHost C12.opts2 C12Frames.exCs [] (a!"a")
    (elemsToks [.plain (.item (a!"_p") (.str (a!"1") .bare))] ++ ((.frameHead, a!"f") :: (itemsToks [] ++ [(.name, a!"_x")])))
    [(.name, a!"_y"), (.qvalue, a!"v w"), (.frameTerm, [])] where
  store := rfl
  utf := rfl
  ok := C12Frames.exOk
  fit := by decide
  first := ⟨100, _, rfl, by decide, by decide⟩
  mfd := by decide
  wfPreB := rfl
  wfBc := by decide
  fresh := by intro b hb; cases hb
  hToks := by decide

/-- non-vacuity of `C12_die_missing_value_in_frame`: the block holds `_p 1` and the (empty) frame `f` -/
theorem C12_die_missing_value_in_frame_instance :
    DieOutcome C12.opts2 C12Frames.exCs CIF_MISSING_VALUE
      [.mk (a!"a") [.mk (a!"f") [] []] [{ category := some [], names := [a!"_p"], packets := [[.chr false (a!"1")]] }]] 5 :=
  C12_die_missing_value_in_frame C12.opts2 C12Frames.exCs [] (a!"a") [.plain (.item (a!"_p") (.str (a!"1") .bare))] (a!"f") []
    (a!"_x") _ exHostF (by decide) (by decide) (by decide) rfl (by decide) (by decide) (Or.inr ⟨_, _, _, rfl, rfl⟩)

/-- the text of `C12Frames.exCs6` (`data_a save_f save_g save_h _x save_ save_ save_`, frames nest): aborted at `_x` three frames deep -/
theorem exHostN : DieHost C12Frames.optsN C12Frames.exCs6 [] (a!"a")
    (dieToks [⟨[], a!"f"⟩, ⟨[], a!"g"⟩, ⟨[], a!"h"⟩] (itemsToks [] ++ [(.name, a!"_x")]))
    [(.frameTerm, []), (.frameTerm, []), (.frameTerm, [])] where
  store := rfl
  utf := rfl
  ok := C12Frames.exOk6
  fit := by decide
  first := ⟨100, _, rfl, by decide, by decide⟩
  mfd := by decide
  wfPreB := rfl
  wfBc := by decide
  fresh := by intro b hb; cases hb
  hToks := by decide

/-- non-vacuity of `C12_die_in_frames`: rc CIF_MISSING_VALUE, one report, the three (empty) frames exist -/
theorem C12_die_in_frames_instance :
    DieOutcome C12Frames.optsN C12Frames.exCs6 CIF_MISSING_VALUE
      [.mk (a!"a") [.mk (a!"f") [.mk (a!"g") [.mk (a!"h") [] []] []] []] []] 5 := by
  have := C12_die_in_frames (o := C12Frames.optsN) [⟨[], a!"f"⟩, ⟨[], a!"g"⟩, ⟨[], a!"h"⟩] (by decide) exHostN (Or.inr (by decide)) [] []
    CIF_MISSING_VALUE ((itemsToks ([] : List Item)).length + 1) (szItems [] + ([] : List Item).length + 1) termFollow
    (by simp only [DieOk]; decide) (by decide) (by decide) (by decide) ⟨_, _, _, rfl, rfl⟩
    (fun hv => DieSeg.after_items C12Frames.optsN hv false [] [] [] [] rfl (nil_seen _) (fun _ _ _ => ⟨_, _, _, rfl, rfl⟩)
      (die_missing_value C12Frames.optsN hv false (a!"_x") [] [] (by decide) (by decide)))
  exact this

end C12Die

end CifModel.Props
