import CifModel.Lemmas.ParseCBStartOnly
import CifModel.Lemmas.ParseCBEventsAll
import CifModel.Props.C15Layout
/-
  Property C15 — WHICH callbacks are delivered, as a formula over the document (Spec/TraversalEvents.lean), for handler programs that
  steer the parse from the START callbacks only (cif_start, block_start, frame_start, loop_start, packet_start answer CONTINUE /
  SKIP_CURRENT / SKIP_SIBLINGS / END; every other callback answers CONTINUE).

    * C15_start_only_callbacks — for every well-formed duplicate-free document, every such program and both modes, the handler,
      data-name and keyword callbacks of the parse are EXACTLY `evDoc p storing d`, in that order, and cif_parse returns CIF_OK:
      CONTINUE at a start callback delivers the element's callbacks (its children by the same rule) and its end callback; SKIP_CURRENT
      the start callback only (plus the end callback of a data block / save frame), nothing of the content; SKIP_SIBLINGS the start
      callback and nothing of the later siblings, the parent's end callback is still delivered (except loop_end of a loop bypassed
      from one of its packets); END the start callback and nothing after it.
    * C15_start_only_callbacks_layout — the same for any layout in front of the tokens.
  (For arbitrary programs the delivered callbacks are characterised through the structural interpreter, `C15_stored_is_structural_any`,
  and as a sublist of `docEvents`, `C15_events_sublist`.)
-/
namespace CifModel
open ParseCB Lemmas.ParseCB Spec.Doc

/-- **The delivered callbacks, as a formula** (programs steering from the start callbacks only). -/
theorem C15_start_only_callbacks (p : Prog) (hp : StartOnly p) (storing : Bool) (norm : Str → Str) (d : Doc)
    (hwn : wfDocN norm d = true) :
    (parseCB p storing (tokensOf d)).1 = evDoc p storing d ∧ (parseCB p storing (tokensOf d)).2.1 = OK := by
  rw [C15_stored_is_structural_any p storing norm d hwn]
  exact xDoc_so hp storing d (wfDocN_wf hwn)

/-- … with any layout in front of the tokens: the callbacks other than whitespace callbacks are `evDoc p storing d` -/
theorem C15_start_only_callbacks_layout (p : Prog) (hp : StartOnly p) (storing : Bool) (norm : Str → Str) (d : Doc)
    (hwn : wfDocN norm d = true) (toks : List Tok) (h : SkelL (tokensOf d) toks) :
    C15_structOf (parseCB p storing toks).1 = evDoc p storing d ∧ (parseCB p storing toks).2.1 = OK := by
  obtain ⟨a, _, c⟩ := C15_layout_independent p storing (tokensOf d) toks h
  obtain ⟨e1, e2⟩ := C15_start_only_callbacks p hp storing norm d hwn
  rw [a, c, e2]
  refine ⟨?_, rfl⟩
  -- the layout-free parse makes no whitespace callback: its callbacks are among `docEvents`
  have hsub := C15_events_sublist p storing norm d hwn
  have hno := List.filter_eq_self.mp (C15_docEvents_nows storing d)
  rw [← e1]
  exact List.filter_eq_self.mpr (fun e he => hno e (hsub.subset he))

/-- **The delivered callbacks and the return value, as a formula — EVERY program.**  For every well-formed duplicate-free document,
    every handler program (any callback may answer CONTINUE, SKIP_CURRENT, SKIP_SIBLINGS, END or an error code) and both modes: the
    handler, data-name and keyword callbacks of the parse are EXACTLY `(gDoc p storing d).1`, in that order, and cif_parse returns
    `(gDoc p storing d).2` (Spec/TraversalEventsAll.lean: the document walked in document order, the only state being the number of
    handler callbacks delivered; per construct which callbacks a CONTINUE / SKIP_CURRENT / SKIP_SIBLINGS / stopping answer leaves
    out).  Together with `C15_stop_semantics_store` (the store) this says in closed form what a parse under any program delivers,
    returns and stores. -/
theorem C15_callbacks_formula (p : Prog) (storing : Bool) (norm : Str → Str) (d : Doc) (hwn : wfDocN norm d = true) :
    (parseCB p storing (tokensOf d)).1 = (gDoc p storing d).1 ∧ (parseCB p storing (tokensOf d)).2.1 = (gDoc p storing d).2 := by
  rw [C15_stored_is_structural_any p storing norm d hwn]
  exact xDoc_g p storing d (wfDocN_wf hwn)

/-- … with any layout in front of the tokens -/
theorem C15_callbacks_formula_layout (p : Prog) (storing : Bool) (norm : Str → Str) (d : Doc) (hwn : wfDocN norm d = true)
    (toks : List Tok) (h : SkelL (tokensOf d) toks) :
    C15_structOf (parseCB p storing toks).1 = (gDoc p storing d).1 ∧ (parseCB p storing toks).2.1 = (gDoc p storing d).2 := by
  obtain ⟨a, _, c⟩ := C15_layout_independent p storing (tokensOf d) toks h
  obtain ⟨e1, e2⟩ := C15_callbacks_formula p storing norm d hwn
  rw [a, c, e2]
  refine ⟨?_, rfl⟩
  have hsub := C15_events_sublist p storing norm d hwn
  have hno := List.filter_eq_self.mp (C15_docEvents_nows storing d)
  rw [← e1]
  exact List.filter_eq_self.mpr (fun e he => hno e (hsub.subset he))

-- ---- non-vacuity / sanity -----------------------------------------------------------------------------------------------------

/-- a program that answers `r` at handler invocation `k` if that is a start callback, CONTINUE otherwise -/
def C15_startDev (k : Nat) (r : Int) : Prog := fun i e => if isStart e ∧ i = k then r else CONTINUE

theorem C15_startDev_startOnly (k : Nat) (r : Int) (hr : r = CONTINUE ∨ r = SKIP_CURRENT ∨ r = SKIP_SIBLINGS ∨ r = END) :
    StartOnly (C15_startDev k r) := by
  intro i e
  unfold C15_startDev
  constructor
  · intro he; simp [he]
  · by_cases h : isStart e = true ∧ i = k
    · simp only [h, and_self, if_true]; exact hr
    · simp only [h, if_false]; simp

/-- the kind of a callback, for the kernel-evaluated instances below -/
def C15_kind : Ev → Nat
  | .cifStart _ => 0 | .cifEnd _ => 1 | .blockStart _ => 2 | .blockEnd _ => 3 | .frameStart _ => 4 | .frameEnd _ => 5
  | .loopStart _ => 6 | .loopEnd _ => 7 | .pktStart => 8 | .pktEnd _ => 9 | .item _ _ => 10 | .dataname _ => 11 | .keyword _ => 12
  | .ws _ => 13

-- block_start (invocation 1) answers SKIP_CURRENT: cif_start, block_start, block_end, cif_end
example : (evDoc (C15_startDev 1 SKIP_CURRENT) true C15_demo).map C15_kind = [0, 2, 3, 1] := by decide +kernel
-- frame_start (invocation 3) answers SKIP_SIBLINGS: cif_start, block_start, data name + item, frame_start — no frame_end, the loop
-- behind the frame is bypassed — block_end, cif_end
example : (evDoc (C15_startDev 3 SKIP_SIBLINGS) true C15_demo).map C15_kind = [0, 2, 11, 10, 4, 3, 1] := by decide +kernel
-- the first packet_start of the loop (invocation 7) answers SKIP_SIBLINGS: no loop_end, but block_end and cif_end
example : ((evDoc (C15_startDev 7 SKIP_SIBLINGS) true C15_demo).map C15_kind).contains 7 = false
    ∧ ((evDoc (C15_startDev 7 SKIP_SIBLINGS) true C15_demo).map C15_kind).getLast? = some 1 := by decide +kernel
-- END at loop_start (invocation 6): the last callback
example : ((evDoc (C15_startDev 6 END) true C15_demo).map C15_kind).getLast? = some 6 := by decide +kernel
-- all continue: the formula is `docEvents`
example : (evDoc allContP true C15_demo).map C15_kind = (docEvents true C15_demo).map C15_kind := by decide +kernel

-- every program: an item of the second packet answers SKIP_SIBLINGS (invocation 13): no packet_end for that packet, loop_end delivered
example : (gDoc (C15_dev1 13 SKIP_SIBLINGS) true C15_demo).1.map C15_kind
    = [0, 2, 11, 10, 4, 11, 10, 5, 12, 11, 11, 6, 8, 10, 10, 9, 8, 10, 10, 7, 3, 1].take 19 ++ [7, 3, 1] := by decide +kernel
-- frame_end (invocation 5) answers the error code 7: last callback, returned
example : ((gDoc (C15_dev1 5 7) true C15_demo).1.map C15_kind).getLast? = some 5 ∧ (gDoc (C15_dev1 5 7) true C15_demo).2 = 7 := by
  decide +kernel
-- all continue: the formula is `docEvents`, result CIF_OK
example : (gDoc allContP true C15_demo).1.map C15_kind = (docEvents true C15_demo).map C15_kind ∧ (gDoc allContP true C15_demo).2 = 0 := by
  decide +kernel

end CifModel
