import CifModel.Props.C15
/-
  Review examples for C15 (group gB, independent review).

  `wfDoc` — the hypothesis of the document-level theorems `C15_all_continue_mirror`, `C15_skip_semantics_rest`, … — does not
  exclude duplicate data names or duplicate block codes, although tools/props/C15.py ASSUMPTIONS / PARTIAL say the DUP_*
  diagnostics are outside the model.  So these theorems also assert `result = CIF_OK ∧ store = denote d` for documents on
  which the C parser reports CIF_DUP_ITEMNAME / CIF_DUP_BLOCKCODE (review finding C15 M4):
-/
namespace CifModel.ReviewC15
open CifModel ParseCB Lemmas.ParseCB Spec.Doc

/-- `data_a _x 1 _x 2 data_a _y .` -/
def dupDoc : Doc :=
  [{ code := a!"a", body := [.item (a!"_x") (.chr false (a!"1")), .item (a!"_x") (.chr false (a!"2"))] },
   { code := a!"a", body := [.item (a!"_y") .na] }]

example : wfDoc dupDoc = true := by decide +kernel
-- the model parses it with result 0 and stores two blocks `a`, the first with a scalar loop naming `_x` twice
example : (parseCB (fun _ _ => 0) true (tokensOf dupDoc)).2.1 = 0 := by decide +kernel
example : (parseCB (fun _ _ => 0) true (tokensOf dupDoc)).2.2.map (fun c => (c.code, c.loops.map (·.names)))
    = [(a!"a", [[a!"_x", a!"_x"]]), (a!"a", [[a!"_y"]])] := by decide +kernel

-- syntax-only mode, full log (not only the number of handler callbacks): equal to the storing log with the handles erased
example : (parseCB (fun k _ => if k = 5 then -2 else 0) false (tokensOf C15_demo)).1.length
    = (parseCB (fun k _ => if k = 5 then -2 else 0) true (tokensOf C15_demo)).1.length := by decide +kernel

end CifModel.ReviewC15
