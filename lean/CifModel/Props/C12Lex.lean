import CifModel.Lemmas.ParserDefectCode
/-
  Props/C12Lex — the TOKEN-level classes of property C12 (each class of input defect is reported with its code and recovered as the
  table `@page error_recovery` of src/parser.c prescribes), universally, on the integrated parser model `Model.Parser`.

  Setting as for the class theorems of Props/C12.lean: ANY container under construction (any `View` of the store; for the frame
  classes: any data block), ANY well-formed run of items (elements) in front of the defect and ANY well-formed run behind it, the
  scanner entering through `Feeds`, accept-all callback.  Conclusion: the element loop of parse_container goes from the first token
  of the run in front to the token behind the run behind having logged EXACTLY ONE report `r`, `r.code` = the documented code, and
  the container holds what the documented recovery prescribes — written as the content of the REPAIRED document (`denoteItems` /
  `denoteElems` of the run in front ++ the repaired construct ++ the run behind), so the surroundings are unaffected.
  The table-key classes add: any well-formed entries before and behind the defective entry inside the table.

  Proofs: Lemmas/ParserDefectLex.lean, Lemmas/ParserDefectFrame.lean, Lemmas/ParserDefectCode.lean (one step lemma per class; compositions `defect_run`
  [Lemmas/ParserDefect.lean], `item_defect_run`, `table_item_run_as`, `elems_defect_run`).
-/
namespace CifModel
open CifModel.Model CifModel.Model.Lexer CifModel.Model.Parser CifModel.Spec.Grammar CifModel.Spec.Lexical
open CifModel.Gen.ErrCodes

/-- **C12_unexpected_delim** — a closing bracket or brace where an item is expected (not directly behind a loop): CIF_UNEXPECTED_DELIM, the delimiter is ignored -/
theorem C12_unexpected_delim (o : Opts) {path : Path} {put : Container → Cif} {code : Str} (hv : View o path put code)
    (pre post : List Item) (ty : TokType) (tx : Str) (seen seen2 : List Str) (rest : List TokSpec) (s : PS) (fuel : Nat) (w : W)
    (fs : List Container) (ls : List Loop) (isBlock : Bool) (hcif : w.cif = put (.mk code fs ls))
    (hty : ty = .clist ∨ ty = .ctable)
    (hpre : wfItems o pre seen = true) (hseen : ∀ k ∈ normNames o ls, k ∈ seen) (hnoloop : lastIsLoop pre = false)
    (hpost : wfItems o post seen2 = true)
    (hseen2 : ∀ k ∈ normNames o (denoteItems o.dia o.normKey pre ls), k ∈ seen2)
    (hfuel : szItems pre + szItems post + 1 ≤ fuel)
    (hrest : lastIsLoop post = true → ∃ ty tx ts, rest = (ty, tx) :: ts ∧ isTerminator ty = true)
    (hF : Feeds o s (itemsToks pre ++ ([(ty, tx)] ++ (itemsToks post ++ rest)))) :
    ∃ s' r, elemsLoop o (fuel + post.length + 1 + pre.length) s (some path) isBlock acceptAll w
        = elemsLoop o fuel s' (some path) isBlock acceptAll
            { log := r :: w.log, cif := put (.mk code fs (denoteItems o.dia o.normKey (pre ++ post) ls)) }
      ∧ r.code = CIF_UNEXPECTED_DELIM ∧ Feeds o s' rest :=
  unexpected_delim_run o hv pre post ty tx seen seen2 rest s fuel w fs ls isBlock hcif hty hpre hseen hnoloop hpost hseen2 hfuel hrest hF

/-- **C12_unexpected_term** — `save_` in a data block while no save frame is open: CIF_UNEXPECTED_TERM, ignored -/
theorem C12_unexpected_term (o : Opts) {path : Path} {put : Container → Cif} {code : Str} (hv : View o path put code)
    (pre post : List Item) (tx : Str) (seen seen2 : List Str) (rest : List TokSpec) (s : PS) (fuel : Nat) (w : W)
    (fs : List Container) (ls : List Loop) (hcif : w.cif = put (.mk code fs ls))
    (hpre : wfItems o pre seen = true) (hseen : ∀ k ∈ normNames o ls, k ∈ seen)
    (hpost : wfItems o post seen2 = true)
    (hseen2 : ∀ k ∈ normNames o (denoteItems o.dia o.normKey pre ls), k ∈ seen2)
    (hfuel : szItems pre + szItems post + 1 ≤ fuel)
    (hrest : lastIsLoop post = true → ∃ ty tx ts, rest = (ty, tx) :: ts ∧ isTerminator ty = true)
    (hF : Feeds o s (itemsToks pre ++ ([(.frameTerm, tx)] ++ (itemsToks post ++ rest)))) :
    ∃ s' r, elemsLoop o (fuel + post.length + 1 + pre.length) s (some path) true acceptAll w
        = elemsLoop o fuel s' (some path) true acceptAll
            { log := r :: w.log, cif := put (.mk code fs (denoteItems o.dia o.normKey (pre ++ post) ls)) }
      ∧ r.code = CIF_UNEXPECTED_TERM ∧ Feeds o s' rest :=
  unexpected_term_run o hv pre post tx seen seen2 rest s fuel w fs ls hcif hpre hseen hpost hseen2 hfuel hrest hF

/-- **C12_missing_delim_list** — a list (elements of any kind and depth) whose closing bracket is missing, as the value of an item: CIF_MISSING_DELIM, the bracket is assumed in front of the token that cannot continue the list -/
theorem C12_missing_delim_list (o : Opts) {path : Path} {put : Container → Cif} {code : Str} (hv : View o path put code)
    (pre post : List Item) (n : Str) (btx : Str) (vs : List Val) (seen seen2 : List Str) (rest : List TokSpec) (s : PS) (fuel : Nat)
    (w : W) (fs : List Container) (ls : List Loop) (isBlock : Bool) (hcif : w.cif = put (.mk code fs ls))
    (hpre : wfItems o pre seen = true) (hseen : ∀ k ∈ normNames o ls, k ∈ seen)
    (hname : wfName n = true) (hfresh : o.norm n ∉ normNames o (denoteItems o.dia o.normKey pre ls))
    (hwv : wfVals o vs = true) (hpost : wfItems o post seen2 = true)
    (hseen2 : ∀ k ∈ normNames o (denoteItems o.dia o.normKey (pre ++ [.item n (.lst vs)]) ls), k ∈ seen2)
    (hfuel : szItems pre + szItems post + (szVals vs + 2) + 1 ≤ fuel)
    (hpostne : post ≠ [] ∨ ∃ ty tx ts, rest = (ty, tx) :: ts ∧ isTerminator ty = true)
    (hrest : lastIsLoop post = true → ∃ ty tx ts, rest = (ty, tx) :: ts ∧ isTerminator ty = true)
    (hF : Feeds o s (itemsToks pre ++ (((.name, n) :: (.olist, btx) :: valsToks vs) ++ (itemsToks post ++ rest)))) :
    ∃ s' r, elemsLoop o (fuel + post.length + 1 + pre.length) s (some path) isBlock acceptAll w
        = elemsLoop o fuel s' (some path) isBlock acceptAll
            { log := r :: w.log, cif := put (.mk code fs (denoteItems o.dia o.normKey (pre ++ [.item n (.lst vs)] ++ post) ls)) }
      ∧ r.code = CIF_MISSING_DELIM ∧ Feeds o s' rest :=
  missing_delim_list_run o hv pre post n btx vs seen seen2 rest s fuel w fs ls isBlock hcif hpre hseen hname hfresh hwv hpost hseen2 hfuel hpostne hrest hF

/-- **C12_missing_delim_table** — a table whose closing brace is missing, as the value of an item: CIF_MISSING_DELIM, the brace is assumed -/
theorem C12_missing_delim_table (o : Opts) {path : Path} {put : Container → Cif} {code : Str} (hv : View o path put code)
    (pre post : List Item) (n : Str) (btx : Str) (es : List (Str × Presentation × Val)) (seen seen2 : List Str) (rest : List TokSpec)
    (s : PS) (fuel : Nat) (w : W) (fs : List Container) (ls : List Loop) (isBlock : Bool) (hcif : w.cif = put (.mk code fs ls))
    (hpre : wfItems o pre seen = true) (hseen : ∀ k ∈ normNames o ls, k ∈ seen)
    (hname : wfName n = true) (hfresh : o.norm n ∉ normNames o (denoteItems o.dia o.normKey pre ls))
    (hwv : wfEntries o es = true) (hpost : wfItems o post seen2 = true)
    (hseen2 : ∀ k ∈ normNames o (denoteItems o.dia o.normKey (pre ++ [.item n (.tbl es)]) ls), k ∈ seen2)
    (hfuel : szItems pre + szItems post + (szEntries es + 2) + 1 ≤ fuel)
    (hpostne : post ≠ [] ∨ ∃ ty tx ts, rest = (ty, tx) :: ts ∧ isTerminator ty = true)
    (hrest : lastIsLoop post = true → ∃ ty tx ts, rest = (ty, tx) :: ts ∧ isTerminator ty = true)
    (hF : Feeds o s (itemsToks pre ++ (((.name, n) :: (.otable, btx) :: entriesToks es) ++ (itemsToks post ++ rest)))) :
    ∃ s' r, elemsLoop o (fuel + post.length + 1 + pre.length) s (some path) isBlock acceptAll w
        = elemsLoop o fuel s' (some path) isBlock acceptAll
            { log := r :: w.log, cif := put (.mk code fs (denoteItems o.dia o.normKey (pre ++ [.item n (.tbl es)] ++ post) ls)) }
      ∧ r.code = CIF_MISSING_DELIM ∧ Feeds o s' rest :=
  missing_delim_table_run o hv pre post n btx es seen seen2 rest s fuel w fs ls isBlock hcif hpre hseen hname hfresh hwv hpost hseen2 hfuel hpostne hrest hF

/-- **C12_table_missing_value** — a table key that is not followed by a value: CIF_MISSING_VALUE, the entry gets the unknown value; any entries before and behind in the table, any items before and behind the item -/
theorem C12_table_missing_value (o : Opts) {path : Path} {put : Container → Cif} {code : Str} (hv : View o path put code)
    (pre post : List Item) (n : Str) (btx : Str) (epre epost : List (Str × Presentation × Val)) (k : Str) (kp : Presentation)
    (seen seen2 : List Str) (rest : List TokSpec) (s : PS) (fuel : Nat) (w : W)
    (fs : List Container) (ls : List Loop) (isBlock : Bool) (hcif : w.cif = put (.mk code fs ls))
    (hpre : wfItems o pre seen = true) (hseen : ∀ k ∈ normNames o ls, k ∈ seen)
    (hname : wfName n = true) (hfresh : o.norm n ∉ normNames o (denoteItems o.dia o.normKey pre ls))
    (hepre : wfEntries o epre = true) (hepost : wfEntries o epost = true) (hk0 : noNul k = true) (hkd : hasDisallowed k = false)
    (hpost : wfItems o post seen2 = true)
    (hseen2 : ∀ x ∈ normNames o (denoteItems o.dia o.normKey (pre ++ [.item n (.tbl (epre ++ [(k, kp, Val.unk)] ++ epost))]) ls), x ∈ seen2)
    (hfuel : szItems pre + szItems post + (szEntries epre + szEntries epost + 0 + 2 + 2 * epre.length + 3) + 1 ≤ fuel)
    (hrest : lastIsLoop post = true → ∃ ty tx ts, rest = (ty, tx) :: ts ∧ isTerminator ty = true)
    (hF : Feeds o s (itemsToks pre ++ (((.name, n) :: (.otable, btx) ::
        (entriesToks epre ++ ([(TokType.key, k)] ++ (entriesToks epost ++ [(.ctable, [125])])))) ++ (itemsToks post ++ rest)))) :
    ∃ s' r, elemsLoop o (fuel + post.length + 1 + pre.length) s (some path) isBlock acceptAll w
        = elemsLoop o fuel s' (some path) isBlock acceptAll
            { log := r :: w.log,
              cif := put (.mk code fs (denoteItems o.dia o.normKey (pre ++ [.item n (.tbl (epre ++ [(k, kp, Val.unk)] ++ epost))] ++ post) ls)) }
      ∧ r.code = CIF_MISSING_VALUE ∧ Feeds o s' rest :=
  table_missing_value_run o hv pre post n btx epre epost k kp seen seen2 rest s fuel w fs ls isBlock hcif hpre hseen hname hfresh hepre hepost hk0 hkd hpost hseen2 hfuel hrest hF

/-- **C12_misquoted_key** — a text field in key position: CIF_MISQUOTED_KEY, accepted — the entry is kept under the decoded content of the field -/
theorem C12_misquoted_key (o : Opts) {path : Path} {put : Container → Cif} {code : Str} (hv : View o path put code)
    (pre post : List Item) (n : Str) (btx : Str) (epre epost : List (Str × Presentation × Val)) (body : Str) (kp : Presentation) (v : Val)
    (seen seen2 : List Str) (rest : List TokSpec) (s : PS) (fuel : Nat) (w : W)
    (fs : List Container) (ls : List Loop) (isBlock : Bool) (hcif : w.cif = put (.mk code fs ls))
    (hpre : wfItems o pre seen = true) (hseen : ∀ k ∈ normNames o ls, k ∈ seen)
    (hname : wfName n = true) (hfresh : o.norm n ∉ normNames o (denoteItems o.dia o.normKey pre ls))
    (hepre : wfEntries o epre = true) (hepost : wfEntries o epost = true) (hk0 : noNul (Decode.decodeText o.unfold o.prem body) = true)
    (hkd : hasDisallowed (Decode.decodeText o.unfold o.prem body) = false) (hwv : wfVal o v = true)
    (hpost : wfItems o post seen2 = true)
    (hseen2 : ∀ x ∈ normNames o (denoteItems o.dia o.normKey (pre ++ [.item n (.tbl (epre ++ [(Decode.decodeText o.unfold o.prem body, kp, v)] ++ epost))]) ls), x ∈ seen2)
    (hfuel : szItems pre + szItems post + (szEntries epre + szEntries epost + szVal v + 2 + 2 * epre.length + 3) + 1 ≤ fuel)
    (hrest : lastIsLoop post = true → ∃ ty tx ts, rest = (ty, tx) :: ts ∧ isTerminator ty = true)
    (hF : Feeds o s (itemsToks pre ++ (((.name, n) :: (.otable, btx) ::
        (entriesToks epre ++ (((TokType.tkey, body) :: valToks v) ++ (entriesToks epost ++ [(.ctable, [125])])))) ++ (itemsToks post ++ rest)))) :
    ∃ s' r, elemsLoop o (fuel + post.length + 1 + pre.length) s (some path) isBlock acceptAll w
        = elemsLoop o fuel s' (some path) isBlock acceptAll
            { log := r :: w.log,
              cif := put (.mk code fs (denoteItems o.dia o.normKey (pre ++ [.item n (.tbl (epre ++ [(Decode.decodeText o.unfold o.prem body, kp, v)] ++ epost))] ++ post) ls)) }
      ∧ r.code = CIF_MISQUOTED_KEY ∧ Feeds o s' rest :=
  table_misquoted_key_run o hv pre post n btx epre epost body kp v seen seen2 rest s fuel w fs ls isBlock hcif hpre hseen hname hfresh hepre hepost hk0 hkd hwv hpost hseen2 hfuel hrest hF

/-- **C12_missing_key** — a delimited string, text field, list or table without key inside a table: CIF_MISSING_KEY, the value (of any size) is parsed and dropped -/
theorem C12_missing_key (o : Opts) {path : Path} {put : Container → Cif} {code : Str} (hv : View o path put code)
    (pre post : List Item) (n : Str) (btx : Str) (epre epost : List (Str × Presentation × Val)) (v : Val)
    (seen seen2 : List Str) (rest : List TokSpec) (s : PS) (fuel : Nat) (w : W)
    (fs : List Container) (ls : List Loop) (isBlock : Bool) (hcif : w.cif = put (.mk code fs ls))
    (hpre : wfItems o pre seen = true) (hseen : ∀ k ∈ normNames o ls, k ∈ seen)
    (hname : wfName n = true) (hfresh : o.norm n ∉ normNames o (denoteItems o.dia o.normKey pre ls))
    (hepre : wfEntries o epre = true) (hepost : wfEntries o epost = true) (hnb : notBare v = true) (hwv : wfVal o v = true)
    (hpost : wfItems o post seen2 = true)
    (hseen2 : ∀ x ∈ normNames o (denoteItems o.dia o.normKey (pre ++ [.item n (.tbl (epre ++ [] ++ epost))]) ls), x ∈ seen2)
    (hfuel : szItems pre + szItems post + (szEntries epre + szEntries epost + szVal v + 1 + 2 * epre.length + 3) + 1 ≤ fuel)
    (hrest : lastIsLoop post = true → ∃ ty tx ts, rest = (ty, tx) :: ts ∧ isTerminator ty = true)
    (hF : Feeds o s (itemsToks pre ++ (((.name, n) :: (.otable, btx) ::
        (entriesToks epre ++ ((valToks v) ++ (entriesToks epost ++ [(.ctable, [125])])))) ++ (itemsToks post ++ rest)))) :
    ∃ s' r, elemsLoop o (fuel + post.length + 1 + pre.length) s (some path) isBlock acceptAll w
        = elemsLoop o fuel s' (some path) isBlock acceptAll
            { log := r :: w.log,
              cif := put (.mk code fs (denoteItems o.dia o.normKey (pre ++ [.item n (.tbl (epre ++ [] ++ epost))] ++ post) ls)) }
      ∧ r.code = CIF_MISSING_KEY ∧ Feeds o s' rest :=
  table_missing_key_run o hv pre post n btx epre epost v seen seen2 rest s fuel w fs ls isBlock hcif hpre hseen hname hfresh hepre hepost hnb hwv hpost hseen2 hfuel hrest hF

/-- **C12_missing_key_word** — a whitespace-delimited word without colon inside a table: CIF_MISSING_KEY, dropped -/
theorem C12_missing_key_word (o : Opts) {path : Path} {put : Container → Cif} {code : Str} (hv : View o path put code)
    (pre post : List Item) (n : Str) (btx : Str) (epre epost : List (Str × Presentation × Val)) (tx : Str)
    (seen seen2 : List Str) (rest : List TokSpec) (s : PS) (fuel : Nat) (w : W)
    (fs : List Container) (ls : List Loop) (isBlock : Bool) (hcif : w.cif = put (.mk code fs ls))
    (hpre : wfItems o pre seen = true) (hseen : ∀ k ∈ normNames o ls, k ∈ seen)
    (hname : wfName n = true) (hfresh : o.norm n ∉ normNames o (denoteItems o.dia o.normKey pre ls))
    (hepre : wfEntries o epre = true) (hepost : wfEntries o epost = true) (hhead : tx.head? ≠ some colon) (hcolon : colonIdx tx = none)
    (hpost : wfItems o post seen2 = true)
    (hseen2 : ∀ x ∈ normNames o (denoteItems o.dia o.normKey (pre ++ [.item n (.tbl (epre ++ [] ++ epost))]) ls), x ∈ seen2)
    (hfuel : szItems pre + szItems post + (szEntries epre + szEntries epost + 0 + 1 + 2 * epre.length + 3) + 1 ≤ fuel)
    (hrest : lastIsLoop post = true → ∃ ty tx ts, rest = (ty, tx) :: ts ∧ isTerminator ty = true)
    (hF : Feeds o s (itemsToks pre ++ (((.name, n) :: (.otable, btx) ::
        (entriesToks epre ++ ([(TokType.value, tx)] ++ (entriesToks epost ++ [(.ctable, [125])])))) ++ (itemsToks post ++ rest)))) :
    ∃ s' r, elemsLoop o (fuel + post.length + 1 + pre.length) s (some path) isBlock acceptAll w
        = elemsLoop o fuel s' (some path) isBlock acceptAll
            { log := r :: w.log,
              cif := put (.mk code fs (denoteItems o.dia o.normKey (pre ++ [.item n (.tbl (epre ++ [] ++ epost))] ++ post) ls)) }
      ∧ r.code = CIF_MISSING_KEY ∧ Feeds o s' rest :=
  table_stray_word_run o hv pre post n btx epre epost tx seen seen2 rest s fuel w fs ls isBlock hcif hpre hseen hname hfresh hepre hepost hhead hcolon hpost hseen2 hfuel hrest hF

/-- **C12_null_key** — a colon standing alone in key position: CIF_NULL_KEY; the value behind it is parsed and — the store has no NULL key — dropped -/
theorem C12_null_key (o : Opts) {path : Path} {put : Container → Cif} {code : Str} (hv : View o path put code)
    (pre post : List Item) (n : Str) (btx : Str) (epre epost : List (Str × Presentation × Val)) (v : Val)
    (seen seen2 : List Str) (rest : List TokSpec) (s : PS) (fuel : Nat) (w : W)
    (fs : List Container) (ls : List Loop) (isBlock : Bool) (hcif : w.cif = put (.mk code fs ls))
    (hpre : wfItems o pre seen = true) (hseen : ∀ k ∈ normNames o ls, k ∈ seen)
    (hname : wfName n = true) (hfresh : o.norm n ∉ normNames o (denoteItems o.dia o.normKey pre ls))
    (hepre : wfEntries o epre = true) (hepost : wfEntries o epost = true) (hwv : wfVal o v = true)
    (hpost : wfItems o post seen2 = true)
    (hseen2 : ∀ x ∈ normNames o (denoteItems o.dia o.normKey (pre ++ [.item n (.tbl (epre ++ [] ++ epost))]) ls), x ∈ seen2)
    (hfuel : szItems pre + szItems post + (szEntries epre + szEntries epost + szVal v + 2 + 2 * epre.length + 3) + 1 ≤ fuel)
    (hrest : lastIsLoop post = true → ∃ ty tx ts, rest = (ty, tx) :: ts ∧ isTerminator ty = true)
    (hF : Feeds o s (itemsToks pre ++ (((.name, n) :: (.otable, btx) ::
        (entriesToks epre ++ (((TokType.value, [colon]) :: valToks v) ++ (entriesToks epost ++ [(.ctable, [125])])))) ++ (itemsToks post ++ rest)))) :
    ∃ s' r, elemsLoop o (fuel + post.length + 1 + pre.length) s (some path) isBlock acceptAll w
        = elemsLoop o fuel s' (some path) isBlock acceptAll
            { log := r :: w.log,
              cif := put (.mk code fs (denoteItems o.dia o.normKey (pre ++ [.item n (.tbl (epre ++ [] ++ epost))] ++ post) ls)) }
      ∧ r.code = CIF_NULL_KEY ∧ Feeds o s' rest :=
  table_null_key_run o hv pre post n btx epre epost v seen seen2 rest s fuel w fs ls isBlock hcif hpre hseen hname hfresh hepre hepost hwv hpost hseen2 hfuel hrest hF

/-- **C12_unquoted_key** — `key:value` without quotes inside a table: CIF_UNQUOTED_KEY, accepted — the table loop, from the state in which the scanner hands out the word (`hn`) and feeds, the tail of the word pushed back, the value and what follows (`hre`); any entries before (`acc1`) and behind -/
theorem C12_unquoted_key (o : Opts) (t : Tok) (s' : PS) (i : Nat) (v : Val) (epost : List (Str × Presentation × Val))
    (X : List TokSpec) (fuel : Nat) (s1 : PS) (w1 : W) (acc1 : List (Str × Str × V))
    (hn : ∀ pol w, nextTok o s1 pol w = .ok (t, s') w) (hty : t.ty = .value) (hhead : t.text.head? ≠ some colon)
    (hci : colonIdx t.text = some i)
    (hk0 : noNul (t.text.take i) = true) (hkd : hasDisallowed (t.text.take i) = false)
    (hwv : wfVal o v = true) (hepost : wfEntries o epost = true) (hf : szVal v + szEntries epost + 3 ≤ fuel)
    (hre : Feeds o (consume (trimTok s' t (i + 1) .key).2) (valToks v ++ (entriesToks epost ++ (.ctable, [125]) :: X))) :
    ∃ s2 r, tableLoop o fuel s1 acc1 acceptAll w1
        = .ok (denoteEntries o.dia o.normKey epost (putEntry o.normKey acc1 (t.text.take i) (denoteVal o.dia o.normKey v)), s2)
            { w1 with log := r :: w1.log }
      ∧ r.code = CIF_UNQUOTED_KEY ∧ Feeds o s2 X :=
  table_unquoted_key_tail o t s' i v epost X fuel s1 w1 acc1 hn hty hhead hci hk0 hkd hwv hepost hf hre

/-- **C12_null_key_word** — `:value` (nothing in front of the colon) inside a table: CIF_NULL_KEY, the value is dropped — anchored like C12_unquoted_key -/
theorem C12_null_key_word (o : Opts) (t : Tok) (s' : PS) (v : Val) (epost : List (Str × Presentation × Val))
    (X : List TokSpec) (fuel : Nat) (s1 : PS) (w1 : W) (acc1 : List (Str × Str × V))
    (hn : ∀ pol w, nextTok o s1 pol w = .ok (t, s') w) (hty : t.ty = .value) (hhead : t.text.head? = some colon)
    (hlen : 1 < t.text.length) (hwv : wfVal o v = true) (hepost : wfEntries o epost = true)
    (hf : szVal v + szEntries epost + 3 ≤ fuel)
    (hre : Feeds o (consume (trimTok s' t 1 .key).2) (valToks v ++ (entriesToks epost ++ (.ctable, [125]) :: X))) :
    ∃ s2 r, tableLoop o fuel s1 acc1 acceptAll w1
        = .ok (denoteEntries o.dia o.normKey epost acc1, s2) { w1 with log := r :: w1.log }
      ∧ r.code = CIF_NULL_KEY ∧ Feeds o s2 X :=
  table_null_key_long_tail o t s' v epost X fuel s1 w1 acc1 hn hty hhead hlen hwv hepost hf hre

/-- **C12_frame_unterminated** — a save frame without `save_`: ended by the end of the input (CIF_EOF_IN_FRAME), by the next block header (CIF_NO_FRAME_TERM) or — frames do not nest, `max_frame_depth = 1` — by the next frame header (CIF_NO_FRAME_TERM): the terminator is assumed; any elements (items, loops, frames) of the data block before, any behind -/
theorem C12_frame_unterminated (o : Opts) (done : Cif) (bcode : Str) (hfresh : ∀ c ∈ done, codeIs o.norm (o.norm bcode) c = false)
    (hmfd : o.maxFrameDepth ≠ 0) (pre post : List Elem) (fc : Str) (body : List Item)
    (seen fseen seen2 fseen2 : List Str) (ty : TokType) (tx : Str) (ts rest : List TokSpec) (s : PS) (fuel : Nat) (w : W)
    (fs : List Container) (ls : List Loop)
    (hcif : w.cif = done ++ [.mk bcode fs ls]) (hpre : wfElems o pre seen fseen = true)
    (hseen : ∀ k ∈ normNames o ls, k ∈ seen) (hfseen : ∀ c ∈ fs, o.norm c.code ∈ fseen)
    (hcode : wfCode fc = true) (hnew : ∀ c ∈ (denoteElems o.dia o.normKey pre fs ls).1, codeIs o.norm (o.norm fc) c = false)
    (hwb : wfItems o body [] = true)
    (hpost : wfElems o post seen2 fseen2 = true)
    (hseen2 : ∀ k ∈ normNames o (denoteElems o.dia o.normKey (pre ++ [.frame fc (body.map Elem.plain)]) fs ls).2, k ∈ seen2)
    (hfseen2 : ∀ c ∈ (denoteElems o.dia o.normKey (pre ++ [.frame fc (body.map Elem.plain)]) fs ls).1, o.norm c.code ∈ fseen2)
    (hfuel : szElems pre + szElems post + (szItems body + body.length + 3) + 1 ≤ fuel)
    (hnext : elemsToks post ++ rest = (ty, tx) :: ts) (hty : endsOpenFrame o ty)
    (hrest : ∃ ty tx ts, rest = (ty, tx) :: ts ∧ isTerminator ty = true)
    (hF : Feeds o s (elemsToks pre ++ (((.frameHead, fc) :: itemsToks body) ++ (elemsToks post ++ rest)))) :
    ∃ s' r, elemsLoop o (fuel + post.length + 1 + pre.length) s (some [o.norm bcode]) true acceptAll w
        = elemsLoop o fuel s' (some [o.norm bcode]) true acceptAll
            { log := r :: w.log,
              cif := done ++ [.mk bcode (denoteElems o.dia o.normKey (pre ++ [.frame fc (body.map Elem.plain)] ++ post) fs ls).1
                (denoteElems o.dia o.normKey (pre ++ [.frame fc (body.map Elem.plain)] ++ post) fs ls).2] }
      ∧ r.code = openFrameCode ty ∧ Feeds o s' rest :=
  frame_open_run o done bcode hfresh hmfd pre post fc body seen fseen seen2 fseen2 ty tx ts rest s fuel w fs ls hcif hpre hseen hfseen hcode hnew hwb hpost hseen2 hfseen2 hfuel hnext hty hrest hF

/-- **C12_frame_not_allowed** — a save frame while frames are switched off (`max_frame_depth = 0`): CIF_FRAME_NOT_ALLOWED, the frame is accepted -/
theorem C12_frame_not_allowed (o : Opts) (done : Cif) (bcode : Str) (hfresh : ∀ c ∈ done, codeIs o.norm (o.norm bcode) c = false)
    (hmfd : o.maxFrameDepth = 0) (pre post : List Item) (fc : Str) (body : List Item) (seen seen2 : List Str)
    (rest : List TokSpec) (s : PS) (fuel : Nat) (w : W) (fs : List Container) (ls : List Loop)
    (hcif : w.cif = done ++ [.mk bcode fs ls]) (hpre : wfItems o pre seen = true) (hseen : ∀ k ∈ normNames o ls, k ∈ seen)
    (hcode : wfCode fc = true) (hnew : ∀ c ∈ fs, codeIs o.norm (o.norm fc) c = false) (hwb : wfItems o body [] = true)
    (hpost : wfItems o post seen2 = true) (hseen2 : ∀ k ∈ normNames o (denoteItems o.dia o.normKey pre ls), k ∈ seen2)
    (hfuel : szItems pre + szItems post + (szItems body + body.length + 3) + 1 ≤ fuel)
    (hrest : lastIsLoop post = true → ∃ ty tx ts, rest = (ty, tx) :: ts ∧ isTerminator ty = true)
    (hF : Feeds o s (itemsToks pre ++ ((.frameHead, fc) :: (itemsToks body ++ (.frameTerm, []) :: (itemsToks post ++ rest))))) :
    ∃ s' r, elemsLoop o (fuel + post.length + 1 + pre.length) s (some [o.norm bcode]) true acceptAll w
        = elemsLoop o fuel s' (some [o.norm bcode]) true acceptAll
            { log := r :: w.log,
              cif := done ++ [.mk bcode (fs ++ [.mk fc [] (denoteItems o.dia o.normKey body [])])
                (denoteItems o.dia o.normKey (pre ++ post) ls)] }
      ∧ r.code = CIF_FRAME_NOT_ALLOWED ∧ Feeds o s' rest :=
  frame_not_allowed_run o done bcode hfresh hmfd pre post fc body seen seen2 rest s fuel w fs ls hcif hpre hseen hcode hnew hwb hpost hseen2 hfuel hrest hF

/-- **C12_scanner_report_in_element_position** — the parser half of every class the SCANNER reports in front of an element (CIF_RESERVED_WORD: the word is reported and dropped inside next_token): the container receives exactly the items behind it, the log exactly the scanner's report -/
theorem C12_scanner_report_in_element_position (o : Opts) {path : Path} {put : Container → Cif} {code : Str} (hv : View o path put code)
    (post : List Item) (seen2 : List Str) (rest : List TokSpec) (s s' : PS) (t : Tok) (r : Report) (fuel : Nat) (w : W)
    (fs : List Container) (ls : List Loop) (isBlock : Bool) (hcif : w.cif = put (.mk code fs ls))
    (hpost : wfItems o post seen2 = true) (hseen2 : ∀ k ∈ normNames o ls, k ∈ seen2)
    (hn : nextTok o s acceptAll w = .ok (t, s') { w with log := r :: w.log })
    (hfuel : szItems post + 1 ≤ fuel)
    (hrest : lastIsLoop post = true → ∃ ty tx ts, rest = (ty, tx) :: ts ∧ isTerminator ty = true)
    (hF : Feeds o s' (itemsToks post ++ rest)) :
    ∃ s'', elemsLoop o (fuel + post.length) s (some path) isBlock acceptAll w
        = elemsLoop o fuel s'' (some path) isBlock acceptAll
            { log := r :: w.log, cif := put (.mk code fs (denoteItems o.dia o.normKey post ls)) }
      ∧ Feeds o s'' rest :=
  scanner_report_run o hv post seen2 rest s s' t r fuel w fs ls isBlock hcif hpost hseen2 hn hfuel hrest hF

/-- **C12_null_loop** — `loop_` that is not followed by a data name: CIF_NULL_LOOP, ignored -/
theorem C12_null_loop (o : Opts) {path : Path} {put : Container → Cif} {code : Str} (hv : View o path put code)
    (pre post : List Item) (seen seen2 : List Str) (rest : List TokSpec) (s : PS) (fuel : Nat) (w : W)
    (fs : List Container) (ls : List Loop) (isBlock : Bool) (hcif : w.cif = put (.mk code fs ls))
    (hpre : wfItems o pre seen = true) (hseen : ∀ k ∈ normNames o ls, k ∈ seen)
    (hpost : wfItems o post seen2 = true)
    (hseen2 : ∀ k ∈ normNames o (denoteItems o.dia o.normKey pre ls), k ∈ seen2)
    (hfuel : szItems pre + szItems post + 1 + 1 ≤ fuel)
    (hnext : ∃ ty tx ts, itemsToks post ++ rest = (ty, tx) :: ts ∧ ty ≠ .name)
    (hrest : lastIsLoop post = true → ∃ ty tx ts, rest = (ty, tx) :: ts ∧ isTerminator ty = true)
    (hF : Feeds o s (itemsToks pre ++ ([(.loopKw, [])] ++ (itemsToks post ++ rest)))) :
    ∃ s' r, elemsLoop o (fuel + post.length + 1 + pre.length) s (some path) isBlock acceptAll w
        = elemsLoop o fuel s' (some path) isBlock acceptAll
            { log := r :: w.log, cif := put (.mk code fs (denoteItems o.dia o.normKey (pre ++ post) ls)) }
      ∧ r.code = CIF_NULL_LOOP ∧ Feeds o s' rest :=
  null_loop_run o hv pre post seen seen2 rest s fuel w fs ls isBlock hcif hpre hseen hpost hseen2 hfuel hnext hrest hF

/-- **C12_invalid_itemname** — a data name that is not a valid item name: CIF_INVALID_ITEMNAME, the item is parsed and dropped -/
theorem C12_invalid_itemname (o : Opts) {path : Path} {put : Container → Cif} {code : Str} (hv : View o path put code)
    (pre post : List Item) (n : Str) (v : Val) (seen seen2 : List Str) (rest : List TokSpec) (s : PS) (fuel : Nat) (w : W)
    (fs : List Container) (ls : List Loop) (isBlock : Bool) (hcif : w.cif = put (.mk code fs ls))
    (hpre : wfItems o pre seen = true) (hseen : ∀ k ∈ normNames o ls, k ∈ seen)
    (hn0 : noNul n = true) (hinv : isValidName true n = false)
    (hwv : wfVal o v = true) (hpost : wfItems o post seen2 = true)
    (hseen2 : ∀ k ∈ normNames o (denoteItems o.dia o.normKey pre ls), k ∈ seen2)
    (hfuel : szItems pre + szItems post + szVal v + 1 ≤ fuel)
    (hrest : lastIsLoop post = true → ∃ ty tx ts, rest = (ty, tx) :: ts ∧ isTerminator ty = true)
    (hF : Feeds o s (itemsToks pre ++ (((.name, n) :: valToks v) ++ (itemsToks post ++ rest)))) :
    ∃ s' r, elemsLoop o (fuel + post.length + 1 + pre.length) s (some path) isBlock acceptAll w
        = elemsLoop o fuel s' (some path) isBlock acceptAll
            { log := r :: w.log, cif := put (.mk code fs (denoteItems o.dia o.normKey (pre ++ post) ls)) }
      ∧ r.code = CIF_INVALID_ITEMNAME ∧ Feeds o s' rest :=
  invalid_name_run o hv pre post n v seen seen2 rest s fuel w fs ls isBlock hcif hpre hseen hn0 hinv hwv hpost hseen2 hfuel hrest hF

/-- **C12_invalid_framecode** — a save frame whose code is not a valid frame code: CIF_INVALID_FRAMECODE, the code is used anyway; any elements of the data block before and behind -/
theorem C12_invalid_framecode (o : Opts) (done : Cif) (bcode : Str) (hfresh : ∀ c ∈ done, codeIs o.norm (o.norm bcode) c = false)
    (hmfd : o.maxFrameDepth ≠ 0) (pre post : List Elem) (fc : Str) (body : List Item)
    (seen fseen seen2 fseen2 : List Str) (rest : List TokSpec) (s : PS) (fuel : Nat) (w : W)
    (fs : List Container) (ls : List Loop)
    (hcif : w.cif = done ++ [.mk bcode fs ls]) (hpre : wfElems o pre seen fseen = true)
    (hseen : ∀ k ∈ normNames o ls, k ∈ seen) (hfseen : ∀ c ∈ fs, o.norm c.code ∈ fseen)
    (hn0 : noNul fc = true) (hinv : isValidName false fc = false)
    (hnew : ∀ c ∈ (denoteElems o.dia o.normKey pre fs ls).1, codeIs o.norm (o.norm fc) c = false)
    (hwb : wfItems o body [] = true)
    (hpost : wfElems o post seen2 fseen2 = true)
    (hseen2 : ∀ k ∈ normNames o (denoteElems o.dia o.normKey (pre ++ [.frame fc (body.map Elem.plain)]) fs ls).2, k ∈ seen2)
    (hfseen2 : ∀ c ∈ (denoteElems o.dia o.normKey (pre ++ [.frame fc (body.map Elem.plain)]) fs ls).1, o.norm c.code ∈ fseen2)
    (hfuel : szElems pre + szElems post + (szItems body + body.length + 3) + 1 ≤ fuel)
    (hrest : ∃ ty tx ts, rest = (ty, tx) :: ts ∧ isTerminator ty = true)
    (hF : Feeds o s (elemsToks pre ++ (((.frameHead, fc) :: (itemsToks body ++ [(.frameTerm, [])])) ++ (elemsToks post ++ rest)))) :
    ∃ s' r, elemsLoop o (fuel + post.length + 1 + pre.length) s (some [o.norm bcode]) true acceptAll w
        = elemsLoop o fuel s' (some [o.norm bcode]) true acceptAll
            { log := r :: w.log,
              cif := done ++ [.mk bcode (denoteElems o.dia o.normKey (pre ++ [.frame fc (body.map Elem.plain)] ++ post) fs ls).1
                (denoteElems o.dia o.normKey (pre ++ [.frame fc (body.map Elem.plain)] ++ post) fs ls).2] }
      ∧ r.code = CIF_INVALID_FRAMECODE ∧ Feeds o s' rest :=
  invalid_framecode_run o done bcode hfresh hmfd pre post fc body seen fseen seen2 fseen2 rest s fuel w fs ls hcif hpre hseen hfseen hn0 hinv hnew hwb hpost hseen2 hfseen2 hfuel hrest hF

/-- **C12_dup_framecode** — a save frame header whose normalised code the block already has (any spelling): CIF_DUP_FRAMECODE, the existing frame — wherever it stands among the frames — is reopened and receives the items; any elements before and behind -/
theorem C12_dup_framecode (o : Opts) (done : Cif) (bcode : Str) (hfresh : ∀ c ∈ done, codeIs o.norm (o.norm bcode) c = false)
    (hmfd : o.maxFrameDepth ≠ 0) (pre post : List Elem) (fc fc0 : Str) (body : List Item)
    (seen fseen seen2 fseen2 bseen : List Str) (rest : List TokSpec) (s : PS) (fuel : Nat) (w : W)
    (fs fa fb ffs : List Container) (ls fls : List Loop)
    (hcif : w.cif = done ++ [.mk bcode fs ls]) (hpre : wfElems o pre seen fseen = true)
    (hseen : ∀ k ∈ normNames o ls, k ∈ seen) (hfseen : ∀ c ∈ fs, o.norm c.code ∈ fseen)
    (hcode : wfCode fc = true) (hk : o.norm fc0 = o.norm fc)
    (hsplit : (denoteElems o.dia o.normKey pre fs ls).1 = fa ++ .mk fc0 ffs fls :: fb)
    (ha : ∀ c ∈ fa, codeIs o.norm (o.norm fc) c = false) (hb : ∀ c ∈ fb, codeIs o.norm (o.norm fc) c = false)
    (hwb : wfItems o body bseen = true) (hbseen : ∀ k ∈ normNames o fls, k ∈ bseen) (hpk : allPacked fls)
    (hpost : wfElems o post seen2 fseen2 = true)
    (hseen2 : ∀ k ∈ normNames o (denoteElems o.dia o.normKey pre fs ls).2, k ∈ seen2)
    (hfseen2 : ∀ c ∈ (denoteElems o.dia o.normKey pre fs ls).1, o.norm c.code ∈ fseen2)
    (hfuel : szElems pre + szElems post + (szItems body + body.length + 3) + 1 ≤ fuel)
    (hrest : ∃ ty tx ts, rest = (ty, tx) :: ts ∧ isTerminator ty = true)
    (hF : Feeds o s (elemsToks pre ++ (((.frameHead, fc) :: (itemsToks body ++ [(.frameTerm, [])])) ++ (elemsToks post ++ rest)))) :
    ∃ s' r, elemsLoop o (fuel + post.length + 1 + pre.length) s (some [o.norm bcode]) true acceptAll w
        = elemsLoop o fuel s' (some [o.norm bcode]) true acceptAll
            { log := r :: w.log,
              cif := done ++ [.mk bcode
                (denoteElems o.dia o.normKey post (fa ++ .mk fc0 ffs (denoteItems o.dia o.normKey body fls) :: fb)
                  (denoteElems o.dia o.normKey pre fs ls).2).1
                (denoteElems o.dia o.normKey post (fa ++ .mk fc0 ffs (denoteItems o.dia o.normKey body fls) :: fb)
                  (denoteElems o.dia o.normKey pre fs ls).2).2] }
      ∧ r.code = CIF_DUP_FRAMECODE ∧ Feeds o s' rest :=
  dup_framecode_run o done bcode hfresh hmfd pre post fc fc0 body seen fseen seen2 fseen2 bseen rest s fuel w fs fa fb ffs ls fls hcif hpre hseen hfseen hcode hk hsplit ha hb hwb hbseen hpk hpost hseen2 hfseen2 hfuel hrest hF

/-- **C12_invalid_blockcode** — a data block whose code is not a valid block code: CIF_INVALID_BLOCKCODE, the code is used anyway — whole block loop of parse_cif, any blocks before and behind -/
theorem C12_invalid_blockcode (o : Opts) (hstore : o.store = true) (hmfd : o.maxFrameDepth ≠ 0) (pre post : List Block) (b : Block)
    (bseen bseen2 : List Str) (s : PS) (fuel : Nat) (w : W)
    (hpre : wfBlocks o pre bseen = true) (hseen : ∀ c ∈ w.cif, o.norm c.code ∈ bseen)
    (hn0 : noNul b.code = true) (hinv : isValidName false b.code = false)
    (hnew : ∀ c ∈ w.cif ++ denote o.dia o.normKey pre, codeIs o.norm (o.norm b.code) c = false)
    (hwb : wfElems o b.body [] [] = true) (hpost : wfBlocks o post bseen2 = true)
    (hseen2 : ∀ c ∈ w.cif ++ denote o.dia o.normKey (pre ++ [b]), o.norm c.code ∈ bseen2)
    (hfuel : szBlocks pre + szBlock b + szBlocks post + 1 ≤ fuel)
    (hF : Feeds o s (blocksToks pre ++ ((.blockHead, b.code) :: (elemsToks b.body ++ (blocksToks post ++ [(.end_, [])]))))) :
    ∃ s' r, blocksLoop o (fuel + post.length + 1 + pre.length) s acceptAll w
        = .ok s' { log := r :: w.log, cif := w.cif ++ denote o.dia o.normKey (pre ++ [b] ++ post) }
      ∧ r.code = CIF_INVALID_BLOCKCODE :=
  invalid_blockcode_run o hstore hmfd pre post b bseen bseen2 s fuel w hpre hseen hn0 hinv hnew hwb hpost hseen2 hfuel hF

/-- **C12_dup_blockcode** — a data block header whose normalised code the CIF already has (any spelling): CIF_DUP_BLOCKCODE, the existing block — wherever it stands in the CIF — is reopened and receives the items; whole block loop, any blocks before and behind -/
theorem C12_dup_blockcode (o : Opts) (hstore : o.store = true) (hmfd : o.maxFrameDepth ≠ 0) (pre post : List Block)
    (code code0 : Str) (body : List Item) (bseen bseen2 iseen : List Str) (s : PS) (fuel : Nat) (w : W)
    (ca cb : Cif) (bfs : List Container) (bls : List Loop)
    (hpre : wfBlocks o pre bseen = true) (hseen : ∀ c ∈ w.cif, o.norm c.code ∈ bseen)
    (hcode : wfCode code = true) (hk : o.norm code0 = o.norm code)
    (hsplit : w.cif ++ denote o.dia o.normKey pre = ca ++ .mk code0 bfs bls :: cb)
    (ha : ∀ c ∈ ca, codeIs o.norm (o.norm code) c = false) (hb : ∀ c ∈ cb, codeIs o.norm (o.norm code) c = false)
    (hwb : wfItems o body iseen = true) (hiseen : ∀ k ∈ normNames o bls, k ∈ iseen) (hpk : allPacked bls)
    (hpost : wfBlocks o post bseen2 = true)
    (hseen2 : ∀ c ∈ w.cif ++ denote o.dia o.normKey pre, o.norm c.code ∈ bseen2)
    (hfuel : szBlocks pre + (szItems body + body.length + 3) + szBlocks post + 1 ≤ fuel)
    (hF : Feeds o s (blocksToks pre ++ ((.blockHead, code) :: (itemsToks body ++ (blocksToks post ++ [(.end_, [])]))))) :
    ∃ s' r, blocksLoop o (fuel + post.length + 1 + pre.length) s acceptAll w
        = .ok s' { log := r :: w.log,
                   cif := (ca ++ .mk code0 bfs (denoteItems o.dia o.normKey body bls) :: cb) ++ denote o.dia o.normKey post }
      ∧ r.code = CIF_DUP_BLOCKCODE :=
  dup_blockcode_run o hstore hmfd pre post code code0 body bseen bseen2 iseen s fuel w ca cb bfs bls hpre hseen hcode hk hsplit ha hb hwb hiseen hpk hpost hseen2 hfuel hF

/-! ### the three readings of `C12_frame_unterminated`, each with its code -/

/-- **C12_eof_in_frame** — the input ends inside a save frame: CIF_EOF_IN_FRAME; the frame is closed and kept -/
theorem C12_eof_in_frame (o : Opts) (done : Cif) (bcode : Str) (hfresh : ∀ c ∈ done, codeIs o.norm (o.norm bcode) c = false)
    (hmfd : o.maxFrameDepth ≠ 0) (pre : List Elem) (fc : Str) (body : List Item)
    (seen fseen : List Str) (tx : Str) (ts : List TokSpec) (s : PS) (fuel : Nat) (w : W)
    (fs : List Container) (ls : List Loop)
    (hcif : w.cif = done ++ [.mk bcode fs ls]) (hpre : wfElems o pre seen fseen = true)
    (hseen : ∀ k ∈ normNames o ls, k ∈ seen) (hfseen : ∀ c ∈ fs, o.norm c.code ∈ fseen)
    (hcode : wfCode fc = true) (hnew : ∀ c ∈ (denoteElems o.dia o.normKey pre fs ls).1, codeIs o.norm (o.norm fc) c = false)
    (hwb : wfItems o body [] = true)
    (hfuel : szElems pre + (szItems body + body.length + 3) + 1 ≤ fuel)
    (hF : Feeds o s (elemsToks pre ++ (((.frameHead, fc) :: itemsToks body) ++ ((.end_, tx) :: ts)))) :
    ∃ s' r, elemsLoop o (fuel + 1 + pre.length) s (some [o.norm bcode]) true acceptAll w
        = elemsLoop o fuel s' (some [o.norm bcode]) true acceptAll
            { log := r :: w.log,
              cif := done ++ [.mk bcode (denoteElems o.dia o.normKey (pre ++ [.frame fc (body.map Elem.plain)]) fs ls).1
                (denoteElems o.dia o.normKey (pre ++ [.frame fc (body.map Elem.plain)]) fs ls).2] }
      ∧ r.code = CIF_EOF_IN_FRAME ∧ Feeds o s' ((.end_, tx) :: ts) := by
  have := frame_open_run o done bcode hfresh hmfd pre [] fc body seen fseen
    (normNames o (denoteElems o.dia o.normKey (pre ++ [.frame fc (body.map Elem.plain)]) fs ls).2)
    ((denoteElems o.dia o.normKey (pre ++ [.frame fc (body.map Elem.plain)]) fs ls).1.map (fun c => o.norm c.code)) .end_ tx ts ((.end_, tx) :: ts) s fuel w fs ls hcif
    hpre hseen hfseen hcode hnew hwb rfl (fun _ h => h) (fun c hc => List.mem_map.mpr ⟨c, hc, rfl⟩)
    (by simpa [szElems] using hfuel) rfl (Or.inl rfl) ⟨_, _, _, rfl, rfl⟩ (by simpa [elemsToks] using hF)
  simpa [openFrameCode] using this

/-- **C12_no_frame_term** — a data block header inside a save frame: CIF_NO_FRAME_TERM; the frame is closed and kept, the
    header is looked at again (it ends the data block) -/
theorem C12_no_frame_term (o : Opts) (done : Cif) (bcode : Str) (hfresh : ∀ c ∈ done, codeIs o.norm (o.norm bcode) c = false)
    (hmfd : o.maxFrameDepth ≠ 0) (pre : List Elem) (fc : Str) (body : List Item)
    (seen fseen : List Str) (tx : Str) (ts : List TokSpec) (s : PS) (fuel : Nat) (w : W)
    (fs : List Container) (ls : List Loop)
    (hcif : w.cif = done ++ [.mk bcode fs ls]) (hpre : wfElems o pre seen fseen = true)
    (hseen : ∀ k ∈ normNames o ls, k ∈ seen) (hfseen : ∀ c ∈ fs, o.norm c.code ∈ fseen)
    (hcode : wfCode fc = true) (hnew : ∀ c ∈ (denoteElems o.dia o.normKey pre fs ls).1, codeIs o.norm (o.norm fc) c = false)
    (hwb : wfItems o body [] = true)
    (hfuel : szElems pre + (szItems body + body.length + 3) + 1 ≤ fuel)
    (hF : Feeds o s (elemsToks pre ++ (((.frameHead, fc) :: itemsToks body) ++ ((.blockHead, tx) :: ts)))) :
    ∃ s' r, elemsLoop o (fuel + 1 + pre.length) s (some [o.norm bcode]) true acceptAll w
        = elemsLoop o fuel s' (some [o.norm bcode]) true acceptAll
            { log := r :: w.log,
              cif := done ++ [.mk bcode (denoteElems o.dia o.normKey (pre ++ [.frame fc (body.map Elem.plain)]) fs ls).1
                (denoteElems o.dia o.normKey (pre ++ [.frame fc (body.map Elem.plain)]) fs ls).2] }
      ∧ r.code = CIF_NO_FRAME_TERM ∧ Feeds o s' ((.blockHead, tx) :: ts) := by
  have := frame_open_run o done bcode hfresh hmfd pre [] fc body seen fseen
    (normNames o (denoteElems o.dia o.normKey (pre ++ [.frame fc (body.map Elem.plain)]) fs ls).2)
    ((denoteElems o.dia o.normKey (pre ++ [.frame fc (body.map Elem.plain)]) fs ls).1.map (fun c => o.norm c.code)) .blockHead tx ts ((.blockHead, tx) :: ts) s fuel w fs ls
    hcif hpre hseen hfseen hcode hnew hwb rfl (fun _ h => h) (fun c hc => List.mem_map.mpr ⟨c, hc, rfl⟩)
    (by simpa [szElems] using hfuel) rfl (Or.inr (Or.inl rfl)) ⟨_, _, _, rfl, rfl⟩ (by simpa [elemsToks] using hF)
  simpa [openFrameCode] using this

/-- **C12_frame_nesting_depth** — a frame header inside a save frame when frames do not nest (`max_frame_depth = 1`):
    CIF_NO_FRAME_TERM; the open frame is closed and kept, the second frame (here terminated) becomes its sibling, any elements
    behind it -/
theorem C12_frame_nesting_depth (o : Opts) (done : Cif) (bcode : Str) (hfresh : ∀ c ∈ done, codeIs o.norm (o.norm bcode) c = false)
    (hmfd : o.maxFrameDepth = 1) (pre post : List Elem) (fc fc2 : Str) (body body2 : List Item)
    (seen fseen seen2 fseen2 : List Str) (rest : List TokSpec) (s : PS) (fuel : Nat) (w : W)
    (fs : List Container) (ls : List Loop)
    (hcif : w.cif = done ++ [.mk bcode fs ls]) (hpre : wfElems o pre seen fseen = true)
    (hseen : ∀ k ∈ normNames o ls, k ∈ seen) (hfseen : ∀ c ∈ fs, o.norm c.code ∈ fseen)
    (hcode : wfCode fc = true) (hnew : ∀ c ∈ (denoteElems o.dia o.normKey pre fs ls).1, codeIs o.norm (o.norm fc) c = false)
    (hwb : wfItems o body [] = true)
    (hpost : wfElems o (.frame fc2 (body2.map Elem.plain) :: post) seen2 fseen2 = true)
    (hseen2 : ∀ k ∈ normNames o (denoteElems o.dia o.normKey (pre ++ [.frame fc (body.map Elem.plain)]) fs ls).2, k ∈ seen2)
    (hfseen2 : ∀ c ∈ (denoteElems o.dia o.normKey (pre ++ [.frame fc (body.map Elem.plain)]) fs ls).1, o.norm c.code ∈ fseen2)
    (hfuel : szElems pre + szElems (.frame fc2 (body2.map Elem.plain) :: post) + (szItems body + body.length + 3) + 1 ≤ fuel)
    (hrest : ∃ ty tx ts, rest = (ty, tx) :: ts ∧ isTerminator ty = true)
    (hF : Feeds o s (elemsToks pre ++ (((.frameHead, fc) :: itemsToks body) ++ (elemsToks (.frame fc2 (body2.map Elem.plain) :: post) ++ rest)))) :
    ∃ s' r, elemsLoop o (fuel + (post.length + 1) + 1 + pre.length) s (some [o.norm bcode]) true acceptAll w
        = elemsLoop o fuel s' (some [o.norm bcode]) true acceptAll
            { log := r :: w.log,
              cif := done ++ [.mk bcode (denoteElems o.dia o.normKey (pre ++ [.frame fc (body.map Elem.plain)] ++ .frame fc2 (body2.map Elem.plain) :: post) fs ls).1
                (denoteElems o.dia o.normKey (pre ++ [.frame fc (body.map Elem.plain)] ++ .frame fc2 (body2.map Elem.plain) :: post) fs ls).2] }
      ∧ r.code = CIF_NO_FRAME_TERM ∧ Feeds o s' rest := by
  have := frame_open_run o done bcode hfresh (by omega) pre (.frame fc2 (body2.map Elem.plain) :: post) fc body seen fseen seen2 fseen2 .frameHead fc2
    (itemsToks body2 ++ (.frameTerm, []) :: (elemsToks post ++ rest)) rest s fuel w fs ls
    hcif hpre hseen hfseen hcode hnew hwb hpost hseen2 hfseen2 hfuel (by simp [elemsToks, elemToks, elemsToks_plains]) (Or.inr (Or.inr ⟨rfl, hmfd⟩)) hrest hF
  simpa [openFrameCode] using this

end CifModel
