import CifModel.Props.C02
import CifModel.Props.C18
import CifModel.Lemmas.WriterPure
import CifModel.Lemmas.WriterChar
/-
  Property C13 — CIF 1.1 output is pure CIF 1.1 and round-trips, or is refused.

  The theorems are about the writer model in CIF 1.1 mode (`ctx.version = 1`): `cif_validate_cif11_characters` on every
  string, `allow_triple_quoted = 0` in the analysis, refusal of `<LF>;`, and the text protocol of C02 decoded with line
  unfolding and prefix removal enabled (the options property C13 prescribes for the re-parse).
-/
namespace CifModel
open Model.Writer Model.Decode

/-- **Purity of text fields.**  If every unit of the text is a CIF 1.1 character, so is every unit of the body
    `write_text` produces for it — whatever the fold / prefix flags: the protocol only adds `>`, blank, backslash and LF. -/
theorem C13_text_pure (s : Str) (fold pre : Bool) (body : Str)
    (hv : validate11 s = true) (h : textBody s fold pre = .ok body) : validate11 body = true := by
  unfold validate11 at *
  rw [List.all_eq_true] at *
  intro x hx
  rcases Lemmas.WriterPure.textBody_mem s fold pre body h x hx with h1 | h1
  · exact hv x h1
  · rcases h1 with h1 | h1 | h1 | h1 <;> subst h1 <;> decide

/-- in CIF 1.1 mode the analysis never recommends triple quotes -/
theorem C13_no_triple (s : Str) (unq : Bool) (limit : Nat) :
    (Model.analyze s unq false limit).delimLength ≠ 3 := by
  have h := (C18_delim_permitted s unq false limit).2
  intro h3
  have hd : Model.recommend s unq false limit = .apos3 ∨ Model.recommend s unq false limit = .quot3 := by
    unfold Model.analyze at h3
    simp only at h3
    unfold Model.recommend
    cases hc : Model.chooseDelim s unq false limit (Model.counters s) <;> simp [hc, Model.Delim.units] at h3 ⊢
  exact absurd (h hd) (by simp)

/-- **Refusal codes of `write_char` in CIF 1.1 mode, with their witnesses.**  For every text, quoted flag and context in
    CIF 1.1 mode: if `write_char` fails, then either the code is CIF_DISALLOWED_CHAR and the text holds a unit outside the
    CIF 1.1 set, or the code is CIF_DISALLOWED_VALUE and the text can only be a text field and contains `<LF>;` (or text
    fields are not allowed at this place).  No other code is possible — in particular not CIF_INTERNAL_ERROR. -/
theorem C13_refusal_codes (c : Ctx) (s : Str) (quoted allowText : Bool) (e : Code)
    (h1 : c.isCif1 = true)
    (herr : writeChar c s quoted allowText = .error e) :
    (e = Gen.ErrCodes.CIF_DISALLOWED_CHAR ∧ validate11 s = false)
    ∨ (e = Gen.ErrCodes.CIF_DISALLOWED_VALUE ∧ (Model.analyze s (!quoted) false LINE).delimLength = 2
        ∧ (allowText = false ∨ (Model.analyze s (!quoted) false LINE).containsTextDelim = true))
    ∨ (e = Gen.ErrCodes.CIF_DISALLOWED_VALUE ∧ (13 : CU) ∈ s) := by
  rcases Lemmas.WriterChar.writeChar_cases c s quoted allowText with ⟨e1, hcr⟩ | ⟨_, _, h2, _⟩ | ⟨e1, _⟩
  · rw [e1] at herr; cases herr; exact Or.inr (Or.inr ⟨rfl, hcr⟩)
  · rw [h1] at h2; cases h2
  rw [e1] at herr
  have hmain : (e = Gen.ErrCodes.CIF_DISALLOWED_CHAR ∧ validate11 s = false)
      ∨ (e = Gen.ErrCodes.CIF_DISALLOWED_VALUE ∧ (Model.analyze s (!quoted) false LINE).delimLength = 2
        ∧ (allowText = false ∨ (Model.analyze s (!quoted) false LINE).containsTextDelim = true)) := by
    have hc : (!c.isCif1) = false := by simp [h1]
    have h3 := C13_no_triple s (!quoted) LINE
    by_cases hv : c.isCif1 = true ∧ validate11 s = false
    · rw [Lemmas.WriterChar.writeChar_invalid c s quoted allowText hv] at herr
      cases herr
      left; exact ⟨rfl, hv.2⟩
    · rcases Lemmas.WriterChar.delimLength_cases s (!quoted) false LINE with d | d | d | d
      · exfalso
        rw [Lemmas.WriterChar.writeChar_delim0 c s quoted allowText hv (by rw [hc]; exact d)] at herr
        obtain ⟨r, hr⟩ := Lemmas.WriterChar.writeUnquoted_ok c s (Model.analyze s (!quoted) (!c.isCif1) LINE).lengthMax
        rw [hr] at herr; cases herr
      · exfalso
        rw [Lemmas.WriterChar.writeChar_delim1 c s quoted allowText hv (by rw [hc]; exact d)] at herr
        obtain ⟨r, hr⟩ := Lemmas.WriterChar.writeQuoted_ok c s (Model.analyze s (!quoted) (!c.isCif1) LINE).length
          ((Model.analyze s (!quoted) (!c.isCif1) LINE).delim.headD 0)
        rw [hr] at herr; cases herr
      · by_cases hr : allowText = false ∨ ((Model.analyze s (!quoted) (!c.isCif1) LINE).containsTextDelim = true ∧ c.isCif1 = true)
        · rw [Lemmas.WriterChar.writeChar_delim2_refused c s quoted allowText hv (by rw [hc]; exact d) hr] at herr
          cases herr
          right
          refine ⟨rfl, d, ?_⟩
          rw [hc] at hr
          rcases hr with h | h
          · left; exact h
          · right; exact h.1
        · exfalso
          rw [Lemmas.WriterChar.writeChar_delim2 c s quoted allowText hv (by rw [hc]; exact d) hr] at herr
          rw [hc] at herr
          have hflags := C02_flags_semis s _ (Lemmas.WriterAnalysis.maxSemiRun_zero s (!quoted) false LINE)
          have hex : ∃ body, textBody s (Lemmas.WriterChar.charFlags (Model.analyze s (!quoted) false LINE)).1
              (Lemmas.WriterChar.charFlags (Model.analyze s (!quoted) false LINE)).2 = .ok body := by
            rcases hflags with h | h | h
            · exact ⟨s, by
                have h' : (Lemmas.WriterChar.charFlags (Model.analyze s (!quoted) false LINE)).1 = false ∧
                    (Lemmas.WriterChar.charFlags (Model.analyze s (!quoted) false LINE)).2 = false := h
                simp [textBody, h']⟩
            · exact C02_text_total s _ _ (Or.inl h)
            · exact C02_text_total s _ _ (Or.inr h)
          obtain ⟨body, hb⟩ := hex
          simp [writeText, hb] at herr
      · exact absurd d h3
  rcases hmain with h | h
  · exact Or.inl h
  · exact Or.inr (Or.inl h)

/-- **Never silently altered (text fields).**  In CIF 1.1 mode, whenever `write_char` succeeds on a text that the analysis
    sends to a text field, what it wrote is `<LF>;` body `<LF>;`, every unit of the body is a CIF 1.1 character, and the
    body decodes — with line unfolding and prefix removal enabled, as C13 prescribes for the re-parse — to exactly that
    text. -/
theorem C13_never_silently_alters (c : Ctx) (s : Str) (quoted : Bool) (out : Str) (c' : Ctx)
    (h1 : c.isCif1 = true) (hcr : (13 : CU) ∉ s)
    (hdelim : (Model.analyze s (!quoted) false LINE).delimLength = 2)
    (hok : writeChar c s quoted true = .ok (out, c')) :
    ∃ body, out = (a!"\n;") ++ body ++ (a!"\n;") ∧ decodeText true true body = s ∧ validate11 body = true := by
  have hok := (Lemmas.WriterChar.writeChar_ok c s quoted true (out, c') hok).2
  have hc : (!c.isCif1) = false := by simp [h1]
  have hA := C02_analysis_facts s (!quoted) false LINE hcr
  -- the text passed validation, and was not refused
  have hv : ¬(c.isCif1 = true ∧ validate11 s = false) := by
    intro hv
    rw [Lemmas.WriterChar.writeChar_invalid c s quoted true hv] at hok; cases hok
  have hvs : validate11 s = true := by
    cases h : validate11 s
    · exact absurd ⟨h1, h⟩ hv
    · rfl
  have hr : ¬((true : Bool) = false ∨ ((Model.analyze s (!quoted) (!c.isCif1) LINE).containsTextDelim = true ∧ c.isCif1 = true)) := by
    intro hr
    rw [Lemmas.WriterChar.writeChar_delim2_refused c s quoted true hv (by rw [hc]; exact hdelim) hr] at hok; cases hok
  rw [Lemmas.WriterChar.writeChar_delim2 c s quoted true hv (by rw [hc]; exact hdelim) hr, hc] at hok
  unfold writeText at hok
  split at hok
  · cases hok
  · rename_i body hb
    simp only [Except.ok.injEq, Prod.mk.injEq] at hok
    refine ⟨body, by rw [← hok.1]; rfl, ?_, C13_text_pure s _ _ body hvs hb⟩
    apply C02_text_protocol s _ _ body hcr ?_ hb
    -- the side condition of the unmarked form follows from `has_reserved_start = false`
    generalize ha : Model.analyze s (!quoted) false LINE = a at *
    by_cases hf : (Lemmas.WriterChar.charFlags a).1 = true
    · left; exact hf
    · by_cases hp : (Lemmas.WriterChar.charFlags a).2 = true
      · right; left; exact hp
      · right; right
        apply hA.reserved hdelim
        unfold Lemmas.WriterChar.charFlags at hf hp
        simp only at hf hp
        have hp' := hp
        simp only [Bool.not_eq_true] at hp'
        rw [hp'] at hf
        simp only [Bool.false_eq_true, false_and, ↓reduceIte, Bool.not_eq_true, Bool.or_eq_false_iff] at hf
        exact hf.1.2

open Spec.Lexical Model.Lexer in
/-- **C13_value_roundtrip** — the CIF 1.1 instance of `C02_value_roundtrip`: in CIF 1.1 output mode, for every string of
    CIF 1.1 characters (printable ASCII, tab, LF), what `write_char` writes is read back by the CIF 1.1 lexer as one value
    token without any report: its text is the string, or — for a text field — a body that decodes, with line unfolding and
    prefix removal enabled, to the string; a quoted value never comes back whitespace-delimited. -/
theorem C13_value_roundtrip (c : Ctx) (s : Str) (q : Bool) (out : Str) (c' : Ctx)
    (h1 : c.isCif1 = true)
    (hok : okUnits .cif1 none s = true) (hcol : c.lastColumn ≤ LINE)
    (h : writeChar c s q true = .ok (out, c'))
    (w0 : List WsAtom) (ctx : Str) (line col : Nat) (lt : TokType) (pol : Policy) (log : List Report)
    (hw0 : ∀ a ∈ w0, a.ok .cif1 = true)
    (hfirst : afterWsOf lt = true ∨ ∀ b rest, w0 ≠ WsAtom.comment b :: rest)
    (hws : (afterWsOf lt || !w0.isEmpty) = true)
    (hfitw : linesFit col (renderWs w0) = true)
    (hcolw : (posAfter line col (renderWs w0)).2 ≤ c.lastColumn)
    (hctx : followOk .cif1 ctx = true) :
    ∃ (p : Presentation) (s' : Str) (L C : Nat),
      nextToken .cif1 ⟨renderWs w0 ++ (out ++ ctx), line, col, lt⟩ pol log
        = .ok (⟨p.tokType, s', L, C⟩, ⟨ctx, L, C, p.tokType⟩) log
      ∧ (p ≠ .text → s' = s) ∧ (p = .text → decodeText true true s' = s)
      ∧ (p = .bare → q = false ∧ s.head? ≠ some 59) := by
  have hdia : Lemmas.WriterLex.diaOf c = .cif1 := by simp [Lemmas.WriterLex.diaOf, h1]
  obtain ⟨p, s', L, C, hn, a1, a2, a3⟩ := C02_value_roundtrip c s q out c' (by rw [hdia]; exact hok) hcol h w0 ctx line col lt pol log
    (by rw [hdia]; exact hw0) hfirst hws hfitw hcolw (by rw [hdia]; exact hctx)
  rw [hdia] at hn
  exact ⟨p, s', L, C, hn, a1, a2, fun hp => ⟨(a3 hp).1, (a3 hp).2.1⟩⟩

/-- FULL: `cif_write` in CIF 1.1 mode on a whole CIF fails only with CIF_DISALLOWED_CHAR / CIF_DISALLOWED_VALUE (loops
    non-empty, data names of 2 to 2048 characters).  PROVED OF IT: the value level (`C13_refusal_codes`). -/
def C13_refusal_codes_full (writable : WCif → Prop) : Prop :=
  ∀ (cif : WCif) (e : Code), writable cif → writeCif 1 cif = .error e →
    e = Gen.ErrCodes.CIF_DISALLOWED_CHAR ∨ e = Gen.ErrCodes.CIF_DISALLOWED_VALUE

/-- FULL: a successfully written CIF 1.1 document consists of CIF 1.1 characters only, in lines of at most 2048, and
    starts with the 1.1 version comment.  PROVED OF IT: text-field bodies (`C13_text_pure`, `C13_never_silently_alters`). -/
def C13_pure_full (writable : WCif → Prop) : Prop :=
  ∀ (cif : WCif) (out : Str), writable cif → writeCif 1 cif = .ok out →
    validate11 out = true ∧ (∀ l ∈ splitLines out, l.length ≤ LINE) ∧ MAGIC11 <+: out

-- non-vacuity
example : validate11 (a!"ab\\\ncd") = true := by decide
example : validate11 [97, 233] = false := by decide
example : validate11 [97, 127] = false := by decide

end CifModel
