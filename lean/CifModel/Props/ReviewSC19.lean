import CifModel.Props.ReviewRC19
/-
  Review rB, part `repairs`, C19: `C19_history_pure_is_spec` applied to the state `sP` reached by rA's history `ops1`
  (slot 0 = `[x, [x, y]]`, packet 0 = `{_a ↦ [y, [y]], _b ↦ ?}`):
  * `set_element_at` with the source given BY REFERENCE and lying INSIDE the element replaced — the case the retired
    `C19_list_history` could not express — is `seqSet`;
  * M4: a successful get and a refused one are the same `none` (no result code in `stepP?`);
  * M5: what the present-key clause of `TableIsMap` delivers is a term in the interpreter's own `setValueP`.
-/
namespace CifModel.ReviewSC19
open CifModel Model.Heap Model.Hist Model.Value Spec.ValueSpec ReviewRC19

private def x : V := .chr true (a!"x")
private def y : V := .chr false (a!"y")
private def r0 : Ref := ⟨.val 0, []⟩
private def inner : Ref := ⟨.val 0, [.idx 1, .idx 1]⟩     -- the `y` inside element 1 of slot 0
private def pk : Ref := ⟨.pkt 0, []⟩

-- list clause 3: element 1 (`[x, y]`) replaced by a copy of its own member `y`
example : stepP? sP (.lset r0 1 (some inner)) = putP sP r0 (.lst [x, y]) := by
  obtain ⟨hl, _, _⟩ := C19_history_pure_is_spec ops1
  obtain ⟨_, _, h3, _⟩ := hl r0 [x, .lst [x, y]] (by decide) rfl 1
  exact h3 inner y (by decide) rfl (by decide)

-- … out of range: nothing happens (this is all "CIF_INVALID_INDEX" means in the statement)
example : stepP? sP (.lset r0 2 (some inner)) = none := by
  obtain ⟨hl, _, _⟩ := C19_history_pure_is_spec ops1
  obtain ⟨_, _, h3, _⟩ := hl r0 [x, .lst [x, y]] (by decide) rfl 2
  exact h3 inner y (by decide) rfl (by decide)

-- M4: get at a valid index and get at an invalid index are the same answer of `stepP?`; the difference is only in `getP`
example : stepP? sP (.lget r0 0) = none ∧ stepP? sP (.lget r0 7) = none
    ∧ getP sP (r0.member (.idx 0)) = some x ∧ getP sP (r0.member (.idx 7)) = none := by
  obtain ⟨hl, _, _⟩ := C19_history_pure_is_spec ops1
  obtain ⟨_, _, _, _, _, g0, e0⟩ := hl r0 [x, .lst [x, y]] (by decide) rfl 0
  obtain ⟨_, _, _, _, _, g7, e7⟩ := hl r0 [x, .lst [x, y]] (by decide) rfl 7
  exact ⟨g0, g7, e0, e7⟩

-- M5: set on the EXISTING key `_b` of packet 0 — the theorem hands back `setValueP`, the interpreter's own function
example (key : Str) (src : Option Ref) :
    ∃ es1, absMap es1 = (absMap [(a!"_a", a!"_a", .lst [y, .lst [y]]), (a!"_b", a!"_b", .unk)]).set (a!"_b") key .unk
      ∧ stepP? sP (.mset pk key (some (a!"_b")) src)
          = (putP sP pk (.tbl es1)).bind (fun p1 => setValueP p1 src (pk.member (.key (a!"_b")))) := by
  obtain ⟨_, ht, _⟩ := C19_history_pure_is_spec ops1
  obtain ⟨_, h2, _⟩ := ht pk [(a!"_a", a!"_a", .lst [y, .lst [y]]), (a!"_b", a!"_b", .unk)] (by decide) rfl (a!"_b")
  exact h2 key src .unk rfl

end CifModel.ReviewSC19
