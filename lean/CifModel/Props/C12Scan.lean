import CifModel.Lemmas.LexDefect
import CifModel.Props.C01
/-
  Props/C12Scan — property C12 for the defect classes that live in the SCANNER (src/parser.c: get_first_char, next_token,
  the scan_* functions; Model/Lexer.lean, `parseInternal` of Model/Parser.lean): for every input that is well formed around
  ONE defect of the class — any scanner position in front of it, any admissible continuation behind it —

    * accept-all callback: exactly the documented report(s) (code, line), the token the documented recovery prescribes, and
      the scanner goes on where it would on the repaired text;
    * `cif_parse_error_die`: the call ends with the class's code, having logged that one report.

  (Token-level classes — frames, keys, list/table delimiters, reserved words, loops — are Props/C12Lex.lean and Props/C12.lean.)
-/
namespace CifModel
open Model.Chars Model.Lexer Model.Parser Spec.Lexical
open CifModel.Gen.ErrCodes

/-! ### CIF_DISALLOWED_INITIAL_CHAR — "accept" -/

/-- the first character of the input is refused exactly when it is above U+007E and not U+FEFF, or a C0 control other than HT,
    LF, CR, or DEL; then: accept-all — ONE report (109, line 1) and the parse goes on with that character accepted, exactly as
    `afterFirst` does on the same text; die — the parse returns 109 at once; otherwise this site reports nothing -/
theorem C12_disallowed_initial_char (o : Opts) (fuel : Nat) (c : Nat) (rest : Str) (w : W) :
    (disallowedInitial c = true ↔ (126 < c ∧ c ≠ 0xFEFF) ∨ (c < 32 ∧ c ≠ 9 ∧ c ≠ 10 ∧ c ≠ 13))
    ∧ (disallowedInitial c = true →
        parseInternal o fuel (c :: rest) acceptAll w
          = afterFirst o fuel c rest acceptAll { w with log := ⟨CIF_DISALLOWED_INITIAL_CHAR, 1, 0⟩ :: w.log }
        ∧ parseInternal o fuel (c :: rest) dieAll w
          = .abort CIF_DISALLOWED_INITIAL_CHAR { w with log := ⟨CIF_DISALLOWED_INITIAL_CHAR, 1, 0⟩ :: w.log })
    ∧ (disallowedInitial c = false → ∀ pol, parseInternal o fuel (c :: rest) pol w = afterFirst o fuel c rest pol w) :=
  ⟨disallowedInitial_iff c, fun h => ⟨initial_char_accept o fuel c rest w h, initial_char_die o fuel c rest w h⟩,
    fun h pol => initial_char_clean o fuel c rest pol w h⟩

/-! ### CIF_MISSING_SPACE — "assume the omitted whitespace" -/

/-- generic form: where whitespace is required (`afterWsOf lt = false`: the previous token is not `[`, `{`, a key or the
    beginning), if at `c :: r` the scanner would silently read the token `tk` (not a closing bracket) were whitespace not required,
    then it reports CIF_MISSING_SPACE ONCE, at the line and column of `c`, and reads exactly that token; under the die policy the
    call ends with 105 -/
theorem C12_missing_space (dia : Dialect) (c : Nat) (r : Str) (line col : Nat) (lt : TokType) (log : List Report) (tk : Tok) (p : Pos)
    (haw : afterWsOf lt = false) (h1 : tk.ty ≠ .clist) (h2 : tk.ty ≠ .ctable)
    (h : ∀ log, stepTok dia true c r line col acceptAll log = .ok (.tok tk p) log) :
    nextToken dia ⟨c :: r, line, col, lt⟩ acceptAll log
        = .ok (tk, ⟨p.rest, p.line, p.col, tk.ty⟩) (⟨CIF_MISSING_SPACE, line, col⟩ :: log)
    ∧ nextToken dia ⟨c :: r, line, col, lt⟩ dieAll log = .abort CIF_MISSING_SPACE (⟨CIF_MISSING_SPACE, line, col⟩ :: log) := by
  have ha := missing_space_of_tok dia c r line col lt log tk p haw h1 h2 h
  exact ⟨ha, die_of_accept (d := []) (nextToken_detl dia _) ha⟩

/-- the class for string values: ANY admissible presentation of ANY string, glued to the token in front of it (e.g. `'a'b`,
    `'a''b'`, `]x`): one report at the value's first character, then the value exactly as C01_lex_value reads it -/
theorem C12_missing_space_value (dia : Dialect) (p : Presentation) (s ctx : Str) (line col : Nat) (lt : TokType) (log : List Report)
    (haw : afterWsOf lt = false)
    (hadm : admissible dia p s = true) (hfit : linesFit col (renderValue p s) = true)
    (hstart : startOk p s col = true) (hctx : followOk dia ctx = true) :
    nextToken dia ⟨renderValue p s ++ ctx, line, col, lt⟩ acceptAll log
        = .ok (⟨p.tokType, s, (posAfter line col (renderValue p s)).1, (posAfter line col (renderValue p s)).2⟩,
               ⟨ctx, (posAfter line col (renderValue p s)).1, (posAfter line col (renderValue p s)).2, p.tokType⟩)
            (⟨CIF_MISSING_SPACE, line, col⟩ :: log)
    ∧ nextToken dia ⟨renderValue p s ++ ctx, line, col, lt⟩ dieAll log
        = .abort CIF_MISSING_SPACE (⟨CIF_MISSING_SPACE, line, col⟩ :: log) := by
  have hne : ∃ c r, renderValue p s ++ ctx = c :: r := by
    cases p <;> simp [renderValue]
    cases s with
    | nil => simp [admissible, bareOk] at hadm
    | cons c r => exact ⟨c, r ++ ctx, rfl⟩
  obtain ⟨c, r, hcr⟩ := hne
  rw [hcr]
  have hstep : ∀ log, stepTok dia true c r line col acceptAll log
      = .ok (.tok ⟨p.tokType, s, (posAfter line col (renderValue p s)).1, (posAfter line col (renderValue p s)).2⟩
                  ⟨ctx, (posAfter line col (renderValue p s)).1, (posAfter line col (renderValue p s)).2⟩) log := by
    intro log
    have := C01_lex_value_loop dia p s ctx line col 0 acceptAll log hadm hfit hstart hctx
    rw [hcr] at this
    exact stepTok_of_tokLoop1 this (by cases p <;> simp [Presentation.tokType])
  exact C12_missing_space dia c r line col lt log _ _ haw (by cases p <;> simp [Presentation.tokType])
    (by cases p <;> simp [Presentation.tokType]) hstep

/-- an opening bracket or brace glued to a bare value (CIF 2.0, `abc[1]`): the value ends in front of the bracket and
    CIF_MISSING_SPACE is reported at the bracket (it is reported once more, by `C12_missing_space`, when the bracket itself is
    read as the next token) -/
theorem C12_missing_space_glued_bracket (s : Str) (d : Nat) (rest : Str) (line col : Nat) (lt : TokType) (log : List Report)
    (hd : d = 91 ∨ d = 123) (haw : afterWsOf lt = true)
    (hadm : admissible .cif2 .bare s = true) (hstart : startOk .bare s col = true) :
    nextToken .cif2 ⟨s ++ d :: rest, line, col, lt⟩ acceptAll log
        = .ok (⟨.value, s, line, col + colAdd s⟩, ⟨d :: rest, line, col + colAdd s, .value⟩)
            (⟨CIF_MISSING_SPACE, line, col + colAdd s + 1⟩ :: log)
    ∧ nextToken .cif2 ⟨s ++ d :: rest, line, col, lt⟩ dieAll log
        = .abort CIF_MISSING_SPACE (⟨CIF_MISSING_SPACE, line, col + colAdd s + 1⟩ :: log) := by
  obtain ⟨c, r, hs, hstep⟩ := stepTok_bare_open .cif2 rfl s d hd rest line col log hadm (by simpa [startOk] using hstart)
  subst hs
  have ha : nextToken .cif2 ⟨(c :: r) ++ d :: rest, line, col, lt⟩ acceptAll log = _ :=
    stepTok_tok_nextToken (by rw [haw]; exact hstep)
  exact ⟨ha, die_of_accept (d := []) (nextToken_detl .cif2 _) ha⟩

/-! ### CIF_MISSING_ENDQUOTE — "assume the quote at the end of the line" -/

/-- an opening `'` or `"`, content `s` that does not close the string (CIF 2.0: the delimiter does not occur; CIF 1.1: no
    delimiter followed by a blank or by the end of the line), then the end of the line — a line terminator or the end of the
    input: ONE report CIF_MISSING_ENDQUOTE on that line; the token is the quoted value with text `s` (everything up to the end
    of the line), and the scanner goes on at the line terminator, as it would had the quote been there; die: 106 -/
theorem C12_missing_endquote (dia : Dialect) (q : Nat) (hq : q = 34 ∨ q = 39) (s ctx : Str) (line col : Nat) (lt : TokType)
    (log : List Report) (haw : afterWsOf lt = true)
    (hok : okUnits dia none s = true) (hne : s.all (fun x => !isEol x) = true)
    (hopen : (match dia with | .cif2 => s.all (fun x => x != q) | .cif1 => openQuoted1 q s) = true)
    (hctx : lineEnd ctx = true) :
    nextToken dia ⟨q :: (s ++ ctx), line, col, lt⟩ acceptAll log
        = .ok (⟨.qvalue, s, line, col + 1 + colAdd s⟩, ⟨ctx, line, col + 1 + colAdd s, .qvalue⟩)
            (⟨CIF_MISSING_ENDQUOTE, line, col + 1 + colAdd s⟩ :: log)
    ∧ nextToken dia ⟨q :: (s ++ ctx), line, col, lt⟩ dieAll log
        = .abort CIF_MISSING_ENDQUOTE (⟨CIF_MISSING_ENDQUOTE, line, col + 1 + colAdd s⟩ :: log) := by
  have ha : nextToken dia ⟨q :: (s ++ ctx), line, col, lt⟩ acceptAll log = _ :=
    stepTok_tok_nextToken (by rw [haw]; exact missing_endquote_step dia q hq s ctx line col log hok hne hopen hctx)
  exact ⟨ha, die_of_accept (d := []) (nextToken_detl dia _) ha⟩

/-! ### CIF_UNCLOSED_TEXT — "assume the closing delimiter at the end of the input" -/

/-- a text field that is never closed: `;` in column 1, a body no line of which begins with `;`, the end of the input: ONE report
    CIF_UNCLOSED_TEXT at the last line; the token is the text value whose body is the whole rest of the input; the next call
    yields END; die: 107 -/
theorem C12_unclosed_text (dia : Dialect) (s : Str) (line : Nat) (lt : TokType) (log : List Report) (haw : afterWsOf lt = true)
    (hok : textOk dia s = true) (hfit : linesFit 1 s = true) :
    nextToken dia ⟨59 :: s, line, 0, lt⟩ acceptAll log
        = .ok (⟨.tvalue, s, (posAfter line 1 s).1, (posAfter line 1 s).2⟩, ⟨[], (posAfter line 1 s).1, (posAfter line 1 s).2, .tvalue⟩)
            (⟨CIF_UNCLOSED_TEXT, (posAfter line 1 s).1, (posAfter line 1 s).2⟩ :: log)
    ∧ nextToken dia ⟨59 :: s, line, 0, lt⟩ dieAll log
        = .abort CIF_UNCLOSED_TEXT (⟨CIF_UNCLOSED_TEXT, (posAfter line 1 s).1, (posAfter line 1 s).2⟩ :: log) := by
  have ha : nextToken dia ⟨59 :: s, line, 0, lt⟩ acceptAll log = _ :=
    stepTok_tok_nextToken (by rw [haw]; exact unclosed_text_step dia s line log hok hfit)
  exact ⟨ha, die_of_accept (d := []) (nextToken_detl dia _) ha⟩

/-- a triple-quoted string that is never closed (CIF 2.0): the opening `'''` / `"""`, a body in which the delimiter never occurs
    three times in a row (it may end with one or two of them), the end of the input: ONE report CIF_UNCLOSED_TEXT; the token is
    the quoted value with the whole rest of the input as text; die: 107 -/
theorem C12_unclosed_triple (q : Nat) (hq : q = 34 ∨ q = 39) (s : Str) (line col : Nat) (lt : TokType) (log : List Report)
    (haw : afterWsOf lt = true) (hok : okUnits .cif2 none s = true) (hopen : tripleOpen q 0 s = true)
    (hfit : linesFit (col + 3) s = true) :
    nextToken .cif2 ⟨q :: q :: q :: s, line, col, lt⟩ acceptAll log
        = .ok (⟨.qvalue, s, (posAfter line (col + 3) s).1, (posAfter line (col + 3) s).2⟩,
               ⟨[], (posAfter line (col + 3) s).1, (posAfter line (col + 3) s).2, .qvalue⟩)
            (⟨CIF_UNCLOSED_TEXT, (posAfter line (col + 3) s).1, (posAfter line (col + 3) s).2⟩ :: log)
    ∧ nextToken .cif2 ⟨q :: q :: q :: s, line, col, lt⟩ dieAll log
        = .abort CIF_UNCLOSED_TEXT (⟨CIF_UNCLOSED_TEXT, (posAfter line (col + 3) s).1, (posAfter line (col + 3) s).2⟩ :: log) := by
  have ha : nextToken .cif2 ⟨q :: q :: q :: s, line, col, lt⟩ acceptAll log = _ :=
    stepTok_tok_nextToken (by rw [haw]; exact unclosed_triple_step q hq s line col log hok hopen hfit)
  exact ⟨ha, die_of_accept (d := []) (nextToken_detl .cif2 _) ha⟩

end CifModel
