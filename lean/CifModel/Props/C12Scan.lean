import CifModel.Lemmas.LexDefectChar
import CifModel.Lemmas.LexReserved
import CifModel.Props.C01
import CifModel.Props.C12
import CifModel.Props.C12Lex
/-
  Props/C12Scan — property C12 for the defect classes that live in the SCANNER (src/parser.c: get_first_char, next_token,
  the scan_* functions; Model/Lexer.lean, `parseInternal` of Model/Parser.lean): for every input that is well formed around
  ONE defect of the class — any scanner position in front of it, any admissible continuation behind it —

    * accept-all callback: exactly the documented report(s) (code, line), the token the documented recovery prescribes, and
      the scanner goes on where it would on the repaired text;
    * `cif_parse_error_die`: the call ends with the class's code, having logged that one report.

  (Token-level classes — frames, keys, list/table delimiters, reserved words, loops — are Props/C12Lex.lean and Props/C12.lean.)
-/
namespace CifModel
open Model.Chars Model.Lexer Model.Parser Spec.Lexical
open CifModel.Gen.ErrCodes

/-! ### CIF_DISALLOWED_INITIAL_CHAR — "accept" -/

/-- the first character of the input is refused exactly when it is above U+007E and not U+FEFF, or a C0 control other than HT,
    LF, CR, or DEL; then: accept-all — ONE report (109, line 1) and the parse goes on with that character accepted, exactly as
    `afterFirst` does on the same text; die — the parse returns 109 at once; otherwise this site reports nothing -/
theorem C12_disallowed_initial_char (o : Opts) (fuel : Nat) (c : Nat) (rest : Str) (w : W) :
    (disallowedInitial c = true ↔ (126 < c ∧ c ≠ 0xFEFF) ∨ (c < 32 ∧ c ≠ 9 ∧ c ≠ 10 ∧ c ≠ 13))
    ∧ (disallowedInitial c = true →
        parseInternal o fuel (c :: rest) acceptAll w
          = afterFirst o fuel c rest acceptAll { w with log := ⟨CIF_DISALLOWED_INITIAL_CHAR, 1, 0⟩ :: w.log }
        ∧ parseInternal o fuel (c :: rest) dieAll w
          = .abort CIF_DISALLOWED_INITIAL_CHAR { w with log := ⟨CIF_DISALLOWED_INITIAL_CHAR, 1, 0⟩ :: w.log })
    ∧ (disallowedInitial c = false → ∀ pol, parseInternal o fuel (c :: rest) pol w = afterFirst o fuel c rest pol w) :=
  ⟨disallowedInitial_iff c, fun h => ⟨initial_char_accept o fuel c rest w h, initial_char_die o fuel c rest w h⟩,
    fun h pol => initial_char_clean o fuel c rest pol w h⟩

/-! ### CIF_MISSING_SPACE — "assume the omitted whitespace" -/

/-- generic form: where whitespace is required (`afterWsOf lt = false`: the previous token is not `[`, `{`, a key or the
    beginning), if at `c :: r` the scanner would silently read the token `tk` (not a closing bracket) were whitespace not required,
    then it reports CIF_MISSING_SPACE ONCE, at the line and column of `c`, and reads exactly that token; under the die policy the
    call ends with 105 -/
theorem C12_missing_space (dia : Dialect) (c : Nat) (r : Str) (line col : Nat) (lt : TokType) (log : List Report) (tk : Tok) (p : Pos)
    (haw : afterWsOf lt = false) (h1 : tk.ty ≠ .clist) (h2 : tk.ty ≠ .ctable)
    (h : ∀ log, stepTok dia true c r line col acceptAll log = .ok (.tok tk p) log) :
    nextToken dia ⟨c :: r, line, col, lt⟩ acceptAll log
        = .ok (tk, ⟨p.rest, p.line, p.col, tk.ty⟩) (⟨CIF_MISSING_SPACE, line, col⟩ :: log)
    ∧ nextToken dia ⟨c :: r, line, col, lt⟩ dieAll log = .abort CIF_MISSING_SPACE (⟨CIF_MISSING_SPACE, line, col⟩ :: log) := by
  have ha := missing_space_of_tok dia c r line col lt log tk p haw h1 h2 h
  exact ⟨ha, die_of_accept (d := []) (nextToken_detl dia _) ha⟩

/-- the class for string values: ANY admissible presentation of ANY string, glued to the token in front of it (e.g. `'a'b`,
    `'a''b'`, `]x`): one report at the value's first character, then the value exactly as C01_lex_value reads it -/
theorem C12_missing_space_value (dia : Dialect) (p : Presentation) (s ctx : Str) (line col : Nat) (lt : TokType) (log : List Report)
    (haw : afterWsOf lt = false)
    (hadm : admissible dia p s = true) (hfit : linesFit col (renderValue p s) = true)
    (hstart : startOk p s col = true) (hctx : followOk dia ctx = true) :
    nextToken dia ⟨renderValue p s ++ ctx, line, col, lt⟩ acceptAll log
        = .ok (⟨p.tokType, s, (posAfter line col (renderValue p s)).1, (posAfter line col (renderValue p s)).2⟩,
               ⟨ctx, (posAfter line col (renderValue p s)).1, (posAfter line col (renderValue p s)).2, p.tokType⟩)
            (⟨CIF_MISSING_SPACE, line, col⟩ :: log)
    ∧ nextToken dia ⟨renderValue p s ++ ctx, line, col, lt⟩ dieAll log
        = .abort CIF_MISSING_SPACE (⟨CIF_MISSING_SPACE, line, col⟩ :: log) := by
  have hne : ∃ c r, renderValue p s ++ ctx = c :: r := by
    cases p <;> simp [renderValue]
    cases s with
    | nil => simp [admissible, bareOk] at hadm
    | cons c r => exact ⟨c, r ++ ctx, rfl⟩
  obtain ⟨c, r, hcr⟩ := hne
  rw [hcr]
  have hstep : ∀ log, stepTok dia true c r line col acceptAll log
      = .ok (.tok ⟨p.tokType, s, (posAfter line col (renderValue p s)).1, (posAfter line col (renderValue p s)).2⟩
                  ⟨ctx, (posAfter line col (renderValue p s)).1, (posAfter line col (renderValue p s)).2⟩) log := by
    intro log
    have := C01_lex_value_loop dia p s ctx line col 0 acceptAll log hadm hfit hstart hctx
    rw [hcr] at this
    exact stepTok_of_tokLoop1 this (by cases p <;> simp [Presentation.tokType])
  exact C12_missing_space dia c r line col lt log _ _ haw (by cases p <;> simp [Presentation.tokType])
    (by cases p <;> simp [Presentation.tokType]) hstep

/-- an opening bracket or brace glued to a bare value (CIF 2.0, `abc[1]`): the value ends in front of the bracket and
    CIF_MISSING_SPACE is reported at the bracket (it is reported once more, by `C12_missing_space`, when the bracket itself is
    read as the next token) -/
theorem C12_missing_space_glued_bracket (s : Str) (d : Nat) (rest : Str) (line col : Nat) (lt : TokType) (log : List Report)
    (hd : d = 91 ∨ d = 123) (haw : afterWsOf lt = true)
    (hadm : admissible .cif2 .bare s = true) (hstart : startOk .bare s col = true) :
    nextToken .cif2 ⟨s ++ d :: rest, line, col, lt⟩ acceptAll log
        = .ok (⟨.value, s, line, col + colAdd s⟩, ⟨d :: rest, line, col + colAdd s, .value⟩)
            (⟨CIF_MISSING_SPACE, line, col + colAdd s + 1⟩ :: log)
    ∧ nextToken .cif2 ⟨s ++ d :: rest, line, col, lt⟩ dieAll log
        = .abort CIF_MISSING_SPACE (⟨CIF_MISSING_SPACE, line, col + colAdd s + 1⟩ :: log) := by
  obtain ⟨c, r, hs, hstep⟩ := stepTok_bare_open .cif2 rfl s d hd rest line col log hadm (by simpa [startOk] using hstart)
  subst hs
  have ha : nextToken .cif2 ⟨(c :: r) ++ d :: rest, line, col, lt⟩ acceptAll log = _ :=
    stepTok_tok_nextToken (by rw [haw]; exact hstep)
  exact ⟨ha, die_of_accept (d := []) (nextToken_detl .cif2 _) ha⟩

/-! ### CIF_MISSING_ENDQUOTE — "assume the quote at the end of the line" -/

/-- an opening `'` or `"`, content `s` that does not close the string (CIF 2.0: the delimiter does not occur; CIF 1.1: no
    delimiter followed by a blank or by the end of the line), then the end of the line — a line terminator or the end of the
    input: ONE report CIF_MISSING_ENDQUOTE on that line; the token is the quoted value with text `s` (everything up to the end
    of the line), and the scanner goes on at the line terminator, as it would had the quote been there; die: 106 -/
theorem C12_missing_endquote (dia : Dialect) (q : Nat) (hq : q = 34 ∨ q = 39) (s ctx : Str) (line col : Nat) (lt : TokType)
    (log : List Report) (haw : afterWsOf lt = true)
    (hok : okUnits dia none s = true) (hne : s.all (fun x => !isEol x) = true)
    (hopen : (match dia with | .cif2 => s.all (fun x => x != q) | .cif1 => openQuoted1 q s) = true)
    (hctx : lineEnd ctx = true) :
    nextToken dia ⟨q :: (s ++ ctx), line, col, lt⟩ acceptAll log
        = .ok (⟨.qvalue, s, line, col + 1 + colAdd s⟩, ⟨ctx, line, col + 1 + colAdd s, .qvalue⟩)
            (⟨CIF_MISSING_ENDQUOTE, line, col + 1 + colAdd s⟩ :: log)
    ∧ nextToken dia ⟨q :: (s ++ ctx), line, col, lt⟩ dieAll log
        = .abort CIF_MISSING_ENDQUOTE (⟨CIF_MISSING_ENDQUOTE, line, col + 1 + colAdd s⟩ :: log) := by
  have ha : nextToken dia ⟨q :: (s ++ ctx), line, col, lt⟩ acceptAll log = _ :=
    stepTok_tok_nextToken (by rw [haw]; exact missing_endquote_step dia q hq s ctx line col log hok hne hopen hctx)
  exact ⟨ha, die_of_accept (d := []) (nextToken_detl dia _) ha⟩

/-! ### CIF_UNCLOSED_TEXT — "assume the closing delimiter at the end of the input" -/

/-- a text field that is never closed: `;` in column 1, a body no line of which begins with `;`, the end of the input: ONE report
    CIF_UNCLOSED_TEXT at the last line; the token is the text value whose body is the whole rest of the input; the next call
    yields END; die: 107 -/
theorem C12_unclosed_text (dia : Dialect) (s : Str) (line : Nat) (lt : TokType) (log : List Report) (haw : afterWsOf lt = true)
    (hok : textOk dia s = true) (hfit : linesFit 1 s = true) :
    nextToken dia ⟨59 :: s, line, 0, lt⟩ acceptAll log
        = .ok (⟨.tvalue, s, (posAfter line 1 s).1, (posAfter line 1 s).2⟩, ⟨[], (posAfter line 1 s).1, (posAfter line 1 s).2, .tvalue⟩)
            (⟨CIF_UNCLOSED_TEXT, (posAfter line 1 s).1, (posAfter line 1 s).2⟩ :: log)
    ∧ nextToken dia ⟨59 :: s, line, 0, lt⟩ dieAll log
        = .abort CIF_UNCLOSED_TEXT (⟨CIF_UNCLOSED_TEXT, (posAfter line 1 s).1, (posAfter line 1 s).2⟩ :: log) := by
  have ha : nextToken dia ⟨59 :: s, line, 0, lt⟩ acceptAll log = _ :=
    stepTok_tok_nextToken (by rw [haw]; exact unclosed_text_step dia s line log hok hfit)
  exact ⟨ha, die_of_accept (d := []) (nextToken_detl dia _) ha⟩

/-- a triple-quoted string that is never closed (CIF 2.0): the opening `'''` / `"""`, a body in which the delimiter never occurs
    three times in a row (it may end with one or two of them), the end of the input: ONE report CIF_UNCLOSED_TEXT; the token is
    the quoted value with the whole rest of the input as text; die: 107 -/
theorem C12_unclosed_triple (q : Nat) (hq : q = 34 ∨ q = 39) (s : Str) (line col : Nat) (lt : TokType) (log : List Report)
    (haw : afterWsOf lt = true) (hok : okUnits .cif2 none s = true) (hopen : tripleOpen q 0 s = true)
    (hfit : linesFit (col + 3) s = true) :
    nextToken .cif2 ⟨q :: q :: q :: s, line, col, lt⟩ acceptAll log
        = .ok (⟨.qvalue, s, (posAfter line (col + 3) s).1, (posAfter line (col + 3) s).2⟩,
               ⟨[], (posAfter line (col + 3) s).1, (posAfter line (col + 3) s).2, .qvalue⟩)
            (⟨CIF_UNCLOSED_TEXT, (posAfter line (col + 3) s).1, (posAfter line (col + 3) s).2⟩ :: log)
    ∧ nextToken .cif2 ⟨q :: q :: q :: s, line, col, lt⟩ dieAll log
        = .abort CIF_UNCLOSED_TEXT (⟨CIF_UNCLOSED_TEXT, (posAfter line (col + 3) s).1, (posAfter line (col + 3) s).2⟩ :: log) := by
  have ha : nextToken .cif2 ⟨q :: q :: q :: s, line, col, lt⟩ acceptAll log = _ :=
    stepTok_tok_nextToken (by rw [haw]; exact unclosed_triple_step q hq s line col log hok hopen hfit)
  exact ⟨ha, die_of_accept (d := []) (nextToken_detl .cif2 _) ha⟩

/-! ### CIF_OVERLENGTH_LINE — "ignore the problem" -/

/-- globally (any input without CR, also malformed): under accept-all the CIF_OVERLENGTH_LINE reports are EXACTLY the lines that
    are terminated and hold more than 2048 characters (terminator excluded) — each once, in order, with its line number (C01) -/
theorem C12_overlength_lines (dia : Dialect) (input : Str) (hcr : noCR input) :
    ((tokenize dia input).2.filter isOver).map (·.line) = longLines input :=
  (C01_overlength_iff dia input hcr).1

/-- between tokens: a run of whitespace and comments with lines of ANY length is crossed exactly as a run without over-long
    lines (C01_lex_sep); each line terminator in it that ends an over-long line adds one report (code 108, that line's number,
    `longReps`); if there is one, the die policy ends the call with 108 at the first of them -/
theorem C12_overlength_sep (dia : Dialect) (w : List WsAtom) (R : Str) (line col : Nat) (lt lt' : TokType) (log : List Report)
    (hok : ∀ a ∈ w, a.ok dia = true) (hfirst : afterWsOf lt = true ∨ ∀ b rest, w ≠ WsAtom.comment b :: rest)
    (hlt' : afterWsOf lt' = (afterWsOf lt || !w.isEmpty)) :
    nextToken dia ⟨renderWs w ++ R, line, col, lt⟩ acceptAll log
        = nextToken dia ⟨R, (posAfter line col (renderWs w)).1, (posAfter line col (renderWs w)).2, lt'⟩ acceptAll
            ((longReps line col (renderWs w)).reverse ++ log)
    ∧ (∀ r ∈ longReps line col (renderWs w), r.code = CIF_OVERLENGTH_LINE ∧ r.col > 2048 ∧ line ≤ r.line)
    ∧ (linesFit col (renderWs w) = true → longReps line col (renderWs w) = [])
    ∧ (∀ r rest, longReps line col (renderWs w) = r :: rest →
        nextToken dia ⟨renderWs w ++ R, line, col, lt⟩ dieAll log = .abort CIF_OVERLENGTH_LINE (r :: log)) := by
  have ha : nextToken dia ⟨renderWs w ++ R, line, col, lt⟩ acceptAll log
      = nextToken dia ⟨R, (posAfter line col (renderWs w)).1, (posAfter line col (renderWs w)).2, lt'⟩ acceptAll
          ((longReps line col (renderWs w)).reverse ++ log) := by
    rw [nextToken_eq, nextToken_eq]
    simp only [hlt']
    rw [lex_sep_accept dia R w line col _ (afterWsOf lt) log hok hfirst (by simp)]
  refine ⟨ha, longReps_mem _ line col, longReps_fit _ line col, ?_⟩
  intro r rest hr
  -- the accept-all run of the whole call: it ends normally, with a log that extends the reports of the separator
  obtain ⟨a, l', hrun⟩ := (nextToken_noabort dia ⟨R, (posAfter line col (renderWs w)).1, (posAfter line col (renderWs w)).2, lt'⟩).run
    ((longReps line col (renderWs w)).reverse ++ log)
  obtain ⟨d, hd, _, _⟩ := (nextToken_detl dia ⟨R, (posAfter line col (renderWs w)).1, (posAfter line col (renderWs w)).2, lt'⟩).run
    acceptAll ((longReps line col (renderWs w)).reverse ++ log)
  rw [hrun] at hd
  simp only [logOfL] at hd
  have hcode : r.code = CIF_OVERLENGTH_LINE := (longReps_mem _ line col r (by rw [hr]; simp)).1
  have hall : nextToken dia ⟨renderWs w ++ R, line, col, lt⟩ acceptAll log = .ok a ((d ++ rest.reverse) ++ [r] ++ log) := by
    rw [ha, hrun, hd, hr]; simp
  have := die_of_accept (nextToken_detl dia _) hall
  rw [hcode] at this
  exact this

/-- inside a text field: lines of any length leave the token untouched (its text is the raw body); one report per over-long line -/
theorem C12_overlength_text (dia : Dialect) (s ctx : Str) (line : Nat) (lt : TokType) (log : List Report) (haw : afterWsOf lt = true)
    (hok : textOk dia s = true) (hctx : followOk dia ctx = true) :
    nextToken dia ⟨59 :: (s ++ 10 :: 59 :: ctx), line, 0, lt⟩ acceptAll log
        = .ok (⟨.tvalue, s, (posAfter line 1 s).1 + 1, 1⟩, ⟨ctx, (posAfter line 1 s).1 + 1, 1, .tvalue⟩)
            ((longReps line 1 (s ++ [10])).reverse ++ log)
    ∧ (∀ r rest, longReps line 1 (s ++ [10]) = r :: rest →
        nextToken dia ⟨59 :: (s ++ 10 :: 59 :: ctx), line, 0, lt⟩ dieAll log = .abort CIF_OVERLENGTH_LINE (r :: log)) := by
  have ha : nextToken dia ⟨59 :: (s ++ 10 :: 59 :: ctx), line, 0, lt⟩ acceptAll log = _ :=
    stepTok_tok_nextToken (by rw [haw]; exact text_accept_step dia s ctx line log hok hctx)
  refine ⟨ha, ?_⟩
  intro r rest hr
  have hcode : r.code = CIF_OVERLENGTH_LINE := (longReps_mem _ line 1 r (by rw [hr]; simp)).1
  rw [hr] at ha
  simp only [List.reverse_cons] at ha
  have := die_of_accept (d := rest.reverse) (r := r) (nextToken_detl dia _) ha
  rw [hcode] at this
  exact this

/-- inside a triple-quoted string -/
theorem C12_overlength_triple (q : Nat) (hq : q = 34 ∨ q = 39) (s ctx : Str) (line col : Nat) (lt : TokType) (log : List Report)
    (haw : afterWsOf lt = true) (hok : tripleOk .cif2 q s = true) (hctx : followOk .cif2 ctx = true) :
    nextToken .cif2 ⟨q :: q :: q :: (s ++ q :: q :: q :: ctx), line, col, lt⟩ acceptAll log
        = .ok (⟨.qvalue, s, (posAfter line (col + 3) s).1, (posAfter line (col + 3) s).2 + 3⟩,
               ⟨ctx, (posAfter line (col + 3) s).1, (posAfter line (col + 3) s).2 + 3, .qvalue⟩)
            ((longReps line (col + 3) s).reverse ++ log)
    ∧ (∀ r rest, longReps line (col + 3) s = r :: rest →
        nextToken .cif2 ⟨q :: q :: q :: (s ++ q :: q :: q :: ctx), line, col, lt⟩ dieAll log
          = .abort CIF_OVERLENGTH_LINE (r :: log)) := by
  have ha : nextToken .cif2 ⟨q :: q :: q :: (s ++ q :: q :: q :: ctx), line, col, lt⟩ acceptAll log = _ :=
    stepTok_tok_nextToken (by rw [haw]; exact triple_accept_step q hq s ctx line col log hok hctx)
  refine ⟨ha, ?_⟩
  intro r rest hr
  have hcode : r.code = CIF_OVERLENGTH_LINE := (longReps_mem _ line (col + 3) r (by rw [hr]; simp)).1
  rw [hr] at ha
  simp only [List.reverse_cons] at ha
  have := die_of_accept (d := rest.reverse) (r := r) (nextToken_detl .cif2 _) ha
  rw [hcode] at this
  exact this

/-! ### CIF_DISALLOWED_CHAR ("accept the character") and CIF_INVALID_CHAR ("substitute a replacement character") -/

/-- ONE defective code unit `c` in the middle of a token, the rest of the token admissible — `Defect1 dia c c' reps`:
      * a character outside the dialect's set (`softBad`): c' = c (accepted as it is), `reps` = CIF_DISALLOWED_CHAR once — twice in
        CIF 1.1 for a character of U+007F..U+009F, U+FEFF, U+FDD0.., U+FFFE/F (not a CIF character AND not ASCII);
      * an unpaired trail surrogate: c' = U+FFFD (CIF 1.1: `*`), `reps` = CIF_INVALID_CHAR once.
    Inside a quoted string, a whitespace-delimited value, a data name, a text field or a triple-quoted string: exactly those
    reports, at the token's line and the column behind the unit; the token has the type it would have without the defect and the
    text with `c'` in place of `c`; the scanner goes on behind the token as usual; die: the call ends with the code of the first report. -/
theorem C12_defective_unit (dia : Dialect) (c c' : Nat) (reps : Nat → Nat → List Report) (hD : Defect1 dia c c' reps)
    (s1 s2 ctx : Str) (line col : Nat) (lt : TokType) (log : List Report) (haw : afterWsOf lt = true) :
    -- quoted string
    (∀ q, (q = 34 ∨ q = 39) → okUnits dia none s1 = true → s1.all (fun x => !isEol x) = true → s1.all (fun x => x != q) = true →
      quotedOk dia q s2 = true → followOk dia ctx = true →
      nextToken dia ⟨q :: (s1 ++ c :: (s2 ++ q :: ctx)), line, col, lt⟩ acceptAll log
        = .ok (⟨.qvalue, s1 ++ c' :: s2, line, col + colAdd s1 + colAdd s2 + 3⟩, ⟨ctx, line, col + colAdd s1 + colAdd s2 + 3, .qvalue⟩)
            (reps line (col + 1 + colAdd s1 + 1) ++ log))
    -- data name
    ∧ (nonBlankOk dia s1 = true → nonBlankOk dia s2 = true → wsOrEnd ctx = true →
      nextToken dia ⟨95 :: (s1 ++ c :: (s2 ++ ctx)), line, col, lt⟩ acceptAll log
        = .ok (⟨.name, 95 :: (s1 ++ c' :: s2), line, col + 1 + colAdd s1 + 1 + colAdd s2⟩,
               ⟨ctx, line, col + 1 + colAdd s1 + 1 + colAdd s2, .name⟩) (reps line (col + 1 + colAdd s1 + 1) ++ log))
    -- whitespace-delimited value
    ∧ (nonBlankOk dia s1 = true → nonBlankOk dia s2 = true →
      (dia = .cif2 → (s1 ++ s2).all (fun x => !(x == 91 || x == 93 || x == 123 || x == 125)) = true) →
      bareStart dia ((s1 ++ [c]).headD 0) col = true → isReservedWord (s1 ++ c' :: s2) = false → wsOrEnd ctx = true →
      nextToken dia ⟨s1 ++ c :: (s2 ++ ctx), line, col, lt⟩ acceptAll log
        = .ok (⟨.value, s1 ++ c' :: s2, line, col + colAdd s1 + 1 + colAdd s2⟩, ⟨ctx, line, col + colAdd s1 + 1 + colAdd s2, .value⟩)
            (reps line (col + colAdd s1 + 1) ++ log)) := by
  refine ⟨?_, ?_, ?_⟩
  · intro q hq h1 h1e h1q h2 hctx
    exact stepTok_tok_nextToken (by rw [haw]; exact hD.quoted q hq s1 s2 ctx line col log h1 h1e h1q h2 hctx)
  · intro h1 h2 hctx
    exact stepTok_tok_nextToken (by rw [haw]; exact hD.name s1 s2 ctx line col log h1 h2 hctx)
  · intro h1 h2 hbr hstart hres hctx
    obtain ⟨f, r, hfr, hstep⟩ := hD.bare s1 s2 ctx line col log h1 h2 hbr hstart hres hctx
    rw [hfr]
    exact stepTok_tok_nextToken (by rw [haw]; exact hstep)

/-- … in a text field and in a triple-quoted string (the unit may sit on any line of the body) -/
theorem C12_defective_unit_multiline (dia : Dialect) (c c' : Nat) (reps : Nat → Nat → List Report) (hD : Defect1 dia c c' reps)
    (s1 s2 ctx : Str) (line : Nat) (lt : TokType) (log : List Report) (haw : afterWsOf lt = true) :
    (textOk dia s1 = true → textOk dia s2 = true → linesFit 1 s1 = true →
      linesFit ((posAfter line 1 s1).2 + 1) (s2 ++ [10]) = true → followOk dia ctx = true →
      nextToken dia ⟨59 :: (s1 ++ c :: (s2 ++ 10 :: 59 :: ctx)), line, 0, lt⟩ acceptAll log
        = .ok (⟨.tvalue, s1 ++ c' :: s2, (posAfter (posAfter line 1 s1).1 ((posAfter line 1 s1).2 + 1) s2).1 + 1, 1⟩,
               ⟨ctx, (posAfter (posAfter line 1 s1).1 ((posAfter line 1 s1).2 + 1) s2).1 + 1, 1, .tvalue⟩)
            (reps (posAfter line 1 s1).1 ((posAfter line 1 s1).2 + 1) ++ log))
    ∧ (∀ q col, dia = .cif2 → (q = 34 ∨ q = 39) → okUnits .cif2 none s1 = true → tripleOpen q 0 s1 = true →
      linesFit (col + 3) s1 = true → tripleOk .cif2 q s2 = true → linesFit ((posAfter line (col + 3) s1).2 + 1) s2 = true →
      followOk .cif2 ctx = true →
      ∃ t sc, nextToken dia ⟨q :: q :: q :: (s1 ++ c :: (s2 ++ q :: q :: q :: ctx)), line, col, lt⟩ acceptAll log
          = .ok (t, sc) (reps (posAfter line (col + 3) s1).1 ((posAfter line (col + 3) s1).2 + 1) ++ log)
        ∧ t.ty = .qvalue ∧ t.text = s1 ++ c' :: s2 ∧ sc.rest = ctx) := by
  refine ⟨?_, ?_⟩
  · intro h1 h2 hf1 hf2 hctx
    exact stepTok_tok_nextToken (by rw [haw]; exact hD.text s1 s2 ctx line log h1 h2 hf1 hf2 hctx)
  · intro q col hd hq h1 h1o hf1 h2 hf2 hctx
    subst hd
    exact ⟨_, _, stepTok_tok_nextToken (by rw [haw]; exact hD.triple q hq s1 s2 ctx line col log h1 h1o hf1 h2 hf2 hctx), rfl, rfl, rfl⟩

/-- the two instances of `Defect1`, and the die policy for any of the equations above: the oldest report decides -/
theorem C12_disallowed_char (dia : Dialect) (c : Nat) (h : softBad dia c = true) :
    Defect1 dia c c (disReps dia c)
    ∧ (∀ line col, disReps dia c line col ≠ [] ∧ ∀ r ∈ disReps dia c line col, r = ⟨CIF_DISALLOWED_CHAR, line, col⟩)
    ∧ (dia = .cif2 → ∀ line col, disReps dia c line col = [⟨CIF_DISALLOWED_CHAR, line, col⟩]) := by
  refine ⟨softBad_defect dia c h, ?_, ?_⟩
  · intro line col
    simp only [softBad, Bool.and_eq_true, Bool.not_eq_true', Bool.or_eq_true] at h
    constructor
    · rcases h.2 with hb | hb <;> simp [disReps, hb]
    · intro r hr
      simp only [disReps, List.mem_append] at hr
      rcases hr with hr | hr <;> split at hr <;> simp at hr <;> exact hr
  · intro hd line col
    subst hd
    simp only [softBad, Bool.and_eq_true, Bool.not_eq_true', Bool.or_eq_true, cif2_beq_cif1, Bool.false_and, Bool.false_eq_true,
      or_false] at h
    simp [disReps, h.2]

theorem C12_invalid_char_trail (dia : Dialect) (c : Nat) (h : isTrail c = true) :
    Defect1 dia c (replChar dia) (fun line col => [⟨CIF_INVALID_CHAR, line, col⟩])
    ∧ replChar .cif2 = 0xFFFD ∧ replChar .cif1 = 0x2A :=
  ⟨trail_defect dia c h, rfl, rfl⟩

/-- an unpaired LEAD surrogate as the last unit of a quoted string (CIF 2.0): it is noticed when the closing quote is scanned —
    one CIF_INVALID_CHAR, the unit is replaced by U+FFFD in the value, the string is closed normally; die: 102 -/
theorem C12_invalid_char_lead (q : Nat) (hq : q = 34 ∨ q = 39) (s1 ctx : Str) (l : Nat) (hl : isLeadU l = true) (line col : Nat)
    (lt : TokType) (log : List Report) (haw : afterWsOf lt = true)
    (h1 : okUnits .cif2 none s1 = true) (h1e : s1.all (fun x => !isEol x) = true) (h1q : s1.all (fun x => x != q) = true)
    (hctx : followOk .cif2 ctx = true) :
    nextToken .cif2 ⟨q :: (s1 ++ l :: q :: ctx), line, col, lt⟩ acceptAll log
        = .ok (⟨.qvalue, s1 ++ [0xFFFD], line, col + colAdd s1 + 3⟩, ⟨ctx, line, col + colAdd s1 + 3, .qvalue⟩)
            (⟨CIF_INVALID_CHAR, line, col + colAdd s1 + 3⟩ :: log)
    ∧ nextToken .cif2 ⟨q :: (s1 ++ l :: q :: ctx), line, col, lt⟩ dieAll log
        = .abort CIF_INVALID_CHAR (⟨CIF_INVALID_CHAR, line, col + colAdd s1 + 3⟩ :: log) := by
  have ha : nextToken .cif2 ⟨q :: (s1 ++ l :: q :: ctx), line, col, lt⟩ acceptAll log = _ :=
    stepTok_tok_nextToken (by rw [haw]; exact lead_before_quote q hq s1 ctx l hl line col log h1 h1e h1q hctx)
  exact ⟨ha, die_of_accept (d := []) (nextToken_detl .cif2 _) ha⟩

/-! ### a defective unit inside a COMMENT (group gW) -/

/-- **C12_defective_unit_comment** — ONE defective code unit `c` (`Defect1`: a character outside the dialect's set, or an unpaired
    trail surrogate) inside a comment `#s₁ c s₂` that ends with a line terminator, the rest of the comment admissible, whitespace
    already seen in this next_token call (or none required): exactly the reports of the unit (`reps`: CIF_DISALLOWED_CHAR once —
    twice in CIF 1.1 for a non-ASCII non-CIF character — resp. CIF_INVALID_CHAR once), at the comment's line and the column behind
    the unit; NO token is produced and the token loop continues at the line terminator exactly as it does behind the clean comment
    (same position, `after_ws` set) — whatever follows; under the abort-on-error handler the call ends with the code of the oldest
    of these reports, having logged it alone. -/
theorem C12_defective_unit_comment (dia : Dialect) (c c' : Nat) (reps : Nat → Nat → List Report) (hD : Defect1 dia c c' reps)
    (s1 s2 R : Str) (line col f : Nat) (log : List Report)
    (h1 : okUnits dia none s1 = true) (h1e : s1.all (fun x => !isEol x) = true)
    (h2 : okUnits dia none s2 = true) (h2e : s2.all (fun x => !isEol x) = true) :
    tokLoop dia (f + 1) true ⟨35 :: (s1 ++ c :: (s2 ++ 10 :: R)), line, col⟩ acceptAll log
      = tokLoop dia f true ⟨10 :: R, line, col + 1 + colAdd s1 + 1 + colAdd s2⟩ acceptAll (reps line (col + 1 + colAdd s1 + 1) ++ log)
    ∧ (∀ d r, reps line (col + 1 + colAdd s1 + 1) = d ++ [r] →
        tokLoop dia (f + 1) true ⟨35 :: (s1 ++ c :: (s2 ++ 10 :: R)), line, col⟩ dieAll log = .abort r.code (r :: log)) :=
  ⟨hD.comment s1 s2 R line col f log h1 h1e h2 h2e, fun d r hr => hD.comment_die s1 s2 R line col f log d r h1 h1e h2 h2e hr⟩

/-- … as a statement about next_token: a comment at a place where no whitespace is required (start of the input, behind `[`, `{`, a
    key) — the call returns what the call at the line terminator behind the comment returns, the reports of the unit logged first -/
theorem C12_defective_unit_comment_nextToken (dia : Dialect) (c c' : Nat) (reps : Nat → Nat → List Report) (hD : Defect1 dia c c' reps)
    (s1 s2 R : Str) (line col : Nat) (lt lt' : TokType) (log : List Report) (haw : afterWsOf lt = true) (haw' : afterWsOf lt' = true)
    (h1 : okUnits dia none s1 = true) (h1e : s1.all (fun x => !isEol x) = true)
    (h2 : okUnits dia none s2 = true) (h2e : s2.all (fun x => !isEol x) = true) :
    nextToken dia ⟨35 :: (s1 ++ c :: (s2 ++ 10 :: R)), line, col, lt⟩ acceptAll log
      = nextToken dia ⟨10 :: R, line, col + 1 + colAdd s1 + 1 + colAdd s2, lt'⟩ acceptAll (reps line (col + 1 + colAdd s1 + 1) ++ log) := by
  rw [nextToken_eq, nextToken_eq]
  simp only [haw, haw']
  have e : (35 :: (s1 ++ c :: (s2 ++ 10 :: R))).length + 1 = ((s1 ++ c :: (s2 ++ 10 :: R)).length + 1) + 1 := by simp
  rw [e, hD.comment s1 s2 R line col _ log h1 h1e h2 h2e]
  rw [tokLoop_fuel dia acceptAll ((s1 ++ c :: (s2 ++ 10 :: R)).length + 1) ((10 :: R).length + 1) true _ _
    (by simp only [List.length_append, List.length_cons]; omega) (by simp)]

/-- non-vacuity: U+0001 in a CIF 2.0 comment, an unpaired trail surrogate in a CIF 1.1 comment -/
example : Defect1 .cif2 1 1 (disReps .cif2 1) ∧ Defect1 .cif1 0xDC00 (replChar .cif1) (fun line col => [⟨CIF_INVALID_CHAR, line, col⟩])
    ∧ okUnits .cif2 none (a!" note") = true ∧ (a!" note").all (fun x => !isEol x) = true :=
  ⟨(C12_disallowed_char .cif2 1 (by decide)).1, (C12_invalid_char_trail .cif1 0xDC00 (by decide)).1, by decide, by decide⟩

/-- die policy, generically: whenever the accept-all run of a next_token call logs reports `d ++ [r]` (r the oldest), the call
    under `cif_parse_error_die` returns r's code, having logged r only — this turns every accept-all equation above into its
    die clause -/
theorem C12_die_is_first (dia : Dialect) (s : Scan) (log d : List Report) (r : Report) (a : Tok × Scan)
    (h : nextToken dia s acceptAll log = .ok a (d ++ [r] ++ log)) :
    nextToken dia s dieAll log = .abort r.code (r :: log) :=
  die_of_accept (nextToken_detl dia s) h

/-! ### CIF_RESERVED_WORD — "ignore the token" (reported and dropped INSIDE next_token) -/

/-- **C12_reserved_word_scan** — an unquoted `data_` (no code), `stop_` or `global_` (any case; `save_` alone is the frame
    terminator and `loop_` the loop keyword, neither is reserved), behind any whitespace / comments `w`, in front of whitespace
    or the end of the input, from any scanner state (line, column, previous token type) at which a whitespace-delimited
    token may start: next_token reports CIF_RESERVED_WORD exactly once, at the first character of the word, drops the word and
    answers what the call BEHIND the word answers (the following token); die: 132, that one report logged -/
theorem C12_reserved_word_scan (dia : Dialect) (w : List WsAtom) (wd ctx : Str) (line col : Nat) (lt lt' : TokType)
    (log : List Report) (hok : ∀ a ∈ w, a.ok dia = true)
    (hfirst : afterWsOf lt = true ∨ ∀ b rest, w ≠ WsAtom.comment b :: rest)
    (hws : (afterWsOf lt || !w.isEmpty) = true) (hfitw : linesFit col (renderWs w) = true)
    (hw : resvWord wd = true) (hctx : wsOrEnd ctx = true) (haw' : afterWsOf lt' = true) :
    nextToken dia ⟨renderWs w ++ (wd ++ ctx), line, col, lt⟩ acceptAll log
        = nextToken dia ⟨ctx, (posAfter line col (renderWs w)).1, (posAfter line col (renderWs w)).2 + wd.length, lt'⟩ acceptAll
            (⟨CIF_RESERVED_WORD, (posAfter line col (renderWs w)).1, (posAfter line col (renderWs w)).2⟩ :: log)
    ∧ nextToken dia ⟨renderWs w ++ (wd ++ ctx), line, col, lt⟩ dieAll log
        = .abort CIF_RESERVED_WORD (⟨CIF_RESERVED_WORD, (posAfter line col (renderWs w)).1, (posAfter line col (renderWs w)).2⟩ :: log) := by
  have ha : nextToken dia ⟨renderWs w ++ (wd ++ ctx), line, col, lt⟩ acceptAll log
      = nextToken dia ⟨ctx, (posAfter line col (renderWs w)).1, (posAfter line col (renderWs w)).2 + wd.length, lt'⟩ acceptAll
          (⟨CIF_RESERVED_WORD, (posAfter line col (renderWs w)).1, (posAfter line col (renderWs w)).2⟩ :: log) := by
    rw [C01_lex_sep dia w (wd ++ ctx) line col lt .end_ acceptAll log hok hfitw hfirst (by rw [hws]; rfl)]
    exact reserved_nextToken dia wd ctx hw hctx _ _ .end_ lt' log rfl haw'
  refine ⟨ha, ?_⟩
  -- the call behind the word ends normally under accept-all, and its log extends the one it was given
  obtain ⟨a, l, hb⟩ := (nextToken_noabort dia ⟨ctx, (posAfter line col (renderWs w)).1, (posAfter line col (renderWs w)).2 + wd.length, lt'⟩).run
    (⟨CIF_RESERVED_WORD, (posAfter line col (renderWs w)).1, (posAfter line col (renderWs w)).2⟩ :: log)
  obtain ⟨d, hlog, _, _⟩ := (nextToken_detl dia ⟨ctx, (posAfter line col (renderWs w)).1, (posAfter line col (renderWs w)).2 + wd.length, lt'⟩).run
    acceptAll (⟨CIF_RESERVED_WORD, (posAfter line col (renderWs w)).1, (posAfter line col (renderWs w)).2⟩ :: log)
  rw [hb] at hlog
  simp only [logOfL] at hlog
  rw [hb, hlog] at ha
  have ha' : nextToken dia ⟨renderWs w ++ (wd ++ ctx), line, col, lt⟩ acceptAll log
      = .ok a (d ++ [⟨CIF_RESERVED_WORD, (posAfter line col (renderWs w)).1, (posAfter line col (renderWs w)).2⟩] ++ log) := by
    rw [ha]; simp
  exact die_of_accept (nextToken_detl dia _) ha'

/-- **C12_reserved_word_nextTok** — the same at the parser's interface, in the shape of the hypothesis `hn` of
    `C12_scanner_report_in_element_position` and of the `*_peek` lemmas: if, behind the word, the scanner hands out token `t`
    silently (`hnext`: what `Feeds` says about its first token), then from the state in front of the word `nextTok` answers `t`
    with exactly the one report added -/
theorem C12_reserved_word_nextTok (o : Opts) (w : List WsAtom) (wd ctx : Str) (line col : Nat) (lt lt' : TokType) (wst : W)
    (hok : ∀ a ∈ w, a.ok o.dia = true)
    (hfirst : afterWsOf lt = true ∨ ∀ b rest, w ≠ WsAtom.comment b :: rest)
    (hws : (afterWsOf lt || !w.isEmpty) = true) (hfitw : linesFit col (renderWs w) = true)
    (hw : resvWord wd = true) (hctx : wsOrEnd ctx = true) (haw' : afterWsOf lt' = true) (t : Tok) (s' : PS)
    (hnext : ∀ pol w', nextTok o ⟨⟨ctx, (posAfter line col (renderWs w)).1, (posAfter line col (renderWs w)).2 + wd.length, lt'⟩, none⟩ pol w'
        = .ok (t, s') w') :
    nextTok o ⟨⟨renderWs w ++ (wd ++ ctx), line, col, lt⟩, none⟩ acceptAll wst
      = .ok (t, s') { wst with log := ⟨CIF_RESERVED_WORD, (posAfter line col (renderWs w)).1, (posAfter line col (renderWs w)).2⟩ :: wst.log } := by
  have ha := (C12_reserved_word_scan o.dia w wd ctx line col lt lt' wst.log hok hfirst hws hfitw hw hctx haw').1
  have hb := hnext acceptAll { wst with log := ⟨CIF_RESERVED_WORD, (posAfter line col (renderWs w)).1, (posAfter line col (renderWs w)).2⟩ :: wst.log }
  simp only [nextTok, Model.Parser.bind_eq, Model.Parser.pure_eq, P.bind, P.pure, liftL] at hb ⊢
  rw [ha]
  cases hr : nextToken o.dia ⟨ctx, (posAfter line col (renderWs w)).1, (posAfter line col (renderWs w)).2 + wd.length, lt'⟩ acceptAll
      (⟨CIF_RESERVED_WORD, (posAfter line col (renderWs w)).1, (posAfter line col (renderWs w)).2⟩ :: wst.log) with
  | abort rv l => rw [hr] at hb; simp at hb
  | ok a l =>
    rw [hr] at hb
    simp only [PRes.ok.injEq] at hb ⊢
    obtain ⟨h1, h2⟩ := hb
    refine ⟨h1, ?_⟩
    have hl : l = ⟨CIF_RESERVED_WORD, (posAfter line col (renderWs w)).1, (posAfter line col (renderWs w)).2⟩ :: wst.log := by
      have := congrArg W.log h2
      simpa using this
    rw [hl]

section
open Spec.Grammar
/-- **C12_reserved_word** — the whole class, in element position of any container (data block or save frame, `View`): a
    reserved word, then any well-formed items `post` (what the scanner feeds silently from behind the word, `hF`): exactly ONE
    report, CIF_RESERVED_WORD at the word, and the container receives exactly the items behind the word — the content of the
    document without the word (recovery "ignore the token").  Anchored at the state in front of the word, like
    `C12_scanner_report_in_element_position`, whose scanner hypothesis it discharges. -/
theorem C12_reserved_word (o : Opts) {path : Path} {put : Container → Cif} {code : Str} (hv : View o path put code)
    (w : List WsAtom) (wd ctx : Str) (line col : Nat) (lt lt' : TokType)
    (post : List Item) (seen2 : List Str) (rest : List TokSpec) (fuel : Nat) (wst : W)
    (fs : List Container) (ls : List Loop) (isBlock : Bool) (hcif : wst.cif = put (.mk code fs ls))
    (hok : ∀ a ∈ w, a.ok o.dia = true)
    (hfirst : afterWsOf lt = true ∨ ∀ b rest, w ≠ WsAtom.comment b :: rest)
    (hws : (afterWsOf lt || !w.isEmpty) = true) (hfitw : linesFit col (renderWs w) = true)
    (hw : resvWord wd = true) (hctx : wsOrEnd ctx = true) (haw' : afterWsOf lt' = true)
    (hpost : wfItems o post seen2 = true) (hseen2 : ∀ k ∈ normNames o ls, k ∈ seen2)
    (hfuel : szItems post + 1 ≤ fuel)
    (hrest : lastIsLoop post = true → ∃ ty tx ts, rest = (ty, tx) :: ts ∧ isTerminator ty = true)
    (hne : itemsToks post ++ rest ≠ [])
    (hF : Feeds o ⟨⟨ctx, (posAfter line col (renderWs w)).1, (posAfter line col (renderWs w)).2 + wd.length, lt'⟩, none⟩
        (itemsToks post ++ rest)) :
    ∃ s'', elemsLoop o (fuel + post.length) ⟨⟨renderWs w ++ (wd ++ ctx), line, col, lt⟩, none⟩ (some path) isBlock acceptAll wst
        = elemsLoop o fuel s'' (some path) isBlock acceptAll
            { log := ⟨CIF_RESERVED_WORD, (posAfter line col (renderWs w)).1, (posAfter line col (renderWs w)).2⟩ :: wst.log,
              cif := put (.mk code fs (denoteItems o.dia o.normKey post ls)) }
      ∧ Feeds o s'' rest := by
  cases hl : itemsToks post ++ rest with
  | nil => exact absurd hl hne
  | cons x ts =>
    obtain ⟨ty, tx⟩ := x
    rw [hl] at hF
    obtain ⟨t, s', hty, htx, hn2, htok, hr⟩ := Feeds.inv hF
    have hn := C12_reserved_word_nextTok o w wd ctx line col lt lt' wst hok hfirst hws hfitw hw hctx haw' t s' hn2
    have hF' : Feeds o s' (itemsToks post ++ rest) := by
      rw [hl, ← hty, ← htx]
      exact Feeds.pending htok hr
    exact C12_scanner_report_in_element_position o hv post seen2 rest _ s' t _ fuel wst fs ls isBlock hcif hpost hseen2 hn hfuel hrest hF'

end

/-- … and in VALUE position (`_name stop_ 5`): the item gets the value behind the word; stated as gH's `parseItem_peek` gives it:
    parse_item from the state in front of the word = parse_item with the following token ready and the one report logged -/
theorem C12_reserved_word_value_position (o : Opts) (w : List WsAtom) (wd ctx : Str) (line col : Nat) (lt lt' : TokType) (wst : W)
    (hok : ∀ a ∈ w, a.ok o.dia = true)
    (hfirst : afterWsOf lt = true ∨ ∀ b rest, w ≠ WsAtom.comment b :: rest)
    (hws : (afterWsOf lt || !w.isEmpty) = true) (hfitw : linesFit col (renderWs w) = true)
    (hw : resvWord wd = true) (hctx : wsOrEnd ctx = true) (haw' : afterWsOf lt' = true) (t : Tok) (s' : PS)
    (hnext : ∀ pol w', nextTok o ⟨⟨ctx, (posAfter line col (renderWs w)).1, (posAfter line col (renderWs w)).2 + wd.length, lt'⟩, none⟩ pol w'
        = .ok (t, s') w')
    (f : Nat) (cont : Option Path) (name : Option Str) :
    parseItem o f ⟨⟨renderWs w ++ (wd ++ ctx), line, col, lt⟩, none⟩ cont name acceptAll wst
      = parseItem o f s' cont name acceptAll
          { wst with log := ⟨CIF_RESERVED_WORD, (posAfter line col (renderWs w)).1, (posAfter line col (renderWs w)).2⟩ :: wst.log } :=
  parseItem_peek o (C12_reserved_word_nextTok o w wd ctx line col lt lt' wst hok hfirst hws hfitw hw hctx haw' t s' hnext) f cont name

/-! ### non-vacuity: every hypothesis is satisfiable, and the model evaluated on planted defects -/

/-- codes and lines of the reports, types and texts of the tokens, under accept-all -/
private def obs (dia : Dialect) (input : Str) : List (TokType × Str) × List (Nat × Nat) :=
  ((tokenize dia input).1.map (fun t => (t.ty, t.text)), (tokenize dia input).2.map (fun r => (r.code, r.line)))

-- CIF_DISALLOWED_INITIAL_CHAR
example : disallowedInitial 0x80 = true ∧ disallowedInitial 1 = true ∧ disallowedInitial 0xFEFF = false ∧ disallowedInitial 100 = false := by
  decide
-- CIF_MISSING_SPACE: a CIF 1.1-style embedded quote read in CIF 2.0 mode, a value glued to a closing bracket, `abc[1]`
example : obs .cif2 (a!"'a'b' ]x") = ([(.qvalue, (a!"a")), (.value, (a!"b'")), (.clist, (a!"]")), (.value, (a!"x")), (.end_, [])], [(105, 1), (105, 1)]) := by
  decide +kernel
example : obs .cif2 (a!"abc[1]") = ([(.value, (a!"abc")), (.olist, (a!"[")), (.value, (a!"1")), (.clist, (a!"]")), (.end_, [])], [(105, 1), (105, 1)]) := by
  decide +kernel
example := (C12_missing_space_value .cif2 .squote (a!"b") [32] 1 3 .qvalue [] rfl (by decide) (by decide) (by decide) (by decide)).1
example := (C12_missing_space_glued_bracket (a!"abc") 91 (a!"1]") 1 0 .end_ [] (Or.inl rfl) rfl (by decide) (by decide)).1
-- CIF_MISSING_ENDQUOTE: at the end of a line, at the end of the input, CIF 1.1 with an embedded quote
example : obs .cif2 (a!"'abc\nd \"e") = ([(.qvalue, (a!"abc")), (.value, (a!"d")), (.qvalue, (a!"e")), (.end_, [])], [(106, 1), (106, 2)]) := by
  decide +kernel
example := (C12_missing_endquote .cif2 39 (Or.inr rfl) (a!"abc") [10, 100] 1 0 .end_ [] rfl (by decide) (by decide) (by decide) (by decide))
example := (C12_missing_endquote .cif1 39 (Or.inr rfl) (a!"it's") [] 7 2 .end_ [] rfl (by decide) (by decide) (by decide) (by decide)).2
-- CIF_UNCLOSED_TEXT
example : obs .cif2 ((a!";abc") ++ [10] ++ (a!"def")) = ([(.tvalue, (a!"abc") ++ [10] ++ (a!"def")), (.end_, [])], [(107, 2)]) := by decide +kernel
example : obs .cif2 (a!"'''ab''") = ([(.qvalue, (a!"ab''")), (.end_, [])], [(107, 1)]) := by decide +kernel
example := (C12_unclosed_text .cif1 ((a!"abc") ++ [10] ++ (a!"def")) 4 .end_ [] (by decide) (by decide) (by decide)).1
example := (C12_unclosed_triple 39 (Or.inr rfl) (a!"ab''") 1 0 .end_ [] rfl (by decide) (by decide) (by decide)).2
-- CIF_OVERLENGTH_LINE: a 2049-character line inside a text field, a 2049-character comment
example : (obs .cif2 (59 :: (List.replicate 2048 97 ++ [10, 59]))).2 = [(108, 1)]
    ∧ (obs .cif2 (59 :: (List.replicate 2047 97 ++ [10, 59]))).2 = []
    ∧ (obs .cif2 (35 :: (List.replicate 2048 97 ++ [10, 98]))).2 = [(108, 1)] := by decide +kernel
example : longReps 3 1 (List.replicate 2048 97 ++ [10]) = [⟨108, 3, 2049⟩] ∧ longReps 3 1 (List.replicate 2047 97 ++ [10]) = [] := by
  decide +kernel
-- CIF_DISALLOWED_CHAR: accepted as it is; twice in CIF 1.1 for a C1 control
example : softBad .cif2 1 = true ∧ softBad .cif2 0xFEFF = true ∧ softBad .cif1 0xE9 = true ∧ softBad .cif2 0xE9 = false := by decide
example : obs .cif2 (a!"'a\x01b' _n\x7fm c\x00d") = ([(.qvalue, (a!"a\x01b")), (.name, (a!"_n\x7fm")), (.value, (a!"c\x00d")), (.end_, [])],
    [(104, 1), (104, 1), (104, 1)]) := by decide +kernel
example : (obs .cif1 [39, 97, 0x80, 39]) = ([(.qvalue, [97, 0x80]), (.end_, [])], [(104, 1), (104, 1)]) := by decide +kernel
example := ((C12_defective_unit .cif2 1 1 _ (C12_disallowed_char .cif2 1 (by decide)).1 (a!"a") (a!"b") [32] 1 0 .end_ [] rfl).1 39
  (Or.inr rfl) (by decide) (by decide) (by decide) (by decide) (by decide))
example := ((C12_defective_unit .cif1 0x80 0x80 _ (C12_disallowed_char .cif1 0x80 (by decide)).1 [] (a!"x") [] 1 0 .end_ [] rfl).2.2
  (by decide) (by decide) (by intro h; cases h) (by decide) (by decide) (by decide))
-- CIF_RESERVED_WORD: `stop_`, `global_`, a bare `data_` (any case) are reported and dropped by next_token; `save_`, `loop_` are not
example : obs .cif2 (a!"a STOP_ b global_ data_ c save_ loop_") =
    ([(.value, (a!"a")), (.value, (a!"b")), (.value, (a!"c")), (.frameTerm, []), (.loopKw, []), (.end_, [])], [(132, 1), (132, 1), (132, 1)]) := by
  decide +kernel
example : obs .cif1 (a!"_x stop_\n#c\nGlobal_") = ([(.name, (a!"_x")), (.end_, [])], [(132, 1), (132, 3)]) := by decide +kernel
example := C12_reserved_word_scan .cif2 [.blank 32, .comment (a!"c"), .eol] (a!"sToP_") (a!" x") 1 3 .value .end_ []
  (by decide) (Or.inr (by intro b rest h; cases h)) rfl (by decide) (by decide) (by decide) rfl
example := C12_reserved_word_scan .cif1 [] (a!"data_") [] 1 0 .end_ .end_ [] (by decide) (Or.inl rfl) rfl (by decide) (by decide) (by decide) rfl

set_option maxRecDepth 1000000 in
/-- the whole class on whole documents (integrated parser model, accept-all): one report 132 at the line of the word, the
    content that of the document without the word — element position (`stop_`, `GLOBAL_`, bare `data_`) and value position -/
theorem C12_reserved_word_instance :
    C12.check .reservedWord 2 (a!"data_a _x 1\nstop_\n_y 2") (C12.blockA [a!"_x", a!"_y"] [.chr false (a!"1"), .chr false (a!"2")]) = true
    ∧ C12.check .reservedWord 3 (a!"data_a\n_x 1\nGLOBAL_ _y 2") (C12.blockA [a!"_x", a!"_y"] [.chr false (a!"1"), .chr false (a!"2")]) = true
    ∧ C12.check .reservedWord 1 (a!"data_a _x 1 data_ _y 2") (C12.blockA [a!"_x", a!"_y"] [.chr false (a!"1"), .chr false (a!"2")]) = true
    ∧ C12.check .reservedWord 1 (a!"data_a _x stop_ 1 _y 2") (C12.blockA [a!"_x", a!"_y"] [.chr false (a!"1"), .chr false (a!"2")]) = true
    ∧ (parse C12.opts2 acceptAll [] (a!"data_a _x 1\nstop_\n_y 2")).log.length = 1
    ∧ (parse C12.opts2 dieAll [] (a!"data_a _x 1\nstop_\n_y 2")).rc = 132 := by
  decide +kernel

-- CIF_INVALID_CHAR: an unpaired trail surrogate becomes U+FFFD (CIF 1.1: `*`), an unpaired lead before the closing quote too
example : obs .cif2 [39, 97, 0xDE00, 98, 39, 32, 34, 0xD83D, 34] = ([(.qvalue, [97, 0xFFFD, 98]), (.qvalue, [0xFFFD]), (.end_, [])], [(102, 1), (102, 1)]) := by
  decide +kernel
example : (obs .cif1 [97, 0xDE00]).1 = [(.value, [97, 0x2A]), (.end_, [])] := by decide +kernel
example := ((C12_defective_unit_multiline .cif2 0xDE00 0xFFFD _ (C12_invalid_char_trail .cif2 0xDE00 (by decide)).1 (a!"a") (a!"b") [] 1
  .end_ [] rfl).1 (by decide) (by decide) (by decide) (by decide) (by decide))
example := (C12_invalid_char_lead 34 (Or.inl rfl) (a!"x") [32] 0xD83D (by decide) 1 0 .end_ [] rfl (by decide) (by decide) (by decide) (by decide)).2

end CifModel
