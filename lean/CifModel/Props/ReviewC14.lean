import CifModel.Props.C14
/-
  Review examples for C14 (group gB, independent review).

  Props/C14.lean checks only lengths and result codes of walks with directives.  Here are the LOGS, so that a reader sees what
  the proved statements mean for the property's word "exactly": a start callback answering SKIP_CURRENT loses not only the
  descendants but also its own end callback; SKIP_SIBLINGS at a block start loses the later blocks AND cif_end
  (cif.h: "skip the current element itself if possible" — the property text says "exactly the callbacks for the descendants").
-/
namespace CifModel.ReviewC14
open CifModel Walk Spec.Traversal Lemmas.Walk

/-- kind of callback and the element's identity (code / first name / packet width / item name) -/
def tag : Ev → Nat × Str
  | .cifStart => (0, []) | .cifEnd => (1, [])
  | .blockStart c => (2, c) | .blockEnd c => (3, c)
  | .frameStart c => (4, c) | .frameEnd c => (5, c)
  | .loopStart _ ns => (6, ns.headD []) | .loopEnd _ ns => (7, ns.headD [])
  | .pktStart p => (8, [p.length]) | .pktEnd p => (9, [p.length])
  | .item nm _ => (10, nm)

private def b1 := a!"b1"
private def b2 := a!"b2"
private def f := a!"f"
private def _a := a!"_a"
private def _b := a!"_b"
private def _s := a!"_s"

-- all-continue: the full traversal, parents first, frames before loops, start before end, every element once
example : (walk allCont C14_demo).1.map tag =
    [(0, []), (2, b1), (4, f), (6, _s), (8, [1]), (10, _s), (9, [1]), (7, _s), (5, f),
     (6, _a), (8, [2]), (10, _a), (10, _b), (9, [2]), (8, [2]), (10, _a), (10, _b), (9, [2]), (7, _a), (3, b1),
     (2, b2), (3, b2), (1, [])] := by decide +kernel
example : (fullTraversal C14_demo).map tag = (walk allCont C14_demo).1.map tag := by decide +kernel

-- SKIP_CURRENT at block_start b1: no descendant of b1 — and no block_end b1 either
example : (walk (fun k _ => if k = 1 then SKIP_CURRENT else 0) C14_demo).1.map tag =
    [(0, []), (2, b1), (2, b2), (3, b2), (1, [])] := by decide +kernel
-- SKIP_CURRENT at frame_start f: frame f's loop is gone and so is frame_end f; the loops of b1 follow (not siblings of frames)
example : (walk (fun k _ => if k = 2 then SKIP_CURRENT else 0) C14_demo).1.map tag =
    [(0, []), (2, b1), (4, f),
     (6, _a), (8, [2]), (10, _a), (10, _b), (9, [2]), (8, [2]), (10, _a), (10, _b), (9, [2]), (7, _a), (3, b1),
     (2, b2), (3, b2), (1, [])] := by decide +kernel
-- SKIP_SIBLINGS at frame_start f: the loops of b1 are still walked, block_end b1 is delivered
example : (walk (fun k _ => if k = 2 then SKIP_SIBLINGS else 0) C14_demo).1.map tag =
    (walk (fun k _ => if k = 2 then SKIP_CURRENT else 0) C14_demo).1.map tag := by decide +kernel
-- SKIP_SIBLINGS at block_start b1: block b2 is not walked, and cif_end is NOT delivered; result CIF_OK
example : (walk (fun k _ => if k = 1 then SKIP_SIBLINGS else 0) C14_demo).1.map tag = [(0, []), (2, b1)]
    ∧ (walk (fun k _ => if k = 1 then SKIP_SIBLINGS else 0) C14_demo).2 = 0 := by decide +kernel
-- SKIP_SIBLINGS at the first item of the first packet of loop _a: the packet's second item and its packet_end are lost,
-- the second packet is delivered in full
example : (walk (fun k _ => if k = 11 then SKIP_SIBLINGS else 0) C14_demo).1.map tag =
    [(0, []), (2, b1), (4, f), (6, _s), (8, [1]), (10, _s), (9, [1]), (7, _s), (5, f),
     (6, _a), (8, [2]), (10, _a), (8, [2]), (10, _a), (10, _b), (9, [2]), (7, _a), (3, b1),
     (2, b2), (3, b2), (1, [])] := by decide +kernel

end CifModel.ReviewC14
