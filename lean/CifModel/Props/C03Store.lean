import CifModel.Lemmas.ParserStoreOps
import CifModel.Lemmas.ParserTraceInv
import CifModel.Model.ParserStoreOps
import CifModel.Props.C03
import CifModel.Props.C04
import CifModel.Lemmas.ParserStoreRun
import CifModel.Lemmas.ParserStoreRunF
/-
  Props/C03Store — the parser model and the store: which API calls a parse makes, and that the CIF the parser model returns is what
  those calls build (property C03 "the CIF is consistent afterwards" / C04 "interleaved with parsing").

  The real parser does not write into a tree: it calls cif_create_block(_internal), cif_container_create_frame(_internal),
  cif_container_set_value, cif_container_create_loop, cif_loop_add_packet, cif_container_prune.  Model/ParserTrace.lean is the parser
  model with exactly these calls recorded (`storeTrace`); the executor of family `parse` counts the same calls of the real parser
  (macros around `#include "parser.c"`) and the counts are compared on every request.

  PROVED here, for every option record, callback policy, initial target and input (also aborted parses, all recovery paths):
    * `C03_parser_trace`: forgetting the trace gives `parse`; the target after the parse is the replay of the recorded calls, each
      with its effect on the documented data model (`SOp.apply`); set_value is only recorded under a valid data name;
    * `C03_store_ops_documented`: those effects are the DOCUMENTED functions of Spec/DataModel.lean (written from cif.h by the store
      group) — set_value and add_packet on consistent, rectangular containers (`C03_consistent_after`), block / frame creation
      for a code not in use;
    * `C03_consistent_after_every_call`: the target is consistent and rectangular after EVERY recorded call (every prefix of the
      trace), so `C03_set_value_calls_documented`: every set_value of every parse is the documented function, no premise left;
      `C03_add_packet_calls_documented`, `C03_create_calls_documented`: every add_packet / block / frame creation of every parse is
      a SUCCESSFUL call of the documented function in the state in which it is made (`Lemmas/ParserTraceInv.trace_calls_docOk`);
    * `C03_store_step_mkBlock`: for block creation the composition with the store model's API function (through C04_refines_create_block).
  PROVED since group gX: `C03_parser_store_refines : C03_parser_store_refines_full` — running the translated history (`storeOps`)
  through `Store.step` from a new CIF ends with every call CIF_OK in a store whose abstraction `Store.abs` is the parser model's CIF
  (below: "the FULL composition").  It is also EXECUTED by the model driver on every request of family `parse` with a target (field
  `sto=`; any outcome other than `ok` / `skip` is a disagreement).
-/
namespace CifModel
open CifModel.Model CifModel.Model.Lexer CifModel.Model.Parser

/-- **C03_parser_trace** — the instrumented parser is the parser: same outcome; the target is the replay of the recorded store
    calls on the initial target, oldest first; every recorded cif_container_set_value has a valid data name. -/
theorem C03_parser_trace (o : Opts) (pol : Policy) (pre : Cif) (units : Str) :
    (parseT o pol pre units).out = parse o pol pre units ∧
    (parse o pol pre units).cif = (storeTrace o pol pre units).foldl (fun c op => op.apply o c) pre ∧
    (∀ op ∈ storeTrace o pol pre units, op.wf) :=
  ⟨parseT_out o pol pre units, parse_replay o pol pre units, storeTrace_wf o pol pre units⟩

/-- **C03_store_ops_documented** — the effect the parser model gives a recorded call is the documented function of the API
    (Spec/DataModel.lean): cif_container_set_value on a consistent, rectangular container; cif_loop_add_packet of the packet
    `names ↦ values` on a loop with distinct names, as many values as names, not the scalar loop with its packet; cif_create_block
    and cif_container_create_frame for a code that is not in use. -/
theorem C03_store_ops_documented (o : Opts) :
    (∀ (name : Str) (v : V) (c : Container), OkC o c → RectC c →
      Parser.setValueC o name v c = Container.specSetValue o.norm c (o.norm name) name v) ∧
    (∀ (l : Loop) (vals : List V), (l.names.map o.norm).Nodup → vals.length = l.names.length → vals ≠ [] →
      ¬ (l.specIsScalar = true ∧ l.packets ≠ []) →
      Loop.specAddPacket o.norm l ((l.names.map o.norm).zip vals) = .ok { l with packets := l.packets ++ [vals] }) ∧
    (∀ (cif : Cif) (code : Str) (lenient : Bool), cif.any (codeIs o.norm (o.norm code)) = false →
      specCreateBlock o.norm cif (o.norm code) code true = .ok ((SOp.mkBlock code lenient).apply o cif)) ∧
    (∀ (c : Container) (code : Str), c.frames.any (codeIs o.norm (o.norm code)) = false →
      c.specCreateFrame o.norm (o.norm code) code true
        = .ok (Container.mk c.code (c.frames ++ [Container.mk code [] []]) c.loops)) :=
  ⟨fun name v c hok hr => setValueC_spec o name v c hok hr,
   fun l vals hn hlen hne hs => addPkt_spec o.norm l vals hn hlen hne hs,
   fun cif code lenient h => mkBlock_spec o cif code lenient h,
   fun c code h => mkFrame_spec o c code h⟩

/-- **C03_consistent_after_every_call** — not only when the parse ends: after EVERY store call a parse makes (every prefix of the
    recorded trace, replayed on the initial target) the target is consistent (`OkCif`) and rectangular (`RectCif`), for every option
    record, policy and input, from every consistent rectangular initial target. -/
theorem C03_consistent_after_every_call (o : Opts) (pol : Policy) (pre : Cif) (units : Str) (h : OkCif o pre) (hr : RectCif pre)
    (k : Nat) :
    OkCif o (((storeTrace o pol pre units).take k).foldl (fun c op => op.apply o c) pre) ∧
    RectCif (((storeTrace o pol pre units).take k).foldl (fun c op => op.apply o c) pre) :=
  trace_prefix_okR o pol pre units ⟨h, hr⟩ k

/-- **C03_set_value_calls_documented** — hence every cif_container_set_value a parse makes does to the target, in the state in which
    it is made, exactly what the DOCUMENTED function does (Spec/DataModel `Container.specSetValue`, applied to the container the
    call addresses): no premise left on the state. -/
theorem C03_set_value_calls_documented (o : Opts) (pol : Policy) (pre : Cif) (units : Str) (h : OkCif o pre) (hr : RectCif pre)
    (k : Nat) (path : Path) (n : Str) (v : V) (hk : (storeTrace o pol pre units)[k]? = some (SOp.setVal path n v)) :
    ((storeTrace o pol pre units).take (k + 1)).foldl (fun c op => op.apply o c) pre =
      updIn o.norm (fun c => c.specSetValue o.norm (o.norm n) n v) path
        (((storeTrace o pol pre units).take k).foldl (fun c op => op.apply o c) pre) := by
  have hpre := trace_prefix_okR o pol pre units ⟨h, hr⟩ k
  have hstep : (storeTrace o pol pre units).take (k + 1) = (storeTrace o pol pre units).take k ++ [SOp.setVal path n v] := by
    rw [List.take_add_one, hk]; rfl
  rw [hstep, List.foldl_append]
  simp only [List.foldl_cons, List.foldl_nil, SOp.apply]
  exact updIn_congr_ok o _ _ (fun c hc hrc => setValueC_spec o n v c hc hrc) path _ hpre.1.2 hpre.2

/-- **C03_create_calls_documented** — every block / save-frame creation a parse makes is, in the state in which it is made, a
    SUCCESSFUL call of the documented function (validation waived for the lenient creations): the code is not in use there. -/
theorem C03_create_calls_documented (o : Opts) (pol : Policy) (pre : Cif) (units : Str) (h : OkCif o pre) (hr : RectCif pre) (k : Nat) :
    let before := ((storeTrace o pol pre units).take k).foldl (fun c op => op.apply o c) pre
    (∀ code lenient, (storeTrace o pol pre units)[k]? = some (SOp.mkBlock code lenient) →
      specCreateBlock o.norm before (o.norm code) code true = .ok ((SOp.mkBlock code lenient).apply o before)) ∧
    (∀ parent code lenient, (storeTrace o pol pre units)[k]? = some (SOp.mkFrame parent code lenient) →
      ∀ cc, getIn o.norm parent before = some cc →
        cc.specCreateFrame o.norm (o.norm code) code true
          = .ok (Container.mk cc.code (cc.frames ++ [Container.mk code [] []]) cc.loops)) := by
  intro before
  refine ⟨?_, ?_⟩
  · intro code lenient hk
    exact mkBlock_spec o before code lenient (trace_calls_docOk o pol pre units ⟨h, hr⟩ k _ hk).2
  · intro parent code lenient hk cc hg
    have hd := (trace_calls_docOk o pol pre units ⟨h, hr⟩ k _ hk).2
    apply mkFrame_spec o cc code
    have e : getIn o.norm parent (((storeTrace o pol pre units).take k).foldl (fun c op => op.apply o c) pre) = some cc := hg
    rw [e] at hd
    simpa using hd

/-- **C03_add_packet_calls_documented** — every cif_loop_add_packet a parse makes is, in the state in which it is made, a SUCCESSFUL
    call of the documented function on the LAST loop of the container: the packet `names ↦ values` (keys normalised) is accepted
    (not empty, no foreign item, not a second packet of the scalar loop) and adds exactly the row of values — which is what the
    parser model's step does. -/
theorem C03_add_packet_calls_documented (o : Opts) (pol : Policy) (pre : Cif) (units : Str) (h : OkCif o pre) (hr : RectCif pre)
    (k : Nat) (path : Path) (vals : List V) (hk : (storeTrace o pol pre units)[k]? = some (SOp.addPkt path vals)) :
    let before := ((storeTrace o pol pre units).take k).foldl (fun c op => op.apply o c) pre
    ∀ cc, getIn o.norm path before = some cc →
      ∃ ls0 l, cc.loops = ls0 ++ [l] ∧
        Loop.specAddPacket o.norm l ((l.names.map o.norm).zip vals) = .ok { l with packets := l.packets ++ [vals] } ∧
        addPacketLast cc.loops vals = ls0 ++ [{ l with packets := l.packets ++ [vals] }] := by
  intro before cc hg
  have hpre := trace_prefix_okR o pol pre units ⟨h, hr⟩ k
  obtain ⟨hne, hd⟩ := trace_calls_docOk o pol pre units ⟨h, hr⟩ k _ hk
  obtain ⟨l, hl, hs, hlen⟩ := hd cc hg
  obtain ⟨ls0, e⟩ := exists_snoc_of_getLast? cc.loops l hl
  have hokc : OkC o cc := getIn_okC o path _ cc hpre.1.2 hg
  obtain ⟨code, fs, ls⟩ := cc
  rw [OkC_mk] at hokc
  simp only [Container.loops] at e hl ⊢
  have hnd : (l.names.map o.norm).Nodup := nodup_names_of_mem o ls l hokc.1.1 (by rw [e]; simp)
  refine ⟨ls0, l, e, ?_, by rw [e, addPacketLast_append]⟩
  apply addPkt_spec o.norm l vals hnd hlen.symm hne
  rintro ⟨hsc, _⟩
  have : Parser.isScalarLoop l = true := hsc
  rw [hs] at this
  cases this

/-- **FULL statement** (proved below: `C03_parser_store_refines`; also executed on every generated input): the calls of a parse into
    a new CIF, run through the store model, all succeed and build exactly the CIF the parser model returns. -/
def C03_parser_store_refines_full : Prop :=
  ∀ (o : Opts) (pol : Policy) (units : Str) (ops : List Store.Op),
    storeOps o (storeTrace o pol [] units) = some ops →
    (storeRun ops).2 = true ∧ ∃ s, (storeRun ops).1 = some s ∧ Store.abs s.db = (parse o pol [] units).cif

/-- the composition for ONE kind of call: cif_create_block with a valid code that is not in use, on ANY store in autocommit mode that
    satisfies the store invariant, keeps block codes normalised and shows `cif`: the call succeeds and the store then shows what the
    parser model makes of the recorded call. -/
theorem C03_store_step_mkBlock (o : Opts) (s : Store.Store) (cif : Cif) (code : Str)
    (habs : Store.abs s.db = cif) (hac : s.autocommit = true) (hn : Store.BlocksNormOK o.norm s.db) (hinv : Store.Inv s.db)
    (hfresh : cif.any (codeIs o.norm (o.norm code)) = false) (hv : isValidName false code = true) :
    ∃ h, (Store.createBlock s (some (mkName o false code))).2 = .ok h ∧
      Store.abs (Store.createBlock s (some (mkName o false code))).1.db = (SOp.mkBlock code false).apply o cif := by
  have h1 := C04_refines_create_block o.norm s (mkName o false code) hac hn hinv
  have h2 := mkBlock_spec o cif code false hfresh
  have hkey : (mkName o false code).key = o.norm code := rfl
  have horig : (mkName o false code).orig = code := rfl
  have hvalid : (mkName o false code).valid = true := hv
  rw [habs, hkey, horig, hvalid, h2] at h1
  cases hr : (Store.createBlock s (some (mkName o false code))).2 with
  | ok h =>
    rw [hr] at h1
    exact ⟨h, rfl, (Except.ok.inj h1.1).symm⟩
  | error c =>
    rw [hr] at h1
    cases h1.1

/-- **C03_parser_store_refines_partial** — what is proved of the composition: the trace is faithful (every parse), its effects are
    the documented API functions, and block creation composes with the store model's `createBlock`. -/
theorem C03_parser_store_refines_partial (o : Opts) (pol : Policy) (pre : Cif) (units : Str) :
    ((parseT o pol pre units).out = parse o pol pre units ∧
      (parse o pol pre units).cif = (storeTrace o pol pre units).foldl (fun c op => op.apply o c) pre) ∧
    (∀ (name : Str) (v : V) (c : Container), OkC o c → RectC c →
      Parser.setValueC o name v c = Container.specSetValue o.norm c (o.norm name) name v) ∧
    (∀ (s : Store.Store) (cif : Cif) (code : Str), Store.abs s.db = cif → s.autocommit = true → Store.BlocksNormOK o.norm s.db →
      Store.Inv s.db → cif.any (codeIs o.norm (o.norm code)) = false → isValidName false code = true →
      ∃ h, (Store.createBlock s (some (mkName o false code))).2 = .ok h ∧
        Store.abs (Store.createBlock s (some (mkName o false code))).1.db = (SOp.mkBlock code false).apply o cif) :=
  ⟨⟨parseT_out o pol pre units, parse_replay o pol pre units⟩, fun name v c hok hr => setValueC_spec o name v c hok hr,
   fun s cif code h1 h2 h3 h4 h5 h6 => C03_store_step_mkBlock o s cif code h1 h2 h3 h4 h5 h6⟩

/-! ### the container a recorded call addresses EXISTS (group gX; review rA, finding A.1)

  The conclusions of `C03_add_packet_calls_documented`, `C03_create_calls_documented` (frame arm) and — through `updIn` —
  `C03_set_value_calls_documented` are guarded by `getIn … path before = some cc`.  `C03_calls_resolve` says that the guard is always met
  (Lemmas/ParserTraceShape: a second Hoare logic over the instrumented productions, with the recorded calls visible to pre- and
  postconditions); the theorems below restate the conclusions without the guard, and add the two calls that had no documented
  function before (cif_container_create_loop, cif_container_prune: Spec/DataModel `Container.specCreateLoop`, `Container.specPrune`). -/

/-- **C03_calls_resolve** — every recorded call of every parse (any option record, policy, input, initial target; completed or aborted)
    addresses a container that exists in the state in which the call is made: the replay of the calls before it resolves the call's
    path (for a save-frame creation: the path of the parent). -/
theorem C03_calls_resolve (o : Opts) (pol : Policy) (pre : Cif) (units : Str) (k : Nat) (op : SOp)
    (hk : (storeTrace o pol pre units)[k]? = some op) :
    let before := ((storeTrace o pol pre units).take k).foldl (fun c op => op.apply o c) pre
    match op with
    | .mkBlock .. => True
    | .mkFrame parent _ _ => (getIn o.norm parent before).isSome = true
    | .setVal path _ _ | .mkLoop path _ | .addPkt path _ | .prune path => (getIn o.norm path before).isSome = true := by
  intro before
  have h := trace_paths_resolve o pol pre units k op hk
  cases op <;> first | trivial | exact h

/-- **C03_add_packet_calls_succeed** — `C03_add_packet_calls_documented` without its guard: the container exists, its LAST loop accepts
    the packet `names ↦ values` (documented function: `.ok`), and that is what the parser model's step does. -/
theorem C03_add_packet_calls_succeed (o : Opts) (pol : Policy) (pre : Cif) (units : Str) (h : OkCif o pre) (hr : RectCif pre)
    (k : Nat) (path : Path) (vals : List V) (hk : (storeTrace o pol pre units)[k]? = some (SOp.addPkt path vals)) :
    let before := ((storeTrace o pol pre units).take k).foldl (fun c op => op.apply o c) pre
    ∃ cc, getIn o.norm path before = some cc ∧
      ∃ ls0 l, cc.loops = ls0 ++ [l] ∧
        Loop.specAddPacket o.norm l ((l.names.map o.norm).zip vals) = .ok { l with packets := l.packets ++ [vals] } ∧
        addPacketLast cc.loops vals = ls0 ++ [{ l with packets := l.packets ++ [vals] }] := by
  intro before
  have hres : (getIn o.norm path before).isSome = true := trace_paths_resolve o pol pre units k _ hk
  obtain ⟨cc, hcc⟩ := Option.isSome_iff_exists.mp hres
  exact ⟨cc, hcc, C03_add_packet_calls_documented o pol pre units h hr k path vals hk cc hcc⟩

/-- **C03_create_frame_calls_succeed** — the frame arm of `C03_create_calls_documented` without its guard: the parent exists and the
    documented creation succeeds on it (the code is valid or the creation is the lenient one: `SOp.docOk`). -/
theorem C03_create_frame_calls_succeed (o : Opts) (pol : Policy) (pre : Cif) (units : Str) (h : OkCif o pre) (hr : RectCif pre)
    (k : Nat) (parent : Path) (code : Str) (lenient : Bool)
    (hk : (storeTrace o pol pre units)[k]? = some (SOp.mkFrame parent code lenient)) :
    let before := ((storeTrace o pol pre units).take k).foldl (fun c op => op.apply o c) pre
    (lenient = true ∨ isValidName false code = true) ∧
    ∃ cc, getIn o.norm parent before = some cc ∧
      cc.specCreateFrame o.norm (o.norm code) code true = .ok (Container.mk cc.code (cc.frames ++ [Container.mk code [] []]) cc.loops) := by
  intro before
  have hres : (getIn o.norm parent before).isSome = true := trace_paths_resolve o pol pre units k _ hk
  obtain ⟨cc, hcc⟩ := Option.isSome_iff_exists.mp hres
  exact ⟨(trace_calls_docOk o pol pre units ⟨h, hr⟩ k _ hk).1, cc, hcc,
    (C03_create_calls_documented o pol pre units h hr k).2 parent code lenient hk cc hcc⟩

/-- **C03_set_value_calls_succeed** — the container of every recorded cif_container_set_value exists, and the call does to it what the
    documented function does (`C03_set_value_calls_documented`: `updIn` at a path that resolves is not the identity by default). -/
theorem C03_set_value_calls_succeed (o : Opts) (pol : Policy) (pre : Cif) (units : Str) (h : OkCif o pre) (hr : RectCif pre)
    (k : Nat) (path : Path) (n : Str) (v : V) (hk : (storeTrace o pol pre units)[k]? = some (SOp.setVal path n v)) :
    let before := ((storeTrace o pol pre units).take k).foldl (fun c op => op.apply o c) pre
    (∃ cc, getIn o.norm path before = some cc ∧
      getIn o.norm path (((storeTrace o pol pre units).take (k + 1)).foldl (fun c op => op.apply o c) pre)
        = some (cc.specSetValue o.norm (o.norm n) n v)) := by
  intro before
  have hres : (getIn o.norm path before).isSome = true := trace_paths_resolve o pol pre units k _ hk
  obtain ⟨cc, hcc⟩ := Option.isSome_iff_exists.mp hres
  refine ⟨cc, hcc, ?_⟩
  rw [C03_set_value_calls_documented o pol pre units h hr k path n v hk]
  rw [getIn_updIn o _ (fun c => by cases c; simp only [Container.specSetValue]; split <;> (try split) <;> rfl) path]
  show (getIn o.norm path before).map _ = _
  rw [hcc]; rfl

/-- **C03_create_loop_calls_succeed** — every recorded cif_container_create_loop: the container exists and the DOCUMENTED function
    (`Container.specCreateLoop`, category NULL; group gX) succeeds on it — names not empty, all valid, none in use, pairwise distinct
    (`SOp.docOk`) — with the result the parser model's step produces. -/
theorem C03_create_loop_calls_succeed (o : Opts) (pol : Policy) (pre : Cif) (units : Str) (h : OkCif o pre) (hr : RectCif pre)
    (k : Nat) (path : Path) (names : List Str) (hk : (storeTrace o pol pre units)[k]? = some (SOp.mkLoop path names)) :
    let before := ((storeTrace o pol pre units).take k).foldl (fun c op => op.apply o c) pre
    ∃ cc, getIn o.norm path before = some cc ∧
      cc.specCreateLoop o.norm none names (isValidName true)
        = .ok (Container.mk cc.code cc.frames (cc.loops ++ [{ category := none, names := names, packets := [] }])) := by
  intro before
  have hres : (getIn o.norm path before).isSome = true := trace_paths_resolve o pol pre units k _ hk
  obtain ⟨cc, hcc⟩ := Option.isSome_iff_exists.mp hres
  obtain ⟨hne, hv, hcl⟩ := trace_calls_docOk o pol pre units ⟨h, hr⟩ k _ hk
  exact ⟨cc, hcc, mkLoop_spec o cc names hne hv (hcl cc hcc)⟩

/-- **C03_prune_calls_documented** — every recorded cif_container_prune addresses an existing container and is the documented function
    (`Container.specPrune`) applied to it. -/
theorem C03_prune_calls_documented (o : Opts) (pol : Policy) (pre : Cif) (units : Str)
    (k : Nat) (path : Path) (hk : (storeTrace o pol pre units)[k]? = some (SOp.prune path)) :
    let before := ((storeTrace o pol pre units).take k).foldl (fun c op => op.apply o c) pre
    (getIn o.norm path before).isSome = true ∧
      (SOp.prune path).apply o before = updIn o.norm Container.specPrune path before := by
  intro before
  refine ⟨trace_paths_resolve o pol pre units k _ hk, ?_⟩
  show updIn o.norm pruneC path before = _
  have : pruneC = Container.specPrune := funext prune_spec'
  rw [this]

/-! ### the composition over whole histories (group gX)

  `ParserSim.noFrames trace`: the trace contains no save-frame creation.  For such traces — every option record, every policy, every
  input, completed or aborted parses, lenient creations included — the FULL statement holds, and more: the history is in contract, so
  every theorem of C04 / C05 / C06 / C07 about in-contract histories applies to what the parser built.  (That every
  cif_loop_add_packet directly follows the cif_container_create_loop / cif_loop_add_packet of the same container — so that the loop
  handle of `storeOps` denotes the last loop of the container — is `Model.Parser.trace_shaped`, proved of every trace.) -/

/-- **C03_parser_store_refines_covered_partial** — `C03_parser_store_refines_full` for the covered traces: the recorded calls of the
    parse, translated into a `Store.Op` history and run through `Store.step` from the empty world, all return CIF_OK, and the store
    then shows (`Store.abs`) EXACTLY the CIF the parser model returns.  (Lemmas/ParserStoreSim: each call on the documented model with
    identities vs. the tree; Lemmas/ParserStoreRun: handle tables, `C04_refines` per step.) -/
theorem C03_parser_store_refines_covered_partial (o : Opts) (pol : Policy) (units : Str) (ops : List Store.Op)
    (hnf : ParserSim.noFrames (storeTrace o pol [] units) = true)
    (hso : storeOps o (storeTrace o pol [] units) = some ops) :
    (storeRun ops).2 = true ∧ ∃ s, (storeRun ops).1 = some s ∧ Store.abs s.db = (parse o pol [] units).cif := by
  obtain ⟨_, hall, _, s, hc, _, habs⟩ := ParserSim.parse_store_sim o pol units ops hnf hso
  refine ⟨hall, s, ?_, habs⟩
  show (Store.run {} ops).1.cifs.getD 0 none = some s
  rw [hc]; rfl

/-- **C03_parser_store_refines_noframes_partial** — the same without the hypothesis that the trace has a translation: for a parse that
    creates no save frame `storeOps` SUCCEEDS (every call finds the handle its container got: `C03_calls_resolve`), every translated
    call returns CIF_OK, and the store then shows exactly the parser model's CIF. -/
theorem C03_parser_store_refines_noframes_partial (o : Opts) (pol : Policy) (units : Str)
    (hnf : ParserSim.noFrames (storeTrace o pol [] units) = true) :
    ∃ ops, storeOps o (storeTrace o pol [] units) = some ops ∧ (storeRun ops).2 = true ∧
      ∃ s, (storeRun ops).1 = some s ∧ Store.abs s.db = (parse o pol [] units).cif := by
  obtain ⟨ops, hso⟩ := ParserSim.storeOps_total o pol units hnf
  exact ⟨ops, hso, C03_parser_store_refines_covered_partial o pol units ops hnf hso⟩

/-- **C03_parser_store_refines_from_rep_partial** — pre-existing targets: from ANY world `w` that represents a consistent, rectangular,
    frame-free initial target (`ParserSim.Rep`: one CIF whose `Store.abs` is the target, `WOk`, no iterator, a live container handle
    for every block — e.g. the world an earlier parse left: `ParserSim.parse_leaves_rep`), a parse of any input that creates no save
    frame: its calls have a translation w.r.t. the handle tables of `w`, are in contract, return CIF_OK, keep `WOk`, and the world then
    shows exactly the CIF the parser model returns for that initial target. -/
theorem C03_parser_store_refines_from_rep_partial (o : Opts) (pol : Policy) (units : Str) (m : HMap) (w : Store.World) (s : Store.Store)
    (last : Option SOp) (hr : ParserSim.Rep o m w s last) (hok : OkCif o (Store.abs s.db)) (hrect : RectCif (Store.abs s.db))
    (hnf : ParserSim.noFrames (storeTrace o pol (Store.abs s.db) units) = true) :
    ∃ sops, storeOpsFrom o m (storeTrace o pol (Store.abs s.db) units) = some sops ∧
      Store.inContractHist w sops = true ∧ (Store.run w sops).2.all (fun r => r.rc == some 0) = true ∧
      Store.WOk (Store.run w sops).1 ∧
      ∃ s', (Store.run w sops).1.cifs = [some s'] ∧ Store.abs s'.db = (parse o pol (Store.abs s.db) units).cif := by
  rw [← Store.absS_tree] at hok hrect hnf ⊢
  exact ParserSim.parse_store_sim_from o pol units m w s last hr ⟨hok, hrect⟩ hnf

/-- **C03_parse_is_store_history_partial** — the calls of a (covered) parse are an IN-CONTRACT history of the store API from the empty
    world; hence the documented model with identities (`specRun`, Spec/StoreSpec) predicts every result and the final state
    (`C04_refines_from_start` applies). -/
theorem C03_parse_is_store_history_partial (o : Opts) (pol : Policy) (units : Str) (ops : List Store.Op)
    (hnf : ParserSim.noFrames (storeTrace o pol [] units) = true)
    (hso : storeOps o (storeTrace o pol [] units) = some ops) :
    Store.inContractHist {} ops = true ∧
      Store.specRun {} ops = some (Store.absW (Store.run {} ops).1, (Store.run {} ops).2) := by
  obtain ⟨hin, _⟩ := ParserSim.parse_store_sim o pol units ops hnf hso
  exact ⟨hin, C04_refines_from_start ops hin⟩

/-- **C03_store_inv_after_parse_partial** — after every (covered) parse, also an aborted one, the world of the store model satisfies
    `WOk` (store invariant `Good` / `Inv` of the CIF, autocommit, iterator table tied) — and the CIF it shows is consistent and
    rectangular (`OkCif`, `RectCif`: `C03_consistent_after_fresh` about the store's own abstraction). -/
theorem C03_store_inv_after_parse_partial (o : Opts) (pol : Policy) (units : Str) (ops : List Store.Op)
    (hnf : ParserSim.noFrames (storeTrace o pol [] units) = true)
    (hso : storeOps o (storeTrace o pol [] units) = some ops) :
    Store.WOk (Store.run {} ops).1 ∧ ∃ s, (Store.run {} ops).1.cifs = [some s] ∧ Store.Inv s.db ∧ s.autocommit = true ∧
      OkCif o (Store.abs s.db) ∧ RectCif (Store.abs s.db) := by
  obtain ⟨_, _, hwok, s, hc, hits, habs⟩ := ParserSim.parse_store_sim o pol units ops hnf hso
  have hl : (Store.run {} ops).1.liveC 0 = some s := by unfold Store.World.liveC; rw [hc]; rfl
  refine ⟨hwok, s, hc, (hwok.good.live hl).db.inv, hwok.autocommit hl (ParserSim.busy_false _ hits 0), ?_⟩
  rw [habs]
  exact C03_consistent_after_fresh o pol units

/-! ### the FULL composition: every parse, save frames included (group gX, Lemmas/ParserStoreSimF, ParserStoreRunF)

  `ParserSimF` is the development above once more for states WITH save frames: `AState.tree` by recursion over the frame table,
  `ContAt A path t` (a block, then frames, by normalised code), `tree_updG` — a change of the loops of the container with id `t`
  is `updIn … path` on the tree, because `t` occurs ONCE in the tree (a frame has one parent, `parent < child`: `below_chain`,
  `sibling_disjoint`, `root_disjoint`) —, `tree_addFrame`, `sim_mkFrame`, `rep_mkFrame`. -/

/-- **C03_parser_store_refines** — `C03_parser_store_refines_full` PROVED: for EVERY option record, callback policy and input — save
    frames at any depth, lenient creations, every recovery path, completed or aborted parses — the store calls the parse records,
    translated into a `Store.Op` history (`storeOps`) and run through `Store.step` from the empty world, all return CIF_OK, and the
    store then shows (`Store.abs`) EXACTLY the CIF the parser model returns. -/
theorem C03_parser_store_refines : C03_parser_store_refines_full := by
  intro o pol units ops hso
  obtain ⟨_, hall, _, s, hc, _, habs⟩ := ParserSimF.parse_store_sim o pol units ops hso
  refine ⟨hall, s, ?_, habs⟩
  show (Store.run {} ops).1.cifs.getD 0 none = some s
  rw [hc]; rfl

/-- **C03_storeOps_total** — the trace of EVERY parse into a new CIF HAS a translation into a store history: every recorded call finds
    the handle its container got (`C03_calls_resolve`; the state after every creation has the old containers and the new one, and a
    container has one path).  So the hypothesis `storeOps … = some ops` of the theorems here is always met:
    `C03_parser_store_refines_total`. -/
theorem C03_storeOps_total (o : Opts) (pol : Policy) (units : Str) : ∃ ops, storeOps o (storeTrace o pol [] units) = some ops :=
  ParserSimF.storeOps_total o pol units

/-- **C03_parser_store_refines_total** — no hypothesis left: for every option record, policy and input there IS the translated history,
    every call of it returns CIF_OK, and the store then shows exactly the parser model's CIF. -/
theorem C03_parser_store_refines_total (o : Opts) (pol : Policy) (units : Str) :
    ∃ ops, storeOps o (storeTrace o pol [] units) = some ops ∧ (storeRun ops).2 = true ∧
      ∃ s, (storeRun ops).1 = some s ∧ Store.abs s.db = (parse o pol [] units).cif := by
  obtain ⟨ops, hso⟩ := C03_storeOps_total o pol units
  exact ⟨ops, hso, C03_parser_store_refines o pol units ops hso⟩

/-- **C03_parse_is_store_history** — the calls of EVERY parse (into a new CIF) are an IN-CONTRACT history of the store API from the
    empty world; hence the documented model with identities predicts every result and the final state (`C04_refines_from_start`), and
    every theorem of C04 / C05 / C06 / C07 about in-contract histories applies to what the parser built. -/
theorem C03_parse_is_store_history (o : Opts) (pol : Policy) (units : Str) (ops : List Store.Op)
    (hso : storeOps o (storeTrace o pol [] units) = some ops) :
    Store.inContractHist {} ops = true ∧
      Store.specRun {} ops = some (Store.absW (Store.run {} ops).1, (Store.run {} ops).2) := by
  obtain ⟨hin, _⟩ := ParserSimF.parse_store_sim o pol units ops hso
  exact ⟨hin, C04_refines_from_start ops hin⟩

/-- **C03_store_inv_after_parse** — after EVERY parse, also an aborted one, the world of the store model satisfies `WOk` (store
    invariant `Inv` of the CIF, autocommit, iterator table tied), and the CIF it shows is consistent and rectangular. -/
theorem C03_store_inv_after_parse (o : Opts) (pol : Policy) (units : Str) (ops : List Store.Op)
    (hso : storeOps o (storeTrace o pol [] units) = some ops) :
    Store.WOk (Store.run {} ops).1 ∧ ∃ s, (Store.run {} ops).1.cifs = [some s] ∧ Store.Inv s.db ∧ s.autocommit = true ∧
      OkCif o (Store.abs s.db) ∧ RectCif (Store.abs s.db) := by
  obtain ⟨_, _, hwok, s, hc, hits, habs⟩ := ParserSimF.parse_store_sim o pol units ops hso
  have hl : (Store.run {} ops).1.liveC 0 = some s := by unfold Store.World.liveC; rw [hc]; rfl
  refine ⟨hwok, s, hc, (hwok.good.live hl).db.inv, hwok.autocommit hl (ParserSimF.busy_false _ hits 0), ?_⟩
  rw [habs]
  exact C03_consistent_after_fresh o pol units

/-- **C03_parser_store_refines_from_rep** — pre-existing targets, save frames included: from ANY world that represents a consistent,
    rectangular initial target (`ParserSimF.Rep`), a parse whose trace has a translation w.r.t. the world's handle tables: the calls are
    in contract, return CIF_OK, keep `WOk`, and the world then shows the CIF the parser model returns for that initial target. -/
theorem C03_parser_store_refines_from_rep (o : Opts) (pol : Policy) (units : Str) (m : HMap) (w : Store.World) (s : Store.Store)
    (last : Option SOp) (hr : ParserSimF.Rep o m w s last) (hok : OkCif o (Store.abs s.db)) (hrect : RectCif (Store.abs s.db))
    (sops : List Store.Op) (hso : storeOpsFrom o m (storeTrace o pol (Store.abs s.db) units) = some sops) :
    Store.inContractHist w sops = true ∧ (Store.run w sops).2.all (fun r => r.rc == some 0) = true ∧
      Store.WOk (Store.run w sops).1 ∧
      ∃ s', (Store.run w sops).1.cifs = [some s'] ∧ Store.abs s'.db = (parse o pol (Store.abs s.db) units).cif := by
  rw [← Store.absS_tree] at hok hrect hso ⊢
  exact ParserSimF.parse_store_sim_from o pol units m w s last hr ⟨hok, hrect⟩ sops hso

set_option maxRecDepth 1000000 in
/-- `C03_parser_store_refines` applies to a document with a save frame (kernel-evaluated: the trace has a translation) -/
example : ∃ ops, storeOps C03.opts2 (storeTrace C03.opts2 acceptAll [] (a!"data_a _x 1 save_f _y 2 save_ _z 5")) = some ops ∧
    (storeRun ops).2 = true ∧ ∃ s, (storeRun ops).1 = some s ∧
      Store.abs s.db = (parse C03.opts2 acceptAll [] (a!"data_a _x 1 save_f _y 2 save_ _z 5")).cif := by
  have h : (storeOps C03.opts2 (storeTrace C03.opts2 acceptAll [] (a!"data_a _x 1 save_f _y 2 save_ _z 5"))).isSome = true ∧
      ((storeTrace C03.opts2 acceptAll [] (a!"data_a _x 1 save_f _y 2 save_ _z 5")).any fun | .mkFrame .. => true | _ => false) = true := by
    decide +kernel
  obtain ⟨ops, hops⟩ := Option.isSome_iff_exists.mp h.1
  exact ⟨ops, hops, C03_parser_store_refines _ _ _ ops hops⟩

set_option maxRecDepth 1000000 in
/-- the hypotheses of the three theorems above hold of a real document — a scalar, a loop with two packets, the prune at the end of
    the block (kernel-evaluated); and of one with an INVALID block code created leniently after the report was accepted -/
example :
    ParserSim.noFrames (storeTrace C03.opts2 acceptAll [] (a!"data_a _x 1 loop_ _b 1 2")) = true ∧
    (storeOps C03.opts2 (storeTrace C03.opts2 acceptAll [] (a!"data_a _x 1 loop_ _b 1 2"))).isSome = true := by decide +kernel

example : ∃ ops, storeOps C03.opts2 (storeTrace C03.opts2 acceptAll [] (a!"data_a _x 1 loop_ _b 1 2")) = some ops ∧
    (storeRun ops).2 = true ∧ ∃ s, (storeRun ops).1 = some s ∧
      Store.abs s.db = (parse C03.opts2 acceptAll [] (a!"data_a _x 1 loop_ _b 1 2")).cif := by
  have h : ParserSim.noFrames (storeTrace C03.opts2 acceptAll [] (a!"data_a _x 1 loop_ _b 1 2")) = true ∧
      (storeOps C03.opts2 (storeTrace C03.opts2 acceptAll [] (a!"data_a _x 1 loop_ _b 1 2"))).isSome = true := by decide +kernel
  obtain ⟨ops, hops⟩ := Option.isSome_iff_exists.mp h.2
  exact ⟨ops, hops, C03_parser_store_refines_covered_partial _ _ _ ops h.1 hops⟩

set_option maxRecDepth 1000000 in
/-- `C03_parser_store_refines_from_rep_partial` is not vacuous: the world the parse of `data_a _x 1` leaves represents a NON-EMPTY
    target (one block with one scalar), so a second parse into the same CIF is covered -/
example : ∃ m w s last, ParserSim.Rep C03.opts2 m w s last ∧ Store.abs s.db = (parse C03.opts2 acceptAll [] (a!"data_a _x 1")).cif ∧
    (parse C03.opts2 acceptAll [] (a!"data_a _x 1")).cif ≠ [] := by
  have h : ParserSim.noFrames (storeTrace C03.opts2 acceptAll [] (a!"data_a _x 1")) = true ∧
      (parse C03.opts2 acceptAll [] (a!"data_a _x 1")).cif.length = 1 := by decide +kernel
  obtain ⟨sops, m, s, last, _, hr, ht⟩ := ParserSim.parse_leaves_rep C03.opts2 acceptAll (a!"data_a _x 1") h.1
  refine ⟨m, _, s, last, hr, by rw [← Store.absS_tree, ht], ?_⟩
  intro e
  rw [e] at h
  cases h.2

/-! ### instances of the FULL statement (and non-vacuity of the hypotheses above)

  The kernel checks that the hypothesis of the FULL statement is satisfiable (the trace of a document is expressible as a store
  history); the store history itself is evaluated by the interpreter (`#guard`: a TEST, not a theorem — like the 6 000 instances per
  run the model driver evaluates, field `sto=` of family `parse`): the kernel's call-by-name evaluation re-runs the whole history for
  every table it reads and does not get through a history that contains cif_container_set_value. -/

set_option maxRecDepth 1000000 in
/-- `data_a _x 1 loop_ _b 1 2`: cif_create_block, cif_container_set_value, cif_container_create_loop, two cif_loop_add_packet,
    cif_container_prune — expressible as a history of the store model -/
example :
    (storeOps C03.opts2 (storeTrace C03.opts2 acceptAll [] (a!"data_a _x 1 loop_ _b 1 2"))).isSome = true ∧
    (storeTrace C03.opts2 acceptAll [] (a!"data_a _x 1 loop_ _b 1 2")).length = 6 := by decide +kernel

#guard storeAgrees C03.opts2 (storeTrace C03.opts2 acceptAll [] (a!"data_a _x 1 loop_ _b 1 2")) (parse C03.opts2 acceptAll [] (a!"data_a _x 1 loop_ _b 1 2")).cif
-- scalar items, a loop, a save frame with its own item: 10 store calls
#guard storeAgrees C03.opts2 (storeTrace C03.opts2 acceptAll [] (a!"data_a _x 1 loop_ _b _c 1 2 3 4 save_f _y 2 save_ _z 5"))
  (parse C03.opts2 acceptAll [] (a!"data_a _x 1 loop_ _b _c 1 2 3 4 save_f _y 2 save_ _z 5")).cif
-- recovery paths: a duplicate scalar (reported, value dropped), a duplicate header name (column dropped), a partial last packet
-- (padded), a second block
#guard storeAgrees C03.opts2 (storeTrace C03.opts2 acceptAll [] (a!"data_a _x 1 _X 2 loop_ _b _B _c 1 2 3 4 data_b _x 1"))
  (parse C03.opts2 acceptAll [] (a!"data_a _x 1 _X 2 loop_ _b _B _c 1 2 3 4 data_b _x 1")).cif
#guard (storeTrace C03.opts2 acceptAll [] (a!"data_a _x 1 _X 2 loop_ _b _B _c 1 2 3 4 data_b _x 1")).length == 9
-- an aborted parse (the die handler stops at the duplicate name): the calls made so far
#guard storeAgrees C03.opts2 (storeTrace C03.opts2 dieAll [] (a!"data_a _x 1 _X 2 _y 3")) (parse C03.opts2 dieAll [] (a!"data_a _x 1 _X 2 _y 3")).cif
-- the check discriminates: the same trace against another CIF
#guard !storeAgrees C03.opts2 (storeTrace C03.opts2 acceptAll [] (a!"data_a _x 1")) (parse C03.opts2 acceptAll [] (a!"data_a _x 2")).cif

/-- `C03_store_ops_documented`, set_value, on a concrete consistent rectangular container (an existing item of a loop with two
    packets): both sides evaluate to the same container -/
example :
    let c : Container := .mk (a!"a") [] [{ category := none, names := [a!"_b", a!"_c"], packets := [[.unk, .na], [.na, .unk]] }]
    OkC C03.opts2 c ∧ RectC c := by
  refine ⟨?_, ?_⟩
  · rw [C03_consistent_container]
    refine ⟨⟨by decide, by decide, ?_⟩, by decide, by intro c hc; cases hc⟩
    intro l hl hs
    simp only [List.mem_singleton] at hl
    subst hl
    exact absurd hs (by decide)
  · rw [C03_rectangular_container]
    refine ⟨?_, by intro c hc; cases hc⟩
    intro l hl p hp
    simp only [List.mem_singleton] at hl
    subst hl
    simp only [List.mem_cons, List.mem_nil_iff, or_false] at hp
    rcases hp with rfl | rfl <;> rfl

end CifModel
