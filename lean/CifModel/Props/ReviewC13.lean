import CifModel.Props.C13Doc
/-
  Review of property C13: the REFUSAL direction of the property ("fails with CIF_DISALLOWED_VALUE if the CIF holds a list, a
  table or a string that cannot be expressed, with CIF_DISALLOWED_CHAR if … a character outside the CIF 1.1 set") is carried
  by no universally quantified theorem (the theorems say: IF it fails, the code is one of the two).  Instances, evaluated by the
  kernel on the writer model:
-/
namespace CifModel.ReviewC13
open CifModel Model.Writer

def oneItem (v : V) : WCif := [WContainer.mk (a!"b") [] [{ category := some [], header := [a!"_x"], packets := [[(a!"_x", v)]] }]]

example : writeCif 1 (oneItem (.lst [.chr true (a!"a")])) = .error Gen.ErrCodes.CIF_DISALLOWED_VALUE := by rfl
example : writeCif 1 (oneItem (.tbl [(a!"k", a!"k", .unk)])) = .error Gen.ErrCodes.CIF_DISALLOWED_VALUE := by rfl
example : writeCif 1 (oneItem (.chr true (a!"x\n;y"))) = .error Gen.ErrCodes.CIF_DISALLOWED_VALUE := by rfl
example : writeCif 1 (oneItem (.chr true [97, 233])) = .error Gen.ErrCodes.CIF_DISALLOWED_CHAR := by rfl
example : writeCif 1 [WContainer.mk [98, 233] [] []] = .error Gen.ErrCodes.CIF_DISALLOWED_CHAR := by rfl

/-- `C13_refusal_codes` applied (its hypothesis `herr` instantiated): a CIF 1.1 context, the text `x⏎;y` -/
def ctx1 : Ctx := { lastColumn := 0, separateValues := true, writeItemNames := true, depth := 1, version := 1 }
example : writeChar ctx1 (a!"x\n;y") true true = .error Gen.ErrCodes.CIF_DISALLOWED_VALUE := by rfl
example := C13_refusal_codes ctx1 (a!"x\n;y") true true Gen.ErrCodes.CIF_DISALLOWED_VALUE (by decide) (by rfl)

end CifModel.ReviewC13
