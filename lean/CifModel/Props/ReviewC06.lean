import CifModel.Props.C06
import CifModel.Props.C05
/-
  Review examples for C05 / C06 (group gB, independent review; not part of any REQUIRED list).

  What the REQUIRED theorems of C06 state one call at a time (`C06_state_machine`) is shown here on whole histories of the
  world model, return codes included — the clauses "then reports CIF_FINISHED", "refused with CIF_MISUSE when … it was just
  removed", "abort restores", "the CIF is then free for ordinary operations again" have no sequence-level theorem
  (notes/review/gB-review.md, C06 S2); these instances at least show the model behaves as the property says.
-/
namespace CifModel.ReviewC06
open Store Store.World Gen.ErrCodes

private def n (k : Str) : Name := { key := k, orig := k, valid := true }

/-- one CIF, block `b`, loop 0 = (_a,_b) with three packets, loop 1 = the scalar loop with `_s`, loop 2 = (_e) without packets -/
private def w0 : World := (run {} [.cifNew, .mkBlock 0 (some (n (a!"b"))),
  .mkLoop 0 none [n (a!"_a"), n (a!"_b")],
  .addPkt 0 [(a!"_a", .na), (a!"_b", .unk)],
  .addPkt 0 [(a!"_a", .chr false (a!"x"))],
  .addPkt 0 [(a!"_b", .chr true (a!"y"))],
  .setVal 0 (some (n (a!"_s"))) (some .na),
  .itemLoop 0 (some (n (a!"_s"))),
  .mkLoop 0 (some (a!"e")) [n (a!"_e")]]).1

private def rcs (rs : List Result) : List (Option Code) := rs.map (·.rc)
private def pk (r : Result) : List (Str × V) := match r.out with | .packet p => p | _ => []

-- the whole life cycle with codes: misuse before the first packet, misuse after remove, finished at the end and after it
-- (an update after CIF_FINISHED still addresses the packet delivered last: CIF_OK)
example : rcs (run w0 [.itOpen 0, .itUpd 0 [(a!"_a", .na)], .itRem 0, .itNext 0, .itUpd 0 [(a!"_b", .na)], .itRem 0, .itRem 0,
      .itUpd 0 [(a!"_b", .na)], .itNext 0, .itNext 0, .itNext 0, .itNext 0, .itUpd 0 [(a!"_a", .na)], .itClose 0]).2
    = [some CIF_OK, some CIF_MISUSE, some CIF_MISUSE, some CIF_OK, some CIF_OK, some CIF_OK, some CIF_MISUSE,
       some CIF_MISUSE, some CIF_OK, some CIF_OK, some CIF_FINISHED, some CIF_FINISHED, some CIF_OK, some CIF_OK] := by
  decide +kernel

-- every delivered packet carries both items, the stored value where one was stored, unknown otherwise
example : ((run w0 [.itOpen 0, .itNext 0, .itNext 0, .itNext 0]).2.drop 1).map (fun r => (pk r) == [(a!"_a", .na), (a!"_b", .unk)])
    = [true, false, false] := by decide +kernel
example : ((pk ((run w0 [.itOpen 0, .itNext 0, .itNext 0]).2.getD 2 default)) == [(a!"_a", .chr false (a!"x")), (a!"_b", .unk)]) = true := by
  decide +kernel
example : ((pk ((run w0 [.itOpen 0, .itNext 0, .itNext 0, .itNext 0]).2.getD 3 default)) == [(a!"_a", .unk), (a!"_b", .chr true (a!"y"))]) = true := by
  decide +kernel

-- WRONG_LOOP for an item of another loop, and the update changes only the items given
example : rcs (run w0 [.itOpen 0, .itNext 0, .itUpd 0 [(a!"_s", .unk)], .itUpd 0 [(a!"_b", .na)], .itClose 0, .itOpen 0, .itNext 1]).2
    = [some CIF_OK, some CIF_OK, some CIF_WRONG_LOOP, some CIF_OK, some CIF_OK, some CIF_OK, some CIF_OK] := by decide +kernel
example : ((pk ((run w0 [.itOpen 0, .itNext 0, .itUpd 0 [(a!"_b", .na)], .itClose 0, .itOpen 0, .itNext 1]).2.getD 5 default)) == [(a!"_a", .na), (a!"_b", .na)]) = true := by decide +kernel

-- remove + close is permanent (two packets left), remove + abort is not (three packets again); afterwards ordinary calls work
example : rcs (run w0 [.itOpen 0, .itNext 0, .itRem 0, .itClose 0, .itOpen 0, .itNext 1, .itNext 1, .itNext 1, .itClose 1,
      .addPkt 0 [(a!"_a", .na)]]).2
    = [some CIF_OK, some CIF_OK, some CIF_OK, some CIF_OK, some CIF_OK, some CIF_OK, some CIF_OK, some CIF_FINISHED, some CIF_OK, some CIF_OK] := by
  decide +kernel
example : rcs (run w0 [.itOpen 0, .itNext 0, .itRem 0, .itNext 0, .itUpd 0 [(a!"_a", .na)], .itAbort 0, .itOpen 0, .itNext 1, .itNext 1,
      .itNext 1, .itNext 1, .itClose 1, .addPkt 0 [(a!"_a", .na)]]).2
    = [some CIF_OK, some CIF_OK, some CIF_OK, some CIF_OK, some CIF_OK, some CIF_OK, some CIF_OK, some CIF_OK, some CIF_OK, some CIF_OK,
       some CIF_FINISHED, some CIF_OK, some CIF_OK] := by decide +kernel
example : ((pk ((run w0 [.itOpen 0, .itNext 0, .itRem 0, .itAbort 0, .itOpen 0, .itNext 1]).2.getD 5 default)) == [(a!"_a", .na), (a!"_b", .unk)]) = true := by decide +kernel

-- the scalar loop (one packet) and the loop without packets
example : rcs (run w0 [.itOpen 1, .itNext 0, .itNext 0, .itClose 0, .itOpen 2]).2
    = [some CIF_OK, some CIF_OK, some CIF_FINISHED, some CIF_OK, some CIF_EMPTY_LOOP] := by decide +kernel
-- a loop that no longer exists (destroyed through a second handle on it)
example : rcs (run w0 [.catLoop 0 (some (a!"e")), .ldestroy 3, .itOpen 2]).2 = [some CIF_OK, some CIF_OK, some CIF_INVALID_HANDLE] := by
  decide +kernel

/- C05: the failing kinds the property lists, with the offending element first / in the middle / last, outside and inside an
   iterator's transaction; every time the number of stored rows of every table is what it was. -/
private def sizes (w : World) : List (Option (Nat × Nat × Nat × Nat)) :=
  w.cifs.map (·.map (fun s => (s.db.loops.length, s.db.items.length, s.db.values.length, s.db.blocks.length)))

private def failing : List (Op × Code) := [
  (.mkLoop 0 none [n (a!"_a"), n (a!"_x"), n (a!"_y")], CIF_DUP_ITEMNAME),
  (.mkLoop 0 none [n (a!"_x"), n (a!"_a"), n (a!"_y")], CIF_DUP_ITEMNAME),
  (.mkLoop 0 none [n (a!"_x"), n (a!"_y"), n (a!"_a")], CIF_DUP_ITEMNAME),
  (.addPkt 0 [(a!"_s", .na), (a!"_a", .na), (a!"_b", .na)], CIF_WRONG_LOOP),
  (.addPkt 0 [(a!"_a", .na), (a!"_s", .na), (a!"_b", .na)], CIF_WRONG_LOOP),
  (.addPkt 0 [(a!"_a", .na), (a!"_b", .na), (a!"_s", .na)], CIF_WRONG_LOOP),
  (.addPkt 1 [(a!"_s", .unk)], CIF_RESERVED_LOOP),
  (.addPkt 0 [], CIF_INVALID_PACKET),
  (.setCat 0 (some []), CIF_RESERVED_LOOP),
  (.mkBlock 0 (some (n (a!"b"))), CIF_DUP_BLOCKCODE)]

example : failing.all (fun (op, c) => (step w0 op).2.rc == some c && sizes (step w0 op).1 == sizes w0) = true := by decide +kernel
example : (failing.take 9).all (fun (op, c) =>
    let w1 := (run w0 [.itOpen 0, .itNext 0]).1
    (step w1 op).2.rc == some c && sizes (step w1 op).1 == sizes w1) = true := by decide +kernel

/- C05 S1 of the review, made concrete: a FAILED call changes the caller's loop handle.  Loop 2 is destroyed through a second
   handle; `set_category` through the stale handle returns CIF_INVALID_HANDLE and the handle now answers the new category.
   (The C does the same: loop.c assigns loop->category before looking at sqlite3_changes.)  `C05_next_call_unaffected` does
   not contradict this — its comparison world keeps the handle tables of AFTER the failed call. -/
example : let w1 := (run w0 [.catLoop 0 (some (a!"e")), .ldestroy 3]).1
    (step w1 (.setCat 2 (some (a!"z")))).2.rc = some CIF_INVALID_HANDLE
    ∧ (match (step w1 (.getCat 2)).2.out with | .str c => c == some (a!"e") | _ => false) = true
    ∧ (match (step (step w1 (.setCat 2 (some (a!"z")))).1 (.getCat 2)).2.out with | .str c => c == some (a!"z") | _ => false) = true := by
  decide +kernel

end CifModel.ReviewC06
