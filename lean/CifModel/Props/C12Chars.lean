import CifModel.Lemmas.DefectChars
import CifModel.Props.C12
import CifModel.Props.C12Lex
/-
  Props/C12Chars (group gC) — property C12 at CHARACTER level: corollaries of the token-level class theorems (Props/C12, group gJ;
  Props/C12Lex, group gH), obtained with the lexical glue of Lemmas/LexGlue (group gE) and Lemmas/DefectChars.

  Setting of every theorem: the text is `renderChunks cs` for ANY accepted chunk list `cs` (`okC`: every token in any admissible
  presentation, any whitespace and comments between the tokens, Lemmas/LexGlue) whose lines fit (`linesFit`, ≤ 2048 characters),
  whose first character is acceptable and is not a byte-order mark, and whose TOKENS are: well-formed data blocks `preB`, the
  header of the block with the defect, a well-formed run, the defective construct, a well-formed run, well-formed blocks `postB`.

  Conclusion: `parse o acceptAll [] text` returns CIF_OK with EXACTLY ONE report, whose code is that of the class, and the content
  is exactly that of the REPAIRED document.

  The class theorems are used through their statements only.
-/
namespace CifModel.Props
open CifModel CifModel.Model CifModel.Model.Lexer CifModel.Model.Parser CifModel.Spec.Lexical CifModel.Spec.Grammar
open CifModel.Gen.ErrCodes CifModel.Lemmas.LexGlue CifModel.Lemmas.DefectChars

/-- a block whose body consists of items and loops only -/
def plainBlock (code : Str) (its : List Item) : Block := { code := code, body := its.map .plain }

theorem denoteElems_plain (dia : Dialect) (nk : Str → Str) : ∀ (its : List Item) (fs : List Container) (ls : List Loop),
    denoteElems dia nk (its.map .plain) fs ls = (fs, denoteItems dia nk its ls)
  | [], _, _ => rfl
  | i :: r, fs, ls => by
    simp only [List.map_cons, denoteElems]
    rw [denoteElems_plain dia nk r fs]
    exact congrArg _ (denoteItems_append dia nk [i] r ls).symm

theorem denote_plain (dia : Dialect) (nk : Str → Str) (preB postB : List Block) (code : Str) (its : List Item) :
    denote dia nk (preB ++ [plainBlock code its] ++ postB)
      = denote dia nk preB ++ .mk code [] (denoteItems dia nk its []) :: denote dia nk postB := by
  simp [denote, denoteBlock, plainBlock, denoteElems_plain]

/-- **C12_chars_missing_value** — in the items of a data block, a data name that is not followed by a value.  One report,
    CIF_MISSING_VALUE; the content is that of the document in which the name has the unknown value `?`. -/
theorem C12_chars_missing_value (o : Opts) (hstore : o.store = true) (hmfd : o.maxFrameDepth ≠ 0) (hutf : o.notUtf8 = false)
    (cs : List Chunk) (c : CU) (rest : Str) (preB postB : List Block) (bc : Str) (pre post : List Item) (n : Str)
    (seen2 bseen2 : List Str)
    (hok : okC o.dia .end_ [] cs) (hfit : linesFit 0 (renderChunks cs) = true)
    (hc : renderChunks cs = c :: rest) (hfirst : disallowedInitial c = false) (hbom : (c == 0xFEFF) = false)
    (ht : toks cs = blocksToks preB ++ ((.blockHead, bc) :: ((itemsToks pre ++ ((.name, n) :: itemsToks post)) ++ blocksToks postB)))
    (hpreB : wfBlocks o preB [] = true) (hcode : wfCode bc = true) (hnew : ∀ b ∈ preB, o.norm b.code ≠ o.norm bc)
    (hpostB : wfBlocks o postB bseen2 = true) (hb2 : ∀ b ∈ preB, o.norm b.code ∈ bseen2) (hb2' : o.norm bc ∈ bseen2)
    (hpre : wfItems o pre [] = true) (hname : wfName n = true)
    (hfresh : o.norm n ∉ normNames o (denoteItems o.dia o.normKey pre []))
    (hpost : wfItems o post seen2 = true)
    (hseen2 : ∀ k ∈ normNames o (denoteItems o.dia o.normKey (pre ++ [.item n .unk]) []), k ∈ seen2) :
    ∃ r, parse o acceptAll [] (renderChunks cs)
        = { rc := 0, log := [r],
            cif := denote o.dia o.normKey (preB ++ [plainBlock bc (pre ++ [.item n .unk] ++ post)] ++ postB) }
      ∧ r.code = CIF_MISSING_VALUE := by
  have hpk : allPacked (denoteItems o.dia o.normKey (pre ++ [.item n .unk] ++ post) []) := by
    rw [denoteItems_append, denoteItems_append]
    refine allPacked_denoteItems o post seen2 _ hpost ?_
    simp only [denoteItems]
    exact allPacked_putScalar _ _ _ (allPacked_denoteItems o pre [] [] hpre (by intro l hl; cases hl))
  have hsz1 := (Lemmas.WriterChunks.szItems_toks pre)
  have hsz2 := (Lemmas.WriterChunks.szItems_toks post)
  obtain ⟨r, h, hr⟩ := block_defect_chars o hstore hmfd hutf cs c rest preB postB bc
    (itemsToks pre ++ ((.name, n) :: itemsToks post)) [] (denoteItems o.dia o.normKey (pre ++ [.item n .unk] ++ post) [])
    CIF_MISSING_VALUE (post.length + 1 + pre.length) (szItems pre + szItems post + 1) bseen2 hok hfit hc hfirst hbom ht hpreB hcode hnew
    hpostB hb2 hb2'
    (by simp only [List.length_append, List.length_cons]; omega)
    (by
      intro rest1 s1 w1 f hw1 hf hfol hF1
      have hv := View.block o (denote o.dia o.normKey preB) bc (by
        intro x hx
        obtain ⟨b, hb, hcb⟩ := denote_code hx
        simp only [codeIs, hcb, beq_eq_false_iff_ne, ne_eq]
        exact hnew b hb)
      have := C12_missing_value o hv pre post n [] seen2 rest1 s1 f w1 [] [] true hw1 hpre (by intro k hk; simp [normNames] at hk)
        hname hfresh hpost hseen2 hf (Or.inr (blockFollow_term hfol)) (fun _ => blockFollow_term hfol)
        (by simpa [List.append_assoc] using hF1)
      simpa [Nat.add_assoc] using this)
  refine ⟨r, ?_, hr⟩
  rw [h, denote_plain, pruneC_packed _ _ _ hpk]

end CifModel.Props
