import CifModel.Lemmas.DefectChars
import CifModel.Props.C12
import CifModel.Props.C12Lex
/-
  Props/C12Chars (group gC) — property C12 at CHARACTER level: corollaries of the token-level class theorems (Props/C12, group gJ;
  Props/C12Lex, group gH), obtained with the lexical glue of Lemmas/LexGlue (group gE) and Lemmas/DefectChars.

  Setting of every theorem (`ItemHost` / `ElemHost` / `BlockHost`): the text is `renderChunks cs` for ANY accepted chunk list `cs`
  (`okC`: every token in any admissible presentation, any whitespace and comments between the tokens — Lemmas/LexGlue) whose lines
  fit (`linesFit`: ≤ 2048 characters), whose first character is acceptable and not a byte-order mark, and whose TOKENS are:
  well-formed data blocks `preB`, the header of the block with the defect, a well-formed run `pre`, the tokens `D` of the defective
  construct, a well-formed run `post`, well-formed data blocks `postB`.

  Conclusion (`OneReport`): `parse o acceptAll [] text` returns CIF_OK having made EXACTLY ONE report, whose code is that of the class,
  and the content is exactly what the REPAIRED document denotes.  No premise on the fuel: `fuelFor` covers every such text.

  The class theorems are used through their statements only (the wrappers `block_defect_chars`, `items_class` take the statement of
  the class theorem as a hypothesis).

  The LINE of the report (`OneReportAt … j`), for the classes whose token-level theorem exposes the position of the report
  (`RepAt`, Lemmas/ParserDefect — the `_at` forms): the report is made `j` tokens into the text, so its line is `endLine cs j` — the
  line on which the `j`-th token of the text ends, `(posAfter 1 0 (characters up to and including that token)).1` — or
  `endLine cs (j+1)`, the line on which the next token ends (the end of the text if there is none): `repAt_line` of
  Lemmas/DefectChars, from `Reach.det` and the walk over accepted chunks (`reach_chunks`, `reach_end`).  (`RepAt` does not say
  whether the next token had already been scanned when the report was made, hence the two lines; they coincide when both tokens
  end on the same line.)  All 24 classes conclude `OneReportAt` (dup frame code: the same clause, written out).
-/
namespace CifModel.Props
open CifModel CifModel.Model CifModel.Model.Lexer CifModel.Model.Parser CifModel.Spec.Lexical CifModel.Spec.Grammar
open CifModel.Gen.ErrCodes CifModel.Lemmas.LexGlue CifModel.Lemmas.DefectChars

/-! ### the setting -/

/-- the text: an accepted chunk list whose lines fit and whose first character cif_parse accepts silently -/
structure TextOk (o : Opts) (cs : List Chunk) : Prop where
  store : o.store = true
  utf : o.notUtf8 = false
  ok : okC o.dia .end_ [] cs
  fit : linesFit 0 (renderChunks cs) = true
  first : ∃ c rest, renderChunks cs = c :: rest ∧ disallowedInitial c = false ∧ (c == 0xFEFF) = false

/-- the blocks around the block with the defect: well-formed, codes pairwise different (normalised) and different from `bc` -/
structure BlocksOk (o : Opts) (preB postB : List Block) (bc : Str) : Prop where
  mfd : o.maxFrameDepth ≠ 0
  wfPreB : wfBlocks o preB [] = true
  wfBc : wfCode bc = true
  fresh : ∀ b ∈ preB, o.norm b.code ≠ o.norm bc
  wfPostB : wfBlocks o postB (o.norm bc :: preB.map (fun b => o.norm b.code)) = true

/-- a defect among the items of a data block: `D` = the tokens of the defective construct -/
structure ItemHost (o : Opts) (cs : List Chunk) (preB postB : List Block) (bc : Str) (pre post : List Item) (D : List TokSpec) : Prop
    extends TextOk o cs, BlocksOk o preB postB bc where
  hToks : toks cs = blocksToks preB ++ ((.blockHead, bc) :: ((itemsToks pre ++ (D ++ itemsToks post)) ++ blocksToks postB))
  wfRun : wfItems o pre [] = true

/-- the outcome: CIF_OK, exactly one report, its code, the content of the repaired document -/
def OneReport (o : Opts) (cs : List Chunk) (C : Code) (repaired : Doc) : Prop :=
  ∃ r, parse o acceptAll [] (renderChunks cs) = { rc := 0, log := [r], cif := denote o.dia o.normKey repaired } ∧ r.code = C

/-- … and WHERE: the report is made `j` tokens into the text — its line is the line on which the `j`-th token of the text ends
    (`endLine cs j` = `(posAfter 1 0 (characters up to and including that token)).1`, Lemmas/DefectChars) or the line on which the
    next token ends (the end of the text if there is none) -/
def OneReportAt (o : Opts) (cs : List Chunk) (C : Code) (repaired : Doc) (j : Nat) : Prop :=
  ∃ r, parse o acceptAll [] (renderChunks cs) = { rc := 0, log := [r], cif := denote o.dia o.normKey repaired } ∧ r.code = C
    ∧ (r.line = endLine cs j ∨ r.line = endLine cs (j + 1))

theorem OneReportAt.one {o : Opts} {cs : List Chunk} {C : Code} {d : Doc} {j : Nat} (h : OneReportAt o cs C d j) : OneReport o cs C d := by
  obtain ⟨r, h1, h2, _⟩ := h
  exact ⟨r, h1, h2⟩

/-- a block whose body consists of items and loops only -/
def plainBlock (code : Str) (its : List Item) : Block := { code := code, body := its.map .plain }

/-! ### auxiliary -/

theorem denoteElems_map_plain (dia : Dialect) (nk : Str → Str) : ∀ (its : List Item) (fs : List Container) (ls : List Loop),
    denoteElems dia nk (its.map .plain) fs ls = (fs, denoteItems dia nk its ls)
  | [], _, _ => by simp [denoteElems, denoteItems]
  | i :: r, fs, ls => by
    rw [List.map_cons, Spec.Grammar.denoteElems_plain, denoteElems_map_plain dia nk r fs]
    exact congrArg _ (denoteItems_append dia nk [i] r ls).symm

theorem denote_plain (dia : Dialect) (nk : Str → Str) (preB postB : List Block) (code : Str) (its : List Item) :
    denote dia nk (preB ++ [plainBlock code its] ++ postB)
      = denote dia nk preB ++ .mk code [] (denoteItems dia nk its []) :: denote dia nk postB := by
  simp [denote, denoteBlock, plainBlock, denoteElems_map_plain]

/-- what the runs around a repaired construct `rep` leave has no empty loop -/
theorem allPacked_run (o : Opts) (pre post rep : List Item) (seen2 : List Str) (hpre : wfItems o pre [] = true)
    (hpost : wfItems o post seen2 = true)
    (hrep : ∀ ls, allPacked ls → allPacked (denoteItems o.dia o.normKey rep ls)) :
    allPacked (denoteItems o.dia o.normKey (pre ++ rep ++ post) []) := by
  rw [denoteItems_append, denoteItems_append]
  exact allPacked_denoteItems o post seen2 _ hpost (hrep _ (allPacked_denoteItems o pre [] [] hpre (by intro l hl; cases hl)))

theorem allPacked_item (o : Opts) (n : Str) (v : Val) (ls : List Loop) (h : allPacked ls) :
    allPacked (denoteItems o.dia o.normKey [.item n v] ls) := by
  simp only [denoteItems]; exact allPacked_putScalar _ _ _ h

theorem allPacked_loop (o : Opts) (ns : List Str) (ps : List (List Val)) (hps : ps ≠ []) (ls : List Loop) (h : allPacked ls) :
    allPacked (denoteItems o.dia o.normKey [.loop ns ps] ls) := by
  simp only [denoteItems]
  intro l hl
  rcases List.mem_append.mp hl with hl | hl
  · exact h l hl
  · simp only [List.mem_singleton] at hl
    subst hl
    cases ps with
    | nil => exact absurd rfl hps
    | cons p r => rfl

theorem szEntries_len : ∀ (es : List (Str × Presentation × Val)), 2 * es.length ≤ szEntries es
  | [] => Nat.le_refl _
  | (_, _, v) :: es => by
    have := szEntries_len es
    have := szVal_pos v
    simp only [szEntries, List.length_cons]
    omega

/-! ### the common frame of the item-level classes -/

/-- `hstep` is the statement of the class theorem for the view of the block (`K`: what it asks of the fuel for `D`); `ls'`: the loops
    the class theorem leaves in the block.  The container is pruned of empty loops when it ends (`pruneC`). -/
theorem items_class {o : Opts} {cs : List Chunk} {preB postB : List Block} {bc : Str} {pre post : List Item} {D : List TokSpec}
    (H : ItemHost o cs preB postB bc pre post D) (ls' : List Loop) (C : Code) (K : Nat) (Q : PS → Report → Prop)
    (hK : K ≤ 2 * D.length + 18)
    (hstep : View o [o.norm bc] (fun x => denote o.dia o.normKey preB ++ [x]) bc →
        ∀ (rest : List TokSpec) (s1 : PS) (w1 : W) (f : Nat), w1.cif = denote o.dia o.normKey preB ++ [.mk bc [] []] →
        szItems pre + szItems post + K + 1 ≤ f → blockFollow rest →
        Feeds o s1 (itemsToks pre ++ (D ++ (itemsToks post ++ rest))) →
        ∃ s2 r, elemsLoop o (f + post.length + 1 + pre.length) s1 (some [o.norm bc]) true acceptAll w1
            = elemsLoop o f s2 (some [o.norm bc]) true acceptAll
                { log := r :: w1.log, cif := denote o.dia o.normKey preB ++ [.mk bc [] ls'] }
          ∧ r.code = C ∧ Feeds o s2 rest ∧ Q s1 r) :
    ∃ r, parse o acceptAll [] (renderChunks cs)
        = { rc := 0, log := [r],
            cif := denote o.dia o.normKey preB ++ pruneC (.mk bc [] ls') :: denote o.dia o.normKey postB }
      ∧ r.code = C
      ∧ ∃ s1, At o { scan := Scan.init (renderChunks cs), tok := none } ((blocksToks preB).length + 1) s1 ∧ Q s1 r := by
  obtain ⟨c, rest, hc, hfirst, hbom⟩ := H.first
  have hsz1 := (Lemmas.WriterChunks.szItems_toks pre)
  have hsz2 := (Lemmas.WriterChunks.szItems_toks post)
  have hv := View.block o (denote o.dia o.normKey preB) bc (by
    intro x hx
    obtain ⟨b, hb, hcb⟩ := denote_code hx
    simp only [codeIs, hcb, beq_eq_false_iff_ne, ne_eq]
    exact H.fresh b hb)
  refine block_defect_chars o H.store H.mfd H.utf cs c rest preB postB bc (itemsToks pre ++ (D ++ itemsToks post)) [] ls' C
    (post.length + 1 + pre.length) (szItems pre + szItems post + K + 1) _ Q H.ok H.fit hc hfirst hbom H.hToks H.wfPreB H.wfBc H.fresh
    H.wfPostB (fun b hb => List.mem_cons_of_mem _ (List.mem_map.mpr ⟨b, hb, rfl⟩)) List.mem_cons_self
    (by simp only [List.length_append]; omega) ?_
  intro s1 w1 f hw1 hf hF1
  have := hstep hv _ s1 w1 f hw1 hf (blocks_rest_head postB) (by simpa [List.append_assoc] using hF1)
  simpa [Nat.add_assoc] using this

/-- … when the class theorem leaves what the items `its` denote and no loop is empty: the repaired document has `its` as the body -/
theorem items_class_doc {o : Opts} {cs : List Chunk} {preB postB : List Block} {bc : Str} {pre post : List Item} {D : List TokSpec}
    (H : ItemHost o cs preB postB bc pre post D) (its : List Item) (C : Code) (K : Nat) (hK : K ≤ 2 * D.length + 18)
    (hpk : allPacked (denoteItems o.dia o.normKey its []))
    (hstep : View o [o.norm bc] (fun x => denote o.dia o.normKey preB ++ [x]) bc →
        ∀ (rest : List TokSpec) (s1 : PS) (w1 : W) (f : Nat), w1.cif = denote o.dia o.normKey preB ++ [.mk bc [] []] →
        szItems pre + szItems post + K + 1 ≤ f → blockFollow rest →
        Feeds o s1 (itemsToks pre ++ (D ++ (itemsToks post ++ rest))) →
        ∃ s2 r, elemsLoop o (f + post.length + 1 + pre.length) s1 (some [o.norm bc]) true acceptAll w1
            = elemsLoop o f s2 (some [o.norm bc]) true acceptAll
                { log := r :: w1.log, cif := denote o.dia o.normKey preB ++ [.mk bc [] (denoteItems o.dia o.normKey its [])] }
          ∧ r.code = C ∧ Feeds o s2 rest) :
    OneReport o cs C (preB ++ [plainBlock bc its] ++ postB) := by
  obtain ⟨r, h, hr, _⟩ := items_class H _ C K (fun _ _ => True) hK (fun hv rest s1 w1 f a b c d => by
    obtain ⟨s2, r, h1, h2, h3⟩ := hstep hv rest s1 w1 f a b c d
    exact ⟨s2, r, h1, h2, h3, trivial⟩)
  exact ⟨r, by rw [h, denote_plain, pruneC_packed _ _ _ hpk], hr⟩

/-- the line of the report from its position in the block: `j` tokens behind the block header -/
theorem line_of_block {o : Opts} {cs : List Chunk} (H : TextOk o cs) {n j : Nat} {r : Report} (hj : n + j ≤ (toks cs).length)
    (h : ∃ s1, At o { scan := Scan.init (renderChunks cs), tok := none } n s1 ∧ RepAt o s1 j r) :
    r.line = endLine cs (n + j) ∨ r.line = endLine cs (n + j + 1) := by
  obtain ⟨s1, hat, hrep⟩ := h
  exact repAt_line o cs H.ok H.fit hj (RepAt.shift hat hrep)

/-- … with the position of the report: `hstep` is the `_at` form of the class theorem, `j` its token count from the first token
    of the run `pre` -/
theorem items_class_doc_at {o : Opts} {cs : List Chunk} {preB postB : List Block} {bc : Str} {pre post : List Item} {D : List TokSpec}
    (H : ItemHost o cs preB postB bc pre post D) (its : List Item) (C : Code) (K j : Nat) (hK : K ≤ 2 * D.length + 18)
    (hj : j ≤ (itemsToks pre).length + D.length)
    (hpk : allPacked (denoteItems o.dia o.normKey its []))
    (hstep : View o [o.norm bc] (fun x => denote o.dia o.normKey preB ++ [x]) bc →
        ∀ (rest : List TokSpec) (s1 : PS) (w1 : W) (f : Nat), w1.cif = denote o.dia o.normKey preB ++ [.mk bc [] []] →
        szItems pre + szItems post + K + 1 ≤ f → blockFollow rest →
        Feeds o s1 (itemsToks pre ++ (D ++ (itemsToks post ++ rest))) →
        ∃ s2 r, elemsLoop o (f + post.length + 1 + pre.length) s1 (some [o.norm bc]) true acceptAll w1
            = elemsLoop o f s2 (some [o.norm bc]) true acceptAll
                { log := r :: w1.log, cif := denote o.dia o.normKey preB ++ [.mk bc [] (denoteItems o.dia o.normKey its [])] }
          ∧ r.code = C ∧ Feeds o s2 rest ∧ RepAt o s1 j r) :
    OneReportAt o cs C (preB ++ [plainBlock bc its] ++ postB) ((blocksToks preB).length + 1 + j) := by
  obtain ⟨r, h, hr, hat⟩ := items_class H _ C K (fun s1 r => RepAt o s1 j r) hK hstep
  refine ⟨r, by rw [h, denote_plain, pruneC_packed _ _ _ hpk], hr, ?_⟩
  refine line_of_block H.toTextOk ?_ hat
  rw [H.hToks]
  simp only [List.length_append, List.length_cons]
  omega

theorem nil_seen (o : Opts) : ∀ k ∈ normNames o [], k ∈ ([] : List Str) := by
  intro k hk; simp [normNames] at hk

/-! ### the classes of Props/C12 (group gJ) -/

/-- **C12_chars_missing_value** — in the items of a data block, a data name that is not followed by a value.  One report,
    CIF_MISSING_VALUE; the content is that of the document in which the name has the unknown value `?`. -/
theorem C12_chars_missing_value (o : Opts) (cs : List Chunk) (preB postB : List Block) (bc : Str) (pre post : List Item) (n : Str)
    (seen2 : List Str) (H : ItemHost o cs preB postB bc pre post [(.name, n)])
    (hname : wfName n = true) (hfresh : o.norm n ∉ normNames o (denoteItems o.dia o.normKey pre []))
    (hpost : wfItems o post seen2 = true)
    (hseen2 : ∀ k ∈ normNames o (denoteItems o.dia o.normKey (pre ++ [.item n .unk]) []), k ∈ seen2) :
    OneReportAt o cs CIF_MISSING_VALUE
      (preB ++ [plainBlock bc (pre ++ [.item n .unk] ++ post)] ++ postB)
      ((blocksToks preB).length + 1 + ((itemsToks pre).length + 1)) := by
  refine items_class_doc_at H _ CIF_MISSING_VALUE 0 _ (by simp) (by simp)
    (allPacked_run o pre post _ seen2 H.wfRun hpost (allPacked_item o n .unk)) ?_
  intro hv rest1 s1 w1 f hw1 hf hfol hF1
  have hterm := blockFollow_term hfol
  obtain ⟨s2, r, h1, h2, h3, h4, _⟩ := C12_missing_value_at o hv pre post n [] seen2 rest1 s1 f w1 [] [] true hw1 H.wfRun (nil_seen o)
    hname hfresh hpost hseen2 (by omega) (Or.inr hterm) (fun _ => hterm) (by simpa using hF1)
  exact ⟨s2, r, h1, h2, h3, h4⟩

/-- **C12_chars_unexpected_value** — a value (of any kind and depth) where an item is expected, not directly behind a loop.  One
    report, CIF_UNEXPECTED_VALUE; the content is that of the document without the value. -/
theorem C12_chars_unexpected_value (o : Opts) (cs : List Chunk) (preB postB : List Block) (bc : Str) (pre post : List Item) (v : Val)
    (seen2 : List Str) (H : ItemHost o cs preB postB bc pre post (valToks v))
    (hnoloop : lastIsLoop pre = false) (hwv : wfVal o v = true) (hpost : wfItems o post seen2 = true)
    (hseen2 : ∀ k ∈ normNames o (denoteItems o.dia o.normKey pre []), k ∈ seen2) :
    OneReportAt o cs CIF_UNEXPECTED_VALUE
      (preB ++ [plainBlock bc (pre ++ post)] ++ postB)
      ((blocksToks preB).length + 1 + ((itemsToks pre).length + 0)) := by
  have hv1 := szVal_pos v
  refine items_class_doc_at H _ CIF_UNEXPECTED_VALUE (szVal v) _ (by rw [Lemmas.WriterChunks.szVal_toks]; omega) (by omega)
    (by simpa using allPacked_run o pre post [] seen2 H.wfRun hpost (fun _ h => h)) ?_
  intro hv rest1 s1 w1 f hw1 hf hfol hF1
  have hterm := blockFollow_term hfol
  obtain ⟨s2, r, h1, h2, h3, h4, _⟩ := C12_unexpected_value_at o hv pre post v [] seen2 rest1 s1 f w1 [] [] true hw1 H.wfRun (nil_seen o)
    hnoloop hwv hpost hseen2 (by omega) (fun _ => hterm) hF1
  exact ⟨s2, r, h1, h2, h3, h4⟩

/-- **C12_chars_dup_itemname** — a data name whose normalised form is already defined in the block (as a scalar or in a loop, in any
    spelling), with its value.  One report, CIF_DUP_ITEMNAME; the content is that of the document without the second item. -/
theorem C12_chars_dup_itemname (o : Opts) (cs : List Chunk) (preB postB : List Block) (bc : Str) (pre post : List Item) (n : Str)
    (v : Val) (seen2 : List Str) (H : ItemHost o cs preB postB bc pre post ((.name, n) :: valToks v))
    (hname : wfName n = true) (hdup : o.norm n ∈ normNames o (denoteItems o.dia o.normKey pre []))
    (hwv : wfVal o v = true) (hpost : wfItems o post seen2 = true)
    (hseen2 : ∀ k ∈ normNames o (denoteItems o.dia o.normKey pre []), k ∈ seen2) :
    OneReportAt o cs CIF_DUP_ITEMNAME
      (preB ++ [plainBlock bc (pre ++ post)] ++ postB)
      ((blocksToks preB).length + 1 + ((itemsToks pre).length + 1)) := by
  refine items_class_doc_at H _ CIF_DUP_ITEMNAME (szVal v) _
    (by rw [Lemmas.WriterChunks.szVal_toks]; simp only [List.length_cons]; omega) (by simp only [List.length_cons]; omega)
    (by simpa using allPacked_run o pre post [] seen2 H.wfRun hpost (fun _ h => h)) ?_
  intro hv rest1 s1 w1 f hw1 hf hfol hF1
  have hterm := blockFollow_term hfol
  obtain ⟨s2, r, h1, h2, h3, h4, _⟩ := C12_dup_itemname_at o hv pre post n v [] seen2 rest1 s1 f w1 [] [] true hw1 H.wfRun (nil_seen o)
    hname hdup hwv hpost hseen2 (by omega) (fun _ => hterm) hF1
  exact ⟨s2, r, h1, h2, h3, h4⟩

theorem denoteVals_eq_map (dia : Dialect) (nk : Str → Str) : ∀ (vs : List Val), denoteVals dia nk vs = vs.map (denoteVal dia nk)
  | [] => rfl
  | v :: vs => by simp [denoteVals, denoteVals_eq_map dia nk vs]

theorem denoteVals_eraseIdx (dia : Dialect) (nk : Str → Str) : ∀ (vs : List Val) (i : Nat),
    (denoteVals dia nk vs).eraseIdx i = denoteVals dia nk (vs.eraseIdx i)
  | [], _ => rfl
  | _ :: _, 0 => rfl
  | v :: vs, i + 1 => by simp [denoteVals, denoteVals_eraseIdx dia nk vs i]

theorem denoteVals_append (dia : Dialect) (nk : Str → Str) (a b : List Val) :
    denoteVals dia nk (a ++ b) = denoteVals dia nk a ++ denoteVals dia nk b := by
  simp [denoteVals_eq_map]

/-- **C12_chars_partial_packet** — a loop (valid, new, pairwise different names) with complete packets `ps` and a short last packet
    `pv` (at least one value, fewer than names).  One report, CIF_PARTIAL_PACKET; the content is that of the document in which the
    last packet is filled up with unknown values. -/
theorem C12_chars_partial_packet (o : Opts) (cs : List Chunk) (preB postB : List Block) (bc : Str) (pre post : List Item)
    (ns : List Str) (ps : List (List Val)) (pv : List Val) (seen2 : List Str)
    (H : ItemHost o cs preB postB bc pre post
      ((.loopKw, []) :: (ns.map (fun n => (TokType.name, n)) ++ (packetsToks ps ++ valsToks pv))))
    (hwf : ∀ n ∈ ns, wfName n = true) (hfresh : ∀ n ∈ ns, o.norm n ∉ normNames o (denoteItems o.dia o.normKey pre []))
    (hnd : (ns.map o.norm).Nodup) (hlen : ∀ p ∈ ps, p.length = ns.length) (hwv : ∀ p ∈ ps, wfVals o p = true)
    (hpv : pv ≠ []) (hpl : pv.length < ns.length) (hwpv : wfVals o pv = true)
    (hpost : wfItems o post seen2 = true)
    (hseen2 : ∀ k ∈ normNames o (denoteItems o.dia o.normKey
        [.loop ns (ps ++ [pv ++ List.replicate (ns.length - pv.length) Val.unk])] (denoteItems o.dia o.normKey pre [])), k ∈ seen2) :
    OneReportAt o cs CIF_PARTIAL_PACKET
      (preB ++ [plainBlock bc (pre ++ [.loop ns (ps ++ [pv ++ List.replicate (ns.length - pv.length) Val.unk])] ++ post)] ++ postB)
      ((blocksToks preB).length + 1 + ((itemsToks pre).length + (1 + ns.length + (packetsToks ps).length + (valsToks pv).length))) := by
  refine items_class_doc_at H _ CIF_PARTIAL_PACKET (ns.length + szPackets ps + szVals pv + 2) _
    (by
      rw [Lemmas.WriterChunks.szPackets_toks, Lemmas.WriterChunks.szVals_toks]
      simp only [List.length_cons, List.length_append, List.length_map]; omega)
    (by simp only [List.length_cons, List.length_append, List.length_map]; omega)
    (allPacked_run o pre post _ seen2 H.wfRun hpost (allPacked_loop o ns _ (by simp))) ?_
  intro hv rest1 s1 w1 f hw1 hf hfol hF1
  have hterm := blockFollow_term hfol
  obtain ⟨s2, r, h1, h2, h3, h4, _⟩ := C12_partial_packet_at o hv pre post ns ps pv [] seen2 rest1 s1 f w1 [] [] true hw1 H.wfRun
    (nil_seen o) hwf hfresh hnd hlen hwv hpv hpl hwpv hpost hseen2 (by omega) (items_rest_head post rest1 hterm) (fun _ => hterm) hF1
  exact ⟨s2, r, h1, h2, h3, h4⟩

/-- **C12_chars_dup_header_name** — a loop header `ns₁ ++ [n'] ++ ns₂` in which `n'` repeats (normalised comparison, any spelling)
    a name already defined in the block or one of `ns₁`, with complete packets.  One report, CIF_DUP_ITEMNAME; the content is that of
    the document whose loop has the header `ns₁ ++ ns₂` and whose packets lack the value of that column. -/
theorem C12_chars_dup_header_name (o : Opts) (cs : List Chunk) (preB postB : List Block) (bc : Str) (pre post : List Item)
    (ns1 ns2 : List Str) (n' : Str) (p0 : List Val) (ps : List (List Val)) (seen2 : List Str)
    (H : ItemHost o cs preB postB bc pre post
      ((.loopKw, []) :: (ns1.map (fun n => (TokType.name, n)) ++ ((.name, n') ::
        (ns2.map (fun n => (TokType.name, n)) ++ packetsToks (p0 :: ps))))))
    (hwf : ∀ n ∈ ns1 ++ ns2, wfName n = true)
    (hfresh : ∀ n ∈ ns1 ++ ns2, o.norm n ∉ normNames o (denoteItems o.dia o.normKey pre []))
    (hnd : ((ns1 ++ ns2).map o.norm).Nodup) (hne : ns1 ++ ns2 ≠ []) (hname : wfName n' = true)
    (hdup : o.norm n' ∈ normNames o (denoteItems o.dia o.normKey pre []) ∨ ∃ m ∈ ns1, o.norm m = o.norm n')
    (hlen : ∀ p ∈ p0 :: ps, p.length = ns1.length + 1 + ns2.length) (hwv : ∀ p ∈ p0 :: ps, wfVals o p = true)
    (hpost : wfItems o post seen2 = true)
    (hseen2 : ∀ k ∈ normNames o (denoteItems o.dia o.normKey
        (pre ++ [.loop (ns1 ++ ns2) ((p0 :: ps).map (fun p => p.eraseIdx ns1.length))]) []), k ∈ seen2) :
    OneReportAt o cs CIF_DUP_ITEMNAME
      (preB ++ [plainBlock bc (pre ++ [.loop (ns1 ++ ns2) ((p0 :: ps).map (fun p => p.eraseIdx ns1.length))] ++ post)] ++ postB)
      ((blocksToks preB).length + 1 + ((itemsToks pre).length + (1 + ns1.length))) := by
  have e : ∀ ls, denoteItems o.dia o.normKey [.loop (ns1 ++ ns2) ((p0 :: ps).map (fun p => p.eraseIdx ns1.length))] ls
      = ls ++ [mkLoop (ns1 ++ ns2) ((p0 :: ps).map (fun p => (denoteVals o.dia o.normKey p).eraseIdx ns1.length))] := by
    intro ls
    simp only [denoteItems, mkLoop, List.map_map]
    congr 3
    apply List.map_congr_left
    intro p _
    simp [denoteVals_eraseIdx]
  refine items_class_doc_at H _ CIF_DUP_ITEMNAME (ns1.length + ns2.length + szPackets (p0 :: ps) + 3) _
    (by
      rw [Lemmas.WriterChunks.szPackets_toks]
      simp only [List.length_cons, List.length_append, List.length_map]; omega)
    (by simp only [List.length_cons, List.length_append, List.length_map]; omega)
    (allPacked_run o pre post _ seen2 H.wfRun hpost (allPacked_loop o _ _ (by simp))) ?_
  intro hv rest1 s1 w1 f hw1 hf hfol hF1
  have hterm := blockFollow_term hfol
  obtain ⟨s2, r, h1, h2, h3, h4, _⟩ := C12_dup_header_name_at o hv pre post ns1 ns2 n' p0 ps [] seen2 rest1 s1 f w1 [] [] true hw1 H.wfRun (nil_seen o) hwf hfresh hnd
    hne hname hdup hlen hwv hpost (by rw [denoteItems_append, e] at hseen2; exact hseen2) (by omega)
    (items_rest_head post rest1 hterm) (fun _ => hterm) hF1
  rw [denoteItems_append, denoteItems_append, e]
  exact ⟨s2, r, h1, h2, h3, h4⟩


/-! ### the empty loop: accepted without packets, pruned when the container ends -/

theorem putScalar_insert (E : Loop) (hE : Spec.Grammar.isScalarLoop E = false) (n : Str) (x : V) : ∀ (A B : List Loop),
    ∃ A' B', putScalar (A ++ E :: B) n x = A' ++ E :: B' ∧ putScalar (A ++ B) n x = A' ++ B'
  | [], B => ⟨[], putScalar B n x, by simp [putScalar, hE], by simp⟩
  | a :: A0, B => by
    by_cases ha : Spec.Grammar.isScalarLoop a = true
    · refine ⟨putScalar [a] n x ++ A0, B, ?_, ?_⟩ <;> simp [putScalar, ha]
    · obtain ⟨A', B', h1, h2⟩ := putScalar_insert E hE n x A0 B
      exact ⟨a :: A', B', by simp [putScalar, ha, h1], by simp [putScalar, ha, h2]⟩

theorem denoteItems_insert (dia : Dialect) (nk : Str → Str) (E : Loop) (hE : Spec.Grammar.isScalarLoop E = false) :
    ∀ (post : List Item) (A B : List Loop),
    ∃ A' B', denoteItems dia nk post (A ++ E :: B) = A' ++ E :: B' ∧ denoteItems dia nk post (A ++ B) = A' ++ B'
  | [], A, B => ⟨A, B, rfl, rfl⟩
  | .item n v :: r, A, B => by
    obtain ⟨A1, B1, h1, h2⟩ := putScalar_insert E hE n (denoteVal dia nk v) A B
    obtain ⟨A', B', h3, h4⟩ := denoteItems_insert dia nk E hE r A1 B1
    exact ⟨A', B', by simp only [denoteItems, h1, h3], by simp only [denoteItems, h2, h4]⟩
  | .loop ns ps :: r, A, B => by
    obtain ⟨A', B', h3, h4⟩ := denoteItems_insert dia nk E hE r A (B ++ [{ category := none, names := ns, packets := ps.map (denoteVals dia nk) }])
    exact ⟨A', B', by simpa only [denoteItems, List.append_assoc, List.cons_append] using h3,
      by simpa only [denoteItems, List.append_assoc] using h4⟩

/-- an empty loop somewhere among loops that are not empty: pruning removes exactly it -/
theorem pruneC_empty_loop (o : Opts) (bc : Str) (ns : List Str) (post : List Item) (A : List Loop)
    (hpk : allPacked (denoteItems o.dia o.normKey post A)) :
    pruneC (.mk bc [] (denoteItems o.dia o.normKey post (A ++ [mkLoop ns []]))) = .mk bc [] (denoteItems o.dia o.normKey post A) := by
  obtain ⟨A', B', h1, h2⟩ := denoteItems_insert o.dia o.normKey (mkLoop ns []) rfl post A []
  rw [List.append_nil] at h2
  rw [h1, h2]
  rw [h2] at hpk
  simp only [pruneC, List.filter_append, List.filter_cons, mkLoop, List.isEmpty_nil, Bool.not_true, Bool.false_eq_true, if_false]
  congr 1
  have hA : ∀ l ∈ A', (!l.packets.isEmpty) = true := fun l hl => by simp [hpk l (List.mem_append_left _ hl)]
  have hB : ∀ l ∈ B', (!l.packets.isEmpty) = true := fun l hl => by simp [hpk l (List.mem_append_right _ hl)]
  rw [List.filter_eq_self.mpr hA, List.filter_eq_self.mpr hB]

/-- **C12_chars_empty_loop** — a loop header (≥ 1 valid, new, pairwise different names) followed by no value: the next token is
    `loop_`, a block header, or the end of the input.  One report, CIF_EMPTY_LOOP; the content is that of the document without the
    loop. -/
theorem C12_chars_empty_loop (o : Opts) (cs : List Chunk) (preB postB : List Block) (bc : Str) (pre post : List Item)
    (ns : List Str) (seen2 : List Str)
    (H : ItemHost o cs preB postB bc pre post ((.loopKw, []) :: ns.map (fun n => (TokType.name, n))))
    (hns : ns ≠ []) (hwf : ∀ n ∈ ns, wfName n = true)
    (hfresh : ∀ n ∈ ns, o.norm n ∉ normNames o (denoteItems o.dia o.normKey pre [])) (hnd : (ns.map o.norm).Nodup)
    (hpost : wfItems o post seen2 = true)
    (hseen2 : ∀ k ∈ normNames o (denoteItems o.dia o.normKey pre [] ++ [mkLoop ns []]), k ∈ seen2)
    (hnext : ∀ i r, post = i :: r → ∃ ms ps, i = .loop ms ps) :
    OneReportAt o cs CIF_EMPTY_LOOP (preB ++ [plainBlock bc (pre ++ post)] ++ postB)
      ((blocksToks preB).length + 1 + ((itemsToks pre).length + (1 + ns.length))) := by
  obtain ⟨r, h, hr, hat⟩ := items_class H (denoteItems o.dia o.normKey post (denoteItems o.dia o.normKey pre [] ++ [mkLoop ns []]))
    CIF_EMPTY_LOOP (ns.length + 2) (fun s1 r => RepAt o s1 ((itemsToks pre).length + (1 + ns.length)) r)
    (by simp only [List.length_cons, List.length_map]; omega)
    (fun hv rest1 s1 w1 f hw1 hf hfol hF1 => by
      have hterm := blockFollow_term hfol
      obtain ⟨s2, r, h1, h2, h3, h4, _⟩ := C12_empty_loop_at o hv pre post ns [] seen2 rest1 s1 f w1 [] [] true hw1 H.wfRun (nil_seen o) hns hwf hfresh hnd hpost hseen2
        (by omega)
        (by
          cases post with
          | nil =>
            obtain ⟨ty, tx, ts, rfl, ht⟩ := hfol
            refine ⟨ty, tx, ts, rfl, ?_, ?_⟩
            · rcases ht with h | h <;> subst h <;> rfl
            · rcases ht with h | h <;> subst h <;> decide
          | cons i r0 =>
            obtain ⟨ms, ps, rfl⟩ := hnext i r0 rfl
            exact ⟨.loopKw, [], ms.map (fun n => (TokType.name, n)) ++ (packetsToks ps ++ (itemsToks r0 ++ rest1)),
              by simp [itemsToks, itemToks], rfl, by decide⟩)
        (fun _ => hterm) hF1
      exact ⟨s2, r, h1, h2, h3, h4⟩)
  have hline := line_of_block H.toTextOk (by
    rw [H.hToks]
    simp only [List.length_append, List.length_cons, List.length_map]
    omega) hat
  refine ⟨r, ?_, hr, hline⟩
  have hpk := allPacked_run o pre post [] seen2 H.wfRun hpost (fun _ h => h)
  simp only [List.append_nil] at hpk
  rw [h, denote_plain, denoteItems_append, pruneC_empty_loop]
  rwa [denoteItems_append] at hpk


/-! ### the item-level classes of Props/C12Lex (group gH) -/

/-- **C12_chars_unexpected_delim** — a closing bracket or brace where an item is expected (not directly behind a loop).  One report,
    CIF_UNEXPECTED_DELIM; the content is that of the document without it. -/
theorem C12_chars_unexpected_delim (o : Opts) (cs : List Chunk) (preB postB : List Block) (bc : Str) (pre post : List Item)
    (ty : TokType) (tx : Str) (seen2 : List Str) (H : ItemHost o cs preB postB bc pre post [(ty, tx)])
    (hty : ty = .clist ∨ ty = .ctable) (hnoloop : lastIsLoop pre = false) (hpost : wfItems o post seen2 = true)
    (hseen2 : ∀ k ∈ normNames o (denoteItems o.dia o.normKey pre []), k ∈ seen2) :
    OneReportAt o cs CIF_UNEXPECTED_DELIM
      (preB ++ [plainBlock bc (pre ++ post)] ++ postB)
      ((blocksToks preB).length + 1 + ((itemsToks pre).length + 0)) := by
  refine items_class_doc_at H _ CIF_UNEXPECTED_DELIM 0 _ (by simp) (by omega)
    (by simpa using allPacked_run o pre post [] seen2 H.wfRun hpost (fun _ h => h)) ?_
  intro hv rest1 s1 w1 f hw1 hf hfol hF1
  have hterm := blockFollow_term hfol
  obtain ⟨s2, r, h1, h2, h3, h4, _⟩ := C12_unexpected_delim_at o hv pre post ty tx [] seen2 rest1 s1 f w1 [] [] true hw1 hty H.wfRun
    (nil_seen o) hnoloop hpost hseen2 (by omega) (fun _ => hterm) hF1
  exact ⟨s2, r, h1, h2, h3, h4⟩

/-- **C12_chars_unexpected_term** — `save_` in a data block while no save frame is open.  One report, CIF_UNEXPECTED_TERM; the
    content is that of the document without it. -/
theorem C12_chars_unexpected_term (o : Opts) (cs : List Chunk) (preB postB : List Block) (bc : Str) (pre post : List Item)
    (tx : Str) (seen2 : List Str) (H : ItemHost o cs preB postB bc pre post [(.frameTerm, tx)])
    (hpost : wfItems o post seen2 = true)
    (hseen2 : ∀ k ∈ normNames o (denoteItems o.dia o.normKey pre []), k ∈ seen2) :
    OneReportAt o cs CIF_UNEXPECTED_TERM
      (preB ++ [plainBlock bc (pre ++ post)] ++ postB)
      ((blocksToks preB).length + 1 + ((itemsToks pre).length + 0)) := by
  refine items_class_doc_at H _ CIF_UNEXPECTED_TERM 0 _ (by simp) (by omega)
    (by simpa using allPacked_run o pre post [] seen2 H.wfRun hpost (fun _ h => h)) ?_
  intro hv rest1 s1 w1 f hw1 hf hfol hF1
  have hterm := blockFollow_term hfol
  obtain ⟨s2, r, h1, h2, h3, h4, _⟩ := C12_unexpected_term_at o hv pre post tx [] seen2 rest1 s1 f w1 [] [] hw1 H.wfRun
    (nil_seen o) hpost hseen2 (by omega) (fun _ => hterm) hF1
  exact ⟨s2, r, h1, h2, h3, h4⟩

/-- **C12_chars_null_loop** — `loop_` that is not followed by a data name: the next token is `loop_`, a block header, or the end
    of the input.  One report, CIF_NULL_LOOP; the content is that of the document without it. -/
theorem C12_chars_null_loop (o : Opts) (cs : List Chunk) (preB postB : List Block) (bc : Str) (pre post : List Item)
    (seen2 : List Str) (H : ItemHost o cs preB postB bc pre post [(.loopKw, [])])
    (hpost : wfItems o post seen2 = true)
    (hseen2 : ∀ k ∈ normNames o (denoteItems o.dia o.normKey pre []), k ∈ seen2)
    (hnext : ∀ i r, post = i :: r → ∃ ms ps, i = .loop ms ps) :
    OneReportAt o cs CIF_NULL_LOOP
      (preB ++ [plainBlock bc (pre ++ post)] ++ postB)
      ((blocksToks preB).length + 1 + ((itemsToks pre).length + 1)) := by
  refine items_class_doc_at H _ CIF_NULL_LOOP 1 _ (by simp) (by simp)
    (by simpa using allPacked_run o pre post [] seen2 H.wfRun hpost (fun _ h => h)) ?_
  intro hv rest1 s1 w1 f hw1 hf hfol hF1
  have hterm := blockFollow_term hfol
  obtain ⟨s2, r, h1, h2, h3, h4, _⟩ := C12_null_loop_at o hv pre post [] seen2 rest1 s1 f w1 [] [] true hw1 H.wfRun (nil_seen o)
    hpost hseen2 (by omega)
    (by
      cases post with
      | nil =>
        obtain ⟨ty, tx, ts, rfl, ht⟩ := hfol
        refine ⟨ty, tx, ts, rfl, ?_⟩
        rcases ht with h | h <;> subst h <;> decide
      | cons i r0 =>
        obtain ⟨ms, ps, rfl⟩ := hnext i r0 rfl
        exact ⟨.loopKw, [], ms.map (fun n => (TokType.name, n)) ++ (packetsToks ps ++ (itemsToks r0 ++ rest1)),
          by simp [itemsToks, itemToks], by decide⟩)
    (fun _ => hterm) hF1
  exact ⟨s2, r, h1, h2, h3, h4⟩

/-- **C12_chars_invalid_itemname** — a data name that is not a valid item name, with its value.  One report,
    CIF_INVALID_ITEMNAME; the content is that of the document without the item. -/
theorem C12_chars_invalid_itemname (o : Opts) (cs : List Chunk) (preB postB : List Block) (bc : Str) (pre post : List Item)
    (n : Str) (v : Val) (seen2 : List Str) (H : ItemHost o cs preB postB bc pre post ((.name, n) :: valToks v))
    (hn0 : noNul n = true) (hinv : isValidName true n = false) (hwv : wfVal o v = true) (hpost : wfItems o post seen2 = true)
    (hseen2 : ∀ k ∈ normNames o (denoteItems o.dia o.normKey pre []), k ∈ seen2) :
    OneReportAt o cs CIF_INVALID_ITEMNAME
      (preB ++ [plainBlock bc (pre ++ post)] ++ postB)
      ((blocksToks preB).length + 1 + ((itemsToks pre).length + 1)) := by
  refine items_class_doc_at H _ CIF_INVALID_ITEMNAME (szVal v) _
    (by rw [Lemmas.WriterChunks.szVal_toks]; simp only [List.length_cons]; omega) (by simp only [List.length_cons]; omega)
    (by simpa using allPacked_run o pre post [] seen2 H.wfRun hpost (fun _ h => h)) ?_
  intro hv rest1 s1 w1 f hw1 hf hfol hF1
  have hterm := blockFollow_term hfol
  obtain ⟨s2, r, h1, h2, h3, h4, _⟩ := C12_invalid_itemname_at o hv pre post n v [] seen2 rest1 s1 f w1 [] [] true hw1 H.wfRun
    (nil_seen o) hn0 hinv hwv hpost hseen2 (by omega) (fun _ => hterm) hF1
  exact ⟨s2, r, h1, h2, h3, h4⟩

/-- **C12_chars_missing_delim_list** — a list (elements of any kind and depth) whose closing bracket is missing, as the value of an
    item.  One report, CIF_MISSING_DELIM; the content is that of the document with the bracket in front of the token that cannot
    continue the list. -/
theorem C12_chars_missing_delim_list (o : Opts) (cs : List Chunk) (preB postB : List Block) (bc : Str) (pre post : List Item)
    (n btx : Str) (vs : List Val) (seen2 : List Str)
    (H : ItemHost o cs preB postB bc pre post ((.name, n) :: (.olist, btx) :: valsToks vs))
    (hname : wfName n = true) (hfresh : o.norm n ∉ normNames o (denoteItems o.dia o.normKey pre []))
    (hwv : wfVals o vs = true) (hpost : wfItems o post seen2 = true)
    (hseen2 : ∀ k ∈ normNames o (denoteItems o.dia o.normKey (pre ++ [.item n (.lst vs)]) []), k ∈ seen2) :
    OneReportAt o cs CIF_MISSING_DELIM
      (preB ++ [plainBlock bc (pre ++ [.item n (.lst vs)] ++ post)] ++ postB)
      ((blocksToks preB).length + 1 + ((itemsToks pre).length + (1 + (1 + (valsToks vs).length)))) := by
  refine items_class_doc_at H _ CIF_MISSING_DELIM (szVals vs + 2) _
    (by rw [Lemmas.WriterChunks.szVals_toks]; simp only [List.length_cons]; omega) (by simp only [List.length_cons, List.length_append, List.length_nil]; omega)
    (allPacked_run o pre post _ seen2 H.wfRun hpost (allPacked_item o n _)) ?_
  intro hv rest1 s1 w1 f hw1 hf hfol hF1
  have hterm := blockFollow_term hfol
  obtain ⟨s2, r, h1, h2, h3, h4, _⟩ := C12_missing_delim_list_at o hv pre post n btx vs [] seen2 rest1 s1 f w1 [] [] true hw1 H.wfRun
    (nil_seen o) hname hfresh hwv hpost hseen2 (by omega) (Or.inr hterm) (fun _ => hterm) hF1
  exact ⟨s2, r, h1, h2, h3, h4⟩

/-- **C12_chars_missing_delim_table** — a table whose closing brace is missing, as the value of an item.  One report,
    CIF_MISSING_DELIM; the content is that of the document with the brace. -/
theorem C12_chars_missing_delim_table (o : Opts) (cs : List Chunk) (preB postB : List Block) (bc : Str) (pre post : List Item)
    (n btx : Str) (es : List (Str × Presentation × Val)) (seen2 : List Str)
    (H : ItemHost o cs preB postB bc pre post ((.name, n) :: (.otable, btx) :: entriesToks es))
    (hname : wfName n = true) (hfresh : o.norm n ∉ normNames o (denoteItems o.dia o.normKey pre []))
    (hwv : wfEntries o es = true) (hpost : wfItems o post seen2 = true)
    (hseen2 : ∀ k ∈ normNames o (denoteItems o.dia o.normKey (pre ++ [.item n (.tbl es)]) []), k ∈ seen2) :
    OneReportAt o cs CIF_MISSING_DELIM
      (preB ++ [plainBlock bc (pre ++ [.item n (.tbl es)] ++ post)] ++ postB)
      ((blocksToks preB).length + 1 + ((itemsToks pre).length + (1 + (1 + (entriesToks es).length)))) := by
  refine items_class_doc_at H _ CIF_MISSING_DELIM (szEntries es + 2) _
    (by rw [Lemmas.WriterChunks.szEntries_toks]; simp only [List.length_cons]; omega) (by simp only [List.length_cons, List.length_append, List.length_nil]; omega)
    (allPacked_run o pre post _ seen2 H.wfRun hpost (allPacked_item o n _)) ?_
  intro hv rest1 s1 w1 f hw1 hf hfol hF1
  have hterm := blockFollow_term hfol
  obtain ⟨s2, r, h1, h2, h3, h4, _⟩ := C12_missing_delim_table_at o hv pre post n btx es [] seen2 rest1 s1 f w1 [] [] true hw1 H.wfRun
    (nil_seen o) hname hfresh hwv hpost hseen2 (by omega) (Or.inr hterm) (fun _ => hterm) hF1
  exact ⟨s2, r, h1, h2, h3, h4⟩

/-! ### the table-key classes whose defect is a whole token (Props/C12Lex) — any entries before and behind inside the table -/

/-- **C12_chars_table_missing_value** — a table key that is not followed by a value.  One report, CIF_MISSING_VALUE; the content is
    that of the document in which the key has the unknown value. -/
theorem C12_chars_table_missing_value (o : Opts) (cs : List Chunk) (preB postB : List Block) (bc : Str) (pre post : List Item)
    (n btx : Str) (epre epost : List (Str × Presentation × Val)) (k : Str) (kp : Presentation) (seen2 : List Str)
    (H : ItemHost o cs preB postB bc pre post ((.name, n) :: (.otable, btx) ::
        (entriesToks epre ++ ([(TokType.key, k)] ++ (entriesToks epost ++ [(.ctable, [125])])))))
    (hname : wfName n = true) (hfresh : o.norm n ∉ normNames o (denoteItems o.dia o.normKey pre []))
    (hepre : wfEntries o epre = true) (hepost : wfEntries o epost = true) (hk0 : noNul k = true) (hkd : hasDisallowed k = false)
    (hpost : wfItems o post seen2 = true)
    (hseen2 : ∀ x ∈ normNames o (denoteItems o.dia o.normKey (pre ++ [.item n (.tbl (epre ++ [(k, kp, Val.unk)] ++ epost))]) []), x ∈ seen2) :
    OneReportAt o cs CIF_MISSING_VALUE
      (preB ++ [plainBlock bc (pre ++ [.item n (.tbl (epre ++ [(k, kp, Val.unk)] ++ epost))] ++ post)] ++ postB)
      ((blocksToks preB).length + 1 + ((itemsToks pre).length + (1 + (1 + ((entriesToks epre).length + 1))))) := by
  have hl := szEntries_len epre
  refine items_class_doc_at H _ CIF_MISSING_VALUE (szEntries epre + szEntries epost + 0 + 2 + 2 * epre.length + 3) _
    (by
      rw [Lemmas.WriterChunks.szEntries_toks epre, Lemmas.WriterChunks.szEntries_toks epost] at *
      simp only [List.length_cons, List.length_append, List.length_nil]; omega)
    (by simp only [List.length_cons, List.length_append, List.length_nil]; omega)
    (allPacked_run o pre post _ seen2 H.wfRun hpost (allPacked_item o n _)) ?_
  intro hv rest1 s1 w1 f hw1 hf hfol hF1
  have hterm := blockFollow_term hfol
  obtain ⟨s2, r, h1, h2, h3, h4, _⟩ := C12_table_missing_value_at o hv pre post n btx epre epost k kp [] seen2 rest1 s1 f w1 [] [] true
    hw1 H.wfRun (nil_seen o) hname hfresh hepre hepost hk0 hkd hpost hseen2 (by omega) (fun _ => hterm) hF1
  exact ⟨s2, r, by simpa using h1, h2, h3, h4⟩

/-- **C12_chars_missing_key** — a delimited string, text field, list or table without key inside a table.  One report,
    CIF_MISSING_KEY; the content is that of the document without that value. -/
theorem C12_chars_missing_key (o : Opts) (cs : List Chunk) (preB postB : List Block) (bc : Str) (pre post : List Item)
    (n btx : Str) (epre epost : List (Str × Presentation × Val)) (v : Val) (seen2 : List Str)
    (H : ItemHost o cs preB postB bc pre post ((.name, n) :: (.otable, btx) ::
        (entriesToks epre ++ ((valToks v) ++ (entriesToks epost ++ [(.ctable, [125])])))))
    (hname : wfName n = true) (hfresh : o.norm n ∉ normNames o (denoteItems o.dia o.normKey pre []))
    (hepre : wfEntries o epre = true) (hepost : wfEntries o epost = true) (hnb : notBare v = true) (hwv : wfVal o v = true)
    (hpost : wfItems o post seen2 = true)
    (hseen2 : ∀ x ∈ normNames o (denoteItems o.dia o.normKey (pre ++ [.item n (.tbl (epre ++ epost))]) []), x ∈ seen2) :
    OneReportAt o cs CIF_MISSING_KEY
      (preB ++ [plainBlock bc (pre ++ [.item n (.tbl (epre ++ epost))] ++ post)] ++ postB)
      ((blocksToks preB).length + 1 + ((itemsToks pre).length + (1 + (1 + ((entriesToks epre).length + 0))))) := by
  have hl := szEntries_len epre
  refine items_class_doc_at H _ CIF_MISSING_KEY (szEntries epre + szEntries epost + szVal v + 1 + 2 * epre.length + 3) _
    (by
      rw [Lemmas.WriterChunks.szEntries_toks epre, Lemmas.WriterChunks.szEntries_toks epost, Lemmas.WriterChunks.szVal_toks] at *
      simp only [List.length_cons, List.length_append, List.length_nil]; omega)
    (by simp only [List.length_cons, List.length_append, List.length_nil]; omega)
    (allPacked_run o pre post _ seen2 H.wfRun hpost (allPacked_item o n _)) ?_
  intro hv rest1 s1 w1 f hw1 hf hfol hF1
  have hterm := blockFollow_term hfol
  obtain ⟨s2, r, h1, h2, h3, h4, _⟩ := C12_missing_key_at o hv pre post n btx epre epost v [] seen2 rest1 s1 f w1 [] [] true hw1 H.wfRun
    (nil_seen o) hname hfresh hepre hepost hnb hwv hpost (by simpa using hseen2) (by omega) (fun _ => hterm) hF1
  exact ⟨s2, r, by simpa using h1, h2, h3, h4⟩

/-- **C12_chars_missing_key_word** — a whitespace-delimited word without colon inside a table.  One report, CIF_MISSING_KEY; the
    content is that of the document without the word. -/
theorem C12_chars_missing_key_word (o : Opts) (cs : List Chunk) (preB postB : List Block) (bc : Str) (pre post : List Item)
    (n btx : Str) (epre epost : List (Str × Presentation × Val)) (tx : Str) (seen2 : List Str)
    (H : ItemHost o cs preB postB bc pre post ((.name, n) :: (.otable, btx) ::
        (entriesToks epre ++ ([(TokType.value, tx)] ++ (entriesToks epost ++ [(.ctable, [125])])))))
    (hname : wfName n = true) (hfresh : o.norm n ∉ normNames o (denoteItems o.dia o.normKey pre []))
    (hepre : wfEntries o epre = true) (hepost : wfEntries o epost = true) (hhead : tx.head? ≠ some colon) (hcolon : colonIdx tx = none)
    (hpost : wfItems o post seen2 = true)
    (hseen2 : ∀ x ∈ normNames o (denoteItems o.dia o.normKey (pre ++ [.item n (.tbl (epre ++ epost))]) []), x ∈ seen2) :
    OneReportAt o cs CIF_MISSING_KEY
      (preB ++ [plainBlock bc (pre ++ [.item n (.tbl (epre ++ epost))] ++ post)] ++ postB)
      ((blocksToks preB).length + 1 + ((itemsToks pre).length + (1 + (1 + ((entriesToks epre).length + 0))))) := by
  have hl := szEntries_len epre
  refine items_class_doc_at H _ CIF_MISSING_KEY (szEntries epre + szEntries epost + 0 + 1 + 2 * epre.length + 3) _
    (by
      rw [Lemmas.WriterChunks.szEntries_toks epre, Lemmas.WriterChunks.szEntries_toks epost] at *
      simp only [List.length_cons, List.length_append, List.length_nil]; omega)
    (by simp only [List.length_cons, List.length_append, List.length_nil]; omega)
    (allPacked_run o pre post _ seen2 H.wfRun hpost (allPacked_item o n _)) ?_
  intro hv rest1 s1 w1 f hw1 hf hfol hF1
  have hterm := blockFollow_term hfol
  obtain ⟨s2, r, h1, h2, h3, h4, _⟩ := C12_missing_key_word_at o hv pre post n btx epre epost tx [] seen2 rest1 s1 f w1 [] [] true hw1
    H.wfRun (nil_seen o) hname hfresh hepre hepost hhead hcolon hpost (by simpa using hseen2) (by omega) (fun _ => hterm) hF1
  exact ⟨s2, r, by simpa using h1, h2, h3, h4⟩

/-- **C12_chars_null_key** — a colon standing alone in key position, with the value behind it.  One report, CIF_NULL_KEY; the
    content is that of the document without that entry. -/
theorem C12_chars_null_key (o : Opts) (cs : List Chunk) (preB postB : List Block) (bc : Str) (pre post : List Item)
    (n btx : Str) (epre epost : List (Str × Presentation × Val)) (v : Val) (seen2 : List Str)
    (H : ItemHost o cs preB postB bc pre post ((.name, n) :: (.otable, btx) ::
        (entriesToks epre ++ (((TokType.value, [colon]) :: valToks v) ++ (entriesToks epost ++ [(.ctable, [125])])))))
    (hname : wfName n = true) (hfresh : o.norm n ∉ normNames o (denoteItems o.dia o.normKey pre []))
    (hepre : wfEntries o epre = true) (hepost : wfEntries o epost = true) (hwv : wfVal o v = true)
    (hpost : wfItems o post seen2 = true)
    (hseen2 : ∀ x ∈ normNames o (denoteItems o.dia o.normKey (pre ++ [.item n (.tbl (epre ++ epost))]) []), x ∈ seen2) :
    OneReportAt o cs CIF_NULL_KEY
      (preB ++ [plainBlock bc (pre ++ [.item n (.tbl (epre ++ epost))] ++ post)] ++ postB)
      ((blocksToks preB).length + 1 + ((itemsToks pre).length + (1 + (1 + ((entriesToks epre).length + 0))))) := by
  have hl := szEntries_len epre
  refine items_class_doc_at H _ CIF_NULL_KEY (szEntries epre + szEntries epost + szVal v + 2 + 2 * epre.length + 3) _
    (by
      rw [Lemmas.WriterChunks.szEntries_toks epre, Lemmas.WriterChunks.szEntries_toks epost, Lemmas.WriterChunks.szVal_toks] at *
      simp only [List.length_cons, List.length_append, List.length_nil]; omega)
    (by simp only [List.length_cons, List.length_append, List.length_nil]; omega)
    (allPacked_run o pre post _ seen2 H.wfRun hpost (allPacked_item o n _)) ?_
  intro hv rest1 s1 w1 f hw1 hf hfol hF1
  have hterm := blockFollow_term hfol
  obtain ⟨s2, r, h1, h2, h3, h4, _⟩ := C12_null_key_at o hv pre post n btx epre epost v [] seen2 rest1 s1 f w1 [] [] true hw1 H.wfRun
    (nil_seen o) hname hfresh hepre hepost hwv hpost (by simpa using hseen2) (by omega) (fun _ => hterm) hF1
  exact ⟨s2, r, by simpa using h1, h2, h3, h4⟩

/-! ### the block-level classes -/

theorem fuel_doc {o : Opts} {cs : List Chunk} (hok : okC o.dia .end_ [] cs) :
    2 * (toks cs).length + 10 * heads (toks cs) + 16 ≤ fuelFor (renderChunks cs) := by
  have := toks_weight o.dia cs .end_ [] hok
  simp only [fuelFor]; omega

theorem feeds_doc {o : Opts} {cs : List Chunk} (H : TextOk o cs) {c : CU} {rest : Str} (hc : renderChunks cs = c :: rest) :
    Feeds o { scan := Scan.init (c :: rest), tok := none } (toks cs ++ [(.end_, [])]) := by
  have := feeds_chunks o cs [] 1 0 .end_ H.ok (by simpa [renderWs] using H.fit)
  simpa [renderWs, hc, Scan.init] using this

/-- **C12_chars_no_block_header** — elements `e :: es` (items, loops, save frames: any well-formed element list) in front of the
    first data block header, then any well-formed blocks.  One report, CIF_NO_BLOCK_HEADER; the content is that of the document
    that has an anonymous block (empty code) with these elements in front. -/
theorem C12_chars_no_block_header (o : Opts) (cs : List Chunk) (e : Elem) (es : List Elem) (bs : List Block)
    (H : TextOk o cs) (hmfd : o.maxFrameDepth ≠ 0) (ht : toks cs = elemsToks (e :: es) ++ blocksToks bs)
    (hwb : wfElems o (e :: es) [] [] = true) (hwbs : wfBlocks o bs [o.norm []] = true) :
    OneReportAt o cs CIF_NO_BLOCK_HEADER ({ code := [], body := e :: es } :: bs) 0 := by
  obtain ⟨c, rest, hc, hfirst, hbom⟩ := H.first
  have hfu := fuel_doc H.ok
  have hfe := feeds_doc H hc
  have hS : ({ scan := Scan.init (renderChunks cs), tok := none } : PS) = { scan := Scan.init (c :: rest), tok := none } := by rw [hc]
  rw [ht] at hfu hfe
  rw [hc] at hfu
  have h1 := Lemmas.WriterChunks.szElems_toks (e :: es)
  have h2 := Lemmas.WriterChunks.szBlocks_toks bs
  have h3 := heads_blocks bs
  simp only [List.length_append, heads_append] at hfu
  obtain ⟨f, hf⟩ : ∃ f, fuelFor (c :: rest) = (f + bs.length) + 1 := ⟨fuelFor (c :: rest) - bs.length - 1, by omega⟩
  obtain ⟨s1, r, h4, hr, h5, hrep, _⟩ := no_block_header_step_at o H.store hmfd e es _ _ (f + bs.length) { log := [], cif := [] }
    (by intro x hx; cases hx) hwb (by omega) (blocks_rest_head bs) (by simpa [List.append_assoc] using hfe)
  obtain ⟨s2, h6⟩ := blocks_structure o H.store hmfd bs [o.norm []] s1 f acceptAll
    { log := [r], cif := [] ++ [denoteBlock o.dia o.normKey { code := [], body := e :: es }] } hwbs
    (by
      intro x hx
      simp only [List.nil_append, List.mem_singleton] at hx
      subst hx; simp [denoteBlock, Container.code])
    (by omega) h5
  have h7 : blocksLoop o (fuelFor (c :: rest)) { scan := Scan.init (c :: rest), tok := none } acceptAll { log := [], cif := [] }
      = .ok s2 { log := [r], cif := denoteBlock o.dia o.normKey { code := [], body := e :: es } :: denote o.dia o.normKey bs } := by
    rw [hf, h4, h6]; simp
  refine ⟨r, ?_, hr, ?_⟩
  · rw [hc, parse_of_blocks o acceptAll c rest s2 _ H.utf hfirst hbom h7]; simp [denote]
  · rw [← hS] at hrep
    exact repAt_line o cs H.ok H.fit (Nat.zero_le _) hrep

/-- **C12_chars_invalid_blockcode** — a data block whose code is not a valid block code, any well-formed blocks before and
    behind.  One report, CIF_INVALID_BLOCKCODE; the content is that of the document as it stands (the code is used anyway). -/
theorem C12_chars_invalid_blockcode (o : Opts) (cs : List Chunk) (pre post : List Block) (b : Block) (bseen2 : List Str)
    (H : TextOk o cs) (hmfd : o.maxFrameDepth ≠ 0) (ht : toks cs = blocksToks (pre ++ [b] ++ post))
    (hpre : wfBlocks o pre [] = true) (hn0 : noNul b.code = true) (hinv : isValidName false b.code = false)
    (hnew : ∀ x ∈ pre, o.norm x.code ≠ o.norm b.code) (hwb : wfElems o b.body [] [] = true)
    (hpost : wfBlocks o post bseen2 = true) (hseen2 : ∀ x ∈ pre ++ [b], o.norm x.code ∈ bseen2) :
    OneReportAt o cs CIF_INVALID_BLOCKCODE (pre ++ [b] ++ post) ((blocksToks pre).length + 0) := by
  obtain ⟨c, rest, hc, hfirst, hbom⟩ := H.first
  have hfu := fuel_doc H.ok
  have hfe := feeds_doc H hc
  rw [ht] at hfu hfe
  rw [hc] at hfu
  have h2 := Lemmas.WriterChunks.szBlocks_toks (pre ++ [b] ++ post)
  have h3 := heads_blocks (pre ++ [b] ++ post)
  have hsz : szBlocks (pre ++ [b] ++ post) = szBlocks pre + szBlock b + szBlocks post := by
    have hap : ∀ (x y : List Block), szBlocks (x ++ y) = szBlocks x + szBlocks y := by
      intro x y; induction x with
      | nil => simp [szBlocks]
      | cons a r ih => simp only [List.cons_append, szBlocks, ih]; omega
    rw [hap, hap]; simp [szBlocks]
  simp only [List.length_append, List.length_cons, List.length_nil] at h2 h3
  obtain ⟨f, hf⟩ : ∃ f, fuelFor (c :: rest) = f + post.length + 1 + pre.length :=
    ⟨fuelFor (c :: rest) - post.length - 1 - pre.length, by omega⟩
  have hbt : ∀ (x y : List Block), blocksToks (x ++ y) = blocksToks x ++ blocksToks y := by
    intro x y; induction x with
    | nil => rfl
    | cons a r ih => simp [blocksToks, ih]
  obtain ⟨s', r, h, hr, hrep⟩ := C12_invalid_blockcode_at o H.store hmfd pre post b [] bseen2 _ f { log := [], cif := [] } hpre
    (by intro x hx; cases hx) hn0 hinv
    (by
      intro x hx
      simp only [List.nil_append] at hx
      obtain ⟨y, hy, hcy⟩ := denote_code hx
      simp only [codeIs, hcy, beq_eq_false_iff_ne, ne_eq]
      exact hnew y hy)
    hwb hpost
    (by
      intro x hx
      simp only [List.nil_append] at hx
      obtain ⟨y, hy, hcy⟩ := denote_code hx
      rw [hcy]; exact hseen2 y hy)
    (by omega)
    (by simpa [hbt, blocksToks, List.append_assoc] using hfe)
  rw [← hf] at h
  refine ⟨r, by rw [hc, parse_of_blocks o acceptAll c rest s' _ H.utf hfirst hbom h]; simp, hr, ?_⟩
  have hS : ({ scan := Scan.init (renderChunks cs), tok := none } : PS) = { scan := Scan.init (c :: rest), tok := none } := by rw [hc]
  rw [← hS] at hrep
  refine repAt_line o cs H.ok H.fit ?_ hrep
  rw [ht, hbt, hbt]; simp only [List.length_append]; omega


theorem blocksToks_append : ∀ (x y : List Block), blocksToks (x ++ y) = blocksToks x ++ blocksToks y
  | [], _ => rfl
  | a :: r, y => by simp [blocksToks, blocksToks_append r y]

theorem szBlocks_append : ∀ (x y : List Block), szBlocks (x ++ y) = szBlocks x + szBlocks y
  | [], y => by simp [szBlocks]
  | a :: r, y => by simp only [List.cons_append, szBlocks, szBlocks_append r y]; omega

/-- **C12_chars_dup_blockcode** — a data block header whose normalised code an earlier block `b0` of the document has (any
    spelling), with items `body`; any blocks before, between and behind.  One report, CIF_DUP_BLOCKCODE; the content is that of the
    document in which the items stand at the end of `b0`. -/
theorem C12_chars_dup_blockcode (o : Opts) (cs : List Chunk) (pa pb post : List Block) (b0 : Block) (code : Str) (body : List Item)
    (bseen2 : List Str) (H : TextOk o cs) (hmfd : o.maxFrameDepth ≠ 0)
    (ht : toks cs = blocksToks (pa ++ [b0] ++ pb) ++ ((.blockHead, code) :: (itemsToks body ++ blocksToks post)))
    (hpre : wfBlocks o (pa ++ [b0] ++ pb) [] = true) (hwb0 : wfElems o b0.body [] [] = true)
    (hcode : wfCode code = true) (hk : o.norm b0.code = o.norm code)
    (hab : ∀ x ∈ pa ++ pb, o.norm x.code ≠ o.norm code)
    (hwb : wfItems o body (normNames o (denoteElems o.dia o.normKey b0.body [] []).2) = true)
    (hpost : wfBlocks o post bseen2 = true) (hseen2 : ∀ x ∈ pa ++ [b0] ++ pb, o.norm x.code ∈ bseen2) :
    OneReportAt o cs CIF_DUP_BLOCKCODE (pa ++ [{ code := b0.code, body := b0.body ++ body.map .plain }] ++ pb ++ post)
      ((blocksToks (pa ++ [b0] ++ pb)).length + 0) := by
  obtain ⟨c, rest, hc, hfirst, hbom⟩ := H.first
  have hfu := fuel_doc H.ok
  have hfe := feeds_doc H hc
  rw [ht] at hfu hfe
  rw [hc] at hfu
  have h2 := Lemmas.WriterChunks.szBlocks_toks (pa ++ [b0] ++ pb)
  have h2' := Lemmas.WriterChunks.szBlocks_toks post
  have h3 := heads_blocks (pa ++ [b0] ++ pb)
  have h3' := heads_blocks post
  have h4 := Lemmas.WriterChunks.szItems_toks body
  simp only [List.length_append, List.length_cons, heads_append, heads, hd, if_true] at hfu
  obtain ⟨f, hf⟩ : ∃ f, fuelFor (c :: rest) = f + post.length + 1 + (pa ++ [b0] ++ pb).length :=
    ⟨fuelFor (c :: rest) - post.length - 1 - (pa ++ [b0] ++ pb).length, by omega⟩
  have hcode' : ∀ x ∈ denote o.dia o.normKey pa ++ denote o.dia o.normKey pb, codeIs o.norm (o.norm code) x = false := by
    intro x hx
    have : x ∈ denote o.dia o.normKey (pa ++ pb) := by simpa [denote] using hx
    obtain ⟨y, hy, hcy⟩ := denote_code this
    simp only [codeIs, hcy, beq_eq_false_iff_ne, ne_eq]
    exact hab y hy
  obtain ⟨s', r, h, hr, hrep⟩ := C12_dup_blockcode_at o H.store hmfd (pa ++ [b0] ++ pb) post code b0.code body [] bseen2
    (normNames o (denoteElems o.dia o.normKey b0.body [] []).2) _ f { log := [], cif := [] }
    (denote o.dia o.normKey pa) (denote o.dia o.normKey pb) (denoteElems o.dia o.normKey b0.body [] []).1
    (denoteElems o.dia o.normKey b0.body [] []).2 hpre (by intro x hx; cases hx) hcode hk
    (by simp [denote, denoteBlock])
    (fun x hx => hcode' x (List.mem_append_left _ hx)) (fun x hx => hcode' x (List.mem_append_right _ hx))
    hwb (fun _ h => h) (allPacked_denoteElems o b0.body [] [] [] [] hwb0 (by intro l hl; cases hl)) hpost
    (by
      intro x hx
      simp only [List.nil_append] at hx
      obtain ⟨y, hy, hcy⟩ := denote_code hx
      rw [hcy]; exact hseen2 y hy)
    (by omega)
    (by simpa [List.append_assoc] using hfe)
  rw [← hf] at h
  have hS : ({ scan := Scan.init (renderChunks cs), tok := none } : PS) = { scan := Scan.init (c :: rest), tok := none } := by rw [hc]
  rw [← hS] at hrep
  refine ⟨r, ?_, hr, repAt_line o cs H.ok H.fit (by rw [ht]; simp only [List.length_append]; omega) hrep⟩
  rw [hc, parse_of_blocks o acceptAll c rest s' _ H.utf hfirst hbom h]
  simp [denote, denoteBlock, denoteElems_append, denoteElems_map_plain]


/-! ### the save-frame classes (Props/C12Lex): any ELEMENTS (items, loops, frames) of the data block before and behind -/

/-- a defect among the elements of a data block -/
structure ElemHost (o : Opts) (cs : List Chunk) (preB postB : List Block) (bc : Str) (pre post : List Elem) (D : List TokSpec) : Prop
    extends TextOk o cs, BlocksOk o preB postB bc where
  hToks : toks cs = blocksToks preB ++ ((.blockHead, bc) :: ((elemsToks pre ++ (D ++ elemsToks post)) ++ blocksToks postB))
  wfRun : wfElems o pre [] [] = true

theorem ElemHost.fresh' {o : Opts} {cs : List Chunk} {preB postB : List Block} {bc : Str} {pre post : List Elem} {D : List TokSpec}
    (H : ElemHost o cs preB postB bc pre post D) : ∀ c ∈ denote o.dia o.normKey preB, codeIs o.norm (o.norm bc) c = false := by
  intro x hx
  obtain ⟨b, hb, hcb⟩ := denote_code hx
  simp only [codeIs, hcb, beq_eq_false_iff_ne, ne_eq]
  exact H.fresh b hb

/-- the common frame of the element-level classes; `hstep`: the statement of the class theorem in the block, with the tokens that
    really follow the block -/
theorem elems_class {o : Opts} {cs : List Chunk} {preB postB : List Block} {bc : Str} {pre post : List Elem} {D : List TokSpec}
    (H : ElemHost o cs preB postB bc pre post D) (fs' : List Container) (ls' : List Loop) (C : Code) (K : Nat)
    (Q : PS → Report → Prop) (hK : K ≤ 2 * D.length + 18)
    (hstep : ∀ (s1 : PS) (w1 : W) (f : Nat), w1.cif = denote o.dia o.normKey preB ++ [.mk bc [] []] →
        szElems pre + szElems post + K + 1 ≤ f →
        Feeds o s1 (elemsToks pre ++ (D ++ (elemsToks post ++ (blocksToks postB ++ [(.end_, [])])))) →
        ∃ s2 r, elemsLoop o (f + post.length + 1 + pre.length) s1 (some [o.norm bc]) true acceptAll w1
            = elemsLoop o f s2 (some [o.norm bc]) true acceptAll
                { log := r :: w1.log, cif := denote o.dia o.normKey preB ++ [.mk bc fs' ls'] }
          ∧ r.code = C ∧ Feeds o s2 (blocksToks postB ++ [(.end_, [])]) ∧ Q s1 r) :
    ∃ r, parse o acceptAll [] (renderChunks cs)
        = { rc := 0, log := [r],
            cif := denote o.dia o.normKey preB ++ pruneC (.mk bc fs' ls') :: denote o.dia o.normKey postB }
      ∧ r.code = C
      ∧ ∃ s1, At o { scan := Scan.init (renderChunks cs), tok := none } ((blocksToks preB).length + 1) s1 ∧ Q s1 r := by
  obtain ⟨c, rest, hc, hfirst, hbom⟩ := H.first
  have hsz1 := (Lemmas.WriterChunks.szElems_toks pre)
  have hsz2 := (Lemmas.WriterChunks.szElems_toks post)
  refine block_defect_chars o H.store H.mfd H.utf cs c rest preB postB bc (elemsToks pre ++ (D ++ elemsToks post)) fs' ls' C
    (post.length + 1 + pre.length) (szElems pre + szElems post + K + 1) _ Q H.ok H.fit hc hfirst hbom H.hToks H.wfPreB H.wfBc H.fresh
    H.wfPostB (fun b hb => List.mem_cons_of_mem _ (List.mem_map.mpr ⟨b, hb, rfl⟩)) List.mem_cons_self
    (by simp only [List.length_append]; omega) ?_
  intro s1 w1 f hw1 hf hF1
  have := hstep s1 w1 f hw1 hf (by simpa [List.append_assoc] using hF1)
  simpa [Nat.add_assoc] using this

/-- … when the class theorem leaves what the elements `es` denote and no loop of the block is empty -/
theorem elems_class_doc {o : Opts} {cs : List Chunk} {preB postB : List Block} {bc : Str} {pre post : List Elem} {D : List TokSpec}
    (H : ElemHost o cs preB postB bc pre post D) (es : List Elem) (C : Code) (K : Nat) (hK : K ≤ 2 * D.length + 18)
    (hpk : allPacked (denoteElems o.dia o.normKey es [] []).2)
    (hstep : ∀ (s1 : PS) (w1 : W) (f : Nat), w1.cif = denote o.dia o.normKey preB ++ [.mk bc [] []] →
        szElems pre + szElems post + K + 1 ≤ f →
        Feeds o s1 (elemsToks pre ++ (D ++ (elemsToks post ++ (blocksToks postB ++ [(.end_, [])])))) →
        ∃ s2 r, elemsLoop o (f + post.length + 1 + pre.length) s1 (some [o.norm bc]) true acceptAll w1
            = elemsLoop o f s2 (some [o.norm bc]) true acceptAll
                { log := r :: w1.log,
                  cif := denote o.dia o.normKey preB ++ [.mk bc (denoteElems o.dia o.normKey es [] []).1 (denoteElems o.dia o.normKey es [] []).2] }
          ∧ r.code = C ∧ Feeds o s2 (blocksToks postB ++ [(.end_, [])])) :
    OneReport o cs C (preB ++ [{ code := bc, body := es }] ++ postB) := by
  obtain ⟨r, h, hr, _⟩ := elems_class H _ _ C K (fun _ _ => True) hK (fun s1 w1 f a b c => by
    obtain ⟨s2, r, h1, h2, h3⟩ := hstep s1 w1 f a b c
    exact ⟨s2, r, h1, h2, h3, trivial⟩)
  exact ⟨r, by rw [h, pruneC_packed _ _ _ hpk]; simp [denote, denoteBlock], hr⟩

/-- … with the position of the report (`hstep`: the `_at` form of the class theorem) -/
theorem elems_class_doc_at {o : Opts} {cs : List Chunk} {preB postB : List Block} {bc : Str} {pre post : List Elem} {D : List TokSpec}
    (H : ElemHost o cs preB postB bc pre post D) (es : List Elem) (C : Code) (K j : Nat) (hK : K ≤ 2 * D.length + 18)
    (hj : j ≤ (elemsToks pre).length + D.length)
    (hpk : allPacked (denoteElems o.dia o.normKey es [] []).2)
    (hstep : ∀ (s1 : PS) (w1 : W) (f : Nat), w1.cif = denote o.dia o.normKey preB ++ [.mk bc [] []] →
        szElems pre + szElems post + K + 1 ≤ f →
        Feeds o s1 (elemsToks pre ++ (D ++ (elemsToks post ++ (blocksToks postB ++ [(.end_, [])])))) →
        ∃ s2 r, elemsLoop o (f + post.length + 1 + pre.length) s1 (some [o.norm bc]) true acceptAll w1
            = elemsLoop o f s2 (some [o.norm bc]) true acceptAll
                { log := r :: w1.log,
                  cif := denote o.dia o.normKey preB ++ [.mk bc (denoteElems o.dia o.normKey es [] []).1 (denoteElems o.dia o.normKey es [] []).2] }
          ∧ r.code = C ∧ Feeds o s2 (blocksToks postB ++ [(.end_, [])]) ∧ RepAt o s1 j r) :
    OneReportAt o cs C (preB ++ [{ code := bc, body := es }] ++ postB) ((blocksToks preB).length + 1 + j) := by
  obtain ⟨r, h, hr, hat⟩ := elems_class H _ _ C K (fun s1 r => RepAt o s1 j r) hK hstep
  refine ⟨r, by rw [h, pruneC_packed _ _ _ hpk]; simp [denote, denoteBlock], hr, ?_⟩
  refine line_of_block H.toTextOk ?_ hat
  rw [H.hToks]
  simp only [List.length_append, List.length_cons]
  omega

/-- loops of the block around a frame: none is empty -/
theorem allPacked_around (o : Opts) (pre post : List Elem) (fc : Str) (body : List Item) (seen2 fseen2 : List Str)
    (hpre : wfElems o pre [] [] = true) (hpost : wfElems o post seen2 fseen2 = true) :
    allPacked (denoteElems o.dia o.normKey (pre ++ [.frame fc (body.map Elem.plain)] ++ post) [] []).2 := by
  rw [denoteElems_append, denoteElems_append]
  refine allPacked_denoteElems o post seen2 fseen2 _ _ hpost ?_
  simp only [denoteElems]
  exact allPacked_denoteElems o pre [] [] [] [] hpre (by intro l hl; cases hl)

/-- **C12_chars_invalid_framecode** — a save frame whose code is not a valid frame code.  One report, CIF_INVALID_FRAMECODE; the
    content is that of the document as it stands (the code is used anyway). -/
theorem C12_chars_invalid_framecode (o : Opts) (cs : List Chunk) (preB postB : List Block) (bc : Str) (pre post : List Elem)
    (fc : Str) (body : List Item) (seen2 fseen2 : List Str)
    (H : ElemHost o cs preB postB bc pre post ((.frameHead, fc) :: (itemsToks body ++ [(.frameTerm, [])])))
    (hn0 : noNul fc = true) (hinv : isValidName false fc = false)
    (hnew : ∀ c ∈ (denoteElems o.dia o.normKey pre [] []).1, codeIs o.norm (o.norm fc) c = false)
    (hwb : wfItems o body [] = true) (hpost : wfElems o post seen2 fseen2 = true)
    (hseen2 : ∀ k ∈ normNames o (denoteElems o.dia o.normKey (pre ++ [.frame fc (body.map Elem.plain)]) [] []).2, k ∈ seen2)
    (hfseen2 : ∀ c ∈ (denoteElems o.dia o.normKey (pre ++ [.frame fc (body.map Elem.plain)]) [] []).1, o.norm c.code ∈ fseen2) :
    OneReportAt o cs CIF_INVALID_FRAMECODE (preB ++ [{ code := bc, body := pre ++ [.frame fc (body.map Elem.plain)] ++ post }] ++ postB)
      ((blocksToks preB).length + 1 + ((elemsToks pre).length + 0)) := by
  have h4 := Lemmas.WriterChunks.szItems_toks body
  refine elems_class_doc_at H _ CIF_INVALID_FRAMECODE (szItems body + body.length + 3) _
    (by simp only [List.length_cons, List.length_append, List.length_nil]; omega) (by omega)
    (allPacked_around o pre post fc body seen2 fseen2 H.wfRun hpost) ?_
  intro s1 w1 f hw1 hf hF1
  obtain ⟨s2, r, h1, h2, h3, h4, _⟩ := C12_invalid_framecode_at o _ bc H.fresh' H.mfd pre post fc body [] [] seen2 fseen2 _ s1 f w1 [] [] hw1 H.wfRun (nil_seen o)
    (by intro c hc; cases hc) hn0 hinv hnew hwb hpost hseen2 hfseen2 (by omega) (blockFollow_term (blocks_rest_head postB)) hF1

  exact ⟨s2, r, h1, h2, h3, h4⟩

/-- **C12_chars_eof_in_frame** — the input ends inside a save frame (the last construct of the last block).  One report,
    CIF_EOF_IN_FRAME; the content is that of the document with the frame terminated. -/
theorem C12_chars_eof_in_frame (o : Opts) (cs : List Chunk) (preB : List Block) (bc : Str) (pre : List Elem)
    (fc : Str) (body : List Item) (H : ElemHost o cs preB [] bc pre [] ((.frameHead, fc) :: itemsToks body))
    (hcode : wfCode fc = true) (hnew : ∀ c ∈ (denoteElems o.dia o.normKey pre [] []).1, codeIs o.norm (o.norm fc) c = false)
    (hwb : wfItems o body [] = true) :
    OneReportAt o cs CIF_EOF_IN_FRAME (preB ++ [{ code := bc, body := pre ++ [.frame fc (body.map Elem.plain)] }] ++ [])
      ((blocksToks preB).length + 1 + ((elemsToks pre).length + (1 + (itemsToks body).length))) := by
  have h4 := Lemmas.WriterChunks.szItems_toks body
  have hpk := allPacked_around o pre [] fc body [] [] H.wfRun rfl
  rw [List.append_nil] at hpk
  refine elems_class_doc_at H _ CIF_EOF_IN_FRAME (szItems body + body.length + 3) _
    (by simp only [List.length_cons]; omega) (by simp only [List.length_cons]; omega) hpk ?_
  intro s1 w1 f hw1 hf hF1
  obtain ⟨s2, r, h1, h2, h3, h4, _⟩ := C12_eof_in_frame_at o _ bc H.fresh' H.mfd pre fc body [] [] [] [] s1 f w1 [] [] hw1 H.wfRun (nil_seen o)
    (by intro c hc; cases hc) hcode hnew hwb (by simp only [szElems] at hf; omega) (by simpa [elemsToks, blocksToks] using hF1)
  exact ⟨s2, r, by simpa using h1, h2, by simpa [blocksToks] using h3, h4⟩

/-- **C12_chars_no_frame_term** — a data block header inside a save frame (the last construct of its block).  One report,
    CIF_NO_FRAME_TERM; the content is that of the document with the frame terminated in front of the header. -/
theorem C12_chars_no_frame_term (o : Opts) (cs : List Chunk) (preB postB : List Block) (b : Block) (bc : Str) (pre : List Elem)
    (fc : Str) (body : List Item) (H : ElemHost o cs preB (b :: postB) bc pre [] ((.frameHead, fc) :: itemsToks body))
    (hcode : wfCode fc = true) (hnew : ∀ c ∈ (denoteElems o.dia o.normKey pre [] []).1, codeIs o.norm (o.norm fc) c = false)
    (hwb : wfItems o body [] = true) :
    OneReportAt o cs CIF_NO_FRAME_TERM (preB ++ [{ code := bc, body := pre ++ [.frame fc (body.map Elem.plain)] }] ++ b :: postB)
      ((blocksToks preB).length + 1 + ((elemsToks pre).length + (1 + (itemsToks body).length))) := by
  have h4 := Lemmas.WriterChunks.szItems_toks body
  have hpk := allPacked_around o pre [] fc body [] [] H.wfRun rfl
  rw [List.append_nil] at hpk
  refine elems_class_doc_at H _ CIF_NO_FRAME_TERM (szItems body + body.length + 3) _
    (by simp only [List.length_cons]; omega) (by simp only [List.length_cons]; omega) hpk ?_
  intro s1 w1 f hw1 hf hF1
  obtain ⟨s2, r, h1, h2, h3, h4, _⟩ := C12_no_frame_term_at o _ bc H.fresh' H.mfd pre fc body [] [] b.code (elemsToks b.body ++ (blocksToks postB ++ [(.end_, [])]))
    s1 f w1 [] [] hw1 H.wfRun (nil_seen o)
    (by intro c hc; cases hc) hcode hnew hwb (by simp only [szElems] at hf; omega) (by simpa [elemsToks, blocksToks] using hF1)
  exact ⟨s2, r, by simpa using h1, h2, by simpa [blocksToks] using h3, h4⟩

/-- **C12_chars_frame_nesting_depth** — a frame header inside a save frame while frames do not nest (`max_frame_depth = 1`).  One
    report, CIF_NO_FRAME_TERM; the content is that of the document with the first frame terminated in front of the second, which
    becomes its sibling. -/
theorem C12_chars_frame_nesting_depth (o : Opts) (cs : List Chunk) (preB postB : List Block) (bc : Str) (pre post : List Elem)
    (fc fc2 : Str) (body body2 : List Item) (seen2 fseen2 : List Str) (hmfd : o.maxFrameDepth = 1)
    (H : ElemHost o cs preB postB bc pre (.frame fc2 (body2.map Elem.plain) :: post) ((.frameHead, fc) :: itemsToks body))
    (hcode : wfCode fc = true) (hnew : ∀ c ∈ (denoteElems o.dia o.normKey pre [] []).1, codeIs o.norm (o.norm fc) c = false)
    (hwb : wfItems o body [] = true) (hpost : wfElems o (.frame fc2 (body2.map Elem.plain) :: post) seen2 fseen2 = true)
    (hseen2 : ∀ k ∈ normNames o (denoteElems o.dia o.normKey (pre ++ [.frame fc (body.map Elem.plain)]) [] []).2, k ∈ seen2)
    (hfseen2 : ∀ c ∈ (denoteElems o.dia o.normKey (pre ++ [.frame fc (body.map Elem.plain)]) [] []).1, o.norm c.code ∈ fseen2) :
    OneReportAt o cs CIF_NO_FRAME_TERM
      (preB ++ [{ code := bc, body := pre ++ [.frame fc (body.map Elem.plain)] ++ .frame fc2 (body2.map Elem.plain) :: post }] ++ postB)
      ((blocksToks preB).length + 1 + ((elemsToks pre).length + (1 + (itemsToks body).length))) := by
  have h4 := Lemmas.WriterChunks.szItems_toks body
  refine elems_class_doc_at H _ CIF_NO_FRAME_TERM (szItems body + body.length + 3) _
    (by simp only [List.length_cons]; omega) (by simp only [List.length_cons]; omega)
    (allPacked_around o pre _ fc body seen2 fseen2 H.wfRun hpost) ?_
  intro s1 w1 f hw1 hf hF1
  obtain ⟨s2, r, h1, h2, h3, h4, _⟩ := C12_frame_nesting_depth_at o _ bc H.fresh' hmfd pre post fc fc2 body body2 [] [] seen2 fseen2 _ s1 f w1 [] [] hw1 H.wfRun
    (nil_seen o) (by intro c hc; cases hc) hcode hnew hwb hpost hseen2 hfseen2 (by omega)
    (blockFollow_term (blocks_rest_head postB)) hF1
  exact ⟨s2, r, by simpa using h1, h2, h3, h4⟩


/-- **C12_chars_dup_framecode** — a save frame header whose normalised code an earlier frame of the block has (any spelling), with
    items `body` and its terminator.  One report, CIF_DUP_FRAMECODE; the existing frame (`fc0`, wherever it stands among the frames
    `fa ++ _ :: fb` the elements in front denote) receives the items, everything else is as the document says.
    (Content stated as the token-level theorem states it: the frames and loops of the block.) -/
theorem C12_chars_dup_framecode (o : Opts) (cs : List Chunk) (preB postB : List Block) (bc : Str) (pre post : List Elem)
    (fc fc0 : Str) (body : List Item) (seen2 fseen2 bseen : List Str) (fa fb ffs : List Container) (fls : List Loop)
    (H : ElemHost o cs preB postB bc pre post ((.frameHead, fc) :: (itemsToks body ++ [(.frameTerm, [])])))
    (hcode : wfCode fc = true) (hk : o.norm fc0 = o.norm fc)
    (hsplit : (denoteElems o.dia o.normKey pre [] []).1 = fa ++ .mk fc0 ffs fls :: fb)
    (ha : ∀ c ∈ fa, codeIs o.norm (o.norm fc) c = false) (hb : ∀ c ∈ fb, codeIs o.norm (o.norm fc) c = false)
    (hwb : wfItems o body bseen = true) (hbseen : ∀ k ∈ normNames o fls, k ∈ bseen) (hpk : allPacked fls)
    (hpost : wfElems o post seen2 fseen2 = true)
    (hseen2 : ∀ k ∈ normNames o (denoteElems o.dia o.normKey pre [] []).2, k ∈ seen2)
    (hfseen2 : ∀ c ∈ (denoteElems o.dia o.normKey pre [] []).1, o.norm c.code ∈ fseen2) :
    ∃ r, parse o acceptAll [] (renderChunks cs)
        = { rc := 0, log := [r],
            cif := denote o.dia o.normKey preB ++
              .mk bc (denoteElems o.dia o.normKey post (fa ++ .mk fc0 ffs (denoteItems o.dia o.normKey body fls) :: fb)
                        (denoteElems o.dia o.normKey pre [] []).2).1
                     (denoteElems o.dia o.normKey post (fa ++ .mk fc0 ffs (denoteItems o.dia o.normKey body fls) :: fb)
                        (denoteElems o.dia o.normKey pre [] []).2).2 :: denote o.dia o.normKey postB }
      ∧ r.code = CIF_DUP_FRAMECODE
      ∧ (r.line = endLine cs ((blocksToks preB).length + 1 + ((elemsToks pre).length + 0))
          ∨ r.line = endLine cs ((blocksToks preB).length + 1 + ((elemsToks pre).length + 0) + 1)) := by
  have h4 := Lemmas.WriterChunks.szItems_toks body
  obtain ⟨r, h, hr, hat⟩ := elems_class H _ _ CIF_DUP_FRAMECODE (szItems body + body.length + 3)
    (fun s1 r => RepAt o s1 ((elemsToks pre).length + 0) r)
    (by simp only [List.length_cons, List.length_append, List.length_nil]; omega)
    (fun s1 w1 f hw1 hf hF1 => by
      obtain ⟨s2, r, h1, h2, h3, h4, _⟩ := C12_dup_framecode_at o _ bc H.fresh' H.mfd pre post fc fc0 body [] [] seen2 fseen2 bseen _ s1 f w1 [] fa fb ffs [] fls hw1 H.wfRun
        (nil_seen o) (by intro c hc; cases hc) hcode hk hsplit ha hb hwb hbseen hpk hpost hseen2 hfseen2 (by omega)
        (blockFollow_term (blocks_rest_head postB)) hF1
      exact ⟨s2, r, h1, h2, h3, h4⟩)
  have hline := line_of_block H.toTextOk (by
    rw [H.hToks]
    simp only [List.length_append, List.length_cons]
    omega) hat
  refine ⟨r, ?_, hr, hline⟩
  rw [h, pruneC_packed]
  exact allPacked_denoteElems o post seen2 fseen2 _ _ hpost
    (allPacked_denoteElems o pre [] [] [] [] H.wfRun (by intro l hl; cases hl))


/-! ### non-vacuity: the hypotheses are satisfiable (a text with a comment and varying whitespace) -/

namespace C12Chars
def exCs : List Chunk :=
  [.tk (.data (a!"a")), .ws [.eol], .tk (.name (a!"_x")), .ws [.blank 32, .comment (a!" no value"), .eol],
   .tk (.name (a!"_y")), .ws [.blank 32, .blank 32], .tk (.val .squote (a!"v w")), .ws [.eol]]

macro "wok" : tactic => `(tactic|
  (refine ⟨List.all_eq_true.mp (by decide), ?_⟩
   first
   | exact Or.inl rfl
   | (right; intro b rest h; cases h)))

theorem exOk : okC .cif2 .end_ [] exCs := by
  simp only [exCs, okC, List.nil_append]
  refine ⟨?_, ?_, ?_, ?_, ?_, ?_, ?_, ?_, ?_, ?_, ?_, ?_, ?_, ?_, ?_, ?_, ?_⟩
  all_goals first | decide | (intro h; cases h) | wok


theorem exHost : ItemHost C12.opts2 exCs [] [] (a!"a") [] [.item (a!"_y") (.str (a!"v w") .squote)] [(.name, a!"_x")] where
  store := rfl
  utf := rfl
  ok := exOk
  fit := by decide
  first := ⟨100, _, rfl, by decide, by decide⟩
  mfd := by decide
  wfPreB := rfl
  wfBc := by decide
  fresh := by intro b hb; cases hb
  wfPostB := rfl
  hToks := by decide
  wfRun := rfl

/-- non-vacuity: a text with a comment and varying whitespace around a name without value; the report is `2` tokens into the
    text (behind `_x`, the following `_y` pending) -/
theorem C12_chars_missing_value_instance :
    OneReportAt C12.opts2 exCs CIF_MISSING_VALUE
      [plainBlock (a!"a") [.item (a!"_x") .unk, .item (a!"_y") (.str (a!"v w") .squote)]] 2 :=
  C12_chars_missing_value C12.opts2 exCs [] [] (a!"a") [] _ (a!"_x") [a!"_x"] exHost (by decide) (by simp [normNames, denoteItems])
    (by decide) (by intro k hk; simpa [normNames, denoteItems, putScalar, C12.opts2, C12.lower] using hk)

/-- … i.e. on line 2 (where `_x` ends) or line 4 (where `_y` ends: the comment ends line 2, an empty line follows) of the text -/
theorem C12_chars_instance_lines : endLine exCs 2 = 2 ∧ endLine exCs 3 = 4 := by decide

end C12Chars

end CifModel.Props
