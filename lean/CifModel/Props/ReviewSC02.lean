import CifModel.Props.C02Total
/-
  Review rB — instances for the C02 theorems of group gT (C02Total.lean).  Nothing here proves anything new: every `example` APPLIES a
  REQUIRED theorem to concrete data, or exhibits a weakness of a statement.
-/
namespace CifModel.ReviewSC02
open CifModel Model Model.Writer Lemmas.WriterTotal Lemmas.WriterKeys

-- ---- (1) WEAKNESS: the "specification" `keyWritable` is `keyPresented` up to unfolding -----------------------------------------------
-- `C02_refused_key_unwritable : keyPresented key = keyWritable key` holds by `rfl`: the spec side is the same term (`a + 3 < L` is
-- `a + 4 ≤ L` by definition of `<` on `Nat`), so the theorem cannot disagree with the writer whatever the writer does.
example (k : Str) : keyPresented k = keyWritable k := rfl

-- ---- (2) `C02_total_iff`, second arm, applied: a key holding `'''` and `"""` on one line is not presented, so cif_write fails with 62 ---
private def badKey : Str := [39, 39, 39, 34, 34, 34]

private theorem ok_tableOf (key : Str) : containersOk (C02Total.tableOf key) := by
  simp [C02Total.tableOf, C02Doc.oneItem, containersOk, containerOk, loopOk, itemsOk, isScalars, valueOk, entriesOk, nameOk,
    Writer.countChar32, LINE]

private theorem clean_bad : containersClean false (C02Total.tableOf badKey) := by
  refine ⟨⟨trivial, ?_⟩, trivial⟩
  intro l hl p hp nv hnv
  simp only [List.mem_singleton] at hl
  subst hl
  simp only [List.mem_singleton] at hp
  subst hp
  simp only [List.mem_singleton] at hnv
  subst hnv
  simp only [valueClean, entriesClean, Bool.and_true]
  decide

example : writeCif 0 (C02Total.tableOf badKey) = .error Gen.ErrCodes.CIF_DISALLOWED_VALUE := by
  refine (C02_total_iff _ (ok_tableOf _) clean_bad).2.mpr ⟨badKey, ?_, by decide⟩
  simp [C02Total.tableOf, C02Doc.oneItem, containersKeys, containerKeys, loopsKeys, packetsKeys, itemsKeys, valueKeys, entriesKeys]

-- … and, first arm read backwards: it is NOT written
example : ¬ ∃ out, writeCif 0 (C02Total.tableOf badKey) = .ok out := by
  intro h
  have := (C02_total_iff _ (ok_tableOf _) clean_bad).1.mp h badKey
    (by simp [C02Total.tableOf, C02Doc.oneItem, containersKeys, containerKeys, loopsKeys, packetsKeys, itemsKeys, valueKeys, entriesKeys])
  revert this
  decide

end CifModel.ReviewSC02
