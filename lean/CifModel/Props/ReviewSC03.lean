import CifModel.Props.C03Store
/-
  Review rB, part gX, property C03 (Props/C03Store.lean, the composition parser model → store model of group gX).

  Instances that APPLY `C03_parser_store_refines_total` / `C03_store_inv_after_parse` / `C03_parse_is_store_history` to parses the
  older theorems did not reach: a LENIENT creation (the anonymous block after an accepted CIF_NO_BLOCK_HEADER), a parse ABORTED by the
  callback after store calls were made.  The conclusions are not evaluated (the
  kernel does not get through `Store.run`, see the note in C03Store.lean); what is evaluated is that the instances are the
  interesting ones (the trace has a lenient creation / the parse was aborted / the result is not the empty CIF).
-/
namespace CifModel.ReviewSC03
open CifModel Model Model.Parser Model.Lexer

/-- accepts the first report, answers the second with 7777 (no error code of the library) -/
def pol1 : Policy := fun i _ => if i = 1 then 7777 else 0

/-- no block header (CIF_NO_BLOCK_HEADER: anonymous block, created LENIENTLY), `_x`, then the duplicate `_X`: second report, aborted -/
def docL : Str := a!"_x 1 _X 2 _y 3"

set_option maxRecDepth 1000000 in
/-- what the parse of `docL` is: aborted with the callback's 7777; the trace contains a LENIENT block creation; the result is one block -/
theorem docL_facts :
    (parse C03.opts2 pol1 [] docL).rc = 7777 ∧
    ((storeTrace C03.opts2 pol1 [] docL).any fun | .mkBlock _ true => true | _ => false) = true ∧
    (parse C03.opts2 pol1 [] docL).cif.length = 1 := by decide +kernel

/-- **`C03_parser_store_refines_total` on the aborted parse with a lenient creation**: the translated history exists, every call of it is
    CIF_OK in the store model, and the store shows the parser model's CIF — which is not the empty CIF -/
example : (∃ ops, storeOps C03.opts2 (storeTrace C03.opts2 pol1 [] docL) = some ops ∧ (storeRun ops).2 = true ∧
      ∃ s, (storeRun ops).1 = some s ∧ Store.abs s.db = (parse C03.opts2 pol1 [] docL).cif) ∧
    (parse C03.opts2 pol1 [] docL).cif ≠ [] := by
  refine ⟨C03_parser_store_refines_total C03.opts2 pol1 docL, ?_⟩
  intro e
  have h := docL_facts.2.2
  rw [e] at h
  cases h

/-- the history of that parse is in contract and the store invariant holds afterwards (no hypothesis: the translation exists) -/
example : ∃ ops, storeOps C03.opts2 (storeTrace C03.opts2 pol1 [] docL) = some ops ∧
    Store.inContractHist {} ops = true ∧ Store.WOk (Store.run {} ops).1 := by
  obtain ⟨ops, hso⟩ := C03_storeOps_total C03.opts2 pol1 docL
  exact ⟨ops, hso, (C03_parse_is_store_history C03.opts2 pol1 docL ops hso).1, (C03_store_inv_after_parse C03.opts2 pol1 docL ops hso).1⟩

/-! ### the `lenient` flag is what makes the first call of that history succeed -/

def okB {ε α} : Except ε α → Bool | .ok _ => true | .error _ => false

set_option maxRecDepth 1000000 in
/-- the anonymous block's code `""` is no valid block code: the STRICT creation is refused by the store model (CIF_INVALID_BLOCKCODE), the
    lenient one succeeds — so `(storeRun ops).2 = true` above depends on the flag the parser model recorded -/
example : isValidName false ([] : Str) = false ∧
    okB (Store.createBlock {} (some (mkName C03.opts2 false [])) false).2 = false ∧
    okB (Store.createBlock {} (some (mkName C03.opts2 false [])) true).2 = true := by decide +kernel

/-! ### `o.store = false` (no target): the statement is about a parse that makes no store call -/

def optsN : Opts := { C03.opts2 with store := false }

set_option maxRecDepth 1000000 in
/-- without a target the trace is empty and the model's CIF is `[]`: for these option records `C03_parser_store_refines` says
    `Store.abs {} = []` (true, and empty of content — no weakness, the quantifier over `o` simply includes them) -/
example : (storeTrace optsN acceptAll [] (a!"data_a _x 1")).length = 0 ∧ (parse optsN acceptAll [] (a!"data_a _x 1")).cif.length = 0 := by
  decide +kernel

end CifModel.ReviewSC03
