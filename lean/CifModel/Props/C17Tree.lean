import CifModel.Model.LadderTree
import CifModel.Spec.HeapTrace
import CifModel.Lemmas.LadderTree
/-
  Property C17 (clean-up ladders, part 3: arbitrarily nested values) — cif_value_clone and cif_value_deserialize for ANY
  value tree: tables inside lists inside tables …, every table with its own uthash bookkeeping (table header and bucket
  array on its first insertion, a doubled bucket array whenever a bucket chain reaches the expansion threshold; hash
  function and thresholds regenerated from uthash.h into Gen/Uthash.lean).

  Model: Model/LadderTree.lean (`cloneV`, `deserV`; one mutual structural recursion over `VShape`), tied to the real
  functions by family `ladder` (subcommands `vclone`, `vdeser`: the event pattern of the real call for every fault
  position of every generated tree, keys crafted so that bucket expansions happen in nested tables too).

  As in Props/C17.lean: `failAt` = the number (counted over the whole trace) of the request that fails, 0 = none;
  `Balanced evs owned` (Spec/HeapTrace.lean) = the events respect malloc/free's contract (no double free, no invalid
  free, no block handed out while live) and afterwards EXACTLY `owned` is live.  The call starts in ANY state `s` in
  which the blocks `rest` are live (the source value, everything else the caller owns): `rest` re-appears in the
  conclusion, so no block that existed before the call — in particular none of the source — is released by the call
  (block ids are never re-issued).  `cloneVAllocs sh` / `deserVAllocs b` are functions of the shape alone (uthash's
  bookkeeping is replayed on the hash values of the keys); that they are the number of requests of the fault-free call
  is part of each statement.
-/
namespace CifModel
open Model.Ladder Spec.HeapTrace Lemmas.Ladder

/-- cif_value_clone of ANY value (arbitrary nesting of lists and tables), every fault position:
    * no double / invalid free, and afterwards exactly the blocks of the clone (success) or nothing of the call
      (failure) are live besides `rest` — nothing of a partial copy stays live, nothing of the source is touched;
    * the call fails (NULL clone, CIF_MEMORY_ERROR) IFF the fault position is one of the call's own requests
      `s.count + 1 … s.count + cloneVAllocs sh`, and the fault-free call makes exactly that many requests;
    * on failure the failing request is the last request of the call and its only failed one; on success no request
      failed;
    * a successful clone is well-formed: every table node owns uthash's two blocks iff it has an entry. -/
theorem C17_clone_any_balanced (sh : VShape) (failAt : Nat) (s : St) (rest : List Nat)
    (hb : Balanced s.evs rest) (hc : ∀ i ∈ rest, i ≤ s.count) :
    let r := cloneV failAt sh s
    Balanced r.2.evs ((match r.1 with | some o => o.ids | none => []) ++ rest) ∧
    (r.1.isNone ↔ s.count < failAt ∧ failAt ≤ s.count + cloneVAllocs sh) ∧
    ((cloneV 0 sh s).1.isSome ∧ (cloneV 0 sh s).2.count = s.count + cloneVAllocs sh) ∧
    (r.1.isNone → failIds r.2.evs = failIds s.evs ++ [failAt] ∧ r.2.count = failAt) ∧
    (r.1.isSome → failIds r.2.evs = failIds s.evs ∧ r.2.count = s.count + cloneVAllocs sh) ∧
    (∀ o, r.1 = some o → o.WF) :=
  have h := cloneV_summary failAt sh s rest hb hc
  ⟨h.1, h.2.1, cloneV_faultfree sh s rest hb hc, h.2.2.1, h.2.2.2.1, h.2.2.2.2⟩

/-- cif_value_deserialize of the blob of ANY list or table value (arbitrary nesting) onto an existing object, every
    fault position: balanced; CIF_OK or CIF_MEMORY_ERROR; on success the object gained exactly `g`, on failure nothing
    obtained in the call stays live and nothing that existed is released; CIF_MEMORY_ERROR IFF the fault position is one
    of the call's own requests, the fault-free call making exactly `deserVAllocs b` of them; the failing request is the
    last and only failed one. -/
theorem C17_deser_any_balanced (b : VBlob) (failAt : Nat) (s : St) (rest : List Nat)
    (hb : Balanced s.evs rest) (hc : ∀ i ∈ rest, i ≤ s.count) :
    let r := deserV failAt b s
    Balanced r.2.2.evs ((match r.2.1 with | some g => g | none => []) ++ rest) ∧
    (r.1 = OK ∨ r.1 = MEMORY_ERROR) ∧ (r.1 = OK ↔ r.2.1.isSome) ∧
    (r.1 = MEMORY_ERROR ↔ s.count < failAt ∧ failAt ≤ s.count + deserVAllocs b) ∧
    ((deserV 0 b s).1 = OK ∧ (deserV 0 b s).2.2.count = s.count + deserVAllocs b) ∧
    (r.1 = MEMORY_ERROR → failIds r.2.2.evs = failIds s.evs ++ [failAt] ∧ r.2.2.count = failAt) ∧
    (r.1 = OK → failIds r.2.2.evs = failIds s.evs ∧ r.2.2.count = s.count + deserVAllocs b) :=
  have h := deserV_summary failAt b s rest hb hc
  ⟨h.1, h.2.1, h.2.2.1, h.2.2.2.1, deserV_faultfree b s rest hb hc, h.2.2.2.2.1, h.2.2.2.2.2⟩

/-- releasing a well-formed value (cif_value_free) releases exactly its blocks, each once: with the two theorems above,
    a successful clone / a deserialised element can be given back completely -/
theorem C17_free_any_balanced (o : VOwned) (s : St) (rest : List Nat) (hw : o.WF)
    (hb : Balanced s.evs (o.ids ++ rest)) (hc : ∀ i ∈ o.ids ++ rest, i ≤ s.count) :
    Balanced (freeV o s).evs rest ∧ (freeV o s).count = s.count ∧ failIds (freeV o s).evs = failIds s.evs :=
  have h := freeV_spec o s rest hw ⟨hb, hc⟩
  ⟨h.1.1, h.2.1, h.2.2⟩

/-- on the table-free fragment the request count is the one of C17_clone_balanced (Props/C17.lean) -/
theorem C17_clone_any_extends (sh : Shape) : cloneVAllocs sh.toV = 1 + allocs sh := by
  unfold cloneVAllocs; rw [vallocs_toV]

-- ---------------------------------------------------------------------------------------------------------------
-- non-vacuity: a table { a : [ { b : 'x' } 1.5(2) ] } — a table inside a list inside a table (20 requests)

/-- { a : [ { b : 'x' } 1.5(2) ] } -/
def exTree : VShape := .tbl [([97], .lst [.tbl [([98], .chr)], .numb true])]

example : cloneVAllocs exTree = 20 := by decide +kernel

-- the fault-free clone owns the 18 blocks that are not scratch objects (the scratch object of each of the two entries is released)
example : (cloneV 0 exTree).1.isSome = true ∧ (cloneV 0 exTree).2.count = 20 ∧
    (final (cloneV 0 exTree).2.evs).map List.length = some 18 := by decide +kernel

-- fault at request 12 (the text of the inner table's value): error, and NOTHING of the partial copy stays live
example : (cloneV 12 exTree).1.isNone = true ∧ failIds (cloneV 12 exTree).2.evs = [12] ∧
    final (cloneV 12 exTree).2.evs = some [] := by decide +kernel

-- fault at request 14 (the inner table's uthash bucket array): the table header obtained by request 13 is released too
example : (cloneV 14 exTree).1.isNone = true ∧ final (cloneV 14 exTree).2.evs = some [] ∧
    Ev.free 13 ∈ (cloneV 14 exTree).2.evs := by decide +kernel

-- fault beyond the call: success
example : (cloneV 21 exTree).1.isSome = true := by decide +kernel

-- the hypotheses of the from-any-state form are satisfiable with a non-empty `rest`: blocks 1, 2 live, then a faulted clone
example : Balanced [Ev.alloc 1, Ev.alloc 2] [2, 1] ∧ (∀ i ∈ [2, 1], i ≤ ({ count := 2, evs := [.alloc 1, .alloc 2] } : St).count) ∧
    final (cloneV 9 exTree { count := 2, evs := [.alloc 1, .alloc 2] }).2.evs = some [2, 1] := by
  refine ⟨⟨[2, 1], by decide, List.Perm.refl _⟩, by decide, by decide +kernel⟩

-- the blob of the same value: 17 requests (no value object at the top, no scratch objects; keys as two strings)
example : deserVAllocs (.tbl [([97], .lst [.tbl [([98], .chr)], .numb true])]) = 17 ∧
    (deserV 9 (.tbl [([97], .lst [.tbl [([98], .chr)], .numb true])])).1 = MEMORY_ERROR ∧
    final (deserV 9 (.tbl [([97], .lst [.tbl [([98], .chr)], .numb true])])).2.2.evs = some [] ∧
    (deserV 0 (.tbl [([97], .lst [.tbl [([98], .chr)], .numb true])])).1 = OK := by decide +kernel

-- a list blob with a table element
example : (deserV 4 (.lst [.chr, .tbl [([98], .scalar)]])).1 = MEMORY_ERROR ∧
    final (deserV 4 (.lst [.chr, .tbl [([98], .scalar)]])).2.2.evs = some [] := by decide +kernel

end CifModel
