import CifModel.Props.C07Parser
/-
  Review rB, part gX, property C07: `C07_parser_route_store` (Props/C07Parser.lean).

  The two examples of C07Parser.lean apply the theorem and keep only `rc = CIF_OK` of the set_value; the READ-BACK conjunct — the content
  of C07 — sits behind the hypothesis "the item is new to the container or its loop has a packet", which no instance discharges.
  Here it is discharged (kernel-evaluated Boolean form) for call number 2 of `data_a _x 1 _y 2` (the set_value of `_y`, the container
  already holding `_x`), and the read-back conclusion is obtained.
-/
namespace CifModel.ReviewSC07P
open CifModel Model Model.Parser Model.Lexer

def o : Opts := C07Parser.opts'
def doc : Str := a!"data_a _x 1 _y 2"

/-- Boolean form of the read-back hypothesis of `C07_parser_route_store` for the `j`-th call (its first disjunct) -/
def isNew (j : Nat) : Bool :=
  match (storeTrace o acceptAll [] doc)[j]? with
  | some (.setVal path n _) =>
    (match getIn o.norm path (((storeTrace o acceptAll [] doc).take j).foldl (fun c op => op.apply o c) []) with
     | none => true
     | some cc => !hasItem o.norm cc (o.norm n))
  | _ => false

set_option maxRecDepth 1000000 in
theorem isNew2 : isNew 2 = true := by decide +kernel

/-- call 2 is a set_value; in the composed state it is CIF_OK and the following cif_container_get_value on the same handle under the same
    name delivers the stored value -/
example : ∃ path n v, (storeTrace o acceptAll [] doc)[2]? = some (SOp.setVal path n v) ∧
    ∃ sops h amb, storeOpsFrom o {} ((storeTrace o acceptAll [] doc).take 2) = some sops ∧
      (Store.step (Store.step (Store.run (Store.step {} .cifNew).1 sops).1 (.setVal h (some (mkName o true n)) (some v))).1
          (.getVal h (some (mkName o true n)))).2 =
        { rc := some (if amb = true then Gen.ErrCodes.CIF_AMBIGUOUS_ITEM else Gen.ErrCodes.CIF_OK), out := .value v } := by
  have hb := isNew2
  unfold isNew at hb
  split at hb
  · rename_i path n v hj
    refine ⟨path, n, v, hj, ?_⟩
    obtain ⟨sops, h, hs, _, _, _, hread⟩ := C07_parser_route_store o acceptAll doc 2 path n v hj
    obtain ⟨amb, hamb⟩ := hread (by
      intro cc hcc
      left
      first | rw [hcc] at hb | simp only [hcc] at hb
      simpa using hb)
    exact ⟨sops, h, amb, hs, hamb⟩
  · cases hb

end CifModel.ReviewSC07P
