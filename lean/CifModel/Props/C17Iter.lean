import CifModel.Model.LadderIter
import CifModel.Spec.HeapTrace
import CifModel.Lemmas.LadderIter
/-
  Property C17 (clean-up ladders, part 4: the packet iterator) — cif_loop_get_packets (iterator object, normalised item
  names, the uthash name set; /repo after fe1bb36) and cif_pktitr_next_packet's packet assembly (cif_packet_create_norm with
  key copies, GET_VALUE_PROPS per item — text / number strings / cif_value_deserialize of list and table blobs of ANY
  nesting —, hand-over or release of the packet; /repo after afb74d5, 3148ec3).

  Model: Model/LadderIter.lean, tied to the real functions by family `ladder` (subcommands `getpackets`, `nextpacket`: a
  real CIF in SQLite with one packet, the real call under a fault at every position; only the library's own requests are
  events).  `hs` / the first components of `items` are the HASH_JEN values of the normalised item names in the order of the
  iterator's name array (they decide uthash's requests); every statement holds for EVERY such list (any number of names,
  any bucket collisions, any number of bucket expansions), every stored value and every fault position, from ANY state
  `s` in which `rest` is live — `rest` re-appears in the conclusion: nothing that existed before the call is released.
-/
namespace CifModel
open Model.Ladder Spec.HeapTrace Lemmas.Ladder

/-- cif_loop_get_packets on a stored loop (at least one item name, at least one packet): balanced; CIF_OK or
    CIF_MEMORY_ERROR; on success exactly the iterator's blocks (object, name array, names, set elements, uthash's table
    header and bucket array) are gained, on failure nothing obtained in the call stays live; CIF_MEMORY_ERROR IFF the fault
    position is one of the call's `getPacketsAllocs hs` requests; the failing request is the last and only failed one. -/
theorem C17_get_packets_balanced (hs : List Nat) (hne : hs ≠ []) (failAt : Nat) (s : St) (rest : List Nat)
    (hb : Balanced s.evs rest) (hc : ∀ i ∈ rest, i ≤ s.count) :
    let r := getPackets failAt hs s
    Balanced r.2.2.evs ((match r.2.1 with | some o => o.ids | none => []) ++ rest) ∧
    (r.1 = OK ∨ r.1 = MEMORY_ERROR) ∧ (r.1 = OK ↔ r.2.1.isSome) ∧
    (r.1 = MEMORY_ERROR ↔ s.count < failAt ∧ failAt ≤ s.count + getPacketsAllocs hs) ∧
    (r.1 = MEMORY_ERROR → failIds r.2.2.evs = failIds s.evs ++ [failAt] ∧ r.2.2.count = failAt) ∧
    (r.1 = OK → failIds r.2.2.evs = failIds s.evs ∧ r.2.2.count = s.count + getPacketsAllocs hs) :=
  getPackets_summary failAt hs hne s rest hb hc

/-- cif_pktitr_next_packet's packet assembly, packet handed over (`keep`) or dropped: balanced; CIF_OK or
    CIF_MEMORY_ERROR; on success the caller's new packet owns exactly its blocks (or, dropped, nothing stays live); on
    failure the whole temporary packet — the partially read value included — is released; CIF_MEMORY_ERROR IFF the fault
    position is one of the call's `nextPacketAllocs items` requests; the failing request is the last and only failed one. -/
theorem C17_next_packet_balanced (keep : Bool) (items : List (Nat × ItemVal)) (failAt : Nat) (s : St) (rest : List Nat)
    (hb : Balanced s.evs rest) (hc : ∀ i ∈ rest, i ≤ s.count) :
    let r := nextPacket failAt keep items s
    Balanced r.2.2.evs ((match r.2.1 with | some p => p.ids | none => []) ++ rest) ∧
    (r.1 = OK ∨ r.1 = MEMORY_ERROR) ∧ (r.1 = OK → r.2.1.isSome = keep) ∧ (r.1 = MEMORY_ERROR → r.2.1 = none) ∧
    (r.1 = MEMORY_ERROR ↔ s.count < failAt ∧ failAt ≤ s.count + nextPacketAllocs items) ∧
    (r.1 = MEMORY_ERROR → failIds r.2.2.evs = failIds s.evs ++ [failAt] ∧ r.2.2.count = failAt) ∧
    (r.1 = OK → failIds r.2.2.evs = failIds s.evs ∧ r.2.2.count = s.count + nextPacketAllocs items) :=
  nextPacket_summary failAt keep items s rest hb hc

-- ---------------------------------------------------------------------------------------------------------------
-- non-vacuity

/-- ten names whose hash values share bucket 3 of 32: the 10th insertion expands the bucket array -/
def exHashes : List Nat := [3, 35, 67, 99, 131, 163, 195, 227, 259, 291]

-- 1 iterator + 51 (names) + 10 elements + table header + bucket array + 1 expansion
example : exHashes ≠ [] ∧ getPacketsAllocs exHashes = 65 ∧ (getPackets 0 exHashes).1 = OK ∧ (getPackets 0 exHashes).2.2.count = 65 := by
  decide +kernel

-- the expansion's request (65) fails: CIF_MEMORY_ERROR and nothing stays live, although the 10th element is fully linked
example : (getPackets 65 exHashes).1 = MEMORY_ERROR ∧ failIds (getPackets 65 exHashes).2.2.evs = [65] ∧
    final (getPackets 65 exHashes).2.2.evs = some [] := by decide +kernel

-- uthash's table header for the first element (request 1 + 11 + 2 = 14 for two names) fails: the head element is released directly
example : (getPackets 14 [5, 6]).1 = MEMORY_ERROR ∧ final (getPackets 14 [5, 6]).2.2.evs = some [] := by decide +kernel

/-- a packet with a text, a number with su and a table-in-list value -/
def exItems : List (Nat × ItemVal) := [(5, .chr), (6, .numb true), (7, .blob (.lst [.chr, .tbl [([98], .scalar)]]))]

-- 1 packet + 3 × (entry, key) + 2 (uthash) + 1 + 3 + (array, object, text, object, key, key_orig, entry, table, buckets)
example : nextPacketAllocs exItems = 22 := by decide +kernel

-- fault while the table inside the third value is read: everything, the first two (complete) values included, is released
example : (nextPacket 20 true exItems).1 = MEMORY_ERROR ∧ (nextPacket 20 true exItems).2.1.isNone = true ∧
    final (nextPacket 20 true exItems).2.2.evs = some [] := by decide +kernel

-- fault on the number's su_digits (request 13): the partially read number (text, digits) is released with the packet
example : (nextPacket 13 false exItems).1 = MEMORY_ERROR ∧ final (nextPacket 13 false exItems).2.2.evs = some [] := by decide +kernel

-- no fault: handed over (22 blocks live) / dropped (none)
example : (nextPacket 0 true exItems).1 = OK ∧ ((final (nextPacket 0 true exItems).2.2.evs).map List.length) = some 22 ∧
    (nextPacket 0 false exItems).1 = OK ∧ final (nextPacket 0 false exItems).2.2.evs = some [] := by decide +kernel

end CifModel
