import CifModel.Lemmas.LexDefectMulti
import CifModel.Props.C12Scan
/-
  Props/C12ScanMulti (group gW) — scanner level: SEVERAL defective places in one token, and an unpaired LEAD surrogate ANYWHERE
  (not only in front of a closing quote), for data names, comments, whitespace-delimited values, text fields, quoted and triple-quoted strings (CIF 2.0).

  A token body is `s₀ e₁ s₁ … eₙ sₙ` (`Body`, Lemmas/LexDefectMulti): admissible runs `sᵢ` and events `eᵢ` between them — `Ev.of1`:
  one defective unit (`Defect1`: `C12_disallowed_char`, `C12_invalid_char_trail`), `Ev.lead l x`: an unpaired lead surrogate followed
  by an ordinary character.  Each theorem: accept-all — the token the documented recovery prescribes (type unchanged; text with
  every disallowed character kept, every unpaired surrogate replaced by U+FFFD), EXACTLY the reports of the events — each with
  its code at the token's line and its own column, in order of occurrence —, the scanner goes on behind the token as usual;
  die — the call ends with the code of the OLDEST report.
-/
namespace CifModel
open Model.Chars Model.Lexer Model.Parser Spec.Lexical
open CifModel.Gen.ErrCodes

/-- the oldest report decides under the abort-on-error handler (for a step of the token loop) -/
theorem die_step {dia : Dialect} {aw : Bool} {c : Nat} {r : Str} {line col : Nat} {log d : List Report} {rep : Report} {a : Step}
    (h : stepTok dia aw c r line col acceptAll log = .ok a (d ++ [rep] ++ log)) :
    stepTok dia aw c r line col dieAll log = .abort rep.code (rep :: log) :=
  die_of_accept (stepTok_detl dia aw c r line col) h

/-- **C12_several_defects_name** — a data name with any number of defective places -/
theorem C12_several_defects_name (dia : Dialect) (body : Body) (sN ctx : Str) (line col : Nat) (lt : TokType) (log : List Report)
    (haw : afterWsOf lt = true)
    (hb : ∀ p ∈ body, nonBlankOk dia p.1 = true ∧ EvToWs dia line p.2) (hN : nonBlankOk dia sN = true) (hctx : wsOrEnd ctx = true) :
    nextToken dia ⟨95 :: (body.inp ++ (sN ++ ctx)), line, col, lt⟩ acceptAll log
        = .ok (⟨.name, 95 :: (body.out ++ sN), line, body.col (col + 1) + colAdd sN⟩,
               ⟨ctx, line, body.col (col + 1) + colAdd sN, .name⟩) (body.reps line (col + 1) ++ log)
    ∧ (∀ d r, body.reps line (col + 1) = d ++ [r] →
        nextToken dia ⟨95 :: (body.inp ++ (sN ++ ctx)), line, col, lt⟩ dieAll log = .abort r.code (r :: log)) := by
  have hs := multi_name (dia := dia) body sN ctx line col log hb hN hctx
  refine ⟨stepTok_tok_nextToken (by rw [haw]; exact hs), fun d r hr => ?_⟩
  rw [hr] at hs
  rw [nextToken_cons, haw, die_step hs]

/-- **C12_several_defects_quoted** — a quoted string (CIF 2.0) with at least one, and any number of, defective places -/
theorem C12_several_defects_quoted (q : Nat) (hq : q = 34 ∨ q = 39) (body : Body) (sN ctx : Str) (line col : Nat) (lt : TokType)
    (log : List Report) (haw : afterWsOf lt = true)
    (hb : ∀ p ∈ body, (okUnits .cif2 none p.1 = true ∧ p.1.all (fun x => !isEol x) = true ∧ p.1.all (fun x => x != q) = true)
      ∧ EvDelim .cif2 q line p.2)
    (hne : body ≠ []) (hN : quotedOk .cif2 q sN = true) (hctx : followOk .cif2 ctx = true) :
    nextToken .cif2 ⟨q :: (body.inp ++ (sN ++ q :: ctx)), line, col, lt⟩ acceptAll log
        = .ok (⟨.qvalue, body.out ++ sN, line, body.col (col + 1) + colAdd sN + 1⟩,
               ⟨ctx, line, body.col (col + 1) + colAdd sN + 1, .qvalue⟩) (body.reps line (col + 1) ++ log)
    ∧ (∀ d r, body.reps line (col + 1) = d ++ [r] →
        nextToken .cif2 ⟨q :: (body.inp ++ (sN ++ q :: ctx)), line, col, lt⟩ dieAll log = .abort r.code (r :: log)) := by
  have hs := multi_quoted q hq body sN ctx line col log hb hne hN hctx
  refine ⟨stepTok_tok_nextToken (by rw [haw]; exact hs), fun d r hr => ?_⟩
  rw [hr] at hs
  rw [nextToken_cons, haw, die_step hs]

/-- **C12_several_defects_comment** — a comment with any number of defective places, up to its line terminator (whitespace seen) -/
theorem C12_several_defects_comment (dia : Dialect) (body : Body) (sN R : Str) (line col f : Nat) (log : List Report)
    (hb : ∀ p ∈ body, (okUnits dia none p.1 = true ∧ p.1.all (fun x => !isEol x) = true) ∧ EvToEol dia line p.2)
    (hN : okUnits dia none sN = true) (hNe : sN.all (fun x => !isEol x) = true) :
    tokLoop dia (f + 1) true ⟨35 :: (body.inp ++ (sN ++ 10 :: R)), line, col⟩ acceptAll log
      = tokLoop dia f true ⟨10 :: R, line, body.col (col + 1) + colAdd sN⟩ acceptAll (body.reps line (col + 1) ++ log) :=
  multi_comment body sN R line col f log hb hN hNe

/-- … a comment that ends at the END OF THE INPUT (no line terminator): the reports of the events, then the END token -/
theorem C12_several_defects_comment_eof (dia : Dialect) (body : Body) (sN : Str) (line col f : Nat) (log : List Report)
    (hb : ∀ p ∈ body, (okUnits dia none p.1 = true ∧ p.1.all (fun x => !isEol x) = true) ∧ EvToEol dia line p.2)
    (hN : okUnits dia none sN = true) (hNe : sN.all (fun x => !isEol x) = true) :
    tokLoop dia (f + 2) true ⟨35 :: (body.inp ++ sN), line, col⟩ acceptAll log
      = .ok (⟨.end_, [], line, body.col (col + 1) + colAdd sN⟩, ⟨[], line, body.col (col + 1) + colAdd sN⟩)
          (body.reps line (col + 1) ++ log) :=
  multi_comment_eof body sN line col f log hb hN hNe

/-- **C12_invalid_char_lead_anywhere** — ONE unpaired lead surrogate `l` in the middle of a token (CIF 2.0), followed by an ordinary
    character `x`: in a quoted string, a data name, a comment.  ONE report CIF_INVALID_CHAR, at the column behind `x` (the lead is
    noticed when the next unit turns out not to be a trail surrogate); `l` is replaced by U+FFFD, `x` is kept. -/
theorem C12_invalid_char_lead_anywhere (l x : Nat) (hl : isLeadU l = true) (hx : plainUnit x) (s1 s2 ctx : Str) (line col : Nat)
    (lt : TokType) (log : List Report) (haw : afterWsOf lt = true) :
    -- quoted string
    (∀ q, (q = 34 ∨ q = 39) → x ≠ q → classOf .cif2 x ≠ .eol → okUnits .cif2 none s1 = true → s1.all (fun y => !isEol y) = true →
      s1.all (fun y => y != q) = true → quotedOk .cif2 q s2 = true → followOk .cif2 ctx = true →
      nextToken .cif2 ⟨q :: (s1 ++ l :: x :: (s2 ++ q :: ctx)), line, col, lt⟩ acceptAll log
        = .ok (⟨.qvalue, s1 ++ 0xFFFD :: x :: s2, line, col + 1 + colAdd s1 + 2 + colAdd s2 + 1⟩,
               ⟨ctx, line, col + 1 + colAdd s1 + 2 + colAdd s2 + 1, .qvalue⟩)
            (⟨CIF_INVALID_CHAR, line, col + 1 + colAdd s1 + 2⟩ :: log))
    -- data name
    ∧ (metaOf .cif2 x ≠ .ws → nonBlankOk .cif2 s1 = true → nonBlankOk .cif2 s2 = true → wsOrEnd ctx = true →
      nextToken .cif2 ⟨95 :: (s1 ++ l :: x :: (s2 ++ ctx)), line, col, lt⟩ acceptAll log
        = .ok (⟨.name, 95 :: (s1 ++ 0xFFFD :: x :: s2), line, col + 1 + colAdd s1 + 2 + colAdd s2⟩,
               ⟨ctx, line, col + 1 + colAdd s1 + 2 + colAdd s2, .name⟩)
            (⟨CIF_INVALID_CHAR, line, col + 1 + colAdd s1 + 2⟩ :: log)) := by
  refine ⟨?_, ?_⟩
  · intro q hq hxq hxe h1 h1e h1q h2 hctx
    have := (C12_several_defects_quoted q hq [(s1, Ev.lead l x)] s2 ctx line col lt log haw
      (by intro p hp; simp only [List.mem_singleton] at hp; subst hp; exact ⟨⟨h1, h1e, h1q⟩, EvDelim.lead l x hl hx q hq hxq hxe line⟩)
      (by simp) h2 hctx).1
    simpa [Body.inp, Body.out, Body.col, Body.reps, Ev.lead] using this
  · intro hxw h1 h2 hctx
    have := (C12_several_defects_name .cif2 [(s1, Ev.lead l x)] s2 ctx line col lt log haw
      (by intro p hp; simp only [List.mem_singleton] at hp; subst hp; exact ⟨h1, EvToWs.lead l x hl hx hxw line⟩) h2 hctx).1
    simpa [Body.inp, Body.out, Body.col, Body.reps, Ev.lead] using this

/-- **C12_several_defects_bare** — a whitespace-delimited value with any number of defective places (first unit `f`: one that starts
    an unquoted token at this column; the repaired text is not a reserved word; CIF 2.0: no brackets in the admissible runs) -/
theorem C12_several_defects_bare (dia : Dialect) (body : Body) (sN ctx : Str) (f : Nat) (r : Str) (line col : Nat) (lt : TokType)
    (log : List Report) (haw : afterWsOf lt = true)
    (hb : ∀ p ∈ body, (nonBlankOk dia p.1 = true ∧
        (dia = .cif2 → p.1.all (fun x => !(x == 91 || x == 93 || x == 123 || x == 125)) = true)) ∧ EvUnq dia line p.2)
    (hN : nonBlankOk dia sN = true) (hNb : dia = .cif2 → sN.all (fun x => !(x == 91 || x == 93 || x == 123 || x == 125)) = true)
    (hin : body.inp ++ (sN ++ ctx) = f :: r) (hstart : bareStart dia f col = true)
    (hres : isReservedWord (body.out ++ sN) = false) (hctx : wsOrEnd ctx = true) :
    nextToken dia ⟨f :: r, line, col, lt⟩ acceptAll log
        = .ok (⟨.value, body.out ++ sN, line, body.col col + colAdd sN⟩, ⟨ctx, line, body.col col + colAdd sN, .value⟩)
            (body.reps line col ++ log)
    ∧ (∀ d rp, body.reps line col = d ++ [rp] →
        nextToken dia ⟨f :: r, line, col, lt⟩ dieAll log = .abort rp.code (rp :: log)) := by
  have hs := multi_bare (dia := dia) body sN ctx f r line col log hb hN hNb hin hstart hres hctx
  refine ⟨stepTok_tok_nextToken (by rw [haw]; exact hs), fun d rp hr => ?_⟩
  rw [hr] at hs
  rw [nextToken_cons, haw, die_step hs]

/-- … in particular ONE unpaired lead surrogate in the middle of a whitespace-delimited value (CIF 2.0): `s₁ l x s₂` -/
theorem C12_invalid_char_lead_bare (l x : Nat) (hl : isLeadU l = true) (hx : plainUnit x)
    (hg : metaOfCls (classOf .cif2 x) = .general) (f : Nat) (s1 s2 ctx : Str) (line col : Nat) (lt : TokType) (log : List Report)
    (haw : afterWsOf lt = true) (h1 : nonBlankOk .cif2 (f :: s1) = true) (h2 : nonBlankOk .cif2 s2 = true)
    (hb1 : (f :: s1).all (fun y => !(y == 91 || y == 93 || y == 123 || y == 125)) = true)
    (hb2 : s2.all (fun y => !(y == 91 || y == 93 || y == 123 || y == 125)) = true)
    (hstart : bareStart .cif2 f col = true) (hres : isReservedWord ((f :: s1) ++ 0xFFFD :: x :: s2) = false) (hctx : wsOrEnd ctx = true) :
    nextToken .cif2 ⟨f :: (s1 ++ l :: x :: (s2 ++ ctx)), line, col, lt⟩ acceptAll log
      = .ok (⟨.value, (f :: s1) ++ 0xFFFD :: x :: s2, line, col + colAdd (f :: s1) + 2 + colAdd s2⟩,
             ⟨ctx, line, col + colAdd (f :: s1) + 2 + colAdd s2, .value⟩)
          (⟨CIF_INVALID_CHAR, line, col + colAdd (f :: s1) + 2⟩ :: log) := by
  have := (C12_several_defects_bare .cif2 [(f :: s1, Ev.lead l x)] s2 ctx f (s1 ++ l :: x :: (s2 ++ ctx)) line col lt log haw
    (by intro p hp; simp only [List.mem_singleton] at hp; subst hp; exact ⟨⟨h1, fun _ => hb1⟩, EvUnq.lead l x hl hx hg line⟩)
    h2 (fun _ => hb2) (by simp [Body.inp, Ev.lead]) hstart (by simpa [Body.out, Ev.lead] using hres) hctx).1
  simpa [Body.inp, Body.out, Body.col, Body.reps, Ev.lead] using this

/-- **C12_several_defects_text** — a text field with any number of defective places, on any of its lines (`Body.textOk`: the runs
    are admissible text-field content whose lines fit; `Body.tpos` / `Body.treps`: positions and reports follow the line breaks of
    the runs): token TVALUE with the repaired text, exactly the reports of the events, each at ITS line and column -/
theorem C12_several_defects_text (dia : Dialect) (body : Body) (sN ctx : Str) (line : Nat) (lt : TokType) (log : List Report)
    (haw : afterWsOf lt = true)
    (hb : Body.textOk dia line 1 body) (hN : textOk dia sN = true)
    (hfit : linesFit (body.tpos line 1).2 (sN ++ [10]) = true) (hctx : followOk dia ctx = true) :
    nextToken dia ⟨59 :: (body.inp ++ (sN ++ 10 :: 59 :: ctx)), line, 0, lt⟩ acceptAll log
        = .ok (⟨.tvalue, body.out ++ sN, (posAfter (body.tpos line 1).1 (body.tpos line 1).2 sN).1 + 1, 1⟩,
               ⟨ctx, (posAfter (body.tpos line 1).1 (body.tpos line 1).2 sN).1 + 1, 1, .tvalue⟩) (body.treps line 1 ++ log)
    ∧ (∀ d r, body.treps line 1 = d ++ [r] →
        nextToken dia ⟨59 :: (body.inp ++ (sN ++ 10 :: 59 :: ctx)), line, 0, lt⟩ dieAll log = .abort r.code (r :: log)) := by
  have hs := multi_text (dia := dia) body sN ctx line log hb hN hfit hctx
  refine ⟨stepTok_tok_nextToken (by rw [haw]; exact hs), fun d r hr => ?_⟩
  rw [hr] at hs
  rw [nextToken_cons, haw, die_step hs]

/-- **C12_several_defects_triple** — a triple-quoted string (CIF 2.0) with any number of defective places, on any of its lines -/
theorem C12_several_defects_triple (q : Nat) (hq : q = 34 ∨ q = 39) (body : Body) (sN ctx : Str) (line col : Nat) (lt : TokType)
    (log : List Report) (haw : afterWsOf lt = true)
    (hb : Body.tripleOk q line (col + 3) body) (hN : tripleOk .cif2 q sN = true)
    (hfit : linesFit (body.tpos line (col + 3)).2 sN = true) (hctx : followOk .cif2 ctx = true) :
    nextToken .cif2 ⟨q :: q :: q :: (body.inp ++ (sN ++ q :: q :: q :: ctx)), line, col, lt⟩ acceptAll log
        = .ok (⟨.qvalue, body.out ++ sN, (posAfter (body.tpos line (col + 3)).1 (body.tpos line (col + 3)).2 sN).1,
                  (posAfter (body.tpos line (col + 3)).1 (body.tpos line (col + 3)).2 sN).2 + 3⟩,
               ⟨ctx, (posAfter (body.tpos line (col + 3)).1 (body.tpos line (col + 3)).2 sN).1,
                  (posAfter (body.tpos line (col + 3)).1 (body.tpos line (col + 3)).2 sN).2 + 3, .qvalue⟩)
            (body.treps line (col + 3) ++ log)
    ∧ (∀ d r, body.treps line (col + 3) = d ++ [r] →
        nextToken .cif2 ⟨q :: q :: q :: (body.inp ++ (sN ++ q :: q :: q :: ctx)), line, col, lt⟩ dieAll log = .abort r.code (r :: log)) := by
  have hs := multi_triple q hq body sN ctx line col log hb hN hfit hctx
  refine ⟨stepTok_tok_nextToken (by rw [haw]; exact hs), fun d r hr => ?_⟩
  rw [hr] at hs
  rw [nextToken_cons, haw, die_step hs]

/-- non-vacuity: the events exist — U+0001 (disallowed), U+DC00 (unpaired trail), U+D800 followed by `c` (unpaired lead) — so
    `'a\x01b\uDC00c\uD800cd'` is a body with three defective places -/
example : EvDelim .cif2 39 1 (Ev.of1 1 1 (disReps .cif2 1)) ∧ EvDelim .cif2 39 1 (Ev.of1 0xDC00 (replChar .cif2) (fun line col => [⟨CIF_INVALID_CHAR, line, col⟩]))
    ∧ EvDelim .cif2 39 1 (Ev.lead 0xD800 99) ∧ quotedOk .cif2 39 (a!"d") = true
    ∧ Body.textOk .cif2 1 1 [(a!"ab\ncd", Ev.lead 0xD800 99)] :=
  ⟨EvDelim.of1 (C12_disallowed_char .cif2 1 (by decide)).1 39 (Or.inr rfl) 1,
   EvDelim.of1 (C12_invalid_char_trail .cif2 0xDC00 (by decide)).1 39 (Or.inr rfl) 1,
   EvDelim.lead 0xD800 99 (by decide) ⟨by decide, by decide, by decide⟩ 39 (Or.inr rfl) (by decide) (by decide) 1, by decide,
   ⟨by decide, by decide, EvText.lead 0xD800 99 (by decide) ⟨by decide, by decide, by decide⟩ (by decide) (by decide), trivial⟩⟩

end CifModel
