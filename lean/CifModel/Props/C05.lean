import CifModel.Lemmas.StoreWorld
import CifModel.Lemmas.StoreWSim
import CifModel.Props.C04
/-
  Property C05 — a failed API call leaves the managed CIF unchanged.
-/
namespace CifModel
open Store Store.World Gen.ErrCodes

/-- every CIF of the history has unique loop keys (SQLite's PRIMARY KEY on `loop`; a fragment of C04's invariant) -/
def Store.WPK (w : World) : Prop := ∀ c s, w.cifs.getD c none = some s → LoopPK s.db

theorem C05_atomic (w : World) (op : Op) (hpk : WPK w) (h : (step w op).2.rc ≠ some CIF_OK) (c' : Nat) :
    SlotRel Same (w.cifs.getD c' none) ((step w op).1.cifs.getD c' none) := by
  cases op with
  | cifNew => exact absurd rfl h
  | cifDel c =>
    revert h; simp only [step]
    split
    · intro _; exact SlotRel.refl Same.refl _
    · intro h; exact absurd rfl h
  | mkBlock c n len =>
    revert h; simp only [step]
    split
    · intro _; exact SlotRel.refl Same.refl _
    · rename_i s hl
      intro h
      exact rel_of_error w c s hl (createBlock s n len) (fun e he => createBlock_error s n len e he) h c'
  | getBlock c n =>
    revert h; simp only [step]
    split
    · intro _; exact SlotRel.refl Same.refl _
    · rename_i s hl
      intro h
      exact rel_of_error w c s hl (getBlock s n) (fun e _ => by rw [getBlock_fst]; exact Same.refl s) h c'
  | blocks c =>
    revert h; simp only [step]
    split
    · intro _; exact SlotRel.refl Same.refl _
    · intro h; exact absurd rfl h
  | mkFrame hh n len =>
    revert h; simp only [step]
    split
    · intro _; exact SlotRel.refl Same.refl _
    · rename_i e s hl
      intro h
      exact rel_of_error w e.cif s (liveH_liveC hl) (createFrame s e.h n len) (fun x he => createFrame_error s e.h n len x he) h c'
  | getFrame hh n =>
    revert h; simp only [step]
    split
    · intro _; exact SlotRel.refl Same.refl _
    · rename_i e s hl
      intro h
      exact rel_of_error w e.cif s (liveH_liveC hl) (getFrame s e.h n) (fun x _ => by rw [getFrame_fst]; exact Same.refl s) h c'
  | frames hh =>
    revert h; simp only [step]
    split
    · intro _; exact SlotRel.refl Same.refl _
    · intro h; exact absurd rfl h
  | cdestroy hh =>
    revert h; simp only [step]
    split
    · intro _; exact SlotRel.refl Same.refl _
    · rename_i e s hl
      split
      · intro _; exact SlotRel.refl Same.refl _
      · intro h
        exact rel_of_error w e.cif s (liveH_liveC hl) (destroyContainer s e.h) (fun x he => destroyContainer_error s e.h x he) h c'
  | code hh =>
    revert h; simp only [step]
    split <;> intro _ <;> exact SlotRel.refl Same.refl _
  | isBlock hh =>
    revert h; simp only [step]
    split <;> intro _ <;> exact SlotRel.refl Same.refl _
  | mkLoop hh cat names =>
    revert h; simp only [step]
    split
    · intro _; exact SlotRel.refl Same.refl _
    · rename_i e s hl
      intro h
      exact rel_of_error w e.cif s (liveH_liveC hl) (createLoop s e.h cat names) (fun x he => createLoop_error s e.h cat names x he) h c'
  | catLoop hh cat =>
    revert h; simp only [step]
    split
    · intro _; exact SlotRel.refl Same.refl _
    · rename_i e s hl
      intro h
      exact rel_of_error w e.cif s (liveH_liveC hl) (getCategoryLoop s e.h cat) (fun x _ => by rw [getCategoryLoop_fst]; exact Same.refl s) h c'
  | itemLoop hh n =>
    revert h; simp only [step]
    split
    · intro _; exact SlotRel.refl Same.refl _
    · rename_i e s hl
      intro h
      exact rel_of_error w e.cif s (liveH_liveC hl) (getItemLoop s e.h n) (fun x _ => by rw [getItemLoop_fst]; exact Same.refl s) h c'
  | loops hh =>
    revert h; simp only [step]
    split
    · intro _; exact SlotRel.refl Same.refl _
    · rename_i e s hl
      split
      · rename_i s1 c1 he
        intro _
        have := allLoops_same s e.h
        rw [he] at this
        exact setCif_rel Same.refl w e.cif s s1 (liveH_liveC hl) this c'
      · intro h; exact absurd rfl h
  | prune hh =>
    revert h; simp only [step]
    split
    · intro _; exact SlotRel.refl Same.refl _
    · intro h; exact absurd rfl h
  | getVal hh n =>
    revert h; simp only [step]
    split
    · intro _; exact SlotRel.refl Same.refl _
    · rename_i e s hl
      split
      · intro _; exact SlotRel.refl Same.refl _
      · rename_i nm
        have hf := getValue_fst s e.h (some nm)
        split
        · rename_i s1 v amb he
          intro _
          rw [he] at hf; simp only [] at hf; subst hf
          exact setCif_rel Same.refl w e.cif s1 s1 (liveH_liveC hl) (Same.refl s1) c'
        · rename_i s1 c1 he
          intro _
          rw [he] at hf; simp only [] at hf; subst hf
          exact setCif_rel Same.refl w e.cif s1 s1 (liveH_liveC hl) (Same.refl s1) c'
  | setVal hh n v =>
    revert h; simp only [step]
    split
    · intro _; exact SlotRel.refl Same.refl _
    · rename_i e s hl
      intro h
      exact rel_of_error w e.cif s (liveH_liveC hl) (setValue s e.h n v) (fun x he => setValue_error s e.h n v x he) h c'
  | rmItem hh n =>
    revert h; simp only [step]
    split
    · intro _; exact SlotRel.refl Same.refl _
    · rename_i e s hl
      intro h
      exact rel_of_error w e.cif s (liveH_liveC hl) (removeItem s e.h n) (fun x he => removeItem_error s e.h n x he) h c'
  | ldestroy l =>
    revert h; simp only [step]
    split
    · intro _; exact SlotRel.refl Same.refl _
    · rename_i e s hl
      have hc := liveL_liveC hl
      split
      · intro _; exact SlotRel.refl Same.refl _
      · intro h
        exact rel_of_error w e.cif s hc (destroyLoop s e.h) (fun x he => destroyLoop_error s e.h x (hpk e.cif s hc) he) h c'
  | getCat l =>
    revert h; simp only [step]
    split <;> intro _ <;> exact SlotRel.refl Same.refl _
  | setCat l cat =>
    revert h; simp only [step]
    split
    · intro _; exact SlotRel.refl Same.refl _
    · rename_i e s hl
      intro h
      exact rel_of_error w e.cif s (liveL_liveC hl) ((setCategory s e.h cat).1, (setCategory s e.h cat).2.2)
        (fun x he => setCategory_error s e.h cat x he) h c'
  | names l =>
    revert h; simp only [step]
    split
    · intro _; exact SlotRel.refl Same.refl _
    · rename_i e s hl
      intro _
      exact setCif_rel Same.refl w e.cif s _ (liveL_liveC hl) (getNames_same s e.h) c'
  | addItem l n v =>
    revert h; simp only [step]
    split
    · intro _; exact SlotRel.refl Same.refl _
    · rename_i e s hl
      split
      · intro _; exact SlotRel.refl Same.refl _
      · rename_i nm
        intro h
        exact rel_of_error w e.cif s (liveL_liveC hl) (addItem s e.h (some nm) v) (fun x he => addItem_error s e.h (some nm) v x he) h c'
  | addPkt l p =>
    revert h; simp only [step]
    split
    · intro _; exact SlotRel.refl Same.refl _
    · rename_i e s hl
      intro h
      exact rel_of_error w e.cif s (liveL_liveC hl) (addPacket s e.h p) (fun x he => addPacket_error s e.h p x he) h c'
  | itOpen l =>
    revert h; simp only [step]
    split
    · intro _; exact SlotRel.refl Same.refl _
    · rename_i e s hl
      intro h
      exact rel_of_error w e.cif s (liveL_liveC hl) (getPackets s e.h) (fun x he => getPackets_error s e.h x he) h c'
  | itNext i =>
    revert h; simp only [step]
    split <;> intro _ <;> exact SlotRel.refl Same.refl _
  | itUpd i p =>
    revert h; simp only [step]
    split
    · intro _; exact SlotRel.refl Same.refl _
    · rename_i e s hl
      intro h
      exact rel_of_error w e.cif s (liveI_liveC hl) (updatePacket s e.it p) (fun x he => updatePacket_error s e.it p x he) h c'
  | itRem i =>
    revert h; simp only [step]
    split
    · intro _; exact SlotRel.refl Same.refl _
    · rename_i e s hl
      intro h
      exact rel_of_error w e.cif s (liveI_liveC hl) ((removePacket s e.it).1, (removePacket s e.it).2.2)
        (fun x he => (removePacket_error s e.it x he).1) h c'
  | itClose i =>
    revert h; simp only [step]
    split
    · intro _; exact SlotRel.refl Same.refl _
    · rename_i e s hl
      intro h
      exact rel_of_error w e.cif s (liveI_liveC hl) (closeIter s) (fun x he => by rw [closeIter_error s x he]; exact Same.refl s) h c'
  | itAbort i =>
    revert h; simp only [step]
    split
    · intro _; exact SlotRel.refl Same.refl _
    · rename_i e s hl
      intro h
      exact rel_of_error w e.cif s (liveI_liveC hl) (abortIter s) (fun x he => by rw [abortIter_error s x he]; exact Same.refl s) h c'


/-- A CIF that is not inside an iterator's transaction is — as a whole: content, row and loop counters, id sequence,
    transaction state — exactly what it was before the failed call. -/
theorem C05_failed_call_restores_store (w : World) (op : Op) (hpk : WPK w) (h : (step w op).2.rc ≠ some CIF_OK)
    (c : Nat) (s : Store) (hs : w.cifs.getD c none = some s) (hac : s.autocommit = true) :
    (step w op).1.cifs.getD c none = some s := by
  have := C05_atomic w op hpk h c
  rw [hs] at this
  cases h2 : (step w op).1.cifs.getD c none with
  | none => rw [h2] at this; exact absurd this (by simp [SlotRel])
  | some s' =>
    rw [h2] at this
    have hsame : Same s s' := this
    rw [hsame.eq_of_autocommit hac]

theorem step_cifs_length (w : World) (op : Op) (h : (step w op).2.rc ≠ some CIF_OK) : (step w op).1.cifs.length = w.cifs.length := by
  cases op <;> simp only [step] at h ⊢ <;>
    first
    | exact absurd rfl h
    | (repeat' split) <;> simp [World.setCif]

/-- C05, second half, in full: after a failed call — outside or INSIDE an iterator's transaction — every continuation of the
    history returns exactly the results it returns when every CIF is put back to its state before the failed call
    ("a following valid call behaves as if the failed one had never been made").  The only trace a failed call can leave are
    `savepoint s` entries that are snapshots of the unchanged content (`C05_atomic`), and no API function can see them
    (`step_wsim`: every `release`/`rollback to` of the library is preceded by its own `savepoint`). -/
theorem C05_next_call_unaffected (w : World) (op : Op) (ops : List Op) (hinv : WInv w) (h : (step w op).2.rc ≠ some CIF_OK) :
    (run (step w op).1 ops).2 = (run { (step w op).1 with cifs := w.cifs } ops).2 := by
  have hpk : WPK w := fun c s hs => (hinv c s hs).db.toLoopPK
  have hw : WSim { (step w op).1 with cifs := w.cifs } (step w op).1 := by
    refine ⟨rfl, rfl, rfl, step_cifs_length w op h, ?_⟩
    intro c
    have := C05_atomic w op hpk h c
    show SlotRel Sim (w.cifs.getD c none) ((step w op).1.cifs.getD c none)
    cases h1 : w.cifs.getD c none with
    | none =>
      rw [h1] at this
      cases h2 : (step w op).1.cifs.getD c none with
      | none => trivial
      | some s' => rw [h2] at this; exact absurd this (by simp [SlotRel])
    | some s =>
      rw [h1] at this
      cases h2 : (step w op).1.cifs.getD c none with
      | none => rw [h2] at this; exact absurd this (by simp [SlotRel])
      | some s' =>
        rw [h2] at this
        exact Same.sim this (hinv c s h1).txwf
  exact (run_wsim ops _ _ hw).1

/-- C05_atomic over every world a history can reach (review gB, C05 M2): whatever ops came before — in or out of contract — a
    call that does not return CIF_OK leaves the content and the BEGIN snapshot of every CIF what they were -/
theorem C05_atomic_reachable (ops : List Op) (op : Op) (h : (step (run {} ops).1 op).2.rc ≠ some CIF_OK) (c' : Nat) :
    SlotRel Same ((run {} ops).1.cifs.getD c' none) ((step (run {} ops).1 op).1.cifs.getD c' none) :=
  C05_atomic _ op (C04_inv_gives_loop_keys _ (C04_inv_reachable ops {} WInv.empty)) h c'

/-- … and the handle: cif_loop_set_category through a VALID handle that fails leaves the handle's cached category what it was
    (review gB, C05 M1: through a STALE handle — its loop is gone — the C, loop.c:232, and so the model update the cached category
    although the call fails with CIF_INVALID_HANDLE; that history is out of contract, `inContract`) -/
theorem C05_failed_set_category_keeps_handle (s : Store) (l : LH) (cat : Option Str) (hg : Good s.db) (hv : l.validB s.db = true)
    (c : Code) (hf : (Store.setCategory s l cat).2.2 = .error c) : (Store.setCategory s l cat).2.1 = l := by
  obtain ⟨_, h2, h3⟩ := setCategory_spec s l cat hg hv
  rw [h2]
  rw [h3] at hf
  obtain ⟨x, hx, k1, k2, _⟩ := LH.valid_of_validB hv
  have hfind : (absS s.db).findLoop l.cid l.loopNum = some (absALoop s.db x) := by rw [← k1, ← k2]; exact findLoop_valid s.db hg.inv x hx
  unfold specSetCategory at hf ⊢
  rw [hfind] at hf ⊢
  simp only [] at hf ⊢
  split
  · rfl
  · rename_i hres
    simp only [hres, Bool.false_eq_true, if_false] at hf
    cases hf

-- non-vacuity: a failing call inside and outside a transaction
private def n (k o : Str) : Name := { key := k, orig := o, valid := true }
private def w0 : World := (run {} [.cifNew, .mkBlock 0 (some (n (a!"b") (a!"b"))), .mkLoop 0 none [n (a!"_a") (a!"_a"), n (a!"_b") (a!"_b")],
  .addPkt 0 [(a!"_a", .na), (a!"_b", .unk)]]).1
example : (step w0 (.mkLoop 0 none [n (a!"_x") (a!"_x"), n (a!"_a") (a!"_A")])).2.rc = some CIF_DUP_ITEMNAME := by decide
example : (step (step w0 (.itOpen 0)).1 (.mkLoop 0 none [n (a!"_x") (a!"_x"), n (a!"_a") (a!"_A")])).2.rc = some CIF_DUP_ITEMNAME := by decide

end CifModel
