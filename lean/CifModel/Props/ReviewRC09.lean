import CifModel.Props.C09Api
import CifModel.Props.C09Store
/-
  Review rA, property C09 (group gS): instances that APPLY the buffer-level / entry-point / store theorems to concrete data.

  The examples beside the theorems in Props/C09Buf.lean evaluate the MODEL by `rfl`; none applies a theorem.  Here
  * `junkCall` is an ICU stand-in that is not the canonical `icuOf`: on overflow it fills the whole destination with U+FFFF
    (the contract leaves that content unspecified) — with the non-identity `C09Buf.expU` (NFD decomposes `Å`, folding maps
    `A ↦ a`, `ß ↦ ss`, NFC composes `a ring s s`): the hypotheses `CallContract` / `Contract` are met by something other than
    the witness the group wrote;
  * every theorem of the list is applied with a first-buffer guess of capacity 0 or 1, i.e. on the buffer-growth path;
  * the store theorems are applied with `expU` (the group's instances use `toyU`, NFD = NFC = id), in the matching AND the
    non-matching direction, including the DUP direction with its id-sequence hypotheses discharged on a reachable store;
  * two observations: `Db.hasItem` (conclusion of `C09_store_item_match`) is not "cif_container_get_value finds it";
    the second conjunct of `C09_table_survives_store` is `rfl` once the first is known.
-/
namespace CifModel.ReviewRC09
open CifModel Model Model.NormBuf Lemmas.NormBuf Lemmas.Names Store C09Buf Gen.ErrCodes

/-! ### an ICU stand-in that is not `icuOf` -/

def junkCall (f : Str → Str) : IcuCall := fun x cap =>
  if (f x).length < cap then ⟨(f x).length, .zero, f x ++ [0]⟩
  else if (f x).length = cap then ⟨cap, .notTerminated, f x⟩
  else ⟨(f x).length, .overflow, List.replicate cap 0xFFFF⟩

theorem junk_contract (f : Str → Str) : CallContract f (junkCall f) := by
  constructor
  · intro x cap h; simp [junkCall, h]
  · intro x cap h; simp [junkCall, h]
  · intro x cap h
    have h1 : ¬ (f x).length < cap := by omega
    have h2 : ¬ (f x).length = cap := by omega
    simp [junkCall, h1, h2]

def junkI : IcuOps := ⟨junkCall expU.nfd, junkCall expU.fold, junkCall expU.nfc⟩
theorem junkI_contract : Contract expU junkI := ⟨junk_contract _, junk_contract _, junk_contract _⟩

/-- it really differs from the canonical call -/
example : junkCall expU.nfd [197, 197] 1 ≠ icuOf expU.nfd [197, 197] 1 := by decide

/-! ### C09_normalize_buffer_refines -/

/-- every stage starts with a buffer of capacity 0 (growth path three times), junk left by the overflowing calls:
    the theorem gives `åss` + NUL, between 3 and 6 ICU calls, one live block -/
example : ∃ t cap, cifNormalizeBuf junkI (fun _ => 0) [197, 223, 0] (-1) true 7 = (t, .ok ⟨cap, [229, 115, 115, 0]⟩) ∧
    4 ≤ cap ∧ 3 ≤ icuCalls t ∧ icuCalls t ≤ 6 ∧ liveBlocks t = 1 := by
  obtain ⟨t, cap, e, hc, h3, h6, hl, _⟩ :=
    (C09_normalize_buffer_refines expU junkI junkI_contract (fun _ => 0) [197, 223, 0] (-1) true 7 (by decide)).2 2 (by rfl)
  exact ⟨t, cap, e, hc, h3, h6, hl⟩

/-- explicit length 1 with material (even a NUL-free tail) behind it, `normalized == NULL`: nothing stays allocated -/
example : ∃ t cap, cifNormalizeBuf junkI (fun _ => 1) [197, 223] 1 false 2 = (t, .ok ⟨cap, [97, 778, 0]⟩) ∧ liveBlocks t = 0 := by
  obtain ⟨t, cap, e, _, _, _, hl, _⟩ :=
    (C09_normalize_buffer_refines expU junkI junkI_contract (fun _ => 1) [197, 223] 1 false 2 (by decide)).2 1 (by rfl)
  exact ⟨t, cap, e, hl⟩

/-- error conjunct: explicit length beyond the block / no terminator -/
example : cifNormalizeBuf junkI cGuess [97, 98] 3 true 2 = ([], .error .oobRead) :=
  (C09_normalize_buffer_refines expU junkI junkI_contract cGuess [97, 98] 3 true 2 (by decide)).1 .oobRead (by rfl)
example : cifNormalizeBuf junkI cGuess [97, 98] (-1) true 2 = ([], .error .oobRead) :=
  (C09_normalize_buffer_refines expU junkI junkI_contract cGuess [97, 98] (-1) true 2 (by decide)).1 .oobRead (by rfl)

/-- the refinement is not trivially true through a fuel default: below the bound the model answers `Err.fuel`, which the
    conclusion (`.ok …`) excludes -/
example : (cifNormalizeBuf junkI (fun _ => 0) [197, 223, 0] (-1) true 1).2 = .error .fuel := by rfl

/-! ### C09_unicode_normalize_buffer / C09_fold_case_buffer -/

example : ∃ t buf, unicodeNormalize (junkCall expU.nfd) (fun _ => 1) [197, 197, 0] (-1) true 2 = (t, .ok (buf, 4)) ∧
    buf.data = [65, 778, 65, 778, 0] ∧ icuCalls t ≤ 2 ∧ liveBlocks t = 1 := by
  obtain ⟨t, buf, e, _, _, _, ht, _, h2, hl⟩ :=
    (C09_unicode_normalize_buffer expU.nfd _ (junk_contract _) (fun _ => 1) [197, 197, 0] (-1) true 2 (by decide)).2 2 (by rfl)
  exact ⟨t, buf, e, ht rfl, h2, hl⟩

example : ∃ t buf, foldCase (junkCall expU.fold) (fun _ => 0) [223, 65, 223] 3 2 = (t, .ok (buf, 5)) ∧
    buf.data.take 5 = [115, 115, 97, 115, 115] ∧ buf.data.length ≤ buf.cap := by
  obtain ⟨t, buf, e, hd, hc, _⟩ :=
    (C09_fold_case_buffer expU.fold _ (junk_contract _) (fun _ => 0) [223, 65, 223] 3 2 (by decide)).2 3 (by rfl)
  exact ⟨t, buf, e, hd, hc⟩

/-! ### C09_normalize_buffer_cstring / C09_normalize_entry_buffer_refines -/

example : ∃ t buf, cifNormalizeBuf junkI (fun _ => 0) [197, 223, 0, 99] (-1) true 2 = (t, .ok buf) ∧ buf.cstr = [229, 115, 115] :=
  C09_normalize_buffer_cstring expU junkI junkI_contract (fun _ => 0) [197, 223, 0, 99] (-1) 2 (by decide) (by decide) (by rfl)
    (by decide)

/-- data name `_Åß`: valid, normal form `_ a ring s s` (the toy NFC composes only the whole string `a ring s s`) -/
example : ∃ t cap, normalizeNameBuf junkI (fun _ => 0) true (some [95, 197, 223, 0]) (-1) CIF_INVALID_ITEMNAME true 2
      = (t, .ok ⟨cap, [95, 97, 778, 115, 115, 0]⟩) ∧ 6 ≤ cap ∧ icuCalls t ≤ 6 ∧ liveBlocks t = 1 :=
  (C09_normalize_entry_buffer_refines expU junkI junkI_contract (fun _ => 0) [95, 197, 223, 0] (-1) CIF_INVALID_ITEMNAME true 2
    (by decide) (by decide) (by rfl)).1 true

/-- block code `A b` (with a space): refused with the caller's code, nothing allocated; NULL likewise -/
example : normalizeNameBuf junkI (fun _ => 0) false (some [65, 32, 98, 0]) (-1) CIF_INVALID_BLOCKCODE true 2
      = ([], .error (.code CIF_INVALID_BLOCKCODE)) :=
  (C09_normalize_entry_buffer_refines expU junkI junkI_contract (fun _ => 0) [65, 32, 98, 0] (-1) CIF_INVALID_BLOCKCODE true 2
    (by decide) (by decide) (by rfl)).1 false

/-- table key `Å b` (whitespace allowed, NFC only: the toy NFC leaves it alone, case kept) -/
example : ∃ t cap, normalizeTableIndexBuf junkI (fun _ => 0) (some [197, 32, 98, 0]) (-1) CIF_INVALID_INDEX true 2
      = (t, .ok ⟨cap, [197, 32, 98, 0]⟩) ∧ 4 ≤ cap ∧ icuCalls t ≤ 2 ∧ liveBlocks t = 1 :=
  (C09_normalize_entry_buffer_refines expU junkI junkI_contract (fun _ => 0) [197, 32, 98, 0] (-1) CIF_INVALID_INDEX true 2
    (by decide) (by decide) (by rfl)).2.1

/-! ### C09_entry_points -/

/-- (A) with the junk stand-in: the `Name` computed at buffer level is `apiName`, key `åss` -/
example : entryName junkI false [197, 223, 0] = apiName expU false [197, 223] ∧ (apiName expU false [197, 223]).key = [229, 115, 115] :=
  ⟨((C09_entry_points expU junkI junkI_contract).1 false [197, 223, 0] (by decide) (by decide)).1 (by decide), by decide⟩

theorem notValid_A_b : ¬ Spec.validName false [65, 32, 98] := fun h => by
  have := (C09_validity false [65, 32, 98] (by decide)).2 h
  revert this; decide

/-- (B) cif_create_block, refusal: in EVERY store state -/
example (s : Store.Store) : createBlock s (some (apiName expU false [65, 32, 98])) = (s, .error CIF_INVALID_BLOCKCODE) :=
  ((C09_entry_points expU junkI junkI_contract).2.2.2.1 s [65, 32, 98] (by decide)).1 notValid_A_b

/-- (B) cif_create_block, success in the empty store: the row carries `åss` / `Åß` -/
def s1 : Store.Store := (createBlock {} (some (apiName expU false [197, 223]))).1
def h1 : CH := { id := 1, code := [197, 223], isBlock := true }
theorem hc1 : createBlock {} (some (apiName expU false [197, 223])) = (s1, .ok h1) := by rfl

example : s1.db.blocks = ({} : Store.Store).db.blocks ++ [{ cid := 1, name := [229, 115, 115], nameOrig := [197, 223] }] :=
  (((C09_entry_points expU junkI junkI_contract).2.2.2.1 {} [197, 223] (by decide)).2 s1 h1 hc1).2.1

/-- (B) table keys: `K` accepted, key = NFC = itself; a key holding U+0001 refused with CIF_INVALID_INDEX -/
example : Value.tableSet (tableNorm expU) (.tbl []) [75] none = .ok (.tbl (Value.mapSet [] [75] [75] none)) ∧
    Value.tableSet (tableNorm expU) (.tbl []) [75, 1] none = .error Value.INVALID_INDEX :=
  ⟨((C09_entry_points expU junkI junkI_contract).2.2.2.2.2.2.2.1 [] [75] none).2 (by decide),
   ((C09_entry_points expU junkI junkI_contract).2.2.2.2.2.2.2.1 [] [75, 1] none).1 (by decide)⟩

/-! ### C09_store_block_match — with `expU`, both directions, DUP direction on a reachable store -/

theorem norm0 : BlocksNormOK (cifNormalize expU) ({} : Store.Store).db := fun _ h => nomatch h
theorem fresh0 : IdFresh ({} : Store.Store).db := ⟨fun _ h => (nomatch h), fun _ h => (nomatch h), fun _ h => (nomatch h)⟩
theorem fresh1 : IdFresh s1.db := by unfold IdFresh; decide

/-- created as `Åß`, found as `A ring ß` (decomposed, other case) — and it is the block created, under its own spelling -/
example : (getBlock s1 (apiName expU false [65, 778, 223])).2 = .ok { id := 1, code := [197, 223], isBlock := true } :=
  (C09_store_block_match expU {} s1 [197, 223] [65, 778, 223] h1 norm0 hc1).2.2.1 (by decide) (by rfl)

/-- … and NOT found as `Ås` -/
example : (getBlock s1 (apiName expU false [197, 115])).2.toOption.isSome = false := by
  have h := (C09_store_block_match expU {} s1 [197, 223] [197, 115] h1 norm0 hc1).2.1
  cases hh : (getBlock s1 (apiName expU false [197, 115])).2.toOption.isSome with
  | false => rfl
  | true =>
    rcases h.1 hh with e | e
    · revert e; decide
    · revert e; decide

/-- re-creation under `A ring ß` is CIF_DUP_BLOCKCODE (hypotheses: autocommit, `IdFresh` before and after — true here) -/
example : (createBlock s1 (some (apiName expU false [65, 778, 223]))).2 = .error CIF_DUP_BLOCKCODE :=
  ((C09_store_block_match expU {} s1 [197, 223] [65, 778, 223] h1 norm0 hc1).2.2.2 rfl rfl fresh0 fresh1 (by decide)).2
    (Or.inl (by decide))

/-- the invariant after the creation (first conjunct) -/
example : BlocksNormOK (cifNormalize expU) s1.db := (C09_store_block_match expU {} s1 [197, 223] [] h1 norm0 hc1).1

/-! ### C09_store_frame_match / C09_store_item_match -/

def s2 : Store.Store := (createFrame s1 h1 (some (apiName expU false [197, 223]))).1
def f2 : CH := { id := 2, code := [197, 223], isBlock := false }
theorem hc2 : createFrame s1 h1 (some (apiName expU false [197, 223])) = (s2, .ok f2) := by rfl
theorem fnorm1 : FramesNormOK (cifNormalize expU) s1.db := by
  have e : s1.db.frames = [] := rfl
  intro f h; rw [e] at h; cases h

example : (getFrame s2 h1 (some (apiName expU false [65, 778, 223]))).2 = .ok { id := 2, code := [197, 223], isBlock := false } :=
  (C09_store_frame_match expU s1 s2 h1 [197, 223] [65, 778, 223] f2 fnorm1 (by decide) hc2).2.2.1 (by decide) (by rfl)

/-- frames of another container never match: the same code looked up in the frame `f2` itself is not found -/
example : (getFrame s2 f2 (some (apiName expU false [197, 223]))).2.toOption.isSome = false := by rfl

/-- DUP direction: all six id-sequence hypotheses hold on this reachable store -/
example : (createFrame s2 h1 (some (apiName expU false [65, 778, 223]))).2 = .error CIF_DUP_FRAMECODE :=
  ((C09_store_frame_match expU s1 s2 h1 [197, 223] [65, 778, 223] f2 fnorm1 (by decide) hc2).2.2.2 rfl rfl
    (by decide) (by decide) (by decide) (by decide) (by decide) (by decide)).2 (Or.inl (by decide))

def s3 : Store.Store := (createLoop s2 h1 none ([[95, 197, 223], [95, 98]].map (apiName expU true))).1
def l3 : LH := { cid := 1, loopNum := 0, category := none }
theorem hc3 : createLoop s2 h1 none ([[95, 197, 223], [95, 98]].map (apiName expU true)) = (s3, .ok l3) := by rfl
theorem inorm2 : ItemsNormOK (cifNormalize expU) s2.db := by
  have e : s2.db.items = [] := rfl
  intro i h; rw [e] at h; cases h

/-- `_Åß` defined; present under `_A ring ß`, in container 1 only; `_Ås` absent -/
example : s3.db.hasItem 1 (cifNormalize expU [95, 65, 778, 223]) = true :=
  ((createLoop_items_match expU s2 s3 h1 none [[95, 197, 223], [95, 98]] l3 [95, 65, 778, 223] 1 inorm2 hc3).2).2
    (Or.inl ⟨rfl, [95, 197, 223], by decide, by decide⟩)
example : s3.db.hasItem 2 (cifNormalize expU [95, 65, 778, 223]) = false := by
  have h := (createLoop_items_match expU s2 s3 h1 none [[95, 197, 223], [95, 98]] l3 [95, 65, 778, 223] 2 inorm2 hc3).2
  cases hh : s3.db.hasItem 2 (cifNormalize expU [95, 65, 778, 223]) with
  | false => rfl
  | true =>
    rcases h.1 hh with ⟨e, _⟩ | e
    · revert e; decide
    · revert e; decide

/-- OBSERVATION (verdict "weak" in the review; REPAIRED by group gS: the row statement is now the lemma `createLoop_items_match`, and
    `C09_store_item_match` concludes about `getItemLoop` / `addItem` / `createLoop` — applied below): the conclusion of the earlier
    `C09_store_item_match` was the row test `Db.hasItem`, which the
    docstring glosses as "what makes cif_container_get_value / get_item_loop find it".  For get_value that is not so: in the very
    state above (loop just created, no packet) the row is there and `cif_container_get_value` answers CIF_NOSUCH_ITEM under the
    equivalent AND under the original spelling; `cif_container_get_item_loop` does find it — a statement the theorem does not make. -/
example : s3.db.hasItem 1 (cifNormalize expU [95, 197, 223]) = true ∧
    (getValue s3 h1 (some (apiName expU true [95, 197, 223]))).2.toOption.isSome = false ∧
    (getValue s3 h1 (some (apiName expU true [95, 65, 778, 223]))).2.toOption.isSome = false ∧
    (getItemLoop s3 h1 (some (apiName expU true [95, 65, 778, 223]))).2.toOption.isSome = true := ⟨by rfl, by rfl, by rfl, by rfl⟩


/-! ### the restated `C09_store_item_match` (API level), applied -/

theorem invS2 : InvS s2 := createFrame_invS (createBlock_invS InvS.empty _ _) _ _ _

/-- `_A ring ß` is found by get_item_loop after `_Åß` was defined; `_Ås` answers CIF_NOSUCH_ITEM -/
example : ∃ l', (getItemLoop s3 h1 (some (apiName expU true [95, 65, 778, 223]))).2 = .ok l' :=
  ((C09_store_item_match expU s2 s3 invS2 h1 none [[95, 197, 223], [95, 98]] l3 [95, 65, 778, 223] inorm2 (by decide) hc3).2.1).2
    (Or.inl ⟨[95, 197, 223], by decide, by decide⟩)

/-! ### C09_table_survives_store -/

/-- two keys differing in case only, nested list value: both conjuncts applied -/
def tbl2 : List (Str × Str × V) := [([75], [75], .chr true [49]), ([107], [107], .lst [.chr false [50], .unk])]

example : Model.Serialize.deserialize (fun _ => none) (Model.Serialize.ser (.tbl tbl2)) = some (.tbl tbl2, []) ∧
    Value.tableKeys (.tbl tbl2) = .ok [[75], [107]] :=
  ⟨C09_table_serialisation_roundtrip (fun _ => none) tbl2 (by decide), by rfl⟩

/-- OBSERVATION (about the statement as reviewed; REPAIRED: `C09_table_survives_store` is now about `Store.Codec.setValueC` /
    `Store.getValue` and relates `Value.table*` on the value read back to `Normalize.Entries` on the entries stored; the serialisation
    round trip alone is `C09_table_serialisation_roundtrip`): the second conjunct needed nothing about serialisation — it holds with ANY partial function `g` in the place of
    `deserialize parse ∘ ser` for which the first conjunct holds, because it only says "`t = .tbl es` → the four table functions
    agree on `t` and `.tbl es`".  All content of the theorem is the C07 round trip (first conjunct). -/
example (g : V → Option (V × List (List Nat))) (es : List (Str × Str × V)) (h1 : g (.tbl es) = some (.tbl es, [])) :
    ∀ t, g (.tbl es) = some (t, []) →
      (∀ norm key, Value.tableGet norm t key = Value.tableGet norm (.tbl es) key) ∧ Value.tableKeys t = Value.tableKeys (.tbl es) := by
  intro t ht; rw [h1] at ht; cases ht; exact ⟨fun _ _ => rfl, rfl⟩

end CifModel.ReviewRC09
