import CifModel.Props.C02Doc
/-
  Review of property C02.
-/
namespace CifModel.ReviewC02
open CifModel Model.Writer Model.Lexer Spec.Lexical Lemmas.WriterChunks

/-- The equivalence of `C02_roundtrip_doc` / `C13_roundtrip` (`backBlock` → `backLoop` → `backVs` → `backV`) accepts ANY unquoted
    string coming back quoted — not only one that begins with `;` (the property's exception).  Evidence: -/
-- (closed by gE after the review: `backV` now carries the writer's own test `bareWritable`; the example is refuted)
example : ¬ backV (.chr false (a!"abc")) (.chr true (a!"abc")) := by
  rintro ⟨q', h1, _, h3⟩
  injection h1 with hq _
  have := h3 rfl ⟨by decide, by decide, by decide⟩
  rw [← hq] at this
  cases this
/-- … whereas the property's relation (`C02_quotedRel`, Props/C02.lean:448, used by no theorem) does not -/
example : ¬ C02_quotedRel false (a!"abc") true := by
  intro h; rcases h with h | ⟨_, h, _⟩
  · cases h
  · simp at h

/-- `C02_value_roundtrip` applied — every hypothesis instantiated: CIF 2.0 context at column 3, the quoted string `a b`, read back
    behind one blank after a data name, followed by a line terminator, die-on-first policy -/
def ctx2 : Ctx := { lastColumn := 3, separateValues := true, writeItemNames := true, depth := 1, version := 2 }

example : ∃ (p : Presentation) (s' : Str) (L C : Nat),
    nextToken .cif2 ⟨[32] ++ (a!"'a b'" ++ [10]), 1, 2, .name⟩ dieAll []
      = .ok (⟨p.tokType, s', L, C⟩, ⟨[10], L, C, p.tokType⟩) [] ∧ (p ≠ .text → s' = a!"a b") := by
  have hw : writeChar ctx2 (a!"a b") true true = .ok (a!"'a b'", { ctx2 with lastColumn := 8 }) := by rfl
  obtain ⟨p, s', L, C, h1, h2, _, _⟩ := C02_value_roundtrip ctx2 (a!"a b") true _ _ (by decide) (by decide) hw
    [.blank 32] [10] 1 2 .name dieAll [] (by decide) (Or.inr (by intro b r h; cases h)) (by decide) (by decide) (by decide) (by decide)
  exact ⟨p, s', L, C, h1, h2⟩

end CifModel.ReviewC02
