import CifModel.Props.C07Read
import CifModel.Props.C07ReadParser
/-
  Review rB, property C07, read paths (group gY's theorems): instances that APPLY `C07_iter_read_identical` and
  `C07_walk_read_identical` to concrete data.
    (A) non-vacuity: the set_value route on a two-packet loop, a list/table value; the theorem's conclusion for row 1 through a concrete handle.
    (B) WEAKNESS of `C07_WalkDelivers`: its conclusion does not mention the container / loop / row — in a CIF with blocks `a` and `b`
        that both have `_x`, storing `v` into a's `_x` makes `C07_WalkDelivers t (cid of b) _x row v` true for EVERY row, although
        b's `_x` holds the not-applicable value.
  Core Lean; kernel evaluation on `List Nat` only.
-/
namespace CifModel.ReviewSC07
open CifModel Store Store.Codec Gen.ErrCodes Walk Lemmas.Walk

def nm (k : Str) : Name := { key := k, orig := k, valid := true }
def kX : Str := a!"_x"
/-- numbFree list with a quoted string, a table and the unknown value -/
def v : V := .lst [.chr true (a!"x y"), .tbl [((a!"k"), (a!"K"), .na)], .unk]

theorem v_constructible : C07_constructible v := C07_numbFree_constructible v (by decide +kernel)
theorem v_fits : C07_fits v := by
  show widthSum (ser v) < SZ
  decide +kernel

-- ---- (A) ----------------------------------------------------------------------------------------------------------------------------
def s0 : Store := (createBlock {} (some (nm (a!"b")))).1
def hB : CH := { id := 1, code := a!"b", isBlock := true }
def s1 : Store := (createLoop s0 hB none [nm (a!"_k"), nm kX]).1
def lH : LH := { cid := 1, loopNum := 0, category := none }
def s2 : Store :=
  (addPacket (addPacket s1 lH [(a!"_k", .chr false (a!"1")), (kX, .na)]).1 lH [(a!"_k", .chr false (a!"2"))]).1
def s3 : Store := (setValueC s2 hB (nm kX) v).1

theorem good2 : GoodS s2 :=
  addPacket_goodS (addPacket_goodS (createLoop_goodS (createBlock_goodS GoodS.empty _ _) _ _ _) _ _) _ _

theorem itemLoop2 : ∃ l, getItemLoopInternal s2.db hB.id (nm kX).key = .ok l := by
  cases h : getItemLoopInternal s2.db hB.id (nm kX).key with
  | ok l => exact ⟨l, rfl⟩
  | error c =>
    have : (getItemLoopInternal s2.db hB.id (nm kX).key).toOption.isSome = true := by decide +kernel
    rw [h] at this; simp [Except.toOption] at this

/-- `C07_iter_read_identical` applied (route set_value on an existing item): the call succeeds and, through the handle `lH`, the
    iteration over the state it leaves ends with CIF_FINISHED and the packet of row 1 answers `v` for `_x` -/
theorem iter_applied :
    (setValueC s2 hB (nm kX) v).2 = .ok () ∧
    ∃ ps, readLoop s3 lH (readFuel s3) = .ok (ps, some CIF_FINISHED) ∧ ps.length = (s3.db.loopRows lH.cid lH.loopNum).length ∧
      ∃ (j : Nat) (p : List (Str × V)), (s3.db.loopRows lH.cid lH.loopNum)[j]? = some 1 ∧ ps[j]? = some p ∧ pktGet p kX = some v ∧
        p.map (·.1) = (s3.db.loopItems lH.cid lH.loopNum).map (·.name) := by
  obtain ⟨l, hl⟩ := itemLoop2
  obtain ⟨ln, hln, hok, hall⟩ :=
    (C07_iter_read_identical s2 good2).1 hB (nm kX) v l v_constructible v_fits rfl (by decide +kernel) hl
  have hln0 : ln = 0 := by
    have h0 : s2.db.loopOfItem hB.id (nm kX).key = some 0 := by decide +kernel
    rw [h0] at hln; exact (Option.some.inj hln).symm
  subst hln0
  have hr : 1 ∈ s2.db.loopRows hB.id 0 := by
    have : s2.db.loopRows hB.id 0 = [1, 2] := by decide +kernel
    rw [this]; simp
  exact ⟨hok, hall 1 hr lH ⟨by decide +kernel, rfl, by decide +kernel⟩⟩

-- ---- (B) ----------------------------------------------------------------------------------------------------------------------------
/-- blocks a (cid 1) and b (cid 2); b's `_x` is set to the not-applicable value -/
def t0 : Store := (createBlock (createBlock {} (some (nm (a!"a")))).1 (some (nm (a!"b")))).1
def hA : CH := { id := 1, code := a!"a", isBlock := true }
def hBb : CH := { id := 2, code := a!"b", isBlock := true }
def t1 : Store := (setValue t0 hBb (some (nm kX)) (some .na)).1
/-- `v` stored into a's `_x` -/
def t2 : Store := (setValueC t1 hA (nm kX) v).1

theorem goodT1 : GoodS t1 := setValue_goodS (createBlock_goodS (createBlock_goodS GoodS.empty _ _) _ _) _ _ _

theorem newT1 : getItemLoopInternal t1.db hA.id (nm kX).key = .error CIF_NOSUCH_ITEM := by
  cases h : getItemLoopInternal t1.db hA.id (nm kX).key with
  | ok l =>
    have : (getItemLoopInternal t1.db hA.id (nm kX).key).toOption.isSome = false := by decide +kernel
    rw [h] at this; simp [Except.toOption] at this
  | error c =>
    have : (match getItemLoopInternal t1.db hA.id (nm kX).key with | .error c => c == CIF_NOSUCH_ITEM | .ok _ => false) = true := by
      decide +kernel
    rw [h] at this
    simp only [beq_iff_eq] at this
    rw [this]

theorem okT2 : (setValueC t1 hA (nm kX) v).2 = .ok () := by
  cases h : (setValueC t1 hA (nm kX) v).2 with
  | ok u => rfl
  | error c =>
    have : (setValueC t1 hA (nm kX) v).2.toOption.isSome = true := by decide +kernel
    rw [h] at this; simp [Except.toOption] at this

/-- the scalar loop of block a in t2 -/
def lA : LH := { cid := 1, loopNum := 0, category := some [] }

theorem memA : hA ∈ t2.db.blocks.map (fun b => ({ id := b.cid, code := b.nameOrig, isBlock := true } : CH)) := by
  have h : t2.db.blocks.any (fun b => b.cid == 1 && b.nameOrig == a!"a") = true := by decide +kernel
  obtain ⟨b, hb, hp⟩ := List.any_eq_true.mp h
  simp only [Bool.and_eq_true, beq_iff_eq] at hp
  refine List.mem_map.mpr ⟨b, hb, ?_⟩
  simp only [hp.1, hp.2, hA]

/-- b's `_x` holds the not-applicable value in t2, in its only row … -/
theorem cellB : t2.db.loopRows 2 0 = [1] ∧ (t2.db.cell 2 kX 1 == some V.na) = true := by decide +kernel

/-- … and yet **`C07_WalkDelivers t2 (cid of b) _x row v` holds for every `row`**: the conclusion `Ev.item _x v ∈ events ∧ rc = OK`
    is satisfied by the callback made for block a.  (Obtained from `C07_walk_read_identical` applied to the store into a's `_x`.) -/
theorem walkDelivers_wrong_container (row : Nat) : C07_WalkDelivers t2 2 kX row v := by
  obtain ⟨r, hW⟩ := (C07_walk_read_identical t1 goodT1).2.1 hA (nm kX) v v_constructible v_fits rfl (by decide +kernel) newT1 okT2
  have hpos := C07_walk_block_position t2 hA _ rfl memA
  intro _ _ _ _ _ _ _ _ hne
  exact hW lA ⟨by decide +kernel, rfl, by decide +kernel⟩ _ _ hA hpos.1 rfl hpos.2 hne

end CifModel.ReviewSC07
