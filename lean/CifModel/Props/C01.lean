import CifModel.Lemmas.LexerKw
/-
  Property C01 — well-formed CIF parses to exactly the content it denotes: THE LEXICAL LAYER.

  The theorems below are about `Model.Lexer` (the model of next_token and the scan_* functions of src/parser.c, tied to
  the sources by the regenerated class tables — `Chars.classV2_link`, `classV1_link`, `meta_link` — and by the `lex`
  correspondence family) and the lexical grammar of `Spec.Lexical` (written from the CIF 2.0 / CIF 1.1 specifications).
  The integrated parser group builds `C01_structure` / `C01_parse_render` on top of them.
-/
namespace CifModel
open Model.Chars Model.Lexer Spec.Lexical

/-- **C01_lex_value, at the level of the scan loop** (`after_ws` already established): every admissible presentation `p`
    of every string `s`, in every dialect, followed by any context that may follow it, is read as ONE token of the
    right type whose value text is exactly `s`; exactly the presentation is consumed; the position advances as the
    specification says; nothing is reported (log unchanged) — for every callback policy. -/
theorem C01_lex_value_loop (dia : Dialect) (p : Presentation) (s ctx : Str) (line col fuel : Nat) (pol : Policy)
    (log : List Report)
    (hadm : admissible dia p s = true) (hfit : linesFit col (renderValue p s) = true)
    (hstart : startOk p s col = true) (hctx : followOk dia ctx = true) :
    tokLoop dia (fuel + 1) true ⟨renderValue p s ++ ctx, line, col⟩ pol log
      = .ok (⟨p.tokType, s, (posAfter line col (renderValue p s)).1, (posAfter line col (renderValue p s)).2⟩,
             ⟨ctx, (posAfter line col (renderValue p s)).1, (posAfter line col (renderValue p s)).2⟩) log := by
  have hq34 : (34 : Nat) = 34 ∨ (34 : Nat) = 39 := Or.inl rfl
  have hq39 : (39 : Nat) = 34 ∨ (39 : Nat) = 39 := Or.inr rfl
  -- the two single-quote-like cases share one argument
  have quoted : ∀ q : Nat, (q = 34 ∨ q = 39) → quotedOk dia q s = true → followOk dia ctx = true →
      tokLoop dia (fuel + 1) true ⟨(q :: (s ++ [q])) ++ ctx, line, col⟩ pol log
        = .ok (⟨.qvalue, s, (posAfter line col (q :: (s ++ [q]))).1, (posAfter line col (q :: (s ++ [q]))).2⟩,
               ⟨ctx, (posAfter line col (q :: (s ++ [q]))).1, (posAfter line col (q :: (s ++ [q]))).2⟩) log := by
    intro q hq hok hc
    have hne : s.all (fun x => !isEol x) = true := by
      simp only [quotedOk, Bool.and_eq_true] at hok; exact hok.1.2
    have hq10 : ¬ q = 10 := by rcases hq with h | h <;> omega
    have hqt : isTrailU q = false := by rcases hq with h | h <;> subst h <;> decide
    have hpos : posAfter line col (q :: (s ++ [q])) = (line, col + colAdd s + 2) := by
      simp only [posAfter, hq10, if_false, hqt, Bool.false_eq_true]
      rw [posAfter_append, posAfter_noeol s hne]
      simp [posAfter, hq10, hqt]; omega
    rw [hpos]
    have e : (q :: (s ++ [q])) ++ ctx = q :: (s ++ q :: ctx) := by simp
    rw [e]
    cases dia with
    | cif2 => exact tokLoop_tok (stepTok_quoted2 q hq s ctx line col pol log hok hc)
    | cif1 => exact tokLoop_tok (stepTok_quoted1 q hq s ctx line col pol log hok hc)
  have triple : ∀ q : Nat, (q = 34 ∨ q = 39) → tripleOk dia q s = true → followOk dia ctx = true →
      linesFit col (q :: q :: q :: (s ++ [q, q, q])) = true →
      tokLoop dia (fuel + 1) true ⟨(q :: q :: q :: (s ++ [q, q, q])) ++ ctx, line, col⟩ pol log
        = .ok (⟨.qvalue, s, (posAfter line col (q :: q :: q :: (s ++ [q, q, q]))).1, (posAfter line col (q :: q :: q :: (s ++ [q, q, q]))).2⟩,
               ⟨ctx, (posAfter line col (q :: q :: q :: (s ++ [q, q, q]))).1, (posAfter line col (q :: q :: q :: (s ++ [q, q, q]))).2⟩) log := by
    intro q hq hok hc hf
    have hd : dia = .cif2 := by
      simp only [tripleOk, Bool.and_eq_true, beq_iff_eq] at hok; exact hok.1.1
    subst hd
    have hq10 : ¬ q = 10 := by rcases hq with h | h <;> omega
    have hqt : isTrailU q = false := by rcases hq with h | h <;> subst h <;> decide
    have hpos : posAfter line col (q :: q :: q :: (s ++ [q, q, q]))
        = ((posAfter line (col + 3) s).1, (posAfter line (col + 3) s).2 + 3) := by
      simp only [posAfter, hq10, if_false, hqt, Bool.false_eq_true]
      rw [posAfter_append]
      simp [posAfter, hq10, hqt]
    have hf' : linesFit (col + 3) s = true := by
      simp only [linesFit, hq10, if_false, hqt, Bool.false_eq_true] at hf
      rw [linesFit_append] at hf
      simp only [Bool.and_eq_true] at hf
      exact hf.1
    rw [hpos]
    have e : (q :: q :: q :: (s ++ [q, q, q])) ++ ctx = q :: q :: q :: (s ++ q :: q :: q :: ctx) := by simp
    rw [e]
    exact tokLoop_tok (stepTok_triple q hq s ctx line col pol log hok hf' hc)
  cases p with
  | squote => exact quoted 39 hq39 hadm hctx
  | dquote => exact quoted 34 hq34 hadm hctx
  | tsquote => exact triple 39 hq39 hadm hctx hfit
  | tdquote => exact triple 34 hq34 hadm hctx hfit
  | text =>
    have hcol : col = 0 := by simpa [startOk] using hstart
    subst hcol
    have h59 : isTrailU 59 = false := by decide
    have hfit' : linesFit 1 (s ++ [10]) = true := by
      simp only [renderValue, linesFit, show ¬ (59 : Nat) = 10 from by decide, if_false, h59, Bool.false_eq_true, Nat.zero_add] at hfit
      have e : s ++ [10, 59] = (s ++ [10]) ++ [59] := by simp
      rw [e, linesFit_append] at hfit
      simp only [Bool.and_eq_true] at hfit
      exact hfit.1
    have hpos : posAfter line 0 (renderValue .text s) = ((posAfter line 1 s).1 + 1, 1) := by
      simp only [renderValue, posAfter, show ¬ (59 : Nat) = 10 from by decide, if_false, h59, Bool.false_eq_true, Nat.zero_add]
      rw [posAfter_append]
      simp [posAfter, h59]
    rw [hpos]
    have e : renderValue .text s ++ ctx = 59 :: (s ++ 10 :: 59 :: ctx) := by simp [renderValue]
    rw [e]
    exact tokLoop_tok (stepTok_text dia s ctx line pol log hadm hfit' hctx)
  | bare =>
    have hne : s.all (fun x => !isEol x) = true := by
      simp only [admissible, bareOk] at hadm
      cases s with
      | nil => simp at hadm
      | cons c r =>
        simp only [Bool.and_eq_true] at hadm
        have h := hadm.1.1.1.2
        rw [List.all_eq_true] at h ⊢
        intro x hx
        have := h x hx
        simp only [isWs, Bool.not_eq_true', Bool.or_eq_false_iff] at this
        simp [this.2]
    simp only [renderValue, Presentation.tokType]
    rw [posAfter_noeol s hne]
    -- what follows: nothing, whitespace, or (CIF 2.0) a closing bracket
    have hcases : (ctx = [] ∨ ∃ d r, ctx = d :: r ∧ isWs d = true) ∨ (dia = .cif2 ∧ ∃ d r, ctx = d :: r ∧ (d = 93 ∨ d = 125)) := by
      cases ctx with
      | nil => exact Or.inl (Or.inl rfl)
      | cons d r =>
        simp only [followOk, Bool.or_eq_true, Bool.and_eq_true, beq_iff_eq] at hctx
        rcases hctx with h | ⟨hd, h⟩
        · exact Or.inl (Or.inr ⟨d, r, rfl, h⟩)
        · exact Or.inr ⟨hd, d, r, rfl, h⟩
    rcases hcases with hws | ⟨hd, d, r, hc, hbr⟩
    · obtain ⟨c, r, hs, hstep⟩ := stepTok_bare dia s ctx line col pol log hadm (by simpa [startOk] using hstart) hws
      subst hs
      exact tokLoop_tok hstep
    · subst hc
      obtain ⟨c, r', hs, hstep⟩ := stepTok_bare_close dia hd s d hbr r line col pol log hadm (by simpa [startOk] using hstart)
      subst hs
      exact tokLoop_tok hstep

/-- **C01_lex_value** (next_token level).  For every dialect, every string `s`, every admissible presentation `p` of `s`,
    every context `ctx` that may follow it, from every scanner state in which a token may start without whitespace
    (`afterWsOf lt`; `C01_lex_value_after_ws` covers the other states; a following closing bracket or brace is allowed after
    every presentation in CIF 2.0, the whitespace-delimited one included): next_token yields a token of the presentation's
    type whose value text is `s` (text field: the raw body), consumes exactly the presentation, leaves line/column where
    the specification puts them, and reports nothing — whatever the callback policy.  (`hfit`: no line that ends inside
    the presentation is longer than 2048 characters — otherwise CIF_OVERLENGTH_LINE is due, see `C01_overlength_iff`.) -/
theorem C01_lex_value (dia : Dialect) (p : Presentation) (s ctx : Str) (line col : Nat) (lt : TokType) (pol : Policy)
    (log : List Report) (haw : afterWsOf lt = true)
    (hadm : admissible dia p s = true) (hfit : linesFit col (renderValue p s) = true)
    (hstart : startOk p s col = true) (hctx : followOk dia ctx = true) :
    nextToken dia ⟨renderValue p s ++ ctx, line, col, lt⟩ pol log
      = .ok (⟨p.tokType, s, (posAfter line col (renderValue p s)).1, (posAfter line col (renderValue p s)).2⟩,
             ⟨ctx, (posAfter line col (renderValue p s)).1, (posAfter line col (renderValue p s)).2, p.tokType⟩) log := by
  rw [nextToken_eq]
  simp only [haw]
  rw [C01_lex_value_loop dia p s ctx line col _ pol log hadm hfit hstart hctx]

/-- C01_lex_value in terms of the `nextValue` helper (start of input: line 1, column 0, nothing seen yet): the value text
    and the remaining input come back, and nothing was reported.  (At column 0 a string beginning with `;` has no bare
    presentation — `startOk`.) -/
theorem C01_nextValue (dia : Dialect) (p : Presentation) (s ctx : Str)
    (hadm : admissible dia p s = true) (hfit : linesFit 0 (renderValue p s) = true)
    (hstart : startOk p s 0 = true) (hctx : followOk dia ctx = true) :
    nextValue dia (renderValue p s ++ ctx) = some (p.tokType, s, ctx) := by
  have := C01_lex_value dia p s ctx 1 0 .end_ acceptAll [] rfl hadm hfit hstart hctx
  simp only [nextValue, Scan.init, this]

/-- **C01_lex_sep** — layout independence: a run of whitespace atoms (blanks, line terminators, comments) of ANY shape
    and length in front of ANY remaining input `R` produces no token and no report; next_token behaves exactly as if
    called behind the run, at the position the specification gives, with "whitespace seen".  (`hfirst`: a comment
    cannot begin the run unless no whitespace is required here — that would be CIF_MISSING_SPACE.) -/
theorem C01_lex_sep (dia : Dialect) (w : List WsAtom) (R : Str) (line col : Nat) (lt lt' : TokType) (pol : Policy)
    (log : List Report)
    (hok : ∀ a ∈ w, a.ok dia = true) (hfit : linesFit col (renderWs w) = true)
    (hfirst : afterWsOf lt = true ∨ ∀ b rest, w ≠ WsAtom.comment b :: rest)
    (hlt' : afterWsOf lt' = (afterWsOf lt || !w.isEmpty)) :
    nextToken dia ⟨renderWs w ++ R, line, col, lt⟩ pol log
      = nextToken dia ⟨R, (posAfter line col (renderWs w)).1, (posAfter line col (renderWs w)).2, lt'⟩ pol log := by
  rw [nextToken_eq, nextToken_eq]
  simp only [hlt']
  rw [lex_sep_loop dia R pol w line col _ (afterWsOf lt) log hok hfit hfirst (by simp)]

/-- C01_lex_value behind arbitrary whitespace: the general form (any previous token type). -/
theorem C01_lex_value_after_ws (dia : Dialect) (w : List WsAtom) (p : Presentation) (s ctx : Str) (line col : Nat)
    (lt : TokType) (pol : Policy) (log : List Report)
    (hok : ∀ a ∈ w, a.ok dia = true)
    (hfirst : afterWsOf lt = true ∨ ∀ b rest, w ≠ WsAtom.comment b :: rest)
    (hws : (afterWsOf lt || !w.isEmpty) = true)
    (hfitw : linesFit col (renderWs w) = true)
    (hadm : admissible dia p s = true)
    (hfit : linesFit (posAfter line col (renderWs w)).2 (renderValue p s) = true)
    (hstart : startOk p s (posAfter line col (renderWs w)).2 = true) (hctx : followOk dia ctx = true) :
    nextToken dia ⟨renderWs w ++ (renderValue p s ++ ctx), line, col, lt⟩ pol log
      = .ok (⟨p.tokType, s, (posAfter line col (renderWs w ++ renderValue p s)).1, (posAfter line col (renderWs w ++ renderValue p s)).2⟩,
             ⟨ctx, (posAfter line col (renderWs w ++ renderValue p s)).1, (posAfter line col (renderWs w ++ renderValue p s)).2, p.tokType⟩) log := by
  rw [C01_lex_sep dia w (renderValue p s ++ ctx) line col lt .end_ pol log hok hfitw hfirst (by rw [hws]; rfl)]
  rw [C01_lex_value dia p s ctx _ _ .end_ pol log rfl hadm hfit hstart hctx, posAfter_append]

/-- **C08_ws_lengthening_lexical** — lengthening (or otherwise changing) the whitespace and comments in front of a value
    never changes how the value is read: same token type, same value text, same remaining input, nothing reported.
    (Both layouts must respect the one position rule of the grammar — `startOk`: a text field begins a line, a
    whitespace-delimited value beginning with `;` does not — and contain no over-long line.) -/
theorem C08_ws_lengthening_lexical (dia : Dialect) (w₁ w₂ : List WsAtom) (p : Presentation) (s ctx : Str) (line col : Nat)
    (lt : TokType) (pol : Policy) (log : List Report)
    (hok₁ : ∀ a ∈ w₁, a.ok dia = true) (hok₂ : ∀ a ∈ w₂, a.ok dia = true)
    (hfirst₁ : afterWsOf lt = true ∨ ∀ b rest, w₁ ≠ WsAtom.comment b :: rest)
    (hfirst₂ : afterWsOf lt = true ∨ ∀ b rest, w₂ ≠ WsAtom.comment b :: rest)
    (hws₁ : (afterWsOf lt || !w₁.isEmpty) = true) (hws₂ : (afterWsOf lt || !w₂.isEmpty) = true)
    (hfitw₁ : linesFit col (renderWs w₁) = true) (hfitw₂ : linesFit col (renderWs w₂) = true)
    (hadm : admissible dia p s = true)
    (hfit₁ : linesFit (posAfter line col (renderWs w₁)).2 (renderValue p s) = true)
    (hfit₂ : linesFit (posAfter line col (renderWs w₂)).2 (renderValue p s) = true)
    (hstart₁ : startOk p s (posAfter line col (renderWs w₁)).2 = true)
    (hstart₂ : startOk p s (posAfter line col (renderWs w₂)).2 = true)
    (hctx : followOk dia ctx = true) :
    ∃ t₁ s₁ t₂ s₂,
      nextToken dia ⟨renderWs w₁ ++ (renderValue p s ++ ctx), line, col, lt⟩ pol log = .ok (t₁, s₁) log
      ∧ nextToken dia ⟨renderWs w₂ ++ (renderValue p s ++ ctx), line, col, lt⟩ pol log = .ok (t₂, s₂) log
      ∧ t₁.ty = t₂.ty ∧ t₁.text = t₂.text ∧ t₁.text = s ∧ s₁.rest = s₂.rest ∧ s₁.lastType = s₂.lastType :=
  ⟨_, _, _, _,
    C01_lex_value_after_ws dia w₁ p s ctx line col lt pol log hok₁ hfirst₁ hws₁ hfitw₁ hadm hfit₁ hstart₁ hctx,
    C01_lex_value_after_ws dia w₂ p s ctx line col lt pol log hok₂ hfirst₂ hws₂ hfitw₂ hadm hfit₂ hstart₂ hctx,
    rfl, rfl, rfl, rfl, rfl⟩

/-- **C01_lex_key** — a quoted or triple-quoted string directly followed by a colon is a table key (CIF 2.0): token KEY,
    value text `s`, the colon consumed (and counted in the column). -/
theorem C01_lex_key (p : Presentation) (hp : p = .squote ∨ p = .dquote ∨ p = .tsquote ∨ p = .tdquote) (s ctx : Str)
    (line col : Nat) (lt : TokType) (pol : Policy) (log : List Report) (haw : afterWsOf lt = true)
    (hadm : admissible .cif2 p s = true) (hfit : linesFit col (renderValue p s) = true) :
    nextToken .cif2 ⟨renderValue p s ++ 58 :: ctx, line, col, lt⟩ pol log
      = .ok (⟨.key, s, (posAfter line col (renderValue p s ++ [58])).1, (posAfter line col (renderValue p s ++ [58])).2⟩,
             ⟨ctx, (posAfter line col (renderValue p s ++ [58])).1, (posAfter line col (renderValue p s ++ [58])).2, .key⟩) log := by
  have quoted : ∀ q : Nat, (q = 34 ∨ q = 39) → quotedOk .cif2 q s = true →
      nextToken .cif2 ⟨(q :: (s ++ [q])) ++ 58 :: ctx, line, col, lt⟩ pol log
        = .ok (⟨.key, s, (posAfter line col ((q :: (s ++ [q])) ++ [58])).1, (posAfter line col ((q :: (s ++ [q])) ++ [58])).2⟩,
               ⟨ctx, (posAfter line col ((q :: (s ++ [q])) ++ [58])).1, (posAfter line col ((q :: (s ++ [q])) ++ [58])).2, .key⟩) log := by
    intro q hq hok
    have hne : s.all (fun x => !isEol x) = true := by
      simp only [quotedOk, Bool.and_eq_true] at hok; exact hok.1.2
    have hq10 : ¬ q = 10 := by rcases hq with h | h <;> omega
    have hqt : isTrailU q = false := by rcases hq with h | h <;> subst h <;> decide
    have hpos : posAfter line col ((q :: (s ++ [q])) ++ [58]) = (line, col + colAdd s + 3) := by
      have e : (q :: (s ++ [q])) ++ [58] = q :: (s ++ [q, 58]) := by simp
      rw [e, posAfter_cons q hq10 hqt, posAfter_append, posAfter_noeol s hne]
      simp only []
      rw [posAfter_cons q hq10 hqt, posAfter_cons 58 (by decide) (by decide)]
      simp only [posAfter, Prod.mk.injEq, true_and]; omega
    rw [hpos]
    have e : (q :: (s ++ [q])) ++ 58 :: ctx = q :: (s ++ q :: colon :: ctx) := by simp [colon]
    rw [e]
    have := stepTok_key2 q hq s ctx line col pol log hok
    rw [← haw] at this
    exact stepTok_tok_nextToken this
  have triple : ∀ q : Nat, (q = 34 ∨ q = 39) → tripleOk .cif2 q s = true →
      linesFit col (q :: q :: q :: (s ++ [q, q, q])) = true →
      nextToken .cif2 ⟨(q :: q :: q :: (s ++ [q, q, q])) ++ 58 :: ctx, line, col, lt⟩ pol log
        = .ok (⟨.key, s, (posAfter line col ((q :: q :: q :: (s ++ [q, q, q])) ++ [58])).1, (posAfter line col ((q :: q :: q :: (s ++ [q, q, q])) ++ [58])).2⟩,
               ⟨ctx, (posAfter line col ((q :: q :: q :: (s ++ [q, q, q])) ++ [58])).1, (posAfter line col ((q :: q :: q :: (s ++ [q, q, q])) ++ [58])).2, .key⟩) log := by
    intro q hq hok hf
    have hq10 : ¬ q = 10 := by rcases hq with h | h <;> omega
    have hqt : isTrailU q = false := by rcases hq with h | h <;> subst h <;> decide
    have hpos : posAfter line col ((q :: q :: q :: (s ++ [q, q, q])) ++ [58])
        = ((posAfter line (col + 3) s).1, (posAfter line (col + 3) s).2 + 4) := by
      have e : (q :: q :: q :: (s ++ [q, q, q])) ++ [58] = q :: q :: q :: (s ++ [q, q, q, 58]) := by simp
      rw [e, posAfter_cons q hq10 hqt, posAfter_cons q hq10 hqt, posAfter_cons q hq10 hqt, posAfter_append]
      rw [posAfter_cons q hq10 hqt, posAfter_cons q hq10 hqt, posAfter_cons q hq10 hqt, posAfter_cons 58 (by decide) (by decide)]
      simp only [posAfter, Prod.mk.injEq, true_and]
    have hf' : linesFit (col + 3) s = true := by
      simp only [linesFit, hq10, if_false, hqt, Bool.false_eq_true] at hf
      rw [linesFit_append] at hf
      simp only [Bool.and_eq_true] at hf
      exact hf.1
    rw [hpos]
    have e : (q :: q :: q :: (s ++ [q, q, q])) ++ 58 :: ctx = q :: q :: q :: (s ++ q :: q :: q :: colon :: ctx) := by simp [colon]
    rw [e]
    have := stepTok_triple_key q hq s ctx line col pol log hok hf'
    rw [← haw] at this
    exact stepTok_tok_nextToken this
  rcases hp with h | h | h | h <;> subst h
  · exact quoted 39 (Or.inr rfl) hadm
  · exact quoted 34 (Or.inl rfl) hadm
  · exact triple 39 (Or.inr rfl) hadm hfit
  · exact triple 34 (Or.inl rfl) hadm hfit

/-- **C01_lex_name** — a data name (`_` followed by non-blank characters) is read as one NAME token whose text is the
    whole name including the underscore. -/
theorem C01_lex_name (dia : Dialect) (s ctx : Str) (line col : Nat) (lt : TokType) (pol : Policy) (log : List Report)
    (haw : afterWsOf lt = true) (hok : nonBlankOk dia s = true) (hctx : wsOrEnd ctx = true) :
    nextToken dia ⟨95 :: (s ++ ctx), line, col, lt⟩ pol log
      = .ok (⟨.name, 95 :: s, line, col + 1 + colAdd s⟩, ⟨ctx, line, col + 1 + colAdd s, .name⟩) log := by
  have := stepTok_name dia s ctx line col pol log hok (wsOrEnd_iff hctx)
  exact stepTok_tok_nextToken (by rw [haw]; exact this)

/-- **C01_lex_bracket** — `[` `]` `{` `}` are one-character tokens in CIF 2.0; the closing ones need no whitespace before
    them (any previous token type), the opening ones none after them. -/
theorem C01_lex_bracket (c : Nat) (ty : TokType) (lt : TokType)
    (h : (c = 91 ∧ ty = .olist ∧ afterWsOf lt = true) ∨ (c = 93 ∧ ty = .clist) ∨ (c = 123 ∧ ty = .otable ∧ afterWsOf lt = true)
       ∨ (c = 125 ∧ ty = .ctable))
    (r : Str) (line col : Nat) (pol : Policy) (log : List Report) :
    nextToken .cif2 ⟨c :: r, line, col, lt⟩ pol log = .ok (⟨ty, [c], line, col + 1⟩, ⟨r, line, col + 1, ty⟩) log
    ∧ (afterWsOf .olist = true ∧ afterWsOf .otable = true) :=
  ⟨stepTok_tok_nextToken (stepTok_bracket c ty (afterWsOf lt) h r line col pol log), rfl, rfl⟩

/-- **C01_lex_keyword** — `data_<code>` is a BLOCK_HEAD token and `save_<code>` a FRAME_HEAD token whose text is the code
    (any non-blank characters, brackets included), `save_` alone is FRAME_TERM, `loop_` is LOOPKW; all case-insensitive. -/
theorem C01_lex_keyword (dia : Dialect) (a b c d e : Nat) (code ctx : Str) (line col : Nat) (lt : TokType) (pol : Policy)
    (log : List Report) (haw : afterWsOf lt = true) (hcode : nonBlankOk dia code = true) (hctx : wsOrEnd ctx = true) :
    ((lowerAscii a = 100 ∧ lowerAscii b = 97 ∧ lowerAscii c = 116 ∧ lowerAscii d = 97 ∧ lowerAscii e = 95) → code ≠ [] →
      nextToken dia ⟨a :: b :: c :: d :: e :: (code ++ ctx), line, col, lt⟩ pol log
        = .ok (⟨.blockHead, code, line, col + 5 + colAdd code⟩, ⟨ctx, line, col + 5 + colAdd code, .blockHead⟩) log)
    ∧ ((lowerAscii a = 115 ∧ lowerAscii b = 97 ∧ lowerAscii c = 118 ∧ lowerAscii d = 101 ∧ lowerAscii e = 95) →
      nextToken dia ⟨a :: b :: c :: d :: e :: (code ++ ctx), line, col, lt⟩ pol log
        = .ok (⟨if code = [] then .frameTerm else .frameHead, code, line, col + 5 + colAdd code⟩,
               ⟨ctx, line, col + 5 + colAdd code, if code = [] then .frameTerm else .frameHead⟩) log)
    ∧ ((lowerAscii a = 108 ∧ lowerAscii b = 111 ∧ lowerAscii c = 111 ∧ lowerAscii d = 112 ∧ lowerAscii e = 95) →
      nextToken dia ⟨a :: b :: c :: d :: e :: ctx, line, col, lt⟩ pol log
        = .ok (⟨.loopKw, [], line, col + 5⟩, ⟨ctx, line, col + 5, .loopKw⟩) log) := by
  refine ⟨?_, ?_, ?_⟩
  · intro hw hne
    have := stepTok_kw dia true a b c d e code ctx (by simpa using hw) hcode (fun _ => hne) (wsOrEnd_iff hctx) line col pol log
    simp only [if_true] at this
    exact stepTok_tok_nextToken (by rw [haw]; exact this)
  · intro hw
    have := stepTok_kw dia false a b c d e code ctx (by simpa using hw) hcode (fun h => by cases h) (wsOrEnd_iff hctx) line col pol log
    simp only [Bool.false_eq_true, if_false] at this
    exact stepTok_tok_nextToken (by rw [haw]; exact this)
  · intro hw
    have := stepTok_loop dia a b c d e ctx hw (wsOrEnd_iff hctx) line col pol log
    exact stepTok_tok_nextToken (by rw [haw]; exact this)

/-- **C01_lex_total** — totality of the scanner model.
    (1) fuel suffices: with more fuel than remaining units the loop's answer does not depend on the fuel (so `nextToken`,
        which passes `length + 1`, is the least fixed point of the C loop);
    (2) every call either returns END with the input exhausted, or a token that is neither END nor ERROR and consumes at
        least one unit — for every policy;
    (3) under the accept-all policy next_token always returns normally. -/
theorem C01_lex_total (dia : Dialect) :
    (∀ (pol : Policy) (f₁ f₂ : Nat) (aw : Bool) (p : Pos) (log : List Report),
        p.rest.length < f₁ → p.rest.length < f₂ → tokLoop dia f₁ aw p pol log = tokLoop dia f₂ aw p pol log)
    ∧ (∀ (pol : Policy) (s s' : Scan) (log log' : List Report) (t : Tok), nextToken dia s pol log = .ok (t, s') log' →
        (t.ty = .end_ ∧ s'.rest = [] ∧ t.text = []) ∨ (t.ty ≠ .end_ ∧ t.ty ≠ .error ∧ s'.rest.length < s.rest.length))
    ∧ (∀ (s : Scan) (log : List Report), ∃ t s' log', nextToken dia s acceptAll log = .ok (t, s') log') := by
  refine ⟨fun pol => tokLoop_fuel dia pol, ?_, ?_⟩
  · intro pol s s' log log' t h
    obtain ⟨p, hl, hs⟩ := nextToken_ok_inv h
    subst hs
    exact tokLoop_progress dia pol _ _ _ _ _ _ _ (by simp) hl
  · intro s log
    obtain ⟨a, l, h⟩ := (nextToken_noabort dia s).run log
    exact ⟨a.1, a.2, l, h⟩

/-- **C01_line_numbers** — for every input without CR (terminators are LF after normalisation), every policy, every
    token `t` that any sequence of next_token calls produces: the line number attached to `t` (the scanner's line when
    the token is handed over) is 1 + the number of line terminators consumed so far, i.e. all terminators of the input
    except those still ahead. -/
theorem C01_line_numbers (dia : Dialect) (pol : Policy) (input : Str) (hcr : noCR input) (s s' : Scan) (log log' : List Report)
    (t : Tok) (hreach : Reach dia pol input s log) (h : nextToken dia s pol log = .ok (t, s') log') :
    t.line + lineCount s'.rest = 1 + lineCount input ∧ t.line = s'.line := by
  obtain ⟨h0, hcr0⟩ := reach_inv hcr hreach
  obtain ⟨h1, _, h3, _⟩ := nextToken_inv hcr0 h
  have := congrArg Prod.snd (h0.trans h1)
  simp only [Model.Lexer.Inv] at this
  exact ⟨by rw [h3]; exact this.symm, h3⟩

/-- **C01_overlength_iff**, invariant form (any policy): at every reachable scanner state, the lines reported as
    CIF_OVERLENGTH_LINE so far (in order) followed by the over-long lines still ahead are exactly the lines of the input
    that are terminated and hold more than 2048 characters (terminator excluded; a surrogate pair is one character). -/
theorem C01_overlength_invariant (dia : Dialect) (pol : Policy) (input : Str) (hcr : noCR input) (s : Scan) (log : List Report)
    (hreach : Reach dia pol input s log) :
    (overOf log).reverse ++ longLinesAux s.line s.col false s.rest = longLines input := by
  obtain ⟨h0, _⟩ := reach_inv hcr hreach
  have := congrArg Prod.fst h0
  simp only [Model.Lexer.Inv, overOf, List.filter_nil, List.map_nil, List.reverse_nil, List.nil_append] at this
  exact this.symm

/-- **C01_overlength_iff** — under the accept-all policy the whole input is scanned, and CIF_OVERLENGTH_LINE is reported
    for EXACTLY the lines with more than 2048 characters, in order, each once, in every context (between tokens, in
    comments, inside quoted / triple-quoted strings and text fields, on lines with table keys), for arbitrary —
    also malformed — input without CR.  The token stream ends with END at line 1 + number of terminators. -/
theorem C01_overlength_iff (dia : Dialect) (input : Str) (hcr : noCR input) :
    (((tokenize dia input).2.filter isOver).map (·.line) = longLines input)
    ∧ ∃ ts t, (tokenize dia input).1 = ts ++ [t] ∧ t.ty = .end_ ∧ t.line = 1 + lineCount input
        ∧ ∀ x ∈ ts, x.ty ≠ .end_ ∧ x.ty ≠ .error := by
  obtain ⟨ts, t, log', h1, h2, _, h4, h5⟩ := tokensLoop_accept dia (input.length + 1) (Scan.init input) [] [] hcr (by simp [Scan.init])
  have htok : tokenize dia input = (ts ++ [t], log'.reverse) := by
    simp only [tokenize, tokenizeWith, h1]; simp
  rw [htok]
  refine ⟨?_, ts, t, rfl, h2, ?_, h4⟩
  · have := congrArg Prod.fst h5
    simp only [Model.Lexer.Inv, Scan.init, overOf, List.filter_nil, List.map_nil, List.reverse_nil, List.nil_append, longLinesAux,
      List.append_nil] at this
    simp only [List.filter_reverse, List.map_reverse]
    exact this.symm
  · have := congrArg Prod.snd h5
    simp only [Model.Lexer.Inv, Scan.init, lineCount, List.count_nil, Nat.add_zero] at this
    exact this.symm

/-! ### non-vacuity: the hypotheses are satisfiable, on the combinations the property's rationale names -/

-- a surrogate pair (U+1F600) directly before a closing delimiter, in every delimited presentation
example : admissible .cif2 .squote [97, 0xD83D, 0xDE00] = true := by decide
example : admissible .cif2 .tdquote [97, 10, 0xD83D, 0xDE00] = true := by decide
example : admissible .cif2 .text [0xD83D, 0xDE00] = true := by decide
example : admissible .cif2 .bare [97, 0xD83D, 0xDE00] = true ∧ followOk .cif2 [93] = true := by decide
-- … and what C01_lex_value then says about it:  'a😀' directly followed by a closing bracket, right after `[`
example : ∃ l c, nextToken .cif2 ⟨renderValue .squote [97, 0xD83D, 0xDE00] ++ [93], 1, 1, .olist⟩ acceptAll []
    = .ok (⟨.qvalue, [97, 0xD83D, 0xDE00], l, c⟩, ⟨[93], l, c, .qvalue⟩) [] :=
  ⟨_, _, C01_lex_value .cif2 .squote [97, 0xD83D, 0xDE00] [93] 1 1 .olist acceptAll [] rfl (by decide) (by decide) (by decide) (by decide)⟩
example : nextValue .cif2 (renderValue .tdquote [97, 10, 0xD83D, 0xDE00] ++ [32, 120]) = some (.qvalue, [97, 10, 0xD83D, 0xDE00], [32, 120]) :=
  C01_nextValue .cif2 .tdquote [97, 10, 0xD83D, 0xDE00] [32, 120] (by decide) (by decide) (by decide) (by decide)
-- a triple-quoted table key followed by a text field:  {'''k''':⏎;text⏎;}   (after the `{`)
example : ∃ l c, nextToken .cif2 ⟨renderValue .tsquote (a!"k") ++ 58 :: (renderWs [.eol] ++ (renderValue .text (a!"text") ++ (a!"}"))), 1, 1, .otable⟩ acceptAll []
    = .ok (⟨.key, (a!"k"), l, c⟩, ⟨renderWs [.eol] ++ (renderValue .text (a!"text") ++ (a!"}")), l, c, .key⟩) [] :=
  ⟨_, _, C01_lex_key .tsquote (Or.inr (Or.inr (Or.inl rfl))) (a!"k") _ 1 1 .otable acceptAll [] rfl (by decide) (by decide)⟩
example : ∃ l c, nextToken .cif2 ⟨renderWs [.eol] ++ (renderValue .text (a!"text") ++ (a!"}")), 1, 9, .key⟩ acceptAll []
    = .ok (⟨.tvalue, (a!"text"), l, c⟩, ⟨(a!"}"), l, c, .tvalue⟩) [] :=
  ⟨_, _, C01_lex_value_after_ws .cif2 [.eol] .text (a!"text") (a!"}") 1 9 .key acceptAll [] (by decide) (Or.inl rfl) rfl (by decide)
    (by decide) (by decide) (by decide) (by decide)⟩
-- the whole stream, by evaluation of the model: types, value texts, lines, columns
example : ((tokenize .cif2 ((a!"{'''k''':") ++ [10] ++ (a!";text") ++ [10] ++ (a!";}"))).1.map (fun t => (t.ty, t.text, t.line, t.col)))
    = [(.otable, (a!"{"), 1, 1), (.key, (a!"k"), 1, 9), (.tvalue, (a!"text"), 3, 1), (.ctable, (a!"}"), 3, 2), (.end_, [], 3, 2)] := by
  decide +kernel
-- CIF 1.1: an embedded delimiter; the reserved words are excluded from the bare presentation; text needs column 0
example : admissible .cif1 .squote (a!"it's") = true ∧ admissible .cif2 .squote (a!"it's") = false := by decide
example : admissible .cif2 .bare (a!"data_x") = false ∧ admissible .cif2 .bare (a!"LOOP_") = false
    ∧ admissible .cif2 .bare (a!"loop_x") = true := by decide
example : startOk .text (a!"x") 0 = true ∧ startOk .text (a!"x") 3 = false ∧ startOk .bare (a!";x") 0 = false := by decide
-- names, keywords, brackets; a bare value before a closing bracket
example : nonBlankOk .cif2 (a!"atom_site[1].x") = true ∧ wsOrEnd [10] = true := by decide
-- since /repo a4a1f62 also the value `;data_x` directly before a closing bracket (F33): instance of C01_lex_value
example : ∃ l c, nextToken .cif2 ⟨renderValue .bare (a!";data_x") ++ [93], 1, 2, .olist⟩ acceptAll []
    = .ok (⟨.value, (a!";data_x"), l, c⟩, ⟨[93], l, c, .value⟩) [] :=
  ⟨_, _, C01_lex_value .cif2 .bare (a!";data_x") [93] 1 2 .olist acceptAll [] rfl (by decide) (by decide) (by decide) (by decide)⟩
example : lowerAscii 68 = 100 ∧ lowerAscii 97 = 97 ∧ lowerAscii 84 = 116 := by decide
-- whitespace atoms, and an over-long line making `linesFit` fail
example : (WsAtom.comment (a!"c d")).ok .cif2 = true ∧ renderWs [.blank 32, .comment (a!"c"), .eol] = (a!" #c") ++ [10, 10] := by decide
example : linesFit 0 (List.replicate 2049 97 ++ [10]) = false ∧ linesFit 0 (List.replicate 2048 97 ++ [10]) = true := by decide +kernel
example : longLines (List.replicate 2049 97 ++ [10, 98, 10]) = [1] := by decide +kernel
example : noCR (a!"a b") := by intro x hx; simp at hx; rcases hx with h | h | h <;> subst h <;> decide
-- a reachable state: after the first token of `a b`
example : ∃ t s log, Reach .cif2 acceptAll (a!"a b") s log ∧ nextToken .cif2 (Scan.init (a!"a b")) acceptAll [] = .ok (t, s) log := by
  obtain ⟨t, s, log, h⟩ := (C01_lex_total .cif2).2.2 (Scan.init (a!"a b")) []
  exact ⟨t, s, log, Reach.step Reach.init h, h⟩

end CifModel
