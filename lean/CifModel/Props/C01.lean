import CifModel.Lemmas.LexerTok
/-
  Property C01 — well-formed CIF parses to exactly the content it denotes: THE LEXICAL LAYER.

  The theorems below are about `Model.Lexer` (the model of next_token and the scan_* functions of src/parser.c, tied to
  the sources by the regenerated class tables — `Chars.classV2_link`, `classV1_link`, `meta_link` — and by the `lex`
  correspondence family) and the lexical grammar of `Spec.Lexical` (written from the CIF 2.0 / CIF 1.1 specifications).
  The integrated parser group builds `C01_structure` / `C01_parse_render` on top of them.
-/
namespace CifModel
open Model.Chars Model.Lexer Spec.Lexical

/-- `tokLoop` when the first iteration yields a token -/
private theorem tokLoop_tok {dia : Dialect} {f : Nat} {aw : Bool} {c : Nat} {r : Str} {line col : Nat} {pol : Policy}
    {log log' : List Report} {t : Tok} {p : Pos} (h : stepTok dia aw c r line col pol log = .ok (.tok t p) log') :
    tokLoop dia (f + 1) aw ⟨c :: r, line, col⟩ pol log = .ok (t, p) log' := by
  rw [tokLoop_cons, L.bind_ok h]; rfl

/-- **C01_lex_value, at the level of the scan loop** (`after_ws` already established): every admissible presentation `p`
    of every string `s`, in every dialect, followed by any context that may follow it, is read as ONE token of the
    right type whose value text is exactly `s`; exactly the presentation is consumed; the position advances as the
    specification says; nothing is reported (log unchanged) — for every callback policy. -/
theorem C01_lex_value_loop (dia : Dialect) (p : Presentation) (s ctx : Str) (line col fuel : Nat) (pol : Policy)
    (log : List Report)
    (hadm : admissible dia p s = true) (hfit : linesFit col (renderValue p s) = true)
    (hstart : startOk p s col = true) (hctx : followOkP dia p ctx = true) :
    tokLoop dia (fuel + 1) true ⟨renderValue p s ++ ctx, line, col⟩ pol log
      = .ok (⟨p.tokType, s, (posAfter line col (renderValue p s)).1, (posAfter line col (renderValue p s)).2⟩,
             ⟨ctx, (posAfter line col (renderValue p s)).1, (posAfter line col (renderValue p s)).2⟩) log := by
  have hq34 : (34 : Nat) = 34 ∨ (34 : Nat) = 39 := Or.inl rfl
  have hq39 : (39 : Nat) = 34 ∨ (39 : Nat) = 39 := Or.inr rfl
  -- the two single-quote-like cases share one argument
  have quoted : ∀ q : Nat, (q = 34 ∨ q = 39) → quotedOk dia q s = true → followOk dia ctx = true →
      tokLoop dia (fuel + 1) true ⟨(q :: (s ++ [q])) ++ ctx, line, col⟩ pol log
        = .ok (⟨.qvalue, s, (posAfter line col (q :: (s ++ [q]))).1, (posAfter line col (q :: (s ++ [q]))).2⟩,
               ⟨ctx, (posAfter line col (q :: (s ++ [q]))).1, (posAfter line col (q :: (s ++ [q]))).2⟩) log := by
    intro q hq hok hc
    have hne : s.all (fun x => !isEol x) = true := by
      simp only [quotedOk, Bool.and_eq_true] at hok; exact hok.1.2
    have hq10 : ¬ q = 10 := by rcases hq with h | h <;> omega
    have hqt : isTrailU q = false := by rcases hq with h | h <;> subst h <;> decide
    have hpos : posAfter line col (q :: (s ++ [q])) = (line, col + colAdd s + 2) := by
      simp only [posAfter, hq10, if_false, hqt, Bool.false_eq_true]
      rw [posAfter_append, posAfter_noeol s hne]
      simp [posAfter, hq10, hqt]; omega
    rw [hpos]
    have e : (q :: (s ++ [q])) ++ ctx = q :: (s ++ q :: ctx) := by simp
    rw [e]
    cases dia with
    | cif2 => exact tokLoop_tok (stepTok_quoted2 q hq s ctx line col pol log hok hc)
    | cif1 => exact tokLoop_tok (stepTok_quoted1 q hq s ctx line col pol log hok hc)
  have triple : ∀ q : Nat, (q = 34 ∨ q = 39) → tripleOk dia q s = true → followOk dia ctx = true →
      linesFit col (q :: q :: q :: (s ++ [q, q, q])) = true →
      tokLoop dia (fuel + 1) true ⟨(q :: q :: q :: (s ++ [q, q, q])) ++ ctx, line, col⟩ pol log
        = .ok (⟨.qvalue, s, (posAfter line col (q :: q :: q :: (s ++ [q, q, q]))).1, (posAfter line col (q :: q :: q :: (s ++ [q, q, q]))).2⟩,
               ⟨ctx, (posAfter line col (q :: q :: q :: (s ++ [q, q, q]))).1, (posAfter line col (q :: q :: q :: (s ++ [q, q, q]))).2⟩) log := by
    intro q hq hok hc hf
    have hd : dia = .cif2 := by
      simp only [tripleOk, Bool.and_eq_true, beq_iff_eq] at hok; exact hok.1.1
    subst hd
    have hq10 : ¬ q = 10 := by rcases hq with h | h <;> omega
    have hqt : isTrailU q = false := by rcases hq with h | h <;> subst h <;> decide
    have hpos : posAfter line col (q :: q :: q :: (s ++ [q, q, q]))
        = ((posAfter line (col + 3) s).1, (posAfter line (col + 3) s).2 + 3) := by
      simp only [posAfter, hq10, if_false, hqt, Bool.false_eq_true]
      rw [posAfter_append]
      simp [posAfter, hq10, hqt]
    have hf' : linesFit (col + 3) s = true := by
      simp only [linesFit, hq10, if_false, hqt, Bool.false_eq_true] at hf
      rw [linesFit_append] at hf
      simp only [Bool.and_eq_true] at hf
      exact hf.1
    rw [hpos]
    have e : (q :: q :: q :: (s ++ [q, q, q])) ++ ctx = q :: q :: q :: (s ++ q :: q :: q :: ctx) := by simp
    rw [e]
    exact tokLoop_tok (stepTok_triple q hq s ctx line col pol log hok hf' hc)
  cases p with
  | squote => exact quoted 39 hq39 hadm hctx
  | dquote => exact quoted 34 hq34 hadm hctx
  | tsquote => exact triple 39 hq39 hadm hctx hfit
  | tdquote => exact triple 34 hq34 hadm hctx hfit
  | text =>
    have hcol : col = 0 := by simpa [startOk] using hstart
    subst hcol
    have h59 : isTrailU 59 = false := by decide
    have hfit' : linesFit 1 (s ++ [10]) = true := by
      simp only [renderValue, linesFit, show ¬ (59 : Nat) = 10 from by decide, if_false, h59, Bool.false_eq_true, Nat.zero_add] at hfit
      have e : s ++ [10, 59] = (s ++ [10]) ++ [59] := by simp
      rw [e, linesFit_append] at hfit
      simp only [Bool.and_eq_true] at hfit
      exact hfit.1
    have hpos : posAfter line 0 (renderValue .text s) = ((posAfter line 1 s).1 + 1, 1) := by
      simp only [renderValue, posAfter, show ¬ (59 : Nat) = 10 from by decide, if_false, h59, Bool.false_eq_true, Nat.zero_add]
      rw [posAfter_append]
      simp [posAfter, h59]
    rw [hpos]
    have e : renderValue .text s ++ ctx = 59 :: (s ++ 10 :: 59 :: ctx) := by simp [renderValue]
    rw [e]
    exact tokLoop_tok (stepTok_text dia s ctx line pol log hadm hfit' hctx)
  | bare =>
    have hctx' : ctx = [] ∨ ∃ d r, ctx = d :: r ∧ isWs d = true := by
      cases ctx with
      | nil => exact Or.inl rfl
      | cons d r => exact Or.inr ⟨d, r, rfl, by simpa [followOkP] using hctx⟩
    obtain ⟨c, r, hs, hstep⟩ := stepTok_bare dia s ctx line col pol log hadm (by simpa [startOk] using hstart) hctx'
    have hne : s.all (fun x => !isEol x) = true := by
      simp only [admissible, bareOk] at hadm
      subst hs
      simp only [Bool.and_eq_true] at hadm
      have h := hadm.1.1.1.2
      rw [List.all_eq_true] at h ⊢
      intro x hx
      have := h x hx
      simp only [isWs, Bool.not_eq_true', Bool.or_eq_false_iff] at this
      simp [this.2]
    simp only [renderValue, Presentation.tokType]
    rw [posAfter_noeol s hne]
    subst hs
    exact tokLoop_tok hstep

end CifModel
