import CifModel.Lemmas.Names
import CifModel.Lemmas.NamesEntry
/-
  Property C09 — codes, data names and table keys are matched by normalised equivalence.

  ICU is a parameter: every theorem is `∀ U : UnicodeOps`, with the assumed facts about ICU as the hypothesis `Laws U` where they
  are needed (never an axiom).  The `norm` family tests each law against the real ICU on all the data it runs.
-/
namespace CifModel
open Model Spec Lemmas.Names

/-- `cif_normalize` is idempotent -/
theorem C09_idempotent (U : UnicodeOps) (L : Laws U) (x : Str) : cifNormalize U (cifNormalize U x) = cifNormalize U x := by
  unfold cifNormalize
  rw [L.nfd_nfc, ← L.nfc_nfd (U.fold (U.nfd (U.fold (U.nfd x)))), L.fold_stable, L.nfc_nfd]

/-- `cif_normalize` gives identical results for canonically equivalent inputs -/
theorem C09_canon_invariant (U : UnicodeOps) (a b : Str) (h : canonEq U a b) : cifNormalize U a = cifNormalize U b := by
  unfold cifNormalize; rw [h]

/-- two spellings have the same `cif_normalize` form exactly when they are a canonical caseless match in the sense of Unicode
    D145: NFD(fold(NFD a)) = NFD(fold(NFD b)) -/
theorem C09_normal_form_is_caseless_match (U : UnicodeOps) (L : Laws U) (a b : Str) :
    cifNormalize U a = cifNormalize U b ↔ U.nfd (U.fold (U.nfd a)) = U.nfd (U.fold (U.nfd b)) := by
  unfold cifNormalize
  constructor
  · intro h; have := congrArg U.nfd h; rwa [L.nfd_nfc, L.nfd_nfc] at this
  · intro h; have := congrArg U.nfc h; rwa [L.nfc_nfd, L.nfc_nfd] at this

/-- the entry points normalise a valid name to its `cif_normalize` form and refuse an invalid one with the caller's code -/
theorem C09_norm_of_valid (U : UnicodeOps) (code : Code) (s : Str) :
    (isValidName false s = true → normalizeName U (some s) code = .ok (cifNormalize U s)) ∧
    (isValidName false s = false → normalizeName U (some s) code = .error code) ∧
    (isValidName true s = true → normalizeItemName U (some s) code = .ok (cifNormalize U s)) ∧
    (isValidName true s = false → normalizeItemName U (some s) code = .error code) := by
  refine ⟨?_, ?_, ?_, ?_⟩ <;> intro h <;> simp [normalizeName, normalizeItemName, h]

/-- C09, matching of block codes, frame codes and data names (`norm` = the entry point's normaliser, which by
    `C09_norm_of_valid` maps a valid spelling to its `cif_normalize` form `na` / `nb`): after an object has been created under
    spelling `a`, a look-up under spelling `b` succeeds — and a second creation under `b` is refused as a duplicate — if and
    only if `b` has the same normal form as `a`, or as a name that was present before; under no other spelling. -/
theorem C09_match_iff (norm : Option Str → Except Code Str) (present present' : List Str) (a b na nb : Str) (dup noSuch : Code)
    (ha : norm (some a) = .ok na) (hb : norm (some b) = .ok nb)
    (hcreate : createNamed norm present a dup = .ok present') :
    (findNamed norm present' b noSuch = .ok () ↔ (na = nb ∨ findNamed norm present b noSuch = .ok ())) ∧
    (createNamed norm present' b dup = .error dup ↔ (na = nb ∨ createNamed norm present b dup = .error dup)) := by
  simp only [createNamed, ha] at hcreate
  by_cases hc : na ∈ present
  · simp [hc] at hcreate
  · simp [hc] at hcreate
    subst hcreate
    have hne : na = nb ↔ nb = na := ⟨Eq.symm, Eq.symm⟩
    simp only [findNamed, createNamed, hb]
    have hm2' : ¬ na = nb → ¬ nb = na := fun h e => h e.symm
    by_cases hm1 : nb ∈ present <;> by_cases hm2 : na = nb
    · simp [hm1, hm2]
    · simp [hm1, hm2]
    · subst hm2; simp [hm1]
    · simp [hm1, hm2, hm2' hm2]

/-- C09, creation with an invalid name is refused with exactly the entry point's INVALID_* code and changes nothing -/
theorem C09_invalid_refused (U : UnicodeOps) (forItem : Bool) (invalid dup : Code) (present : List Str) (a : Str)
    (ha : isValidName forItem a = false) :
    createNamed (fun n => if forItem then normalizeItemName U n invalid else normalizeName U n invalid) present a dup = .error invalid := by
  cases forItem <;> simp [createNamed, normalizeName, normalizeItemName, ha]

/-- **C09, table keys.**  After `set key v` (new entry appended, or existing entry overwritten in place), a look-up under a valid
    `key'` finds `v` iff `NFC key' = NFC key` (canonical equivalence only — `fold` plays no role, so case is significant), any
    other key sees what it saw before, and the entry is enumerated under the spelling just used (`keys` contains `key`; the
    entry for `NFC key` carries `key` as its original spelling). -/
theorem C09_table_keys (U : UnicodeOps) {α : Type} (invalid noSuch : Code) (es es' : Entries α) (key key' : Str) (v : α)
    (hk' : hasDisallowed key' = false)
    (hset : es.set (fun n => normalizeTableIndex U n invalid) key v = .ok es') :
    hasDisallowed key = false ∧
    (U.nfc key' = U.nfc key → es'.get (fun n => normalizeTableIndex U n noSuch) key' noSuch = .ok v) ∧
    (U.nfc key' ≠ U.nfc key →
      es'.get (fun n => normalizeTableIndex U n noSuch) key' noSuch = es.get (fun n => normalizeTableIndex U n noSuch) key' noSuch) ∧
    es'.find (U.nfc key) = some (U.nfc key, key, v) ∧ key ∈ es'.keys := by
  by_cases hk : hasDisallowed key = true
  · simp [Entries.set, normalizeTableIndex, hk] at hset
  · have hk0 : hasDisallowed key = false := by cases h : hasDisallowed key <;> simp_all
    simp only [Entries.set, normalizeTableIndex, hk0] at hset
    by_cases hex : (es.find (U.nfc key)).isSome = true
    · -- overwrite in place
      simp only [Bool.false_eq_true, if_false] at hset
      rw [if_pos hex] at hset
      injection hset with hset
      subst hset
      have hf := find_overwrite (U.nfc key) key v es hex
      refine ⟨hk0, ?_, ?_, hf, ?_⟩
      · intro e
        simp only [Entries.get, normalizeTableIndex, hk', e, Bool.false_eq_true, if_false, hf]
      · intro hne
        have := find_other (U.nfc key) key v (U.nfc key') hne es
        simp only [Entries.get, normalizeTableIndex, hk', Bool.false_eq_true, if_false, this]
      · have hm := List.mem_of_find?_eq_some (show List.find? _ _ = some _ from hf)
        exact List.mem_map.mpr ⟨_, hm, rfl⟩
    · have hns : (es.find (U.nfc key)).isSome = false := by simpa using hex
      have hfresh : es.find (U.nfc key) = none := by cases h : es.find (U.nfc key) <;> simp_all
      simp [hns] at hset
      subst hset
      have hf : Entries.find (es ++ [(U.nfc key, key, v)]) (U.nfc key) = some (U.nfc key, key, v) := by
        simp only [Entries.find] at hfresh ⊢
        rw [List.find?_append, hfresh]; simp
      refine ⟨hk0, ?_, ?_, hf, ?_⟩
      · intro e; simp [Entries.get, normalizeTableIndex, hk', e, hf]
      · intro hne
        have : Entries.find (es ++ [(U.nfc key, key, v)]) (U.nfc key') = Entries.find es (U.nfc key') := by
          simp only [Entries.find]
          rw [List.find?_append]
          cases h : List.find? (fun e => e.1 == U.nfc key') es with
          | some e => rfl
          | none =>
            have : (U.nfc key == U.nfc key') = false := by simpa using fun e => hne e.symm
            simp [List.find?, this]
        simp [Entries.get, normalizeTableIndex, hk', this]
      · simp [Entries.keys]

/-- **C09, the enumeration after `set` (tables).**  `KeyedBy U.nfc es` is the invariant of a table — NFC forms pairwise different, each
    the NFC of the spelling kept with it; it holds of the empty table and is preserved by `set` and `remove` (first conjunct and
    `C09_map_invariant`).  After `set key v`: the enumeration is the old one with the spelling of the matching entry REPLACED by
    `key` (or `key` appended when there was none); `key` is enumerated; NO OTHER spelling canonically equivalent to `key` is
    (every enumerated `k'` with `NFC k' = NFC key` is `key` itself); exactly one entry has that normal form; spellings that are
    not equivalent to `key` are enumerated exactly as before. -/
theorem C09_table_enumeration (U : UnicodeOps) {α : Type} (invalid : Code) (es es' : Entries α) (key : Str) (v : α)
    (hinv : KeyedBy U.nfc es) (hset : es.set (fun n => normalizeTableIndex U n invalid) key v = .ok es') :
    KeyedBy U.nfc es' ∧
    es'.keys = (if (es.find (U.nfc key)).isSome then es.map (fun e => if e.1 == U.nfc key then key else e.2.1) else es.keys ++ [key]) ∧
    key ∈ es'.keys ∧
    (∀ k' ∈ es'.keys, U.nfc k' = U.nfc key → k' = key) ∧
    (es'.filter (fun e => e.1 == U.nfc key)).length = 1 ∧
    (∀ k', U.nfc k' ≠ U.nfc key → (k' ∈ es'.keys ↔ k' ∈ es.keys)) := by
  have hn : (fun n => normalizeTableIndex U n invalid) (some key) = .ok (U.nfc key) := by
    rcases tableNorm_eq U key invalid with ⟨h, _⟩ | ⟨h, _⟩
    · simp only [Entries.set, h] at hset; cases hset
    · exact h
  exact set_keyed U.nfc _ es es' key v hn hinv hset

/-- **C09, packet item names** (`cif_packet_set_item` / `get_item` / `get_names`: the same map with `cif_normalize_item_name` as
    its normaliser).  For valid data names: after `set name v`, a look-up under `name'` finds `v` iff `cif_normalize name' =
    cif_normalize name` (case-insensitive, canonical equivalence) and otherwise what it found before; and the names are
    enumerated as `C09_table_enumeration` says, with `cif_normalize` in the place of NFC: the spelling just used replaces the
    old one, no other equivalent spelling remains, exactly one entry per normalised name. -/
theorem C09_packet_names (U : UnicodeOps) {α : Type} (es es' : Entries α) (name name' : Str) (v : α)
    (hv : isValidName true name = true) (hv' : isValidName true name' = true) (hinv : KeyedBy (cifNormalize U) es)
    (hset : es.set (fun n => normalizeItemName U n Gen.ErrCodes.CIF_INVALID_ITEMNAME) name v = .ok es') :
    (cifNormalize U name' = cifNormalize U name →
      es'.get (fun n => normalizeItemName U n Gen.ErrCodes.CIF_NOSUCH_ITEM) name' Gen.ErrCodes.CIF_NOSUCH_ITEM = .ok v) ∧
    (cifNormalize U name' ≠ cifNormalize U name →
      es'.get (fun n => normalizeItemName U n Gen.ErrCodes.CIF_NOSUCH_ITEM) name' Gen.ErrCodes.CIF_NOSUCH_ITEM
        = es.get (fun n => normalizeItemName U n Gen.ErrCodes.CIF_NOSUCH_ITEM) name' Gen.ErrCodes.CIF_NOSUCH_ITEM) ∧
    KeyedBy (cifNormalize U) es' ∧ name ∈ es'.keys ∧
    (∀ n ∈ es'.keys, cifNormalize U n = cifNormalize U name → n = name) ∧
    (es'.filter (fun e => e.1 == cifNormalize U name)).length = 1 ∧
    (∀ n, cifNormalize U n ≠ cifNormalize U name → (n ∈ es'.keys ↔ n ∈ es.keys)) := by
  have hn : (fun n => normalizeItemName U n Gen.ErrCodes.CIF_INVALID_ITEMNAME) (some name) = .ok (cifNormalize U name) := by
    simp [normalizeItemName, hv]
  have hn' : (fun n => normalizeItemName U n Gen.ErrCodes.CIF_NOSUCH_ITEM) (some name') = .ok (cifNormalize U name') := by
    simp [normalizeItemName, hv']
  obtain ⟨g1, g2, _⟩ := get_after_set (fun n => normalizeItemName U n Gen.ErrCodes.CIF_INVALID_ITEMNAME)
    (fun n => normalizeItemName U n Gen.ErrCodes.CIF_NOSUCH_ITEM) es es' name name' _ _ v Gen.ErrCodes.CIF_NOSUCH_ITEM hn hn' hset
  obtain ⟨k1, _, k3, k4, k5, k6⟩ := set_keyed (cifNormalize U) _ es es' name v hn hinv hset
  exact ⟨g1, g2, k1, k3, k4, k5, k6⟩

/-- the invariant `KeyedBy` holds of the empty map and is preserved by `set` and by `remove`, for every normaliser whose successful
    answers are the normal form `nf` — hence of every table / packet built through the API -/
theorem C09_map_invariant {α : Type} (nf : Str → Str) (norm : Option Str → Except Code Str)
    (hnorm : ∀ k r, norm (some k) = .ok r → r = nf k) :
    KeyedBy nf ([] : Entries α) ∧
    (∀ (es es' : Entries α) key v, KeyedBy nf es → es.set norm key v = .ok es' → KeyedBy nf es') ∧
    (∀ (es es' : Entries α) key c, KeyedBy nf es → es.remove norm key c = .ok es' → KeyedBy nf es') := by
  refine ⟨KeyedBy.nil nf, ?_, fun es es' key c h hr => remove_keyed nf norm es es' key c h hr⟩
  intro es es' key v h hs
  cases hn : norm (some key) with
  | error c => simp only [Entries.set, hn] at hs; cases hs
  | ok r =>
    have := hnorm key r hn
    subst this
    exact (set_keyed nf norm es es' key v hn h hs).1

/-- **C09, which INVALID_* code each entry point returns** — against the models of the entry points themselves (store: group gF's
    Model/Store.lean; tables and packets: group gC's Model/Value.lean), with the name argument built from the spelling by the
    models of utils.c (`apiName`, `tableNorm`, `itemNorm`): an invalid block code → CIF_INVALID_BLOCKCODE from cif_create_block;
    an invalid frame code → CIF_INVALID_FRAMECODE from cif_container_create_frame and cif_container_get_frame; an invalid data name
    → CIF_INVALID_ITEMNAME from cif_container_create_loop (any position in the name list), cif_container_set_value,
    cif_loop_add_item, cif_packet_set_item, cif_packet_create, and CIF_NOSUCH_ITEM from the look-ups (get_value, get_item_loop,
    remove_item, packet get / remove); a table key with a disallowed character → CIF_INVALID_INDEX from set_item_by_key and
    CIF_NOSUCH_ITEM from get / remove.  In every case the store / table / packet is unchanged. -/
theorem C09_code_table (U : UnicodeOps) (s : Store.Store) (h : Store.CH) (l : Store.LH) (code name key : Str)
    (hc : isValidName false code = false) (hn : isValidName true name = false) (hk : hasDisallowed key = true) :
    Store.createBlock s (some (apiName U false code)) = (s, .error Gen.ErrCodes.CIF_INVALID_BLOCKCODE) ∧
    Store.createFrame s h (some (apiName U false code)) = (s, .error Gen.ErrCodes.CIF_INVALID_FRAMECODE) ∧
    Store.getFrame s h (some (apiName U false code)) = (s, .error Gen.ErrCodes.CIF_INVALID_FRAMECODE) ∧
    (∀ cat pre post, Store.createLoop s h cat (pre ++ apiName U true name :: post) = (s, .error Gen.ErrCodes.CIF_INVALID_ITEMNAME)) ∧
    (∀ v, Store.setValue s h (some (apiName U true name)) v = (s, .error Gen.ErrCodes.CIF_INVALID_ITEMNAME)) ∧
    (∀ v, Store.addItem s l (some (apiName U true name)) v = (s, .error Gen.ErrCodes.CIF_INVALID_ITEMNAME)) ∧
    Store.getValue s h (some (apiName U true name)) = (s, .error Gen.ErrCodes.CIF_NOSUCH_ITEM) ∧
    Store.getItemLoop s h (some (apiName U true name)) = (s, .error Gen.ErrCodes.CIF_NOSUCH_ITEM) ∧
    Store.removeItem s h (some (apiName U true name)) = (s, .error Gen.ErrCodes.CIF_NOSUCH_ITEM) ∧
    (∀ p x, Value.packetSet (itemNorm U) p name x = .error Value.INVALID_ITEMNAME) ∧
    (∀ pre post, Value.packetCreate (itemNorm U) (pre ++ name :: post) = .error Value.INVALID_ITEMNAME) ∧
    (∀ p, Value.packetGet (itemNorm U) p name = .error Value.NOSUCH_ITEM) ∧
    (∀ es x, Value.tableSet (tableNorm U) (.tbl es) key x = .error Value.INVALID_INDEX) ∧
    (∀ es, Value.tableGet (tableNorm U) (.tbl es) key = .error Value.NOSUCH_ITEM) ∧
    Value.INVALID_ITEMNAME = Gen.ErrCodes.CIF_INVALID_ITEMNAME ∧ Value.INVALID_INDEX = Gen.ErrCodes.CIF_INVALID_INDEX ∧
    Value.NOSUCH_ITEM = Gen.ErrCodes.CIF_NOSUCH_ITEM := by
  have hin : itemNorm U name = none := by simp [itemNorm, hn]
  have htn : tableNorm U key = none := by simp [tableNorm, hk]
  refine ⟨?_, ?_, ?_, ?_, ?_, ?_, ?_, ?_, ?_, ?_, ?_, ?_, ?_, ?_, rfl, rfl, rfl⟩
  · simp [Store.createBlock, apiName, hc]
  · simp [Store.createFrame, apiName, hc]
  · simp [Store.getFrame, apiName, hc]
  · intro cat pre post; simp [Store.createLoop, apiName, hn]
  · intro v; simp [Store.setValue, apiName, hn]
  · intro v; simp [Store.addItem, apiName, hn]
  · simp [Store.getValue, apiName, hn]
  · simp [Store.getItemLoop, apiName, hn]
  · simp [Store.removeItem, apiName, hn]
  · intro p x; simp [Value.packetSet, hin]
  · intro pre post
    induction pre with
    | nil => simp [Value.packetCreate, hin]
    | cons a r ih =>
      simp only [List.cons_append, Value.packetCreate, ih]
      cases itemNorm U a <;> rfl
  · intro p; simp [Value.packetGet, hin]
  · intro es x; simp [Value.tableSet, htn]
  · intro es; simp [Value.tableGet, htn]

/-- table keys are matched without case folding: two keys match iff their NFC forms coincide, whatever `fold` does -/
theorem C09_table_keys_case_significant (U : UnicodeOps) (code : Code) (k k' : Str)
    (h : hasDisallowed k = false) (h' : hasDisallowed k' = false) :
    (normalizeTableIndex U (some k) code = normalizeTableIndex U (some k') code) ↔ U.nfc k = U.nfc k' := by
  simp [normalizeTableIndex, h, h']

/-- **C09 validity.**  For EVERY string of UTF-16 code units (`< 0x10000`, true of every `UChar`), for data names and for
    block / frame codes: `cif_is_valid_name` accepts exactly what the CIF rules allow, stated on code points
    (`Spec.validName`: `_` + at least one more character resp. non-empty; every character a CIF character other than
    whitespace — no C0 controls, SP, U+007F–U+009F, U+FDD0–U+FDEF, U+xxFFFE/U+xxFFFF in any plane; a surrogate pair is one
    character, an unpaired surrogate is none; at most 2048 resp. 2043 characters).  The mask tests of
    `cif_has_disallowed_chars` on surrogate pairs are linked to code-point arithmetic by kernel-evaluated tables
    (`Lemmas.Names.pair_nonchar`). -/
theorem C09_validity (forItem : Bool) (s : List Nat) (hs : ∀ c ∈ s, c < 0x10000) :
    isValidName forItem s = true ↔ validName forItem s := by
  obtain ⟨hcnt, hchars⟩ := scan_spec s hs
  have hstart := start_spec forItem s
  unfold validName isValidName
  rw [hcnt]
  have hlen : (decode s).length ≤ lineLength - (if forItem then 0 else 5) ↔ (decode s).length ≤ (if forItem then 2048 else 2043) := by
    cases forItem <;> simp [lineLength]
  simp only [Bool.and_eq_true, decide_eq_true_eq, Bool.not_eq_true']
  constructor
  · rintro ⟨⟨⟨hA, hB⟩, hW⟩, hD⟩
    exact ⟨hchars.1 ⟨hW, hD⟩, hstart.1 hA, hlen.1 hB⟩
  · rintro ⟨hC, hA, hB⟩
    exact ⟨⟨⟨hstart.2 hA, hlen.2 hB⟩, (hchars.2 hC).1⟩, (hchars.2 hC).2⟩

-- non-vacuity ------------------------------------------------------------------------------------------------------------
/-- a toy `UnicodeOps` satisfying the laws in which folding matters: units 65 ↦ 97 (case), NFD/NFC the identity -/
def toyU : UnicodeOps := { nfd := id, nfc := id, fold := fun s => s.map fun c => if c = 65 then 97 else c }
example : Laws toyU := ⟨fun _ => rfl, fun _ => rfl, fun x => by simp [toyU, List.map_map]; intro a _ ; split <;> simp_all⟩
example : cifNormalize toyU [95, 65] = cifNormalize toyU [95, 97] := by decide
example : isValidName true [95, 65] = true ∧ isValidName true [95, 0x85] = false ∧ isValidName false [] = false := by decide
example : isValidName true [95, 0xd83f, 0xdffe] = false ∧ isValidName true [95, 0xd83f, 0xdffd] = true ∧ isValidName true [95, 0xd800] = false := by decide
example : validName true [95, 0xd83f, 0xdffd] := (C09_validity true _ (by decide)).1 (by decide)

/-- enumeration: a `UnicodeOps` whose NFC composes `A ´` to `Á`; set under `A ´`, then under `Á`: ONE key is enumerated, the later
    spelling; the hypotheses of `C09_table_enumeration` hold along the way -/
def composeU : UnicodeOps := { nfd := id, fold := id, nfc := fun s => if s = [65, 769] then [193] else s }
def tab1 : Entries Nat := [([193], [65, 769], 1), ([98], [98], 7)]
example : KeyedBy composeU.nfc tab1 := ⟨by decide, by intro e he; simp [tab1] at he; rcases he with rfl | rfl <;> rfl⟩
example : tab1.set (fun n => normalizeTableIndex composeU n 73) [193] 2 = .ok [([193], [193], 2), ([98], [98], 7)] := by rfl
example : Entries.keys ([([193], [193], 2), ([98], [98], 7)] : Entries Nat) = [[193], [98]] := rfl
example : ∀ k' ∈ Entries.keys ([([193], [193], 2), ([98], [98], 7)] : Entries Nat), composeU.nfc k' = composeU.nfc [193] → k' = [193] :=
  (C09_table_enumeration composeU 73 tab1 _ [193] 2 ⟨by decide, by intro e he; simp [tab1] at he; rcases he with rfl | rfl <;> rfl⟩ (by rfl)).2.2.2.1
example : isValidName false [97, 32] = false ∧ isValidName true [97] = false ∧ hasDisallowed [1] = true := by decide

end CifModel
