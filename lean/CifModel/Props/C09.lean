import CifModel.Lemmas.Names
/-
  Property C09 — codes, data names and table keys are matched by normalised equivalence.

  ICU is a parameter: every theorem is `∀ U : UnicodeOps`, with the assumed facts about ICU as the hypothesis `Laws U` where they
  are needed (never an axiom).  The `norm` family tests each law against the real ICU on all the data it runs.
-/
namespace CifModel
open Model Spec Lemmas.Names

/-- `cif_normalize` is idempotent -/
theorem C09_idempotent (U : UnicodeOps) (L : Laws U) (x : Str) : cifNormalize U (cifNormalize U x) = cifNormalize U x := by
  unfold cifNormalize
  rw [L.nfd_nfc, ← L.nfc_nfd (U.fold (U.nfd (U.fold (U.nfd x)))), L.fold_stable, L.nfc_nfd]

/-- `cif_normalize` gives identical results for canonically equivalent inputs -/
theorem C09_canon_invariant (U : UnicodeOps) (a b : Str) (h : canonEq U a b) : cifNormalize U a = cifNormalize U b := by
  unfold cifNormalize; rw [h]

/-- two spellings have the same `cif_normalize` form exactly when they are a canonical caseless match in the sense of Unicode
    D145: NFD(fold(NFD a)) = NFD(fold(NFD b)) -/
theorem C09_normal_form_is_caseless_match (U : UnicodeOps) (L : Laws U) (a b : Str) :
    cifNormalize U a = cifNormalize U b ↔ U.nfd (U.fold (U.nfd a)) = U.nfd (U.fold (U.nfd b)) := by
  unfold cifNormalize
  constructor
  · intro h; have := congrArg U.nfd h; rwa [L.nfd_nfc, L.nfd_nfc] at this
  · intro h; have := congrArg U.nfc h; rwa [L.nfc_nfd, L.nfc_nfd] at this

/-- the entry points normalise a valid name to its `cif_normalize` form and refuse an invalid one with the caller's code -/
theorem C09_norm_of_valid (U : UnicodeOps) (code : Code) (s : Str) :
    (isValidName false s = true → normalizeName U (some s) code = .ok (cifNormalize U s)) ∧
    (isValidName false s = false → normalizeName U (some s) code = .error code) ∧
    (isValidName true s = true → normalizeItemName U (some s) code = .ok (cifNormalize U s)) ∧
    (isValidName true s = false → normalizeItemName U (some s) code = .error code) := by
  refine ⟨?_, ?_, ?_, ?_⟩ <;> intro h <;> simp [normalizeName, normalizeItemName, h]

/-- C09, matching of block codes, frame codes and data names (`norm` = the entry point's normaliser, which by
    `C09_norm_of_valid` maps a valid spelling to its `cif_normalize` form `na` / `nb`): after an object has been created under
    spelling `a`, a look-up under spelling `b` succeeds — and a second creation under `b` is refused as a duplicate — if and
    only if `b` has the same normal form as `a`, or as a name that was present before; under no other spelling. -/
theorem C09_match_iff (norm : Option Str → Except Code Str) (present present' : List Str) (a b na nb : Str) (dup noSuch : Code)
    (ha : norm (some a) = .ok na) (hb : norm (some b) = .ok nb)
    (hcreate : createNamed norm present a dup = .ok present') :
    (findNamed norm present' b noSuch = .ok () ↔ (na = nb ∨ findNamed norm present b noSuch = .ok ())) ∧
    (createNamed norm present' b dup = .error dup ↔ (na = nb ∨ createNamed norm present b dup = .error dup)) := by
  simp only [createNamed, ha] at hcreate
  by_cases hc : na ∈ present
  · simp [hc] at hcreate
  · simp [hc] at hcreate
    subst hcreate
    have hne : na = nb ↔ nb = na := ⟨Eq.symm, Eq.symm⟩
    simp only [findNamed, createNamed, hb]
    have hm2' : ¬ na = nb → ¬ nb = na := fun h e => h e.symm
    by_cases hm1 : nb ∈ present <;> by_cases hm2 : na = nb
    · simp [hm1, hm2]
    · simp [hm1, hm2]
    · subst hm2; simp [hm1]
    · simp [hm1, hm2, hm2' hm2]

/-- C09, creation with an invalid name is refused with exactly the entry point's INVALID_* code and changes nothing -/
theorem C09_invalid_refused (U : UnicodeOps) (forItem : Bool) (invalid dup : Code) (present : List Str) (a : Str)
    (ha : isValidName forItem a = false) :
    createNamed (fun n => if forItem then normalizeItemName U n invalid else normalizeName U n invalid) present a dup = .error invalid := by
  cases forItem <;> simp [createNamed, normalizeName, normalizeItemName, ha]

/-- **C09, table keys.**  After `set key v` (new entry appended, or existing entry overwritten in place), a look-up under a valid
    `key'` finds `v` iff `NFC key' = NFC key` (canonical equivalence only — `fold` plays no role, so case is significant), any
    other key sees what it saw before, and the entry is enumerated under the spelling just used (`keys` contains `key`; the
    entry for `NFC key` carries `key` as its original spelling). -/
theorem C09_table_keys (U : UnicodeOps) {α : Type} (invalid noSuch : Code) (es es' : Entries α) (key key' : Str) (v : α)
    (hk' : hasDisallowed key' = false)
    (hset : es.set (fun n => normalizeTableIndex U n invalid) key v = .ok es') :
    hasDisallowed key = false ∧
    (U.nfc key' = U.nfc key → es'.get (fun n => normalizeTableIndex U n noSuch) key' noSuch = .ok v) ∧
    (U.nfc key' ≠ U.nfc key →
      es'.get (fun n => normalizeTableIndex U n noSuch) key' noSuch = es.get (fun n => normalizeTableIndex U n noSuch) key' noSuch) ∧
    es'.find (U.nfc key) = some (U.nfc key, key, v) ∧ key ∈ es'.keys := by
  by_cases hk : hasDisallowed key = true
  · simp [Entries.set, normalizeTableIndex, hk] at hset
  · have hk0 : hasDisallowed key = false := by cases h : hasDisallowed key <;> simp_all
    simp only [Entries.set, normalizeTableIndex, hk0] at hset
    by_cases hex : (es.find (U.nfc key)).isSome = true
    · -- overwrite in place
      simp only [Bool.false_eq_true, if_false] at hset
      rw [if_pos hex] at hset
      injection hset with hset
      subst hset
      have hf := find_overwrite (U.nfc key) key v es hex
      refine ⟨hk0, ?_, ?_, hf, ?_⟩
      · intro e
        simp only [Entries.get, normalizeTableIndex, hk', e, Bool.false_eq_true, if_false, hf]
      · intro hne
        have := find_other (U.nfc key) key v (U.nfc key') hne es
        simp only [Entries.get, normalizeTableIndex, hk', Bool.false_eq_true, if_false, this]
      · have hm := List.mem_of_find?_eq_some (show List.find? _ _ = some _ from hf)
        exact List.mem_map.mpr ⟨_, hm, rfl⟩
    · have hns : (es.find (U.nfc key)).isSome = false := by simpa using hex
      have hfresh : es.find (U.nfc key) = none := by cases h : es.find (U.nfc key) <;> simp_all
      simp [hns] at hset
      subst hset
      have hf : Entries.find (es ++ [(U.nfc key, key, v)]) (U.nfc key) = some (U.nfc key, key, v) := by
        simp only [Entries.find] at hfresh ⊢
        rw [List.find?_append, hfresh]; simp
      refine ⟨hk0, ?_, ?_, hf, ?_⟩
      · intro e; simp [Entries.get, normalizeTableIndex, hk', e, hf]
      · intro hne
        have : Entries.find (es ++ [(U.nfc key, key, v)]) (U.nfc key') = Entries.find es (U.nfc key') := by
          simp only [Entries.find]
          rw [List.find?_append]
          cases h : List.find? (fun e => e.1 == U.nfc key') es with
          | some e => rfl
          | none =>
            have : (U.nfc key == U.nfc key') = false := by simpa using fun e => hne e.symm
            simp [List.find?, this]
        simp [Entries.get, normalizeTableIndex, hk', this]
      · simp [Entries.keys]

/-- table keys are matched without case folding: two keys match iff their NFC forms coincide, whatever `fold` does -/
theorem C09_table_keys_case_significant (U : UnicodeOps) (code : Code) (k k' : Str)
    (h : hasDisallowed k = false) (h' : hasDisallowed k' = false) :
    (normalizeTableIndex U (some k) code = normalizeTableIndex U (some k') code) ↔ U.nfc k = U.nfc k' := by
  simp [normalizeTableIndex, h, h']

/-- **C09 validity.**  For EVERY string of UTF-16 code units (`< 0x10000`, true of every `UChar`), for data names and for
    block / frame codes: `cif_is_valid_name` accepts exactly what the CIF rules allow, stated on code points
    (`Spec.validName`: `_` + at least one more character resp. non-empty; every character a CIF character other than
    whitespace — no C0 controls, SP, U+007F–U+009F, U+FDD0–U+FDEF, U+xxFFFE/U+xxFFFF in any plane; a surrogate pair is one
    character, an unpaired surrogate is none; at most 2048 resp. 2043 characters).  The mask tests of
    `cif_has_disallowed_chars` on surrogate pairs are linked to code-point arithmetic by kernel-evaluated tables
    (`Lemmas.Names.pair_nonchar`). -/
theorem C09_validity (forItem : Bool) (s : List Nat) (hs : ∀ c ∈ s, c < 0x10000) :
    isValidName forItem s = true ↔ validName forItem s := by
  obtain ⟨hcnt, hchars⟩ := scan_spec s hs
  have hstart := start_spec forItem s
  unfold validName isValidName
  rw [hcnt]
  have hlen : (decode s).length ≤ lineLength - (if forItem then 0 else 5) ↔ (decode s).length ≤ (if forItem then 2048 else 2043) := by
    cases forItem <;> simp [lineLength]
  simp only [Bool.and_eq_true, decide_eq_true_eq, Bool.not_eq_true']
  constructor
  · rintro ⟨⟨⟨hA, hB⟩, hW⟩, hD⟩
    exact ⟨hchars.1 ⟨hW, hD⟩, hstart.1 hA, hlen.1 hB⟩
  · rintro ⟨hC, hA, hB⟩
    exact ⟨⟨⟨hstart.2 hA, hlen.2 hB⟩, (hchars.2 hC).1⟩, (hchars.2 hC).2⟩

-- non-vacuity ------------------------------------------------------------------------------------------------------------
/-- a toy `UnicodeOps` satisfying the laws in which folding matters: units 65 ↦ 97 (case), NFD/NFC the identity -/
def toyU : UnicodeOps := { nfd := id, nfc := id, fold := fun s => s.map fun c => if c = 65 then 97 else c }
example : Laws toyU := ⟨fun _ => rfl, fun _ => rfl, fun x => by simp [toyU, List.map_map]; intro a _ ; split <;> simp_all⟩
example : cifNormalize toyU [95, 65] = cifNormalize toyU [95, 97] := by decide
example : isValidName true [95, 65] = true ∧ isValidName true [95, 0x85] = false ∧ isValidName false [] = false := by decide
example : isValidName true [95, 0xd83f, 0xdffe] = false ∧ isValidName true [95, 0xd83f, 0xdffd] = true ∧ isValidName true [95, 0xd800] = false := by decide
example : validName true [95, 0xd83f, 0xdffd] := (C09_validity true _ (by decide)).1 (by decide)

end CifModel
