import CifModel.Model.Normalize
/-
  Property C09 — codes, data names and table keys are matched by normalised equivalence.
-/
namespace CifModel
open Model

/-- `cif_normalize` gives identical results for canonically equivalent inputs -/
theorem C09_canon_invariant (U : UnicodeOps) (a b : Str) (h : canonEq U a b) : cifNormalize U a = cifNormalize U b := by
  unfold cifNormalize; rw [h]

end CifModel
