import CifModel.Lemmas.WriterV1First
import CifModel.Props.C13Doc
/-
  Property C13 — WHICH element `cif_write` (CIF 1.1 mode) reports: the first one, in walk order, that CIF 1.1 cannot express.
  `C13_refuses` says the writer fails iff some element is inexpressible and that the code names a kind that occurs; when a CIF
  holds elements of BOTH kinds the code is that of the element the walk meets first (`containersFirst`, Lemmas/WriterV1First.lean:
  a scan of the walked CIF in the writer's order — container code, save frames, loops; loop-header names before packets; a data
  name before its value; within a string a carriage return first (CIF_DISALLOWED_VALUE), then its characters, then its presentation;
  a list or table as such).
-/
namespace CifModel
open Model Model.Writer Lemmas.WriterTotal Lemmas.WriterV1

/-- **C13_first_refused** — for EVERY walk order and every writable CIF (`containersOk`, as in `C13_refuses`): `cif_write` in CIF 1.1
    mode succeeds exactly when the scan finds nothing (`containersFirst cif = none`), and otherwise returns the code of the FIRST
    element of the walk that CIF 1.1 cannot express — CIF_DISALLOWED_CHAR for a code, data name or string with a character outside
    the CIF 1.1 set, CIF_DISALLOWED_VALUE for a list, a table or a string that needs a text field and contains `<LF>;`. -/
theorem C13_first_refused (cif : WCif) (hok : containersOk cif) :
    ((∃ out, writeCif 1 cif = .ok out) ↔ containersFirst cif = none) ∧
    (∀ e, writeCif 1 cif = .error e ↔ ∃ f, containersFirst cif = some f ∧ f.code = e) := by
  obtain ⟨a, b⟩ := first_writeCif cif hok
  constructor
  · constructor
    · rintro ⟨out, h⟩
      cases hf : containersFirst cif with
      | none => rfl
      | some f => rw [b f hf] at h; cases h
    · exact a
  · intro e
    constructor
    · intro h
      cases hf : containersFirst cif with
      | none => obtain ⟨out, ho⟩ := a hf; rw [ho] at h; cases h
      | some f =>
        rw [b f hf] at h
        simp only [Except.error.injEq] at h
        exact ⟨f, rfl, h⟩
    · rintro ⟨f, hf, he⟩
      rw [b f hf, he]

/-- the scan agrees with `C13_refuses`: nothing is found iff all characters and all values are expressible -/
theorem C13_first_none_iff (cif : WCif) (hok : containersOk cif) :
    containersFirst cif = none ↔ (containersCE cif ∧ containersVE cif) := by
  rw [← (C13_first_refused cif hok).1, (C13_refuses cif hok).1]

namespace C13First
/-- one block `b` with the scalar items given -/
def block (items : List (Str × V)) : WCif :=
  [WContainer.mk (a!"b") [] [{ category := some [], header := items.map (·.1), packets := [items] }]]
def code (cif : WCif) : Option Code := (containersFirst cif).map Refused.code
end C13First

/-- **C13_first_order** — the code follows the ORDER of the walk, not the kind: a list before a string with `é` gives
    CIF_DISALLOWED_VALUE, the same two items in the other order CIF_DISALLOWED_CHAR; a bad data name is met before its (list) value;
    the characters of a string before its presentation (`é<LF>;x`); a bad block code before everything in the block -/
theorem C13_first_order :
    C13First.code (C13First.block [(a!"_a", .lst []), (a!"_b", .chr true [233])]) = some Gen.ErrCodes.CIF_DISALLOWED_VALUE
    ∧ C13First.code (C13First.block [(a!"_b", .chr true [233]), (a!"_a", .lst [])]) = some Gen.ErrCodes.CIF_DISALLOWED_CHAR
    ∧ C13First.code (C13First.block [([95, 233], .lst [])]) = some Gen.ErrCodes.CIF_DISALLOWED_CHAR
    ∧ C13First.code (C13First.block [(a!"_a", .chr true [233, 10, 59, 120])]) = some Gen.ErrCodes.CIF_DISALLOWED_CHAR
    ∧ C13First.code (C13First.block [(a!"_a", .chr true (a!"y\n;x"))]) = some Gen.ErrCodes.CIF_DISALLOWED_VALUE
    ∧ C13First.code [WContainer.mk [233] [] [{ category := some [], header := [a!"_a"], packets := [[(a!"_a", .tbl [])]] }]]
        = some Gen.ErrCodes.CIF_DISALLOWED_CHAR
    ∧ C13First.code (C13First.block [(a!"_a", .chr true (a!"plain"))]) = none := by
  decide +kernel

/-- … and `cif_write` returns exactly these codes (through `C13_first_refused`, for the first two) -/
theorem C13_first_order_written :
    writeCif 1 (C13First.block [(a!"_a", .lst []), (a!"_b", .chr true [233])]) = .error Gen.ErrCodes.CIF_DISALLOWED_VALUE
    ∧ writeCif 1 (C13First.block [(a!"_b", .chr true [233]), (a!"_a", .lst [])]) = .error Gen.ErrCodes.CIF_DISALLOWED_CHAR := by
  have ok : ∀ items : List (Str × V), (∀ nv ∈ items, valueOk nv.2 = true ∧ nameOk nv.1) → containersOk (C13First.block items) := by
    intro items h
    refine ⟨⟨trivial, ?_⟩, trivial⟩
    intro l hl
    simp only [List.mem_singleton] at hl; subst hl
    refine ⟨by simp, ?_⟩
    intro p hp
    simp only [List.mem_singleton] at hp; subst hp
    intro nv hnv
    exact ⟨(h nv hnv).1, fun _ => (h nv hnv).2⟩
  have names : nameOk (a!"_a") ∧ nameOk (a!"_b") := by simp [nameOk, Writer.countChar32, LINE]
  constructor
  · apply ((C13_first_refused _ (ok _ ?_)).2 _).mpr
    · cases hf : containersFirst (C13First.block [(a!"_a", .lst []), (a!"_b", .chr true [233])]) with
      | none => have := C13_first_order.1; simp [C13First.code, hf] at this
      | some f => have := C13_first_order.1; simp only [C13First.code, hf, Option.map_some, Option.some.injEq] at this; exact ⟨f, rfl, this⟩
    · intro nv hnv
      simp only [List.mem_cons, List.not_mem_nil, or_false] at hnv
      rcases hnv with e | e <;> subst e
      · exact ⟨rfl, names.1⟩
      · exact ⟨rfl, names.2⟩
  · apply ((C13_first_refused _ (ok _ ?_)).2 _).mpr
    · cases hf : containersFirst (C13First.block [(a!"_b", .chr true [233]), (a!"_a", .lst [])]) with
      | none => have := C13_first_order.2.1; simp [C13First.code, hf] at this
      | some f => have := C13_first_order.2.1; simp only [C13First.code, hf, Option.map_some, Option.some.injEq] at this; exact ⟨f, rfl, this⟩
    · intro nv hnv
      simp only [List.mem_cons, List.not_mem_nil, or_false] at hnv
      rcases hnv with e | e <;> subst e
      · exact ⟨rfl, names.2⟩
      · exact ⟨rfl, names.1⟩

end CifModel
