import CifModel.Props.C07
import CifModel.Lemmas.StoreWorld
/-
  Review examples for C07 (group gB, independent review).

  (1) `C07_numbProduced.init` / `.autoinit` are never shown inhabited in Props/C07.lean; here they are, for 1.5 and -1.5(2).
  (2) a store-level round trip of a nested value through the world model (set_value on an existing looped item: every
      packet; on a new item: the scalar loop; add_packet; iterator update), read back by get_value and by packet iteration.
      The model's store keeps `V` itself — `toColumns` / `fromColumns` / `ser` are never called by a store operation, so
      this round trip does not exercise the column mapping (review finding C07 S3).
-/
namespace CifModel.ReviewC07
open CifModel Store Store.World Gen.ErrCodes Model.Numb Model.Columns

private def isNumb : Except Code V → Bool
  | .ok (.numb ..) => true
  | _ => false

theorem produced_of_init (val su : Bin) (scale maxLead msp : Int) (q' : Bool)
    (hk : isNumb (initNumb val su scale maxLead msp) = true) :
    ∃ t n d s sc, C07_numbProduced (.numb q' t n d s sc) := by
  cases h : initNumb val su scale maxLead msp with
  | error c => rw [h] at hk; simp [isNumb] at hk
  | ok v =>
    cases v with
    | numb q t n d s sc => exact ⟨t, n, d, s, sc, .init val su scale maxLead msp q q' t n d s sc h⟩
    | _ => rw [h] at hk; simp [isNumb] at hk

-- cif_value_init_numb(1.5, 0, scale 1, max_leading_zeroes 5), MSP 0, gives text "1.5", digits 15, scale 1 …
example : (match initNumb ⟨false, 3, -1⟩ ⟨false, 0, 0⟩ 1 5 0 with
    | .ok (.numb q t n d s sc) => (q, t, n, d, s, sc) | _ => default) = (false, a!"1.5", false, [1, 5], none, 1) := by decide +kernel
-- … so `C07_numbProduced.init` is inhabited (with any quoted flag afterwards) …
example : ∃ t n d s sc, C07_numbProduced (.numb true t n d s sc) :=
  produced_of_init ⟨false, 3, -1⟩ ⟨false, 0, 0⟩ 1 5 0 true (by decide +kernel)
-- … and that value satisfies the hypothesis `wfValue` of C07_columns_roundtrip / C07_store_read.  NO theorem derives
-- `wfValue parseFields v` from `C07_constructible v` (review finding C07 S1); for this instance it is decided:
example : wfValue parseFields (.numb true (a!"1.5") false [1, 5] none 1) = true := by decide +kernel
-- cif_value_autoinit_numb(-1.5, 0.25, rule 19): "-1.5(2)"
example : (match autoinitNumb ⟨true, 3, -1⟩ ⟨false, 1, -2⟩ 19 0 with
    | .ok (.numb q t n d s sc) => (q, t, n, d, s, sc) | _ => default) = (false, a!"-1.5(2)", true, [1, 5], some [2], 1) := by decide +kernel
example : wfValue parseFields (.numb false (a!"-1.5(2)") true [1, 5] (some [2]) 1) = true := by decide +kernel

/-! store level -/
private def n (k : Str) : Name := { key := k, orig := k, valid := true }
/-- nested: list of (quoted string, table with a differently spelled key holding a list with a number, unknown) -/
def v1 : V := .lst [.chr true (a!"a b"), .tbl [(a!"k", a!"K", .lst [.numb false (a!"-1.5(2)") true [1, 5] (some [2]) 1, .na])], .unk]
example : wfValue parseFields v1 = true := by decide +kernel

private def w0 : World := (run {} [.cifNew, .mkBlock 0 (some (n (a!"b"))),
  .mkLoop 0 none [n (a!"_a"), n (a!"_b")],
  .addPkt 0 [(a!"_a", .na), (a!"_b", .unk)],
  .addPkt 0 [(a!"_a", v1)]]).1

private def val (r : Result) : Option V := match r.out with | .value v => some v | _ => none
private def pk (r : Result) : List (Str × V) := match r.out with | .packet p => p | _ => []

-- add_packet then packet iteration: second packet delivers v1 for _a, unknown for _b
example : (pk ((run w0 [.itOpen 0, .itNext 0, .itNext 0]).2.getD 2 default) == [(a!"_a", v1), (a!"_b", .unk)]) = true := by decide +kernel
-- set_value on the looped item _b: EVERY packet now holds v1 (both deliveries), get_value is ambiguous for two packets
example : (let rs := (run w0 [.setVal 0 (some (n (a!"_b"))) (some v1), .itOpen 0, .itNext 0, .itNext 0, .itClose 0, .getVal 0 (some (n (a!"_b")))]).2
    (rs.map (·.rc) == [some CIF_OK, some CIF_OK, some CIF_OK, some CIF_OK, some CIF_OK, some CIF_AMBIGUOUS_ITEM])
    && (pk (rs.getD 2 default) == [(a!"_a", .na), (a!"_b", v1)]) && (pk (rs.getD 3 default) == [(a!"_a", v1), (a!"_b", v1)])) = true := by
  decide +kernel
-- set_value on a new item: scalar loop, get_value delivers v1
example : (let rs := (run w0 [.setVal 0 (some (n (a!"_s"))) (some v1), .getVal 0 (some (n (a!"_s")))]).2
    (rs.map (·.rc) == [some CIF_OK, some CIF_OK]) && (val (rs.getD 1 default) == some v1)) = true := by decide +kernel
-- iterator update then get through a fresh iterator
example : (let rs := (run w0 [.itOpen 0, .itNext 0, .itUpd 0 [(a!"_b", v1)], .itClose 0, .itOpen 0, .itNext 1]).2
    (pk (rs.getD 5 default) == [(a!"_a", .na), (a!"_b", v1)])) = true := by decide +kernel

/- C07_store_read, second conjunct: for an EXISTING item the theorem concludes
     `get_value = .error CIF_NOSUCH_ITEM ∨ ∃ b, get_value = .ok (v, b)`
   without saying when which.  The first disjunct is real (a loop without packets) — and it is taken also here, where the
   value was "stored" successfully and nothing can be read back: -/
example : (let rs := (run {} [.cifNew, .mkBlock 0 (some (n (a!"b"))), .mkLoop 0 none [n (a!"_a")],
      .setVal 0 (some (n (a!"_a"))) (some v1), .getVal 0 (some (n (a!"_a")))]).2
    rs.map (·.rc) == [some CIF_OK, some CIF_OK, some CIF_OK, some CIF_OK, some CIF_NOSUCH_ITEM]) = true := by decide +kernel

end CifModel.ReviewC07
