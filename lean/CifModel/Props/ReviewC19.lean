import CifModel.Props.C19
/-
  Review examples for C19 (group gB, independent review): cases the non-vacuity section of Props/C19.lean does not show.
-/
namespace CifModel.ReviewC19
open CifModel Model.Value

private def okIs (r : Except Code V) (v : V) : Bool := match r with | .ok w => w == v | .error _ => false
private def x := V.chr true (a!"x")
private def y := V.chr false (a!"y")

-- insert in the MIDDLE of a three-element list shifts the later elements; set replaces in place; remove closes the gap
example : okIs (listInsert (.lst [.unk, .na, x]) 1 (some y)) (.lst [.unk, y, .na, x]) = true := by decide +kernel
example : okIs (listSet (.lst [.unk, .na, x]) 1 (some y)) (.lst [.unk, y, x]) = true := by decide +kernel
example : (match listRemove (.lst [.unk, y, x]) 1 with | .ok (l, r) => l == .lst [.unk, x] && r == y | _ => false) = true := by decide +kernel
-- a list as a table member, and an operation on the NESTED member through a path (no theorem speaks about nested operations)
example : (match resolve (.tbl [(a!"k", a!"K", .lst [x, y])]) [.key (a!"k"), .idx 1] with | some v => v == y | none => false) = true := by
  decide +kernel
-- the documented aliasing case on a member: element 0 passed back into its own slot — nothing changes
example : (match cloneOnto (.lst [.lst [x], y]) [.idx 0] [.idx 0] with | some r => r == .lst [.lst [x], y] | none => false) = true := by
  decide +kernel
-- a member cloned onto a sibling; onto its own parent
example : (match cloneOnto (.lst [.lst [x], y]) [.idx 0] [.idx 1] with | some r => r == .lst [.lst [x], .lst [x]] | none => false) = true := by
  decide +kernel
example : (match cloneOnto (.lst [.lst [x], y]) [.idx 0, .idx 0] [.idx 0] with | some r => r == .lst [x, y] | none => false) = true := by
  decide +kernel
-- `clone` is the identity function of the model: `C19_clone_equal` is `rfl` (review finding C19 S1)
example (v : V) : clone v = v := rfl

end CifModel.ReviewC19
