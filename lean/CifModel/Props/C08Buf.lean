import CifModel.Lemmas.BufScanTok
import CifModel.Lemmas.BufScanOps
import CifModel.Lemmas.FillRun
/-
  Property C08, buffer level — the scanner of parser.c as code that works on `scanner->buffer`, `text_start`, `tvalue_start`,
  `next_char`, `buffer_limit`, with get_more_chars() called in the middle of a token (Model/BufScan.lean), produces the SAME
  token stream and the SAME reports as the list-level lexer model (Model/Lexer.lean, group gD) run on the EOL-normalised whole
  input — for every input, EVERY way the character source cuts it into chunks, every initial buffer size ≥ 2 and every
  BUF_MIN_FILL ≥ 1, every callback policy.

  Proof structure (Lemmas/BufScan.lean, BufScanSim.lean, BufScanTok.lean):
    abstraction  text s = buffer[text_start, next_char),  remaining s = buffer[next_char, buffer_limit) ++ normFrom cr_pending (source);
    get_more_chars (reset / memmove / doubling, rebasing of text_start / tvalue_start / next_char; read loop; CR folding) changes
    neither (`getMore_spec`, on C08_buffer_moves_preserve_token's lemmas and gC's `getMoreChars_spec`);
    one simulation lemma per scan function by induction over the loop iterations (`scanWsB_sim`, `scanToWsB_sim`, `scanToEolB_sim`,
    `scanUnquotedB_sim`, `scanDelimB_sim`, `scanTripleB_sim`, `scanTextB_sim`), then `stepTokB_sim`, `tokLoopB_sim`,
    `nextTokenB_sim`, `tokensLoopB_sim`, `init_abs` (cif_parse_internal's set-up + get_first_char).
-/
namespace CifModel
open Model.Chars Model.Lexer Model.Fill Model.ScanBuf Model.BufScan Spec.Eol Gen

/-- **C08, buffer-level scanner refines the lexer**: for every dialect, callback policy, chunking of the input by the character
    source (chunks of any sizes ≥ 1), initial scan-buffer size ≥ 2 (get_first_char stores up to two units) and BUF_MIN_FILL ≥ 1:
    the tokens (type, value text read at `tvalue_start` / `tvalue_length`, line, column), the return value and the reports
    (code, line, column, in order) of the buffer-level scanner are exactly those of the list-level lexer model on
    `normalizeEOL` of the whole input. -/
theorem C08_bufscan_refines_lexer (dia : Dialect) (mf size : Nat) (pol : Policy) (chunks : List Str)
    (hmf : 1 ≤ mf) (hsize : 2 ≤ size) (hne : ∀ c ∈ chunks, c ≠ []) :
    ((tokenizeB dia mf size pol chunks).1.map (·.tok), (tokenizeB dia mf size pol chunks).2.1, (tokenizeB dia mf size pol chunks).2.2)
      = tokenizeWith dia pol (normalizeEOL chunks.flatten) :=
  tokenizeB_eq dia mf size pol chunks hmf hsize hne

/-- … in particular with the constants of the tree (BUF_MIN_FILL and BUF_SIZE_INITIAL as translated from parser.c) -/
theorem C08_bufscan_refines_lexer_tree (dia : Dialect) (pol : Policy) (chunks : List Str) (hne : ∀ c ∈ chunks, c ≠ []) :
    ((tokenizeB dia ParseConsts.bufMinFill ParseConsts.bufSizeInitial pol chunks).1.map (·.tok),
     (tokenizeB dia ParseConsts.bufMinFill ParseConsts.bufSizeInitial pol chunks).2.1,
     (tokenizeB dia ParseConsts.bufMinFill ParseConsts.bufSizeInitial pol chunks).2.2)
      = tokenizeWith dia pol (normalizeEOL chunks.flatten) :=
  tokenizeB_eq dia _ _ pol chunks (by decide) (by decide) hne

/-- **C08, buffer boundaries do not matter**: two runs over inputs with the same normal form — any two chunkings, any two initial
    buffer sizes, any two BUF_MIN_FILL values — yield the same tokens, return value and reports -/
theorem C08_bufscan_boundaries_irrelevant (dia : Dialect) (pol : Policy) (mf mf' size size' : Nat) (chunks chunks' : List Str)
    (hmf : 1 ≤ mf) (hmf' : 1 ≤ mf') (hsize : 2 ≤ size) (hsize' : 2 ≤ size')
    (hne : ∀ c ∈ chunks, c ≠ []) (hne' : ∀ c ∈ chunks', c ≠ [])
    (hsame : normalizeEOL chunks.flatten = normalizeEOL chunks'.flatten) :
    ((tokenizeB dia mf size pol chunks).1.map (·.tok), (tokenizeB dia mf size pol chunks).2.1, (tokenizeB dia mf size pol chunks).2.2)
      = ((tokenizeB dia mf' size' pol chunks').1.map (·.tok), (tokenizeB dia mf' size' pol chunks').2.1,
         (tokenizeB dia mf' size' pol chunks').2.2) := by
  rw [tokenizeB_eq dia mf size pol chunks hmf hsize hne, tokenizeB_eq dia mf' size' pol chunks' hmf' hsize' hne', hsame]

/-- **C08, terminator style at buffer level**: an LF-form document `d`, re-spelled with any admissible mixture of LF / CR LF / CR,
    cut into any chunks and scanned through any buffer: the token stream and the reports are those of `d` itself -/
theorem C08_bufscan_style_independent (dia : Dialect) (pol : Policy) (mf size : Nat) (d : Str) (sty : List Nat) (chunks : List Str)
    (hmf : 1 ≤ mf) (hsize : 2 ≤ size) (hd : ∀ c ∈ d, c ≠ 13) (hadm : admissible false sty d = true)
    (hflat : chunks.flatten = respell sty d) (hne : ∀ c ∈ chunks, c ≠ []) :
    ((tokenizeB dia mf size pol chunks).1.map (·.tok), (tokenizeB dia mf size pol chunks).2.1, (tokenizeB dia mf size pol chunks).2.2)
      = tokenizeWith dia pol d := by
  rw [tokenizeB_eq dia mf size pol chunks hmf hsize hne, hflat, normalizeEOL, normFrom_respell false sty d hd hadm]

/-- **C08, a refill in the middle of a token**: get_more_chars() — whichever of its cases applies (reset, memmove to the front,
    doubling, append), whatever the source delivers — leaves the token text scanned so far, the value offset, line, column and
    the rest of the (normalised) input as they were, re-establishes the pointer invariant, and reports CIF_EOF exactly when
    nothing is left. -/
theorem C08_bufscan_refill (mf : Nat) (s : BS) (g : Good mf s) (hn : s.sb.next = s.sb.limit) :
    Good mf (getMore mf s).2 ∧ (getMore mf s).2.text = s.text ∧ (getMore mf s).2.sb.tvalueOffset = s.sb.tvalueOffset ∧
    (getMore mf s).2.line = s.line ∧ (getMore mf s).2.col = s.col ∧ (getMore mf s).2.remaining = s.remaining ∧
    ((getMore mf s).1 = false → s.remaining = []) ∧
    ((getMore mf s).1 = true → (getMore mf s).2.sb.next < (getMore mf s).2.sb.limit) := by
  have h := getMore_spec mf s g hn
  exact ⟨h.1, h.2.1, h.2.2.1, h.2.2.2.1, h.2.2.2.2.1, h.2.2.2.2.2.2.2.1, fun hb => (h.2.2.2.2.2.2.2.2.1 hb).1,
    fun hb => (h.2.2.2.2.2.2.2.2.2 hb).1⟩

/-- **C08, the pointers the parser reads after next_token()**: at every token of every run (any chunking, any buffer size, any
    policy) `0 ≤ text_start ≤ tvalue_start`, `tvalue_start + tvalue_length ≤ next_char ≤ buffer_limit ≤ buffer_size` — the token
    value lies inside the scanned token text, inside the valid part of the buffer, whatever moves and doublings happened
    while it was scanned. -/
theorem C08_bufscan_offsets_ordered (dia : Dialect) (mf size : Nat) (pol : Policy) (chunks : List Str)
    (hmf : 1 ≤ mf) (hsize : 2 ≤ size) (hne : ∀ c ∈ chunks, c ≠ []) :
    ∀ r ∈ (tokenizeB dia mf size pol chunks).1,
      r.textStart ≤ r.tvalueStart ∧ r.tvalueStart + r.tok.text.length ≤ r.next ∧ r.next ≤ r.limit ∧ r.limit ≤ r.size :=
  tokensLoopB_ordered dia mf pol _ _ _ [] [] (init_abs mf size chunks hmf hsize hne) (fun _ h => by simp at h)

/-- **C08, the string terminator the parser writes into the scan buffer fits**: parse_cif / parse_container execute
    `*(token_value + token_length) = 0` (and restore the unit afterwards) behind every BLOCK_HEAD / FRAME_HEAD token.  For every
    input, chunking, initial buffer size and policy that unit lies INSIDE the buffer array (`tvalue_start + tvalue_length <
    buffer_size`) — even when the token is as long as the buffer, or ends with the last buffered unit: a whitespace-delimited token
    is ended either by BACK_UP over a buffered unit or by the end of the input, and then get_more_chars() had made room first. -/
theorem C08_bufscan_terminator_fits (dia : Dialect) (mf size : Nat) (pol : Policy) (chunks : List Str)
    (hmf : 1 ≤ mf) (hsize : 2 ≤ size) (hne : ∀ c ∈ chunks, c ≠ []) :
    ∀ r ∈ (tokenizeB dia mf size pol chunks).1,
      (r.tok.ty = .blockHead ∨ r.tok.ty = .frameHead) → r.tvalueStart + r.tok.text.length < r.size :=
  tokensLoopB_fits dia mf pol _ _ _ [] [] (init_abs mf size chunks hmf hsize hne) (fun _ h => by simp at h)

/-- **C08, TRIM_TOKEN at buffer level** (the push-back parse_table performs on an unquoted value that begins with or contains a
    colon): on a pending whitespace-delimited token (value = whole token text, as next_token leaves a VALUE — `TokShape`),
    `TRIM_TOKEN(scanner, n); ttype = ty` keeps the first `n` units as the token value, puts the other units back in front of the rest
    of the input, takes their characters (`u_countChar32`) out of the column — exactly group gJ's `Parser.trimTok` on the list-level
    parser state — and leaves a good state, whatever refills and buffer moves happened while the token was scanned. -/
theorem C08_bufscan_trim_token (mf : Nat) (s : BS) (n : Nat) (ty : TokType) (ps : Model.Parser.PS) (t : Tok)
    (g : Good mf s) (hw : s.sb.tvalueOffset = 0 ∧ s.sb.tvalueStart + s.tvlen = s.sb.next) (hn : n ≤ s.tvlen)
    (htok : s.tok = t) (hrem : s.remaining = ps.scan.rest) (hline : s.line = ps.scan.line) (hcol : s.col = ps.scan.col) :
    let q := Model.Parser.trimTok ps t n ty
    Good mf (trimTokenB s n ty) ∧ (trimTokenB s n ty).ttype = q.1.ty ∧ (trimTokenB s n ty).value = q.1.text ∧
    (trimTokenB s n ty).remaining = q.2.scan.rest ∧ (trimTokenB s n ty).line = q.2.scan.line ∧
    (trimTokenB s n ty).col = q.2.scan.col ∧ (trimTokenB s n ty).ttype = q.2.scan.lastType := by
  have sp := trimTokenB_spec mf s n ty g hw hn
  have htx : s.value = t.text := congrArg Tok.text htok
  refine ⟨sp.1, sp.2.2.2.2.2.1, ?_, ?_, ?_, ?_, sp.2.2.2.2.2.1⟩
  · rw [sp.2.1, htx]; rfl
  · rw [sp.2.2.1, htx, hrem]; rfl
  · rw [sp.2.2.2.2.1, hline]; rfl
  · rw [sp.2.2.2.1, htx, hcol]; rfl

/-- **C08, colon push-back at buffer level** (parse_item / parse_list / parse_table on a KEY / TKEY): `next_char -= 1; column -= 1;
    ttype = alt` on the token next_token left (the unit before `next_char` is the colon, outside the value — `TokShape`) is gJ's
    `Parser.pushColon`: same value, the colon back in front of the rest of the input, column one less. -/
theorem C08_bufscan_push_colon (mf : Nat) (s : BS) (alt : TokType) (ps : Model.Parser.PS) (t : Tok)
    (g : Good mf s) (hk : s.sb.tvalueStart + s.tvlen < s.sb.next ∧ s.get (s.sb.next - 1) = colon)
    (htok : s.tok = t) (hrem : s.remaining = ps.scan.rest) (hline : s.line = ps.scan.line) (hcol : s.col = ps.scan.col) :
    let q := Model.Parser.pushColon ps t alt
    Good mf (pushColonB s alt) ∧ (pushColonB s alt).ttype = q.1.ty ∧ (pushColonB s alt).value = q.1.text ∧
    (pushColonB s alt).remaining = q.2.scan.rest ∧ (pushColonB s alt).line = q.2.scan.line ∧
    (pushColonB s alt).col = q.2.scan.col ∧ (pushColonB s alt).ttype = q.2.scan.lastType := by
  have sp := pushColonB_spec mf s alt g hk
  have htx : s.value = t.text := congrArg Tok.text htok
  refine ⟨sp.1, sp.2.2.2.2.2.1, ?_, ?_, ?_, ?_, sp.2.2.2.2.2.1⟩
  · rw [sp.2.1, htx]; rfl
  · rw [sp.2.2.1, hrem]; rfl
  · rw [sp.2.2.2.2.1, hline]; rfl
  · rw [sp.2.2.2.1, hcol]; rfl

/-- **C08, token streams with push-back**: the run in which every VALUE token longer than one unit is trimmed to its first unit
    (TRIM_TOKEN(scanner, 1); ttype = KEY) and / or the colon of every KEY / TKEY is pushed back before CONSUME_TOKEN — so that
    pushed-back units are scanned again, across refills and buffer moves — yields at buffer level, for every chunking, buffer size,
    policy and number of iterations, the tokens, return value and reports of the same run over the list-level lexer with gJ's
    `trimTok` / `pushColon`. -/
theorem C08_bufscan_pushback_streams (dia : Dialect) (mf size : Nat) (pol : Policy) (ops : Ops) (fuel : Nat) (chunks : List Str)
    (hmf : 1 ≤ mf) (hsize : 2 ≤ size) (hne : ∀ c ∈ chunks, c ≠ []) :
    ((tokensLoopOpsB dia mf pol ops fuel (BS.init size ⟨chunks⟩) [] []).1.map (·.tok),
     (tokensLoopOpsB dia mf pol ops fuel (BS.init size ⟨chunks⟩) [] []).2)
      = ((tokensLoopOps dia pol ops fuel (Scan.init (normalizeEOL chunks.flatten)) [] []).1,
         (tokensLoopOps dia pol ops fuel (Scan.init (normalizeEOL chunks.flatten)) [] []).2) := by
  have h := tokensLoopOpsB_sim dia mf pol ops fuel _ _ [] [] [] (init_abs mf size chunks hmf hsize hne) rfl
  rw [h.1, h.2]

-- non-vacuity -------------------------------------------------------------------------------------------------------
-- a quoted string whose CR LF is split across two fills, then a text field closed by CR LF `;`, scanned through a 2-unit buffer
-- (every token outgrows the buffer: doubling in the middle of tokens); the buffer-level token stream is computed and is the
-- lexer model's on the normalised input
example :
    let chunks : List Str := [[39, 97, 39, 13], [10, 59, 98, 13], [10, 59]]
    (∀ c ∈ chunks, c ≠ []) ∧
    ((tokenizeB .cif2 2 2 acceptAll chunks).1.map (·.tok), (tokenizeB .cif2 2 2 acceptAll chunks).2.1, (tokenizeB .cif2 2 2 acceptAll chunks).2.2)
      = tokenizeWith .cif2 acceptAll [39, 97, 39, 10, 59, 98, 10, 59] ∧
    (tokenizeB .cif2 2 2 acceptAll chunks).1.map (·.tok.ty) = [.qvalue, .tvalue, .end_] ∧
    (tokenizeB .cif2 2 2 acceptAll chunks).1.map (·.size) = [4, 8, 8] := by decide
-- the hypotheses of C08_bufscan_refill on a concrete state: a 3-unit token `bcd` in a full 4-unit buffer, source not exhausted
example : Good 4 ⟨⟨[97, 98, 99, 100], 4, 4, 4, 1, 2⟩, 0, 1, 3, .end_, ⟨false, false⟩, ⟨[[101, 13], [10]]⟩⟩ ∧
    (getMore 4 ⟨⟨[97, 98, 99, 100], 4, 4, 4, 1, 2⟩, 0, 1, 3, .end_, ⟨false, false⟩, ⟨[[101, 13], [10]]⟩⟩).2.sb
      = ⟨[98, 99, 100, 101, 10, 0, 0, 0], 8, 5, 3, 0, 1⟩ := by
  refine ⟨⟨by decide, by decide, by decide, ?_, by decide⟩, by decide⟩
  intro c hc
  simp only [List.mem_cons, List.not_mem_nil, or_false] at hc
  rcases hc with h | h <;> simp [h]

-- the hypotheses of C08_bufscan_trim_token / C08_bufscan_push_colon on concrete pending tokens: the VALUE `a:b` in a 4-unit buffer
-- (value = whole token text), and the KEY `'k':` (the unit before next_char is the colon, outside the value)
example :
    let s : BS := ⟨⟨[97, 58, 98, 32], 4, 4, 3, 0, 0⟩, 3, 1, 3, .value, ⟨false, true⟩, ⟨[]⟩⟩
    s.sb.Inv ∧ (s.sb.tvalueOffset = 0 ∧ s.sb.tvalueStart + s.tvlen = s.sb.next) ∧ 1 ≤ s.tvlen ∧ s.value = [97, 58, 98] ∧
    (trimTokenB s 1 .key).sb.next = 1 ∧ (trimTokenB s 1 .key).tvlen = 1 := by decide
example :
    let s : BS := ⟨⟨[39, 107, 39, 58], 4, 4, 4, 0, 1⟩, 1, 1, 4, .key, ⟨false, true⟩, ⟨[]⟩⟩
    s.sb.Inv ∧ (s.sb.tvalueStart + s.tvlen < s.sb.next ∧ s.get (s.sb.next - 1) = colon) ∧ s.value = [107] ∧
    (pushColonB s .qvalue).sb.next = 3 ∧ (pushColonB s .qvalue).col = 3 := by decide

-- a block header that fills the (doubled) buffer exactly, `data_abc` = 8 units through a 4-unit buffer with the end of the input
-- behind it: the token ends at offset 8 = buffer_limit = the old buffer_size; the get_more_chars() call that detects the end of
-- the input has doubled the buffer to 16 first, so the terminator lands inside it
example : (tokenizeB .cif2 2 4 acceptAll [[100, 97, 116, 97, 95, 97, 98, 99]]).1.map (fun r => (r.tok.ty, r.tvalueStart + r.tok.text.length, r.limit, r.size))
    = [(.blockHead, 8, 8, 16), (.end_, 8, 8, 16)] := by decide

end CifModel
