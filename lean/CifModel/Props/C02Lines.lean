import CifModel.Lemmas.WriterRoundtripC
import CifModel.Props.C02Doc
/-
  Property C02 — "no line longer than 2048 CHARACTERS", in characters.  `C02_line_bound` (Props/C02Doc.lean) bounds the lines in code
  units and must therefore ask that block codes, data names and loop-header names are short in UNITS; the API bounds them in
  characters, and so does the property.  Lemmas: Lemmas/WriterLinesC.lean.
-/
namespace CifModel
open Model Model.Writer Lemmas.WriterLines Lemmas.WriterLinesC

/-- the length of a line in characters: the units that do not continue a surrogate pair (for well-formed UTF-16 — what the
    writer emits, `C02_output_units` — the number of code points; never more than the number of units, never more than
    `u_countChar32`) -/
def C02_charLength (l : Str) : Nat := cpLen l

theorem C02_charLength_le (l : Str) : C02_charLength l ≤ l.length ∧ C02_charLength l ≤ Writer.countChar32 l :=
  ⟨cpLen_le_length l, cpLen_le_count l⟩

/-- **C02_line_bound_chars** (whole documents, both output versions, every walk order).  Whenever `cif_write` succeeds, no line of
    the output has more than 2048 CHARACTERS, provided (`containersLC`)
      * block / frame codes hold no line feed and at most 2043 characters (so that `data_` / `save_` fits: the API's own bound),
      * loop-header names hold no line feed and at most 2048 characters (the API's own bound),
      * the data names of items hold no line feed — NOTHING is asked of their length: `write_item` tests them with `u_countChar32`
        and fails with CIF_ERROR otherwise,
      * strings and table keys hold neither NUL nor CR, number texts are one line of BMP units (as for `C02_line_bound`).
    Compared with `C02_line_bound`: the bound is in the unit the property uses, and the three length hypotheses in code units
    (codes ≤ 2043 units, header names ≤ 2047 / 2048 units, item names ≤ 2048 units) are gone — names and codes of supplementary-plane
    characters up to the API's limits are covered (`C02_cex_line_units`: for them the unit-level bound is false). -/
theorem C02_line_bound_chars (version : Nat) (cif : WCif) (out : Str) (h : containersLC cif)
    (hw : writeCif version cif = .ok out) : ∀ l ∈ splitLines out, C02_charLength l ≤ LINE :=
  all_lines_of_fitsC out (write_fitsC version cif out h hw)

/-- the hypotheses of `C02_line_bound` imply those of `C02_line_bound_chars` -/
theorem C02_line_hypotheses_chars (cif : WCif) (h : containersL cif) : containersLC cif := containersLC_of_L cif h

namespace C02Lines
/-- `n` times U+1F600 -/
def faces : Nat → Str
  | 0 => []
  | n + 1 => 0xD83D :: 0xDE00 :: faces n
/-- block code of 1022 supplementary characters (2044 units; the API admits up to 2043 characters), one item -/
def wideCode : WCif := [WContainer.mk (faces 1022) [] [C02Doc.scalar1 (a!"_x") (a!"1")]]
end C02Lines

set_option maxRecDepth 1000000 in
/-- **C02_cex_line_units** — the unit-level hypotheses of `C02_line_bound` are necessary for ITS conclusion and not for the
    property: a block code of 1022 supplementary-plane characters (the API accepts it; replay corpus/write/boundary.req) satisfies
    `containersLC`, is written, and the line `data_<code>` has 2049 code units — but 1027 characters. -/
theorem C02_cex_line_units :
    containersLC C02Lines.wideCode ∧ ¬ containersL C02Lines.wideCode ∧
    ∃ out, writeCif 0 C02Lines.wideCode = .ok out ∧ (∃ l ∈ splitLines out, l.length = 2049 ∧ C02_charLength l = 1027) := by
  have hok : (match writeCif 0 C02Lines.wideCode with
      | .ok out => (splitLines out).any (fun l => l.length == 2049 && cpLen l == 1027)
      | .error _ => false) = true := by decide +kernel
  refine ⟨?_, ?_, ?_⟩
  · refine ⟨⟨⟨by decide +kernel, by decide +kernel⟩, trivial, ?_⟩, trivial⟩
    intro l hl
    simp only [List.mem_singleton] at hl; subst hl
    refine ⟨fun hsc => absurd hsc (by decide), fun p hp nv hnv => ?_⟩
    simp only [C02Doc.scalar1, List.mem_singleton] at hp; subst hp
    simp only [List.mem_singleton] at hnv; subst hnv
    exact ⟨⟨by decide, by decide⟩, fun _ => by decide⟩
  · intro h
    have : (C02Lines.faces 1022).length + 5 ≤ LINE := h.1.1.2
    revert this
    decide +kernel
  · cases hw : writeCif 0 C02Lines.wideCode with
    | error e => rw [hw] at hok; cases hok
    | ok out =>
      rw [hw] at hok
      simp only [List.any_eq_true, Bool.and_eq_true, beq_iff_eq] at hok
      obtain ⟨l, hl, h1, h2⟩ := hok
      exact ⟨out, rfl, l, hl, h1, h2⟩

open Lemmas.WriterChunks in
/-- **C02_roundtrip_doc_nl** — `C02_roundtrip_doc` WITHOUT its line-length hypothesis `containersL`: for every walk order `cif` that
    `cif_write` accepts in CIF 2.0 mode, under `cifR` (allowed characters, valid keys, the scalar loop has one packet, …) and
    `blocksN` (valid, pairwise different codes and names; loops with header and packets) alone, the integrated parser model under
    EVERY callback policy returns CIF_OK, reports nothing, and leaves the blocks, frames, loops, packets and values written.
    The hypothesis was needed only to keep the output's lines within the scanner's limit; that now follows from
    `C02_line_bound_chars`, whose hypotheses are consequences of `cifR` and `blocksN` (`containersLC_of_RN`: `cif_is_valid_name`
    bounds codes and names in characters and forbids line feeds). -/
theorem C02_roundtrip_doc_nl (o : Model.Parser.Opts) (pol : Model.Lexer.Policy) (cif : WCif) (out : Str)
    (hdia : o.dia = .cif2) (hun : o.unfold = true) (hpr : o.prem = true)
    (hstore : o.store = true) (hmfd : o.maxFrameDepth ≠ 0) (hutf : o.notUtf8 = false)
    (hR : cifR o.dia o.normKey cif) (hN : blocksN o cif [])
    (hw : writeCif 0 cif = .ok out) :
    ∃ back, Model.Parser.parse o pol [] out = { rc := 0, log := [], cif := back } ∧ All2 backBlock cif back :=
  roundtrip_doc_nl 0 o pol cif out (by rw [hdia]; rfl) hun hpr hstore hmfd hutf hR hN hw

open Lemmas.WriterChunks in
/-- the line bound for everything the round trip covers: under `cifR` and `blocksN` no line of the output has more than 2048
    characters -/
theorem C02_line_bound_of_valid (version : Nat) (o : Model.Parser.Opts) (cif : WCif) (out : Str)
    (hR : cifR o.dia o.normKey cif) (hN : blocksN o cif []) (hw : writeCif version cif = .ok out) :
    ∀ l ∈ splitLines out, C02_charLength l ≤ LINE :=
  C02_line_bound_chars version cif out (containersLC_of_RN o cif [] hR hN) hw

open Lemmas.WriterChunks in
-- non-vacuity of `C02_roundtrip_doc_nl`: the sample of `C02_roundtrip_doc`, without its `containersL`
example (pol : Model.Lexer.Policy) : ∃ out back, writeCif 0 C02Doc.sample = .ok out
    ∧ Model.Parser.parse C01parse.opts2 pol [] out = { rc := 0, log := [], cif := back } ∧ All2 backBlock C02Doc.sample back := by
  obtain ⟨_, hR, hN, out, hw⟩ := C02_roundtrip_doc_instance
  obtain ⟨back, hp, hb⟩ := C02_roundtrip_doc_nl C01parse.opts2 pol C02Doc.sample out rfl rfl rfl rfl (by decide) rfl hR hN hw
  exact ⟨out, back, hw, hp, hb⟩

-- non-vacuity: the sample document of `C02_roundtrip_doc` satisfies the hypotheses
example : containersLC C02Doc.sample := C02_line_hypotheses_chars _ C02_roundtrip_doc_instance.1

end CifModel
