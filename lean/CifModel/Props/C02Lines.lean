import CifModel.Lemmas.WriterLinesC
import CifModel.Props.C02Doc
/-
  Property C02 — "no line longer than 2048 CHARACTERS", in characters.  `C02_line_bound` (Props/C02Doc.lean) bounds the lines in code
  units and must therefore ask that block codes, data names and loop-header names are short in UNITS; the API bounds them in
  characters, and so does the property.  Lemmas: Lemmas/WriterLinesC.lean.
-/
namespace CifModel
open Model Model.Writer Lemmas.WriterLines Lemmas.WriterLinesC

/-- the length of a line in characters: the units that do not continue a surrogate pair (for well-formed UTF-16 — what the
    writer emits, `C02_output_units` — the number of code points; never more than the number of units, never more than
    `u_countChar32`) -/
def C02_charLength (l : Str) : Nat := cpLen l

theorem C02_charLength_le (l : Str) : C02_charLength l ≤ l.length ∧ C02_charLength l ≤ Writer.countChar32 l :=
  ⟨cpLen_le_length l, cpLen_le_count l⟩

/-- **C02_line_bound_chars** (whole documents, both output versions, every walk order).  Whenever `cif_write` succeeds, no line of
    the output has more than 2048 CHARACTERS, provided (`containersLC`)
      * block / frame codes hold no line feed and at most 2043 characters (so that `data_` / `save_` fits: the API's own bound),
      * loop-header names hold no line feed and at most 2048 characters (the API's own bound),
      * the data names of items hold no line feed — NOTHING is asked of their length: `write_item` tests them with `u_countChar32`
        and fails with CIF_ERROR otherwise,
      * strings and table keys hold neither NUL nor CR, number texts are one line of BMP units (as for `C02_line_bound`).
    Compared with `C02_line_bound`: the bound is in the unit the property uses, and the three length hypotheses in code units
    (codes ≤ 2043 units, header names ≤ 2047 / 2048 units, item names ≤ 2048 units) are gone — names and codes of supplementary-plane
    characters up to the API's limits are covered (`C02_cex_line_units`: for them the unit-level bound is false). -/
theorem C02_line_bound_chars (version : Nat) (cif : WCif) (out : Str) (h : containersLC cif)
    (hw : writeCif version cif = .ok out) : ∀ l ∈ splitLines out, C02_charLength l ≤ LINE := by
  unfold writeCif at hw
  simp only at hw
  generalize hc0 : ({ version := if version = 1 then 1 else 0 } : Ctx) = c0 at hw
  have hcol : c0.lastColumn = 0 := by rw [← hc0]
  have hsep : c0.separateValues = true := by rw [← hc0]
  have L : LineOkS c0 (andThen (.ok ((if c0.isCif1 then MAGIC11 else MAGIC20), c0)) fun c1 =>
      andThen (writeContainers cif c1) fun c2 => .ok (writeNewline c2)) := by
    apply lineOkS_andThen_ok
    · apply lineOkS_ok' ?_ rfl
      apply lineOkC_of
      apply lineOk_of_track c0 _ _ (by rw [hcol]; exact Nat.zero_le _)
      intro _ k hk
      have hk0 : k = 0 := by omega
      subst hk0
      split
      · rw [hcol]; decide
      · rw [hcol]; decide
    · apply lineOkS_andThen (lineOkS_containers cif c0 h)
      intro c2; exact lineOkS_newline c2
  cases hr : (andThen (.ok ((if c0.isCif1 then MAGIC11 else MAGIC20), c0)) fun c1 =>
      andThen (writeContainers cif c1) fun c2 => (.ok (writeNewline c2) : W)) with
  | error e => simp [hr] at hw
  | ok p =>
    obtain ⟨o, c'⟩ := p
    simp only [hr, Except.ok.injEq] at hw
    subst hw
    obtain ⟨_, _, hfit⟩ := L hsep (by rw [hcol]; exact Nat.zero_le _) o c' hr
    exact all_lines_of_fitsC o (hfit 0 (Nat.zero_le _)).1

/-- the hypotheses of `C02_line_bound` imply those of `C02_line_bound_chars` -/
theorem C02_line_hypotheses_chars (cif : WCif) (h : containersL cif) : containersLC cif := containersLC_of_L cif h

namespace C02Lines
/-- `n` times U+1F600 -/
def faces : Nat → Str
  | 0 => []
  | n + 1 => 0xD83D :: 0xDE00 :: faces n
/-- block code of 1022 supplementary characters (2044 units; the API admits up to 2043 characters), one item -/
def wideCode : WCif := [WContainer.mk (faces 1022) [] [C02Doc.scalar1 (a!"_x") (a!"1")]]
end C02Lines

set_option maxRecDepth 1000000 in
/-- **C02_cex_line_units** — the unit-level hypotheses of `C02_line_bound` are necessary for ITS conclusion and not for the
    property: a block code of 1022 supplementary-plane characters (the API accepts it; replay corpus/write/boundary.req) satisfies
    `containersLC`, is written, and the line `data_<code>` has 2049 code units — but 1027 characters. -/
theorem C02_cex_line_units :
    containersLC C02Lines.wideCode ∧ ¬ containersL C02Lines.wideCode ∧
    ∃ out, writeCif 0 C02Lines.wideCode = .ok out ∧ (∃ l ∈ splitLines out, l.length = 2049 ∧ C02_charLength l = 1027) := by
  have hok : (match writeCif 0 C02Lines.wideCode with
      | .ok out => (splitLines out).any (fun l => l.length == 2049 && cpLen l == 1027)
      | .error _ => false) = true := by decide +kernel
  refine ⟨?_, ?_, ?_⟩
  · refine ⟨⟨⟨by decide +kernel, by decide +kernel⟩, trivial, ?_⟩, trivial⟩
    intro l hl
    simp only [List.mem_singleton] at hl; subst hl
    refine ⟨fun n hn => ?_, fun p hp nv hnv => ?_⟩
    · simp only [C02Doc.scalar1, List.mem_singleton] at hn; subst hn; exact ⟨by decide, by decide⟩
    · simp only [C02Doc.scalar1, List.mem_singleton] at hp; subst hp
      simp only [List.mem_singleton] at hnv; subst hnv
      exact ⟨⟨by decide, by decide⟩, by decide⟩
  · intro h
    have : (C02Lines.faces 1022).length + 5 ≤ LINE := h.1.1.2
    revert this
    decide +kernel
  · cases hw : writeCif 0 C02Lines.wideCode with
    | error e => rw [hw] at hok; cases hok
    | ok out =>
      rw [hw] at hok
      simp only [List.any_eq_true, Bool.and_eq_true, beq_iff_eq] at hok
      obtain ⟨l, hl, h1, h2⟩ := hok
      exact ⟨out, rfl, l, hl, h1, h2⟩

-- non-vacuity: the sample document of `C02_roundtrip_doc` satisfies the hypotheses
example : containersLC C02Doc.sample := C02_line_hypotheses_chars _ C02_roundtrip_doc_instance.1

end CifModel
