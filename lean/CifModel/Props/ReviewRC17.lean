import CifModel.Props.C17Tree
import CifModel.Props.C17Iter
import CifModel.Props.C17Header
/-
  Review rA, property C17 (group gN): instances that APPLY the eight theorems of Props/C17Tree, C17Iter, C17Header
  (the examples inside those files evaluate the model functions directly and never apply a theorem).

  (a) the hypotheses are satisfiable with concrete, non-trivial data (non-empty `rest`, non-empty start trace) and the
      conclusions obtained are non-trivial: failure for a fault inside the call, success for a fault position beyond the
      call (k = allocations + 1) and for a fault position in the past (k ≤ s.count);
  (b) general corollaries that need nothing but the statements: the retry clause of C17 ("the same call succeeds when
      repeated with memory available") follows by applying the from-any-state theorem a second time to the state the
      failed call left;
  (c) what does NOT follow from the statements: clone → free needs the bound `∀ i ∈ o.ids, i ≤ count`, which the lemma
      `cloneV_spec` has and `C17_clone_any_balanced` dropped (see notes/review/rA-parts/C17.md, M1).
-/
namespace CifModel.ReviewRC17
open CifModel Model.Ladder Spec.HeapTrace Lemmas.Ladder

/-- a start state in which two blocks of the caller (say: a source value) are live and a third one has come and gone -/
def s0 : St := { count := 3, evs := [.alloc 1, .alloc 2, .alloc 3, .free 2] }

theorem s0_bal : Balanced s0.evs [3, 1] := ⟨[3, 1], by decide, List.Perm.refl _⟩
theorem s0_le : ∀ i ∈ [3, 1], i ≤ s0.count := by decide

/-- the empty start state -/
theorem nil_bal : Balanced ({} : St).evs [] := ⟨[], rfl, List.Perm.refl _⟩
theorem nil_le : ∀ i ∈ ([] : List Nat), i ≤ ({} : St).count := by simp

/-- `Balanced evs []` pins the replay: nothing is live -/
theorem final_of_balanced_nil {evs : List Ev} (h : Balanced evs []) : final evs = some [] := by
  obtain ⟨L, h1, h2⟩ := h
  rw [h1, List.Perm.eq_nil h2]

-- ---------------------------------------------------------------------------------------------------------------
-- C17_clone_any_balanced

/-- { a : [ { b : 'x' } 1.5(2) ], c : { } } : table in list in table, and an empty table -/
def t1 : VShape := .tbl [([97], .lst [.tbl [([98], .chr)], .numb true]), ([99], .tbl [])]

theorem t1_allocs : cloneVAllocs t1 = 24 := by decide +kernel

-- the THEOREM (not an evaluation of the model) says: from s0 (3 requests made) request 3 + 14 fails the call …
example : (cloneV 17 t1 s0).1.isNone = true :=
  (C17_clone_any_balanced t1 17 s0 [3, 1] s0_bal s0_le).2.1.mpr (by rw [t1_allocs]; decide)

-- … leaves exactly the caller's two blocks live, and the failed request is the last and only one
example : Balanced (cloneV 17 t1 s0).2.evs [3, 1] ∧ failIds (cloneV 17 t1 s0).2.evs = [17] ∧ (cloneV 17 t1 s0).2.count = 17 := by
  have h := C17_clone_any_balanced t1 17 s0 [3, 1] s0_bal s0_le
  have hn : (cloneV 17 t1 s0).1.isNone = true := h.2.1.mpr (by rw [t1_allocs]; decide)
  have hn' : (cloneV 17 t1 s0).1 = none := Option.isNone_iff_eq_none.mp hn
  have h1 := h.1
  simp only [hn'] at h1
  exact ⟨by simpa using h1, by simpa [s0, failIds] using (h.2.2.2.1 hn).1, (h.2.2.2.1 hn).2⟩

-- "any k": the last request of the call (3 + 24) fails it, the first position beyond it (3 + 25) does not, nor does a
-- position in the past (k = 2 ≤ s.count), nor k = 0
example : (cloneV 27 t1 s0).1.isNone = true :=
  (C17_clone_any_balanced t1 27 s0 [3, 1] s0_bal s0_le).2.1.mpr (by rw [t1_allocs]; decide)

example : (cloneV 28 t1 s0).1.isNone = false := by
  have h := (C17_clone_any_balanced t1 28 s0 [3, 1] s0_bal s0_le).2.1
  rw [t1_allocs] at h
  cases hx : (cloneV 28 t1 s0).1.isNone with
  | false => rfl
  | true => exact absurd (h.mp hx) (by decide)

example : (cloneV 2 t1 s0).1.isNone = false := by
  have h := (C17_clone_any_balanced t1 2 s0 [3, 1] s0_bal s0_le).2.1
  cases hx : (cloneV 2 t1 s0).1.isNone with
  | false => rfl
  | true => exact absurd (h.mp hx).1 (by decide)

-- success: the clone is well-formed and the live blocks are its blocks and the caller's
example : ∀ o, (cloneV 0 t1 s0).1 = some o → o.WF ∧ Balanced (cloneV 0 t1 s0).2.evs (o.ids ++ [3, 1]) := by
  intro o ho
  have h := C17_clone_any_balanced t1 0 s0 [3, 1] s0_bal s0_le
  have h1 := h.1
  simp only [ho] at h1
  exact ⟨h.2.2.2.2.2 o ho, h1⟩

/-- (b) the retry clause of C17 for cif_value_clone, for EVERY value, fault position and start state, from the statement
    alone: after a failed clone the same call with memory available succeeds (and `rest` is still exactly what is live) -/
theorem clone_retry (sh : VShape) (k : Nat) (s : St) (rest : List Nat) (hb : Balanced s.evs rest)
    (hc : ∀ i ∈ rest, i ≤ s.count) (hf : (cloneV k sh s).1.isNone = true) :
    Balanced (cloneV k sh s).2.evs rest ∧ (cloneV 0 sh (cloneV k sh s).2).1.isSome = true := by
  have h := C17_clone_any_balanced sh k s rest hb hc
  have hn : (cloneV k sh s).1 = none := Option.isNone_iff_eq_none.mp hf
  have h1 := h.1
  simp only [hn, List.nil_append] at h1
  have hk := h.2.1.mp hf
  have hcnt := (h.2.2.2.1 hf).2
  have hc' : ∀ i ∈ rest, i ≤ (cloneV k sh s).2.count := fun i hi => by have := hc i hi; omega
  exact ⟨h1, (C17_clone_any_balanced sh 0 (cloneV k sh s).2 rest h1 hc').2.2.1.1⟩

-- ---------------------------------------------------------------------------------------------------------------
-- C17_free_any_balanced / the chain clone → free

/-- (c) clone then cif_value_free gives back exactly `rest` — provable, but only with the LEMMA `cloneV_spec` (its
    `Inv` carries `∀ i ∈ o.ids ++ rest, i ≤ count`); the conclusion of `C17_clone_any_balanced` does not contain that
    bound, so hypothesis `hc` of `C17_free_any_balanced` cannot be discharged from the property theorems alone. -/
theorem clone_then_free (sh : VShape) (s : St) (rest : List Nat) (hb : Balanced s.evs rest)
    (hc : ∀ i ∈ rest, i ≤ s.count) :
    ∀ o, (cloneV 0 sh s).1 = some o → Balanced (freeV o (cloneV 0 sh s).2).evs rest := by
  intro o ho
  rcases cloneV_spec 0 sh s rest ⟨hb, hc⟩ with ⟨o', h1, hw, _, h3⟩ | ⟨h1, _, _⟩
  · rw [h1] at ho
    have e : o' = o := Option.some.inj ho
    subst e
    exact (C17_free_any_balanced o' (cloneV 0 sh s).2 rest hw h3.1 h3.2).1
  · rw [h1] at ho; cases ho

-- a concrete application of C17_free_any_balanced: a table with one entry whose value is a list with a number
def o1 : VOwned :=
  .tbl 4 (some { tbl := 9, bkts := 10, log2 := 5 }) [({ key := 5, orig := 6, hashv := 77 }, .lst 13 7 [.numb 8 11 12 none])]

def s1 : St := { count := 13, evs := (List.range 13).map (fun i => Ev.alloc (i + 1)) }

example : Balanced (freeV o1 s1).evs [3, 2, 1] ∧ (freeV o1 s1).count = 13 :=
  have h := C17_free_any_balanced o1 s1 [3, 2, 1] (by simp [o1, VOwned.WF, VOwned.WFEntries, VOwned.WFList])
    ⟨[13, 12, 11, 10, 9, 8, 7, 6, 5, 4, 3, 2, 1], by decide +kernel, by decide +kernel⟩ (by decide +kernel)
  ⟨h.1, h.2.1⟩

-- C17_clone_any_extends on a concrete table-free shape
example : cloneVAllocs (Shape.lst [.chr, .lst [.numb true], .scalar]).toV = 1 + allocs (Shape.lst [.chr, .lst [.numb true], .scalar]) :=
  C17_clone_any_extends _

-- ---------------------------------------------------------------------------------------------------------------
-- C17_deser_any_balanced

def b1 : VBlob := .tbl [([97], .lst [.tbl [([98], .chr)], .numb true]), ([99], .lst [])]

theorem b1_allocs : deserVAllocs b1 = 20 := by decide +kernel

example : (deserV 15 b1 s0).1 = MEMORY_ERROR ∧ Balanced (deserV 15 b1 s0).2.2.evs [3, 1] := by
  have h := C17_deser_any_balanced b1 15 s0 [3, 1] s0_bal s0_le
  have hm : (deserV 15 b1 s0).1 = MEMORY_ERROR := h.2.2.2.1.mpr (by rw [b1_allocs]; decide)
  have hne : ¬ (deserV 15 b1 s0).1 = OK := by rw [hm]; decide
  have hnone : (deserV 15 b1 s0).2.1 = none := by
    cases hx : (deserV 15 b1 s0).2.1 with
    | none => rfl
    | some g => exact absurd (h.2.2.1.mpr (by rw [hx]; rfl)) hne
  have h1 := h.1
  simp only [hnone, List.nil_append] at h1
  exact ⟨hm, h1⟩

-- beyond the call: CIF_OK
example : (deserV 24 b1 s0).1 = OK := by
  have h := C17_deser_any_balanced b1 24 s0 [3, 1] s0_bal s0_le
  rcases h.2.1 with h1 | h1
  · exact h1
  · have := h.2.2.2.1.mp h1; rw [b1_allocs] at this; exact absurd this (by decide)

-- a blob that makes no request at all (empty list / empty table) can never fail: deserVAllocs = 0
example (k : Nat) : (deserV k (.lst []) s0).1 = OK := by
  have h := C17_deser_any_balanced (.lst []) k s0 [3, 1] s0_bal s0_le
  rcases h.2.1 with h1 | h1
  · exact h1
  · have := h.2.2.2.1.mp h1
    have e : deserVAllocs (.lst []) = 0 := by decide
    rw [e] at this; omega

-- ---------------------------------------------------------------------------------------------------------------
-- C17_get_packets_balanced / C17_next_packet_balanced

/-- ten hash values of one bucket (the 10th insertion expands the bucket array) and two others -/
def hs1 : List Nat := [3, 35, 67, 99, 131, 163, 195, 227, 259, 291, 4, 5]

theorem hs1_allocs : getPacketsAllocs hs1 = 77 := by decide +kernel

example : (getPackets 78 hs1 s0).1 = MEMORY_ERROR ∧ Balanced (getPackets 78 hs1 s0).2.2.evs [3, 1] := by
  have h := C17_get_packets_balanced hs1 (by decide) 78 s0 [3, 1] s0_bal s0_le
  have hm : (getPackets 78 hs1 s0).1 = MEMORY_ERROR := h.2.2.2.1.mpr (by rw [hs1_allocs]; decide)
  have hne : ¬ (getPackets 78 hs1 s0).1 = OK := by rw [hm]; decide
  have hnone : (getPackets 78 hs1 s0).2.1 = none := by
    cases hx : (getPackets 78 hs1 s0).2.1 with
    | none => rfl
    | some g => exact absurd (h.2.2.1.mpr (by rw [hx]; rfl)) hne
  have h1 := h.1
  simp only [hnone, List.nil_append] at h1
  exact ⟨hm, h1⟩

/-- (b) retry for cif_loop_get_packets, every name list / fault position / start state, from the statement alone -/
theorem get_packets_retry (hs : List Nat) (hne : hs ≠ []) (k : Nat) (s : St) (rest : List Nat)
    (hb : Balanced s.evs rest) (hc : ∀ i ∈ rest, i ≤ s.count) (hf : (getPackets k hs s).1 = MEMORY_ERROR) :
    (getPackets 0 hs (getPackets k hs s).2.2).1 = OK := by
  have h := C17_get_packets_balanced hs hne k s rest hb hc
  have hno : ¬ (getPackets k hs s).1 = OK := by rw [hf]; decide
  have hnone : (getPackets k hs s).2.1 = none := by
    cases hx : (getPackets k hs s).2.1 with
    | none => rfl
    | some g => exact absurd (h.2.2.1.mpr (by rw [hx]; rfl)) hno
  have h1 := h.1
  simp only [hnone, List.nil_append] at h1
  have hk := h.2.2.2.1.mp hf
  have hcnt := (h.2.2.2.2.1 hf).2
  have hc' : ∀ i ∈ rest, i ≤ (getPackets k hs s).2.2.count := fun i hi => by have := hc i hi; omega
  have h' := C17_get_packets_balanced hs hne 0 (getPackets k hs s).2.2 rest h1 hc'
  rcases h'.2.1 with g | g
  · exact g
  · have := (h'.2.2.2.1.mp g).1; omega

def items1 : List (Nat × ItemVal) := [(5, .chr), (6, .numb true), (7, .blob b1), (8, .unk)]

theorem items1_allocs : nextPacketAllocs items1 = 35 := by decide +kernel

-- a fault inside the blob of the third item (request 3 + 25), packet to be handed over: error, no packet, only `rest` live
example : (nextPacket 28 true items1 s0).1 = MEMORY_ERROR ∧ (nextPacket 28 true items1 s0).2.1 = none ∧
    Balanced (nextPacket 28 true items1 s0).2.2.evs [3, 1] := by
  have h := C17_next_packet_balanced true items1 28 s0 [3, 1] s0_bal s0_le
  have hm : (nextPacket 28 true items1 s0).1 = MEMORY_ERROR := h.2.2.2.2.1.mpr (by rw [items1_allocs]; decide)
  have hnone := h.2.2.2.1 hm
  have h1 := h.1
  simp only [hnone, List.nil_append] at h1
  exact ⟨hm, hnone, h1⟩

-- no fault, packet dropped (`packet == NULL`): CIF_OK and only `rest` is live
example : (nextPacket 0 false items1 s0).1 = OK ∧ Balanced (nextPacket 0 false items1 s0).2.2.evs [3, 1] := by
  have h := C17_next_packet_balanced false items1 0 s0 [3, 1] s0_bal s0_le
  have hok : (nextPacket 0 false items1 s0).1 = OK := by
    rcases h.2.1 with g | g
    · exact g
    · exact absurd (h.2.2.2.2.1.mp g).1 (by decide)
  have hnone : (nextPacket 0 false items1 s0).2.1 = none := by
    have := h.2.2.1 hok
    cases hx : (nextPacket 0 false items1 s0).2.1 with
    | none => rfl
    | some p => rw [hx] at this; cases this
  have h1 := h.1
  simp only [hnone, List.nil_append] at h1
  exact ⟨hok, h1⟩

-- ---------------------------------------------------------------------------------------------------------------
-- C17_loop_header_balanced / C17_get_all_loops_balanced

theorem hdr4 : loopHeaderAllocs 4 = 46 := by decide +kernel

-- a fault while the 4th name is compared with an earlier one: CIF_MEMORY_ERROR and exactly `rest` live
example : (loopHeaderAbort 40 4 s0).1 = MEMORY_ERROR ∧ Balanced (loopHeaderAbort 40 4 s0).2.evs [3, 1] := by
  have h := C17_loop_header_balanced 4 (by decide) 40 s0 [3, 1] s0_bal s0_le
  exact ⟨h.2.2.1.mpr (by rw [hdr4]; decide), h.1⟩

-- without a (reached) fault the refusal of the duplicate is what comes back, and all 46 requests are made
example : (loopHeaderAbort 50 4 s0).1 = DUP_ITEMNAME ∧ (loopHeaderAbort 50 4 s0).2.count = 49 := by
  have h := C17_loop_header_balanced 4 (by decide) 50 s0 [3, 1] s0_bal s0_le
  have hd : (loopHeaderAbort 50 4 s0).1 = DUP_ITEMNAME := by
    rcases h.2.1 with g | g
    · exact g
    · have := h.2.2.1.mp g; rw [hdr4] at this; exact absurd this (by decide)
  exact ⟨hd, by have := (h.2.2.2.2 hd).2; rw [hdr4] at this; exact this⟩

def cats1 : List Bool := [true, false, true, true]

theorem cats1_allocs : getAllLoopsAllocs cats1 = 8 := by decide +kernel

-- the array request (the last one, 3 + 8) fails: error, nothing of the call live
example : (getAllLoops 11 cats1 s0).1 = MEMORY_ERROR ∧ Balanced (getAllLoops 11 cats1 s0).2.2.evs [3, 1] := by
  have h := C17_get_all_loops_balanced cats1 11 s0 [3, 1] s0_bal s0_le
  have hm : (getAllLoops 11 cats1 s0).1 = MEMORY_ERROR := h.2.2.2.1.mpr (by rw [cats1_allocs]; decide)
  have hne : ¬ (getAllLoops 11 cats1 s0).1 = OK := by rw [hm]; decide
  have hnone : (getAllLoops 11 cats1 s0).2.1 = none := by
    cases hx : (getAllLoops 11 cats1 s0).2.1 with
    | none => rfl
    | some g => exact absurd (h.2.2.1.mpr (by rw [hx]; rfl)) hne
  have h1 := h.1
  simp only [hnone, List.nil_append] at h1
  exact ⟨hm, h1⟩

-- a block without loops: one request (the array of one NULL pointer); cats = [] is allowed by the statement
example : getAllLoopsAllocs [] = 1 ∧ (getAllLoops 4 [] s0).1 = MEMORY_ERROR := by
  have h := C17_get_all_loops_balanced [] 4 s0 [3, 1] s0_bal s0_le
  have e : getAllLoopsAllocs [] = 1 := by decide
  exact ⟨e, h.2.2.2.1.mpr (by rw [e]; decide)⟩

-- ---------------------------------------------------------------------------------------------------------------
-- what `Balanced` does and does not see (Spec/HeapTrace.lean)

-- it rejects a double free, a free of a block never obtained, and a leak …
example : final [.alloc 1, .free 1, .free 1] = none := by decide
example : final [.alloc 1, .free 2] = none := by decide
example : ¬ Balanced [.alloc 1, .alloc 2, .free 1] [] := by
  rintro ⟨L, h1, h2⟩
  have e : final [.alloc 1, .alloc 2, .free 1] = some [2] := by decide
  rw [e] at h1; cases h1
  exact absurd (List.Perm.eq_nil h2) (by decide)

-- … but the event language has no "use" event: a trace is judged only by its requests and releases, so a read of a
-- released block (the kind of defect 7285a53 repaired in cif_value_clone_table) cannot make a trace unbalanced.

end CifModel.ReviewRC17
