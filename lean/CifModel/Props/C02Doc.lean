import CifModel.Lemmas.WriterTotal
/-
  Property C02 — whole documents.  (Separate from Props/C02.lean only because these theorems are proved from lemmas that
  themselves use the value-level theorems of Props/C02.lean.)
-/
namespace CifModel
open Model.Writer Lemmas.WriterTotal

/-- **C02_total.**  `cif_write` in CIF 2.0 mode, for every walk order (`WCif`): on every writable CIF — every loop holds a
    packet; every scalar data name has at least two units and at most 2048 characters; every number has a non-empty text
    (`containersOk`: true of every CIF built through the API) — it succeeds, or it fails with CIF_DISALLOWED_VALUE, and then
    the CIF holds a table with at least one entry (the only refusal left in the CIF 2.0 writer is that of a table key:
    `writeChar_key_good`, and of a key that leaves no room for its colon).  No other result code is possible: not CIF_ERROR,
    not CIF_OVERLENGTH_LINE, not CIF_INTERNAL_ERROR, not CIF_EMPTY_LOOP. -/
theorem C02_total (cif : WCif) (hok : containersOk cif) :
    (∃ out, writeCif 0 cif = .ok out)
    ∨ (writeCif 0 cif = .error Gen.ErrCodes.CIF_DISALLOWED_VALUE ∧ containersHaveEntry cif) := by
  have h2 : ({ version := 0 } : Ctx).isCif1 = false := rfl
  have hg := containers_good cif { version := 0 } h2 hok
  unfold writeCif
  simp only [show ¬ ((0 : Nat) = 1) by decide, ↓reduceIte, h2, Bool.false_eq_true]
  rcases hg with ⟨o, c', he, _⟩ | ⟨he, hw⟩
  · left
    simp [andThen, he]
  · right
    simp [andThen, he, hw]

/-- values without any table entry are never refused: a CIF without tables is always written -/
theorem C02_total_no_tables (cif : WCif) (hok : containersOk cif) (hnt : ¬ containersHaveEntry cif) :
    ∃ out, writeCif 0 cif = .ok out := by
  rcases C02_total cif hok with h | ⟨_, hw⟩
  · exact h
  · exact absurd hw hnt

-- non-vacuity: a writable CIF with a scalar item, a loop, a list and a table
example : containersOk [WContainer.mk (a!"b") []
    [{ category := some [], header := [a!"_x"], packets := [[(a!"_x", V.lst [V.chr true (a!"a b"), V.tbl [(a!"k", a!"k", V.unk)]])]] },
     { category := none, header := [a!"_y"], packets := [[(a!"_y", V.numb false (a!"12") false [] none 0)]] }]] := by
  simp [containersOk, containerOk, loopOk, itemsOk, isScalars, valueOk, elemsOk, entriesOk, nameOk, countChar32, LINE]

end CifModel
