import CifModel.Lemmas.WriterTotal
import CifModel.Lemmas.WriterLines
import CifModel.Model.Parser
import CifModel.Props.C01parse
import CifModel.Lemmas.WriterRoundtrip
/-
  Property C02 — whole documents.  (Separate from Props/C02.lean only because these theorems are proved from lemmas that
  themselves use the value-level theorems of Props/C02.lean.)
-/
namespace CifModel
open Model.Writer Lemmas.WriterTotal Lemmas.WriterLines

/-- **C02_total.**  `cif_write` in CIF 2.0 mode, for every walk order (`WCif`): on every writable CIF — every loop holds a
    packet; every scalar data name has at least two units and at most 2048 characters; every number has a non-empty text
    (`containersOk`: true of every CIF built through the API) — and whose strings, number texts and table keys hold no CR and only
    characters CIF 2.0 allows (`containersClean false`: the property's "names and strings use only CIF 2.0 characters (no CR)";
    since the repairs of F-cr-altered / F-disallowed-char-written `write_char` refuses anything else: `C02_cr_refused`,
    `C02_disallowed_char_refused`, `C02_success_implies_clean`) — it succeeds, or it fails with CIF_DISALLOWED_VALUE, and then
    the CIF holds a table with at least one entry (the only refusal left in the CIF 2.0 writer is that of a table key:
    `writeChar_key_good`, and of a key that leaves no room for its colon).  No other result code is possible: not CIF_ERROR,
    not CIF_OVERLENGTH_LINE, not CIF_INTERNAL_ERROR, not CIF_EMPTY_LOOP. -/
theorem C02_total (cif : WCif) (hok : containersOk cif) (hcl : containersClean false cif) :
    (∃ out, writeCif 0 cif = .ok out)
    ∨ (writeCif 0 cif = .error Gen.ErrCodes.CIF_DISALLOWED_VALUE ∧ containersHaveEntry cif) := by
  have h2 : ({ version := 0 } : Ctx).isCif1 = false := rfl
  have hg := containers_good cif { version := 0 } h2 hok hcl
  unfold writeCif
  simp only [show ¬ ((0 : Nat) = 1) by decide, ↓reduceIte, h2, Bool.false_eq_true]
  rcases hg with ⟨o, c', he, _⟩ | ⟨he, hw⟩
  · left
    simp [andThen, he]
  · right
    simp [andThen, he, hw]

/-- values without any table entry are never refused: a CIF without tables is always written -/
theorem C02_total_no_tables (cif : WCif) (hok : containersOk cif) (hcl : containersClean false cif) (hnt : ¬ containersHaveEntry cif) :
    ∃ out, writeCif 0 cif = .ok out := by
  rcases C02_total cif hok hcl with h | ⟨_, hw⟩
  · exact h
  · exact absurd hw hnt

/-- **C02_line_bound** (whole documents, both output versions, every walk order).  Whenever `cif_write` succeeds on a CIF
    whose block / frame codes leave room for `data_` / `save_`, whose data names fit a line, whose strings hold neither NUL
    nor CR and whose number texts are one line of BMP units of ANY length (`containersL`; a number text longer than a line is
    written as a folded text field since da3325d), no line of the output is longer than 2048 code units — hence 2048 characters — and the output begins
    with the version comment.  Proved through the column-tracking invariant `LineOk`: `last_column` never underestimates the
    true column, every wrap decision is therefore safe, and every line break resets both. -/
theorem C02_line_bound (version : Nat) (cif : WCif) (out : Str) (h : containersL cif)
    (hw : writeCif version cif = .ok out) :
    (∀ l ∈ splitLines out, l.length ≤ LINE) ∧ (if version = 1 then MAGIC11 else MAGIC20) <+: out := by
  unfold writeCif at hw
  simp only at hw
  generalize hc0 : ({ version := if version = 1 then 1 else 0 } : Ctx) = c0 at hw
  have hcol : c0.lastColumn = 0 := by rw [← hc0]
  have hmagic : (if c0.isCif1 then MAGIC11 else MAGIC20) = (if version = 1 then MAGIC11 else MAGIC20) := by
    rw [← hc0]; by_cases hv : version = 1 <;> simp [hv, Ctx.isCif1]
  rw [hmagic] at hw
  -- the invariant for the whole run
  have L : LineOk c0 (andThen (.ok ((if version = 1 then MAGIC11 else MAGIC20), c0)) fun c1 =>
      andThen (writeContainers cif c1) fun c2 => .ok (writeNewline c2)) := by
    apply lineOk_andThen_ok
    · apply lineOk_of_track c0 _ _ (by rw [hcol]; exact Nat.zero_le _)
      intro _ k hk
      have hk0 : k = 0 := by omega
      subst hk0
      by_cases hv : version = 1
      · simp only [hv, ↓reduceIte]; rw [hcol]; decide
      · simp only [hv, ↓reduceIte]; rw [hcol]; decide
    · apply lineOk_andThen (lineOk_containers cif c0 h)
      intro c2; exact lineOk_newline c2
  cases hr : (andThen (.ok ((if version = 1 then MAGIC11 else MAGIC20), c0)) fun c1 =>
      andThen (writeContainers cif c1) fun c2 => (.ok (writeNewline c2) : W)) with
  | error e => simp [hr] at hw
  | ok p =>
    obtain ⟨o, c'⟩ := p
    simp only [hr, Except.ok.injEq] at hw
    subst hw
    obtain ⟨_, hfit⟩ := L (by rw [hcol]; exact Nat.zero_le _) o c' hr
    refine ⟨all_lines_of_fitsU o (hfit 0 (Nat.zero_le _)).1, ?_⟩
    -- the output starts with the version comment
    unfold andThen at hr
    simp only at hr
    split at hr
    · cases hr
    · rename_i o2 c2 _
      simp only [Except.ok.injEq, Prod.mk.injEq] at hr
      rw [← hr.1]
      exact List.prefix_append _ _

/-! ### through the parser's value production (model of group gJ) -/

/-- a string the analysis recommends whitespace-delimited is turned back into an UNQUOTED string by the parser's
    coercion of whitespace-delimited tokens (`cif_value_set_quoted` / `try_quoted`) -/
theorem C02_bare_value (dia : Dialect) (s : Str) (unq tri : Bool) (h0 : (0 : CU) ∉ s)
    (hrec : Model.recommend s unq tri LINE = .none) : Model.Parser.bareValue dia s = some (.chr false s) := by
  obtain ⟨hnd, hnr, hne, _, h63, h46, hn, _⟩ := (C18_delim_admissible s unq tri LINE h0).1 hrec
  obtain ⟨hno, _, _⟩ := Lemmas.WriterLex.one_line s unq tri LINE hn
  have hc : Model.Parser.cstr s = s := C01_cstr_id s (fun c hc e => h0 (e ▸ hc))
  have hres : Model.isReserved s = false := by
    cases hh : Model.isReserved s
    · rfl
    · exact absurd ((C18_reserved_iff s h0).mp hh) hnr
  have hnd' : Model.noDisallowed s = true := by
    unfold Model.noDisallowed
    rw [List.all_eq_true]
    intro x hx
    have a := hnd x hx
    have b := hno x hx
    simp [a.1, a.2.1, a.2.2.1, a.2.2.2.1, a.2.2.2.2.1, a.2.2.2.2.2, b.1, b.2]
  unfold Model.Parser.bareValue
  simp only [h63, h46, ↓reduceIte, hc, Model.setQuoted, Bool.false_eq_true, Bool.true_eq_false, or_self, hne, hres, hnd']

open Spec.Lexical Model.Lexer Model.Parser in
/-- **C02_parse_value_roundtrip** — the value level of C02_roundtrip, through the parser's own value production
    (`parse_value` of parser.c, model of group gJ, on top of the lexer of group gD): what `write_char` writes for the string
    `s` with quoted flag `q` is parsed back — behind any admissible whitespace, followed by whitespace / end / closing bracket,
    whatever the callback policy, with NO report — into a character value with exactly the text `s`, quoted unless it was
    written whitespace-delimited, which happens only for unquoted values; exactly the value is consumed.
    Both dialects (CIF 1.1: line unfolding and prefix removal enabled, as C13 prescribes). -/
theorem C02_parse_value_roundtrip (c : Ctx) (s : Str) (q : Bool) (out : Str) (c' : Ctx)
    (hok : okUnits (Lemmas.WriterLex.diaOf c) none s = true) (hcol : c.lastColumn ≤ LINE)
    (h : writeChar c s q true = .ok (out, c'))
    (o : Opts) (hdia : o.dia = Lemmas.WriterLex.diaOf c) (hunf : o.unfold = true) (hprem : o.prem = true)
    (w0 : List WsAtom) (ctx : Str) (line col : Nat) (lt : TokType) (pol : Policy) (w : Model.Parser.W) (fuel : Nat)
    (hw0 : ∀ a ∈ w0, a.ok (Lemmas.WriterLex.diaOf c) = true)
    (hfirst : afterWsOf lt = true ∨ ∀ b rest, w0 ≠ WsAtom.comment b :: rest)
    (hws : (afterWsOf lt || !w0.isEmpty) = true)
    (hfitw : linesFit col (renderWs w0) = true)
    (hcolw : (posAfter line col (renderWs w0)).2 ≤ c.lastColumn)
    (hctx : followOk (Lemmas.WriterLex.diaOf c) ctx = true) :
    ∃ (q' : Bool) (ps' : PS),
      parseValue o (fuel + 1) ⟨⟨renderWs w0 ++ (out ++ ctx), line, col, lt⟩, none⟩ pol w = .ok (.chr q' s, ps') w
      ∧ ps'.tok = none ∧ ps'.scan.rest = ctx
      ∧ (q' = true ∨ (q' = false ∧ q = false)) := by
  have h0 := Lemmas.WriterLex.okUnits_noNUL _ s hok
  have hcs : cstr s = s := C01_cstr_id s (fun x hx e => h0 (e ▸ hx))
  obtain ⟨p, s', L, C, hn, hs1, hs2, hb⟩ := C02_value_roundtrip c s q out c' hok hcol h w0 ctx line col lt pol w.log
    hw0 hfirst hws hfitw hcolw hctx
  have hnt : nextTok o ⟨⟨renderWs w0 ++ (out ++ ctx), line, col, lt⟩, none⟩ pol w
      = .ok (⟨p.tokType, s', L, C⟩, ⟨⟨ctx, L, C, p.tokType⟩, some ⟨p.tokType, s', L, C⟩⟩) w := by
    simp only [nextTok, bind, P.bind, liftL, hdia, hn, pure, P.pure]
  cases p with
  | text =>
    refine ⟨true, ⟨⟨ctx, L, C, .tvalue⟩, none⟩, ?_, rfl, rfl, Or.inl rfl⟩
    simp only [parseValue, bind, P.bind, hnt, Presentation.tokType, hunf, hprem, hs2 rfl, hcs, pure, P.pure, consume]
  | bare =>
    have e := hs1 (by intro e; cases e)
    subst e
    obtain ⟨hq, _, hrec⟩ := hb rfl
    refine ⟨false, ⟨⟨ctx, L, C, .value⟩, none⟩, ?_, rfl, rfl, Or.inr ⟨rfl, hq⟩⟩
    have hbv := C02_bare_value o.dia s' _ _ h0 hrec
    simp only [parseValue, bind, P.bind, hnt, Presentation.tokType, hbv, pure, P.pure, consume]
  | squote =>
    have e := hs1 (by intro e; cases e); subst e
    refine ⟨true, ⟨⟨ctx, L, C, .qvalue⟩, none⟩, ?_, rfl, rfl, Or.inl rfl⟩
    simp only [parseValue, bind, P.bind, hnt, Presentation.tokType, hcs, pure, P.pure, consume]
  | dquote =>
    have e := hs1 (by intro e; cases e); subst e
    refine ⟨true, ⟨⟨ctx, L, C, .qvalue⟩, none⟩, ?_, rfl, rfl, Or.inl rfl⟩
    simp only [parseValue, bind, P.bind, hnt, Presentation.tokType, hcs, pure, P.pure, consume]
  | tsquote =>
    have e := hs1 (by intro e; cases e); subst e
    refine ⟨true, ⟨⟨ctx, L, C, .qvalue⟩, none⟩, ?_, rfl, rfl, Or.inl rfl⟩
    simp only [parseValue, bind, P.bind, hnt, Presentation.tokType, hcs, pure, P.pure, consume]
  | tdquote =>
    have e := hs1 (by intro e; cases e); subst e
    refine ⟨true, ⟨⟨ctx, L, C, .qvalue⟩, none⟩, ?_, rfl, rfl, Or.inl rfl⟩
    simp only [parseValue, bind, P.bind, hnt, Presentation.tokType, hcs, pure, P.pure, consume]

open Spec.Lexical Model.Lexer Model.Parser in
/-- **C02_parse_item_roundtrip** — one level up: the parser's item production (`parse_item`, called behind a data name) on
    what `write_char` wrote stores — without any report, under every policy — exactly the value `.chr q' s` under that name
    (`cif_container_set_value`), `q'` as in `C02_parse_value_roundtrip`, and leaves the scanner behind the value. -/
theorem C02_parse_item_roundtrip (c : Ctx) (s : Str) (q : Bool) (out : Str) (c' : Ctx)
    (hok : okUnits (Lemmas.WriterLex.diaOf c) none s = true) (hcol : c.lastColumn ≤ LINE)
    (h : writeChar c s q true = .ok (out, c'))
    (o : Opts) (hdia : o.dia = Lemmas.WriterLex.diaOf c) (hunf : o.unfold = true) (hprem : o.prem = true)
    (w0 : List WsAtom) (ctx : Str) (line col : Nat) (lt : TokType) (pol : Policy) (w : Model.Parser.W) (fuel : Nat)
    (path : Path) (name : Str)
    (hw0 : ∀ a ∈ w0, a.ok (Lemmas.WriterLex.diaOf c) = true)
    (hfirst : afterWsOf lt = true ∨ ∀ b rest, w0 ≠ WsAtom.comment b :: rest)
    (hws : (afterWsOf lt || !w0.isEmpty) = true)
    (hfitw : linesFit col (renderWs w0) = true)
    (hcolw : (posAfter line col (renderWs w0)).2 ≤ c.lastColumn)
    (hctx : followOk (Lemmas.WriterLex.diaOf c) ctx = true) :
    ∃ (q' : Bool) (ps' : PS),
      parseItem o (fuel + 1) ⟨⟨renderWs w0 ++ (out ++ ctx), line, col, lt⟩, none⟩ (some path) (some name) pol w
        = P.bind (setValue o path name (.chr q' s)) (fun _ => P.pure ps') pol w
      ∧ ps'.tok = none ∧ ps'.scan.rest = ctx ∧ (q' = true ∨ (q' = false ∧ q = false)) := by
  have h0 := Lemmas.WriterLex.okUnits_noNUL _ s hok
  have hcs : cstr s = s := C01_cstr_id s (fun x hx e => h0 (e ▸ hx))
  obtain ⟨p, s', L, C, hn, hs1, hs2, hb⟩ := C02_value_roundtrip c s q out c' hok hcol h w0 ctx line col lt pol w.log
    hw0 hfirst hws hfitw hcolw hctx
  have hnt : nextTok o ⟨⟨renderWs w0 ++ (out ++ ctx), line, col, lt⟩, none⟩ pol w
      = .ok (⟨p.tokType, s', L, C⟩, ⟨⟨ctx, L, C, p.tokType⟩, some ⟨p.tokType, s', L, C⟩⟩) w := by
    simp only [nextTok, bind, P.bind, liftL, hdia, hn, pure, P.pure]
  -- the pending token is handed out again by parse_value
  have hnt2 : nextTok o ⟨⟨ctx, L, C, p.tokType⟩, some ⟨p.tokType, s', L, C⟩⟩ pol w
      = .ok (⟨p.tokType, s', L, C⟩, ⟨⟨ctx, L, C, p.tokType⟩, some ⟨p.tokType, s', L, C⟩⟩) w := rfl
  cases p with
  | text =>
    refine ⟨true, ⟨⟨ctx, L, C, .tvalue⟩, none⟩, ?_, rfl, rfl, Or.inl rfl⟩
    simp only [parseItem, parseValue, bind, P.bind, nextTok, liftL, hdia, hn, Presentation.tokType, isKeyTok, isValueStart, hunf, hprem,
      hs2 rfl, hcs, pure, P.pure, consume, Bool.false_eq_true, ↓reduceIte]
  | bare =>
    have e := hs1 (by intro e; cases e)
    subst e
    obtain ⟨hq, _, hrec⟩ := hb rfl
    refine ⟨false, ⟨⟨ctx, L, C, .value⟩, none⟩, ?_, rfl, rfl, Or.inr ⟨rfl, hq⟩⟩
    have hbv := C02_bare_value (Lemmas.WriterLex.diaOf c) s' _ _ h0 hrec
    simp only [parseItem, parseValue, bind, P.bind, nextTok, liftL, hdia, hn, Presentation.tokType, isKeyTok, isValueStart, hbv, pure, P.pure,
      consume, Bool.false_eq_true, ↓reduceIte]
  | squote =>
    have e := hs1 (by intro e; cases e); subst e
    refine ⟨true, ⟨⟨ctx, L, C, .qvalue⟩, none⟩, ?_, rfl, rfl, Or.inl rfl⟩
    simp only [parseItem, parseValue, bind, P.bind, nextTok, liftL, hdia, hn, Presentation.tokType, isKeyTok, isValueStart, hcs, pure, P.pure,
      consume, Bool.false_eq_true, ↓reduceIte]
  | dquote =>
    have e := hs1 (by intro e; cases e); subst e
    refine ⟨true, ⟨⟨ctx, L, C, .qvalue⟩, none⟩, ?_, rfl, rfl, Or.inl rfl⟩
    simp only [parseItem, parseValue, bind, P.bind, nextTok, liftL, hdia, hn, Presentation.tokType, isKeyTok, isValueStart, hcs, pure, P.pure,
      consume, Bool.false_eq_true, ↓reduceIte]
  | tsquote =>
    have e := hs1 (by intro e; cases e); subst e
    refine ⟨true, ⟨⟨ctx, L, C, .qvalue⟩, none⟩, ?_, rfl, rfl, Or.inl rfl⟩
    simp only [parseItem, parseValue, bind, P.bind, nextTok, liftL, hdia, hn, Presentation.tokType, isKeyTok, isValueStart, hcs, pure, P.pure,
      consume, Bool.false_eq_true, ↓reduceIte]
  | tdquote =>
    have e := hs1 (by intro e; cases e); subst e
    refine ⟨true, ⟨⟨ctx, L, C, .qvalue⟩, none⟩, ?_, rfl, rfl, Or.inl rfl⟩
    simp only [parseItem, parseValue, bind, P.bind, nextTok, liftL, hdia, hn, Presentation.tokType, isKeyTok, isValueStart, hcs, pure, P.pure,
      consume, Bool.false_eq_true, ↓reduceIte]

/-- FULL (whole documents, against the integrated parser model of group gJ): whatever `cif_write` emits in CIF 2.0 mode
    for the walk `wc` of a CIF is parsed — nested frames allowed, accept-all policy — with return code 0, without a single
    report, into a CIF `equiv`alent to the original.  (Kept visible as the unrestricted statement.)
    PROVED: `C02_roundtrip_doc` below — the same conclusion for EVERY callback policy, with `equiv` made concrete (`backBlock`),
    for every CIF whose characters, names and codes are valid (hypotheses `cifR`, `blocksN`, `containersL`; save frames nested to
    any depth, `frameN`: a frame that holds frames asks for a parser whose max_frame_depth is not 1). -/
def C02_roundtrip_doc_full (equiv : WCif → Cif → Prop) : Prop :=
  ∀ (wc : WCif) (out : Str) (o : Model.Parser.Opts), o.dia = .cif2 → o.maxFrameDepth < 0 → o.unfold = true → o.prem = true →
    o.notUtf8 = false → o.store = true →
    writeCif 0 wc = .ok out →
    (Model.Parser.parse o Model.Lexer.acceptAll [] out).rc = 0 ∧ (Model.Parser.parse o Model.Lexer.acceptAll [] out).log = [] ∧
    equiv wc (Model.Parser.parse o Model.Lexer.acceptAll [] out).cif

open Lemmas.WriterChunks in
/-- **C02_roundtrip_doc** — the whole-document round trip, CIF 2.0.  For every walk order `cif` (`WCif`: data blocks, save frames
    nested to any depth, the scalar loop, loops, values of every kind nested to any depth) that `cif_write` accepts in CIF 2.0 mode
    (`writeCif 0 cif = .ok out`), provided
      * `cifR`: the strings consist of characters CIF 2.0 allows (well-formed UTF-16), block / frame codes and data names are
        non-empty words of such characters, table entries are stored under the normalised form of their valid, pairwise
        different keys, an unquoted number that fits a line is a whitespace-delimited value; the scalar loop has one packet,
      * `blocksN`: codes and data names are valid and pairwise different per container (`cif_is_valid_name`, normalisation
        `o.norm`), loops have a header, at least one packet, packets as long as the header; at most one scalar loop,
      * `containersL`: names, codes and number texts fit a line (the hypotheses of `C02_line_bound`),
    the integrated parser model (CIF 2.0, line unfolding and prefix removal on, target CIF present, frames allowed), under
    EVERY callback policy, returns CIF_OK, reports nothing, and leaves a CIF `back` whose blocks, frames, loops, packets and
    values are those written (`backBlock`: same codes, names, texts, keys, element order; a number comes back as the string
    of its digits; QUOTED STATUS: a value that was quoted comes back quoted, an unquoted string comes back unquoted whenever the
    writer's own test `bareWritable` admits the whitespace-delimited form, an unquoted number whenever its text fits a line — the
    only unquoted API strings that come back quoted (`bareWritable_iff`, `C02_quoted_status`) are (a) those beginning with `;`,
    property C02's own exception, and (b) those longer than a line, the known finding F-unquoted-overlong; loop categories are
    not part of the syntax).
    Composition of: the writer as chunks of an abstract document (Lemmas/WriterChunks*.lean), the scanner glue over chunks
    (Lemmas/LexGlue.lean, from gD's C01_lex_* theorems), gJ's `C01_parse_render_partial` / `C01_structure`, and
    `C02_line_bound`'s invariant.  No lexical hypothesis is left. -/
theorem C02_roundtrip_doc (o : Model.Parser.Opts) (pol : Model.Lexer.Policy) (cif : WCif) (out : Str)
    (hdia : o.dia = .cif2) (hun : o.unfold = true) (hpr : o.prem = true)
    (hstore : o.store = true) (hmfd : o.maxFrameDepth ≠ 0) (hutf : o.notUtf8 = false)
    (hL : containersL cif) (hR : cifR o.dia o.normKey cif) (hN : blocksN o cif [])
    (hw : writeCif 0 cif = .ok out) :
    ∃ back, Model.Parser.parse o pol [] out = { rc := 0, log := [], cif := back } ∧ All2 backBlock cif back :=
  roundtrip_doc 0 o pol cif out (by rw [hdia]; rfl) hun hpr hstore hmfd hutf hL hR hN hw

open Lemmas.WriterChunks in
/-- **C02_output_units** — what `cif_write` hands to the output stream in CIF 2.0 mode is well-formed UTF-16 — no unpaired
    surrogate — all of whose characters are CIF 2.0 characters (`okUnits .cif2`), for every CIF of such characters (`cifR`; `nk`: the
    key normalisation, immaterial here).  The bytes are ICU's conversion of these units (`u_fprintf` on a UTF-8 `UFILE`): that
    conversion maps well-formed UTF-16 to valid UTF-8 — an assumption about ICU (ASSUMPTIONS), observed per case by family `write`
    (the bytes are decoded strictly as UTF-8 before the re-parse). -/
theorem C02_output_units (nk : Str → Str) (cif : WCif) (out : Str) (hR : cifR .cif2 nk cif) (hw : writeCif 0 cif = .ok out) :
    Spec.Lexical.okUnits .cif2 none out = true :=
  output_units 0 nk cif out hR hw

open Lemmas.WriterChunks in
/-- **C02_quoted_status** — the quoted status in the equivalence of `C02_roundtrip_doc` / `C13_roundtrip` (`backV`) is property
    C02's relation: for a string the API can hold unquoted (`apiUnquoted`: what `cif_value_set_quoted(v, 0)` accepts) that is not
    longer than a line — and for every quoted string — the value read back has the same text and, up to `C02_quotedRel`, the
    same quoted status: only an unquoted string beginning with `;` comes back quoted.  The one further exception is the known
    finding F-unquoted-overlong (an unquoted string longer than 2048 has no whitespace-delimited presentation). -/
theorem C02_quoted_status (q : Bool) (t : Str) (r : V) (hq : q = true ∨ (apiUnquoted t ∧ t.length ≤ LINE))
    (h : backV (.chr q t) r) : ∃ q', r = .chr q' t ∧ C02_quotedRel q t q' := by
  obtain ⟨q', hr, h1, h2⟩ := h
  refine ⟨q', hr, ?_⟩
  cases q with
  | true => exact Or.inl (h1 rfl)
  | false =>
    rcases hq with hq | ⟨ha, hl⟩
    · cases hq
    · by_cases h59 : t.head? = some 59
      · cases q' with
        | false => exact Or.inl rfl
        | true => exact Or.inr ⟨rfl, h59, rfl⟩
      · exact Or.inl (h2 rfl ((bareWritable_iff t ha).mpr ⟨h59, hl⟩))

namespace C02Doc
/-- what was written, or nothing -/
def written (r : Except Code Str) : Str := match r with | .ok o => o | .error _ => []
/-- one block `b` with the one scalar item `_x` -/
def oneItem (v : V) : WCif := [WContainer.mk (a!"b") [] [{ category := some [], header := [a!"_x"], packets := [[(a!"_x", v)]] }]]
end C02Doc

set_option maxRecDepth 1000000 in
/-- kernel-evaluated instance: a list holding a quoted string, a table whose value needs the text-prefix protocol
    (`x<LF>;y`), an unquoted string, a number-like unquoted string, `?` and `.` — written, then parsed back by gJ's parser -/
example :
    (Model.Parser.parse C01parse.opts2 Model.Lexer.acceptAll []
      (C02Doc.written (writeCif 0 (C02Doc.oneItem (.lst [.chr true (a!"a b"), .tbl [(a!"k", a!"k", .chr true (a!"x\n;y"))],
        .chr false (a!"xyz"), .unk, .na]))))).log = [] ∧
    (C01parse.theValue (Model.Parser.parse C01parse.opts2 Model.Lexer.acceptAll []
      (C02Doc.written (writeCif 0 (C02Doc.oneItem (.lst [.chr true (a!"a b"), .tbl [(a!"k", a!"k", .chr true (a!"x\n;y"))],
        .chr false (a!"xyz"), .unk, .na]))))).cif)
      == some (.lst [.chr true (a!"a b"), .tbl [(a!"k", a!"k", .chr true (a!"x\n;y"))], .chr false (a!"xyz"), .unk, .na]) := by
  decide +kernel

-- non-vacuity: a writable CIF with a scalar item, a loop, a list and a table
example : containersOk [WContainer.mk (a!"b") []
    [{ category := some [], header := [a!"_x"], packets := [[(a!"_x", V.lst [V.chr true (a!"a b"), V.tbl [(a!"k", a!"k", V.unk)]])]] },
     { category := none, header := [a!"_y"], packets := [[(a!"_y", V.numb false (a!"12") false [] none 0)]] }]] := by
  simp [containersOk, containerOk, loopOk, itemsOk, isScalars, valueOk, elemsOk, entriesOk, nameOk, countChar32, LINE]

example : containersL [WContainer.mk (a!"b") []
    [{ category := some [], header := [a!"_x"], packets := [[(a!"_x", V.lst [V.chr true (a!"a b"), V.tbl [(a!"k", a!"k", V.unk)]])]] },
     { category := none, header := [a!"_y"], packets := [[(a!"_y", V.numb false (a!"12") false [] none 0)]] }]] := by
  simp [containersL, containerL, codeL, loopL, headerL, itemsL, valueL, elemsL, entriesL, nameL, strOk, numbOk, countChar32, LINE]

namespace C02Doc
/-- a block with a save frame, the scalar loop (a list holding a string that needs quotes, a table, a multi-line string that
    becomes a text field) and a loop with an unquoted number -/
def sample : WCif := [WContainer.mk (a!"b")
    [WContainer.mk (a!"f") [] [{ category := some [], header := [a!"_z"], packets := [[(a!"_z", V.chr false (a!"v"))]] }]]
    [{ category := some [], header := [a!"_x"],
       packets := [[(a!"_x", V.lst [V.chr true (a!"a b"), V.tbl [(a!"k", a!"k", V.chr true (a!"p\nq"))], V.unk])]] },
     { category := none, header := [a!"_y"], packets := [[(a!"_y", V.numb false (a!"12") false [] none 0)]] }]]
end C02Doc

open Lemmas.WriterChunks Lemmas.LexGlue in
/-- non-vacuity of `C02_roundtrip_doc`: all its hypotheses hold of `C02Doc.sample` under gJ's option record `opts2`, and the
    writer accepts it -/
theorem C02_roundtrip_doc_instance :
    containersL C02Doc.sample ∧ cifR .cif2 id C02Doc.sample ∧ blocksN C01parse.opts2 C02Doc.sample []
      ∧ ∃ out, writeCif 0 C02Doc.sample = .ok out := by
  refine ⟨?_, ?_, ?_, ?_⟩
  · simp [C02Doc.sample, containersL, containerL, codeL, loopL, headerL, itemsL, valueL, elemsL, entriesL, nameL, strOk, numbOk,
      countChar32, LINE]
  · intro k hk
    simp only [C02Doc.sample, List.mem_singleton] at hk
    subst hk
    have hcode : ∀ c : Str, (Tk.data c).ok .cif2 = true → codeR .cif2 c := fun _ h => h
    have hname : ∀ n : Str, (Tk.name n).ok .cif2 = true → n.length ≤ LINE → nameR .cif2 n := fun _ h h' => ⟨h, h'⟩
    refine ⟨_, _, _, rfl, hcode _ (by decide), ?_, ?_⟩
    · intro f hf
      simp only [List.mem_singleton] at hf
      subst hf
      simp only [frameR, framesR, true_and]
      refine ⟨hcode _ (by decide), ?_⟩
      intro l hl
      simp only [List.mem_singleton] at hl
      subst hl
      unfold loopR
      refine ⟨fun _ => ⟨_, rfl⟩, fun h => absurd h (by decide), ?_⟩
      intro p hp nv hnv
      simp only [List.mem_singleton] at hp
      subst hp
      simp only [List.mem_singleton] at hnv
      subst hnv
      exact ⟨by simp only [valueR]; decide, fun _ => hname _ (by decide) (by decide)⟩
    · intro l hl
      simp only [List.mem_cons, List.mem_singleton, List.not_mem_nil, or_false] at hl
      rcases hl with rfl | rfl
      · unfold loopR
        refine ⟨fun _ => ⟨_, rfl⟩, fun h => absurd h (by decide), ?_⟩
        intro p hp nv hnv
        simp only [List.mem_singleton] at hp
        subst hp
        simp only [List.mem_singleton] at hnv
        subst hnv
        refine ⟨?_, fun _ => hname _ (by decide) (by decide)⟩
        simp only [valueR, elemsR, entriesR, and_true, List.not_mem_nil, false_imp_iff, implies_true, id]
        decide
      · unfold loopR
        refine ⟨fun h => absurd h (by decide), fun _ n hn => ?_, ?_⟩
        · simp only [List.mem_singleton] at hn
          subst hn
          exact hname _ (by decide) (by decide)
        · intro p hp nv hnv
          simp only [List.mem_singleton] at hp
          subst hp
          simp only [List.mem_singleton] at hnv
          subst hnv
          refine ⟨?_, fun h => absurd h (by decide)⟩
          simp only [valueR, numR, numbOk, strOk]
          decide
  · simp [C02Doc.sample, blocksN, framesN, frameN, wcode, loopsN, scalarOnce, scalarsN, seenScalars, isScalars]
    decide
  · have hok : (match writeCif 0 C02Doc.sample with | .ok _ => true | .error _ => false) = true := by decide +kernel
    cases h : writeCif 0 C02Doc.sample with
    | ok o => exact ⟨o, rfl⟩
    | error e => rw [h] at hok; cases hok

open Lemmas.WriterChunks in
/-- … hence `C02_roundtrip_doc` applies: under every callback policy the sample, written and parsed, comes back -/
theorem C02_roundtrip_doc_sample (pol : Model.Lexer.Policy) :
    ∃ out back, writeCif 0 C02Doc.sample = .ok out
      ∧ Model.Parser.parse C01parse.opts2 pol [] out = { rc := 0, log := [], cif := back } ∧ All2 backBlock C02Doc.sample back := by
  obtain ⟨hL, hR, hN, out, hw⟩ := C02_roundtrip_doc_instance
  obtain ⟨back, hp, hb⟩ := C02_roundtrip_doc C01parse.opts2 pol C02Doc.sample out rfl rfl rfl rfl (by decide) rfl hL hR hN hw
  exact ⟨out, back, hw, hp, hb⟩

/-! ### nested save frames -/

namespace C02Doc
/-- a scalar loop with the one item `n` = the unquoted string `v` -/
def scalar1 (n v : Str) : WLoop := { category := some [], header := [n], packets := [[(n, V.chr false v)]] }
/-- a block whose save frame `f` holds the save frame `g`, which holds the save frame `h`; every container has an item -/
def nested : WCif := [WContainer.mk (a!"b")
    [WContainer.mk (a!"f") [WContainer.mk (a!"g") [WContainer.mk (a!"h") [] [scalar1 (a!"_x") (a!"3")]] [scalar1 (a!"_x") (a!"2")]]
      [scalar1 (a!"_x") (a!"1")]]
    [scalar1 (a!"_x") (a!"0")]]
/-- gJ's option record with save frames nested to any depth -/
def optsDeep : Model.Parser.Opts := { C01parse.opts2 with maxFrameDepth := -1 }
end C02Doc

open Lemmas.WriterChunks Lemmas.LexGlue in
/-- `C02_roundtrip_doc` applies to a CIF with three levels of save frames (parser: `max_frame_depth` negative): under every
    callback policy it is written, parsed without a report, and comes back frame in frame in frame -/
theorem C02_roundtrip_doc_nested (pol : Model.Lexer.Policy) :
    ∃ out back, writeCif 0 C02Doc.nested = .ok out
      ∧ Model.Parser.parse C02Doc.optsDeep pol [] out = { rc := 0, log := [], cif := back } ∧ All2 backBlock C02Doc.nested back := by
  have hcode : ∀ c : Str, (Tk.data c).ok .cif2 = true → codeR .cif2 c := fun _ h => h
  have hname : ∀ n : Str, (Tk.name n).ok .cif2 = true → n.length ≤ LINE → nameR .cif2 n := fun _ h h' => ⟨h, h'⟩
  have hsc : ∀ v : Str, valueR .cif2 id (V.chr false v) → ∀ l ∈ [C02Doc.scalar1 (a!"_x") v], loopR .cif2 id l := by
    intro v hv l hl
    simp only [List.mem_singleton] at hl
    subst hl
    unfold loopR
    refine ⟨fun _ => ⟨_, rfl⟩, fun h => absurd h (by simp [C02Doc.scalar1, isScalars]), ?_⟩
    intro p hp nv hnv
    simp only [C02Doc.scalar1, List.mem_singleton] at hp
    subst hp
    simp only [List.mem_singleton] at hnv
    subst hnv
    exact ⟨hv, fun _ => hname (a!"_x") (by decide) (by decide)⟩
  have hL : containersL C02Doc.nested := by
    simp [C02Doc.nested, C02Doc.scalar1, containersL, containerL, codeL, loopL, headerL, itemsL, valueL, nameL, strOk, countChar32, LINE]
  have hR : cifR .cif2 id C02Doc.nested := by
    intro k hk
    simp only [C02Doc.nested, List.mem_singleton] at hk
    subst hk
    refine ⟨_, _, _, rfl, hcode _ (by decide), ?_, hsc _ (by simp only [valueR]; decide)⟩
    intro f hf
    simp only [List.mem_singleton] at hf
    subst hf
    simp only [frameR, framesR, true_and, and_true]
    exact ⟨hcode _ (by decide), ⟨hcode _ (by decide), ⟨hcode _ (by decide), hsc _ (by simp only [valueR]; decide)⟩,
      hsc _ (by simp only [valueR]; decide)⟩, hsc _ (by simp only [valueR]; decide)⟩
  have hN : blocksN C02Doc.optsDeep C02Doc.nested [] := by
    simp [C02Doc.nested, C02Doc.scalar1, C02Doc.optsDeep, blocksN, framesN, frameN, wcode, loopsN, scalarOnce, scalarsN, seenScalars,
      isScalars]
    decide
  have hok : (match writeCif 0 C02Doc.nested with | .ok _ => true | .error _ => false) = true := by decide +kernel
  cases h : writeCif 0 C02Doc.nested with
  | error e => rw [h] at hok; cases hok
  | ok out =>
    obtain ⟨back, hp, hb⟩ := C02_roundtrip_doc C02Doc.optsDeep pol C02Doc.nested out rfl rfl rfl rfl (by decide) rfl hL hR hN h
    exact ⟨out, back, rfl, hp, hb⟩

end CifModel
