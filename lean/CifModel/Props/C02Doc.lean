import CifModel.Lemmas.WriterTotal
import CifModel.Lemmas.WriterLines
/-
  Property C02 — whole documents.  (Separate from Props/C02.lean only because these theorems are proved from lemmas that
  themselves use the value-level theorems of Props/C02.lean.)
-/
namespace CifModel
open Model.Writer Lemmas.WriterTotal Lemmas.WriterLines

/-- **C02_total.**  `cif_write` in CIF 2.0 mode, for every walk order (`WCif`): on every writable CIF — every loop holds a
    packet; every scalar data name has at least two units and at most 2048 characters; every number has a non-empty text
    (`containersOk`: true of every CIF built through the API) — it succeeds, or it fails with CIF_DISALLOWED_VALUE, and then
    the CIF holds a table with at least one entry (the only refusal left in the CIF 2.0 writer is that of a table key:
    `writeChar_key_good`, and of a key that leaves no room for its colon).  No other result code is possible: not CIF_ERROR,
    not CIF_OVERLENGTH_LINE, not CIF_INTERNAL_ERROR, not CIF_EMPTY_LOOP. -/
theorem C02_total (cif : WCif) (hok : containersOk cif) :
    (∃ out, writeCif 0 cif = .ok out)
    ∨ (writeCif 0 cif = .error Gen.ErrCodes.CIF_DISALLOWED_VALUE ∧ containersHaveEntry cif) := by
  have h2 : ({ version := 0 } : Ctx).isCif1 = false := rfl
  have hg := containers_good cif { version := 0 } h2 hok
  unfold writeCif
  simp only [show ¬ ((0 : Nat) = 1) by decide, ↓reduceIte, h2, Bool.false_eq_true]
  rcases hg with ⟨o, c', he, _⟩ | ⟨he, hw⟩
  · left
    simp [andThen, he]
  · right
    simp [andThen, he, hw]

/-- values without any table entry are never refused: a CIF without tables is always written -/
theorem C02_total_no_tables (cif : WCif) (hok : containersOk cif) (hnt : ¬ containersHaveEntry cif) :
    ∃ out, writeCif 0 cif = .ok out := by
  rcases C02_total cif hok with h | ⟨_, hw⟩
  · exact h
  · exact absurd hw hnt

/-- **C02_line_bound** (whole documents, both output versions, every walk order).  Whenever `cif_write` succeeds on a CIF
    whose block / frame codes leave room for `data_` / `save_`, whose data names fit a line, whose strings hold neither NUL
    nor CR and whose number texts are one line of at most 2048 units (`containersL`; the last condition is the open finding
    F-number-overlong), no line of the output is longer than 2048 code units — hence 2048 characters — and the output begins
    with the version comment.  Proved through the column-tracking invariant `LineOk`: `last_column` never underestimates the
    true column, every wrap decision is therefore safe, and every line break resets both. -/
theorem C02_line_bound (version : Nat) (cif : WCif) (out : Str) (h : containersL cif)
    (hw : writeCif version cif = .ok out) :
    (∀ l ∈ splitLines out, l.length ≤ LINE) ∧ (if version = 1 then MAGIC11 else MAGIC20) <+: out := by
  unfold writeCif at hw
  simp only at hw
  generalize hc0 : ({ version := if version = 1 then 1 else 0 } : Ctx) = c0 at hw
  have hcol : c0.lastColumn = 0 := by rw [← hc0]
  have hmagic : (if c0.isCif1 then MAGIC11 else MAGIC20) = (if version = 1 then MAGIC11 else MAGIC20) := by
    rw [← hc0]; by_cases hv : version = 1 <;> simp [hv, Ctx.isCif1]
  rw [hmagic] at hw
  -- the invariant for the whole run
  have L : LineOk c0 (andThen (.ok ((if version = 1 then MAGIC11 else MAGIC20), c0)) fun c1 =>
      andThen (writeContainers cif c1) fun c2 => .ok (writeNewline c2)) := by
    apply lineOk_andThen_ok
    · apply lineOk_of_track c0 _ _ (by rw [hcol]; exact Nat.zero_le _)
      intro _ k hk
      have hk0 : k = 0 := by omega
      subst hk0
      by_cases hv : version = 1
      · simp only [hv, ↓reduceIte]; rw [hcol]; decide
      · simp only [hv, ↓reduceIte]; rw [hcol]; decide
    · apply lineOk_andThen (lineOk_containers cif c0 h)
      intro c2; exact lineOk_newline c2
  cases hr : (andThen (.ok ((if version = 1 then MAGIC11 else MAGIC20), c0)) fun c1 =>
      andThen (writeContainers cif c1) fun c2 => (.ok (writeNewline c2) : W)) with
  | error e => simp [hr] at hw
  | ok p =>
    obtain ⟨o, c'⟩ := p
    simp only [hr, Except.ok.injEq] at hw
    subst hw
    obtain ⟨_, hfit⟩ := L (by rw [hcol]; exact Nat.zero_le _) o c' hr
    refine ⟨all_lines_of_fitsU o (hfit 0 (Nat.zero_le _)).1, ?_⟩
    -- the output starts with the version comment
    unfold andThen at hr
    simp only at hr
    split at hr
    · cases hr
    · rename_i o2 c2 _
      simp only [Except.ok.injEq, Prod.mk.injEq] at hr
      rw [← hr.1]
      exact List.prefix_append _ _

-- non-vacuity: a writable CIF with a scalar item, a loop, a list and a table
example : containersOk [WContainer.mk (a!"b") []
    [{ category := some [], header := [a!"_x"], packets := [[(a!"_x", V.lst [V.chr true (a!"a b"), V.tbl [(a!"k", a!"k", V.unk)]])]] },
     { category := none, header := [a!"_y"], packets := [[(a!"_y", V.numb false (a!"12") false [] none 0)]] }]] := by
  simp [containersOk, containerOk, loopOk, itemsOk, isScalars, valueOk, elemsOk, entriesOk, nameOk, countChar32, LINE]

example : containersL [WContainer.mk (a!"b") []
    [{ category := some [], header := [a!"_x"], packets := [[(a!"_x", V.lst [V.chr true (a!"a b"), V.tbl [(a!"k", a!"k", V.unk)]])]] },
     { category := none, header := [a!"_y"], packets := [[(a!"_y", V.numb false (a!"12") false [] none 0)]] }]] := by
  simp [containersL, containerL, codeL, loopL, headerL, itemsL, valueL, elemsL, entriesL, nameL, strOk, numbOk, countChar32, LINE]

end CifModel
