import CifModel.Lemmas.StoreIter
import CifModel.Lemmas.StoreRefineQ
import CifModel.Lemmas.StoreIterSpec
import CifModel.Lemmas.StoreSpecIter
import CifModel.Props.C04
/-
  Property C06 — packet iterators deliver each packet once; close commits, abort reverts.

  Model: Model/PktItr.lean (cif_loop_get_packets, cif_pktitr_*) on the transaction state of Model/Store.lean.
  `Iter.WF` (Lemmas/StoreIter): the pending rows can be delivered (one row per item and packet, names are items of the loop),
  row numbers are positive, `finished` ⇔ nothing pending — what the schema's keys give for a freshly opened iterator.
-/
namespace CifModel
open Store Gen.ErrCodes

/-- For a loop with pending packets `groups it.rows` (runs of equal row number of GET_LOOP_VALUES_SQL's result) and ANY
    interleaving of next / update / remove calls, the packets delivered are exactly the first `k` packets, in order, each
    once, where `k` = number of `next` calls (afterwards every `next` reports CIF_FINISHED and delivers nothing) — updates
    and removals never cause a packet to be skipped or delivered twice. -/
theorem C06_delivers_each_once (s : Store) (it : Iter) (cs : List Call) (d : Db) (ht : s.txn = some d) (wf : it.WF) :
    (runCalls s it cs).2.2 = ((groups it.rows).take (cs.countP Call.isNext)).filterMap (fill it.names) :=
  runCalls_delivered cs s it d ht wf

/-- … and each delivered packet carries exactly one value for every item of the loop; items for which the packet has
    no stored row carry the unknown value. -/
theorem C06_packet_complete (names : List Str) (g : List ValueRow) (p : List (Str × V)) (h : fill names g = some p) :
    p.map (·.1) = names ∧ ∀ k ∈ names, (∀ r ∈ g, r.name ≠ k) → (k, V.unk) ∈ p :=
  ⟨fill_keys names g p h, fun k hk hn => fillPacket_untouched g _ p k .unk h hn (List.mem_map.mpr ⟨k, hk, rfl⟩)⟩

/-- cif_pktitr_next_packet with a CALLER-SUPPLIED packet (`mergeCallerPacket`, Model/PktItr.lean: "replacing the contents … includes
    removing items that do not belong to the iterated loop"): whatever the caller's packet held — nothing, some of the loop's names,
    foreign names, other spellings — afterwards looking up ANY item name in it gives exactly what the packet just read holds for
    that name (the value for a loop item, nothing for a name that is not the loop's). -/
theorem C06_caller_packet (caller : List (Str × Str)) (p : List (Str × V)) (k : Str) :
    ((mergeCallerPacket caller p).find? (fun e => e.1 == k)).map (fun e => e.2.2) = (p.find? (fun e => e.1 == k)).map (·.2) :=
  mergeCallerPacket_lookup caller p k

/-- a fresh iterator starts at the first packet of the loop as stored at creation, with no current packet -/
theorem C06_open (s s2 : Store) (l : LH) (it : Iter) (ha : s.autocommit = true) (h : getPackets s l = (s2, .ok it)) :
    s2 = { s with txn := some s.db } ∧ it.rows = s.db.loopValues l.cid l.loopNum ∧ it.rows ≠ [] ∧ it.prev = -1 ∧
    it.finished = false ∧ it.cid = l.cid ∧ it.loopNum = l.loopNum :=
  getPackets_ok s s2 l it ha h

/-- every iterator handed out in a state satisfying the store invariant (so: in every reachable state, `C04_inv_reachable`) is
    well formed — the hypothesis `Iter.WF` of the theorems below is discharged — and the items it names exist -/
theorem C06_open_wf (s s2 : Store) (l : LH) (it : Iter) (hinv : InvS s) (h : getPackets s l = (s2, .ok it)) :
    it.WF ∧ ∀ k ∈ it.names, s2.db.hasItem it.cid k = true := by
  refine ⟨getPackets_wf s s2 l it hinv.db h, ?_⟩
  have hi := getPackets_items s s2 l it h
  have hdb : s2.db = s.db := by
    unfold getPackets at h
    have hsame := getNames_same s l
    split at h
    · cases h
    · rename_i s1 names he
      rw [he] at hsame
      split at h
      · cases h
      · rename_i s2' hb
        obtain ⟨_, hs2⟩ := begin_autocommit s1 s2' hb
        split at h
        · cases h
        · simp only [Prod.mk.injEq] at h
          rw [← h.1, hs2]; exact hsame.1
  rw [hdb]; exact hi

/-- no packets ⇒ CIF_EMPTY_LOOP, no items (the loop does not exist) ⇒ CIF_INVALID_HANDLE; nothing stays open -/
theorem C06_open_refused (s : Store) (l : LH) (ha : s.autocommit = true) :
    (s.db.loopItems l.cid l.loopNum = [] → getPackets s l = (s, .error CIF_INVALID_HANDLE)) ∧
    (s.db.loopItems l.cid l.loopNum ≠ [] → s.db.loopValues l.cid l.loopNum = [] → getPackets s l = (s, .error CIF_EMPTY_LOOP)) := by
  have hn := (getNames_same s l).eq_of_autocommit ha
  constructor
  · intro h0
    have : (getNames s l).2 = .error CIF_INVALID_HANDLE := by
      simp [getNames, Store.nestRO, Store.beginNest, ha, h0]
    unfold getPackets
    split
    · rename_i s1 c he
      rw [he] at hn this; simp only [] at hn this; cases this; subst hn; rfl
    · rename_i s1 ns he; rw [he] at this; cases this
  · intro h0 h1
    unfold getPackets
    split
    · rename_i s1 c he
      have : (getNames s l).2 = .ok ((s.db.loopItems l.cid l.loopNum).map (fun i => (i.name, i.nameOrig))) := by
        simp only [getNames, Store.nestRO, Store.beginNest, ha, if_true]
        all_goals (cases hli : s.db.loopItems l.cid l.loopNum with
          | nil => exact absurd hli h0
          | cons i is => rfl)
      rw [he] at this; cases this
    · rename_i s1 ns he
      rw [he] at hn; simp only [] at hn; subst hn
      have hb : s1.begin = some { s1 with txn := some s1.db } := by simp [Store.begin, ha]
      rw [hb]
      simp only [h1]
      have := begin_rollback' s1 _ hb
      rw [this]

/-- The life-cycle table.  Which code each call returns depends only on "is there a current packet" (`0 < prev`: a packet
    was delivered and not removed since) and on `finished`:
      next   : CIF_FINISHED when finished, else CIF_OK — and then there is a current packet;
      update : CIF_MISUSE without a current packet; else CIF_WRONG_LOOP if the packet names an item that is not the loop's,
               else CIF_OK;
      remove : CIF_MISUSE without a current packet; else CIF_OK — and then there is no current packet;
      close, abort : CIF_OK in every state.
    (NEW = REMOVED = no current packet, not finished; ITERATED = current packet; FINISHED = finished, with or without a
    current packet.) -/
theorem C06_state_machine (s : Store) (it : Iter) (d : Db) (ht : s.txn = some d) (wf : it.WF)
    (hi : ∀ k ∈ it.names, s.db.hasItem it.cid k = true) :
    (it.finished = true → nextPacket s it = (it, .error CIF_FINISHED)) ∧
    (it.finished = false → ∃ p, (nextPacket s it).2 = .ok p ∧ 0 < (nextPacket s it).1.prev) ∧
    (it.prev ≤ 0 → ∀ p, updatePacket s it p = (s, .error CIF_MISUSE)) ∧
    (0 < it.prev → ∀ p, (∃ e ∈ p, it.names.contains e.1 = false) → (updatePacket s it p).2 = .error CIF_WRONG_LOOP) ∧
    (0 < it.prev → ∀ p, (∀ e ∈ p, it.names.contains e.1 = true) → (updatePacket s it p).2 = .ok ()) ∧
    (it.prev ≤ 0 → removePacket s it = (s, it, .error CIF_MISUSE)) ∧
    (0 < it.prev → (removePacket s it).2.2 = .ok () ∧ (removePacket s it).2.1.prev = -1) ∧
    (closeIter s).2 = .ok () ∧ (abortIter s).2 = .ok () := by
  have hs := autocommit_of_txn s d ht
  refine ⟨nextPacket_finished s it, ?_, ?_, ?_, ?_, ?_, ?_, ?_, ?_⟩
  · intro hf
    obtain ⟨g, gs, p, _, _, hn, _, _, hp, _⟩ := nextPacket_spec s it hs wf hf
    exact ⟨p, hn, hp⟩
  · intro hp p; simp [updatePacket, hs, hp]
  · intro hp p hex
    have hnp : ¬ it.prev ≤ 0 := by omega
    simp only [updatePacket, hs, hnp, Bool.false_eq_true, if_false]
    rw [updateValues_wrong p s.save.db it hp hi hex]
  · intro hp p hall
    have hnp : ¬ it.prev ≤ 0 := by omega
    simp only [updatePacket, hs, hnp, Bool.false_eq_true, if_false]
    obtain ⟨d', hd'⟩ := updateValues_ok p s.save.db it hp hi hall
    rw [hd']
  · intro hp; simp [removePacket, hs, hp]
  · intro hp
    have hnp : ¬ it.prev ≤ 0 := by omega
    simp [removePacket, hs, hnp]
  · simp [closeIter, Store.commit, hs]
  · simp [abortIter, Store.rollback, hs]

/-- update changes just the items present in the given packet, in the current packet only: every other stored value —
    other rows, other items, other containers — and every other table is as before -/
theorem C06_update_only_named_items (s : Store) (it : Iter) (p : List (Str × V)) (h : (updatePacket s it p).2 = .ok ()) :
    let d' := (updatePacket s it p).1.db
    d'.items = s.db.items ∧ d'.loops = s.db.loops ∧ d'.containers = s.db.containers ∧ d'.blocks = s.db.blocks ∧
    d'.frames = s.db.frames ∧
    ∀ w, ¬(w.cid = it.cid ∧ w.rowNum = it.prev.toNat ∧ w.name ∈ p.map (·.1)) → (w ∈ d'.values ↔ w ∈ s.db.values) := by
  revert h
  unfold updatePacket
  split
  · intro h; cases h
  · split
    · intro h; cases h
    · simp only []
      split
      · rename_i d2 hu
        intro _
        simpa [Store.save, Store.release] using updateValues_only p s.db d2 it (by simpa [Store.save] using hu)
      · intro h; cases h

/-- closing makes the changes made through the iterator permanent: the content stays, the transaction is over -/
theorem C06_close_commits (s : Store) (it : Iter) (cs : List Call) (d : Db) (ht : s.txn = some d) :
    let sf := (runCalls s it cs).1
    closeIter sf = ({ db := sf.db, txn := none, saves := [] }, .ok ()) := by
  have h := runCalls_txn cs s it
  rw [ht] at h
  simp [closeIter, Store.commit, autocommit_of_txn _ d h]

/-- aborting restores the CIF as it was when the iterator was created, whatever was done through the iterator -/
theorem C06_abort_reverts (s s2 : Store) (l : LH) (it : Iter) (cs : List Call) (ha : s.autocommit = true)
    (h : getPackets s l = (s2, .ok it)) :
    abortIter (runCalls s2 it cs).1 = (s, .ok ()) := by
  obtain ⟨hs2, _⟩ := getPackets_ok s s2 l it ha h
  have ht : (runCalls s2 it cs).1.txn = some s.db := by rw [runCalls_txn, hs2]
  cases s with | mk db txn saves =>
  simp [Store.autocommit] at ha
  generalize (runCalls s2 it cs).1 = sf at ht
  cases sf with | mk db' txn' saves' =>
  simp at ht
  simp [abortIter, Store.rollback, Store.autocommit, Store.outermost, ht, ha]

/-- either way the CIF is free for ordinary operations again: no transaction is open, `begin` succeeds -/
theorem C06_frees_cif (s : Store) (it : Iter) (cs : List Call) (d : Db) (ht : s.txn = some d) :
    let sf := (runCalls s it cs).1
    (closeIter sf).1.autocommit = true ∧ (abortIter sf).1.autocommit = true ∧
    (closeIter sf).1.begin.isSome = true ∧ (abortIter sf).1.begin.isSome = true := by
  have h := runCalls_txn cs s it
  rw [ht] at h
  have hs := autocommit_of_txn _ d h
  simp [closeIter, abortIter, Store.commit, Store.rollback, Store.begin, Store.autocommit, hs] at *
  simp [h]

-- non-vacuity: a two-packet loop; next, update, next, remove, next
private def nm (k : Str) : Name := { key := k, orig := k, valid := true }
private def s0 : Store := (createBlock {} (some (nm (a!"b")))).1
private def hB : CH := { id := 1, code := a!"b", isBlock := true }
private def s1 : Store := (createLoop s0 hB none [nm (a!"_a"), nm (a!"_b")]).1
private def lA : LH := { cid := 1, loopNum := 0, category := none }
private def s2 : Store := (addPacket (addPacket s1 lA [(a!"_a", .na), (a!"_b", .unk)]).1 lA [(a!"_a", .unk)]).1
example : (getPackets s2 lA).2.toOption.isSome = true := by decide
example : ((runCalls (getPackets s2 lA).1 ((getPackets s2 lA).2.toOption.getD default) [.next, .update [(a!"_b", .na)], .next, .remove, .next]).2.2).length = 2 := by
  decide

-- ---- against the documented model (review gB, C06 S1 / S2) ------------------------------------------------------------------------------

/-- WHAT a delivered packet holds, stated on the store and not through the model's own packet builder: for an iterator tied to its
    store (`IterOk`: every live iterator of a history that keeps to the contract, `C04_iterator_tied`) with rows pending,
    cif_pktitr_next_packet delivers, for every item of the loop in the loop's order, exactly the value STORED for that item in the
    first pending row — the unknown value when the row has none — and moves on to that row. -/
theorem C06_packet_is_stored (s : Store) (it : Iter) (d : Db) (h : IterOk it d) (hinv : Inv d) (hs : s.autocommit = false)
    (r : ValueRow) (rest : List ValueRow) (hrows : it.rows = r :: rest) :
    nextPacket s it = ({ it with rows := it.rows.dropWhile (fun x => x.rowNum == r.rowNum), prev := (r.rowNum : Int),
                                 finished := (it.rows.dropWhile (fun x => x.rowNum == r.rowNum)).isEmpty },
                       .ok (it.names.map (fun n => (n, cellK d it.cid n r.rowNum)))) :=
  nextPacket_delivers s it d h hinv hs r rest hrows

/-- cif_loop_get_packets against the documented model (`specItOpen`): CIF_INVALID_HANDLE for a loop without items, CIF_EMPTY_LOOP for a
    loop without packets — the store is then what it was —, else an iterator before the first packet that remembers the CIF as it is -/
theorem C06_open_refines (s : Store) (l : LH) (hg : Good s.db) (hv : l.validB s.db = true) (hac : s.autocommit = true) :
    match (getPackets s l).2 with
    | .ok it => specItOpen (absS s.db) l = .ok (absIter it (getPackets s l).1) ∧ (getPackets s l).1.db = s.db ∧
                (getPackets s l).1.txn = some s.db ∧ IterOk it s.db
    | .error c => specItOpen (absS s.db) l = .error c ∧ (getPackets s l).1 = s :=
  getPackets_spec_abs s l hg hv hac

/-- EVERY sequence of next / update / remove calls on an open iterator (tied to its store, inside its transaction, update packets
    with distinct keys) runs on the documented model (`specCalls`: `specItNext` / `specItUpdate` / `specItRemove` on the loop's packet
    list) exactly as on the store: the same final content, the same iterator position, and for EVERY call the same code and, for
    next, the same packet.  So, over whole call sequences: each packet is delivered exactly once, in order, holding the values the
    loop holds at that moment (updates made through the iterator included); CIF_FINISHED exactly when no packet is left;
    CIF_MISUSE for update / remove exactly when there is no current packet (before the first next, after a remove);
    CIF_WRONG_LOOP for an update naming an item of another loop; a remove deletes exactly the current packet. -/
theorem C06_refines_calls (cs : List Call) (s : Store) (it : Iter) (d0 : Db) (hg : GoodS s) (hok : IterOk it s.db)
    (ht : s.txn = some d0) (hk : cs.all Call.keysOk = true) :
    absS (runCallsC s it cs).1.db = (specCalls (absS s.db) (absIter it s) cs).1 ∧
    absIter (runCallsC s it cs).2.1 (runCallsC s it cs).1 = (specCalls (absS s.db) (absIter it s) cs).2.1 ∧
    (runCallsC s it cs).2.2 = (specCalls (absS s.db) (absIter it s) cs).2.2 :=
  let h := runCalls_refines cs s it d0 hg hok ht hk
  ⟨h.1, h.2.1, h.2.2.1⟩

/-- … and then: cif_pktitr_close returns CIF_OK and leaves the CIF with exactly the updates and removals applied (the content the
    call sequence produced on the documented model); cif_pktitr_abort returns CIF_OK and the CIF is what it was when the iterator
    was created (`AIter.start`), whatever the call sequence did; either way the CIF is in autocommit mode again. -/
theorem C06_close_abort_refine (cs : List Call) (s : Store) (it : Iter) (d0 : Db) (hg : GoodS s) (hok : IterOk it s.db)
    (ht : s.txn = some d0) (hk : cs.all Call.keysOk = true) :
    let r := runCallsC s it cs
    absS (closeIter r.1).1.db = (specCalls (absS s.db) (absIter it s) cs).1 ∧ (closeIter r.1).2 = .ok () ∧
    (closeIter r.1).1.autocommit = true ∧
    absS (abortIter r.1).1.db = absS d0 ∧ (abortIter r.1).2 = .ok () ∧ (abortIter r.1).1.autocommit = true := by
  intro r
  have h := runCalls_refines cs s it d0 hg hok ht hk
  obtain ⟨c1, c2, c3, a1, a2, a3⟩ := closeAbort_abs r.1 r.2.1 d0 h.2.2.2.1
  refine ⟨by rw [c1]; exact h.1, c2, c3, ?_, a2, a3⟩
  rw [a1]
  show absS ((runCallsC s it cs).1.txn.getD _) = _
  rw [h.2.2.2.1]; rfl

/-- the documented state machine, read off `specItNext` / `specItUpdate` / `specItRemove`: no packet left ⇒ CIF_FINISHED and the
    iterator stays; no current packet ⇒ update and remove are CIF_MISUSE and change nothing -/
theorem C06_documented_codes (a : AState) (ai : AIter) (x : ALoop) (hx : a.findLoop ai.cid ai.num = some x) :
    (x.packets.length ≤ ai.done → specItNext a ai = (ai, .error CIF_FINISHED)) ∧
    (ai.hasCur = false → ∀ p, specItUpdate a ai p = (a, .error CIF_MISUSE)) ∧
    (ai.hasCur = false → specItRemove a ai = (a, ai, .error CIF_MISUSE)) := by
  refine ⟨?_, ?_, ?_⟩
  · intro hle
    unfold specItNext
    rw [hx]
    simp only []
    have : x.packets[ai.done]? = none := List.getElem?_eq_none hle
    rw [this]
  · intro hc p; unfold specItUpdate; simp [hc]
  · intro hc; unfold specItRemove; simp [hc]

-- ---- iterators inside whole histories (C04_refines_hist covers the six iterator calls; here: what an iterator delivers) ------------------

/-- A granted cif_loop_get_packets inside a history (world satisfying WOk, op in contract): in the documented model (`absW`), the new
    iterator — index `w.its.length` of the iterator table — has the WHOLE packet list of its loop pending, each packet as (item name,
    value) pairs in the loop's order: "the loop's packets in the spec state at its creation". -/
theorem C06_pending_at_open (w : World) (h : WOk w) (l : Nat) (hin : inContract w (.itOpen l) = true)
    (hok : (step w (.itOpen l)).2.rc = some CIF_OK) :
    ∃ e st x, (absW w).liveL l = some (e, st) ∧ st.findLoop e.h.cid e.h.loopNum = some x ∧
      (absW (step w (.itOpen l)).1).pending w.its.length = some (x.packets.map (fun p => (x.items.map (·.1)).zip p)) :=
  pending_open w h l hin hok

/-- cif_pktitr_next_packet inside a history, against what is pending for the iterator in the documented model: the call is not
    executed (dead handle), or nothing is pending and it returns CIF_FINISHED, or it returns CIF_OK with the FIRST pending packet and
    the rest stays pending.  So CIF_FINISHED is returned exactly when every packet has been delivered. -/
theorem C06_next_in_history (w : World) (h : WOk w) (i : Nat) (P : List (List (Str × V))) (hp : (absW w).pending i = some P) :
    ((step w (.itNext i)).2.rc = none ∧ (absW (step w (.itNext i)).1).pending i = some P) ∨
    (P = [] ∧ (step w (.itNext i)).2.rc = some CIF_FINISHED ∧ (absW (step w (.itNext i)).1).pending i = some []) ∨
    (∃ p ps, P = p :: ps ∧ (step w (.itNext i)).2.rc = some CIF_OK ∧ (step w (.itNext i)).2.out = .packet p ∧
      (absW (step w (.itNext i)).1).pending i = some ps) :=
  pending_next w h i P hp

/-- No other op of an in-contract history changes what is pending for an open iterator: not a call on another CIF, not a call of
    another iterator, not a refused second cif_loop_get_packets on the iterator's own CIF (everything else on that CIF is out of
    contract), and not the iterator's own update_packet / remove_packet, which work on the packet BEHIND its position. -/
theorem C06_pending_kept (w : World) (op : Op) (h : WOk w) (hin : inContract w op = true) (i : Nat) (P : List (List (Str × V)))
    (hp : (absW w).pending i = some P) (hop : op.isNextOf i = false) (hend : op.endsIter i = false) :
    (absW (step w op).1).pending i = some P := by
  by_cases hidx : op.iterIdx = some i
  · cases op with
    | itNext j => simp only [Op.iterIdx, Option.some.injEq] at hidx; simp [Op.isNextOf, hidx] at hop
    | itUpd j pkt =>
      simp only [Op.iterIdx, Option.some.injEq] at hidx; subst hidx
      exact pending_upd w h j pkt hin P hp
    | itRem j =>
      simp only [Op.iterIdx, Option.some.injEq] at hidx; subst hidx
      exact pending_rem w h j P hp
    | itClose j => simp only [Op.iterIdx, Option.some.injEq] at hidx; simp [Op.endsIter, hidx] at hend
    | itAbort j => simp only [Op.iterIdx, Option.some.injEq] at hidx; simp [Op.endsIter, hidx] at hend
    | _ => simp [Op.iterIdx] at hidx
  · exact pending_other w op h hin i P hp hidx

/-- **Each packet once, in order, in ANY in-contract history.**  From a world satisfying WOk in which `P` is pending for iterator `i`
    (after a granted get_packets: all packets of the loop, `C06_pending_at_open`), over any history that keeps to the contract and
    does not close or abort `i`: the packets the next_packet calls on `i` deliver (`deliveredBy`: the results with CIF_OK and a
    packet, in history order) are a prefix of `P`, and the rest of `P` is what is pending afterwards — whatever else the history does
    in between (updates / removals through `i`, calls on other CIFs, other iterators' sessions, refused get_packets). -/
theorem C06_delivers_in_history (ops : List Op) (w : World) (h : WOk w) (hc : inContractHist w ops = true)
    (i : Nat) (P : List (List (Str × V))) (hp : (absW w).pending i = some P) (hno : ops.all (fun op => !op.endsIter i) = true) :
    ∃ rest, P = deliveredBy i ops (run w ops).2 ++ rest ∧ (absW (run w ops).1).pending i = some rest :=
  delivered_prefix C04_wok_step ops w h hc i P hp hno

/-- … from the creation of the iterator on: in a history `get_packets(l) :: ops` that keeps to the contract, the iterator granted
    (CIF_OK) and not closed or aborted within `ops`, what it delivers over `ops` is a prefix of THE LOOP'S PACKETS IN THE DOCUMENTED
    MODEL AT ITS CREATION (`x.packets` of the loop the handle names in `absW w`), each packet once, in order; and if a further
    next_packet then returns CIF_FINISHED, it has delivered ALL of them. -/
theorem C06_session_in_history (w : World) (h : WOk w) (l : Nat) (ops : List Op)
    (hc : inContractHist w (.itOpen l :: ops) = true) (hok : (step w (.itOpen l)).2.rc = some CIF_OK)
    (hno : ops.all (fun op => !op.endsIter w.its.length) = true) :
    ∃ e st x rest, (absW w).liveL l = some (e, st) ∧ st.findLoop e.h.cid e.h.loopNum = some x ∧
      x.packets.map (fun p => (x.items.map (·.1)).zip p) = deliveredBy w.its.length ops (run (step w (.itOpen l)).1 ops).2 ++ rest ∧
      ((step (run (step w (.itOpen l)).1 ops).1 (.itNext w.its.length)).2.rc = some CIF_FINISHED → rest = []) := by
  have hc' : (inContract w (.itOpen l) && inContractHist (step w (.itOpen l)).1 ops) = true := hc
  simp only [Bool.and_eq_true] at hc'
  obtain ⟨e, st, x, h1, h2, h3⟩ := pending_open w h l hc'.1 hok
  have hw1 := C04_wok_step w (.itOpen l) h hc'.1
  obtain ⟨rest, r1, r2⟩ := delivered_prefix C04_wok_step ops _ hw1 hc'.2 w.its.length _ h3 hno
  refine ⟨e, st, x, rest, h1, h2, r1, ?_⟩
  intro hfin
  have hw2 := C04_wok_hist ops _ hw1 hc'.2
  rcases pending_next _ hw2 w.its.length rest r2 with ⟨r0, _⟩ | ⟨pe, _, _⟩ | ⟨p, ps, _, r0, _, _⟩
  · rw [r0] at hfin; cases hfin
  · exact pe
  · rw [r0] at hfin; exact absurd hfin (by decide)

/-- … and with NO restriction on the history: over ANY history that keeps to the contract, from a world satisfying WOk in which `P` is
    pending for iterator `i`, the packets the next_packet calls on `i` deliver are a prefix of `P` — each once, in order; a close or
    abort of `i` inside the history ends the deliveries (afterwards calls on `i` are not executed: a dead entry of the iterator table
    stays dead, `step_dead`). -/
theorem C06_delivers_in_any_history (ops : List Op) (w : World) (h : WOk w) (hc : inContractHist w ops = true)
    (i : Nat) (P : List (List (Str × V))) (hp : (absW w).pending i = some P) :
    ∃ rest, P = deliveredBy i ops (run w ops).2 ++ rest :=
  delivered_prefix_all C04_wok_step ops w h hc i P hp

-- non-vacuity: CIF 0 with a three-packet loop, CIF 1 beside it; the session is interleaved with calls on CIF 1, an update and a removal
private def pre : List Op :=
  [.cifNew, .mkBlock 0 (some (nm (a!"b"))), .mkLoop 0 none [nm (a!"_a"), nm (a!"_b")],
   .addPkt 0 [(a!"_a", .na), (a!"_b", .unk)], .addPkt 0 [(a!"_a", .unk), (a!"_b", .na)], .addPkt 0 [(a!"_a", .na), (a!"_b", .na)],
   .cifNew, .mkBlock 1 (some (nm (a!"c")))]
private def sess : List Op :=
  [.itNext 0, .setVal 1 (some (nm (a!"_x"))) (some .na), .itUpd 0 [(a!"_b", .na)], .itNext 0, .itRem 0, .itOpen 0, .blocks 1, .itNext 0]
example : inContractHist {} (pre ++ .itOpen 0 :: sess) = true := by decide
example : (step (run {} pre).1 (.itOpen 0)).2.rc = some CIF_OK := by decide
example : sess.all (fun op => !op.endsIter (run {} pre).1.its.length) = true := by decide
example : (deliveredBy 0 sess (run (step (run {} pre).1 (.itOpen 0)).1 sess).2).length = 3 := by decide
example : (deliveredBy 0 (sess ++ [.itClose 0, .itNext 0, .getVal 0 (some (nm (a!"_a")))])
    (run (step (run {} pre).1 (.itOpen 0)).1 (sess ++ [.itClose 0, .itNext 0, .getVal 0 (some (nm (a!"_a")))])).2).length = 3 := by decide
example : WOk (run {} pre).1 := C04_wok_hist pre {} C04_wok_init (by decide)
example := C06_session_in_history (run {} pre).1 (C04_wok_hist pre {} C04_wok_init (by decide)) 0 sess (by decide) (by decide) (by decide)

end CifModel
