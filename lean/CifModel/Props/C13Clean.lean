import CifModel.Lemmas.WriterClean
import CifModel.Props.C13Doc
/-
  Property C13 — "never succeeds while silently altering content", the carriage return: since the repair of F-cr-altered the CIF 1.1
  writer refuses a string holding a CR (CIF_DISALLOWED_VALUE: a string that cannot be expressed), so success implies CR-free strings.
-/
namespace CifModel
open Model Model.Writer Lemmas.WriterChar Lemmas.WriterClean

/-- **C13_success_implies_clean** — whenever `cif_write` in CIF 1.1 mode reports success, no string value and no number text that
    went through `write_char` holds a carriage return (`containersW true`; the CIF 1.1 CHARACTER set is `C13_refuses`' `containersCE`). -/
theorem C13_success_implies_clean (cif : WCif) (out : Str) (h : writeCif 1 cif = .ok out) : containersW true cif := by
  have := writeCif_clean 1 cif out h
  simpa using this

/-- in CIF 1.1 mode a string with a CR is refused with CIF_DISALLOWED_VALUE even when it also holds a character outside CIF 1.1:
    the CR test comes first (`C13_first_refused`: `strFirst`) -/
theorem C13_cr_refused (c : Ctx) (s : Str) (q allowText : Bool) (h : (13 : CU) ∈ s) :
    writeChar c s q allowText = .error Gen.ErrCodes.CIF_DISALLOWED_VALUE := writeChar_cr c s q allowText h

example (t : Str) (q : Bool) (h : valueW true (.chr q t)) : (13 : CU) ∉ t := strClean_noCR _ t h

end CifModel
