import CifModel.Lemmas.Value
import CifModel.Lemmas.HeapMap
import CifModel.Lemmas.HeapPacket
import CifModel.Lemmas.HeapClone
import CifModel.Gen.ValueCols
/-
  Property C19 — value objects are independent deep values; lists and tables keep their contracts.

  Pure level (this part): Model/Value against Spec/ValueSpec.  Heap level (ownership, disjointness of clones, exactly-once
  release): second part of this file, over Model/Heap.
-/
namespace CifModel
open Model.Value Spec.ValueSpec

/-- **A list is a sequence**: insert shifts later elements (`List.insertIdx`), set replaces in place (`List.set`), remove
    closes the gap and hands out the removed element (`List.eraseIdx`, `l[i]`), get reads `l[i]`; CIF_INVALID_INDEX
    exactly when `i > size` (insert) resp. `i ≥ size` (set, remove, get); a NULL element stands for the unknown value. -/
theorem C19_list_is_sequence (vs : List V) (i : Nat) (x : Option V) :
    listInsert (.lst vs) i x = (match seqInsert vs i (x.getD .unk) with
        | .ok l => .ok (.lst l) | .invalidIndex => .error INVALID_INDEX)
    ∧ listSet (.lst vs) i x = (match seqSet vs i (x.getD .unk) with
        | .ok l => .ok (.lst l) | .invalidIndex => .error INVALID_INDEX)
    ∧ listRemove (.lst vs) i = (match seqRemove vs i with
        | .ok (l, r) => .ok (.lst l, r) | .invalidIndex => .error INVALID_INDEX)
    ∧ listGet (.lst vs) i = (match seqGet vs i with
        | .ok r => .ok r | .invalidIndex => .error INVALID_INDEX)
    ∧ elementCount (.lst vs) = .ok vs.length := by
  refine ⟨?_, ?_, ?_, ?_, rfl⟩
  · unfold listInsert seqInsert
    by_cases h : i ≤ vs.length
    · have : ¬ i > vs.length := by omega
      simp [h, this, insertAt_eq _ _ _ h]
    · have : i > vs.length := by omega
      simp [h, this]
  · unfold listSet seqSet
    by_cases h : i < vs.length
    · have : ¬ i ≥ vs.length := by omega
      simp [h, this, setAt_eq]
    · have : i ≥ vs.length := by omega
      simp [h, this]
  · simp only [listRemove, seqRemove, getAt_eq, removeAt_eq]
    by_cases h : i < vs.length
    · have : ¬ i ≥ vs.length := by omega
      simp [this, List.getElem?_eq_getElem h]
    · have h' : i ≥ vs.length := by omega
      simp [h']
  · simp only [listGet, seqGet, getAt_eq]
    by_cases h : i < vs.length
    · have : ¬ i ≥ vs.length := by omega
      simp [this, List.getElem?_eq_getElem h]
    · have h' : i ≥ vs.length := by omega
      simp [h']

/-- **A table is a map** keyed by the normalised key: after `set` the key maps to the value entered (NULL = unknown
    value) under the spelling just used, every other key is unaffected, a new key is appended to the enumeration order
    and an existing one keeps its place; after `remove` the key is absent and the rest unaffected; `get` is lookup;
    `get_keys` enumerates in order of first entry with the most recent spelling; the no-duplicate invariant is kept. -/
theorem C19_table_is_map (norm : Str → Option Str) (es : List Entry) (hn : nodupKeys es = true)
    (key nk : Str) (hk : norm key = some nk) (x : Option V) :
    (∃ es', tableSet norm (.tbl es) key x = .ok (.tbl es') ∧ absMap es' = (absMap es).set nk key (x.getD .unk)
        ∧ nodupKeys es' = true)
    ∧ tableGet norm (.tbl es) key = (match (absMap es).lookup nk with | some v => .ok v | none => .error NOSUCH_ITEM)
    ∧ tableRemove norm (.tbl es) key = (match (absMap es).lookup nk with
        | some v => .ok (.tbl (mapErase es nk), v) | none => .error NOSUCH_ITEM)
    ∧ absMap (mapErase es nk) = (absMap es).erase nk ∧ nodupKeys (mapErase es nk) = true
    ∧ tableKeys (.tbl es) = .ok (absMap es).keys := by
  refine ⟨⟨mapSet es nk key x, by simp [tableSet, hk], abs_mapSet es nk key x, nodup_mapSet es nk key x hn⟩, ?_, ?_,
    abs_mapErase es nk hn, nodup_mapErase es nk hn, by simp [tableKeys, mapKeys_abs es hn]⟩
  · simp only [tableGet, hk, AMap.lookup, absMap]
    cases mapFind es nk <;> rfl
  · simp only [tableRemove, hk, AMap.lookup, absMap]
    cases mapFind es nk <;> rfl

/-- a key the normaliser rejects: set reports CIF_INVALID_INDEX, get and remove report CIF_NOSUCH_ITEM; nothing changes -/
theorem C19_table_invalid_key (norm : Str → Option Str) (es : List Entry) (key : Str) (hk : norm key = none) (x : Option V) :
    tableSet norm (.tbl es) key x = .error INVALID_INDEX ∧ tableGet norm (.tbl es) key = .error NOSUCH_ITEM
    ∧ tableRemove norm (.tbl es) key = .error NOSUCH_ITEM := by
  simp [tableSet, tableGet, tableRemove, hk]

/-- **Histories**: after any sequence of set / remove operations starting from the empty table, the association list of
    the model is the abstract map obtained by replaying the same history (so every lookup and the key enumeration agree). -/
theorem C19_table_history (ops : List MapOp) :
    absMap (runMap [] ops) = AMap.empty.run ops ∧ nodupKeys (runMap [] ops) = true
    ∧ mapKeys (runMap [] ops) = (AMap.empty.run ops).keys := by
  have h := runMap_refines ops [] rfl
  refine ⟨h.1, h.2, ?_⟩
  rw [mapKeys_abs _ h.2, h.1]
  rfl

/-- **Packets obey the same map contract** with data-name matching (`norm` = cif_normalize_item_name): the operations are
    the table operations on the packet's entries, with CIF_INVALID_ITEMNAME for a rejected name on set. -/
theorem C19_packet_is_map (norm : Str → Option Str) (p : Packet) (name : Str) (x : Option V) :
    packetSet norm p name x = (match norm name with | some nk => .ok (mapSet p nk name x) | none => .error INVALID_ITEMNAME)
    ∧ packetGet norm p name = (match tableGet norm (.tbl p) name with | .ok v => .ok v | .error c => .error c)
    ∧ packetRemove norm p name = (match tableRemove norm (.tbl p) name with
        | .ok (.tbl p', v) => .ok (p', v) | .ok (_, _) => .error NOSUCH_ITEM | .error c => .error c)
    ∧ packetNames p = mapKeys p := by
  refine ⟨?_, ?_, ?_, rfl⟩
  · unfold packetSet; cases norm name <;> rfl
  · cases h1 : norm name with
    | none => simp [packetGet, tableGet, h1]
    | some nk => cases h2 : mapFind p nk <;> simp [packetGet, tableGet, h1, h2]
  · cases h1 : norm name with
    | none => simp [packetRemove, tableRemove, h1]
    | some nk => cases h2 : mapFind p nk <;> simp [packetRemove, tableRemove, h1, h2]

/-- names that normalise to distinct data names: `cif_packet_create` yields a packet holding the unknown value under each
    name in the order given, with no duplicate key -/
def distinctNorm (norm : Str → Option Str) : List Str → Bool
  | [] => true
  | n :: ns => ns.all (fun m => norm m != norm n) && distinctNorm norm ns

/-- an entry of a created packet comes from one of the names -/
theorem packetCreate_mem (norm : Str → Option Str) (nk : Str) (e : Entry) :
    ∀ (ms : List Str) (q : Packet), packetCreate norm ms = .ok q → mapFind q nk = some e → ∃ m ∈ ms, norm m = some nk := by
  intro ms
  induction ms with
  | nil => intro q h1 h2; simp [packetCreate] at h1; subst h1; simp [mapFind] at h2
  | cons m ms ihm =>
    intro q h1 h2
    simp only [packetCreate] at h1
    cases hm : norm m with
    | none => simp [hm] at h1
    | some mk =>
      simp only [hm] at h1
      cases hq : packetCreate norm ms with
      | error c => simp [hq] at h1
      | ok q' =>
        simp only [hq] at h1
        split at h1
        · cases h1
        · injection h1 with h1
          subst h1
          simp only [mapFind] at h2
          by_cases hmk : mk = nk
          · exact ⟨m, by simp, by rw [hm, hmk]⟩
          · simp only [hmk, if_false] at h2
            obtain ⟨m', hm', hn'⟩ := ihm q' hq h2
            exact ⟨m', by simp [hm'], hn'⟩

theorem C19_packet_create (norm : Str → Option Str) (names : List Str) (hv : ∀ n ∈ names, (norm n).isSome)
    (hd : distinctNorm norm names = true) :
    ∃ p, packetCreate norm names = .ok p ∧ nodupKeys p = true ∧ packetNames p = names
      ∧ ∀ n ∈ names, packetGet norm p n = .ok .unk := by
  induction names with
  | nil => exact ⟨[], rfl, rfl, rfl, fun n h => by cases h⟩
  | cons n ns ih =>
    simp only [distinctNorm, Bool.and_eq_true, List.all_eq_true, bne_iff_ne, ne_eq] at hd
    obtain ⟨p, hp, hnd, hnames, hget⟩ := ih (fun m hm => hv m (by simp [hm])) hd.2
    have hn := hv n (by simp)
    obtain ⟨nk, hnk⟩ := Option.isSome_iff_exists.mp hn
    have hfresh : mapFind p nk = none := by
      cases hf : mapFind p nk with
      | none => rfl
      | some e =>
        exfalso
        obtain ⟨m, hm, hmn⟩ := packetCreate_mem norm nk e ns p hp hf
        exact hd.1 m hm (by rw [hmn, hnk])
    refine ⟨(nk, n, .unk) :: p, by simp [packetCreate, hnk, hp, hfresh], ?_, ?_, ?_⟩
    · simp [nodupKeys, hfresh, hnd]
    · simp only [packetNames, mapKeys, List.map_cons] at hnames ⊢
      rw [hnames]
    · intro m hm
      rcases List.mem_cons.mp hm with rfl | hm'
      · simp [packetGet, hnk, mapFind]
      · have := hget m hm'
        obtain ⟨mk, hmk⟩ := Option.isSome_iff_exists.mp (hv m (by simp [hm']))
        have hne : ¬ nk = mk := by
          intro h
          exact hd.1 m hm' (by rw [hmk, hnk, h])
        simp only [packetGet, hmk, mapFind, hne, if_false] at this ⊢
        exact this

/-- … and two names for one item are refused: CIF_DUP_ITEMNAME, no packet (F36, repaired by c571e89) -/
theorem C19_packet_create_dup (norm : Str → Option Str) (names : List Str) (hv : ∀ n ∈ names, (norm n).isSome)
    (hd : distinctNorm norm names = false) : packetCreate norm names = .error DUP_ITEMNAME := by
  induction names with
  | nil => simp [distinctNorm] at hd
  | cons n ns ih =>
    obtain ⟨nk, hnk⟩ := Option.isSome_iff_exists.mp (hv n (by simp))
    have hvs : ∀ m ∈ ns, (norm m).isSome := fun m hm => hv m (by simp [hm])
    cases hds : distinctNorm norm ns with
    | false => simp [packetCreate, hnk, ih hvs hds]
    | true =>
      obtain ⟨p, hp, _, _, hget⟩ := C19_packet_create norm ns hvs hds
      have hex : ∃ m ∈ ns, norm m = norm n := by
        simp only [distinctNorm, hds, Bool.and_true] at hd
        have : ¬ (∀ m ∈ ns, (norm m != norm n) = true) := by
          intro hall; rw [List.all_eq_true.mpr hall] at hd; cases hd
        by_cases hx : ∃ m ∈ ns, norm m = norm n
        · exact hx
        · exfalso; apply this; intro m hm
          simp only [bne_iff_ne, ne_eq]
          exact fun he => hx ⟨m, hm, he⟩
      obtain ⟨m, hm, hmn⟩ := hex
      have hgm := hget m hm
      have hsome : (mapFind p nk).isSome = true := by
        simp only [packetGet, hmn, hnk] at hgm
        cases hf : mapFind p nk with
        | none => simp [hf] at hgm
        | some e => rfl
      simp [packetCreate, hnk, hp, hsome]

/-- F36 on the pinned tree (before c571e89): given two names for one item, `cif_packet_create` built a packet with a
    duplicate key -/
theorem C19_cex_packet_create_dup_pinned :
    ∃ p, packetCreatePinned (fun _ => some (a!"_a")) [(a!"_a"), (a!"_A")] = .ok p ∧ nodupKeys p = false := ⟨_, rfl, by decide⟩

/-- **Wrong kind**: every list operation on a value that is not a list, every table operation on a value that is not a
    table, and the element count of a scalar, return CIF_ARGUMENT_ERROR (and change nothing) -/
theorem C19_wrong_kind (norm : Str → Option Str) (v : V) (i : Nat) (key : Str) (x : Option V) :
    ((∀ vs, v ≠ .lst vs) →
        listGet v i = .error ARGUMENT_ERROR ∧ listSet v i x = .error ARGUMENT_ERROR
        ∧ listInsert v i x = .error ARGUMENT_ERROR ∧ listRemove v i = .error ARGUMENT_ERROR)
    ∧ ((∀ es, v ≠ .tbl es) →
        tableGet norm v key = .error ARGUMENT_ERROR ∧ tableSet norm v key x = .error ARGUMENT_ERROR
        ∧ tableRemove norm v key = .error ARGUMENT_ERROR ∧ tableKeys v = .error ARGUMENT_ERROR)
    ∧ ((∀ vs, v ≠ .lst vs) → (∀ es, v ≠ .tbl es) → elementCount v = .error ARGUMENT_ERROR) := by
  refine ⟨?_, ?_, ?_⟩
  · intro h; cases v <;> first | (exact absurd rfl (h _)) | simp [listGet, listSet, listInsert, listRemove]
  · intro h; cases v <;> first | (exact absurd rfl (h _)) | simp [tableGet, tableSet, tableRemove, tableKeys]
  · intro h1 h2; cases v <;> first | (exact absurd rfl (h1 _)) | (exact absurd rfl (h2 _)) | simp [elementCount]

/-- **Clone is equal**, pure level: kind, text, quoting, numeric attributes and the full recursive structure.  In the pure
    model values are immutable trees and `clone` is the identity, so this statement is definitional; the statement with
    content is at heap level — `C19_clone_reads_source`: the clone that follows the source's pointers cell by cell yields a
    structure that represents the same value. -/
theorem C19_clone_equal (v : V) : clone v = v ∧ (clone v == v) = true ∧ kind (clone v) = kind v :=
  ⟨rfl, beq_refl v, rfl⟩

/-- (re)initialisers, pure level: the result of `cif_value_init`, `cif_value_init_char` / `copy_char` and `cif_value_clean`
    does not depend on what the object held, and a cleaned object has no members.  (Definitional in the pure model; that the
    previous content is RELEASED is `C19_reinit_releases`, at heap level.) -/
theorem C19_reinit_result_independent (v w : V) (kind : Nat) (t : Str) (s : Step) (p : List Step) :
    init v kind = init w kind ∧ initChar v (some t) = initChar w (some t) ∧ clean v = clean w
    ∧ resolve (clean v) (s :: p) = none ∧ (initChar v none).2 = v := by
  refine ⟨?_, rfl, rfl, ?_, rfl⟩
  · unfold Model.Value.init; cases defaultOf kind <;> rfl
  · cases s <;> rfl

/-- **Clone onto an existing object** (`cif_value_clone(src, &dst)`, `cif_value_set_element_at`, `cif_value_set_item_by_key`,
    `cif_packet_set_item` on an existing member), source and target anywhere in the same object tree — including the
    documented aliasing case (the same object: nothing changes) and a source that is a member of the target or contains
    it: the target ends up equal to the source as it was before the call. -/
theorem C19_clone_onto_repaired (root : V) (sp dp : List Step) (s r : V) (hs : resolve root sp = some s)
    (h : cloneOnto root sp dp = some r) : (sp = dp → r = root) ∧ (sp ≠ dp → resolve r dp = some s) :=
  cloneOnto_spec root sp dp s r hs h

/-- … on the two inputs on which the pinned code failed -/
theorem C19_clone_onto_repaired_examples :
    cloneOnto (.lst [.lst [.chr true (a!"x")]]) [.idx 0, .idx 0] [.idx 0] = some (.lst [.chr true (a!"x")])
    ∧ cloneOnto (.lst [.chr true (a!"x")]) [] [] = some (.lst [.chr true (a!"x")]) := ⟨rfl, rfl⟩

/-- F35 on the pinned tree (before f1b092b), pure shadow: cloning onto an object that contains the source read the released
    source (`none`); cloning an object onto itself left the unknown value -/
theorem C19_cex_clone_alias_pinned :
    cloneOntoPinned (.lst [.lst [.chr true (a!"x")]]) [.idx 0, .idx 0] [.idx 0] = none
    ∧ cloneOntoPinned (.lst [.chr true (a!"x")]) [] [] = some .unk := ⟨rfl, rfl⟩

/-! ## Heap level (Model/Heap): ownership, disjointness of clones, exactly-once release

  `Heap.Rep h hv v F`: in heap `h` the value fields `hv` represent the pure value `v` and own exactly the blocks `F`.
  An operation returning `some` has read, written and freed live blocks only (a dead block makes it return `none`). -/

section HeapLevel
open Model.Heap

/-- **Clone is disjoint** (any depth): a clone of a represented value is a representation of the same value on blocks
    that did not exist before — so it shares no storage with the original —; the original is still represented;
    releasing either leaves the other represented; and clone followed by release of the clone restores the heap cell
    for cell (every block the clone allocated is freed exactly once, nothing else is touched). -/
theorem C19_clone_disjoint (h : Heap) (hw : h.WF) (hv : HVal) (v : V) (F : List Nat) (hr : Rep h hv v F)
    (hF : ∀ a, a ∈ F → a < h.next) (hv' : HVal) (h1 : Heap) (hb : buildVal h v = (hv', h1)) :
    ∃ F', Rep h1 hv' v F' ∧ Rep h1 hv v F ∧ disjoint F F' ∧ h1.WF
      ∧ (∃ h2, cleanVal (need v) h1 hv' = some h2 ∧ Rep h2 hv v F ∧ ∀ a, h2.cell a = h.cell a)
      ∧ (∃ h2, cleanVal (need v) h1 hv = some h2 ∧ Rep h2 hv' v F') := by
  obtain ⟨e1, F', hrep', hrange, hcover⟩ := buildVal_spec v h hw hv' h1 hb
  have horig : Rep h1 hv v F := Rep_congr h h1 v hv F (fun a ha => e1.frame a (hF a ha)) hr
  have hdis : disjoint F F' := fun a ha hb' => by have := hF a ha; have := (hrange a hb').1; omega
  obtain ⟨h2, hc2, c2⟩ := cleanVal_spec v h1 hv' F' (need v) hrep' (Nat.le_refl _)
  obtain ⟨h3, hc3, c3⟩ := cleanVal_spec v h1 hv F (need v) horig (Nat.le_refl _)
  refine ⟨F', hrep', horig, hdis, e1.wf, ⟨h2, hc2, ?_, ?_⟩, ⟨h3, hc3, ?_⟩⟩
  · apply Rep_congr h1 h2 v hv F _ horig
    intro a ha; rw [c2.2 a, if_neg (hdis a ha)]
  · intro a
    rw [c2.2 a]
    by_cases ha : a ∈ F'
    · rw [if_pos ha, hw a (hrange a ha).1]
    · rw [if_neg ha]
      by_cases hlt : a < h.next
      · exact e1.frame a hlt
      · by_cases hge : h1.next ≤ a
        · rw [e1.wf a hge, hw a (by omega)]
        · exact absurd (hcover a (by omega) (by omega)) ha
  · apply Rep_congr h1 h3 v hv' F' _ hrep'
    intro a ha; rw [c3.2 a, if_neg (fun hm => hdis a hm ha)]

/-- **Containers copy what is put into them**: `cif_value_insert_element_at` stores a copy on fresh blocks, so a value
    `src` represented elsewhere in the heap (in particular the object passed in) is still represented afterwards and owns
    nothing in common with the list; the list is represented with the element spliced in; every block outside the list
    is untouched; nothing leaks. -/
theorem C19_put_copies (h : Heap) (hw : h.WF) (hv : HVal) (vs : List V) (F : List Nat) (i : Nat) (x : Option V)
    (hr : Rep h hv (.lst vs) F) (hF : ∀ a, a ∈ F → a < h.next) (hi : i ≤ vs.length)
    (hs : HVal) (src : V) (Fs : List Nat) (hsrc : Rep h hs src Fs) (hFs : ∀ a, a ∈ Fs → a < h.next) (hds : disjoint Fs F) :
    ∃ hv' h' F', listInsertH h hv i x = some (hv', h') ∧ Rep h' hv' (.lst (vs.insertIdx i (x.getD .unk))) F'
      ∧ Rep h' hs src Fs ∧ disjoint Fs F' ∧ h'.WF
      ∧ (∀ a, a ∈ F → a ∉ F' → h'.cell a = none) ∧ (∀ a, h.next ≤ a → a < h'.next → a ∈ F') := by
  obtain ⟨hv', h', F', hop, hrep, hwf, _, hframe, hdrop, hown, hsub⟩ := listInsertH_spec h hv vs F i x hw hr hF hi
  refine ⟨hv', h', F', hop, hrep, ?_, ?_, hwf, hdrop, hown⟩
  · exact Rep_congr h h' src hs Fs (fun a ha => hframe a (hFs a ha) (hds a ha)) hsrc
  · intro a ha hb
    rcases hsub a hb with hh | hh
    · exact hds a ha hh
    · have := hFs a ha; omega

/-- **`cif_value_set_element_at` replaces in place** (heap level): for a new value that is not part of the element
    replaced, the element object is cleaned and rebuilt — the list afterwards represents `vs.set i x`, on the same list
    object and pointer array (so references to the list and to the *other* elements stay valid, and the reference to the
    replaced element still designates the element, now holding the new value), the old components are released, the new
    ones are fresh, nothing outside the list is touched. -/
theorem C19_set_replaces_in_place (h : Heap) (hw : h.WF) (hv : HVal) (vs : List V) (F : List Nat) (i : Nat) (x : Option V)
    (hr : Rep h hv (.lst vs) F) (hF : ∀ a, a ∈ F → a < h.next) (hi : i < vs.length) :
    ∃ h' F', listSetH (need (.lst vs)) h hv i x = some h' ∧ Rep h' hv (.lst (vs.set i (x.getD .unk))) F' ∧ h'.WF
      ∧ (∀ a, a < h.next → a ∉ F → h'.cell a = h.cell a)
      ∧ (∀ a, a ∈ F → a ∉ F' → h'.cell a = none)
      ∧ (∀ a, h.next ≤ a → a < h'.next → a ∈ F') ∧ (∀ a, a ∈ F' → a < h'.next) :=
  listSetH_spec h hw hv vs F i x hr hF hi

/-- the capacity sequence of a list grown by appending: 0, 4, 8, 12, 18, 27, 40 (value.c: `cap + (cap < 10 ? 4 : cap / 2)`,
    the three constants re-extracted from the source on every run) -/
theorem C19_capacity_growth :
    growCap 0 = 4 ∧ growCap 4 = 8 ∧ growCap 8 = 12 ∧ growCap 12 = 18 ∧ growCap 18 = 27 ∧ growCap 27 = 40
    ∧ (∀ c, c < growCap c)
    ∧ Gen.ValueCols.growSmallBelow = 10 ∧ Gen.ValueCols.growSmallBy = 4 ∧ Gen.ValueCols.growDivisor = 2 := by
  refine ⟨rfl, rfl, rfl, rfl, rfl, rfl, ?_, by decide, by decide, by decide⟩
  intro c; unfold growCap; split <;> omega

/-- **Remove transfers ownership**: after `cif_value_remove_element_at(list, i, &x)` the list (with the gap closed) and the
    removed element are both represented, on disjoint blocks that together are exactly the blocks the list owned
    before; nothing was allocated or freed.  When the caller then frees the element and later the list, every block of
    the original list has been freed exactly once.  The same for a map entry handed out by
    `cif_value_remove_item_by_key` / `cif_packet_remove_item` (the value object *is* the entry block). -/
theorem C19_remove_transfers (h : Heap) (hv : HVal) (vs : List V) (F : List Nat) (i : Nat)
    (hr : Rep h hv (.lst vs) F) (hi : i < vs.length) :
    (∃ hv' x h' v hvx Fx F', listRemoveH 0 h hv i true = some (hv', some x, h') ∧ vs[i]? = some v
        ∧ Rep h' hv' (.lst (vs.eraseIdx i)) F' ∧ h'.cell x = some (.val hvx) ∧ Rep h' hvx v Fx ∧ x ∉ Fx
        ∧ disjoint (Fx ++ [x]) F' ∧ (∀ a, a ∈ F ↔ (a ∈ F' ∨ a ∈ Fx ∨ a = x)) ∧ h'.next = h.next
        ∧ (∀ a, a ∉ F → h'.cell a = h.cell a))
    ∧ (∃ hv' x h1 h2 h3 v, listRemoveH 0 h hv i true = some (hv', some x, h1) ∧ vs[i]? = some v
        ∧ freeVal (need v) h1 x = some h2 ∧ cleanVal (need (.lst (vs.eraseIdx i))) h2 hv' = some h3
        ∧ h3.next = h.next ∧ ∀ a, h3.cell a = if a ∈ F then none else h.cell a) :=
  ⟨listRemoveH_toCaller_spec 0 h hv vs F i hr hi, listRemove_then_free_all h hv vs F i hr hi⟩

theorem C19_remove_transfers_entry (h : Heap) (e : Nat) (k ko : Str) (v : V) (F : List Nat) (hr : RepEntry h e k ko v F) :
    ∃ h1 h2, entryDetach h e = some h1 ∧ freeDetached (need v) h1 e = some h2 ∧ h2.next = h.next
      ∧ ∀ a, h2.cell a = if a ∈ F then none else h.cell a :=
  let ⟨h1, h2, a, b, c⟩ := entryDetach_free_spec h e k ko v F hr; ⟨h1, h2, a, b, c.1, c.2⟩

/-- **(Re)initialisers release the previous content** (heap level): `cif_value_clean` — the first step of every
    (re)initialiser — frees exactly the blocks the value owns, each once, and nothing else -/
theorem C19_reinit_releases_heap (h : Heap) (hv : HVal) (v : V) (F : List Nat) (hr : Rep h hv v F) :
    ∃ h', cleanVal (need v) h hv = some h' ∧ h'.next = h.next ∧ ∀ a, h'.cell a = if a ∈ F then none else h.cell a :=
  let ⟨h', a, b⟩ := cleanVal_spec v h hv F (need v) hr (Nat.le_refl _); ⟨h', a, b.1, b.2⟩

/-- **The map-entry protocol is heap-safe** (C16, ownership of `key` / `key_orig`): from any well-formed heap
    (1) `cif_packet_create` builds, per name, an entry represented on fresh blocks — `key_orig` aliasing `key` when the
        name is already normalised;
    (2) recording a new spelling keeps the entry represented and its hash key live, releases only a *separate* old
        original key, touches nothing outside the entry and owns what it allocates;
    (3) a whole table (`cif_value_clean`, `cif_map_clean`) or a detached entry is released block by block, each block
        exactly once, shared key blocks included;
    and the history that broke the pinned tree (F10) — packet from an already-normalised name, set under another spelling,
    lookup, removal, release — runs without touching a dead block and leaves the heap exactly as it was. -/
theorem C16_map_heap_safe (h : Heap) (hw : h.WF) (nk key : Str) :
    (∀ name e h1, packetEntryCreate h nk name = (e, h1) →
        h1.WF ∧ (∀ a, a < h.next → h1.cell a = h.cell a) ∧ ∃ F, RepEntry h1 e nk name .unk F ∧ ∀ a, a ∈ F ↔ (h.next ≤ a ∧ a < h1.next))
    ∧ (∀ e k ko v F, RepEntry h e k ko v F → (∀ a, a ∈ F → a < h.next) →
        ∃ h' F', entryRespell false h e key = some h' ∧ RepEntry h' e k key v F' ∧ h'.WF ∧ entryKey h' e = some k
          ∧ (∀ a, a < h.next → a ∉ F → h'.cell a = h.cell a) ∧ (∀ a, a ∈ F → a ∉ F' → h'.cell a = none)
          ∧ (∀ a, h.next ≤ a → a < h'.next → a ∈ F'))
    ∧ (∀ ents es F, RepEntries h ents es F →
        ∃ h', freeEntries (needEntries es + 1) h ents = some h' ∧ ∀ a, h'.cell a = if a ∈ F then none else h.cell a)
    ∧ (∃ e h1 h2 h3 h4, packetEntryCreate h nk nk = (e, h1) ∧ entryRespell false h1 e key = some h2
        ∧ entryKey h2 e = some nk ∧ entryDetach h2 e = some h3 ∧ freeDetached 1 h3 e = some h4
        ∧ ∀ a, h4.cell a = h.cell a) := by
  refine ⟨?_, ?_, ?_, ?_⟩
  · intro name e h1 hb
    obtain ⟨a, _, c, d⟩ := packetEntryCreate_spec h hw nk name e h1 hb
    exact ⟨a, c, d⟩
  · intro e k ko v F hr hF
    obtain ⟨h', F', a, b, c, d, e', f, g, _, _⟩ := entryRespell_spec h hw e k ko v F key hr hF
    exact ⟨h', F', a, b, c, d, e', f, g⟩
  · intro ents es F hr
    obtain ⟨h', a, b⟩ := freeEntries_spec es h ents F (needEntries es + 1) hr (Nat.le_refl _)
    exact ⟨h', a, b.2⟩
  · generalize hb : packetEntryCreate h nk nk = r
    obtain ⟨e, h1⟩ := r
    obtain ⟨hw1, hle1, hfr1, F, hrep1, hF1⟩ := packetEntryCreate_spec h hw nk nk e h1 hb
    obtain ⟨h2, F', hop2, hrep2, hw2, hkey2, hfr2, hdrop2, hown2, hlt2, hsub2⟩ :=
      entryRespell_spec h1 hw1 e nk nk .unk F key hrep1 (fun a ha => ((hF1 a).mp ha).2)
    obtain ⟨h3, h4, hd, hf, c4⟩ := entryDetach_free_spec h2 e nk key .unk F' hrep2
    refine ⟨e, h1, h2, h3, h4, rfl, hop2, hkey2, hd, by simpa [need] using hf, ?_⟩
    intro a
    rw [c4.2 a]
    by_cases ha : a ∈ F'
    · rw [if_pos ha]
      rcases hsub2 a ha with hh | hh
      · rw [hw a ((hF1 a).mp hh).1]
      · rw [hw a (by omega)]
    · rw [if_neg ha]
      by_cases hlt : a < h.next
      · have hnF : a ∉ F := fun hm => by have := ((hF1 a).mp hm).1; omega
        rw [hfr2 a (by omega) hnF, hfr1 a hlt]
      · by_cases hlt1 : a < h1.next
        · have haF : a ∈ F := (hF1 a).mpr ⟨by omega, hlt1⟩
          rw [hdrop2 a haF ha, hw a (by omega)]
        · by_cases hlt2 : a < h2.next
          · exact absurd (hown2 a (by omega) hlt2) ha
          · rw [hw2 a (by omega), hw a (by omega)]

/-- **`cif_map_set_item` on a whole standalone map** (tables and packets): from a represented entry list the operation
    touches live blocks only, the entries afterwards represent `Model.Value.mapSet es nk key x` (so the heap level refines
    the pure level, whose refinement of the abstract map is `C19_table_is_map`), blocks outside the map are untouched,
    dropped blocks are released, allocated blocks are owned by the map or already released again. -/
theorem C16_map_set_item_heap_safe (h : Heap) (hw : h.WF) (ents : List Nat) (es : List (Str × Str × V)) (F : List Nat)
    (nk key : Str) (x : Option V) (hr : RepEntries h ents es F) (hF : ∀ a, a ∈ F → a < h.next) :
    ∃ ents' h' F', mapSetItemH (needEntries es) h ents nk key x = some (ents', h')
      ∧ RepEntries h' ents' (Model.Value.mapSet es nk key x) F' ∧ h'.WF
      ∧ (∀ a, a < h.next → a ∉ F → h'.cell a = h.cell a)
      ∧ (∀ a, a ∈ F → a ∉ F' → h'.cell a = none)
      ∧ (∀ a, h.next ≤ a → a < h'.next → a ∈ F' ∨ h'.cell a = none)
      ∧ (∀ a, a ∈ F' → a < h'.next) :=
  let ⟨ents', h', F', a1, a2, a3, a4, a5, a6, a7, _, _⟩ := mapSetItemH_spec h hw ents es F nk key x hr hF (needEntries es) (Nat.le_refl _)
  ⟨ents', h', F', a1, a2, a3, a4, a5, a6, a7⟩

/-- **`cif_map_retrieve_item(…, do_remove)` on a whole standalone map**, followed by the caller's `cif_value_free` of the
    value it was handed: exactly the blocks of the removed entry are released (each once), the remaining entries represent
    `Model.Value.mapErase es nk`; an absent key changes nothing. -/
theorem C16_map_remove_item_heap_safe (h : Heap) (hw : h.WF) (ents : List Nat) (es : List (Str × Str × V)) (F : List Nat)
    (nk : Str) (hr : RepEntries h ents es F) (hF : ∀ a, a ∈ F → a < h.next) :
    (Model.Value.mapFind es nk = none ∧ ∃ h', mapRemoveItemH h ents nk = some (none, h') ∧ RepEntries h' ents es F
        ∧ ∀ a, a < h.next → h'.cell a = h.cell a)
    ∨ (∃ e ko v h1 h2 Fe F'', Model.Value.mapFind es nk = some (nk, ko, v)
        ∧ mapRemoveItemH h ents nk = some (some (e, ents.erase e), h1)
        ∧ freeDetached (need v) h1 e = some h2
        ∧ RepEntries h2 (ents.erase e) (Model.Value.mapErase es nk) F''
        ∧ disjoint Fe F'' ∧ (∀ a, a ∈ F ↔ (a ∈ Fe ∨ a ∈ F''))
        ∧ ∀ a, a < h.next → h2.cell a = if a ∈ Fe then none else h.cell a) :=
  mapRemoveItemH_spec h hw ents es F nk hr hF

/-- **`cif_packet_create` over a whole name list, and `cif_packet_free`** (heap level; names with their normalised forms):
    pairwise different data names ⇒ a standalone packet whose entries represent each name under its original spelling with
    the unknown value, built on fresh blocks, the temporary name array released, nothing older touched, every block still
    live being the packet or owned by an entry — and `cif_packet_free` then releases all of it, each block once;
    two names for one item ⇒ CIF_DUP_ITEMNAME with every block allocated on the way released: the heap is unchanged. -/
theorem C16_packet_create_heap_safe (h : Heap) (hw : h.WF) (names : List (Str × Str)) :
    ((names.map (·.2)).Nodup →
      ∃ p ents h' F, packetCreateH h names = some (some (p, ents), h') ∧ h'.cell p = some (.pkt ents true)
        ∧ RepEntries h' ents (names.map (fun n => (n.2, n.1, V.unk))) F ∧ h'.WF
        ∧ (∀ a, a < h.next → h'.cell a = h.cell a) ∧ p ∉ F
        ∧ (∀ a, a ∈ F → h.next ≤ a ∧ a < h'.next)
        ∧ (∀ a, h.next ≤ a → (h'.cell a).isSome = true → a = p ∨ a ∈ F)
        ∧ ∃ h'', packetFreeH (needEntries (names.map (fun n => (n.2, n.1, V.unk))) + 1) h' p = some h''
            ∧ ∀ a, h''.cell a = h.cell a)
    ∧ (¬ (names.map (·.2)).Nodup →
      ∃ h', packetCreateH h names = some (none, h') ∧ ∀ a, h'.cell a = h.cell a) := by
  obtain ⟨hgood, hdup⟩ := packetCreateH_spec h hw names
  refine ⟨?_, hdup⟩
  intro hnd
  obtain ⟨p, ents, h', F, hop, hp, hrep, hw', hfr, hpF, hpge, hrange, hlive⟩ := hgood hnd
  obtain ⟨h'', hfree, c⟩ := packetFreeH_spec h' p ents true _ F hp hrep hpF
  refine ⟨p, ents, h', F, hop, hp, hrep, hw', hfr, hpF, hrange, hlive, h'', hfree, ?_⟩
  intro a
  rw [c.2 a]
  by_cases hin : a ∈ F ++ [p]
  · rw [if_pos hin]
    have hge : h.next ≤ a := by
      rcases List.mem_append.mp hin with hm | hm
      · exact (hrange a hm).1
      · simp only [List.mem_singleton] at hm; omega
    rw [hw a hge]
  · rw [if_neg hin]
    simp only [List.mem_append, List.mem_singleton, not_or] at hin
    by_cases hlt : a < h.next
    · exact hfr a hlt
    · rw [hw a (by omega)]
      cases hc : h'.cell a with
      | none => rfl
      | some c' =>
        exfalso
        rcases hlive a (by omega) (by rw [hc]; rfl) with h1' | h1'
        · exact hin.2 h1'
        · exact hin.1 h1'

/-- **`cif_value_get_keys` / `cif_packet_get_names`** (heap level): the array handed out holds pointers to the entries'
    ORIGINAL keys — borrowed: each is a block the map owns, holding the spelling `Model.Value.mapKeys` reports, in
    enumeration order —; the map is untouched, and releasing the array (the caller's only duty) restores the heap. -/
theorem C16_get_keys_heap_safe (h : Heap) (ents : List Nat) (es : List (Str × Str × V)) (F : List Nat)
    (hr : RepEntries h ents es F) :
    ∃ kos, getKeysH h ents = some (h.next, kos, (alloc h (.arr kos (kos.length + 1))).2)
      ∧ kos.map (fun ko => h.cell ko) = (Model.Value.mapKeys es).map (fun s => some (.str s))
      ∧ (∀ ko, ko ∈ kos → ko ∈ F)
      ∧ ∃ h'', free (alloc h (.arr kos (kos.length + 1))).2 h.next = some h'' ∧ h''.next = h.next + 1
          ∧ ∀ a, h''.cell a = if a = h.next then none else h.cell a :=
  getKeysH_spec h ents es F hr

/-- **Clone onto an existing object, heap level, aliasing cases included** (repaired order f1b092b): any representation of
    the source — inside the target, around it, or elsewhere — is still intact when the copy is taken; afterwards the
    target object (same address, so references to it stay valid) represents the source's value on fresh blocks, every
    block it owned before has been released exactly once, the scratch object is gone, nothing else changed. -/
theorem C19_clone_onto_heap (h : Heap) (hw : h.WF) (t : Nat) (old : HVal) (vOld : V) (F : List Nat) (x : V)
    (ht : h.cell t = some (.val old)) (hr : Rep h old vOld F) (hF : ∀ a, a ∈ F → a < h.next) (htlt : t < h.next)
    (htF : t ∉ F) (hs : HVal) (Fs : List Nat) (hsrc : Rep h hs x Fs) (hFs : ∀ a, a ∈ Fs → a < h.next) :
    Rep (buildNew h x).2 hs x Fs
    ∧ ∃ h' new F', cloneOntoH (need vOld) h t x = some h' ∧ h'.cell t = some (.val new) ∧ Rep h' new x F' ∧ h'.WF
      ∧ (∀ a, a ∈ F' → h.next ≤ a ∧ a < h'.next)
      ∧ (∀ a, a < h.next → a ≠ t → h'.cell a = if a ∈ F then none else h.cell a)
      ∧ (∀ a, h.next ≤ a → a < h'.next → a ∈ F' ∨ h'.cell a = none) :=
  cloneOntoH_spec h hw t old vOld F x ht hr hF htlt htF hs Fs hsrc hFs

/-- **(Re)initialisers at heap level** (`cif_value_init`, `init_char`, `copy_char`, `parse_numb` on an existing object): the
    object stays where it is, the blocks it owned are released exactly once, the new content is built on fresh blocks,
    nothing else is touched -/
theorem C19_reinit_heap (h : Heap) (hw : h.WF) (t : Nat) (old : HVal) (vOld : V) (F : List Nat) (x : V)
    (ht : h.cell t = some (.val old)) (hr : Rep h old vOld F) (hF : ∀ a, a ∈ F → a < h.next) (htlt : t < h.next) (htF : t ∉ F) :
    ∃ h' new F', reinitH (need vOld) h t x = some h' ∧ h'.cell t = some (.val new) ∧ Rep h' new x F' ∧ h'.WF
      ∧ (∀ a, a ∈ F' ↔ (h.next ≤ a ∧ a < h'.next))
      ∧ (∀ a, a < h.next → a ≠ t → h'.cell a = if a ∈ F then none else h.cell a) :=
  reinitH_spec h hw t old vOld F x ht hr hF htlt htF

/-- F10 (repaired by 50deb6e): on the pinned tree recording a new spelling released the old original key even when
    it *was* the hash key — after `cif_packet_create({"_a"})` and `cif_packet_set_item("_A", …)` the next lookup reads a
    freed block (`none`); the repaired code reads the key. -/
theorem C16_cex_F10_pinned :
    (match packetEntryCreate Heap.empty (a!"_a") (a!"_a") with
     | (e, h1) => (entryRespell true h1 e (a!"_A")).bind (fun h2 => entryKey h2 e)) = none
    ∧ (match packetEntryCreate Heap.empty (a!"_a") (a!"_a") with
       | (e, h1) => (entryRespell false h1 e (a!"_A")).bind (fun h2 => entryKey h2 e)) = some (a!"_a") := by
  constructor <;> rfl

/-! ### the clone reads its source; containers read the caller's object (Model/HeapClone) -/

/-- **C19_clone_reads_source** — `cloneH` follows the pointers of the source object (text, digit strings, element array and
    every element object, every entry with both keys and its inline value) and copies block by block; it is NOT given the
    value.  On any represented source, of any depth: it touches live blocks only (`some`), the structure it yields
    represents the SAME pure value (kind, text, quoted flag, sign, digits, su digits, scale, element order, keys in both
    spellings — everything `V` records), on blocks that did not exist before (disjoint from the source), the source and
    every other block are unchanged, and releasing the clone restores the heap cell for cell. -/
theorem C19_clone_reads_source (h : Heap) (hw : h.WF) (hv : HVal) (v : V) (F : List Nat) (hr : Rep h hv v F)
    (hF : ∀ a, a ∈ F → a < h.next) (fuel : Nat) (hf : need v ≤ fuel) :
    ∃ hv' h1 F', cloneH fuel h hv = some (hv', h1) ∧ Rep h1 hv' v F' ∧ Rep h1 hv v F ∧ disjoint F F' ∧ h1.WF
      ∧ (∀ a, a < h.next → h1.cell a = h.cell a)
      ∧ (∀ a, a ∈ F' → h.next ≤ a ∧ a < h1.next)
      ∧ (∃ h2, cleanVal (need v) h1 hv' = some h2 ∧ Rep h2 hv v F ∧ ∀ a, h2.cell a = h.cell a)
      ∧ (∃ h2, cleanVal (need v) h1 hv = some h2 ∧ Rep h2 hv' v F') := by
  have hc := cloneH_build v h hw hv F fuel hr hF hf
  generalize hb : buildVal h v = r at hc
  obtain ⟨hv', h1⟩ := r
  obtain ⟨e1, F', hrep', hrange, hcover⟩ := buildVal_spec v h hw hv' h1 hb
  have horig : Rep h1 hv v F := Rep_congr h h1 v hv F (fun a ha => e1.frame a (hF a ha)) hr
  have hdis : disjoint F F' := fun a ha hb' => by have := hF a ha; have := (hrange a hb').1; omega
  obtain ⟨h2, hc2, c2⟩ := cleanVal_spec v h1 hv' F' (need v) hrep' (Nat.le_refl _)
  obtain ⟨h3, hc3, c3⟩ := cleanVal_spec v h1 hv F (need v) horig (Nat.le_refl _)
  refine ⟨hv', h1, F', hc, hrep', horig, hdis, e1.wf, e1.frame, hrange, ⟨h2, hc2, ?_, ?_⟩, ⟨h3, hc3, ?_⟩⟩
  · apply Rep_congr h1 h2 v hv F _ horig
    intro a ha; rw [c2.2 a, if_neg (hdis a ha)]
  · intro a
    rw [c2.2 a]
    by_cases ha : a ∈ F'
    · rw [if_pos ha, hw a (hrange a ha).1]
    · rw [if_neg ha]
      by_cases hlt : a < h.next
      · exact e1.frame a hlt
      · by_cases hge : h1.next ≤ a
        · rw [e1.wf a hge, hw a (by omega)]
        · exact absurd (hcover a (by omega) (by omega)) ha
  · apply Rep_congr h1 h3 v hv' F' _ hrep'
    intro a ha; rw [c3.2 a, if_neg (fun hm => hdis a hm ha)]

/-- **C19_put_copies_addr — containers copy what is put into them, with the caller's object given by ADDRESS**:
    `cif_value_insert_element_at(list, i, src)` reads the object at `src` (a free-standing object or a member of some
    container; NULL = the unknown value), stores a copy on fresh blocks; afterwards the list represents the old list with
    the value `src` represents spliced in at `i`, the caller's object is still represented on its own blocks, which are
    disjoint from the list's, nothing outside the list changed, nothing leaks. -/
theorem C19_put_copies_addr (h : Heap) (hw : h.WF) (hv : HVal) (vs : List V) (F : List Nat) (i : Nat)
    (hr : Rep h hv (.lst vs) F) (hF : ∀ a, a ∈ F → a < h.next) (hi : i ≤ vs.length)
    (s : Nat) (hs : HVal) (src : V) (Fs : List Nat) (hsrc : fieldsAt h s = some hs) (hrs : Rep h hs src Fs)
    (hFs : ∀ a, a ∈ Fs → a < h.next) (hds : disjoint Fs F) (fuel : Nat) (hfuel : need src ≤ fuel) :
    ∃ hv' h' F', listInsertAddrH fuel h hv i (some s) = some (hv', h') ∧ Rep h' hv' (.lst (vs.insertIdx i src)) F'
      ∧ Rep h' hs src Fs ∧ disjoint Fs F' ∧ h'.WF
      ∧ (∀ a, a ∈ F → a ∉ F' → h'.cell a = none) ∧ (∀ a, h.next ≤ a → a < h'.next → a ∈ F') := by
  have heq := listInsertAddrH_eq h hw hv i (some s) (some src) fuel ⟨hs, Fs, hsrc, hrs, hFs, hfuel⟩
  rw [heq]
  exact C19_put_copies h hw hv vs F i (some src) hr hF hi hs src Fs hrs hFs hds

/-- … the same for `cif_value_set_element_at(list, i, src)` with an object outside the list: the element object stays
    where it is (references to it and to the list stay valid), now holding a copy of what `src` represents -/
theorem C19_set_element_addr (h : Heap) (hw : h.WF) (hv : HVal) (vs : List V) (F : List Nat) (i : Nat)
    (hr : Rep h hv (.lst vs) F) (hF : ∀ a, a ∈ F → a < h.next) (hi : i < vs.length)
    (s : Nat) (hs : HVal) (src : V) (Fs : List Nat) (hsrc : fieldsAt h s = some hs) (hrs : Rep h hs src Fs)
    (hFs : ∀ a, a ∈ Fs → a < h.next) (hsF : s ∉ F) (hds : ∀ a, a ∈ Fs → a ∉ F) (fuel : Nat) (hfuel : need src ≤ fuel) :
    ∃ h' F', listSetAddrH fuel (need (.lst vs)) h hv i (some s) = some h' ∧ Rep h' hv (.lst (vs.set i src)) F' ∧ h'.WF
      ∧ Rep h' hs src Fs
      ∧ (∀ a, a < h.next → a ∉ F → h'.cell a = h.cell a)
      ∧ (∀ a, a ∈ F → a ∉ F' → h'.cell a = none)
      ∧ (∀ a, h.next ≤ a → a < h'.next → a ∈ F') := by
  have heq := listSetAddrH_eq h hw hv vs F i (some s) (some src) hr hF hi fuel ⟨hs, Fs, hsrc, hrs, hFs, hfuel, hsF, hds⟩
  rw [heq]
  obtain ⟨h', F', hop, hrep, hwf, hframe, hdrop, hown, _⟩ := C19_set_replaces_in_place h hw hv vs F i (some src) hr hF hi
  exact ⟨h', F', hop, hrep, hwf, Rep_congr h h' src hs Fs (fun a ha => hframe a (hFs a ha) (hds a ha)) hrs, hframe, hdrop, hown⟩

/-- **`cif_map_set_item(map, key, src)` with the caller's object given by address** (tables: cif_value_set_item_by_key;
    packets: cif_packet_set_item), `src` an object outside the map or NULL: the map afterwards represents
    `mapSet es nk key (the value src represents)` — new key: appended entry with its own copies of both key strings; existing
    key: same entry, new spelling, value replaced by a copy —, the caller's object is untouched and shares nothing with
    the map, blocks outside the map are untouched, dropped blocks are released. -/
theorem C19_map_set_item_addr (h : Heap) (hw : h.WF) (ents : List Nat) (es : List (Str × Str × V)) (F : List Nat)
    (nk key : Str) (hr : RepEntries h ents es F) (hF : ∀ a, a ∈ F → a < h.next)
    (s : Nat) (hs : HVal) (src : V) (Fs : List Nat) (hsrc : fieldsAt h s = some hs) (hrs : Rep h hs src Fs)
    (hFs : ∀ a, a ∈ Fs → a < h.next) (hsF : s ∉ F) (hds : ∀ a, a ∈ Fs → a ∉ F) (fuel : Nat) (hfuel : need src ≤ fuel) :
    ∃ ents' h' F', mapSetItemAddrH fuel (needEntries es) h ents nk key (some s) = some (ents', h')
      ∧ RepEntries h' ents' (Model.Value.mapSet es nk key (some src)) F' ∧ h'.WF
      ∧ Rep h' hs src Fs
      ∧ (∀ a, a < h.next → a ∉ F → h'.cell a = h.cell a)
      ∧ (∀ a, a ∈ F → a ∉ F' → h'.cell a = none)
      ∧ (∀ a, h.next ≤ a → a < h'.next → a ∈ F' ∨ h'.cell a = none) := by
  have heq := mapSetItemAddrH_eq h hw ents es F nk key (some s) (some src) hr hF fuel (needEntries es) (Nat.le_refl _)
    ⟨hs, Fs, hsrc, hrs, hFs, hfuel, hsF, hds⟩
  rw [heq]
  obtain ⟨ents', h', F', hop, hrep, hwf, hframe, hdrop, hown, _⟩ := C16_map_set_item_heap_safe h hw ents es F nk key (some src) hr hF
  exact ⟨ents', h', F', hop, hrep, hwf, Rep_congr h h' src hs Fs (fun a ha => hframe a (hFs a ha) (hds a ha)) hrs, hframe, hdrop, hown⟩

/-- **`cif_value_clone(src, &dst)` onto an existing object, source given by address, aliasing cases included**: wherever
    the source lies — elsewhere, inside the target, around it, or the target itself (`src = t` is allowed: `hsrc`/`hrs` then
    describe the target) — it is read while intact (scratch copy first, order of f1b092b); the target object keeps its
    address and afterwards represents the value the source represented before the call, on fresh blocks; what it owned is
    released exactly once; the scratch object is gone. -/
theorem C19_clone_onto_addr (h : Heap) (hw : h.WF) (t : Nat) (old : HVal) (vOld : V) (F : List Nat)
    (ht : h.cell t = some (.val old)) (hr : Rep h old vOld F) (hF : ∀ a, a ∈ F → a < h.next) (htlt : t < h.next) (htF : t ∉ F)
    (s : Nat) (hs : HVal) (x : V) (Fs : List Nat) (hsrc : fieldsAt h s = some hs) (hrs : Rep h hs x Fs)
    (hFs : ∀ a, a ∈ Fs → a < h.next) (fuel : Nat) (hfuel : need x ≤ fuel) :
    ∃ h' new F', cloneOntoAddrH fuel (need vOld) h t s = some h' ∧ h'.cell t = some (.val new) ∧ Rep h' new x F' ∧ h'.WF
      ∧ (∀ a, a ∈ F' → h.next ≤ a ∧ a < h'.next)
      ∧ (∀ a, a < h.next → a ≠ t → h'.cell a = if a ∈ F then none else h.cell a)
      ∧ (∀ a, h.next ≤ a → a < h'.next → a ∈ F' ∨ h'.cell a = none) := by
  rw [cloneOntoAddrH_eq h hw t s hs x Fs fuel (need vOld) hsrc hrs hFs hfuel]
  exact (C19_clone_onto_heap h hw t old vOld F x ht hr hF htlt htF hs Fs hrs hFs).2

/-- **C19_members_by_reference — containers expose their members by reference**: `cif_value_get_element_at` returns the
    address of the element object itself and `cif_value_get_item_by_key` / `cif_packet_get_item` the address of the entry
    whose first member is the value: blocks of the container's own footprint, no copy, the heap is not touched.  A
    modification made through such a pointer is a modification of the container: re-initialising the element designated is
    the same heap transformation as `cif_value_set_element_at`, and assigning through an entry's value pointer leaves the map
    representing the association list with that value replaced (same key, spelling, position). -/
theorem C19_members_by_reference (h : Heap) (hw : h.WF) :
    (∀ (hv : HVal) (vs : List V) (F : List Nat) (i : Nat), Rep h hv (.lst vs) F → (∀ a, a ∈ F → a < h.next) → i < vs.length →
      ∃ t v hvt Ft, listGetH h hv i = some t ∧ vs[i]? = some v ∧ h.cell t = some (.val hvt) ∧ Rep h hvt v Ft
        ∧ t ∈ F ∧ (∀ a, a ∈ Ft → a ∈ F)
        ∧ ∀ x : V, reinitH (need (.lst vs)) h t x = listSetH (need (.lst vs)) h hv i (some x)
            ∧ ∃ h' F', reinitH (need (.lst vs)) h t x = some h' ∧ Rep h' hv (.lst (vs.set i x)) F' ∧ h'.WF
                ∧ (∀ a, a < h.next → a ∉ F → h'.cell a = h.cell a))
    ∧ (∀ (ents : List Nat) (es : List (Str × Str × V)) (F : List Nat) (nk : Str), RepEntries h ents es F →
        (∀ a, a ∈ F → a < h.next) →
        (Model.Value.mapFind es nk = none ∧ tableGetH h ents nk = some none)
        ∨ ∃ e ko v Fe, Model.Value.mapFind es nk = some (nk, ko, v) ∧ tableGetH h ents nk = some (some e)
            ∧ RepEntry h e nk ko v Fe ∧ (∀ a, a ∈ Fe → a ∈ F)
            ∧ ∀ x : V, ∃ h' F', entrySetValue (needEntries es) h e (some x) = some h'
                ∧ RepEntries h' ents (Model.Value.mapReplace es nk ko x) F' ∧ h'.WF
                ∧ (∀ a, a < h.next → a ∉ F → h'.cell a = h.cell a)) :=
  ⟨fun hv vs F i hr hF hi => listGetH_by_reference h hw hv vs F i hr hF hi,
   fun ents es F nk hr hF => tableGetH_by_reference h hw ents es F nk hr hF (needEntries es) (Nat.le_refl _)⟩

/-- **C19_reinit_releases — (re)initialisers release the previous content** (heap level): `cif_value_clean`, and with it
    every re-initialiser (`cif_value_init`, `init_char`, `copy_char`, `parse_numb`, `init_numb`, `autoinit_numb` on an
    existing object), frees exactly the blocks the old value owned — every cell of its footprint is dead afterwards, and
    since `free` of a dead block makes the model operation fail (`none`), success means each was freed exactly once —,
    touches no other block that existed, and the object itself stays at its address holding the new content on fresh
    blocks. -/
theorem C19_reinit_releases (h : Heap) (hw : h.WF) (t : Nat) (old : HVal) (vOld : V) (F : List Nat) (x : V)
    (ht : h.cell t = some (.val old)) (hr : Rep h old vOld F) (hF : ∀ a, a ∈ F → a < h.next) (htlt : t < h.next) (htF : t ∉ F) :
    (∃ h', cleanVal (need vOld) h old = some h' ∧ h'.next = h.next ∧ ∀ a, h'.cell a = if a ∈ F then none else h.cell a)
    ∧ ∃ h' new F', reinitH (need vOld) h t x = some h' ∧ h'.cell t = some (.val new) ∧ Rep h' new x F' ∧ h'.WF
        ∧ (∀ a, a ∈ F → h'.cell a = none)
        ∧ (∀ a, a ∈ F' ↔ (h.next ≤ a ∧ a < h'.next))
        ∧ (∀ a, a < h.next → a ≠ t → a ∉ F → h'.cell a = h.cell a) := by
  refine ⟨C19_reinit_releases_heap h old vOld F hr, ?_⟩
  obtain ⟨h', new, F', hop, hcell, hrep, hwf, hfresh, hcells⟩ := C19_reinit_heap h hw t old vOld F x ht hr hF htlt htF
  refine ⟨h', new, F', hop, hcell, hrep, hwf, ?_, hfresh, ?_⟩
  · intro a ha
    have hne : a ≠ t := fun e => htF (e ▸ ha)
    rw [hcells a (hF a ha) hne, if_pos ha]
  · intro a ha hne hnF
    rw [hcells a ha hne, if_neg hnF]

end HeapLevel

-- non-vacuity of the heap-level hypotheses: a nested value built on the empty heap is represented
example : Model.Heap.Heap.empty.WF := fun _ _ => rfl
example : ∃ F, Model.Heap.Rep (Model.Heap.buildVal Model.Heap.Heap.empty (.lst [.chr true (a!"x"), .tbl [((a!"k"), (a!"K"), .na)]])).2
    (Model.Heap.buildVal Model.Heap.Heap.empty (.lst [.chr true (a!"x"), .tbl [((a!"k"), (a!"K"), .na)]])).1
    (.lst [.chr true (a!"x"), .tbl [((a!"k"), (a!"K"), .na)]]) F :=
  let ⟨_, F, h, _⟩ := Model.Heap.buildVal_spec _ Model.Heap.Heap.empty (fun _ _ => rfl) _ _ rfl; ⟨F, h⟩

/-! ### non-vacuity -/
example : nodupKeys [((a!"k"), (a!"K"), .unk), ((a!"l"), (a!"l"), .na)] = true := by decide
example : listInsert (.lst [.unk, .na]) 2 (some (.chr true [])) = .ok (.lst [.unk, .na, .chr true []]) := rfl
example : listInsert (.lst [.unk, .na]) 3 none = .error INVALID_INDEX := rfl
example : distinctNorm (fun s => some s) [(a!"_a"), (a!"_b")] = true := by decide
example : ∀ vs, V.chr true [] ≠ .lst vs := by intro vs h; cases h

end CifModel
