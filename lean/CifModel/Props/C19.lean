import CifModel.Model.Value
/- Property C19 — placeholder while the families are brought up; theorems follow. -/
namespace CifModel
end CifModel
