import CifModel.Lemmas.Value
/-
  Property C19 — value objects are independent deep values; lists and tables keep their contracts.

  Pure level (this part): Model/Value against Spec/ValueSpec.  Heap level (ownership, disjointness of clones, exactly-once
  release): second part of this file, over Model/Heap.
-/
namespace CifModel
open Model.Value Spec.ValueSpec

/-- **A list is a sequence**: insert shifts later elements (`List.insertIdx`), set replaces in place (`List.set`), remove
    closes the gap and hands out the removed element (`List.eraseIdx`, `l[i]`), get reads `l[i]`; CIF_INVALID_INDEX
    exactly when `i > size` (insert) resp. `i ≥ size` (set, remove, get); a NULL element stands for the unknown value. -/
theorem C19_list_is_sequence (vs : List V) (i : Nat) (x : Option V) :
    listInsert (.lst vs) i x = (match seqInsert vs i (x.getD .unk) with
        | .ok l => .ok (.lst l) | .invalidIndex => .error INVALID_INDEX)
    ∧ listSet (.lst vs) i x = (match seqSet vs i (x.getD .unk) with
        | .ok l => .ok (.lst l) | .invalidIndex => .error INVALID_INDEX)
    ∧ listRemove (.lst vs) i = (match seqRemove vs i with
        | .ok (l, r) => .ok (.lst l, r) | .invalidIndex => .error INVALID_INDEX)
    ∧ listGet (.lst vs) i = (match seqGet vs i with
        | .ok r => .ok r | .invalidIndex => .error INVALID_INDEX)
    ∧ elementCount (.lst vs) = .ok vs.length := by
  refine ⟨?_, ?_, ?_, ?_, rfl⟩
  · unfold listInsert seqInsert
    by_cases h : i ≤ vs.length
    · have : ¬ i > vs.length := by omega
      simp [h, this, insertAt_eq _ _ _ h]
    · have : i > vs.length := by omega
      simp [h, this]
  · unfold listSet seqSet
    by_cases h : i < vs.length
    · have : ¬ i ≥ vs.length := by omega
      simp [h, this, setAt_eq]
    · have : i ≥ vs.length := by omega
      simp [h, this]
  · simp only [listRemove, seqRemove, getAt_eq, removeAt_eq]
    by_cases h : i < vs.length
    · have : ¬ i ≥ vs.length := by omega
      simp [this, List.getElem?_eq_getElem h]
    · have h' : i ≥ vs.length := by omega
      simp [h']
  · simp only [listGet, seqGet, getAt_eq]
    by_cases h : i < vs.length
    · have : ¬ i ≥ vs.length := by omega
      simp [this, List.getElem?_eq_getElem h]
    · have h' : i ≥ vs.length := by omega
      simp [h']

/-- **A table is a map** keyed by the normalised key: after `set` the key maps to the value entered (NULL = unknown
    value) under the spelling just used, every other key is unaffected, a new key is appended to the enumeration order
    and an existing one keeps its place; after `remove` the key is absent and the rest unaffected; `get` is lookup;
    `get_keys` enumerates in order of first entry with the most recent spelling; the no-duplicate invariant is kept. -/
theorem C19_table_is_map (norm : Str → Option Str) (es : List Entry) (hn : nodupKeys es = true)
    (key nk : Str) (hk : norm key = some nk) (x : Option V) :
    (∃ es', tableSet norm (.tbl es) key x = .ok (.tbl es') ∧ absMap es' = (absMap es).set nk key (x.getD .unk)
        ∧ nodupKeys es' = true)
    ∧ tableGet norm (.tbl es) key = (match (absMap es).lookup nk with | some v => .ok v | none => .error NOSUCH_ITEM)
    ∧ tableRemove norm (.tbl es) key = (match (absMap es).lookup nk with
        | some v => .ok (.tbl (mapErase es nk), v) | none => .error NOSUCH_ITEM)
    ∧ absMap (mapErase es nk) = (absMap es).erase nk ∧ nodupKeys (mapErase es nk) = true
    ∧ tableKeys (.tbl es) = .ok (absMap es).keys := by
  refine ⟨⟨mapSet es nk key x, by simp [tableSet, hk], abs_mapSet es nk key x, nodup_mapSet es nk key x hn⟩, ?_, ?_,
    abs_mapErase es nk hn, nodup_mapErase es nk hn, by simp [tableKeys, mapKeys_abs es hn]⟩
  · simp only [tableGet, hk, AMap.lookup, absMap]
    cases mapFind es nk <;> rfl
  · simp only [tableRemove, hk, AMap.lookup, absMap]
    cases mapFind es nk <;> rfl

/-- a key the normaliser rejects: set reports CIF_INVALID_INDEX, get and remove report CIF_NOSUCH_ITEM; nothing changes -/
theorem C19_table_invalid_key (norm : Str → Option Str) (es : List Entry) (key : Str) (hk : norm key = none) (x : Option V) :
    tableSet norm (.tbl es) key x = .error INVALID_INDEX ∧ tableGet norm (.tbl es) key = .error NOSUCH_ITEM
    ∧ tableRemove norm (.tbl es) key = .error NOSUCH_ITEM := by
  simp [tableSet, tableGet, tableRemove, hk]

/-- **Histories**: after any sequence of set / remove operations starting from the empty table, the association list of
    the model is the abstract map obtained by replaying the same history (so every lookup and the key enumeration agree). -/
theorem C19_table_history (ops : List MapOp) :
    absMap (runMap [] ops) = AMap.empty.run ops ∧ nodupKeys (runMap [] ops) = true
    ∧ mapKeys (runMap [] ops) = (AMap.empty.run ops).keys := by
  have h := runMap_refines ops [] rfl
  refine ⟨h.1, h.2, ?_⟩
  rw [mapKeys_abs _ h.2, h.1]
  rfl

/-- **Packets obey the same map contract** with data-name matching (`norm` = cif_normalize_item_name): the operations are
    the table operations on the packet's entries, with CIF_INVALID_ITEMNAME for a rejected name on set. -/
theorem C19_packet_is_map (norm : Str → Option Str) (p : Packet) (name : Str) (x : Option V) :
    packetSet norm p name x = (match norm name with | some nk => .ok (mapSet p nk name x) | none => .error INVALID_ITEMNAME)
    ∧ packetGet norm p name = (match tableGet norm (.tbl p) name with | .ok v => .ok v | .error c => .error c)
    ∧ packetRemove norm p name = (match tableRemove norm (.tbl p) name with
        | .ok (.tbl p', v) => .ok (p', v) | .ok (_, _) => .error NOSUCH_ITEM | .error c => .error c)
    ∧ packetNames p = mapKeys p := by
  refine ⟨?_, ?_, ?_, rfl⟩
  · unfold packetSet; cases norm name <;> rfl
  · cases h1 : norm name with
    | none => simp [packetGet, tableGet, h1]
    | some nk => cases h2 : mapFind p nk <;> simp [packetGet, tableGet, h1, h2]
  · cases h1 : norm name with
    | none => simp [packetRemove, tableRemove, h1]
    | some nk => cases h2 : mapFind p nk <;> simp [packetRemove, tableRemove, h1, h2]

/-- names that normalise to distinct data names: `cif_packet_create` yields a packet holding the unknown value under each
    name in the order given, with no duplicate key -/
def distinctNorm (norm : Str → Option Str) : List Str → Bool
  | [] => true
  | n :: ns => ns.all (fun m => norm m != norm n) && distinctNorm norm ns

theorem C19_packet_create (norm : Str → Option Str) (names : List Str) (hv : ∀ n ∈ names, (norm n).isSome)
    (hd : distinctNorm norm names = true) :
    ∃ p, packetCreate norm names = .ok p ∧ nodupKeys p = true ∧ packetNames p = names
      ∧ ∀ n ∈ names, packetGet norm p n = .ok .unk := by
  induction names with
  | nil => exact ⟨[], rfl, rfl, rfl, fun n h => by cases h⟩
  | cons n ns ih =>
    simp only [distinctNorm, Bool.and_eq_true, List.all_eq_true, bne_iff_ne, ne_eq] at hd
    obtain ⟨p, hp, hnd, hnames, hget⟩ := ih (fun m hm => hv m (by simp [hm])) hd.2
    have hn := hv n (by simp)
    obtain ⟨nk, hnk⟩ := Option.isSome_iff_exists.mp hn
    have hfresh : mapFind p nk = none := by
      cases hf : mapFind p nk with
      | none => rfl
      | some e =>
        exfalso
        -- an entry with key nk in p comes from some name m ∈ ns with norm m = some nk
        have hmem : ∀ (q : Packet) (ms : List Str), packetCreate norm ms = .ok q → mapFind q nk = some e →
            ∃ m ∈ ms, norm m = some nk := by
          intro q ms
          induction ms generalizing q with
          | nil => intro h1 h2; simp [packetCreate] at h1; subst h1; simp [mapFind] at h2
          | cons m ms ihm =>
            intro h1 h2
            simp only [packetCreate] at h1
            cases hm : norm m with
            | none => simp [hm] at h1
            | some mk =>
              simp only [hm] at h1
              cases hq : packetCreate norm ms with
              | error c => simp [hq] at h1
              | ok q' =>
                simp only [hq] at h1
                injection h1 with h1
                subst h1
                simp only [mapFind] at h2
                by_cases hmk : mk = nk
                · exact ⟨m, by simp, by rw [hm, hmk]⟩
                · simp only [hmk, if_false] at h2
                  obtain ⟨m', hm', hn'⟩ := ihm q' hq h2
                  exact ⟨m', by simp [hm'], hn'⟩
        obtain ⟨m, hm, hmn⟩ := hmem p ns hp hf
        exact hd.1 m hm (by rw [hmn, hnk])
    refine ⟨(nk, n, .unk) :: p, by simp [packetCreate, hnk, hp], ?_, ?_, ?_⟩
    · simp [nodupKeys, hfresh, hnd]
    · simp only [packetNames, mapKeys, List.map_cons] at hnames ⊢
      rw [hnames]
    · intro m hm
      rcases List.mem_cons.mp hm with rfl | hm'
      · simp [packetGet, hnk, mapFind]
      · have := hget m hm'
        obtain ⟨mk, hmk⟩ := Option.isSome_iff_exists.mp (hv m (by simp [hm']))
        have hne : ¬ nk = mk := by
          intro h
          exact hd.1 m hm' (by rw [hmk, hnk, h])
        simp only [packetGet, hmk, mapFind, hne, if_false] at this ⊢
        exact this

/-- F33 (open): given two names for one item, `cif_packet_create` as written builds a packet with a duplicate key -/
theorem C19_cex_packet_create_dup :
    ∃ p, packetCreate (fun _ => some (a!"_a")) [(a!"_a"), (a!"_A")] = .ok p ∧ nodupKeys p = false := ⟨_, rfl, by decide⟩

/-- **Wrong kind**: every list operation on a value that is not a list, every table operation on a value that is not a
    table, and the element count of a scalar, return CIF_ARGUMENT_ERROR (and change nothing) -/
theorem C19_wrong_kind (norm : Str → Option Str) (v : V) (i : Nat) (key : Str) (x : Option V) :
    ((∀ vs, v ≠ .lst vs) →
        listGet v i = .error ARGUMENT_ERROR ∧ listSet v i x = .error ARGUMENT_ERROR
        ∧ listInsert v i x = .error ARGUMENT_ERROR ∧ listRemove v i = .error ARGUMENT_ERROR)
    ∧ ((∀ es, v ≠ .tbl es) →
        tableGet norm v key = .error ARGUMENT_ERROR ∧ tableSet norm v key x = .error ARGUMENT_ERROR
        ∧ tableRemove norm v key = .error ARGUMENT_ERROR ∧ tableKeys v = .error ARGUMENT_ERROR)
    ∧ ((∀ vs, v ≠ .lst vs) → (∀ es, v ≠ .tbl es) → elementCount v = .error ARGUMENT_ERROR) := by
  refine ⟨?_, ?_, ?_⟩
  · intro h; cases v <;> first | (exact absurd rfl (h _)) | simp [listGet, listSet, listInsert, listRemove]
  · intro h; cases v <;> first | (exact absurd rfl (h _)) | simp [tableGet, tableSet, tableRemove, tableKeys]
  · intro h1 h2; cases v <;> first | (exact absurd rfl (h1 _)) | (exact absurd rfl (h2 _)) | simp [elementCount]

/-- **Clone is equal**: kind, text, quoting, numeric attributes and the full recursive structure -/
theorem C19_clone_equal (v : V) : clone v = v ∧ (clone v == v) = true ∧ kind (clone v) = kind v :=
  ⟨rfl, beq_refl v, rfl⟩

/-- **(Re)initialisers release the previous content** (pure level: nothing of it remains observable): the result of
    `cif_value_init`, `cif_value_init_char` / `copy_char` and `cif_value_clean` does not depend on what the object held,
    and a cleaned object has no members. -/
theorem C19_reinit_releases (v w : V) (kind : Nat) (t : Str) (s : Step) (p : List Step) :
    init v kind = init w kind ∧ initChar v (some t) = initChar w (some t) ∧ clean v = clean w
    ∧ resolve (clean v) (s :: p) = none ∧ (initChar v none).2 = v := by
  refine ⟨?_, rfl, rfl, ?_, rfl⟩
  · unfold Model.Value.init; cases defaultOf kind <;> rfl
  · cases s <;> rfl

/-- F32 (open), pure shadow: cloning onto an object that contains the source reads the released source (`none`);
    cloning an object onto itself leaves the unknown value -/
theorem C19_cex_clone_alias :
    cloneOnto (.lst [.lst [.chr true (a!"x")]]) [.idx 0, .idx 0] [.idx 0] = none
    ∧ cloneOnto (.lst [.chr true (a!"x")]) [] [] = some .unk := ⟨rfl, rfl⟩

/-! ### non-vacuity -/
example : nodupKeys [((a!"k"), (a!"K"), .unk), ((a!"l"), (a!"l"), .na)] = true := by decide
example : listInsert (.lst [.unk, .na]) 2 (some (.chr true [])) = .ok (.lst [.unk, .na, .chr true []]) := rfl
example : listInsert (.lst [.unk, .na]) 3 none = .error INVALID_INDEX := rfl
example : distinctNorm (fun s => some s) [(a!"_a"), (a!"_b")] = true := by decide
example : ∀ vs, V.chr true [] ≠ .lst vs := by intro vs h; cases h

end CifModel
