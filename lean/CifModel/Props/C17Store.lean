import CifModel.Lemmas.StoreFault
/-
  Property C17, store part — a failed memory allocation (or a failing SQL statement) inside an API call on a managed CIF yields an
  error code and leaves the CIF as it was; the call can be repeated.

  Model: Model/StoreFault.lean (`stepFault`: micro-step `k` of the op fails; the op's documented failure handler runs).
  This is a theorem about the DOCUMENTED rollback paths as modelled (every failure path of a function bracketed by
  BEGIN_NESTTX runs ROLLBACK_NESTTX, etc.; the per-function macro uses are tied to the sources by `Store.C05_paths_link`).
  Where the real code deviates is observed by the correspondence families (`oom`, `storefault`), not proved away:
  known_findings.d/C17.json lists e.g. a failed SQLite allocation in cif_loop_get_packets / cif_walk / cif_write leaving the
  transaction open ("changed" classes).
-/
namespace CifModel
open Store Store.World Gen.ErrCodes

/-- ∀ world satisfying the store invariant (so: every reachable one, `C04_inv_reachable`), ∀ op, ∀ micro-step k, and ∀ database
    `mid` — whatever the statements the function executed between its transaction statement and the failure did to the content —:
    either k is beyond the op's last micro-step (or the op is not one `stepFault` models: see `C17_fault_modelled`) and the op runs
    without fault, or
    * the call returns CIF_MEMORY_ERROR or CIF_ERROR,
    * no handle table changes, and every managed CIF is `Same`: content (`db`, hence `abs`), BEGIN snapshot and autocommit
      status are those before the call (inside an iterator's transaction a left-over `savepoint s`, a snapshot of the unchanged
      content, may remain) — PROVED from the transaction semantics: the failure handler's ROLLBACK / ROLLBACK_NESTTX / ROLLBACK_TO
      restores the snapshot taken by BEGIN / BEGIN_NESTTX / SAVE (`failPath_same`), it is not stipulated,
    * the same call made afterwards returns exactly what the call returns when nothing had failed, and leads to a world no
      later history can tell apart from the fault-free one (`WSim`). -/
theorem C17_atomic_under_fault (w : World) (op : Op) (k : Nat) (mid : Db) (hinv : WInv w) :
    stepFault w op k mid = step w op ∨
    (((stepFault w op k mid).2.rc = some CIF_MEMORY_ERROR ∨ (stepFault w op k mid).2.rc = some CIF_ERROR) ∧
     (stepFault w op k mid).1.chs = w.chs ∧ (stepFault w op k mid).1.lhs = w.lhs ∧ (stepFault w op k mid).1.its = w.its ∧
     (∀ c, SlotRel Same (w.cifs.getD c none) ((stepFault w op k mid).1.cifs.getD c none)) ∧
     (step (stepFault w op k mid).1 op).2 = (step w op).2 ∧
     WSim (step w op).1 (step (stepFault w op k mid).1 op).1) := by
  unfold stepFault
  cases faultAt op k with
  | none => exact Or.inl rfl
  | before m =>
    simp only [stepFaultAt]
    cases ht : target w op with
    | none => exact Or.inl rfl
    | some p =>
      right
      refine ⟨?_, rfl, rfl, rfl, fun c => SlotRel.refl Same.refl _, rfl, WSim.refl _⟩
      rcases faultCode_cases m with h | h <;> simp [h]
  | inside m =>
    simp only [stepFaultAt]
    cases ht : target w op with
    | none => exact Or.inl rfl
    | some p =>
      obtain ⟨c, s⟩ := p
      right
      have hl := target_live w op c s ht
      have hsame := failPath_same op s mid
      have hsim : Sim s (failPath op s mid) := hsame.sim (hinv c s hl).txwf
      have hw := wsim_setCif_right w c s _ hl hsim
      have hstep := step_wsim w _ hw op
      refine ⟨?_, rfl, rfl, rfl, fun c' => setCif_rel Same.refl w c s _ hl hsame c', hstep.1, hstep.2⟩
      rcases faultCode_cases m with h | h <;> simp [h]

/-- for which (op, k) the theorem above is NOT the trivial left disjunct: every op that works on a CIF (`target`: a live handle; not
    cif_create / cif_destroy, not cif_pktitr_close / cif_pktitr_abort — `C17_close_fault_is_abort` —, not the calls that only read the
    handle: get_code, is-block, loop_get_category) and every micro-step of the op's layout really is a failing call -/
theorem C17_fault_modelled (w : World) (op : Op) (k : Nat) (mid : Db) (c : Nat) (s : Store) (ht : target w op = some (c, s))
    (hk : k < 4 + 2 * stmts op) :
    (stepFault w op k mid).2.rc = some CIF_MEMORY_ERROR ∨ (stepFault w op k mid).2.rc = some CIF_ERROR := by
  unfold stepFault faultAt
  by_cases h1 : k < 2
  · simp only [h1, if_true, stepFaultAt, ht]
    rcases faultCode_cases (k == 0) with h | h <;> simp [h]
  · by_cases h2 : k = 2
    · subst h2
      simp only [stepFaultAt, ht]
      rcases faultCode_cases false with h | h <;> simp [h]
    · have h2' : (k == 2) = false := by simpa using h2
      simp only [h1, if_false, h2', Bool.false_eq_true, hk, if_true, stepFaultAt, ht]
      rcases faultCode_cases (k % 2 == 1) with h | h <;> simp [h]

/-- the failure handler's result does not depend on what the interrupted statements had done -/
theorem C17_fault_path_independent (op : Op) (s : Store) (mid mid' : Db) : failPath op s mid = failPath op s mid' := by
  unfold failPath
  cases txClass op with
  | top =>
    simp only []
    cases hb : s.begin with
    | none => rfl
    | some s1 => simp only []; rw [begin_rollback s s1 hb mid, begin_rollback s s1 hb mid']
  | nest =>
    simp only []
    unfold Store.beginNest
    by_cases ha : s.autocommit = true
    · simp only [ha, if_true]
      simp [Store.rollbackNest, Store.rollback, Store.autocommit, Store.outermost]
    · have ha' : s.autocommit = false := by simpa using ha
      simp only [ha', Bool.false_eq_true, if_false]
      simp [Store.rollbackNest, Store.rollbackTo, Store.save]
  | save =>
    simp only []
    by_cases ha : s.autocommit = true
    · simp [ha]
    · have ha' : s.autocommit = false := by simpa using ha
      simp [ha', Store.rollbackTo, Store.save]
  | opening =>
    simp only []
    cases hb : ((s.nestRO (fun _ => (Except.ok () : Except Code Unit))).1).begin with
    | none => rfl
    | some s1 => simp only []; rw [begin_rollback _ s1 hb mid, begin_rollback _ s1 hb mid']
  | stmt => rfl

/-- in particular: the content the data model sees (`abs`) and the autocommit status are unchanged -/
theorem C17_abs_unchanged (s s' : Store) (h : Same s s') : abs s'.db = abs s.db ∧ s'.autocommit = s.autocommit :=
  ⟨by rw [h.1], h.autocommit_eq⟩

/-- cif_pktitr_close whose COMMIT fails: CIF_ERROR, the transaction is rolled back — the CIF is what it was when the iterator was
    created and is free again (the documented path; the changes made through the iterator are lost) -/
theorem C17_close_fault_is_abort (s : Store) (d : Db) (ht : s.txn = some d) :
    (closeFault s).2 = .error CIF_ERROR ∧ (closeFault s).1.db = d ∧ (closeFault s).1.autocommit = true := by
  simp [closeFault, abortIter, Store.rollback, Store.outermost, Store.autocommit, ht]

-- non-vacuity: a fault inside add_packet, outside and inside an iterator's transaction
private def nm (k : Str) : Name := { key := k, orig := k, valid := true }
private def w0 : World := (run {} [.cifNew, .mkBlock 0 (some (nm (a!"b"))), .mkLoop 0 none [nm (a!"_a"), nm (a!"_b")],
  .addPkt 0 [(a!"_a", .na), (a!"_b", .unk)]]).1
example : (stepFault w0 (.addPkt 0 [(a!"_a", .na)]) 5).2.rc = some CIF_MEMORY_ERROR := by decide
example : (stepFault (step w0 (.itOpen 0)).1 (.addPkt 0 [(a!"_a", .na)]) 4).2.rc = some CIF_ERROR := by decide
example : (stepFault w0 (.addPkt 0 [(a!"_a", .na)]) 50).2.rc = some CIF_OK := by decide

end CifModel
