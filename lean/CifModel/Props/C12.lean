import CifModel.Lemmas.ParserBasic
/-
  Props/C12 — each class of input defect is reported with its code and recovered as documented (property C12), as theorems
  about the integrated parser model `Model.Parser.parse`.
-/
namespace CifModel
open CifModel.Model CifModel.Model.Lexer CifModel.Model.Parser

namespace C12
/-- ASCII lower-casing: the normalisation used for the instances below -/
def lower (s : Str) : Str := s.map fun c => if 65 ≤ c ∧ c ≤ 90 then c + 32 else c
/-- default options, CIF 2.0, a target CIF -/
def opts2 : Opts := { dia := .cif2, maxFrameDepth := 1, unfold := true, prem := true, notUtf8 := false, store := true, norm := lower, normKey := id }
end C12

set_option maxRecDepth 100000 in
/-- instance (kernel-evaluated): `data_a _x` — missing value: code CIF_MISSING_VALUE at line 1, parse returns CIF_OK -/
theorem C12_missing_value_instance :
    (parse C12.opts2 acceptAll [] (a!"data_a _x")).rc = 0 ∧
    (parse C12.opts2 acceptAll [] (a!"data_a _x")).log.map (fun r => (r.code, r.line)) = [(133, 1)] := by decide +kernel

end CifModel
